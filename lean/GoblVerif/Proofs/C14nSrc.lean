/-
  C14nSrc (proofs): the bridge between the byte-level definitions that go2lean
  regenerates from /repo/c14n (Generated/C14nSrc.lean) and the code-point-level
  model (Model/C14n.lean).  The theorems that NAME the regenerated definitions
  are in Props/C07.lean, namespace Src, so that a change of the Go source
  breaks a theorem with a name; here are the vocabulary (what is observable of
  a `(bytes, error)` result, the value-level tie of the recursion through the
  interface Canonicalable) and the loop lemmas, stated over an arbitrary loop
  body `f` together with the equation that describes it.
-/
import GoblVerif.Generated.C14nSrc
import GoblVerif.Proofs.GoSem
import GoblVerif.Proofs.C14nModel
import GoblVerif.Proofs.C14nEncoding
import GoblVerif.Proofs.C14nDigits

namespace GoblVerif.C14nSrc
open GoblVerif GoblVerif.C14n GoblVerif.Generated GoblVerif.GoBytes GoblVerif.Proofs.C14n GoblVerif.Spec.C07 GoblVerif.GoSem

/-- what is observable of a Go result `([]byte, error)`: the bytes when the error is nil -/
def obs (p : Bytes × Err) : Option Bytes := if p.2.isSome then none else some p.1

theorem obs_ok (b : Bytes) : obs (b, none) = some b := rfl

theorem obs_eq_some {p : Bytes × Err} {b : Bytes} (h : obs p = some b) : p.2.isSome = false ∧ p.1 = b := by
  unfold obs at h
  split at h
  · cases h
  · simp_all

theorem obs_eq_none {p : Bytes × Err} (h : obs p = none) : p.2.isSome = true := by
  unfold obs at h
  split at h
  · assumption
  · cases h

/-- ASCII text is its own UTF-8 encoding -/
theorem utf8s_ascii : ∀ (cs : Chars), (∀ c ∈ cs, c < 128) → utf8s cs = cs
  | [], _ => rfl
  | c :: cs, h => by
    rw [utf8s_cons, utf8_ascii c (h c (by simp)), utf8s_ascii cs (fun x hx => h x (by simp [hx]))]
    rfl

theorem utf8s_nil_iff (cs : Chars) : (utf8s cs).length = 0 ↔ cs = [] := by
  cases cs with
  | nil => simp [utf8s]
  | cons c r =>
    rw [utf8s_cons]
    have : 0 < (utf8 c).length := by
      unfold utf8; repeat' split
      all_goals simp
    simp only [List.length_append, reduceCtorEq, iff_false]
    omega

theorem formatInt_ascii (i : Int) : ∀ c ∈ formatInt i, c < 128 := by
  intro c hc
  have hd := fun n => (natDigits_spec n).dig
  unfold formatInt at hc
  split at hc
  · rcases List.mem_cons.mp hc with h | h
    · omega
    · have := hd _ c h; simp [Spec.C07.isDigit] at this; omega
  · have := hd _ c hc; simp [Spec.C07.isDigit] at this; omega

/-! ## the recursion through the interface

A c14n.Canonicalable is translated as `GoBytes.Canon` (is it a Null, and what its
MarshalJSON returns); `srcJ v` is what the TRANSLATED methods return for the Go value
that stands for `v`, children first. -/

mutual
def srcJ : J → Bytes × Err
  | .atom .null => C14nSrc.Null_MarshalJSON {}
  | .atom (.bool b) => C14nSrc.Bool_MarshalJSON b
  | .atom (.int i) => C14nSrc.Integer_MarshalJSON i
  | .atom (.flt n ds e) => C14nSrc.Float_MarshalJSON (strconvE n ds e)
  | .atom (.str s) => C14nSrc.String_MarshalJSON (utf8s s)
  | .arr xs => C14nSrc.Array_MarshalJSON ⟨srcL xs⟩
  | .obj kvs => C14nSrc.Object_MarshalJSON ⟨srcK kvs⟩
def srcL : JL → List Canon
  | .nil => []
  | .cons x xs => ⟨x.isNull, srcJ x⟩ :: srcL xs
def srcK : KL → List C14nSrc.Attribute
  | .nil => []
  | .cons k v r => ⟨utf8s k, ⟨v.isNull, srcJ v⟩⟩ :: srcK r
end

/-! ## Array.MarshalJSON: the loop -/

abbrev ArrSt := Option (Bytes × Err) × Bytes

/-- one round of `for i, v := range a.Values` -/
def arrStep (it : Canon × Nat) (s : ArrSt) : ForInStep ArrSt :=
  if ((it.2 : Nat) : Int) > 0 then
    if it.1.out.2.isSome = true then .done (some ([], it.1.out.2), s.2 ++ [44])
    else .yield (none, s.2 ++ [44] ++ it.1.out.1)
  else
    if it.1.out.2.isSome = true then .done (some ([], it.1.out.2), s.2)
    else .yield (none, s.2 ++ it.1.out.1)

/-- what the loop leaves: the buffer extended by the model's text, or an early return with an error -/
def ArrPost (r : ArrSt) (buf : Bytes) : Option Chars → Prop
  | some cs => r = (none, buf ++ utf8s cs)
  | none => ∃ e b, r = (some ([], e), b) ∧ e.isSome = true

theorem arr_nil (f : Canon × Nat → ArrSt → Id (ForInStep ArrSt)) (n : Nat) (buf : Bytes) :
    ArrPost (forIn (m := Id) (([] : List Canon).zipIdx n) (none, buf) f).run buf (some []) := by
  simp [ArrPost, utf8s, Id.run, GoSem.id_pure]

theorem arr_cons (f : Canon × Nat → ArrSt → Id (ForInStep ArrSt)) (hf : ∀ it s, f it s = pure (arrStep it s))
    (c : Canon) (l : List Canon) (n : Nat) (buf : Bytes) (mx ml : Option Chars)
    (hx : obs c.out = mx.map utf8s)
    (hl : ∀ buf', ArrPost (forIn (m := Id) (l.zipIdx (n + 1)) (none, buf') f).run buf' ml) :
    ArrPost (forIn (m := Id) ((c :: l).zipIdx n) (none, buf) f).run buf
      (match mx, ml with
       | some d, some r => some ((if n == 0 then d else 0x2C :: d) ++ r)
       | _, _ => none) := by
  simp only [List.zipIdx_cons, List.forIn_cons, hf, arrStep, pure_bind]
  cases mx with
  | none =>
    have he := obs_eq_none hx
    by_cases hn : ((n : Nat) : Int) > 0 <;> simp only [hn, he, if_true, if_false, ArrPost, Id.run, GoSem.id_pure] <;>
      exact ⟨_, _, rfl, he⟩
  | some d =>
    obtain ⟨he, hd⟩ := obs_eq_some hx
    by_cases hn : ((n : Nat) : Int) > 0
    · have hn0 : (n == 0) = false := by simp; omega
      simp only [hn, he, if_true, if_false, hn0, Bool.false_eq_true]
      have := hl (buf ++ [44] ++ c.out.1)
      cases ml with
      | none => simpa [ArrPost, Id.run] using this
      | some r =>
        simp only [ArrPost, Id.run] at this ⊢
        rw [this, hd, utf8s_append, utf8s_cons, utf8_ascii 0x2C (by omega)]
        simp
    · have hn0 : (n == 0) = true := by simp; omega
      simp only [hn, he, if_false, hn0, Bool.false_eq_true, if_true]
      have := hl (buf ++ c.out.1)
      cases ml with
      | none => simpa [ArrPost, Id.run] using this
      | some r =>
        simp only [ArrPost, Id.run] at this ⊢
        rw [this, hd, utf8s_append]
        simp


/-- the whole of Array.MarshalJSON around its loop -/
theorem arr_wrap (f : Canon × Nat → ArrSt → Id (ForInStep ArrSt)) (l : List Canon) (m : Option Chars)
    (h : ArrPost (forIn (m := Id) (l.zipIdx 0) (none, [] ++ [91]) f).run ([] ++ [91]) m)
    (k : ArrSt → Id (Bytes × Err))
    (hk : ∀ s, k s = match s.fst with
        | some r => pure r
        | none => pure (s.snd ++ [93], none)) :
    obs (Id.run (forIn (m := Id) l.zipIdx (none, [] ++ [91]) f >>= k)) =
      (m.map (fun b => 0x5B :: (b ++ [0x5D]))).map utf8s := by
  cases m with
  | none =>
    obtain ⟨e, b, h1, h2⟩ := h
    simp only [Id.run] at h1
    simp only [Id.run, bind, h1, hk, obs, GoSem.id_pure, h2, if_true]; rfl
  | some cs =>
    simp only [ArrPost, Id.run] at h
    simp only [Id.run, bind, h, hk, obs, GoSem.id_pure, Option.map_some]
    simp [utf8s_append, utf8s_cons, utf8_ascii]; rfl

/-! ## Object.MarshalJSON: the loop with its `first` flag -/

abbrev ObjSt := Option (Bytes × Err) × Bytes × Bool

/-- one round of `for _, v := range o.Attributes`, given what `v.MarshalJSON()` returned -/
def objStep (am : Bytes × Err) (s : ObjSt) : ForInStep ObjSt :=
  if am.2.isSome = true then .done (some ([], am.2), s.2.1, s.2.2)
  else if ((am.1.length : Nat) : Int) = 0 then .yield (none, s.2.1, s.2.2)
  else if ¬ s.2.2 = true then .yield (none, s.2.1 ++ [44] ++ am.1, false)
  else .yield (none, s.2.1 ++ am.1, false)

def ObjPost (r : ObjSt) (buf : Bytes) : Option Chars → Prop
  | some cs => r.1 = none ∧ r.2.1 = buf ++ utf8s cs
  | none => ∃ e, r.1 = some ([], e) ∧ e.isSome = true

theorem obj_nil {α : Type} (f : α → ObjSt → Id (ForInStep ObjSt)) (first : Bool) (buf : Bytes) :
    ObjPost (forIn (m := Id) ([] : List α) (none, buf, first) f).run buf (some []) := by
  simp [ObjPost, utf8s, Id.run, GoSem.id_pure]

theorem obj_cons {α : Type} (am : α → Bytes × Err) (f : α → ObjSt → Id (ForInStep ObjSt))
    (hf : ∀ it s, f it s = pure (objStep (am it) s))
    (a : α) (l : List α) (first : Bool) (buf : Bytes) (ma : Option Chars) (ml : Bool → Option Chars)
    (ha : obs (am a) = ma.map utf8s)
    (hl : ∀ first' buf', ObjPost (forIn (m := Id) l (none, buf', first') f).run buf' (ml first')) :
    ObjPost (forIn (m := Id) (a :: l) (none, buf, first) f).run buf
      (match ma with
       | none => none
       | some t => if t.isEmpty then ml first
                   else (ml false).map (fun rest => (if first then t else 0x2C :: t) ++ rest)) := by
  simp only [List.forIn_cons, hf, objStep]
  cases ma with
  | none =>
    have he := obs_eq_none ha
    simp only [he, if_true, ObjPost, Id.run, GoSem.id_pure]
    exact ⟨_, rfl, he⟩
  | some t =>
    obtain ⟨he, hd⟩ := obs_eq_some ha
    have he' : ¬ ((am a).2.isSome = true) := by simp [he]
    simp only [he']
    by_cases ht : t = []
    · have hlen : (((am a).1.length : Nat) : Int) = 0 := by
        rw [hd]; subst ht; simp [utf8s]
      simp only [hlen, if_true, pure_bind, ht, List.isEmpty_nil]
      exact hl first buf
    · have hlen : ¬ ((((am a).1.length : Nat) : Int) = 0) := by
        rw [hd]
        have h1 := utf8s_nil_iff t
        have : (utf8s t).length ≠ 0 := fun h => ht (h1.mp h)
        omega
      have hte : t.isEmpty = false := by cases t <;> simp_all
      simp only [hlen, if_false, hte, Bool.false_eq_true]
      cases first with
      | true =>
        simp only [not_true_eq_false, if_false, pure_bind, if_true]
        have := hl false (buf ++ (am a).1)
        cases hm : ml false with
        | none => rw [hm] at this; simpa [ObjPost, Id.run] using this
        | some r =>
          rw [hm] at this
          simp only [ObjPost, Id.run, Option.map_some] at this ⊢
          refine ⟨this.1, ?_⟩
          rw [this.2, hd, utf8s_append]; simp
      | false =>
        simp only [Bool.false_eq_true, not_false_eq_true, if_true, pure_bind, if_false]
        have := hl false (buf ++ [44] ++ (am a).1)
        cases hm : ml false with
        | none => rw [hm] at this; simpa [ObjPost, Id.run] using this
        | some r =>
          rw [hm] at this
          simp only [ObjPost, Id.run, Option.map_some] at this ⊢
          refine ⟨this.1, ?_⟩
          rw [this.2, hd, utf8s_append, utf8s_cons, utf8_ascii 0x2C (by omega)]; simp


/-- the whole of Object.MarshalJSON around its loop -/
theorem obj_wrap {α : Type} (f : α → ObjSt → Id (ForInStep ObjSt)) (l : List α) (m : Option Chars)
    (h : ObjPost (forIn (m := Id) l (none, [] ++ [123], true) f).run ([] ++ [123]) m)
    (k : ObjSt → Id (Bytes × Err))
    (hk : ∀ s, k s = match s.fst with
        | some r => pure r
        | none => pure (s.snd.fst ++ [125], none)) :
    obs (Id.run (forIn (m := Id) l (none, [] ++ [123], true) f >>= k)) =
      (m.map (fun b => 0x7B :: (b ++ [0x7D]))).map utf8s := by
  cases m with
  | none =>
    obtain ⟨e, h1, h2⟩ := h
    simp only [Id.run] at h1
    simp only [Id.run, bind, h1, hk, obs, GoSem.id_pure, h2, if_true]; rfl
  | some cs =>
    simp only [ObjPost, Id.run] at h
    simp only [Id.run, bind, hk, h.1, h.2, obs, GoSem.id_pure, Option.map_some]
    simp [utf8s_append, utf8s_cons, utf8_ascii]; rfl

/-! ## Object.Sort: the stable sort by the translated comparator -/

/-- the Go attribute that stands for a member -/
def attrOf (src : J → Bytes × Err) (kv : Str × J) : C14nSrc.Attribute := ⟨utf8s kv.1, ⟨kv.2.isNull, src kv.2⟩⟩

theorem ltBytes_eq_ltS : ∀ a b : Bytes, ltBytes a b = ltS a b
  | [], [] => rfl
  | [], _ :: _ => rfl
  | _ :: _, [] => rfl
  | a :: as, b :: bs => by simp only [ltBytes, ltS, ltBytes_eq_ltS as bs]

theorem insertBy_attr (src : J → Bytes × Err) (lt : C14nSrc.Attribute → C14nSrc.Attribute → Bool)
    (hlt : ∀ a b, lt a b = ltBytes a.Key b.Key) (k : Str) (v : J) :
    ∀ l : List (Str × J), insertBy lt (attrOf src (k, v)) (l.map (attrOf src)) = (insSorted k v l).map (attrOf src)
  | [] => rfl
  | (k', v') :: r => by
    simp only [List.map_cons, insertBy, insSorted, hlt, attrOf, ltBytes_eq_ltS, ltS_utf8s]
    split
    · simp only [List.map_cons, attrOf]; congr 1; exact insertBy_attr src lt hlt k v r
    · rfl

theorem stableSort_attr (src : J → Bytes × Err) (lt : C14nSrc.Attribute → C14nSrc.Attribute → Bool)
    (hlt : ∀ a b, lt a b = ltBytes a.Key b.Key) :
    ∀ l : List (Str × J), stableSort lt (l.map (attrOf src)) = (sortL l).map (attrOf src)
  | [] => rfl
  | (k, v) :: r => by
    simp only [List.map_cons, stableSort, sortL]
    rw [stableSort_attr src lt hlt r]
    exact insertBy_attr src lt hlt k v (sortL r)


/-! ## fuel: loops whose index moves forward never run out of it -/

/-- `cnt` grows by at least one each round, the loop stops by itself once `cnt ≥ n`, and `P`
    holds of every state an early `return` leaves -/
theorem forFuel_progress {β : Type} (g : β → ForInStep β) (cnt : β → Int) (n : Int) (P Q : β → Prop)
    (hd : ∀ b b', Q b → g b = .done b' → P b' ∨ (Q b' ∧ ¬ cnt b' < n))
    (hy : ∀ b b', Q b → g b = .yield b' → Q b' ∧ cnt b + 1 ≤ cnt b') :
    ∀ (k : Nat) (b : β), Q b → n - cnt b ≤ k →
      P (GoSem.forFuel g k b) ∨ (Q (GoSem.forFuel g k b) ∧ ¬ cnt (GoSem.forFuel g k b) < n)
  | 0, b, hq, hk => Or.inr ⟨hq, by simp only [GoSem.forFuel]; omega⟩
  | k + 1, b, hq, hk => by
    rw [GoSem.forFuel]
    cases h : g b with
    | done b' => exact hd b b' hq h
    | yield b' =>
      obtain ⟨hq', hc⟩ := hy b b' hq h
      exact forFuel_progress g cnt n P Q hd hy k b' hq' (by omega)


/-- a property of one loop step, by the kind of step -/
def stepProp {β : Type} (Pd Py : β → Prop) : ForInStep β → Prop
  | .done x => Pd x
  | .yield x => Py x

theorem stepProp_ite {β : Type} (Pd Py : β → Prop) (c : Prop) [Decidable c] (a b : ForInStep β) :
    stepProp Pd Py (if c then a else b) = if c then stepProp Pd Py a else stepProp Pd Py b :=
  apply_ite _ _ _ _

theorem stepProp_ite_id {β : Type} (Pd Py : β → Prop) (c : Prop) [Decidable c] (a b : Id (ForInStep β)) :
    stepProp Pd Py (@ite (Id (ForInStep β)) c _ a b) = if c then stepProp Pd Py a else stepProp Pd Py b :=
  apply_ite _ _ _ _

theorem stepProp_done {β : Type} (Pd Py : β → Prop) (x : β) : stepProp Pd Py (.done x) = Pd x := rfl
theorem stepProp_yield {β : Type} (Pd Py : β → Prop) (x : β) : stepProp Pd Py (.yield x) = Py x := rfl

/-- `forFuel_progress` with one hypothesis about the step (so that `apply_ite` can push it
    through the `if`-tree of a big loop body without splitting the body itself) -/
theorem forFuel_progress' {β : Type} (g : β → ForInStep β) (cnt : β → Int) (n : Int) (P Q : β → Prop)
    (h : ∀ b, Q b → stepProp (fun b' => P b' ∨ (Q b' ∧ ¬ cnt b' < n)) (fun b' => Q b' ∧ cnt b + 1 ≤ cnt b') (g b)) :
    ∀ (k : Nat) (b : β), Q b → n - cnt b ≤ k →
      P (GoSem.forFuel g k b) ∨ (Q (GoSem.forFuel g k b) ∧ ¬ cnt (GoSem.forFuel g k b) < n) := by
  apply forFuel_progress
  · intro b b' hq hg; have := h b hq; rw [hg] at this; exact this
  · intro b b' hq hg; have := h b hq; rw [hg] at this; exact this

/-- utf8.DecodeRuneInString consumes at least one byte of a non-empty string -/
theorem decodeRune_width (l : Bytes) (h : l ≠ []) : 1 ≤ (decodeRune l).2 := by
  cases l with
  | nil => exact absurd rfl h
  | cons b0 rest =>
    unfold decodeRune
    repeat' split
    all_goals simp_all

theorem decodeRune_width_at (s : Bytes) (i : Int) (h0 : 0 ≤ i) (h : i < (s.length : Int)) :
    1 ≤ (decodeRune (List.drop i.toNat s)).2 := by
  apply decodeRune_width
  intro hn
  have := congrArg List.length hn
  simp at this
  omega


/-! ## Float.MarshalJSON: the byte-slice surgery after strconv.AppendFloat -/

theorem appendFloat_nil (t : Bytes) : appendFloat [] t 69 (-1) 64 = t := by
  simp [appendFloat]

theorem ins_a (t : Bytes) (h0 : t[0]! = 45) (h2 : t[2]! ≠ 46) :
    List.take 2 t ++ ([46, 48] ++ List.drop 2 t) = insertPoint t := by
  match t with
  | [] => simp at h0
  | [a] => simp at h0; subst h0; simp [insertPoint]
  | [a, b] => simp at h0; subst h0; simp [insertPoint]
  | a :: b :: c :: r =>
    simp at h0 h2; subst h0
    simp [insertPoint, h2]

theorem ins_b (t : Bytes) (h0 : t[0]! = 45) (h2 : ¬ t[2]! ≠ 46) : t = insertPoint t := by
  match t with
  | [] => simp at h0
  | [a] => simp at h2
  | [a, b] => simp at h2
  | a :: b :: c :: r =>
    simp at h0 h2; subst h0; subst h2
    simp [insertPoint]

theorem ins_c (t : Bytes) (hne : t ≠ []) (h0 : ¬ t[0]! = 45) (h1 : t[1]! ≠ 46) :
    List.take 1 t ++ ([46, 48] ++ List.drop 1 t) = insertPoint t := by
  match t with
  | [] => exact absurd rfl hne
  | [a] => simp at h0; rw [insertPoint_pos a [] h0]; simp
  | a :: b :: r =>
    simp at h0 h1
    rw [insertPoint_pos a (b :: r) h0]; simp [h1]

theorem ins_d (t : Bytes) (h0 : ¬ t[0]! = 45) (h1 : ¬ t[1]! ≠ 46) : t = insertPoint t := by
  match t with
  | [] => simp at h1
  | [a] => simp at h1
  | a :: b :: r =>
    simp at h0 h1; subst h1
    rw [insertPoint_pos a (46 :: r) h0]; simp

/-- `i := bytes.IndexByte(num, 'E')`, `num[:i+1]`, `num[i+1:]` are `splitAtE` -/
theorem split_eq : ∀ l : Bytes, 69 ∈ l → ∃ k : Nat, indexByte l 69 = (k : Int) ∧ k < l.length ∧
    List.take (k + 1) l = (splitAtE l).1 ∧ List.drop (k + 1) l = (splitAtE l).2
  | [], h => by simp at h
  | c :: cs, h => by
    by_cases hc : c = 69
    · subst hc; exact ⟨0, by simp [indexByte], by simp, by simp [splitAtE], by simp [splitAtE]⟩
    · have hm : 69 ∈ cs := by
        rcases List.mem_cons.mp h with h | h
        · exact absurd h.symm hc
        · exact h
      obtain ⟨k, h1, h2, h3, h4⟩ := split_eq cs hm
      refine ⟨k + 1, ?_, by simp; omega, ?_, ?_⟩
      · simp only [indexByte, hc, if_false, h1]; rfl
      · have : (c == 69) = false := by simp [hc]
        simp [splitAtE, this, h3]
      · have : (c == 69) = false := by simp [hc]
        simp [splitAtE, this, h4]

theorem copy_fresh (src : Bytes) : GoBytes.copy (List.replicate src.length 0) src = src := by
  simp [GoBytes.copy]

/-- one round of `for i, v := range exp` -/
def scanStep (len : Nat) (it : Nat × Nat) (s : Int × Int) : ForInStep (Int × Int) :=
  if it.1 = 45 ∨ it.1 = 43 then .yield (1, s.2)
  else if it.1 = 48 ∧ ((it.2 : Nat) : Int) + 1 < ((len : Nat) : Int) then .yield (s.1, ((it.2 : Nat) : Int) + 1)
  else .done (s.1, s.2)

theorem scan_loop (len : Nat) (f : Nat × Nat → Int × Int → Id (ForInStep (Int × Int)))
    (hf : ∀ it s, f it s = pure (scanStep len it s)) :
    ∀ (l : Bytes) (n j k : Nat),
      (forIn (m := Id) (l.zipIdx n) (((j : Nat) : Int), ((k : Nat) : Int)) f).run =
        ((((scanExp l n len j k).1 : Nat) : Int), (((scanExp l n len j k).2 : Nat) : Int))
  | [], n, j, k => by simp [scanExp, Id.run, GoSem.id_pure]
  | v :: vs, n, j, k => by
    simp only [List.zipIdx_cons, List.forIn_cons, hf, scanStep, scanExp, pure_bind]
    by_cases h1 : v = 45 ∨ v = 43
    · have h1' : (v == 45 || v == 43) = true := by simpa using h1
      simp only [h1, h1', if_true]
      exact scan_loop len f hf vs (n + 1) 1 k
    · have h1' : (v == 45 || v == 43) = false := by simpa using h1
      simp only [h1, h1', if_false, Bool.false_eq_true]
      by_cases h2 : v = 48 ∧ ((n : Nat) : Int) + 1 < ((len : Nat) : Int)
      · have h2' : (v == 48 && decide (n + 1 < len)) = true := by
          simp only [Bool.and_eq_true, beq_iff_eq, decide_eq_true_eq]; exact ⟨h2.1, by omega⟩
        have hlt : n + 1 < len := by omega
        simp only [h2, and_self, if_true]
        have := scan_loop len f hf vs (n + 1) j (n + 1)
        simpa [hlt] using this
      · have h2' : (v == 48 && decide (n + 1 < len)) = false := by
          rw [Bool.eq_false_iff]; intro hh
          simp only [Bool.and_eq_true, beq_iff_eq, decide_eq_true_eq] at hh
          exact h2 ⟨hh.1, by omega⟩
        simp only [h2, h2', if_false, Bool.false_eq_true, Id.run, GoSem.id_pure]


/-- the exponent loop followed by whatever comes after it -/
theorem float_tail (len : Nat) (f : Nat × Nat → Int × Int → Id (ForInStep (Int × Int)))
    (hf : ∀ it s, f it s = pure (scanStep len it s)) (ex : Bytes) (k : Int × Int → Id (Bytes × Err)) :
    (forIn (m := Id) ex.zipIdx ((0 : Int), (0 : Int)) f >>= k) =
      k ((((scanExp ex 0 len 0 0).1 : Nat) : Int), (((scanExp ex 0 len 0 0).2 : Nat) : Int)) := by
  have := scan_loop len f hf ex 0 0 0
  simp only [Id.run] at this
  simp only [bind]
  rw [show ((0 : Int), (0 : Int)) = ((((0 : Nat) : Int)), (((0 : Nat) : Int))) from rfl, this]

theorem head_plus (ex : Bytes) : (ex.head? == some 0x2B) = decide (ex[0]! = 43) := by
  cases ex with
  | nil => simp
  | cons a r => by_cases h : a = 43 <;> simp [h]


/-- closes `⟨rest of Float.MarshalJSON on num⟩ = ((splitAtE num).1 ++ expHacks (splitAtE num).2, none)`
    given `hEn : 69 ∈ num` (the part of the body after the decimal point has been inserted) -/
macro "float_rest" num:ident hEn:ident : tactic =>
  `(tactic| (
    obtain ⟨k, h1, hk, h3, h4⟩ := split_eq $num $hEn
    have e1 : ((k : Int) + 1).toNat = k + 1 := by omega
    have e2 : ((($num).length : Int) - (k : Int) - 1).toNat = (List.drop (k + 1) $num).length := by
      simp only [List.length_drop]; omega
    simp only [h1, e1, e2, copy_fresh, h3, h4]
    generalize (splitAtE $num).2 = ex
    generalize (splitAtE $num).1 = pre
    unfold expHacks
    simp only [head_plus]
    split
    · rename_i hp
      simp only [hp, decide_true, if_true]
      refine (float_tail _ _ (by intros; rfl) _ _).trans ?_
      generalize scanExp _ _ _ _ _ = jk
      obtain ⟨j, k'⟩ := jk
      by_cases hk0 : k' = 0 <;> simp [hk0, GoSem.id_pure]
    · rename_i hp
      simp only [hp, decide_false, Bool.false_eq_true, if_false]
      refine (float_tail _ _ (by intros; rfl) _ _).trans ?_
      generalize scanExp _ _ _ _ _ = jk
      obtain ⟨j, k'⟩ := jk
      by_cases hk0 : k' = 0 <;> simp [hk0, GoSem.id_pure]))

theorem mem_insert_point (t : Bytes) (d : Nat) (hE : 69 ∈ t) : 69 ∈ List.take d t ++ ([46, 48] ++ List.drop d t) := by
  have := List.take_append_drop d t
  rw [← this] at hE
  simp only [List.mem_append] at hE ⊢
  rcases hE with h | h
  · exact Or.inl h
  · exact Or.inr (Or.inr h)


theorem fltText_ascii (n : Bool) (ds : List Nat) (e : Int) (hw : wfDigits ds = true) :
    ∀ c ∈ fltText n ds e, c < 128 := by
  cases ds with
  | nil => simp [wfDigits] at hw
  | cons d rest =>
    obtain ⟨hd, hall, _⟩ := wfDigits_cons hw
    intro c hc
    unfold fltText at hc
    simp only [List.mem_append, List.mem_cons, List.headD_cons, List.tail_cons] at hc
    rcases hc with hc | hc | hc | hc | hc | hc
    · cases n <;> simp at hc; omega
    · omega
    · omega
    · unfold fracText at hc
      split at hc
      · simp at hc; omega
      · simp only [List.mem_map] at hc
        obtain ⟨x, hx, rfl⟩ := hc
        have := List.all_eq_true.mp hall x hx
        simp at this; omega
    · omega
    · exact formatInt_ascii e c hc

/-! ## encodeString: the byte loop against the code-point model -/

abbrev EncSt := Option (Bytes × Err) × Bytes × Int × Int

/-- the bytes written after the backslash by the `switch b` of encodeString -/
def escBytes (b : Nat) : Bytes :=
  if b = 92 ∨ b = 34 then [b]
  else if b = 10 then [110]
  else if b = 13 then [114]
  else if b = 9 then [116]
  else if b = 12 then [102]
  else if b = 8 then [98]
  else [117, 48, 48] ++ [byteAt C14nSrc.hex (b >>> 4)] ++ [byteAt C14nSrc.hex (b &&& 15)]

/-- one round of the loop of encodeString, compact form (Props shows the regenerated body equal to it) -/
def encStep (s : Bytes) (st : EncSt) : ForInStep EncSt :=
  let i := st.2.2.2
  let start := st.2.2.1
  let buf := st.2.1
  if ¬ i < (s.length : Int) then .done (none, buf, start, i)
  else
    let b := byteAt s i.toNat
    if b < 128 then
      if C14nSrc.safeSet[b]! = true then .yield (none, buf, start, i + 1)
      else .yield (none, (if start < i then buf ++ slice s start.toNat i.toNat else buf) ++ [92] ++ escBytes b, i + 1, i + 1)
    else
      let d := decodeRune (List.drop i.toNat s)
      if d.1 = 65533 ∧ d.2 = 1 then .done (some ([], GoStr.errNew "json: unsupported value"), buf, start, i)
      else .yield (none, buf, start, i + d.2)

theorem forFuel_congr {β : Type} (g g' : β → ForInStep β) (h : ∀ b, g b = g' b) (n : Nat) (b : β) :
    forFuel g n b = forFuel g' n b := by
  have : g = g' := funext h
  rw [this]

theorem byteAt_at (pre post : Bytes) (x : Nat) : byteAt (pre ++ x :: post) pre.length = x := by
  simp [byteAt]

theorem slice_extend (pre mid post : Bytes) (start : Nat) (h : start ≤ pre.length) :
    slice (pre ++ mid ++ post) start (pre.length + mid.length) = slice (pre ++ mid ++ post) start pre.length ++ mid := by
  unfold slice
  have e1 : List.take (pre.length + mid.length) (pre ++ mid ++ post) = pre ++ mid := by
    rw [show pre.length + mid.length = (pre ++ mid).length by simp, List.take_left']
    rfl
  have e2 : List.take pre.length (pre ++ mid ++ post) = pre := by
    rw [List.append_assoc, List.take_left']; rfl
  rw [e1, e2, List.drop_append_of_le_length h]

theorem slice_empty (l : Bytes) (i : Nat) : slice l i i = [] := by
  unfold slice
  rw [List.drop_eq_nil_iff]; simp; omega

theorem slice_full (l : Bytes) (start : Nat) : slice l start l.length = List.drop start l := by
  unfold slice; simp

/-- the switch of encodeString is the model's escape, which is ASCII; the two extracted safeSets agree -/
theorem esc_table : ∀ c, c < 128 →
    (escBytes c = escapeAscii c ∧ (∀ x ∈ escapeAscii c, x < 128) ∧ C14nSrc.safeSet[c]! = C14n.safe c) := by
  decide +kernel

theorem utf8_length_pos (c : Nat) : 0 < (utf8 c).length := by
  unfold utf8; repeat' split
  all_goals simp

/-- the first byte of the encoding of a non-ASCII character is not ASCII -/
theorem utf8_lead (c : Nat) (h : 128 ≤ c) (post : Bytes) : 128 ≤ byteAt (utf8 c ++ post) 0 := by
  unfold utf8
  repeat' split
  all_goals simp [byteAt]
  all_goals omega

/-- utf8.DecodeRuneInString reads back what utf8 wrote for a non-ASCII scalar value -/
theorem decodeRune_utf8 (c : Nat) (h : 128 ≤ c) (hs : isScalar c = true) (post : Bytes) :
    decodeRune (utf8 c ++ post) = ((c : Int), ((utf8 c).length : Int)) := by
  simp only [isScalar, Bool.and_eq_true, decide_eq_true_eq, Bool.not_eq_true', Bool.and_eq_false_iff,
    decide_eq_false_iff_not] at hs
  unfold utf8
  have h0 : ¬ c < 0x80 := by omega
  simp only [h0, if_false]
  by_cases h1 : c < 0x800
  · simp only [h1, if_true, List.cons_append, List.nil_append, decodeRune, GoBytes.isCont, decide_eq_true_eq]
    have a1 : ¬ (0xC0 + c / 64 < 0x80) := by omega
    have a2 : 0xC2 ≤ 0xC0 + c / 64 ∧ 0xC0 + c / 64 ≤ 0xDF := by omega
    have a3 : 0x80 ≤ 0x80 + c % 64 ∧ 0x80 + c % 64 ≤ 0xBF := by omega
    simp only [a1, a2, a3, if_false, if_true, and_self, decide_true, List.length_cons, List.length_nil]
    refine Prod.ext ?_ ?_ <;> simp <;> omega
  · simp only [h1, if_false]
    by_cases h2 : c < 0x10000
    · simp only [h2, if_true, List.cons_append, List.nil_append, decodeRune, GoBytes.isCont, decide_eq_true_eq]
      have a1 : ¬ (0xE0 + c / 4096 < 0x80) := by omega
      have a1' : ¬ (0xC2 ≤ 0xE0 + c / 4096 ∧ 0xE0 + c / 4096 ≤ 0xDF) := by omega
      have a2 : 0xE0 ≤ 0xE0 + c / 4096 ∧ 0xE0 + c / 4096 ≤ 0xEF := by omega
      have a3 : (if 0xE0 + c / 4096 = 0xE0 then 0xA0 else 0x80) ≤ 0x80 + c / 64 % 64 ∧
          0x80 + c / 64 % 64 ≤ (if 0xE0 + c / 4096 = 0xED then 0x9F else 0xBF) ∧
          (0x80 ≤ 0x80 + c % 64 ∧ 0x80 + c % 64 ≤ 0xBF) := by
        refine ⟨?_, ?_, by omega⟩
        · split <;> omega
        · split <;> omega
      simp only [a1, a1', a2, a3, if_false, if_true, and_self, decide_true, List.length_cons, List.length_nil]
      refine Prod.ext ?_ ?_ <;> simp <;> omega
    · simp only [h2, if_false, List.cons_append, List.nil_append, decodeRune, GoBytes.isCont, decide_eq_true_eq]
      have a1 : ¬ (0xF0 + c / 262144 < 0x80) := by omega
      have a1' : ¬ (0xC2 ≤ 0xF0 + c / 262144 ∧ 0xF0 + c / 262144 ≤ 0xDF) := by omega
      have a1'' : ¬ (0xE0 ≤ 0xF0 + c / 262144 ∧ 0xF0 + c / 262144 ≤ 0xEF) := by omega
      have a2 : 0xF0 ≤ 0xF0 + c / 262144 ∧ 0xF0 + c / 262144 ≤ 0xF4 := by omega
      have a3 : (if 0xF0 + c / 262144 = 0xF0 then 0x90 else 0x80) ≤ 0x80 + c / 4096 % 64 ∧
          0x80 + c / 4096 % 64 ≤ (if 0xF0 + c / 262144 = 0xF4 then 0x8F else 0xBF) ∧
          (0x80 ≤ 0x80 + c / 64 % 64 ∧ 0x80 + c / 64 % 64 ≤ 0xBF) ∧ (0x80 ≤ 0x80 + c % 64 ∧ 0x80 + c % 64 ≤ 0xBF) := by
        refine ⟨?_, ?_, by omega, by omega⟩
        · split <;> omega
        · split <;> omega
      simp only [a1, a1', a1'', a2, a3, if_false, if_true, and_self, decide_true, List.length_cons, List.length_nil]
      refine Prod.ext ?_ ?_ <;> simp <;> omega

theorem byteAt_append_right (pre l : Bytes) : byteAt (pre ++ l) pre.length = byteAt l 0 := by
  cases l with
  | nil => simp [byteAt]
  | cons x r => simp [byteAt]

theorem utf8_length_ge2 (c : Nat) (h : 128 ≤ c) : 2 ≤ (utf8 c).length := by
  unfold utf8; repeat' split
  all_goals simp
  all_goals omega

theorem utf8s_snoc (done : Str) (c : Nat) : utf8s (done ++ [c]) = utf8s done ++ utf8 c := by
  rw [utf8s_append, utf8s_cons]; simp [utf8s]

/-- the loop of encodeString from a rune boundary: with the bytes `buf ++ s[start:i]` behind it
    (`buf` written, `s[start:i]` pending), it ends at `len(s)` having produced them followed by
    the UTF-8 of the model's text for the remaining code points -/
theorem enc_loop (B : Bytes) : ∀ (rest done : Str) (buf : Bytes) (start fuel : Nat),
    B = utf8s done ++ utf8s rest → start ≤ (utf8s done).length → rest.length ≤ fuel → rest.all isScalar = true →
    ∃ out buf' start', encodeRunes rest = some out ∧
      forFuel (encStep B) fuel (none, buf, (start : Int), ((utf8s done).length : Int)) =
        (none, buf', ((start' : Nat) : Int), ((B.length : Nat) : Int)) ∧
      buf' ++ List.drop start' B = buf ++ slice B start (utf8s done).length ++ utf8s out
  | [], done, buf, start, fuel, hB, hst, _, _ => by
    have hlen : B.length = (utf8s done).length := by rw [hB]; simp [utf8s]
    refine ⟨[], buf, start, rfl, ?_, ?_⟩
    · cases fuel with
      | zero => simp [forFuel, hlen]
      | succ f => simp [forFuel, encStep, hlen]
    · rw [← hlen, slice_full]; simp [utf8s]
  | c :: cs, done, buf, start, fuel, hB, hst, hf, hsc => by
    obtain ⟨f, rfl⟩ : ∃ f, fuel = f + 1 := ⟨fuel - 1, by simp at hf; omega⟩
    have hsc' : isScalar c = true ∧ cs.all isScalar = true := by simpa using hsc
    have hB' : B = utf8s done ++ utf8 c ++ utf8s cs := by rw [hB, utf8s_cons, List.append_assoc]
    have hpos := utf8_length_pos c
    have hlt : ((utf8s done).length : Int) < (B.length : Int) := by
      rw [hB']; simp only [List.length_append]; omega
    have hB2 : B = utf8s (done ++ [c]) ++ utf8s cs := by rw [utf8s_snoc, hB']
    have hlen2 : (utf8s (done ++ [c])).length = (utf8s done).length + (utf8 c).length := by
      rw [utf8s_snoc]; simp
    have hsl := slice_extend (utf8s done) (utf8 c) (utf8s cs) start hst
    rw [← hB'] at hsl
    rw [forFuel]
    by_cases hc : c < 128
    · -- ASCII
      have hu : utf8 c = [c] := utf8_ascii c hc
      obtain ⟨he1, he2, he3⟩ := esc_table c hc
      have hb : byteAt B (utf8s done).length = c := by
        rw [hB', hu]; simpa using byteAt_at (utf8s done) (utf8s cs) c
      rw [hu] at hlen2 hsl
      by_cases hsafe : C14n.safe c = true
      · have hstep : encStep B (none, buf, (start : Int), ((utf8s done).length : Int)) =
            .yield (none, buf, (start : Int), (((utf8s (done ++ [c])).length : Nat) : Int)) := by
          simp only [encStep, hlt, not_true_eq_false, if_false, Int.toNat_natCast, hb, hc, if_true, he3, hsafe, hlen2]
          simp
        rw [hstep]
        obtain ⟨out, buf', start', h1, h2, h3⟩ := enc_loop B cs (done ++ [c]) buf start f hB2 (by omega) (by simp at hf; omega) hsc'.2
        refine ⟨c :: out, buf', start', ?_, h2, ?_⟩
        · simp [encodeRunes, runeSelf_eq, hc, hsafe, h1]
        · rw [h3, hlen2, hsl, utf8s_cons, hu]; simp
      · have hsafe' : ¬ (C14n.safe c = true) := hsafe
        have hbuf : (if (start : Int) < ((utf8s done).length : Int) then buf ++ slice B start (utf8s done).length else buf) =
            buf ++ slice B start (utf8s done).length := by
          split
          · rfl
          · have : start = (utf8s done).length := by omega
            rw [this, slice_empty]; simp
        have hstep : encStep B (none, buf, (start : Int), ((utf8s done).length : Int)) =
            .yield (none, buf ++ slice B start (utf8s done).length ++ [92] ++ escapeAscii c,
              (((utf8s (done ++ [c])).length : Nat) : Int), (((utf8s (done ++ [c])).length : Nat) : Int)) := by
          simp only [encStep, hlt, not_true_eq_false, if_false, Int.toNat_natCast, hb, hc, if_true, he3, hsafe',
            Bool.false_eq_true, hbuf, he1, hlen2]
          simp
        rw [hstep]
        obtain ⟨out, buf', start', h1, h2, h3⟩ := enc_loop B cs (done ++ [c])
          (buf ++ slice B start (utf8s done).length ++ [92] ++ escapeAscii c) (utf8s (done ++ [c])).length f hB2
          (Nat.le_refl _) (by simp at hf; omega) hsc'.2
        refine ⟨0x5C :: (escapeAscii c ++ out), buf', start', ?_, h2, ?_⟩
        · simp [encodeRunes, runeSelf_eq, hc, hsafe', h1]
        · rw [h3, slice_empty, utf8s_cons, utf8_ascii 0x5C (by omega), utf8s_append, utf8s_ascii _ he2]; simp
    · -- a non-ASCII scalar value
      have hc' : 128 ≤ c := by omega
      have hb : ¬ (byteAt B (utf8s done).length < 128) := by
        rw [hB', List.append_assoc, byteAt_append_right]
        have := utf8_lead c hc' (utf8s cs); omega
      have hdrop : List.drop (utf8s done).length B = utf8 c ++ utf8s cs := by
        rw [hB', List.append_assoc, List.drop_left']; rfl
      have hdec := decodeRune_utf8 c hc' hsc'.1 (utf8s cs)
      have h2 := utf8_length_ge2 c hc'
      have hstep : encStep B (none, buf, (start : Int), ((utf8s done).length : Int)) =
          .yield (none, buf, (start : Int), (((utf8s (done ++ [c])).length : Nat) : Int)) := by
        have hne : ¬ (((c : Nat) : Int) = 65533 ∧ (((utf8 c).length : Nat) : Int) = 1) := by omega
        simp only [encStep, hlt, not_true_eq_false, if_false, Int.toNat_natCast, hb, hdrop, hdec, hne, hlen2]
        simp
      rw [hstep]
      obtain ⟨out, buf', start', h1, h2', h3⟩ := enc_loop B cs (done ++ [c]) buf start f hB2 (by omega) (by simp at hf; omega) hsc'.2
      refine ⟨c :: out, buf', start', ?_, h2', ?_⟩
      · have hns : (!isScalar c) = false := by simp [hsc'.1]
        simp [encodeRunes, runeSelf_eq, hc, hns, h1]
      · rw [h3, hlen2, hsl, utf8s_cons]; simp

theorem utf8s_length_ge : ∀ s : Str, s.length ≤ (utf8s s).length
  | [] => by simp [utf8s]
  | c :: cs => by
    rw [utf8s_cons]
    have := utf8s_length_ge cs
    have := utf8_length_pos c
    simp only [List.length_cons, List.length_append]; omega

/-! ## escapedUnit: the four hexadecimal digits -/

theorem or16 (r v : Nat) (h : v < 16) : (r * 16) ||| v = r * 16 + v := by
  have := Nat.shiftLeft_add_eq_or_of_lt (b := v) (i := 4) (by simpa using h) r
  simp only [Nat.shiftLeft_eq] at this
  exact this.symm

/-- the model's reading of hexadecimal digits, most significant first -/
def hexFold : List Nat → Nat → Option Nat
  | [], r => some r
  | c :: cs, r => match hexDigit c with
    | some v => hexFold cs (r * 16 + v)
    | none => none

abbrev HexSt := Option Int × Int

/-- one round of `for _, c := range data[2:6]` -/
def hexStep (c : Nat) (s : HexSt) : ForInStep HexSt :=
  if 48 ≤ c ∧ c ≤ 57 then .yield (none, intOr (s.2 * 2 ^ Int.toNat 4) (Int.ofNat (c - 48)))
  else if 97 ≤ c ∧ c ≤ 102 then .yield (none, intOr (s.2 * 2 ^ Int.toNat 4) (Int.ofNat (c - 87)))
  else if 65 ≤ c ∧ c ≤ 70 then .yield (none, intOr (s.2 * 2 ^ Int.toNat 4) (Int.ofNat (c - 55)))
  else .done (some (-1), s.2)

theorem intOr_step (r v : Nat) (h : v < 16) : intOr ((r : Int) * 2 ^ Int.toNat 4) (Int.ofNat v) = ((r * 16 + v : Nat) : Int) := by
  unfold intOr
  have e1 : ((r : Int) * 2 ^ Int.toNat 4).toNat = r * 16 := by
    have : (2 : Int) ^ Int.toNat 4 = 16 := by decide
    rw [this]; omega
  rw [e1, show (Int.ofNat v).toNat = v from rfl, or16 r v h]; rfl

theorem hexStep_eq (c : Nat) (r : Nat) :
    hexStep c (none, (r : Int)) = match hexDigit c with
      | some v => .yield (none, ((r * 16 + v : Nat) : Int))
      | none => .done (some (-1), (r : Int)) := by
  unfold hexStep hexDigit
  by_cases h1 : 48 ≤ c ∧ c ≤ 57
  · have : (decide (0x30 ≤ c) && decide (c ≤ 0x39)) = true := by simp; omega
    simp only [h1, and_self, if_true, this, intOr_step r (c - 48) (by omega)]; rfl
  · have n1 : (decide (0x30 ≤ c) && decide (c ≤ 0x39)) = false := by
      rw [Bool.eq_false_iff]; simp; omega
    by_cases h2 : 97 ≤ c ∧ c ≤ 102
    · have : (decide (0x61 ≤ c) && decide (c ≤ 0x66)) = true := by simp; omega
      have e : c - 0x61 + 10 = c - 87 := by omega
      simp only [h1, h2, and_self, if_true, if_false, n1, this, Bool.false_eq_true, e, intOr_step r (c - 87) (by omega)]
      simp
    · have n2 : (decide (0x61 ≤ c) && decide (c ≤ 0x66)) = false := by
        rw [Bool.eq_false_iff]; simp; omega
      by_cases h3 : 65 ≤ c ∧ c ≤ 70
      · have : (decide (0x41 ≤ c) && decide (c ≤ 0x46)) = true := by simp; omega
        have e : c - 0x41 + 10 = c - 55 := by omega
        simp only [h1, h2, h3, and_self, if_true, if_false, n1, n2, this, Bool.false_eq_true, e,
          intOr_step r (c - 55) (by omega)]
        simp
      · have n3 : (decide (0x41 ≤ c) && decide (c ≤ 0x46)) = false := by
          rw [Bool.eq_false_iff]; simp; omega
        simp only [h1, h2, h3, if_false, n1, n2, n3, Bool.false_eq_true]

theorem hex_loop (f : Nat → HexSt → Id (ForInStep HexSt)) (hf : ∀ c s, f c s = pure (hexStep c s)) :
    ∀ (l : List Nat) (r : Nat),
      match hexFold l r with
      | some r' => (forIn (m := Id) l (none, (r : Int)) f).run = (none, (r' : Int))
      | none => (forIn (m := Id) l (none, (r : Int)) f).run.1 = some (-1)
  | [], r => by simp [hexFold, Id.run, GoSem.id_pure]
  | c :: cs, r => by
    simp only [List.forIn_cons, hf, pure_bind, hexStep_eq, hexFold]
    cases hexDigit c with
    | none => simp [Id.run, GoSem.id_pure]
    | some v => exact hex_loop f hf cs (r * 16 + v)

/-- the whole of escapedUnit after its guard -/
theorem hex_wrap (f : Nat → HexSt → Id (ForInStep HexSt)) (hf : ∀ c s, f c s = pure (hexStep c s)) (l : List Nat)
    (k : HexSt → Id Int) (hk : ∀ s, k s = match s.1 with | some r => pure r | none => pure s.2) :
    (forIn (m := Id) l (none, 0) f >>= k) = (match hexFold l 0 with
      | some r' => ((r' : Nat) : Int)
      | none => (-1 : Int) : Int) := by
  have h := hex_loop f hf l 0
  simp only [Id.run] at h
  cases hh : hexFold l 0 with
  | some r' =>
    rw [hh] at h
    simp only [bind]
    rw [show ((0 : Int)) = ((0 : Nat) : Int) from rfl, h, hk]; rfl
  | none =>
    rw [hh] at h
    simp only [bind]
    rw [show ((0 : Int)) = ((0 : Nat) : Int) from rfl, hk, h]; rfl


theorem escapedUnit_guard (a0 a1 a b c d : Nat) (rest : Bytes) (h : a0 ≠ 92 ∨ a1 ≠ 117) :
    C14n.escapedUnit (a0 :: a1 :: a :: b :: c :: d :: rest) = none := by
  rw [C14n.escapedUnit.eq_def]
  split
  · rename_i heq
    simp only [List.cons.injEq] at heq
    rcases h with h | h
    · exact absurd heq.1 h
    · exact absurd heq.2.1 h
  · rfl


/-! ## checkEncoding: the scan for unpaired surrogate escapes -/

/-- Go's rune result of escapedUnit for the model's optional code unit -/
def unitInt : Option Nat → Int
  | some u => ((u : Nat) : Int)
  | none => -1

theorem isSurrogate_unitInt (o : Option Nat) : GoBytes.isSurrogate (unitInt o) = C14n.isSurrogate o := by
  cases o with
  | none => simp [unitInt, GoBytes.isSurrogate, C14n.isSurrogate]
  | some u =>
    simp only [unitInt, GoBytes.isSurrogate, C14n.isSurrogate]
    have hi : (0xD800 ≤ ((u : Nat) : Int) ∧ ((u : Nat) : Int) < 0xE000) ↔ (0xD800 ≤ u ∧ u < 0xE000) := by omega
    by_cases h : 0xD800 ≤ u ∧ u < 0xE000
    · have h2 := hi.mpr h
      simp [h, h2]
    · have h2 : ¬ (0xD800 ≤ ((u : Nat) : Int) ∧ ((u : Nat) : Int) < 0xE000) := fun x => h (hi.mp x)
      have h3 : (decide (0xD800 ≤ u) && decide (u < 0xE000)) = false := by
        rw [Bool.eq_false_iff]; simpa using h
      rw [h3]; exact decide_eq_false h2

theorem decodeRune16_unitInt (o1 o2 : Option Nat) : (decodeRune16 (unitInt o1) (unitInt o2) = 65533) ↔ pairOK o1 o2 = false := by
  cases o1 with
  | none => simp [unitInt, decodeRune16, pairOK]
  | some a =>
    cases o2 with
    | none => simp [unitInt, decodeRune16, pairOK]
    | some b =>
      simp only [unitInt, decodeRune16, pairOK]
      by_cases h : 0xD800 ≤ ((a : Nat) : Int) ∧ ((a : Nat) : Int) < 0xDC00 ∧ 0xDC00 ≤ ((b : Nat) : Int) ∧ ((b : Nat) : Int) < 0xE000
      · simp only [h, and_self, if_true]
        have h' : (decide (0xD800 ≤ a) && decide (a < 0xDC00) && decide (0xDC00 ≤ b) && decide (b < 0xE000)) = true := by
          simp; omega
        rw [h']
        constructor
        · intro he; omega
        · intro hf; cases hf
      · simp only [h, if_false]
        have h' : (decide (0xD800 ≤ a) && decide (a < 0xDC00) && decide (0xDC00 ≤ b) && decide (b < 0xE000)) = false := by
          rw [Bool.eq_false_iff]; simp; omega
        rw [h']; simp

abbrev ChkSt := Option Err × Int

/-- one round of the loop of checkEncoding, with escapedUnit as the parameter `eu` -/
def chkStep (eu : Bytes → Int) (data : Bytes) (s : ChkSt) : ForInStep ChkSt :=
  if ¬ s.2 < (data.length : Int) then .done (none, s.2)
  else if data[s.2.toNat]! ≠ 92 then .yield (none, s.2 + 1)
  else if ¬ GoBytes.isSurrogate (eu (List.drop s.2.toNat data)) = true then .yield (none, s.2 + 1 + 1)
  else if decodeRune16 (eu (List.drop s.2.toNat data)) (eu (List.drop (s.2 + 1 + 5).toNat data)) = 65533 then
    .done (some (GoStr.errNew "invalid surrogate pair in unicode escape"), s.2 + 1)
  else .yield (none, s.2 + 1 + 6 + 1)

/-- what the loop leaves in its early-return slot -/
def chkRes (b : Bool) : Option Err :=
  if b then none else some (GoStr.errNew "invalid surrogate pair in unicode escape")

/-- the loop from index `len(pre) + skip`: it ends without an error exactly when the model's scan passes -/
theorem chk_loop (eu : Bytes → Int) (heu : ∀ b, eu b = unitInt (C14n.escapedUnit b)) (data : Bytes) :
    ∀ (rest pre : Bytes) (skip fuel : Nat), data = pre ++ rest → rest.length ≤ fuel + skip →
      (forFuel (chkStep eu data) fuel (none, ((pre.length + skip : Nat) : Int))).1 = chkRes (surrogatesPaired skip rest)
  | [], pre, skip, fuel, hd, _ => by
    have hlen : data.length = pre.length := by rw [hd]; simp
    cases fuel with
    | zero => simp [forFuel, surrogatesPaired, chkRes]
    | succ f =>
      have t2 : (data.length : Int) ≤ (pre.length : Int) + (skip : Int) := by omega
      simp [forFuel, chkStep, t2, surrogatesPaired, chkRes]
  | b :: rest', pre, skip + 1, fuel, hd, hf => by
    have hd' : data = (pre ++ [b]) ++ rest' := by rw [hd]; simp
    have := chk_loop eu heu data rest' (pre ++ [b]) skip fuel hd' (by simp at hf; omega)
    have e : ((pre.length + (skip + 1) : Nat) : Int) = (((pre ++ [b]).length + skip : Nat) : Int) := by simp; omega
    rw [surrogatesPaired, e]; exact this
  | b :: rest', pre, 0, fuel, hd, hf => by
    obtain ⟨f, rfl⟩ : ∃ f, fuel = f + 1 := ⟨fuel - 1, by simp at hf; omega⟩
    have hd' : data = (pre ++ [b]) ++ rest' := by rw [hd]; simp
    have hlt : ((pre.length + 0 : Nat) : Int) < (data.length : Int) := by rw [hd]; simp; omega
    have hb : data[pre.length]! = b := by rw [hd]; simp
    have hdrop : List.drop pre.length data = b :: rest' := by rw [hd]; simp
    have hdrop6 : List.drop (pre.length + 6) data = List.drop 5 rest' := by
      rw [hd, ← List.drop_drop, List.drop_left']
      · simp
      · rfl
    rw [forFuel]
    have e0 : ((pre.length + 0 : Nat) : Int).toNat = pre.length := by simp
    have e6 : (((pre.length + 0 : Nat) : Int) + 1 + 5).toNat = pre.length + 6 := by omega
    by_cases hb92 : b = 92
    · subst hb92
      by_cases hs : C14n.isSurrogate (C14n.escapedUnit (92 :: rest')) = true
      · by_cases hp : pairOK (C14n.escapedUnit (92 :: rest')) (C14n.escapedUnit (rest'.drop 5)) = true
        · have hp' : ¬ (decodeRune16 (unitInt (C14n.escapedUnit (92 :: rest'))) (unitInt (C14n.escapedUnit (List.drop 5 rest'))) = 65533) := by
            rw [decodeRune16_unitInt]; simp [hp]
          have hstep : chkStep eu data (none, ((pre.length + 0 : Nat) : Int)) = .yield (none, (((pre ++ [92]).length + 7 : Nat) : Int)) := by
            simp only [chkStep, hlt, not_true_eq_false, if_false, e0, e6, hb, ne_eq, heu, hdrop, hdrop6, isSurrogate_unitInt, hs, hp']
            simp; omega
          rw [hstep]
          have := chk_loop eu heu data rest' (pre ++ [92]) 7 f hd' (by simp at hf; omega)
          simp only [this, surrogatesPaired, bne_self_eq_false, Bool.false_eq_true, if_false, hs, Bool.not_true, hp]
        · have hp' : decodeRune16 (unitInt (C14n.escapedUnit (92 :: rest'))) (unitInt (C14n.escapedUnit (List.drop 5 rest'))) = 65533 := by
            rw [decodeRune16_unitInt]; simpa using hp
          have hstep : chkStep eu data (none, ((pre.length + 0 : Nat) : Int)) =
              .done (some (GoStr.errNew "invalid surrogate pair in unicode escape"), ((pre.length + 0 : Nat) : Int) + 1) := by
            simp only [chkStep, hlt, not_true_eq_false, if_false, e0, e6, hb, ne_eq, heu, hdrop, hdrop6, isSurrogate_unitInt, hs, hp', if_true]
          rw [hstep]
          have hpf : pairOK (C14n.escapedUnit (92 :: rest')) (C14n.escapedUnit (rest'.drop 5)) = false := by simpa using hp
          simp [surrogatesPaired, hs, hpf, chkRes]
      · have hstep : chkStep eu data (none, ((pre.length + 0 : Nat) : Int)) = .yield (none, (((pre ++ [92]).length + 1 : Nat) : Int)) := by
          simp only [chkStep, hlt, not_true_eq_false, if_false, e0, hb, ne_eq, heu, hdrop, isSurrogate_unitInt, hs, if_true]
          simp
        rw [hstep]
        have := chk_loop eu heu data rest' (pre ++ [92]) 1 f hd' (by simp at hf; omega)
        have hsf : C14n.isSurrogate (C14n.escapedUnit (92 :: rest')) = false := by simpa using hs
        simp only [this, surrogatesPaired, bne_self_eq_false, Bool.false_eq_true, if_false, hsf, Bool.not_false, if_true]
    · have hstep : chkStep eu data (none, ((pre.length + 0 : Nat) : Int)) = .yield (none, (((pre ++ [b]).length + 0 : Nat) : Int)) := by
        simp only [chkStep, hlt, not_true_eq_false, if_false, e0, hb, ne_eq, hb92, not_false_eq_true, if_true]
        simp
      rw [hstep]
      have := chk_loop eu heu data rest' (pre ++ [b]) 0 f hd' (by simp at hf; omega)
      have hne : (b != 92) = true := by simp [hb92]
      simp only [this, surrogatesPaired, hne, if_true]

end GoblVerif.C14nSrc
