/-
  Helper lemmas for C06: digit strings, `%d` formatting, `strconv.ParseInt`,
  `strings.Split`, and the bridge between the parser of Model/Codec.lean and
  the recogniser / decimal reading of Spec/C06.lean.
-/
import GoblVerif.Model.Codec
import GoblVerif.Spec.C06
import GoblVerif.Proofs.Num
import Mathlib.Tactic.Linarith
import Mathlib.Tactic.IntervalCases
import Mathlib.Tactic.Ring

namespace GoblVerif.Codec
open GoblVerif

theorem digitChar_spec (d : Nat) (h : d < 10) :
    isDigitC (digitChar d) = true ∧ digitVal (digitChar d) = d := by
  interval_cases d <;> decide

theorem natOfDigits_snoc (s : Text) (c : Char) :
    natOfDigits (s ++ [c]) = 10 * natOfDigits s + digitVal c := by
  unfold natOfDigits; rw [List.foldl_append]; rfl

theorem foldl_digits_acc (s : Text) (k : Nat) :
    s.foldl (fun n c => 10 * n + digitVal c) k = k * 10 ^ s.length + natOfDigits s := by
  induction s generalizing k with
  | nil => simp [natOfDigits]
  | cons c cs ih =>
    unfold natOfDigits
    simp only [List.foldl_cons, List.length_cons]
    rw [ih, ih (10 * 0 + digitVal c)]
    ring

theorem natOfDigits_append (a b : Text) :
    natOfDigits (a ++ b) = natOfDigits a * 10 ^ b.length + natOfDigits b := by
  unfold natOfDigits; rw [List.foldl_append, foldl_digits_acc]; rfl

theorem natToDigitsF_spec (f n : Nat) (h : n ≤ f) :
    natOfDigits (natToDigitsF f n) = n ∧ (natToDigitsF f n).all isDigitC = true ∧ natToDigitsF f n ≠ [] := by
  induction f generalizing n with
  | zero =>
    have : n = 0 := by omega
    subst this; decide
  | succ f ih =>
    unfold natToDigitsF
    by_cases h10 : n < 10
    · simp only [h10, if_true]
      have := digitChar_spec n h10
      refine ⟨?_, ?_, by simp⟩
      · simp [natOfDigits, this.2]
      · simp [this.1]
    · simp only [h10, if_false]
      have hdiv : n / 10 ≤ f := by omega
      obtain ⟨h1, h2, h3⟩ := ih (n / 10) hdiv
      have hd := digitChar_spec (n % 10) (by omega)
      refine ⟨?_, ?_, by simp⟩
      · rw [natOfDigits_snoc, h1, hd.2]; omega
      · rw [List.all_append, h2]; simp [hd.1]

theorem natToDigitsF_len (f n w : Nat) (h : n ≤ f) (hw : n < 10 ^ (w + 1)) :
    (natToDigitsF f n).length ≤ w + 1 := by
  induction f generalizing n w with
  | zero => simp [natToDigitsF]
  | succ f ih =>
    unfold natToDigitsF
    by_cases h10 : n < 10
    · simp [h10]
    · simp only [h10, if_false, List.length_append, List.length_singleton]
      cases w with
      | zero => simp at hw; omega
      | succ w =>
        have : n / 10 < 10 ^ (w + 1) := by
          rw [Nat.div_lt_iff_lt_mul (by decide)]
          calc n < 10 ^ (w + 1 + 1) := hw
            _ = 10 ^ (w + 1) * 10 := by ring
        have := ih (n / 10) w (by omega) this
        omega

theorem natToDigits_val (n : Nat) : natOfDigits (natToDigits n) = n := (natToDigitsF_spec n n (le_refl _)).1
theorem natToDigits_all (n : Nat) : (natToDigits n).all isDigitC = true := (natToDigitsF_spec n n (le_refl _)).2.1
theorem natToDigits_ne (n : Nat) : natToDigits n ≠ [] := (natToDigitsF_spec n n (le_refl _)).2.2
theorem natToDigits_isDigits (n : Nat) : isDigits (natToDigits n) = true := by
  unfold isDigits
  have := natToDigits_ne n
  simp [natToDigits_all, this]
theorem natToDigits_len (n w : Nat) (hw : n < 10 ^ (w + 1)) : (natToDigits n).length ≤ w + 1 :=
  natToDigitsF_len n n w (le_refl _) hw

/-! ### padding -/

theorem natOfDigits_zeros (k : Nat) (s : Text) :
    natOfDigits (List.replicate k '0' ++ s) = natOfDigits s := by
  induction k with
  | zero => simp
  | succ k ih =>
    rw [List.replicate_succ, List.cons_append]
    unfold natOfDigits at *
    simp only [List.foldl_cons]
    exact ih

theorem padZeros_val (w : Nat) (s : Text) : natOfDigits (padZeros w s) = natOfDigits s :=
  natOfDigits_zeros _ _

theorem padZeros_all (w : Nat) (s : Text) (h : s.all isDigitC = true) : (padZeros w s).all isDigitC = true := by
  unfold padZeros
  rw [List.all_append, h]
  simp
  right; decide

theorem padZeros_len (w : Nat) (s : Text) (h : s.length ≤ w) : (padZeros w s).length = w := by
  unfold padZeros; simp; omega

/-! ### ParseInt on a digit string -/

theorem isDigitC_not_sign (c : Char) (h : isDigitC c = true) : c ≠ '+' ∧ c ≠ '-' ∧ c ≠ '.' ∧ c ≠ '%' := by
  unfold isDigitC at h
  simp only [Bool.and_eq_true, decide_eq_true_eq] at h
  refine ⟨?_, ?_, ?_, ?_⟩ <;> (intro e; subst e; revert h; decide)

theorem parseInt64_digits (s : Text) (h : isDigits s = true) :
    parseInt64 s = if natOfDigits s ≥ 9223372036854775808 then .error .range else .ok (natOfDigits s : Int) := by
  cases s with
  | nil => simp [isDigits] at h
  | cons c rest =>
    have hc : isDigitC c = true := by
      unfold isDigits at h; simp at h; exact h.1
    obtain ⟨h1, h2, _, _⟩ := isDigitC_not_sign c hc
    unfold parseInt64
    have e1 : (c == '-') = false := by simp [h2]
    have e2 : (c == '+') = false := by simp [h1]
    simp only [e1, e2, Bool.or_self, Bool.false_eq_true, if_false, h, Bool.not_true]

/-! ### strings.Split -/

theorem splitOn_ne_nil (sep : Char) (u : Text) : splitOn sep u ≠ [] := by
  cases u with
  | nil => simp [splitOn]
  | cons c cs =>
    unfold splitOn
    split
    · simp
    · split <;> simp

theorem splitOn_nosep (sep : Char) (u : Text) (h : ∀ c ∈ u, c ≠ sep) : splitOn sep u = [u] := by
  induction u with
  | nil => rfl
  | cons c cs ih =>
    have hc : c ≠ sep := h c (by simp)
    have := ih (fun x hx => h x (by simp [hx]))
    unfold splitOn
    simp [hc, this]

theorem splitOn_append (sep : Char) (a m : Text) (h : ∀ c ∈ a, c ≠ sep) :
    splitOn sep (a ++ sep :: m) = a :: splitOn sep m := by
  induction a with
  | nil => simp [splitOn]
  | cons c cs ih =>
    have hc : c ≠ sep := h c (by simp)
    have := ih (fun x hx => h x (by simp [hx]))
    rw [List.cons_append]
    simp only [splitOn, hc, if_false, this]

theorem splitOn_one (sep : Char) (u x : Text) (h : splitOn sep u = [x]) : u = x := by
  induction u generalizing x with
  | nil => simp [splitOn] at h; exact h.symm
  | cons c cs ih =>
    unfold splitOn at h
    by_cases hc : c = sep
    · simp only [hc, if_true] at h
      have := splitOn_ne_nil sep cs
      simp at h; exact absurd h.2 this
    · simp only [hc, if_false] at h
      cases hs : splitOn sep cs with
      | nil => exact absurd hs (splitOn_ne_nil sep cs)
      | cons y t =>
        rw [hs] at h
        simp at h
        obtain ⟨h1, h2⟩ := h
        subst h2
        rw [ih y hs, ← h1]

theorem splitOn_two (sep : Char) (u x0 x1 : Text) (h : splitOn sep u = [x0, x1]) :
    u = x0 ++ sep :: x1 := by
  induction u generalizing x0 with
  | nil => simp [splitOn] at h
  | cons c cs ih =>
    unfold splitOn at h
    by_cases hc : c = sep
    · simp only [hc, if_true] at h
      simp at h
      obtain ⟨h1, h2⟩ := h
      subst h1
      rw [splitOn_one sep cs x1 h2, hc]; rfl
    · simp only [hc, if_false] at h
      cases hs : splitOn sep cs with
      | nil => exact absurd hs (splitOn_ne_nil sep cs)
      | cons y t =>
        rw [hs] at h
        simp at h
        obtain ⟨h1, h2⟩ := h
        subst h2
        rw [ih y hs, ← h1]; rfl

/-! ### int64 helpers -/

theorem wrap64_id (i : Int) (h1 : minInt64 ≤ i) (h2 : i ≤ maxInt64) : wrap64 i = i := by
  unfold wrap64; unfold minInt64 at h1; unfold maxInt64 at h2; omega

theorem intPow10 (e : Nat) (h : e ≤ 18) : intPow 10 e = (10 : Int) ^ e := by
  interval_cases e <;> decide

theorem pow10_le_18 (e : Nat) (h : e ≤ 18) : (10 : Int) ^ e ≤ 1000000000000000000 := by
  interval_cases e <;> decide

theorem isDigits_nodot (s : Text) (h : isDigits s = true) : ∀ c ∈ s, c ≠ '.' := by
  intro c hc
  unfold isDigits at h
  simp only [Bool.and_eq_true, List.all_eq_true] at h
  exact (isDigitC_not_sign c (h.2 c hc)).2.2.1

theorem isDigits_ne_nil (s : Text) (h : isDigits s = true) : s ≠ [] := by
  intro e; subst e; simp [isDigits] at h

/-! ### the parser on the two shapes of a pattern member

`AmountFromString` splits the whole text, so the minus sign stays on the major
part.  The lemmas below speak about the sign `n` and the text `u` after it. -/

/-- a text with its optional minus sign put back -/
def sgn (n : Bool) (u : Text) : Text := if n then '-' :: u else u

/-- the largest magnitude on either side of zero: 2^63 below, 2^63−1 above -/
def lim (n : Bool) : Nat := if n then 9223372036854775808 else 9223372036854775807

/-- a magnitude with its sign -/
def sg (n : Bool) (k : Nat) : Int := if n then -(k : Int) else (k : Int)

/-- `AmountFromString` on the sign `n` and the text `u` after it -/
def parseBody (n : Bool) (u : Text) : Except Err Amount := parseParts n (splitOn '.' (sgn n u))

theorem digits_no_minus (A x : Text) (h : isDigits A = true) :
    hasPrefixMinus (A ++ x) = false ∧ trimPrefixMinus (A ++ x) = A ++ x := by
  cases A with
  | nil => simp [isDigits] at h
  | cons c r =>
    have hc : isDigitC c = true := by
      unfold isDigits at h; simp at h; exact h.1
    have := (isDigitC_not_sign c hc).2.1
    simp [hasPrefixMinus, trimPrefixMinus, this]

theorem digits_no_minus' (A : Text) (h : isDigits A = true) :
    hasPrefixMinus A = false ∧ trimPrefixMinus A = A := by
  have := digits_no_minus A [] h
  simpa using this

theorem parseInt64_neg_digits (s : Text) (h : isDigits s = true) :
    parseInt64 ('-' :: s) =
      if natOfDigits s > 9223372036854775808 then .error .range else .ok (-(natOfDigits s : Int)) := by
  unfold parseInt64
  simp [h]

theorem parseInt64_sgn (n : Bool) (s : Text) (h : isDigits s = true) :
    parseInt64 (sgn n s) = if natOfDigits s > lim n then .error .range else .ok (sg n (natOfDigits s)) := by
  cases n
  · simp only [sgn, lim, sg, Bool.false_eq_true, if_false]
    rw [parseInt64_digits s h]
    by_cases hr : natOfDigits s ≥ 9223372036854775808
    · have : natOfDigits s > 9223372036854775807 := by omega
      simp [hr, this]
    · have : ¬ natOfDigits s > 9223372036854775807 := by omega
      simp [hr, this]
  · simp only [sgn, lim, sg, if_true]
    exact parseInt64_neg_digits s h

theorem trim_sgn (n : Bool) (s : Text) (h : isDigits s = true) : trimPrefixMinus (sgn n s) = s := by
  cases n
  · exact (digits_no_minus' s h).2
  · rfl

theorem sgn_nodot (n : Bool) (s : Text) (h : ∀ c ∈ s, c ≠ '.') : ∀ c ∈ sgn n s, c ≠ '.' := by
  cases n
  · exact h
  · intro c hc
    simp only [sgn, if_true, List.mem_cons] at hc
    rcases hc with rfl | hc
    · decide
    · exact h c hc

theorem natOfDigits_lt (s : Text) (h : s.all isDigitC = true) : natOfDigits s < 10 ^ s.length := by
  induction s with
  | nil => simp [natOfDigits]
  | cons c cs ih =>
    simp only [List.all_cons, Bool.and_eq_true] at h
    have hc : digitVal c ≤ 9 := by
      have := h.1
      unfold isDigitC at this
      simp only [Bool.and_eq_true, decide_eq_true_eq] at this
      unfold digitVal; omega
    have := natOfDigits_append [c] cs
    simp only [List.singleton_append] at this
    rw [this]
    have h1 : natOfDigits [c] = digitVal c := by simp [natOfDigits]
    rw [h1, List.length_cons, pow_succ]
    have := ih h.2
    nlinarith

theorem parseBody_int (n : Bool) (u : Text) (h : isDigits u = true) :
    parseBody n u = if natOfDigits u > lim n then .error .major else .ok ⟨sg n (natOfDigits u), 0⟩ := by
  unfold parseBody parseParts
  rw [splitOn_nosep '.' (sgn n u) (sgn_nodot n u (isDigits_nodot u h))]
  simp only [List.length_singleton, show ¬ (1 > 2) by decide, if_false, parseInt64_sgn n u h, trim_sgn n u h]
  by_cases hr : natOfDigits u > lim n
  · simp [hr]
  · simp [hr, h]

theorem range_guard (v v2 p : Int) (hv2 : v2 ≤ maxInt64) (hp : 0 < p) :
    (v > Int.tdiv (maxInt64 - v2) p) ↔ (v * p + v2 > maxInt64) := by
  rw [Int.tdiv_eq_ediv_of_nonneg (by omega)]
  constructor
  · intro h
    by_contra hc
    have : v ≤ (maxInt64 - v2) / p := (Int.le_ediv_iff_mul_le hp).mpr (by omega)
    omega
  · intro h
    by_contra hc
    have : v * p ≤ maxInt64 - v2 := (Int.le_ediv_iff_mul_le hp).mp (by omega)
    omega

/-- the guard on the negative side: Go's truncated division of a negative
    numerator rounds towards zero, i.e. upwards -/
theorem range_guard_neg (v v2 p : Int) (hv2 : 0 ≤ v2) (hv2' : v2 ≤ maxInt64) (hp : 0 < p) :
    (v < Int.tdiv (minInt64 + v2) p) ↔ (v * p - v2 < minInt64) := by
  have hk : minInt64 + v2 = -(-minInt64 - v2) := by ring
  have hnn : 0 ≤ -minInt64 - v2 := by unfold minInt64; unfold maxInt64 at hv2'; omega
  rw [hk, Int.neg_tdiv, Int.tdiv_eq_ediv_of_nonneg hnn]
  have hmul : -v * p = -(v * p) := by ring
  constructor
  · intro h
    by_contra hc
    have : -v ≤ (-minInt64 - v2) / p := (Int.le_ediv_iff_mul_le hp).mpr (by rw [hmul]; omega)
    omega
  · intro h
    by_contra hc
    have : -v * p ≤ -minInt64 - v2 := (Int.le_ediv_iff_mul_le hp).mp (by omega)
    rw [hmul] at this
    omega

theorem parseBody_frac (n : Bool) (a m : Text) (ha : isDigits a = true) (hm : isDigits m = true) :
    parseBody n (a ++ '.' :: m) =
      if natOfDigits a > lim n then .error .major
      else if natOfDigits m ≥ 9223372036854775808 then .error .minor
      else if m.length > 18 then .error .decimals
      else if natOfDigits a * 10 ^ m.length + natOfDigits m > lim n then .error .range
      else .ok ⟨sg n (natOfDigits a * 10 ^ m.length + natOfDigits m), m.length⟩ := by
  have hs : sgn n (a ++ '.' :: m) = sgn n a ++ '.' :: m := by cases n <;> rfl
  unfold parseBody parseParts
  rw [hs, splitOn_append '.' (sgn n a) m (sgn_nodot n a (isDigits_nodot a ha)),
    splitOn_nosep '.' m (isDigits_nodot m hm)]
  simp only [List.length_cons, List.length_nil, show ¬ (0 + 1 + 1 > 2) by decide, if_false,
    parseInt64_sgn n a ha, parseInt64_digits m hm, trim_sgn n a ha]
  by_cases h1 : natOfDigits a > lim n
  · simp [h1]
  simp only [h1, if_false, ha, Bool.not_true, Bool.false_eq_true]
  by_cases h2 : natOfDigits m ≥ 9223372036854775808
  · simp [h2]
  simp only [h2, if_false, hm, Bool.not_true, Bool.false_eq_true, maxAmountExp]
  by_cases h3 : m.length > 18
  · simp [h3]
  simp only [h3, if_false]
  have he : m.length ≤ 18 := by omega
  rw [intPow10 _ he]
  have hp : (0 : Int) < 10 ^ m.length := by positivity
  have hv2 : (natOfDigits m : Int) ≤ maxInt64 := by unfold maxInt64; omega
  have hnm : (0 : Int) ≤ (natOfDigits m : Int) := by positivity
  have hnn : (0 : Int) ≤ (natOfDigits a : Int) * 10 ^ m.length := by positivity
  have hcast : ((natOfDigits a * 10 ^ m.length + natOfDigits m : Nat) : Int) =
      (natOfDigits a : Int) * 10 ^ m.length + natOfDigits m := by push_cast; rfl
  cases n
  · -- non-negative side
    simp only [lim, sg, Bool.false_eq_true, if_false] at h1 ⊢
    rw [wrap64_id (maxInt64 - (natOfDigits m : Int)) (by unfold minInt64 maxInt64; omega) (by omega)]
    by_cases h4 : natOfDigits a * 10 ^ m.length + natOfDigits m > 9223372036854775807
    · have h4' : (natOfDigits a : Int) * 10 ^ m.length + natOfDigits m > maxInt64 := by
        unfold maxInt64; rw [← hcast]; exact_mod_cast h4
      have := (range_guard (natOfDigits a) (natOfDigits m) _ hv2 hp).mpr h4'
      simp [this, h4]
    · have h4' : ¬ (natOfDigits a : Int) * 10 ^ m.length + natOfDigits m > maxInt64 := by
        unfold maxInt64; rw [← hcast]; exact_mod_cast h4
      have hn := (range_guard (natOfDigits a) (natOfDigits m) _ hv2 hp).not.mpr h4'
      simp only [hn, h4, if_false]
      rw [wrap64_id ((natOfDigits a : Int) * 10 ^ m.length) (by unfold minInt64; omega) (by omega)]
      rw [wrap64_id _ (by unfold minInt64; omega) (by omega)]
      rw [hcast]
  · -- negative side
    simp only [lim, sg, if_true] at h1 ⊢
    rw [wrap64_id (minInt64 + (natOfDigits m : Int)) (by unfold minInt64; omega) (by unfold minInt64 maxInt64; omega)]
    have hneg : -(natOfDigits a : Int) * 10 ^ m.length = -((natOfDigits a : Int) * 10 ^ m.length) := by ring
    by_cases h4 : natOfDigits a * 10 ^ m.length + natOfDigits m > 9223372036854775808
    · have h4' : -(natOfDigits a : Int) * 10 ^ m.length - natOfDigits m < minInt64 := by
        have : ((natOfDigits a * 10 ^ m.length + natOfDigits m : Nat) : Int) > 9223372036854775808 := by
          exact_mod_cast h4
        rw [hcast] at this
        unfold minInt64; rw [hneg]; omega
      have := (range_guard_neg (-(natOfDigits a : Int)) (natOfDigits m) _ hnm hv2 hp).mpr h4'
      simp [this, h4]
    · have h4' : ¬ (-(natOfDigits a : Int) * 10 ^ m.length - natOfDigits m < minInt64) := by
        have : ((natOfDigits a * 10 ^ m.length + natOfDigits m : Nat) : Int) ≤ 9223372036854775808 := by
          exact_mod_cast (by omega : natOfDigits a * 10 ^ m.length + natOfDigits m ≤ 9223372036854775808)
        rw [hcast] at this
        unfold minInt64; rw [hneg]; omega
      have hn := (range_guard_neg (-(natOfDigits a : Int)) (natOfDigits m) _ hnm hv2 hp).not.mpr h4'
      simp only [hn, h4, if_false]
      unfold minInt64 at h4'
      rw [hneg] at h4' ⊢
      rw [wrap64_id (-((natOfDigits a : Int) * 10 ^ m.length)) (by unfold minInt64; omega) (by unfold maxInt64; omega)]
      rw [wrap64_id _ (by unfold minInt64; omega) (by unfold maxInt64; omega)]
      rw [hcast, neg_add]
      rfl

theorem sgn_split (n : Bool) (u h : Text) (t : List Text) (hs : splitOn '.' u = h :: t) :
    splitOn '.' (sgn n u) = sgn n h :: t := by
  cases n
  · exact hs
  · show splitOn '.' ('-' :: u) = ('-' :: h) :: t
    rw [splitOn, hs]
    simp

/-- the first part of a text that does not begin with a minus sign does not either -/
theorem split_head_no_minus (u h : Text) (t : List Text) (hs : splitOn '.' u = h :: t)
    (hu : hasPrefixMinus u = false) : trimPrefixMinus h = h := by
  cases u with
  | nil => simp [splitOn] at hs; rw [hs.1]; rfl
  | cons c cs =>
    have hc : c ≠ '-' := by
      intro e; subst e; simp [hasPrefixMinus] at hu
    unfold splitOn at hs
    by_cases hd : c = '.'
    · simp only [hd, if_true] at hs
      simp at hs; rw [hs.1]; rfl
    · simp only [hd, if_false] at hs
      cases hsp : splitOn '.' cs with
      | nil => exact absurd hsp (splitOn_ne_nil _ _)
      | cons y t' =>
        rw [hsp] at hs
        simp at hs
        rw [← hs.1]
        simp [trimPrefixMinus, hc]

/-- whatever the parser accepts is, after the sign, a digit run or two digit runs around one point -/
theorem parseBody_ok_shape (n : Bool) (u : Text) (r : Amount) (hn : n = false → hasPrefixMinus u = false)
    (h : parseBody n u = .ok r) :
    isDigits u = true ∨ ∃ a m, u = a ++ '.' :: m ∧ isDigits a = true ∧ isDigits m = true := by
  unfold parseBody at h
  cases hs : splitOn '.' u with
  | nil => exact absurd hs (splitOn_ne_nil _ _)
  | cons x0 rest =>
    rw [sgn_split n u x0 rest hs] at h
    have htrim : trimPrefixMinus (sgn n x0) = x0 := by
      cases n
      · exact split_head_no_minus u x0 rest hs (hn rfl)
      · rfl
    unfold parseParts at h
    cases rest with
    | nil =>
      left
      rw [splitOn_one '.' u x0 hs]
      simp only [List.length_singleton, show ¬ (1 > 2) by decide, if_false, htrim] at h
      cases hp : parseInt64 (sgn n x0) with
      | error e => rw [hp] at h; simp at h
      | ok v =>
        rw [hp] at h
        by_cases hd : isDigits x0 = true
        · exact hd
        · simp [hd] at h
    | cons x1 rest2 =>
      cases rest2 with
      | cons x2 r3 => simp at h
      | nil =>
        right
        simp only [List.length_cons, List.length_nil, show ¬ (0 + 1 + 1 > 2) by decide, if_false, htrim] at h
        cases hp : parseInt64 (sgn n x0) with
        | error e => rw [hp] at h; simp at h
        | ok v =>
          rw [hp] at h
          by_cases hd : isDigits x0 = true
          · simp only [hd, Bool.not_true, Bool.false_eq_true, if_false] at h
            cases hp1 : parseInt64 x1 with
            | error e => rw [hp1] at h; simp at h
            | ok v2 =>
              rw [hp1] at h
              by_cases hd1 : isDigits x1 = true
              · exact ⟨x0, x1, splitOn_two '.' u x0 x1 hs, hd, hd1⟩
              · simp [hd1] at h
          · simp [hd] at h

open GoblVerif.Spec.C06

/-! ### bridge to the recogniser and the decimal reading of Spec/C06 -/

theorem digit_eq (c : Char) : digit c = isDigitC c := by
  unfold digit isDigitC
  simp only [Char.le_def, Char.toNat]
  congr 1

theorem digit_fun : digit = isDigitC := funext digit_eq

theorem digitsValue_eq (s : Text) : digitsValue s = natOfDigits s := rfl

theorem stripMinus_eq (s : Text) : stripMinus s = trimPrefixMinus s := by
  cases s with
  | nil => rfl
  | cons c r =>
    by_cases h : c = '-'
    · subst h; rfl
    · simp [stripMinus, trimPrefixMinus, h]

theorem negative_eq (s : Text) : negative s = hasPrefixMinus s := by
  cases s with
  | nil => rfl
  | cons c r =>
    by_cases h : c = '-'
    · subst h; rfl
    · simp [negative, hasPrefixMinus, h]

theorem takeWhile_all (u : Text) (h : u.all isDigitC = true) :
    u.takeWhile isDigitC = u ∧ u.dropWhile isDigitC = [] := by
  induction u with
  | nil => simp
  | cons c cs ih =>
    simp only [List.all_cons, Bool.and_eq_true] at h
    simp [h.1, ih h.2]

theorem takeWhile_frac (a m : Text) (h : a.all isDigitC = true) :
    (a ++ '.' :: m).takeWhile isDigitC = a ∧ (a ++ '.' :: m).dropWhile isDigitC = '.' :: m := by
  induction a with
  | nil =>
    have hd : isDigitC '.' = false := by decide
    simp [hd]
  | cons c cs ih =>
    simp only [List.all_cons, Bool.and_eq_true] at h
    simp [h.1, ih h.2]

theorem isDigits_all (s : Text) (h : isDigits s = true) : s.all isDigitC = true := by
  unfold isDigits at h; simp only [Bool.and_eq_true] at h; exact h.2

theorem isAmountBody_int (u : Text) (h : isDigits u = true) : isAmountBody u = true := by
  unfold isAmountBody
  rw [digit_fun]
  obtain ⟨h1, h2⟩ := takeWhile_all u (isDigits_all u h)
  simp only [h1, h2]
  have := isDigits_ne_nil u h
  simp [this]

theorem isAmountBody_frac (a m : Text) (ha : isDigits a = true) (hm : isDigits m = true) :
    isAmountBody (a ++ '.' :: m) = true := by
  unfold isAmountBody
  rw [digit_fun]
  obtain ⟨h1, h2⟩ := takeWhile_frac a m (isDigits_all a ha)
  simp only [h1, h2]
  have := isDigits_ne_nil a ha
  have hm' := hm
  unfold isDigits at hm'
  simp only [Bool.and_eq_true] at hm'
  simp [this, hm'.1, hm'.2]

theorem isAmountBody_shape (u : Text) (h : isAmountBody u = true) :
    isDigits u = true ∨ ∃ a m, u = a ++ '.' :: m ∧ isDigits a = true ∧ isDigits m = true := by
  unfold isAmountBody at h
  rw [digit_fun] at h
  have hsplit := List.takeWhile_append_dropWhile (p := isDigitC) (l := u)
  have htw : (u.takeWhile isDigitC).all isDigitC = true := by
    exact List.all_takeWhile
  simp only [Bool.and_eq_true, Bool.not_eq_true', List.isEmpty_eq_false_iff] at h
  obtain ⟨hne, hr⟩ := h
  cases hd : u.dropWhile isDigitC with
  | nil =>
    left
    rw [hd, List.append_nil] at hsplit
    rw [← hsplit]
    unfold isDigits
    simp [htw, hne]
  | cons c m =>
    right
    rw [hd] at hr hsplit
    simp only [Bool.and_eq_true, beq_iff_eq, Bool.not_eq_true', List.isEmpty_eq_false_iff] at hr
    obtain ⟨⟨hc, hmne⟩, hmall⟩ := hr
    subst hc
    refine ⟨u.takeWhile isDigitC, m, hsplit.symm, ?_, ?_⟩
    · unfold isDigits; simp [htw, hne]
    · unfold isDigits; simp [hmall, hmne]

theorem isAmountBody_iff (u : Text) :
    isAmountBody u = true ↔
      (isDigits u = true ∨ ∃ a m, u = a ++ '.' :: m ∧ isDigits a = true ∧ isDigits m = true) := by
  constructor
  · exact isAmountBody_shape u
  · rintro (h | ⟨a, m, rfl, ha, hm⟩)
    · exact isAmountBody_int u h
    · exact isAmountBody_frac a m ha hm

/-- reading of the two shapes -/
theorem spec_int (u : Text) (h : isDigits u = true) :
    u.takeWhile digit = u ∧ (u.dropWhile digit).drop 1 = [] := by
  rw [digit_fun]
  obtain ⟨h1, h2⟩ := takeWhile_all u (isDigits_all u h)
  simp [h1, h2]

theorem spec_frac (a m : Text) (ha : isDigits a = true) :
    (a ++ '.' :: m).takeWhile digit = a ∧ ((a ++ '.' :: m).dropWhile digit).drop 1 = m := by
  rw [digit_fun]
  obtain ⟨h1, h2⟩ := takeWhile_frac a m (isDigits_all a ha)
  simp [h1, h2]

/-! ### what the parser accepts, and what it returns -/

theorem natOfDigits_nil : natOfDigits [] = 0 := rfl

def unscaledBody (u : Text) : Nat :=
  natOfDigits (u.takeWhile digit) * 10 ^ ((u.dropWhile digit).drop 1).length
    + natOfDigits ((u.dropWhile digit).drop 1)

/-- the 64-bit condition on the sign and the text after it: at most 18 decimals and
    the digits read as one number within 2^63 below zero, 2^63−1 above -/
def fitsBody (n : Bool) (u : Text) : Prop :=
  ((u.dropWhile digit).drop 1).length ≤ 18 ∧ unscaledBody u ≤ lim n

theorem parseBody_ok_of (n : Bool) (u : Text) (hb : isAmountBody u = true) (hf : fitsBody n u) :
    parseBody n u = .ok ⟨sg n (unscaledBody u), ((u.dropWhile digit).drop 1).length⟩ := by
  unfold fitsBody at hf
  unfold unscaledBody at hf ⊢
  rcases isAmountBody_shape u hb with h | ⟨a, m, rfl, ha, hm⟩
  · obtain ⟨e1, e2⟩ := spec_int u h
    rw [e1, e2] at hf ⊢
    rw [parseBody_int n u h]
    simp only [natOfDigits_nil, List.length_nil, pow_zero, Nat.mul_one, Nat.add_zero] at hf ⊢
    have : ¬ natOfDigits u > lim n := by omega
    simp [this]
  · obtain ⟨e1, e2⟩ := spec_frac a m ha
    rw [e1, e2] at hf ⊢
    rw [parseBody_frac n a m ha hm]
    obtain ⟨f3, f4⟩ := hf
    have hmlt := natOfDigits_lt m (isDigits_all m hm)
    have h18 : 10 ^ m.length ≤ 10 ^ 18 := Nat.pow_le_pow_right (by decide) f3
    have hpos : 0 < 10 ^ m.length := by positivity
    have hle : natOfDigits a ≤ natOfDigits a * 10 ^ m.length := Nat.le_mul_of_pos_right _ hpos
    have g1 : ¬ natOfDigits a > lim n := by omega
    have g2 : ¬ natOfDigits m ≥ 9223372036854775808 := by omega
    have g3 : ¬ m.length > 18 := by omega
    have g4 : ¬ natOfDigits a * 10 ^ m.length + natOfDigits m > lim n := by omega
    simp only [g1, g2, g3, g4, if_false]

theorem parseBody_ok_imp (n : Bool) (u : Text) (r : Amount) (hn : n = false → hasPrefixMinus u = false)
    (h : parseBody n u = .ok r) :
    isAmountBody u = true ∧ fitsBody n u ∧
      r = ⟨sg n (unscaledBody u), ((u.dropWhile digit).drop 1).length⟩ := by
  have hshape := parseBody_ok_shape n u r hn h
  have hb : isAmountBody u = true := (isAmountBody_iff u).mpr hshape
  have hf : fitsBody n u := by
    unfold fitsBody unscaledBody
    rcases hshape with hd | ⟨a, m, rfl, ha, hm⟩
    · obtain ⟨e1, e2⟩ := spec_int u hd
      rw [e1, e2]
      rw [parseBody_int n u hd] at h
      by_cases hr : natOfDigits u > lim n
      · simp [hr] at h
      · simp only [natOfDigits_nil, List.length_nil, pow_zero, Nat.mul_one, Nat.add_zero]; omega
    · obtain ⟨e1, e2⟩ := spec_frac a m ha
      rw [e1, e2]
      rw [parseBody_frac n a m ha hm] at h
      by_cases g1 : natOfDigits a > lim n
      · simp [g1] at h
      by_cases g2 : natOfDigits m ≥ 9223372036854775808
      · simp [g1, g2] at h
      by_cases g3 : m.length > 18
      · simp [g1, g2, g3] at h
      by_cases g4 : natOfDigits a * 10 ^ m.length + natOfDigits m > lim n
      · simp [g1, g2, g3, g4] at h
      exact ⟨by omega, by omega⟩
  refine ⟨hb, hf, ?_⟩
  have := parseBody_ok_of n u hb hf
  rw [this] at h
  exact (Except.ok.inj h).symm

/-! ### the shape of a written amount -/

theorem amountToString_int (v : Int) :
    amountToString ⟨v, 0⟩ = sgn (decide (v < 0)) (natToDigits v.natAbs) := by
  unfold amountToString fmtInt sgn
  by_cases h : v < 0 <;> simp [h]

/-- the text of an amount with decimals, for **every** int64 value: Go's truncated
    `/` and `%` split the value, the negations of the two parts cannot overflow -/
theorem amountToString_frac (v : Int) (e : Nat) (he0 : 0 < e) (he : e ≤ 18)
    (hlo : -(2 : Int) ^ 63 ≤ v) (hhi : v < (2 : Int) ^ 63) :
    amountToString ⟨v, e⟩ =
      sgn (decide (v < 0)) (natToDigits (v.natAbs / 10 ^ e) ++
        '.' :: padZeros e (natToDigits (v.natAbs % 10 ^ e))) := by
  unfold amountToString
  have h0 : ¬ e = 0 := by omega
  have h1 : ¬ e > 1000 := by omega
  simp only [h0, h1, if_false, intPow10 e he]
  set n := v.natAbs with hn
  have hp : (0 : Int) < 10 ^ e := by positivity
  have hpn : 0 < 10 ^ e := by positivity
  have h10 : 10 ≤ 10 ^ e := by
    calc 10 = 10 ^ 1 := by norm_num
      _ ≤ 10 ^ e := Nat.pow_le_pow_right (by decide) he0
  have h18 : 10 ^ e ≤ 10 ^ 18 := Nat.pow_le_pow_right (by decide) he
  have hq10 : n / 10 ^ e ≤ n / 10 := Nat.div_le_div_left h10 (by decide)
  have hrlt : n % 10 ^ e < 10 ^ e := Nat.mod_lt _ hpn
  have hqd : Int.tdiv (n : Int) (10 ^ e) = ((n / 10 ^ e : Nat) : Int) := by
    rw [Int.tdiv_eq_ediv_of_nonneg (by positivity)]; push_cast; rfl
  have hrm : Int.tmod (n : Int) (10 ^ e) = ((n % 10 ^ e : Nat) : Int) := by
    rw [Int.tmod_eq_emod_of_nonneg (by positivity)]; push_cast; rfl
  have hnb : n ≤ 2 ^ 63 := by omega
  generalize hq : n / 10 ^ e = q at *
  generalize hr : n % 10 ^ e = r at *
  have g1 : ¬ ((q : Int) < 0) := by omega
  have g2 : ¬ ((r : Int) < 0) := by omega
  by_cases hneg : v < 0
  · have hv : v = -(n : Int) := by omega
    simp only [hneg, decide_true, if_true, sgn]
    rw [hv, Int.neg_tdiv, Int.neg_tmod, hqd, hrm, neg_neg, neg_neg]
    rw [wrap64_id (q : Int) (by unfold minInt64; omega) (by unfold maxInt64; omega)]
    rw [wrap64_id (r : Int) (by unfold minInt64; omega) (by unfold maxInt64; omega)]
    unfold fmtInt fmtIntPad0
    simp only [g1, g2, if_false, Int.natAbs_natCast]
    simp
  · have hv : v = (n : Int) := by omega
    simp only [hneg, decide_false, Bool.false_eq_true, if_false, sgn]
    rw [hv, hqd, hrm]
    unfold fmtInt fmtIntPad0
    simp only [g1, g2, if_false, Int.natAbs_natCast]
    simp

/-- `AmountFromString` of a text given as sign and rest -/
theorem amountFromString_sgn (n : Bool) (u : Text) (hn : n = false → hasPrefixMinus u = false) :
    amountFromString (sgn n u) = parseBody n u := by
  unfold amountFromString parseBody
  cases n
  · simp only [sgn, Bool.false_eq_true, if_false, hn rfl]
  · rfl

/-- the written text of an int64 amount: sign, then a body the parser reads back -/
theorem amountToString_parse (v : Int) (e : Nat) (he : e ≤ 18)
    (hlo : -(2 : Int) ^ 63 ≤ v) (hhi : v < (2 : Int) ^ 63) :
    ∃ body, amountToString ⟨v, e⟩ = sgn (decide (v < 0)) body ∧
      hasPrefixMinus body = false ∧
      isAmountBody body = true ∧
      parseBody (decide (v < 0)) body = .ok ⟨v, e⟩ := by
  have hlim : v.natAbs ≤ lim (decide (v < 0)) := by
    unfold lim
    by_cases hneg : v < 0 <;> simp only [hneg, decide_true, decide_false, if_true, Bool.false_eq_true, if_false] <;> omega
  have hsg : sg (decide (v < 0)) v.natAbs = v := by
    unfold sg
    by_cases hneg : v < 0 <;> simp only [hneg, decide_true, decide_false, if_true, Bool.false_eq_true, if_false] <;> omega
  by_cases h0 : e = 0
  · subst h0
    refine ⟨natToDigits v.natAbs, amountToString_int v, (digits_no_minus' _ (natToDigits_isDigits _)).1,
      isAmountBody_int _ (natToDigits_isDigits _), ?_⟩
    rw [parseBody_int _ _ (natToDigits_isDigits _), natToDigits_val]
    have : ¬ v.natAbs > lim (decide (v < 0)) := by omega
    simp only [this, if_false, hsg]
  · have he0 : 0 < e := by omega
    set n := v.natAbs with hn
    have hpos : 0 < 10 ^ e := by positivity
    have hr : n % 10 ^ e < 10 ^ e := Nat.mod_lt _ hpos
    have hlen : (natToDigits (n % 10 ^ e)).length ≤ e := by
      have := natToDigits_len (n % 10 ^ e) (e - 1) (by rw [Nat.sub_add_cancel he0]; exact hr)
      omega
    have hA : isDigits (natToDigits (n / 10 ^ e)) = true := natToDigits_isDigits _
    have hMlen : (padZeros e (natToDigits (n % 10 ^ e))).length = e := padZeros_len _ _ hlen
    have hM : isDigits (padZeros e (natToDigits (n % 10 ^ e))) = true := by
      unfold isDigits
      rw [padZeros_all _ _ (natToDigits_all _)]
      have : padZeros e (natToDigits (n % 10 ^ e)) ≠ [] := by
        intro hc; rw [hc] at hMlen; simp at hMlen; omega
      simp [this]
    refine ⟨natToDigits (n / 10 ^ e) ++ '.' :: padZeros e (natToDigits (n % 10 ^ e)),
      amountToString_frac v e he0 he hlo hhi, (digits_no_minus _ _ hA).1, isAmountBody_frac _ _ hA hM, ?_⟩
    rw [parseBody_frac _ _ _ hA hM, natToDigits_val, padZeros_val, natToDigits_val, hMlen]
    have hdm := Nat.div_add_mod n (10 ^ e)
    have hq : n / 10 ^ e ≤ n := Nat.div_le_self _ _
    have h18 : 10 ^ e ≤ 10 ^ 18 := Nat.pow_le_pow_right (by decide) he
    have key : n / 10 ^ e * 10 ^ e + n % 10 ^ e = n := by rw [Nat.mul_comm]; exact hdm
    have g1 : ¬ n / 10 ^ e > lim (decide (v < 0)) := by omega
    have g2 : ¬ n % 10 ^ e ≥ 9223372036854775808 := by omega
    have g3 : ¬ e > 18 := by omega
    have g4 : ¬ n > lim (decide (v < 0)) := by omega
    simp only [g1, g2, g3, if_false, key, g4, hsg]

theorem fits64_iff (s : Text) : fits64 s = true ↔ fitsBody (negative s) (stripMinus s) := by
  unfold fits64 fitsBody signedUnscaled
  have hu : unscaled s = unscaledBody (stripMinus s) := rfl
  have hd : decimals s = ((stripMinus s).dropWhile digit |>.drop 1).length := rfl
  rw [hu, hd]
  simp only [Bool.and_eq_true, decide_eq_true_eq]
  unfold lim
  by_cases hn : negative s = true
  · simp only [hn, if_true]
    constructor
    · rintro ⟨⟨h1, h2⟩, _⟩; exact ⟨h1, by omega⟩
    · rintro ⟨h1, h2⟩; exact ⟨⟨h1, by omega⟩, by omega⟩
  · simp only [hn, Bool.false_eq_true, if_false]
    constructor
    · rintro ⟨⟨h1, _⟩, h3⟩; exact ⟨h1, by omega⟩
    · rintro ⟨h1, h2⟩; exact ⟨⟨h1, by omega⟩, by omega⟩

theorem sgn_strip (s : Text) : sgn (negative s) (stripMinus s) = s := by
  cases s with
  | nil => rfl
  | cons c r =>
    by_cases h : c = '-'
    · subst h; rfl
    · simp [negative, stripMinus, sgn, h]

theorem strip_no_minus (s : Text) (h : negative s = false) : hasPrefixMinus (stripMinus s) = false := by
  cases s with
  | nil => rfl
  | cons c r =>
    by_cases hc : c = '-'
    · subst hc; simp [negative] at h
    · simp [stripMinus, hasPrefixMinus, hc]

/-- `amountFromString` in terms of the sign of the text and the text after it -/
theorem amountFromString_eq (s : Text) :
    amountFromString s = parseBody (negative s) (stripMinus s) := by
  have := amountFromString_sgn (negative s) (stripMinus s) (strip_no_minus s)
  rw [sgn_strip] at this
  exact this

/-- what is accepted, and as what: exactly the fitting members, read as the digits
    with the sign of the text at the written number of decimals -/
theorem amountFromString_ok_iff (s : Text) (a : Amount) :
    amountFromString s = .ok a ↔
      (isAmountText s = true ∧ fits64 s = true ∧ a = ⟨signedUnscaled s, decimals s⟩) := by
  rw [amountFromString_eq, fits64_iff]
  have hval : sg (negative s) (unscaledBody (stripMinus s)) = signedUnscaled s := by
    unfold sg signedUnscaled; rfl
  have hdec : ((stripMinus s).dropWhile digit |>.drop 1).length = decimals s := rfl
  unfold isAmountText
  constructor
  · intro h
    obtain ⟨h1, h2, h3⟩ := parseBody_ok_imp _ _ a (strip_no_minus s) h
    rw [hval, hdec] at h3
    exact ⟨h1, h2, h3⟩
  · rintro ⟨h1, h2, h3⟩
    rw [parseBody_ok_of _ _ h1 h2, hval, hdec, h3]

/-! ### percentages: the conversions only move the decimal point -/

theorem ofAmount_exact (a : Amount) : (Pct.ofAmount a).amount = ⟨a.value, a.exp + 2⟩ := rfl

/-- `Percentage.Amount()`: the value in percent, with two decimals fewer -/
theorem toAmount_exact (v : ℤ) (e : ℕ) :
    Pct.toAmount ⟨⟨v, e⟩⟩ = ⟨v * 10 ^ (2 - e), e - 2⟩ := by
  unfold Pct.toAmount Amount.rescaleUp Amount.rescale
  by_cases h2 : 2 > e
  · have h3 : ¬ e > 2 := by omega
    have h4 : e < 2 := by omega
    have h5 : 2 - 2 = e - 2 := by omega
    simp only [h2, h3, if_true, if_false, pow10, h5]
  · have h5 : 2 - e = 0 := by omega
    simp only [h2, if_false, h5, pow_zero, mul_one]

/-! ### the JSON string decoder on the spellings of Spec/C06 -/

open GoblVerif.Spec.C06 in
theorem hexVal_hexDigit (k : Nat) (h : k < 16) : hexVal? (hexDigit k) = some k := by
  interval_cases k <;> decide

open GoblVerif.Spec.C06 in
/-- `getu4` reads `\u00XX` back as the code of the character -/
theorem getu4_uEscape (c : Char) (hc : c.toNat < 128) (rest : Text) :
    getu4 (uEscape c ++ rest) = some c.toNat := by
  have h1 := hexVal_hexDigit (c.toNat / 16) (by omega)
  have h2 := hexVal_hexDigit (c.toNat % 16) (by omega)
  have h0 : hexVal? '0' = some 0 := by decide
  show getu4 ('\\' :: 'u' :: '0' :: '0' :: hexDigit (c.toNat / 16) :: hexDigit (c.toNat % 16) :: rest) = _
  unfold getu4
  simp only [h0, h1, h2]
  congr 1
  omega

theorem utf8Encode_ascii (c : Char) (hc : c.toNat < 128) : utf8Encode c.toNat = [c] := by
  unfold utf8Encode
  have : c.toNat < 0x80 := hc
  simp only [this, if_true, Char.ofNat_toNat]

open GoblVerif.Spec.C06 in
theorem jsonPlain_spec (c : Char) (h : jsonPlain c = true) :
    c ≠ '"' ∧ c ≠ '\\' ∧ ¬ c.toNat < 0x20 ∧ c.toNat < 0x80 := by
  unfold jsonPlain at h
  simp only [Bool.and_eq_true, decide_eq_true_eq, bne_iff_ne, ne_eq] at h
  obtain ⟨⟨⟨h1, h2⟩, h3⟩, h4⟩ := h
  exact ⟨h3, h4, by omega, h2⟩

/-- one step of the decoder over a character that stands for itself -/
theorem jsonStringBody_plain (f : Nat) (c : Char) (rest : Text) (h : Spec.C06.jsonPlain c = true) :
    jsonStringBody (f + 1) (c :: rest) = (jsonStringBody f rest).map (c :: ·) := by
  obtain ⟨h1, h2, h3, h4⟩ := jsonPlain_spec c h
  rw [jsonStringBody.eq_def]
  simp only [beq_iff_eq, h1, h2, if_false, h3, h4, if_true]

open GoblVerif.Spec.C06 in
/-- one step of the decoder over a character written as `\u00XX` -/
theorem jsonStringBody_escaped (f : Nat) (c : Char) (rest : Text) (hc : c.toNat < 128) :
    jsonStringBody (f + 1) (uEscape c ++ rest) = (jsonStringBody f rest).map (c :: ·) := by
  have hg := getu4_uEscape c hc rest
  have hshape : uEscape c ++ rest =
      '\\' :: 'u' :: '0' :: '0' :: hexDigit (c.toNat / 16) :: hexDigit (c.toNat % 16) :: rest := rfl
  rw [hshape] at hg ⊢
  rw [jsonStringBody.eq_def]
  have hq : ('\\' == '"') = false := by decide
  have hb : ('\\' == '\\') = true := by decide
  have hu : ('u' == 'u') = true := by decide
  simp only [hq, hb, hu, Bool.false_eq_true, if_false, if_true, hg]
  have hs : ¬ (0xD800 ≤ c.toNat ∧ c.toNat < 0xE000) := by omega
  simp only [Bool.and_eq_true, decide_eq_true_eq, hs, if_false]
  rw [utf8Encode_ascii c hc]
  simp [List.drop]

theorem jsonStringBody_close (f : Nat) : jsonStringBody (f + 1) ['"'] = some [] := by
  rw [jsonStringBody.eq_def]
  simp

open GoblVerif.Spec.C06 in
theorem spell_length (mask : List Bool) (s : Text) : s.length ≤ (spell mask s).length := by
  induction s generalizing mask with
  | nil => simp [spell]
  | cons c cs ih =>
    unfold spell
    have := ih mask.tail
    by_cases hm : mask.headD false = true
    · simp only [hm, if_true, List.length_append, List.length_cons]
      unfold uEscape; simp; omega
    · simp only [hm, Bool.false_eq_true, if_false, List.length_append, List.length_cons]
      simp; omega

open GoblVerif.Spec.C06 in
/-- every spelling of a text of plain characters decodes to that text -/
theorem jsonStringBody_spell (s : Text) (hs : ∀ c ∈ s, jsonPlain c = true) :
    ∀ (mask : List Bool) (f : Nat), s.length + 1 ≤ f →
      jsonStringBody f (spell mask s ++ ['"']) = some s := by
  induction s with
  | nil =>
    intro mask f hf
    obtain ⟨f, rfl⟩ : ∃ k, f = k + 1 := ⟨f - 1, by omega⟩
    simp only [spell, List.nil_append]
    exact jsonStringBody_close f
  | cons c cs ih =>
    intro mask f hf
    obtain ⟨f, rfl⟩ : ∃ k, f = k + 1 := ⟨f - 1, by simp at hf; omega⟩
    have hc := hs c (by simp)
    have ih' := ih (fun d hd => hs d (by simp [hd])) mask.tail f (by simp at hf; omega)
    unfold spell
    by_cases hm : mask.headD false = true
    · simp only [hm, if_true, List.append_assoc]
      rw [jsonStringBody_escaped f c _ (jsonPlain_spec c hc).2.2.2, ih']
      rfl
    · simp only [hm, Bool.false_eq_true, if_false, List.cons_append, List.nil_append]
      rw [jsonStringBody_plain f c _ hc, ih']
      rfl

open GoblVerif.Spec.C06 in
theorem jsonDecodeString_spelling (mask : List Bool) (s : Text) (hs : ∀ c ∈ s, jsonPlain c = true) :
    jsonDecodeString (jsonSpelling mask s) = some s := by
  unfold jsonSpelling jsonDecodeString
  simp only
  apply jsonStringBody_spell s hs
  have := spell_length mask s
  simp; omega

open GoblVerif.Spec.C06 in
/-- what `jsonText` makes of a spelling: the text itself, never the null literal -/
theorem jsonText_spelling (mask : List Bool) (s : Text) (hs : ∀ c ∈ s, jsonPlain c = true) :
    jsonText (jsonSpelling mask s) = .ok (s, false) := by
  unfold jsonText
  rw [jsonDecodeString_spelling mask s hs]
  simp [jsonSpelling]

/-- a value that does not start with a quote is taken as it is -/
theorem jsonText_bare (s : Text) (h : s.head? ≠ some '"') : jsonText s = .ok (s, s == nullText) := by
  unfold jsonText
  have : (s.head? == some '"') = false := by simpa using h
  simp [this]

open GoblVerif.Spec.C06 in
theorem isDigitC_plain (c : Char) (h : isDigitC c = true) : jsonPlain c = true := by
  unfold isDigitC at h
  simp only [Bool.and_eq_true, decide_eq_true_eq] at h
  unfold jsonPlain
  have h1 : c ≠ '"' := by intro e; subst e; revert h; decide
  have h2 : c ≠ '\\' := by intro e; subst e; revert h; decide
  simp only [Bool.and_eq_true, decide_eq_true_eq, bne_iff_ne, ne_eq]
  exact ⟨⟨⟨by omega, by omega⟩, h1⟩, h2⟩

open GoblVerif.Spec.C06 in
theorem isDigits_plain (s : Text) (h : isDigits s = true) : ∀ c ∈ s, jsonPlain c = true := by
  intro c hc
  have := isDigits_all s h
  rw [List.all_eq_true] at this
  exact isDigitC_plain c (this c hc)

open GoblVerif.Spec.C06 in
/-- every member of the amount pattern consists of plain characters -/
theorem isAmountText_plain (s : Text) (h : isAmountText s = true) : ∀ c ∈ s, jsonPlain c = true := by
  have body : ∀ u, isAmountBody u = true → ∀ c ∈ u, jsonPlain c = true := by
    intro u hu c hc
    rcases isAmountBody_shape u hu with hd | ⟨a, m, rfl, ha, hm⟩
    · exact isDigits_plain u hd c hc
    · simp only [List.mem_append, List.mem_cons] at hc
      rcases hc with hc | rfl | hc
      · exact isDigits_plain a ha c hc
      · decide
      · exact isDigits_plain m hm c hc
  unfold isAmountText at h
  cases s with
  | nil => intro c hc; simp at hc
  | cons d r =>
    by_cases hd : d = '-'
    · subst hd
      have hb := body r (by simpa [stripMinus] using h)
      intro c hc
      simp only [List.mem_cons] at hc
      rcases hc with rfl | hc
      · decide
      · exact hb c hc
    · have : stripMinus (d :: r) = d :: r := by
        unfold stripMinus
        split
        · rename_i heq; simp at heq; exact absurd heq.1 hd
        · rfl
      rw [this] at h
      exact body _ h

open GoblVerif.Spec.C06 in
/-- … and so does every member of the percentage pattern -/
theorem isPercentageText_plain (s : Text) (h : isPercentageText s = true) : ∀ c ∈ s, jsonPlain c = true := by
  unfold isPercentageText at h
  cases hl : s.getLast? with
  | none => rw [hl] at h; simp at h
  | some l =>
    rw [hl] at h
    by_cases hp : l = '%'
    · subst hp
      simp only at h
      have hne : s ≠ [] := by intro e; subst e; simp at hl
      have hsplit : s = s.dropLast ++ ['%'] := by
        have := List.dropLast_append_getLast? '%' (by simpa using hl)
        exact this.symm
      intro c hc
      rw [hsplit] at hc
      simp only [List.mem_append, List.mem_singleton] at hc
      rcases hc with hc | rfl
      · exact isAmountText_plain _ h c hc
      · decide
    · exfalso
      split at h
      · rename_i heq; simp at heq; exact hp heq
      · simp at h


end GoblVerif.Codec
