/-
  Helper lemmas for C07: `sortJ`, `dropJ`, `norm` on trees — well-formedness
  is kept, the result is sorted and free of null members, `norm` is idempotent,
  null members and member order do not matter.
-/
import GoblVerif.Model.C14n
import GoblVerif.Proofs.C14nSort

namespace GoblVerif.Proofs.C14n
open GoblVerif GoblVerif.Spec.C07 GoblVerif.C14n

theorem all_perm {α : Type} {l₁ l₂ : List α} (p : l₁.Perm l₂) (f : α → Bool) : l₁.all f = l₂.all f := by
  rw [Bool.eq_iff_iff, List.all_eq_true, List.all_eq_true]
  constructor
  · intro h x hx; exact h x (p.mem_iff.mpr hx)
  · intro h x hx; exact h x (p.mem_iff.mp hx)

/-! ## list views of the `KL` functions -/

theorem toList_sortK (kvs : KL) : (sortK kvs).toList = sortL kvs.toList := by
  simp [sortK, KL.toList_ofList]

theorem toList_sortJK : ∀ kvs : KL, (sortJK kvs).toList = kvs.toList.map (fun p => (p.1, sortJ p.2))
  | .nil => rfl
  | .cons k v r => by simp [sortJK, KL.toList, toList_sortJK r]

theorem toList_dropJK : ∀ kvs : KL,
    (dropJK kvs).toList = (kvs.toList.filter (fun p => !p.2.isNull)).map (fun p => (p.1, dropJ p.2))
  | .nil => rfl
  | .cons k v r => by
    cases h : v.isNull <;> simp [dropJK, KL.toList, toList_dropJK r, h]

theorem wfK_all : ∀ kvs : KL, kvs.wf = kvs.toList.all (fun p => p.2.wf)
  | .nil => rfl
  | .cons k v r => by simp [KL.wf, KL.toList, wfK_all r]

theorem sortedJK_all (s : Bool) : ∀ kvs : KL, sortedJK s kvs = kvs.toList.all (fun p => sortedJ s p.2)
  | .nil => rfl
  | .cons k v r => by simp [sortedJK, KL.toList, sortedJK_all s r]

theorem keys_toList : ∀ kvs : KL, KL.keys kvs = kvs.toList.map (·.1)
  | .nil => rfl
  | .cons k v r => by simp [KL.keys, KL.toList, keys_toList r]

theorem KL_ext {a b : KL} (h : a.toList = b.toList) : a = b := by
  rw [← KL.ofList_toList a, ← KL.ofList_toList b, h]

/-! ## adjacent-sorted (the recogniser) versus pairwise-sorted -/

theorem sortedKeys_of_pairwise : ∀ ks : List Str, ks.Pairwise leS → sortedKeys false ks = true
  | [], _ => rfl
  | [_], _ => rfl
  | a :: b :: r, h => by
    rw [List.pairwise_cons] at h
    have hab : ltS b a = false := h.1 b (by simp)
    simp [sortedKeys, hab, sortedKeys_of_pairwise (b :: r) h.2]

theorem pairwise_of_sortedKeys : ∀ ks : List Str, sortedKeys false ks = true → ks.Pairwise leS
  | [], _ => List.Pairwise.nil
  | [_], _ => by simp
  | a :: b :: r, h => by
    simp only [sortedKeys, Bool.false_eq_true, if_false, Bool.and_eq_true, Bool.not_eq_true'] at h
    have ih := pairwise_of_sortedKeys (b :: r) h.2
    rw [List.pairwise_cons]
    refine ⟨?_, ih⟩
    intro c hc
    rcases List.mem_cons.mp hc with hc | hc
    · subst hc; exact h.1
    · rw [List.pairwise_cons] at ih
      exact leS_trans h.1 (ih.1 c hc)

theorem SortedL_iff_keys {α : Type} (l : List (Str × α)) : SortedL l ↔ (l.map (·.1)).Pairwise leS := by
  unfold SortedL; rw [List.pairwise_map]

/-! ## isNull through the tree functions -/

theorem isNull_sortJ (v : J) : (sortJ v).isNull = v.isNull := by
  cases v <;> rfl

/-! ## well-formedness is kept -/

mutual
theorem wf_sortJ : ∀ v : J, (sortJ v).wf = v.wf
  | .atom a => rfl
  | .arr xs => by simp [sortJ, J.wf, wf_sortJL xs]
  | .obj kvs => by
    simp only [sortJ, J.wf]
    rw [wfK_all, toList_sortK, all_perm (sortL_perm _), ← wfK_all, wf_sortJK kvs]
theorem wf_sortJL : ∀ xs : JL, (sortJL xs).wf = xs.wf
  | .nil => rfl
  | .cons x xs => by simp [sortJL, JL.wf, wf_sortJ x, wf_sortJL xs]
theorem wf_sortJK : ∀ kvs : KL, (sortJK kvs).wf = kvs.wf
  | .nil => rfl
  | .cons k v r => by simp [sortJK, KL.wf, wf_sortJ v, wf_sortJK r]
end

mutual
theorem wf_dropJ : ∀ v : J, v.wf = true → (dropJ v).wf = true
  | .atom a, h => h
  | .arr xs, h => by simpa [dropJ, J.wf] using wf_dropJL xs (by simpa [J.wf] using h)
  | .obj kvs, h => by simpa [dropJ, J.wf] using wf_dropJK kvs (by simpa [J.wf] using h)
theorem wf_dropJL : ∀ xs : JL, xs.wf = true → (dropJL xs).wf = true
  | .nil, _ => rfl
  | .cons x xs, h => by
    simp only [JL.wf, Bool.and_eq_true] at h
    simp [dropJL, JL.wf, wf_dropJ x h.1, wf_dropJL xs h.2]
theorem wf_dropJK : ∀ kvs : KL, kvs.wf = true → (dropJK kvs).wf = true
  | .nil, _ => rfl
  | .cons k v r, h => by
    simp only [KL.wf, Bool.and_eq_true] at h
    cases hn : v.isNull <;> simp [dropJK, hn, KL.wf, wf_dropJ v h.1, wf_dropJK r h.2]
end

theorem wf_norm (v : J) (h : v.wf = true) : (norm v).wf = true :=
  wf_dropJ _ (by rw [wf_sortJ]; exact h)

/-! ## the result of `sortJ` is sorted, stays sorted under `dropJ`, and sorting it again changes nothing -/

mutual
theorem sorted_sortJ : ∀ v : J, sortedJ false (sortJ v) = true
  | .atom a => rfl
  | .arr xs => by simp [sortJ, sortedJ, sorted_sortJL xs]
  | .obj kvs => by
    simp only [sortJ, sortedJ, Bool.and_eq_true]
    constructor
    · rw [keys_toList, toList_sortK]
      exact sortedKeys_of_pairwise _ ((SortedL_iff_keys _).mp (sortL_sorted _))
    · rw [sortedJK_all, toList_sortK, all_perm (sortL_perm _), ← sortedJK_all]
      exact sorted_sortJK kvs
theorem sorted_sortJL : ∀ xs : JL, sortedJL false (sortJL xs) = true
  | .nil => rfl
  | .cons x xs => by simp [sortJL, sortedJL, sorted_sortJ x, sorted_sortJL xs]
theorem sorted_sortJK : ∀ kvs : KL, sortedJK false (sortJK kvs) = true
  | .nil => rfl
  | .cons k v r => by simp [sortJK, sortedJK, sorted_sortJ v, sorted_sortJK r]
end

theorem keys_dropJK_sublist (kvs : KL) : (KL.keys (dropJK kvs)).Sublist (KL.keys kvs) := by
  rw [keys_toList, keys_toList, toList_dropJK, List.map_map]
  have : ((fun x : Str × J => x.1) ∘ fun p : Str × J => (p.1, dropJ p.2)) = fun x => x.1 := rfl
  rw [this]
  exact (List.filter_sublist).map _

mutual
theorem sorted_dropJ : ∀ v : J, sortedJ false v = true → sortedJ false (dropJ v) = true
  | .atom a, _ => rfl
  | .arr xs, h => by simpa [dropJ, sortedJ] using sorted_dropJL xs (by simpa [sortedJ] using h)
  | .obj kvs, h => by
    simp only [sortedJ, Bool.and_eq_true] at h
    simp only [dropJ, sortedJ, Bool.and_eq_true]
    exact ⟨sortedKeys_of_pairwise _ ((pairwise_of_sortedKeys _ h.1).sublist (keys_dropJK_sublist kvs)),
      sorted_dropJK kvs h.2⟩
theorem sorted_dropJL : ∀ xs : JL, sortedJL false xs = true → sortedJL false (dropJL xs) = true
  | .nil, _ => rfl
  | .cons x xs, h => by
    simp only [sortedJL, Bool.and_eq_true] at h
    simp [dropJL, sortedJL, sorted_dropJ x h.1, sorted_dropJL xs h.2]
theorem sorted_dropJK : ∀ kvs : KL, sortedJK false kvs = true → sortedJK false (dropJK kvs) = true
  | .nil, _ => rfl
  | .cons k v r, h => by
    simp only [sortedJK, Bool.and_eq_true] at h
    cases hn : v.isNull <;> simp [dropJK, hn, sortedJK, sorted_dropJ v h.1, sorted_dropJK r h.2]
end

mutual
theorem sortJ_of_sorted : ∀ v : J, sortedJ false v = true → sortJ v = v
  | .atom a, _ => rfl
  | .arr xs, h => by simp [sortJ, sortJL_of_sorted xs (by simpa [sortedJ] using h)]
  | .obj kvs, h => by
    simp only [sortedJ, Bool.and_eq_true] at h
    simp only [sortJ, sortJK_of_sorted kvs h.2]
    congr 1
    apply KL_ext
    rw [toList_sortK]
    apply sortL_of_sorted
    rw [SortedL_iff_keys, ← keys_toList]
    exact pairwise_of_sortedKeys _ h.1
theorem sortJL_of_sorted : ∀ xs : JL, sortedJL false xs = true → sortJL xs = xs
  | .nil, _ => rfl
  | .cons x xs, h => by
    simp only [sortedJL, Bool.and_eq_true] at h
    simp [sortJL, sortJ_of_sorted x h.1, sortJL_of_sorted xs h.2]
theorem sortJK_of_sorted : ∀ kvs : KL, sortedJK false kvs = true → sortJK kvs = kvs
  | .nil, _ => rfl
  | .cons k v r, h => by
    simp only [sortedJK, Bool.and_eq_true] at h
    simp [sortJK, sortJ_of_sorted v h.1, sortJK_of_sorted r h.2]
end

/-! ## dropping twice is dropping once; nothing null is left in objects -/

mutual
theorem dropJ_dropJ : ∀ v : J, dropJ (dropJ v) = dropJ v
  | .atom a => rfl
  | .arr xs => by simp [dropJ, dropJL_dropJL xs]
  | .obj kvs => by simp [dropJ, dropJK_dropJK kvs]
theorem dropJL_dropJL : ∀ xs : JL, dropJL (dropJL xs) = dropJL xs
  | .nil => rfl
  | .cons x xs => by simp [dropJL, dropJ_dropJ x, dropJL_dropJL xs]
theorem dropJK_dropJK : ∀ kvs : KL, dropJK (dropJK kvs) = dropJK kvs
  | .nil => rfl
  | .cons k v r => by
    cases hn : v.isNull
    · have : (dropJ v).isNull = false := by cases v <;> simp_all [dropJ, J.isNull]
      simp [dropJK, hn, this, dropJ_dropJ v, dropJK_dropJK r]
    · simp [dropJK, hn, dropJK_dropJK r]
end

mutual
theorem noNull_dropJ : ∀ v : J, noNullMembers (dropJ v) = true
  | .atom a => rfl
  | .arr xs => by simp [dropJ, noNullMembers, noNull_dropJL xs]
  | .obj kvs => by simp [dropJ, noNullMembers, noNull_dropJK kvs]
theorem noNull_dropJL : ∀ xs : JL, noNullMembersL (dropJL xs) = true
  | .nil => rfl
  | .cons x xs => by simp [dropJL, noNullMembersL, noNull_dropJ x, noNull_dropJL xs]
theorem noNull_dropJK : ∀ kvs : KL, noNullMembersK (dropJK kvs) = true
  | .nil => rfl
  | .cons k v r => by
    cases hn : v.isNull
    · have : (dropJ v).isNull = false := by cases v <;> simp_all [dropJ, J.isNull]
      simp [dropJK, hn, noNullMembersK, this, noNull_dropJ v, noNull_dropJK r]
    · simp [dropJK, hn, noNull_dropJK r]
end

theorem dropJL_sortJL_map : ∀ ys : JL, dropJL (sortJL ys) = JL.ofList (ys.toList.map norm)
  | .nil => rfl
  | .cons y ys => by
    simp [sortJL, dropJL, JL.toList, JL.ofList, dropJL_sortJL_map ys, norm]

theorem norm_norm (v : J) : norm (norm v) = norm v := by
  unfold norm
  rw [sortJ_of_sorted _ (sorted_dropJ _ (sorted_sortJ v)), dropJ_dropJ]

/-! ## the marshaller does not see null members -/

mutual
theorem marshalJ_dropJ : ∀ v : J, marshalJ (dropJ v) = marshalJ v
  | .atom a => rfl
  | .arr xs => by simp [dropJ, marshalJ, marshalL_dropJL true xs]
  | .obj kvs => by simp [dropJ, marshalJ, marshalK_dropJK true kvs]
theorem marshalL_dropJL : ∀ (f : Bool) (xs : JL), marshalL f (dropJL xs) = marshalL f xs
  | _, .nil => rfl
  | f, .cons x xs => by simp [dropJL, marshalL, marshalJ_dropJ x, marshalL_dropJL false xs]
theorem marshalK_dropJK : ∀ (f : Bool) (kvs : KL), marshalK f (dropJK kvs) = marshalK f kvs
  | _, .nil => rfl
  | f, .cons k v r => by
    cases hn : v.isNull
    · have : (dropJ v).isNull = false := by cases v <;> simp_all [dropJ, J.isNull]
      simp [dropJK, hn, marshalK, this, marshalJ_dropJ v, marshalK_dropJK false r, marshalK_dropJK f r]
    · simp [dropJK, hn, marshalK, attrJoin, marshalK_dropJK f r]
end

/-- members whose value is null removed at the top level only -/
def dropTop (kvs : KL) : KL := KL.ofList (kvs.toList.filter (fun p => !p.2.isNull))

theorem marshalK_filter (f : Bool) : ∀ l : List (Str × J),
    marshalK f (KL.ofList (l.filter (fun p => !p.2.isNull))) = marshalK f (KL.ofList l)
  | [] => rfl
  | (k, v) :: r => by
    cases hn : v.isNull
    · simp [hn, KL.ofList, marshalK, marshalK_filter false r, marshalK_filter f r]
    · simp [hn, KL.ofList, marshalK, attrJoin, marshalK_filter f r]

theorem sortJK_dropTop (kvs : KL) : sortJK (dropTop kvs) = dropTop (sortJK kvs) := by
  apply KL_ext
  simp only [dropTop, toList_sortJK, KL.toList_ofList, List.filter_map]
  congr 1
  apply List.filter_congr
  intro p _
  simp [Function.comp, isNull_sortJ]

theorem sortK_dropTop (kvs : KL) : sortK (dropTop kvs) = dropTop (sortK kvs) := by
  apply KL_ext
  simp only [dropTop, toList_sortK, KL.toList_ofList, filter_sortL]

theorem canonChars_dropTop (kvs : KL) : canonChars (.obj (dropTop kvs)) = canonChars (.obj kvs) := by
  unfold canonChars
  simp only [sortJ, marshalJ]
  rw [sortJK_dropTop, sortK_dropTop]
  unfold dropTop
  rw [marshalK_filter, KL.ofList_toList]

theorem canonChars_perm (kvs kvs' : KL) (hp : kvs.toList.Perm kvs'.toList) (hn : (KL.keys kvs).Nodup) :
    canonChars (.obj kvs) = canonChars (.obj kvs') := by
  unfold canonChars
  simp only [sortJ]
  have : sortK (sortJK kvs) = sortK (sortJK kvs') := by
    apply KL_ext
    rw [toList_sortK, toList_sortK, toList_sortJK, toList_sortJK]
    apply sortL_eq_of_perm _ _ (hp.map _)
    rw [List.map_map]
    have : ((fun x : Str × J => x.1) ∘ fun p : Str × J => (p.1, sortJ p.2)) = fun x => x.1 := rfl
    rw [this, ← keys_toList]; exact hn
  rw [this]

theorem canonChars_norm (v : J) : canonChars (norm v) = canonChars v := by
  unfold canonChars norm
  rw [sortJ_of_sorted _ (sorted_dropJ _ (sorted_sortJ v)), marshalJ_dropJ]


/-! ## the strings of `norm v` are strings of `v` -/

theorem any_perm {α : Type} {l₁ l₂ : List α} (p : l₁.Perm l₂) (f : α → Bool) : l₁.any f = l₂.any f := by
  rw [Bool.eq_iff_iff, List.any_eq_true, List.any_eq_true]
  constructor
  · rintro ⟨x, hx, h⟩; exact ⟨x, p.mem_iff.mp hx, h⟩
  · rintro ⟨x, hx, h⟩; exact ⟨x, p.mem_iff.mpr hx, h⟩

theorem strsHaveK_any (p : Nat → Bool) : ∀ kvs : KL,
    strsHaveK p kvs = kvs.toList.any (fun q => q.1.any p || strsHave p q.2)
  | .nil => rfl
  | .cons k v r => by simp [strsHaveK, KL.toList, strsHaveK_any p r]

mutual
theorem strsHave_sortJ (p : Nat → Bool) : ∀ v : J, strsHave p (sortJ v) = strsHave p v
  | .atom a => rfl
  | .arr xs => by simp [sortJ, strsHave, strsHaveL_sortJL p xs]
  | .obj kvs => by
    simp only [sortJ, strsHave]
    rw [strsHaveK_any, toList_sortK, any_perm (sortL_perm _), ← strsHaveK_any, strsHaveK_sortJK p kvs]
theorem strsHaveL_sortJL (p : Nat → Bool) : ∀ xs : JL, strsHaveL p (sortJL xs) = strsHaveL p xs
  | .nil => rfl
  | .cons x xs => by simp [sortJL, strsHaveL, strsHave_sortJ p x, strsHaveL_sortJL p xs]
theorem strsHaveK_sortJK (p : Nat → Bool) : ∀ kvs : KL, strsHaveK p (sortJK kvs) = strsHaveK p kvs
  | .nil => rfl
  | .cons k v r => by simp [sortJK, strsHaveK, strsHave_sortJ p v, strsHaveK_sortJK p r]
end

mutual
theorem strsHave_dropJ (p : Nat → Bool) : ∀ v : J, strsHave p (dropJ v) = true → strsHave p v = true
  | .atom a, h => h
  | .arr xs, h => by
    simp only [dropJ, strsHave] at h ⊢; exact strsHaveL_dropJL p xs h
  | .obj kvs, h => by
    simp only [dropJ, strsHave] at h ⊢; exact strsHaveK_dropJK p kvs h
theorem strsHaveL_dropJL (p : Nat → Bool) : ∀ xs : JL, strsHaveL p (dropJL xs) = true → strsHaveL p xs = true
  | .nil, h => h
  | .cons x xs, h => by
    simp only [dropJL, strsHaveL, Bool.or_eq_true] at h ⊢
    rcases h with h | h
    · exact Or.inl (strsHave_dropJ p x h)
    · exact Or.inr (strsHaveL_dropJL p xs h)
theorem strsHaveK_dropJK (p : Nat → Bool) : ∀ kvs : KL, strsHaveK p (dropJK kvs) = true → strsHaveK p kvs = true
  | .nil, h => h
  | .cons k v r, h => by
    cases hn : v.isNull
    · simp only [dropJK, hn, Bool.false_eq_true, if_false, strsHaveK, Bool.or_eq_true] at h ⊢
      rcases h with (h | h) | h
      · exact Or.inl (Or.inl h)
      · exact Or.inl (Or.inr (strsHave_dropJ p v h))
      · exact Or.inr (strsHaveK_dropJK p r h)
    · simp only [dropJK, hn, if_true] at h
      simp only [strsHaveK, Bool.or_eq_true]
      exact Or.inr (strsHaveK_dropJK p r h)
end

theorem any_mono {p q : Nat → Bool} (hpq : ∀ x, p x = true → q x = true) (s : List Nat)
    (h : s.any p = true) : s.any q = true := by
  rw [List.any_eq_true] at h ⊢
  obtain ⟨x, hx, hp⟩ := h
  exact ⟨x, hx, hpq x hp⟩

mutual
theorem strsHave_mono (p q : Nat → Bool) (hpq : ∀ x, p x = true → q x = true) :
    ∀ v : J, strsHave p v = true → strsHave q v = true
  | .atom (.str s), h => by simp only [strsHave] at h ⊢; exact any_mono hpq s h
  | .atom .null, h => by simp [strsHave] at h
  | .atom (.bool _), h => by simp [strsHave] at h
  | .atom (.int _), h => by simp [strsHave] at h
  | .atom (.flt _ _ _), h => by simp [strsHave] at h
  | .arr xs, h => by simp only [strsHave] at h ⊢; exact strsHaveL_mono p q hpq xs h
  | .obj kvs, h => by simp only [strsHave] at h ⊢; exact strsHaveK_mono p q hpq kvs h
theorem strsHaveL_mono (p q : Nat → Bool) (hpq : ∀ x, p x = true → q x = true) :
    ∀ xs : JL, strsHaveL p xs = true → strsHaveL q xs = true
  | .nil, h => by simp [strsHaveL] at h
  | .cons x xs, h => by
    simp only [strsHaveL, Bool.or_eq_true] at h ⊢
    rcases h with h | h
    · exact Or.inl (strsHave_mono p q hpq x h)
    · exact Or.inr (strsHaveL_mono p q hpq xs h)
theorem strsHaveK_mono (p q : Nat → Bool) (hpq : ∀ x, p x = true → q x = true) :
    ∀ kvs : KL, strsHaveK p kvs = true → strsHaveK q kvs = true
  | .nil, h => by simp [strsHaveK] at h
  | .cons k v r, h => by
    simp only [strsHaveK, Bool.or_eq_true] at h ⊢
    rcases h with (h | h) | h
    · exact Or.inl (Or.inl (any_mono hpq k h))
    · exact Or.inl (Or.inr (strsHave_mono p q hpq v h))
    · exact Or.inr (strsHaveK_mono p q hpq r h)
end

theorem strsHave_norm (p : Nat → Bool) (v : J) (h : strsHave p (norm v) = true) : strsHave p v = true := by
  have := strsHave_dropJ p (sortJ v) h
  rwa [strsHave_sortJ] at this

end GoblVerif.Proofs.C14n
