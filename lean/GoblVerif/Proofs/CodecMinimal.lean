/-
  Helper lemmas for C06, MinimalString: trailing zeros of the decimals and a
  left-over point are removed; what remains is sign + digits [+ point + digits]
  and the parser reads it as the same number (`amountMinimalString_parse`).
-/
import GoblVerif.Proofs.Codec
import Mathlib.Tactic.FieldSimp

namespace GoblVerif.Codec
open GoblVerif GoblVerif.Spec.C06

theorem dropWhile_zero_spec (R : Text) :
    R = List.replicate (R.length - (R.dropWhile (· == '0')).length) '0' ++ R.dropWhile (· == '0') := by
  induction R with
  | nil => rfl
  | cons c R ih =>
    by_cases hc : c = '0'
    · subst hc
      simp only [List.dropWhile_cons, beq_self_eq_true, if_true, List.length_cons]
      have hle : (R.dropWhile (· == '0')).length ≤ R.length := (List.dropWhile_sublist _).length_le
      have : R.length + 1 - (R.dropWhile (· == '0')).length = (R.length - (R.dropWhile (· == '0')).length) + 1 := by omega
      rw [this, List.replicate_succ, List.cons_append, ← ih]
    · have : (c == '0') = false := by simp [hc]
      simp [List.dropWhile_cons, this]

theorem trimRightZeros_spec (M : Text) :
    M = trimRightZeros M ++ List.replicate (M.length - (trimRightZeros M).length) '0' := by
  have h := dropWhile_zero_spec M.reverse
  unfold trimRightZeros
  have h2 := congrArg List.reverse h
  simp only [List.reverse_reverse, List.reverse_append, List.reverse_replicate, List.length_reverse] at h2
  simpa using h2

theorem dropWhile_append_stop (p : Char → Bool) (l : Text) (c : Char) (r : Text) (hc : p c = false) :
    (l ++ c :: r).dropWhile p = l.dropWhile p ++ c :: r := by
  induction l with
  | nil => simp [List.dropWhile_cons, hc]
  | cons x l ih =>
    by_cases hx : p x = true
    · simp [List.dropWhile_cons, hx, ih]
    · simp [List.dropWhile_cons, hx]

theorem trimRightZeros_dot (X M : Text) : trimRightZeros (X ++ '.' :: M) = X ++ '.' :: trimRightZeros M := by
  unfold trimRightZeros
  have : (X ++ '.' :: M).reverse = M.reverse ++ '.' :: X.reverse := by simp
  rw [this, dropWhile_append_stop _ _ _ _ (by decide)]
  simp

theorem trimSuffixDot_dot (X M : Text) (hM : M.all isDigitC = true) :
    trimSuffixDot (X ++ '.' :: M) = if M = [] then X else X ++ '.' :: M := by
  unfold trimSuffixDot
  rcases List.eq_nil_or_concat M with h | ⟨t, d, h⟩
  · subst h
    have e : X ++ ['.'] = X ++ ['.'] := rfl
    rw [List.getLast?_append]
    simp
  · subst h
    have hd : isDigitC d = true := by
      simp only [List.concat_eq_append, List.all_append, Bool.and_eq_true, List.all_cons, List.all_nil, Bool.and_true] at hM
      exact hM.2
    have hne : d ≠ '.' := (isDigitC_not_sign d hd).2.2.1
    have e1 : X ++ '.' :: t.concat d = (X ++ '.' :: t) ++ [d] := by simp
    have hl : (X ++ '.' :: t.concat d).getLast? = some d := by rw [e1, List.getLast?_append]; rfl
    have : t.concat d ≠ [] := by simp
    rw [hl]
    simp [hne, this]


theorem toRat_eq_of_cross (a b : Amount) (h : a.value * pow10 b.exp = b.value * pow10 a.exp) : a.toRat = b.toRat := by
  unfold Amount.toRat
  have ha : ((pow10 a.exp : Int) : Rat) ≠ 0 := by unfold pow10; positivity
  have hb : ((pow10 b.exp : Int) : Rat) ≠ 0 := by unfold pow10; positivity
  rw [div_eq_div_iff ha hb]
  exact_mod_cast h

theorem natOfDigits_append_zeros (s : Text) (k : Nat) :
    natOfDigits (s ++ List.replicate k '0') = natOfDigits s * 10 ^ k := by
  rw [natOfDigits_append]
  have := natOfDigits_zeros k []
  simp only [List.append_nil] at this
  rw [this]; simp [natOfDigits]

theorem sgn_contains_dot_false (n : Bool) (D : Text) (h : isDigits D = true) : (sgn n D).contains '.' = false := by
  have hD := isDigits_nodot D h
  cases n
  · simp only [sgn, Bool.false_eq_true, if_false]
    simp only [List.contains_eq_mem, decide_eq_false_iff_not]
    intro hm; exact hD _ hm rfl
  · simp only [sgn, if_true]
    simp only [List.contains_eq_mem, decide_eq_false_iff_not, List.mem_cons]
    rintro (h1 | hm)
    · revert h1; decide
    · exact hD _ hm rfl

theorem sgn_append (n : Bool) (u w : Text) : sgn n (u ++ w) = sgn n u ++ w := by cases n <;> rfl

theorem sg_mul (n : Bool) (a : Nat) (b : Int) : sg n a * b = (if n then -((a : Int) * b) else (a : Int) * b) := by
  cases n <;> simp [sg]

/-- `MinimalString` of an int64 amount: sign and body of the text, and what the parser makes of it -/
theorem amountMinimalString_parse (v : Int) (e : Nat) (he : e ≤ 18)
    (hlo : -(2 : Int) ^ 63 ≤ v) (hhi : v < (2 : Int) ^ 63) :
    ∃ body b, amountMinimalString ⟨v, e⟩ = sgn (decide (v < 0)) body ∧
      hasPrefixMinus body = false ∧
      isAmountBody body = true ∧
      parseBody (decide (v < 0)) body = .ok b ∧ b.toRat = (⟨v, e⟩ : Amount).toRat := by
  have hlim : v.natAbs ≤ lim (decide (v < 0)) := by
    unfold lim
    by_cases hneg : v < 0 <;> simp only [hneg, decide_true, decide_false, if_true, Bool.false_eq_true, if_false] <;> omega
  have hsg : sg (decide (v < 0)) v.natAbs = v := by
    unfold sg
    by_cases hneg : v < 0 <;> simp only [hneg, decide_true, decide_false, if_true, Bool.false_eq_true, if_false] <;> omega
  by_cases h0 : e = 0
  · subst h0
    obtain ⟨body, h1, h2, h3, h4⟩ := amountToString_parse v 0 he hlo hhi
    refine ⟨natToDigits v.natAbs, ⟨v, 0⟩, ?_, (digits_no_minus' _ (natToDigits_isDigits _)).1,
      isAmountBody_int _ (natToDigits_isDigits _), ?_, rfl⟩
    · unfold amountMinimalString
      simp only [amountToString_int v, sgn_contains_dot_false _ _ (natToDigits_isDigits _), Bool.not_false, if_true]
    · rw [parseBody_int _ _ (natToDigits_isDigits _), natToDigits_val]
      have : ¬ v.natAbs > lim (decide (v < 0)) := by omega
      simp only [this, if_false, hsg]
  · have he0 : 0 < e := by omega
    obtain ⟨n, hn⟩ : ∃ n, n = v.natAbs := ⟨_, rfl⟩
    obtain ⟨ng, hng⟩ : ∃ ng, ng = decide (v < 0) := ⟨_, rfl⟩
    rw [← hn] at hlim hsg
    rw [← hng] at hlim hsg ⊢
    have hpos : 0 < 10 ^ e := by positivity
    have hr : n % 10 ^ e < 10 ^ e := Nat.mod_lt _ hpos
    have hlen : (natToDigits (n % 10 ^ e)).length ≤ e := by
      have := natToDigits_len (n % 10 ^ e) (e - 1) (by rw [Nat.sub_add_cancel he0]; exact hr)
      omega
    obtain ⟨A, hAdef⟩ : ∃ A, A = natToDigits (n / 10 ^ e) := ⟨_, rfl⟩
    obtain ⟨M, hMdef⟩ : ∃ M, M = padZeros e (natToDigits (n % 10 ^ e)) := ⟨_, rfl⟩
    have hA : isDigits A = true := by rw [hAdef]; exact natToDigits_isDigits _
    have hMlen : M.length = e := by rw [hMdef]; exact padZeros_len _ _ hlen
    have hMall : M.all isDigitC = true := by rw [hMdef]; exact padZeros_all _ _ (natToDigits_all _)
    have hAv : natOfDigits A = n / 10 ^ e := by rw [hAdef]; exact natToDigits_val _
    have hMv : natOfDigits M = n % 10 ^ e := by rw [hMdef, padZeros_val, natToDigits_val]
    have htext : amountToString ⟨v, e⟩ = sgn ng A ++ '.' :: M := by
      rw [amountToString_frac v e he0 he hlo hhi, sgn_append, ← hn, ← hng, ← hAdef, ← hMdef]
    have hspec := trimRightZeros_spec M
    generalize hM'def : trimRightZeros M = M' at hspec
    generalize hkdef : M.length - M'.length = k at hspec
    have hM'all : M'.all isDigitC = true := by
      rw [hspec, List.all_append] at hMall
      simp only [Bool.and_eq_true] at hMall
      exact hMall.1
    have hlenk : M'.length + k = e := by
      have := congrArg List.length hspec
      simp only [List.length_append, List.length_replicate] at this
      omega
    have hval : natOfDigits M' * 10 ^ k = n % 10 ^ e := by
      rw [← hMv, hspec, natOfDigits_append_zeros]
    have hmin : amountMinimalString ⟨v, e⟩ = if M' = [] then sgn ng A else sgn ng A ++ '.' :: M' := by
      unfold amountMinimalString
      have hc : (sgn ng A ++ '.' :: M).contains '.' = true := by simp
      simp only [htext, hc, Bool.not_true, Bool.false_eq_true, if_false]
      rw [trimRightZeros_dot, hM'def, trimSuffixDot_dot _ _ hM'all]
    have hdm := Nat.div_add_mod n (10 ^ e)
    have hq : n / 10 ^ e ≤ n := Nat.div_le_self _ _
    have hAnm := (digits_no_minus A [] hA)
    by_cases hM'e : M' = []
    · -- all decimals were zeros
      subst hM'e
      have hr0 : n % 10 ^ e = 0 := by rw [← hval]; simp [natOfDigits]
      refine ⟨A, ⟨sg ng (n / 10 ^ e), 0⟩, by rw [hmin]; simp, (digits_no_minus' A hA).1, isAmountBody_int A hA, ?_, ?_⟩
      · rw [parseBody_int _ _ hA, hAv]
        have : ¬ n / 10 ^ e > lim ng := by omega
        simp only [this, if_false]
      · apply toRat_eq_of_cross
        simp only [pow10, pow_zero, mul_one]
        rw [← hsg]
        have hnq : n = n / 10 ^ e * 10 ^ e := by
          have := hdm; rw [hr0, Nat.mul_comm] at this; omega
        cases ng
        · simp only [sg, Bool.false_eq_true, if_false]
          conv => rhs; rw [hnq]
          push_cast; ring
        · simp only [sg, if_true]
          conv => rhs; rw [hnq]
          push_cast; ring
    · have hM' : isDigits M' = true := by
        unfold isDigits
        have : M'.isEmpty = false := by cases M' <;> simp_all
        simp [this, hM'all]
      have hj : M'.length ≤ 18 := by omega
      have hk1 : 1 ≤ 10 ^ k := Nat.one_le_pow _ _ (by decide)
      have hpow : 10 ^ e = 10 ^ M'.length * 10 ^ k := by rw [← hlenk, pow_add]
      -- n = (q * 10^j + m') * 10^k
      have hn2 : n = (n / 10 ^ e * 10 ^ M'.length + natOfDigits M') * 10 ^ k := by
        have := hdm
        rw [← hval, Nat.mul_comm (10 ^ e)] at this
        rw [hpow] at this ⊢
        rw [Nat.add_mul, Nat.mul_assoc]
        omega
      have hle : n / 10 ^ e * 10 ^ M'.length + natOfDigits M' ≤ n := by
        calc n / 10 ^ e * 10 ^ M'.length + natOfDigits M'
            = (n / 10 ^ e * 10 ^ M'.length + natOfDigits M') * 1 := (Nat.mul_one _).symm
          _ ≤ (n / 10 ^ e * 10 ^ M'.length + natOfDigits M') * 10 ^ k := Nat.mul_le_mul_left _ hk1
          _ = n := hn2.symm
      have hm'le : natOfDigits M' ≤ n % 10 ^ e := by
        rw [← hval]; exact Nat.le_mul_of_pos_right _ (by positivity)
      have h18 : 10 ^ e ≤ 10 ^ 18 := Nat.pow_le_pow_right (by decide) he
      refine ⟨A ++ '.' :: M', ⟨sg ng (n / 10 ^ e * 10 ^ M'.length + natOfDigits M'), M'.length⟩,
        by rw [hmin]; simp [hM'e, sgn_append], (digits_no_minus A _ hA).1, isAmountBody_frac A M' hA hM', ?_, ?_⟩
      · rw [parseBody_frac _ _ _ hA hM', hAv]
        have g1 : ¬ n / 10 ^ e > lim ng := by omega
        have g2 : ¬ natOfDigits M' ≥ 9223372036854775808 := by omega
        have g3 : ¬ M'.length > 18 := by omega
        have g4 : ¬ n / 10 ^ e * 10 ^ M'.length + natOfDigits M' > lim ng := by omega
        simp only [g1, g2, g3, g4, if_false]
      · apply toRat_eq_of_cross
        simp only [pow10]
        rw [← hsg]
        generalize n / 10 ^ e = q at hn2 ⊢
        rw [← hlenk, pow_add]
        cases ng
        · simp only [sg, Bool.false_eq_true, if_false]
          conv => rhs; rw [hn2]
          push_cast; ring
        · simp only [sg, if_true]
          conv => rhs; rw [hn2]
          push_cast; ring

end GoblVerif.Codec
