import Mathlib.Data.Rat.Floor
import Mathlib.Tactic.Linarith
import Mathlib.Tactic.Ring
import Mathlib.Tactic.Positivity
import Mathlib.Tactic.FieldSimp
import Mathlib.Algebra.Order.Floor.Ring
import GoblVerif.Model.Float53

namespace GoblVerif
open Int

theorem ratfloor_eq (x : ℚ) : x.floor = ⌊x⌋ := rfl

theorem roundHalfEven_err (x : ℚ) : |((roundHalfEven x : ℤ) : ℚ) - x| ≤ 1/2 := by
  have h1 : ((x.floor : ℤ) : ℚ) ≤ x := Int.floor_le x
  have h2 : x < ((x.floor : ℤ) : ℚ) + 1 := Int.lt_floor_add_one x
  rw [abs_le]
  unfold roundHalfEven
  dsimp only
  split
  · constructor <;> linarith
  · split
    · push_cast; constructor <;> linarith
    · split
      · constructor <;> linarith
      · push_cast; constructor <;> linarith

theorem roundHalfEven_int (z : ℤ) : roundHalfEven (z : ℚ) = z := by
  unfold roundHalfEven
  simp [ratfloor_eq]

end GoblVerif

namespace GoblVerif
open Int

theorem abs_eq_ite (q : ℚ) : (if 0 ≤ q then q else -q) = |q| := by
  split
  · rw [abs_of_nonneg]; assumption
  · rw [abs_of_neg]; linarith

theorem abs_eq_natAbs_div (q : ℚ) : |q| = (q.num.natAbs : ℚ) / (q.den : ℚ) := by
  have hd : (0 : ℚ) < q.den := by exact_mod_cast q.den_pos
  conv_lhs => rw [← Rat.num_div_den q]
  rw [abs_div, abs_of_pos hd]
  congr 1
  rw [← Int.cast_abs, Int.abs_eq_natAbs]
  simp

theorem nat_log2_bounds (n : ℕ) (hn : n ≠ 0) :
    ((2 : ℚ) ^ (Nat.log2 n : ℤ) ≤ (n : ℚ)) ∧ ((n : ℚ) < (2 : ℚ) ^ ((Nat.log2 n : ℤ) + 1)) := by
  constructor
  · have := Nat.log2_self_le hn
    rw [zpow_natCast]
    exact_mod_cast this
  · have := @Nat.lt_log2_self n
    have h2 : ((Nat.log2 n : ℤ) + 1) = ((Nat.log2 n + 1 : ℕ) : ℤ) := by push_cast; ring
    rw [h2, zpow_natCast]
    exact_mod_cast this

theorem ilog2_spec (q : ℚ) (hq : q ≠ 0) :
    (2 : ℚ) ^ (ilog2 q) ≤ |q| ∧ |q| < (2 : ℚ) ^ (ilog2 q + 1) := by
  have hn : q.num.natAbs ≠ 0 := by
    simpa [Int.natAbs_eq_zero, Rat.num_eq_zero] using hq
  have hd : q.den ≠ 0 := q.den_nz
  obtain ⟨n1, n2⟩ := nat_log2_bounds _ hn
  obtain ⟨d1, d2⟩ := nat_log2_bounds _ hd
  have hdpos : (0 : ℚ) < q.den := by exact_mod_cast q.den_pos
  have habs := abs_eq_natAbs_div q
  set n : ℚ := (q.num.natAbs : ℚ) with hndef
  set d : ℚ := (q.den : ℚ) with hddef
  set ln : ℤ := (Nat.log2 q.num.natAbs : ℤ) with hln
  set ld : ℤ := (Nat.log2 q.den : ℤ) with hld
  have two_pos : (0 : ℚ) < 2 := by norm_num
  have two_ne : (2 : ℚ) ≠ 0 := by norm_num
  -- upper: |q| < 2^(ln - ld + 1)
  have hup : |q| < (2 : ℚ) ^ (ln - ld + 1) := by
    rw [habs, div_lt_iff₀ hdpos]
    have : (2 : ℚ) ^ (ln - ld + 1) * (2 : ℚ) ^ ld = (2 : ℚ) ^ (ln + 1) := by
      rw [← zpow_add₀ two_ne]; congr 1; ring
    calc n < (2 : ℚ) ^ (ln + 1) := n2
      _ = (2 : ℚ) ^ (ln - ld + 1) * (2 : ℚ) ^ ld := this.symm
      _ ≤ (2 : ℚ) ^ (ln - ld + 1) * d := by
          apply mul_le_mul_of_nonneg_left d1 (le_of_lt (zpow_pos two_pos _))
  -- lower: 2^(ln - ld - 1) < |q|
  have hlo : (2 : ℚ) ^ (ln - ld - 1) < |q| := by
    rw [habs, lt_div_iff₀ hdpos]
    have : (2 : ℚ) ^ (ln - ld - 1) * (2 : ℚ) ^ (ld + 1) = (2 : ℚ) ^ ln := by
      rw [← zpow_add₀ two_ne]; congr 1; ring
    calc (2 : ℚ) ^ (ln - ld - 1) * d < (2 : ℚ) ^ (ln - ld - 1) * (2 : ℚ) ^ (ld + 1) := by
          apply mul_lt_mul_of_pos_left d2 (zpow_pos two_pos _)
      _ = (2 : ℚ) ^ ln := this
      _ ≤ n := n1
  unfold ilog2
  simp only [abs_eq_ite]
  rw [← hln, ← hld]
  split
  · rename_i h
    exact ⟨h, hup⟩
  · rename_i h
    rw [not_le] at h
    constructor
    · exact le_of_lt hlo
    · have : ln - ld - 1 + 1 = ln - ld := by ring
      rw [this]; exact h

end GoblVerif

namespace GoblVerif
open Int

theorem two_pos' : (0 : ℚ) < 2 := by norm_num
theorem two_ne' : (2 : ℚ) ≠ 0 := by norm_num

/-- relative error bound of the float rounding -/
theorem rnd53_err (q : ℚ) : |rnd53 q - q| ≤ |q| * (2 : ℚ) ^ (-53 : ℤ) := by
  unfold rnd53
  split
  · rename_i h; subst h; simp
  · rename_i hq
    dsimp only
    obtain ⟨hlo, _⟩ := ilog2_spec q hq
    set e := ilog2 q with he
    set u : ℚ := (2 : ℚ) ^ (e - 52) with hu
    have upos : 0 < u := zpow_pos two_pos' _
    have herr := roundHalfEven_err (q / u)
    have : (roundHalfEven (q / u) : ℚ) * u - q = ((roundHalfEven (q / u) : ℚ) - q / u) * u := by
      field_simp
    rw [this, abs_mul, abs_of_pos upos]
    have hu2 : u * (1/2) = (2 : ℚ) ^ e * (2 : ℚ) ^ (-53 : ℤ) := by
      rw [hu, ← zpow_add₀ two_ne']
      have : (1 / 2 : ℚ) = (2 : ℚ) ^ (-1 : ℤ) := by norm_num
      rw [this, ← zpow_add₀ two_ne']
      congr 1; ring
    calc |(roundHalfEven (q / u) : ℚ) - q / u| * u ≤ (1/2) * u := by
          apply mul_le_mul_of_nonneg_right herr (le_of_lt upos)
      _ = (2 : ℚ) ^ e * (2 : ℚ) ^ (-53 : ℤ) := by rw [mul_comm]; exact hu2
      _ ≤ |q| * (2 : ℚ) ^ (-53 : ℤ) := by
          apply mul_le_mul_of_nonneg_right hlo (le_of_lt (zpow_pos two_pos' _))

/-- representable numbers are fixed: q = m * 2^k with |m| < 2^53 -/
theorem rnd53_exact (m : ℤ) (k : ℤ) (hm : |m| < 2 ^ 53) : rnd53 ((m : ℚ) * (2 : ℚ) ^ k) = (m : ℚ) * (2 : ℚ) ^ k := by
  unfold rnd53
  split
  · rename_i h; rw [h]
  · rename_i hq
    dsimp only
    obtain ⟨hlo, _⟩ := ilog2_spec _ hq
    set q : ℚ := (m : ℚ) * (2 : ℚ) ^ k with hqdef
    set e := ilog2 q with he
    -- e ≤ 52 + k
    have hmq : (|m| : ℤ) < 2 ^ 53 := hm
    have hmabs : |(m : ℚ)| < (2 : ℚ) ^ (53 : ℤ) := by
      have : ((|m| : ℤ) : ℚ) < ((2 ^ 53 : ℤ) : ℚ) := by exact_mod_cast hmq
      rw [Int.cast_abs] at this
      have h2 : ((2 ^ 53 : ℤ) : ℚ) = (2 : ℚ) ^ (53 : ℤ) := by norm_num
      rw [h2] at this
      exact this
    have hqabs : |q| < (2 : ℚ) ^ (53 + k) := by
      rw [hqdef, abs_mul, abs_of_pos (zpow_pos two_pos' k), zpow_add₀ two_ne']
      exact mul_lt_mul_of_pos_right hmabs (zpow_pos two_pos' k)
    have hlt : (2 : ℚ) ^ e < (2 : ℚ) ^ (53 + k) := lt_of_le_of_lt hlo hqabs
    have he_lt : e < 53 + k := (zpow_lt_zpow_iff_right₀ (by norm_num : (1 : ℚ) < 2)).mp hlt
    -- q / u is the integer m * 2^(k - e + 52)
    obtain ⟨j, hj⟩ : ∃ j : ℕ, (j : ℤ) = k - e + 52 := ⟨(k - e + 52).toNat, by omega⟩
    have hdiv : q / (2 : ℚ) ^ (e - 52) = ((m * 2 ^ j : ℤ) : ℚ) := by
      rw [hqdef, mul_div_assoc, ← zpow_sub₀ two_ne']
      have : k - (e - 52) = (j : ℤ) := by omega
      rw [this, zpow_natCast]; push_cast; ring
    rw [hdiv, roundHalfEven_int]
    rw [← hdiv]
    field_simp

end GoblVerif

namespace GoblVerif
open Int

/-- the gap lemma: a rational N/D that is not the half-integer t is at least 1/(2|D|) away from it -/
theorem gap (N D j : ℤ) (hD : D ≠ 0) (hne : (N : ℚ) / D ≠ (2 * j + 1 : ℤ) / 2) :
    1 / (2 * |(D : ℚ)|) ≤ |(N : ℚ) / D - ((2 * j + 1 : ℤ) : ℚ) / 2| := by
  have hDq : (D : ℚ) ≠ 0 := by exact_mod_cast hD
  have hDabs : 0 < |(D : ℚ)| := abs_pos.mpr hDq
  have e1 : (N : ℚ) / D - ((2 * j + 1 : ℤ) : ℚ) / 2 = ((2 * N - (2 * j + 1) * D : ℤ) : ℚ) / (2 * D) := by
    push_cast; field_simp
  rw [e1, abs_div, abs_mul, abs_of_pos two_pos']
  rw [div_le_div_iff_of_pos_right (by positivity)]
  have hz : (2 * N - (2 * j + 1) * D : ℤ) ≠ 0 := by
    intro h
    apply hne
    have : (2 * (N : ℚ) - (2 * j + 1) * D) = 0 := by exact_mod_cast h
    field_simp
    push_cast
    linarith
  have : (1 : ℤ) ≤ |(2 * N - (2 * j + 1) * D : ℤ)| := Int.one_le_abs hz
  have h1 : ((1 : ℤ) : ℚ) ≤ ((|(2 * N - (2 * j + 1) * D : ℤ)| : ℤ) : ℚ) := by exact_mod_cast this
  rw [Int.cast_abs] at h1
  simpa using h1

end GoblVerif

namespace GoblVerif
open Int

/-- error of rnd53 on N/D is strictly below the gap when |N| < 2^52 -/
theorem err_lt_gap (N D : ℤ) (hD : D ≠ 0) (hN : |N| < 2 ^ 52) :
    |rnd53 ((N : ℚ) / D) - (N : ℚ) / D| < 1 / (2 * |(D : ℚ)|) := by
  have hDq : (D : ℚ) ≠ 0 := by exact_mod_cast hD
  have hDabs : 0 < |(D : ℚ)| := abs_pos.mpr hDq
  have h := rnd53_err ((N : ℚ) / D)
  have hNq : |(N : ℚ)| < (2 : ℚ) ^ (52 : ℤ) := by
    have : ((|N| : ℤ) : ℚ) < ((2 ^ 52 : ℤ) : ℚ) := by exact_mod_cast hN
    rw [Int.cast_abs] at this
    have h2 : ((2 ^ 52 : ℤ) : ℚ) = (2 : ℚ) ^ (52 : ℤ) := by norm_num
    rw [h2] at this; exact this
  have hpow : (2 : ℚ) ^ (52 : ℤ) * (2 : ℚ) ^ (-53 : ℤ) = 1 / 2 := by
    rw [← zpow_add₀ two_ne']; norm_num
  calc |rnd53 ((N : ℚ) / D) - (N : ℚ) / D| ≤ |(N : ℚ) / D| * (2 : ℚ) ^ (-53 : ℤ) := h
    _ = |(N : ℚ)| * (2 : ℚ) ^ (-53 : ℤ) / |(D : ℚ)| := by rw [abs_div]; ring
    _ < (2 : ℚ) ^ (52 : ℤ) * (2 : ℚ) ^ (-53 : ℤ) / |(D : ℚ)| := by
        apply div_lt_div_of_pos_right _ hDabs
        exact mul_lt_mul_of_pos_right hNq (zpow_pos two_pos' _)
    _ = 1 / (2 * |(D : ℚ)|) := by rw [hpow]; field_simp

/-- K: the rounded quotient stays on the same side of every half-integer tie -/
theorem same_side (N D j : ℤ) (hD : D ≠ 0) (hN : |N| < 2 ^ 52) :
    let x : ℚ := (N : ℚ) / D
    let t : ℚ := ((2 * j + 1 : ℤ) : ℚ) / 2
    (x < t → rnd53 x < t) ∧ (t < x → t < rnd53 x) ∧ (x = t → rnd53 x = t) := by
  intro x t
  have herr := err_lt_gap N D hD hN
  refine ⟨?_, ?_, ?_⟩
  · intro hlt
    have hne : x ≠ t := ne_of_lt hlt
    have hg := gap N D j hD hne
    have : |rnd53 x - x| < |x - t| := lt_of_lt_of_le herr hg
    rw [abs_of_neg (by linarith : x - t < 0)] at this
    have := (abs_lt.mp this).2
    linarith
  · intro hgt
    have hne : x ≠ t := ne_of_gt hgt
    have hg := gap N D j hD hne
    have : |rnd53 x - x| < |x - t| := lt_of_lt_of_le herr hg
    rw [abs_of_pos (by linarith : 0 < x - t)] at this
    have := (abs_lt.mp this).1
    linarith
  · intro heq
    -- x = (2j+1) * 2^(-1), |2j+1| < 2^53
    have hx : x = ((2 * j + 1 : ℤ) : ℚ) * (2 : ℚ) ^ (-1 : ℤ) := by
      rw [heq]; show _ / 2 = _; rw [zpow_neg_one]; ring
    have hDq : (D : ℚ) ≠ 0 := by exact_mod_cast hD
    -- |2j+1| = 2|x| ≤ 2|N| < 2^53
    have hbound : |(2 * j + 1 : ℤ)| < 2 ^ 53 := by
      have h1 : ((2 * j + 1 : ℤ) : ℚ) * D = 2 * N := by
        have : (N : ℚ) / D = ((2 * j + 1 : ℤ) : ℚ) / 2 := heq
        field_simp at this
        linarith
      have h2 : (2 * j + 1) * D = 2 * N := by exact_mod_cast h1
      have h3 : |2 * j + 1| * |D| = 2 * |N| := by
        rw [← abs_mul, h2, abs_mul]; simp
      have hDpos : 1 ≤ |D| := Int.one_le_abs hD
      have h4 : |2 * j + 1| ≤ |2 * j + 1| * |D| := by
        nlinarith [abs_nonneg (2 * j + 1)]
      omega
    rw [hx, rnd53_exact _ _ hbound, ← hx, heq]

end GoblVerif

namespace GoblVerif
open Int

theorem goRound_nonneg_iff (x : ℚ) (hx : 0 ≤ x) (k : ℤ) :
    goRound x = k ↔ ((k : ℚ) - 1/2 ≤ x ∧ x < (k : ℚ) + 1/2) := by
  unfold goRound
  rw [if_pos hx, ratfloor_eq, Int.floor_eq_iff]
  constructor <;> rintro ⟨a, b⟩ <;> constructor <;> linarith

theorem goRound_neg_iff (x : ℚ) (hx : x < 0) (k : ℤ) :
    goRound x = k ↔ ((k : ℚ) - 1/2 < x ∧ x ≤ (k : ℚ) + 1/2) := by
  unfold goRound
  rw [if_neg (not_le.mpr hx), ratfloor_eq, neg_eq_iff_eq_neg, Int.floor_eq_iff]
  push_cast
  constructor <;> rintro ⟨a, b⟩ <;> constructor <;> linarith

/-- sign preservation -/
theorem rnd53_sign (N D : ℤ) (hD : D ≠ 0) (hN : |N| < 2 ^ 52) :
    let x : ℚ := (N : ℚ) / D
    (0 ≤ x → 0 ≤ rnd53 x) ∧ (x < 0 → rnd53 x < 0) := by
  intro x
  have h := rnd53_err x
  have hp : (2 : ℚ) ^ (-53 : ℤ) < 1 := by
    rw [zpow_neg]; apply inv_lt_one_of_one_lt₀; norm_num
  constructor
  · intro hx
    rcases eq_or_lt_of_le hx with h0 | hpos
    · rw [← h0]; simp [rnd53]
    · have : |rnd53 x - x| < x := by
        calc |rnd53 x - x| ≤ |x| * (2 : ℚ) ^ (-53 : ℤ) := h
          _ < |x| * 1 := mul_lt_mul_of_pos_left hp (abs_pos.mpr (ne_of_gt hpos))
          _ = x := by rw [mul_one, abs_of_pos hpos]
      have := (abs_lt.mp this).1
      linarith
  · intro hx
    have : |rnd53 x - x| < -x := by
      calc |rnd53 x - x| ≤ |x| * (2 : ℚ) ^ (-53 : ℤ) := h
        _ < |x| * 1 := mul_lt_mul_of_pos_left hp (abs_pos.mpr (ne_of_lt hx))
        _ = -x := by rw [mul_one, abs_of_neg hx]
    have := (abs_lt.mp this).2
    linarith

/-- THE exactness argument: rounding the float quotient half-away equals rounding the exact quotient. -/
theorem round_div_exact (N D : ℤ) (hD : D ≠ 0) (hN : |N| < 2 ^ 52) :
    goRound (rnd53 ((N : ℚ) / D)) = goRound ((N : ℚ) / D) := by
  set x : ℚ := (N : ℚ) / D with hx
  obtain ⟨sp, sn⟩ := rnd53_sign N D hD hN
  rcases le_or_gt 0 x with hx0 | hx0
  · -- nonnegative
    set k := goRound x with hk
    have hkx := (goRound_nonneg_iff x hx0 k).mp rfl
    rw [goRound_nonneg_iff _ (sp hx0)]
    obtain ⟨lo, hi⟩ := hkx
    -- upper tie t = k + 1/2 = (2k+1)/2 ; lower tie t' = k - 1/2 = (2(k-1)+1)/2
    obtain ⟨u1, _, _⟩ := same_side N D k hD hN
    obtain ⟨_, l2, l3⟩ := same_side N D (k - 1) hD hN
    have e1 : ((2 * k + 1 : ℤ) : ℚ) / 2 = (k : ℚ) + 1/2 := by push_cast; ring
    have e2 : ((2 * (k - 1) + 1 : ℤ) : ℚ) / 2 = (k : ℚ) - 1/2 := by push_cast; ring
    simp only [e1] at u1
    simp only [e2] at l2 l3
    constructor
    · rcases eq_or_lt_of_le lo with h | h
      · exact le_of_eq (l3 h.symm).symm
      · exact le_of_lt (l2 h)
    · exact u1 hi
  · set k := goRound x with hk
    have hkx := (goRound_neg_iff x hx0 k).mp rfl
    rw [goRound_neg_iff _ (sn hx0)]
    obtain ⟨lo, hi⟩ := hkx
    obtain ⟨u1, _, u3⟩ := same_side N D k hD hN
    obtain ⟨_, l2, _⟩ := same_side N D (k - 1) hD hN
    have e1 : ((2 * k + 1 : ℤ) : ℚ) / 2 = (k : ℚ) + 1/2 := by push_cast; ring
    have e2 : ((2 * (k - 1) + 1 : ℤ) : ℚ) / 2 = (k : ℚ) - 1/2 := by push_cast; ring
    simp only [e1] at u1 u3
    simp only [e2] at l2
    constructor
    · exact l2 lo
    · rcases eq_or_lt_of_le hi with h | h
      · exact le_of_eq (u3 h)
      · exact le_of_lt (u1 h)

end GoblVerif
