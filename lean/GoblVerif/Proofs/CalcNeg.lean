/-
  Negation symmetry of the exact arithmetic layer (rounding half away from
  zero is odd), lifted to the line calculation.
-/
import GoblVerif.Proofs.CalcBasics

namespace GoblVerif

theorem rha_neg (n d : ℤ) (hd : 0 < d) : rha (-n) d = - rha n d := by
  unfold rha
  by_cases h1 : 0 ≤ n
  · by_cases h2 : 0 ≤ -n
    · have : n = 0 := by omega
      subst this
      have : d / (2 * d) = 0 := Int.ediv_eq_zero_of_lt (by omega) (by omega)
      simp [this]
    · rw [if_neg h2, if_pos h1, neg_neg]
  · have h2 : 0 ≤ -n := by omega
    rw [if_pos h2, if_neg h1, neg_neg]

namespace Calc

theorem neg_neg' (a : Amount) : neg (neg a) = a := by cases a; simp [neg]

theorem mulX_neg_left (a b : Amount) : (neg a).mulX b = neg (a.mulX b) := by
  unfold Amount.mulX neg
  simp only [Int.neg_mul]
  rw [rha_neg _ _ (pow10_pos _)]

theorem mulX_neg_right (a b : Amount) : a.mulX (neg b) = neg (a.mulX b) := by
  unfold Amount.mulX neg
  simp only [Int.mul_neg]
  rw [rha_neg _ _ (pow10_pos _)]

theorem rescaleX_neg (a : Amount) (e : ℕ) : (neg a).rescaleX e = neg (a.rescaleX e) := by
  unfold Amount.rescaleX neg
  simp only
  split
  · rw [rha_neg _ _ (pow10_pos _)]
  · split
    · simp [Int.neg_mul]
    · rfl

theorem divX_neg_left (a b : Amount) (hb : b.value ≠ 0) : (neg a).divX b = neg (a.divX b) := by
  unfold Amount.divX neg
  simp only
  split
  · rename_i h
    rw [Int.neg_mul, rha_neg _ _ h]
  · rw [Int.neg_mul, rha_neg _ _ (by omega)]

theorem up_neg (a : Amount) (e : ℕ) : up (neg a) e = neg (up a e) := by
  unfold up neg
  simp only
  split <;> simp [Int.neg_mul]

theorem add_neg (a b : Amount) : add exactOps (neg a) (neg b) = neg (add exactOps a b) := by
  unfold add
  simp only [exact_rescale, rescaleX_neg]
  unfold neg
  simp only
  congr 1
  omega

theorem sub_neg (a b : Amount) : sub exactOps (neg a) (neg b) = neg (sub exactOps a b) := by
  unfold sub
  simp only [exact_rescale, rescaleX_neg]
  unfold neg
  simp only
  congr 1
  omega

theorem accum_neg (a b : Amount) : accum exactOps (neg a) (neg b) = neg (accum exactOps a b) := by
  unfold accum
  rw [show (neg b).exp = b.exp from rfl, up_neg, add_neg]

theorem applyRule_neg (r : Rule) (c : ℕ) (a : Amount) :
    applyRule exactOps r c (neg a) = neg (applyRule exactOps r c a) := by
  cases r <;> simp [applyRule, rescaleX_neg, up_neg]

theorem pctOf_neg (p : Pct) (a : Amount) : pctOf exactOps p (neg a) = neg (pctOf exactOps p a) := by
  simp [pctOf, mulX_neg_left]

theorem foldl_accum_neg (xs : List Amount) (z : Amount) :
    (xs.map neg).foldl (accum exactOps) (neg z) = neg (xs.foldl (accum exactOps) z) := by
  induction xs generalizing z with
  | nil => rfl
  | cons x xs ih => simp only [List.map_cons, List.foldl_cons, accum_neg, ih]

end Calc
end GoblVerif

namespace GoblVerif.Calc

theorem adjPct_neg (r : Rule) (c : ℕ) (sum : Amount) (d : LineAdj) :
    adjPct exactOps r c (neg sum) (invertAdj d) = invertAdj (adjPct exactOps r c sum d) := by
  unfold adjPct invertAdj
  cases hp : d.percent with
  | none => simp [hp]
  | some p =>
    simp only [hp]
    by_cases hz : pctIsZero p = true
    · simp [hz, hp]
    · simp only [hz]
      cases hb : d.base with
      | none => simp [hb, pctOf_neg]
      | some b => simp [hb, up_neg, applyRule_neg, pctOf_neg]

theorem adjRate_neg (qty : Amount) (d : LineAdj) :
    adjRate exactOps (neg qty) (invertAdj d) = invertAdj (adjRate exactOps qty d) := by
  unfold adjRate invertAdj
  cases hr : d.rate with
  | none => simp [hr]
  | some rt =>
    cases hq : d.quantity with
    | none => simp [hr, hq, mulX_neg_right]
    | some q => simp [hr, hq, mulX_neg_right]

theorem adjUp_neg (c : ℕ) (d : LineAdj) : adjUp c (invertAdj d) = invertAdj (adjUp c d) := by
  simp [adjUp, invertAdj, up_neg]

theorem lineDiscountStep_neg (r : Rule) (c : ℕ) (sum total : Amount) (d : LineAdj) :
    lineDiscountStep exactOps r c (neg sum) (neg total) (invertAdj d) =
      (invertAdj (lineDiscountStep exactOps r c sum total d).1, neg (lineDiscountStep exactOps r c sum total d).2) := by
  unfold lineDiscountStep
  simp only [adjPct_neg, adjUp_neg]
  congr 1
  have : (invertAdj (adjUp c (adjPct exactOps r c sum d))).amount = neg (adjUp c (adjPct exactOps r c sum d)).amount := rfl
  rw [this, sub_neg]

theorem lineDiscounts_neg (r : Rule) (c : ℕ) (sum : Amount) (ds : List LineAdj) (total : Amount) :
    lineDiscounts exactOps r c (neg sum) (ds.map invertAdj) (neg total) =
      (((lineDiscounts exactOps r c sum ds total).1).map invertAdj, neg (lineDiscounts exactOps r c sum ds total).2) := by
  induction ds generalizing total with
  | nil => rfl
  | cons d ds ih =>
    simp only [List.map_cons, lineDiscounts, lineDiscountStep_neg, ih]

theorem lineChargeStep_neg (r : Rule) (c : ℕ) (qty sum total : Amount) (d : LineAdj) :
    lineChargeStep exactOps r c (neg qty) (neg sum) (neg total) (invertAdj d) =
      (invertAdj (lineChargeStep exactOps r c qty sum total d).1, neg (lineChargeStep exactOps r c qty sum total d).2) := by
  unfold lineChargeStep
  simp only [adjPct_neg, adjRate_neg, adjUp_neg]
  congr 1
  have : (invertAdj (adjUp c (adjRate exactOps qty (adjPct exactOps r c sum d)))).amount =
      neg (adjUp c (adjRate exactOps qty (adjPct exactOps r c sum d))).amount := rfl
  rw [this, add_neg]

theorem lineCharges_neg (r : Rule) (c : ℕ) (qty sum : Amount) (ds : List LineAdj) (total : Amount) :
    lineCharges exactOps r c (neg qty) (neg sum) (ds.map invertAdj) (neg total) =
      (((lineCharges exactOps r c qty sum ds total).1).map invertAdj, neg (lineCharges exactOps r c qty sum ds total).2) := by
  induction ds generalizing total with
  | nil => rfl
  | cons d ds ih =>
    simp only [List.map_cons, lineCharges, lineChargeStep_neg, ih]

/-- inverting a line (without breakdown) and calculating it gives the calculated line with every figure negated -/
theorem calcLine_invert (cur : String) (c : ℕ) (rates : List XRate) (r : Rule) (l : Line)
    (hbd : l.breakdown = []) (hs : l.sum = none) (ht : l.total = none) :
    calcLine exactOps cur c rates r (invertLine l) = (calcLine exactOps cur c rates r l).map negLineOut := by
  unfold calcLine
  have hbd' : (invertLine l).breakdown = [] := hbd
  have hit : (invertLine l).item = l.item := rfl
  simp only [hbd, hbd', hit, calcSubLines, List.isEmpty_nil, Bool.true_or, if_true]
  cases l.item with
  | none => simp [Except.map, negLineOut, invertLine, hs, ht]
  | some it0 =>
    simp only
    cases it0.price with
    | none => simp [Except.map, negLineOut, invertLine]
    | some p0 =>
      simp only
      cases itemPrice exactOps cur c rates it0 p0 with
      | error e => simp [Except.map]
      | ok it2 =>
        simp only [Except.map]
        have hq : (invertLine l).qty = neg l.qty := rfl
        have hd : (invertLine l).discounts = l.discounts.map invertAdj := rfl
        have hc : (invertLine l).charges = l.charges.map invertAdj := rfl
        simp only [hq, hd, hc, exact_mul, mulX_neg_right, applyRule_neg, lineDiscounts_neg, lineCharges_neg]
        simp [negLineOut, invertLine]

/-- the same for a line with a breakdown: `Invert` leaves the sub-lines as they are (their total becomes
the unit price), only the line's own quantity and adjustments change sign -/
theorem calcLine_invert_breakdown (cur : String) (c : ℕ) (rates : List XRate) (r : Rule) (l : Line)
    (hs : l.sum = none) (ht : l.total = none) :
    calcLine exactOps cur c rates r (invertLine l) = (calcLine exactOps cur c rates r l).map negLineOut := by
  unfold calcLine
  have hbd' : (invertLine l).breakdown = l.breakdown := rfl
  have hit : (invertLine l).item = l.item := rfl
  simp only [hbd', hit]
  cases l.item with
  | none => simp [Except.map, negLineOut, invertLine, hs, ht]
  | some it0 =>
    simp only
    cases calcSubLines exactOps cur c rates r l.breakdown with
    | error e => simp [Except.map]
    | ok bd =>
      simp only
      generalize (if (l.breakdown.isEmpty || (bd.filterMap (·.total)).isEmpty) = true then it0 else
        { it0 with cur := cur, sub := c,
                   price := some (exactOps.rescale ((bd.filterMap (·.total)).foldl (accum exactOps) ⟨0, c⟩) (subLinePrecision bd)),
                   alts := [] }) = it1
      cases it1.price with
      | none => simp [Except.map, negLineOut, invertLine]
      | some p0 =>
        simp only
        cases itemPrice exactOps cur c rates it1 p0 with
        | error e => simp [Except.map]
        | ok it2 =>
          simp only [Except.map]
          have hq : (invertLine l).qty = neg l.qty := rfl
          have hd : (invertLine l).discounts = l.discounts.map invertAdj := rfl
          have hc : (invertLine l).charges = l.charges.map invertAdj := rfl
          simp only [hq, hd, hc, exact_mul, mulX_neg_right, applyRule_neg, lineDiscounts_neg, lineCharges_neg]
          simp [negLineOut, invertLine]

end GoblVerif.Calc
