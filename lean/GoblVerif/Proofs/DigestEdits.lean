/-
  Helper lemmas for C08: the edits named by the property (a value altered, a
  member added or removed, array elements reordered — Model/JsonEdit.lean)
  change the logical content `norm` of a document, at any depth; and the
  content determines the value at every path.

  The view used throughout: `norm (.obj kvs)` is the stable sort of `nmems`,
  the list of what `norm` keeps of each member (nothing of a null member, the
  name and the content of the value otherwise); `norm (.arr xs)` is the list
  of the contents of the elements, in order.
-/
import GoblVerif.Model.JsonEdit
import GoblVerif.Proofs.C14nNorm

namespace GoblVerif.Proofs.DigestEdits
open GoblVerif GoblVerif.Spec.C07 GoblVerif.Edit GoblVerif.Proofs.C14n

/-! ## null -/

theorem isNull_iff (v : J) : v.isNull = true ↔ v = .null := by
  cases v with
  | atom a => cases a <;> simp [J.isNull]
  | arr xs => simp [J.isNull]
  | obj kvs => simp [J.isNull]

theorem norm_atom (a : Atom) : norm (.atom a) = .atom a := rfl

theorem isNull_norm (v : J) : (norm v).isNull = v.isNull := by
  cases v with
  | atom a => rfl
  | arr xs => rfl
  | obj kvs => rfl

/-! ## what `norm` keeps of the members of an object -/

/-- what `norm` keeps of one member: nothing of a null member, name and content otherwise -/
def nmem (p : Str × J) : Option (Str × J) := if p.2.isNull then none else some (p.1, norm p.2)

def nmems (l : List (Str × J)) : List (Str × J) := l.filterMap nmem

theorem nmems_cons (x : Str × J) (l : List (Str × J)) : nmems (x :: l) = (nmem x).toList ++ nmems l := by
  unfold nmems
  rw [List.filterMap_cons]
  cases nmem x <;> rfl

theorem nmems_append (a b : List (Str × J)) : nmems (a ++ b) = nmems a ++ nmems b := by
  unfold nmems; rw [List.filterMap_append]

theorem nmems_mid (a b : List (Str × J)) (x : Str × J) :
    nmems (a ++ x :: b) = nmems a ++ ((nmem x).toList ++ nmems b) := by
  rw [nmems_append, nmems_cons]

theorem filter_map_nmems : ∀ l : List (Str × J),
    ((l.map (fun p => (p.1, sortJ p.2))).filter (fun p => !p.2.isNull)).map (fun p => (p.1, dropJ p.2)) = nmems l
  | [] => rfl
  | p :: r => by
    rw [nmems_cons, ← filter_map_nmems r]
    cases h : p.2.isNull <;> simp [nmem, h, isNull_sortJ, norm]

/-- the content of an object: the stable sort of what is kept of its members -/
theorem norm_obj (kvs : KL) : norm (.obj kvs) = .obj (KL.ofList (sortL (nmems kvs.toList))) := by
  unfold norm
  simp only [sortJ, dropJ]
  congr 1
  apply KL_ext
  rw [toList_dropJK, toList_sortK, toList_sortJK, KL.toList_ofList, filter_sortL, map_sortL, filter_map_nmems]

theorem norm_obj_eq (a b : KL) :
    norm (.obj a) = norm (.obj b) ↔ sortL (nmems a.toList) = sortL (nmems b.toList) := by
  rw [norm_obj, norm_obj]
  constructor
  · intro h
    injection h with h
    have := congrArg KL.toList h
    simpa [KL.toList_ofList] using this
  · intro h; rw [h]

theorem norm_obj_perm (a b : KL) (h : norm (.obj a) = norm (.obj b)) :
    (nmems a.toList).Perm (nmems b.toList) := by
  have e := (norm_obj_eq a b).mp h
  have p1 := sortL_perm (nmems a.toList)
  have p2 := sortL_perm (nmems b.toList)
  rw [e] at p1
  exact p1.symm.trans p2

theorem norm_obj_of_nmems (a b : KL) (h : nmems a.toList = nmems b.toList) : norm (.obj a) = norm (.obj b) :=
  (norm_obj_eq a b).mpr (by rw [h])

theorem nmem_eq_iff (k : Str) (w w' : J) : nmem (k, w') = nmem (k, w) ↔ norm w' = norm w := by
  unfold nmem
  cases h' : w'.isNull <;> cases h : w.isNull
  · simp
  · simp only [Bool.false_eq_true, if_false, if_true, reduceCtorEq, false_iff]
    intro e
    have := isNull_norm w'
    rw [e, isNull_norm, h, h'] at this
    exact absurd this (by decide)
  · simp only [Bool.false_eq_true, if_false, if_true, reduceCtorEq, false_iff]
    intro e
    have := isNull_norm w'
    rw [e, isNull_norm, h, h'] at this
    exact absurd this (by decide)
  · rw [(isNull_iff w).mp h, (isNull_iff w').mp h']
    simp

theorem nmem_none_iff (p : Str × J) : nmem p = none ↔ p.2.isNull = true := by
  unfold nmem; cases p.2.isNull <;> simp

theorem toList_perm_eq {α : Type} (x y : Option α) (h : x.toList.Perm y.toList) : x = y := by
  cases x with
  | none =>
    cases y with
    | none => rfl
    | some b => simp [Option.toList] at h
  | some a =>
    cases y with
    | none => simp [Option.toList] at h
    | some b =>
      simp only [Option.toList] at h
      have := List.perm_singleton.mp h
      simp at this
      rw [this]

/-! ## addressing a member -/

theorem get?_split (k : Str) : ∀ (kvs : KL) (w : J), KL.get? k kvs = some w →
    ∃ a b, kvs.toList = a ++ (k, w) :: b ∧ (∀ q ∈ a, q.1 ≠ k) ∧
      (∀ w', (KL.set k w' kvs).toList = a ++ (k, w') :: b) ∧ (KL.erase k kvs).toList = a ++ b
  | .nil, w, h => by simp [KL.get?] at h
  | .cons k' v r, w, h => by
    by_cases hk : k' = k
    · subst hk
      simp only [KL.get?, if_true, Option.some.injEq] at h
      subst h
      exact ⟨[], r.toList, by simp [KL.toList], by simp, by intro w'; simp [KL.set, KL.toList],
        by simp [KL.erase]⟩
    · simp only [KL.get?, hk, if_false] at h
      obtain ⟨a, b, h1, h2, h3, h4⟩ := get?_split k r w h
      refine ⟨(k', v) :: a, b, by simp [KL.toList, h1], ?_, ?_, ?_⟩
      · intro q hq
        rcases List.mem_cons.mp hq with hq | hq
        · subst hq; exact hk
        · exact h2 q hq
      · intro w'; simp [KL.set, hk, KL.toList, h3 w']
      · simp [KL.erase, hk, KL.toList, h4]

theorem toList_insertAt : ∀ (n : Nat) (k : Str) (v : J) (kvs : KL),
    (KL.insertAt n k v kvs).toList = kvs.toList.take n ++ (k, v) :: kvs.toList.drop n
  | 0, k, v, kvs => by simp [KL.insertAt, KL.toList]
  | n + 1, k, v, .nil => by simp [KL.insertAt, KL.toList]
  | n + 1, k, v, .cons k' v' r => by simp [KL.insertAt, KL.toList, toList_insertAt n k v r]

/-! ## a member's value altered, a member added, a member removed -/

/-- the value of member `k` replaced: the content of the object is the same iff the content of the value is -/
theorem norm_obj_set_iff (k : Str) (kvs : KL) (w w' : J) (hg : KL.get? k kvs = some w) :
    norm (.obj (KL.set k w' kvs)) = norm (.obj kvs) ↔ norm w' = norm w := by
  obtain ⟨a, b, h1, _, h3, _⟩ := get?_split k kvs w hg
  constructor
  · intro h
    have p := norm_obj_perm _ _ h
    rw [h3 w', h1, nmems_mid, nmems_mid, List.perm_append_left_iff, List.perm_append_right_iff] at p
    exact (nmem_eq_iff k w w').mp (toList_perm_eq _ _ p)
  · intro h
    apply norm_obj_of_nmems
    rw [h3 w', h1, nmems_mid, nmems_mid, (nmem_eq_iff k w w').mpr h]

/-- a member added anywhere: the content is the same iff the new member's value is null -/
theorem norm_obj_insert_iff (n : Nat) (k : Str) (v : J) (kvs : KL) :
    norm (.obj (KL.insertAt n k v kvs)) = norm (.obj kvs) ↔ v.isNull = true := by
  have hl : kvs.toList = kvs.toList.take n ++ kvs.toList.drop n := (List.take_append_drop n _).symm
  constructor
  · intro h
    have p := (norm_obj_perm _ _ h).length_eq
    rw [toList_insertAt, nmems_mid] at p
    rw [hl, nmems_append] at p
    simp only [List.length_append] at p
    have : (nmem (k, v)).toList.length = 0 := by
      have e1 : (kvs.toList.take n ++ kvs.toList.drop n).take n = kvs.toList.take n := by rw [← hl]
      have e2 : (kvs.toList.take n ++ kvs.toList.drop n).drop n = kvs.toList.drop n := by rw [← hl]
      rw [e1, e2] at p
      omega
    cases hn : nmem (k, v) with
    | none => exact (nmem_none_iff (k, v)).mp hn
    | some x => rw [hn] at this; simp [Option.toList] at this
  · intro h
    apply norm_obj_of_nmems
    rw [toList_insertAt, nmems_mid, (nmem_none_iff (k, v)).mpr h]
    conv => rhs; rw [hl]
    rw [nmems_append]; rfl

/-- member `k` removed: the content is the same iff its value was null -/
theorem norm_obj_erase_iff (k : Str) (kvs : KL) (w : J) (hg : KL.get? k kvs = some w) :
    norm (.obj (KL.erase k kvs)) = norm (.obj kvs) ↔ w.isNull = true := by
  obtain ⟨a, b, h1, _, _, h4⟩ := get?_split k kvs w hg
  constructor
  · intro h
    have p := (norm_obj_perm _ _ h).length_eq
    rw [h4, h1, nmems_mid, nmems_append] at p
    simp only [List.length_append] at p
    have : (nmem (k, w)).toList.length = 0 := by omega
    cases hn : nmem (k, w) with
    | none => exact (nmem_none_iff (k, w)).mp hn
    | some x => rw [hn] at this; simp [Option.toList] at this
  · intro h
    apply norm_obj_of_nmems
    rw [h4, h1, nmems_mid, nmems_append, (nmem_none_iff (k, w)).mpr h]; rfl

/-! ## arrays are ordered -/

theorem norm_arr (xs : JL) : norm (.arr xs) = .arr (JL.ofList (xs.toList.map norm)) := by
  unfold norm
  simp only [sortJ, dropJ]
  congr 1
  exact dropJL_sortJL_map xs

/-- two arrays have the same content iff they have the same contents position by position -/
theorem norm_arr_eq (xs ys : JL) :
    norm (.arr xs) = norm (.arr ys) ↔ xs.toList.map norm = ys.toList.map norm := by
  rw [norm_arr, norm_arr]
  constructor
  · intro h
    injection h with h
    have := congrArg JL.toList h
    simpa [JL.toList_ofList] using this
  · intro h; rw [h]

theorem get?_toList : ∀ (i : Nat) (xs : JL), JL.get? i xs = xs.toList[i]?
  | _, .nil => by simp [JL.get?, JL.toList]
  | 0, .cons x xs => by simp [JL.get?, JL.toList]
  | i + 1, .cons x xs => by simp [JL.get?, JL.toList, get?_toList i xs]

theorem toList_set : ∀ (i : Nat) (v : J) (xs : JL), (JL.set i v xs).toList = xs.toList.set i v
  | _, _, .nil => by simp [JL.set, JL.toList]
  | 0, v, .cons x xs => by simp [JL.set, JL.toList]
  | i + 1, v, .cons x xs => by simp [JL.set, JL.toList, toList_set i v xs]

theorem set_eq_self_iff {α : Type} (m : List α) (i : Nat) (x : α) (h : i < m.length) :
    m.set i x = m ↔ x = m[i] := by
  constructor
  · intro e
    have : (m.set i x)[i]'(by simpa using h) = m[i] := by simp [e]
    simpa using this
  · intro e; rw [e, List.set_getElem_self]

/-- element `i` replaced: the content of the array is the same iff the content of the element is -/
theorem norm_arr_set_iff (i : Nat) (xs : JL) (w w' : J) (hg : JL.get? i xs = some w) :
    norm (.arr (JL.set i w' xs)) = norm (.arr xs) ↔ norm w' = norm w := by
  rw [get?_toList] at hg
  obtain ⟨hi, hw⟩ := List.getElem?_eq_some_iff.mp hg
  rw [norm_arr_eq, toList_set, List.map_set]
  rw [set_eq_self_iff _ _ _ (by simpa using hi)]
  simp [hw]

/-- elements `i ≠ j` exchanged: the content of the array is the same iff the two elements have the same content -/
theorem norm_arr_swap_iff (i j : Nat) (xs : JL) (a b : J) (hij : i ≠ j)
    (hi : JL.get? i xs = some a) (hj : JL.get? j xs = some b) :
    norm (.arr (JL.swap i j xs)) = norm (.arr xs) ↔ norm a = norm b := by
  have hi' := hi; have hj' := hj
  rw [get?_toList] at hi' hj'
  obtain ⟨li, ea⟩ := List.getElem?_eq_some_iff.mp hi'
  obtain ⟨lj, eb⟩ := List.getElem?_eq_some_iff.mp hj'
  unfold JL.swap
  rw [hi, hj]
  simp only
  rw [norm_arr_eq, toList_set, toList_set, List.map_set, List.map_set]
  generalize hm : xs.toList.map norm = m
  have mi : i < m.length := by rw [← hm]; simpa using li
  have mj : j < m.length := by rw [← hm]; simpa using lj
  have ma : m[i] = norm a := by subst hm; simp [ea]
  have mb : m[j] = norm b := by subst hm; simp [eb]
  constructor
  · intro e
    have : ((m.set i (norm b)).set j (norm a))[i]'(by simpa using mi) = m[i] := by simp [e]
    rw [List.getElem_set_ne (by omega), List.getElem_set_self] at this
    rw [ma] at this
    exact this.symm
  · intro e
    rw [← e, ← ma, List.set_getElem_self]
    rw [ma, e, ← mb, List.set_getElem_self]

/-- arrays of different length have different content (an element dropped or added) -/
theorem norm_arr_length (xs ys : JL) (h : norm (.arr xs) = norm (.arr ys)) :
    xs.toList.length = ys.toList.length := by
  have := congrArg List.length ((norm_arr_eq xs ys).mp h)
  simpa using this

/-- any rearrangement that puts another content at some position changes the content -/
theorem norm_arr_position (xs ys : JL) (i : Nat) (a b : J) (h : norm (.arr xs) = norm (.arr ys))
    (hx : JL.get? i xs = some a) (hy : JL.get? i ys = some b) : norm a = norm b := by
  rw [get?_toList] at hx hy
  have e := (norm_arr_eq xs ys).mp h
  have h1 : (xs.toList.map norm)[i]? = some (norm a) := by simp [hx]
  have h2 : (ys.toList.map norm)[i]? = some (norm b) := by simp [hy]
  rw [e, h2] at h1
  exact (Option.some.inj h1).symm

/-! ## at any depth: the value at a path replaced -/

/-- the value at a path replaced: the content of the document is the same iff the content of that value is -/
theorem norm_set_iff : ∀ (p : Path) (d v v' : J), J.get? p d = some v →
    (norm (J.set p v' d) = norm d ↔ norm v' = norm v)
  | [], d, v, v', h => by
    simp only [J.get?, Option.some.injEq] at h
    subst h
    simp [J.set]
  | .key k :: p, .obj kvs, v, v', h => by
    simp only [J.get?] at h
    cases hk : KL.get? k kvs with
    | none => simp [hk] at h
    | some w =>
      simp only [hk] at h
      simp only [J.set, hk]
      rw [norm_obj_set_iff k kvs w _ hk]
      exact norm_set_iff p w v v' h
  | .idx i :: p, .arr xs, v, v', h => by
    simp only [J.get?] at h
    cases hk : JL.get? i xs with
    | none => simp [hk] at h
    | some w =>
      simp only [hk] at h
      simp only [J.set, hk]
      rw [norm_arr_set_iff i xs w _ hk]
      exact norm_set_iff p w v v' h
  | .key _ :: _, .atom _, _, _, h => by simp [J.get?] at h
  | .key _ :: _, .arr _, _, _, h => by simp [J.get?] at h
  | .idx _ :: _, .atom _, _, _, h => by simp [J.get?] at h
  | .idx _ :: _, .obj _, _, _, h => by simp [J.get?] at h

/-! ## the content determines the value at every path -/

theorem only_member (k : Str) (kvs : KL) (w x : J) (hg : KL.get? k kvs = some w)
    (h1 : (kvs.toList.filter (fun q => q.1 = k)).length = 1) (hx : (k, x) ∈ kvs.toList) : x = w := by
  obtain ⟨a, b, e, ha, _, _⟩ := get?_split k kvs w hg
  rw [e] at h1 hx
  have fa : a.filter (fun q => q.1 = k) = [] := by
    rw [List.filter_eq_nil_iff]
    intro q hq; simpa using ha q hq
  rw [List.filter_append, fa, List.nil_append, List.filter_cons] at h1
  simp only [decide_true, if_true, List.length_cons] at h1
  have fb : b.filter (fun q => q.1 = k) = [] := List.eq_nil_of_length_eq_zero (by omega)
  rcases List.mem_append.mp hx with hx | hx
  · exact absurd rfl (ha _ hx)
  · rcases List.mem_cons.mp hx with hx | hx
    · exact (Prod.mk.inj hx).2
    · have : (k, x) ∈ b.filter (fun q => q.1 = k) := List.mem_filter.mpr ⟨hx, by simp⟩
      rw [fb] at this
      exact absurd this (by simp)

theorem get?_mem (k : Str) (kvs : KL) (w : J) (hg : KL.get? k kvs = some w) : (k, w) ∈ kvs.toList := by
  obtain ⟨a, b, e, _, _, _⟩ := get?_split k kvs w hg
  rw [e]; simp

/-- one direction of `obj_member_content` -/
theorem obj_member_transfer (k : Str) (a b : KL) (w1 w2 : J)
    (hp : (nmems a.toList).Perm (nmems b.toList))
    (hb : (b.toList.filter (fun q => q.1 = k)).length = 1)
    (g1 : KL.get? k a = some w1) (g2 : KL.get? k b = some w2) (hn : w1.isNull = false) :
    norm w1 = norm w2 := by
  have m1 : (k, norm w1) ∈ nmems a.toList := by
    unfold nmems
    rw [List.mem_filterMap]
    exact ⟨(k, w1), get?_mem k a w1 g1, by simp [nmem, hn]⟩
  have m2 := hp.mem_iff.mp m1
  unfold nmems at m2
  rw [List.mem_filterMap] at m2
  obtain ⟨⟨k', x⟩, hq, hx⟩ := m2
  unfold nmem at hx
  cases hxn : x.isNull with
  | true => simp [hxn] at hx
  | false =>
    simp only [hxn, Bool.false_eq_true, if_false, Option.some.injEq, Prod.mk.injEq] at hx
    obtain ⟨hk, hx⟩ := hx
    subst hk
    rw [← only_member k' b w2 x g2 hb hq]
    exact hx.symm

/-- two objects with the same content hold, under a name that each of them uses once, values of the same content -/
theorem obj_member_content (k : Str) (a b : KL) (w1 w2 : J) (h : norm (.obj a) = norm (.obj b))
    (ha : (a.toList.filter (fun q => q.1 = k)).length = 1)
    (hb : (b.toList.filter (fun q => q.1 = k)).length = 1)
    (g1 : KL.get? k a = some w1) (g2 : KL.get? k b = some w2) : norm w1 = norm w2 := by
  have hp := norm_obj_perm a b h
  cases h1 : w1.isNull with
  | false => exact obj_member_transfer k a b w1 w2 hp hb g1 g2 h1
  | true =>
    cases h2 : w2.isNull with
    | false => exact (obj_member_transfer k b a w2 w1 hp.symm ha g2 g1 h2).symm
    | true => rw [(isNull_iff w1).mp h1, (isNull_iff w2).mp h2]

/-- the content of a document determines the content of the value at every path whose member
    names are used once in their objects -/
theorem norm_eq_get : ∀ (p : Path) (d1 d2 v1 v2 : J), norm d1 = norm d2 →
    J.distinctAlong p d1 = true → J.distinctAlong p d2 = true →
    J.get? p d1 = some v1 → J.get? p d2 = some v2 → norm v1 = norm v2
  | [], d1, d2, v1, v2, h, _, _, g1, g2 => by
    simp only [J.get?, Option.some.injEq] at g1 g2
    subst g1 g2; exact h
  | .key k :: p, .obj a, .obj b, v1, v2, h, c1, c2, g1, g2 => by
    simp only [J.get?] at g1 g2
    simp only [J.distinctAlong, Bool.and_eq_true, beq_iff_eq] at c1 c2
    cases ha : KL.get? k a with
    | none => simp [ha] at g1
    | some w1 =>
      cases hb : KL.get? k b with
      | none => simp [hb] at g2
      | some w2 =>
        simp only [ha] at g1 c1
        simp only [hb] at g2 c2
        exact norm_eq_get p w1 w2 v1 v2 (obj_member_content k a b w1 w2 h c1.1 c2.1 ha hb) c1.2 c2.2 g1 g2
  | .idx i :: p, .arr a, .arr b, v1, v2, h, c1, c2, g1, g2 => by
    simp only [J.get?] at g1 g2
    simp only [J.distinctAlong] at c1 c2
    cases ha : JL.get? i a with
    | none => simp [ha] at g1
    | some w1 =>
      cases hb : JL.get? i b with
      | none => simp [hb] at g2
      | some w2 =>
        simp only [ha] at g1 c1
        simp only [hb] at g2 c2
        exact norm_eq_get p w1 w2 v1 v2 (norm_arr_position a b i w1 w2 h ha hb) c1 c2 g1 g2
  | .key _ :: _, .atom _, _, _, _, _, _, _, g1, _ => by simp [J.get?] at g1
  | .key _ :: _, .arr _, _, _, _, _, _, _, g1, _ => by simp [J.get?] at g1
  | .idx _ :: _, .atom _, _, _, _, _, _, _, g1, _ => by simp [J.get?] at g1
  | .idx _ :: _, .obj _, _, _, _, _, _, _, g1, _ => by simp [J.get?] at g1
  | .key _ :: _, .obj _, .atom _, _, _, _, _, _, _, g2 => by simp [J.get?] at g2
  | .key _ :: _, .obj _, .arr _, _, _, _, _, _, _, g2 => by simp [J.get?] at g2
  | .idx _ :: _, .arr _, .atom _, _, _, _, _, _, _, g2 => by simp [J.get?] at g2
  | .idx _ :: _, .arr _, .obj _, _, _, _, _, _, _, g2 => by simp [J.get?] at g2

/-! ## well-formed float digits are kept by every edit -/

theorem wf_get?_K (k : Str) : ∀ (kvs : KL) (w : J), KL.get? k kvs = some w → kvs.wf = true → w.wf = true
  | .nil, w, h, _ => by simp [KL.get?] at h
  | .cons k' v r, w, h, hw => by
    simp only [KL.wf, Bool.and_eq_true] at hw
    by_cases hk : k' = k
    · simp only [KL.get?, hk, if_true, Option.some.injEq] at h; subst h; exact hw.1
    · simp only [KL.get?, hk, if_false] at h; exact wf_get?_K k r w h hw.2

theorem wf_set_K (k : Str) (w' : J) (h' : w'.wf = true) : ∀ kvs : KL, kvs.wf = true → (KL.set k w' kvs).wf = true
  | .nil, _ => rfl
  | .cons k' v r, hw => by
    simp only [KL.wf, Bool.and_eq_true] at hw
    by_cases hk : k' = k
    · simp [KL.set, hk, KL.wf, h', hw.2]
    · simp [KL.set, hk, KL.wf, hw.1, wf_set_K k w' h' r hw.2]

theorem wf_erase (k : Str) : ∀ kvs : KL, kvs.wf = true → (KL.erase k kvs).wf = true
  | .nil, _ => rfl
  | .cons k' v r, hw => by
    simp only [KL.wf, Bool.and_eq_true] at hw
    by_cases hk : k' = k
    · simp [KL.erase, hk, hw.2]
    · simp [KL.erase, hk, KL.wf, hw.1, wf_erase k r hw.2]

theorem wf_insertAt (k : Str) (v : J) (hv : v.wf = true) : ∀ (n : Nat) (kvs : KL), kvs.wf = true →
    (KL.insertAt n k v kvs).wf = true
  | 0, kvs, hw => by simp [KL.insertAt, KL.wf, hv, hw]
  | n + 1, .nil, _ => by simp [KL.insertAt, KL.wf, hv]
  | n + 1, .cons k' v' r, hw => by
    simp only [KL.wf, Bool.and_eq_true] at hw
    simp [KL.insertAt, KL.wf, hw.1, wf_insertAt k v hv n r hw.2]

theorem wf_get?_L : ∀ (i : Nat) (xs : JL) (w : J), JL.get? i xs = some w → xs.wf = true → w.wf = true
  | _, .nil, w, h, _ => by simp [JL.get?] at h
  | 0, .cons x xs, w, h, hw => by
    simp only [JL.wf, Bool.and_eq_true] at hw
    simp only [JL.get?, Option.some.injEq] at h; subst h; exact hw.1
  | i + 1, .cons x xs, w, h, hw => by
    simp only [JL.wf, Bool.and_eq_true] at hw
    simp only [JL.get?] at h; exact wf_get?_L i xs w h hw.2

theorem wf_set_L (w' : J) (h' : w'.wf = true) : ∀ (i : Nat) (xs : JL), xs.wf = true → (JL.set i w' xs).wf = true
  | _, .nil, _ => by simp [JL.set, JL.wf]
  | 0, .cons x xs, hw => by
    simp only [JL.wf, Bool.and_eq_true] at hw
    simp [JL.set, JL.wf, h', hw.2]
  | i + 1, .cons x xs, hw => by
    simp only [JL.wf, Bool.and_eq_true] at hw
    simp [JL.set, JL.wf, hw.1, wf_set_L w' h' i xs hw.2]

theorem wf_swap (i j : Nat) (xs : JL) (hw : xs.wf = true) : (JL.swap i j xs).wf = true := by
  unfold JL.swap
  cases hi : JL.get? i xs with
  | none => simpa using hw
  | some a =>
    cases hj : JL.get? j xs with
    | none => simpa using hw
    | some b =>
      simp only
      exact wf_set_L a (wf_get?_L i xs a hi hw) j _ (wf_set_L b (wf_get?_L j xs b hj hw) i xs hw)

theorem wf_get? : ∀ (p : Path) (d v : J), J.get? p d = some v → d.wf = true → v.wf = true
  | [], d, v, h, hw => by simp only [J.get?, Option.some.injEq] at h; subst h; exact hw
  | .key k :: p, .obj kvs, v, h, hw => by
    simp only [J.get?] at h
    cases hk : KL.get? k kvs with
    | none => simp [hk] at h
    | some w => simp only [hk] at h; exact wf_get? p w v h (wf_get?_K k kvs w hk (by simpa [J.wf] using hw))
  | .idx i :: p, .arr xs, v, h, hw => by
    simp only [J.get?] at h
    cases hk : JL.get? i xs with
    | none => simp [hk] at h
    | some w => simp only [hk] at h; exact wf_get? p w v h (wf_get?_L i xs w hk (by simpa [J.wf] using hw))
  | .key _ :: _, .atom _, _, h, _ => by simp [J.get?] at h
  | .key _ :: _, .arr _, _, h, _ => by simp [J.get?] at h
  | .idx _ :: _, .atom _, _, h, _ => by simp [J.get?] at h
  | .idx _ :: _, .obj _, _, h, _ => by simp [J.get?] at h

theorem wf_set (v' : J) (h' : v'.wf = true) : ∀ (p : Path) (d : J), d.wf = true → (J.set p v' d).wf = true
  | [], d, _ => by simpa [J.set] using h'
  | .key k :: p, .obj kvs, hw => by
    have hk' : kvs.wf = true := by simpa [J.wf] using hw
    simp only [J.set]
    cases hk : KL.get? k kvs with
    | none => simpa using hw
    | some w =>
      simp only [J.wf]
      exact wf_set_K k _ (wf_set v' h' p w (wf_get?_K k kvs w hk hk')) kvs hk'
  | .idx i :: p, .arr xs, hw => by
    have hk' : xs.wf = true := by simpa [J.wf] using hw
    simp only [J.set]
    cases hk : JL.get? i xs with
    | none => simpa using hw
    | some w =>
      simp only [J.wf]
      exact wf_set_L _ (wf_set v' h' p w (wf_get?_L i xs w hk hk')) i xs hk'
  | .key _ :: _, .atom _, hw => by simpa [J.set] using hw
  | .key _ :: _, .arr _, hw => by simpa [J.set] using hw
  | .idx _ :: _, .atom _, hw => by simpa [J.set] using hw
  | .idx _ :: _, .obj _, hw => by simpa [J.set] using hw

/-! ## `J.beq` is equality (the oracle of Spec/C08 compares contents with it) -/

mutual
theorem J_beq_iff : ∀ a b : J, J.beq a b = true ↔ a = b
  | .atom a, .atom b => by simp [J.beq]
  | .arr xs, .arr ys => by simp [J.beq, JL_beq_iff xs ys]
  | .obj xs, .obj ys => by simp [J.beq, KL_beq_iff xs ys]
  | .atom _, .arr _ => by simp [J.beq]
  | .atom _, .obj _ => by simp [J.beq]
  | .arr _, .atom _ => by simp [J.beq]
  | .arr _, .obj _ => by simp [J.beq]
  | .obj _, .atom _ => by simp [J.beq]
  | .obj _, .arr _ => by simp [J.beq]
theorem JL_beq_iff : ∀ a b : JL, JL.beq a b = true ↔ a = b
  | .nil, .nil => by simp [JL.beq]
  | .cons x xs, .cons y ys => by simp [JL.beq, J_beq_iff x y, JL_beq_iff xs ys]
  | .nil, .cons _ _ => by simp [JL.beq]
  | .cons _ _, .nil => by simp [JL.beq]
theorem KL_beq_iff : ∀ a b : KL, KL.beq a b = true ↔ a = b
  | .nil, .nil => by simp [KL.beq]
  | .cons k v r, .cons k' v' r' => by simp [KL.beq, J_beq_iff v v', KL_beq_iff r r', and_assoc]
  | .nil, .cons _ _ _ => by simp [KL.beq]
  | .cons _ _ _, .nil => by simp [KL.beq]
end

end GoblVerif.Proofs.DigestEdits
