/-
  Helper lemmas for C07: checkEncoding (the test of the raw text that runs
  before the decoder).

  * `utf8Valid` accepts exactly the UTF-8 encodings of sequences of Unicode
    scalar values;
  * the surrogate scan `surrogatesPaired` passes over every piece canonical
    text is made of (`Passes`), rejects an escape of a surrogate that is not
    followed by its low half, and passes over a proper pair;
  * hence canonical output is accepted by checkEncoding.
-/
import GoblVerif.Model.C14n
import GoblVerif.Proofs.C14nForm
import GoblVerif.Proofs.C14nModel
import GoblVerif.Proofs.C14nNorm

namespace GoblVerif.Proofs.C14n
open GoblVerif GoblVerif.Spec.C07 GoblVerif.C14n

/-! ## utf8.Valid -/

theorem utf8s_cons (c : Nat) (cs : Chars) : utf8s (c :: cs) = utf8 c ++ utf8s cs := by
  simp [utf8s]

theorem utf8s_append (a b : Chars) : utf8s (a ++ b) = utf8s a ++ utf8s b := by
  simp [utf8s]

theorem utf8_ascii (c : Nat) (h : c < 0x80) : utf8 c = [c] := by
  simp [utf8, h]

theorem utf8Valid_1 (b : Nat) (rest : Bytes) (h : b < 0x80) : utf8Valid (b :: rest) = utf8Valid rest := by
  conv => lhs; unfold utf8Valid
  simp [h]

theorem utf8Valid_2 (b0 b1 : Nat) (r : Bytes) (h : 0xC2 ≤ b0 ∧ b0 ≤ 0xDF) :
    utf8Valid (b0 :: b1 :: r) = (isCont b1 && utf8Valid r) := by
  have : ¬ b0 < 0x80 := by omega
  simp [utf8Valid, h, this]

theorem utf8Valid_3 (b0 b1 b2 : Nat) (r : Bytes) (h : 0xE0 ≤ b0 ∧ b0 ≤ 0xEF) :
    utf8Valid (b0 :: b1 :: b2 :: r) =
      (decide (secondLo b0 ≤ b1) && decide (b1 ≤ secondHi b0) && isCont b2 && utf8Valid r) := by
  have : ¬ b0 < 0x80 := by omega
  have h2 : ¬ (0xC2 ≤ b0 ∧ b0 ≤ 0xDF) := by omega
  simp [utf8Valid, h, this, h2]

theorem utf8Valid_4 (b0 b1 b2 b3 : Nat) (r : Bytes) (h : 0xF0 ≤ b0 ∧ b0 ≤ 0xF4) :
    utf8Valid (b0 :: b1 :: b2 :: b3 :: r) =
      (decide (secondLo b0 ≤ b1) && decide (b1 ≤ secondHi b0) && isCont b2 && isCont b3 && utf8Valid r) := by
  have : ¬ b0 < 0x80 := by omega
  have h2 : ¬ (0xC2 ≤ b0 ∧ b0 ≤ 0xDF) := by omega
  have h3 : ¬ (0xE0 ≤ b0 ∧ b0 ≤ 0xEF) := by omega
  simp [utf8Valid, h, this, h2, h3]

theorem secondLo_cases (b0 : Nat) :
    (b0 = 0xE0 ∧ secondLo b0 = 0xA0) ∨ (b0 = 0xF0 ∧ secondLo b0 = 0x90) ∨
      (b0 ≠ 0xE0 ∧ b0 ≠ 0xF0 ∧ secondLo b0 = 0x80) := by
  unfold secondLo
  by_cases h1 : b0 = 0xE0
  · subst h1; simp
  · by_cases h2 : b0 = 0xF0
    · subst h2; simp
    · simp [h1, h2]

theorem secondHi_cases (b0 : Nat) :
    (b0 = 0xED ∧ secondHi b0 = 0x9F) ∨ (b0 = 0xF4 ∧ secondHi b0 = 0x8F) ∨
      (b0 ≠ 0xED ∧ b0 ≠ 0xF4 ∧ secondHi b0 = 0xBF) := by
  unfold secondHi
  by_cases h1 : b0 = 0xED
  · subst h1; simp
  · by_cases h2 : b0 = 0xF4
    · subst h2; simp
    · simp [h1, h2]

/-- the encoding of a scalar value is accepted, and the test goes on behind it -/
theorem utf8Valid_utf8 (c : Nat) (h : isScalar c = true) (rest : Bytes) :
    utf8Valid (utf8 c ++ rest) = utf8Valid rest := by
  simp only [isScalar, Bool.and_eq_true, decide_eq_true_eq, Bool.not_eq_true', Bool.and_eq_false_iff,
    decide_eq_false_iff_not] at h
  unfold utf8
  split
  · rename_i h1
    simp only [List.cons_append, List.nil_append]
    exact utf8Valid_1 c rest h1
  · split
    · rename_i h1 h2
      simp only [List.cons_append, List.nil_append]
      rw [utf8Valid_2 _ _ _ (by omega)]
      have a3 : isCont (0x80 + c % 64) = true := by simp [isCont]; omega
      simp [a3]
    · split
      · rename_i h1 h2 h3
        simp only [List.cons_append, List.nil_append]
        rw [utf8Valid_3 _ _ _ _ (by omega)]
        have a4 : isCont (0x80 + c % 64) = true := by simp [isCont]; omega
        have a5 : secondLo (0xE0 + c / 4096) ≤ 0x80 + c / 64 % 64 := by
          rcases secondLo_cases (0xE0 + c / 4096) with ⟨e, q⟩ | ⟨e, q⟩ | ⟨_, _, q⟩ <;> rw [q] <;> omega
        have a6 : 0x80 + c / 64 % 64 ≤ secondHi (0xE0 + c / 4096) := by
          rcases secondHi_cases (0xE0 + c / 4096) with ⟨e, q⟩ | ⟨e, q⟩ | ⟨_, _, q⟩ <;> rw [q] <;> omega
        simp [a4, a5, a6]
      · rename_i h1 h2 h3
        simp only [List.cons_append, List.nil_append]
        rw [utf8Valid_4 _ _ _ _ _ (by omega)]
        have a4 : isCont (0x80 + c % 64) = true := by simp [isCont]; omega
        have a4' : isCont (0x80 + c / 64 % 64) = true := by simp [isCont]; omega
        have a5 : secondLo (0xF0 + c / 262144) ≤ 0x80 + c / 4096 % 64 := by
          rcases secondLo_cases (0xF0 + c / 262144) with ⟨e, q⟩ | ⟨e, q⟩ | ⟨_, _, q⟩ <;> rw [q] <;> omega
        have a6 : 0x80 + c / 4096 % 64 ≤ secondHi (0xF0 + c / 262144) := by
          rcases secondHi_cases (0xF0 + c / 262144) with ⟨e, q⟩ | ⟨e, q⟩ | ⟨_, _, q⟩ <;> rw [q] <;> omega
        simp [a4, a4', a5, a6]

theorem utf8Valid_utf8s : ∀ cs : Chars, cs.all isScalar = true → utf8Valid (utf8s cs) = true
  | [], _ => by simp [utf8s, utf8Valid]
  | c :: cs, h => by
    simp only [List.all_cons, Bool.and_eq_true] at h
    rw [utf8s_cons, utf8Valid_utf8 c h.1]
    exact utf8Valid_utf8s cs h.2

theorem utf8_of_2 (b0 b1 : Nat) (h0 : 0xC2 ≤ b0 ∧ b0 ≤ 0xDF) (h1 : isCont b1 = true) :
    ∃ c, isScalar c = true ∧ utf8 c = [b0, b1] := by
  simp only [isCont, Bool.and_eq_true, decide_eq_true_eq] at h1
  refine ⟨(b0 - 0xC0) * 64 + (b1 - 0x80), ?_, ?_⟩
  · simp [isScalar]; omega
  · have e1 : ¬ ((b0 - 0xC0) * 64 + (b1 - 0x80) < 0x80) := by omega
    have e2 : (b0 - 0xC0) * 64 + (b1 - 0x80) < 0x800 := by omega
    have e3 : 0xC0 + ((b0 - 0xC0) * 64 + (b1 - 0x80)) / 64 = b0 := by omega
    have e4 : 0x80 + ((b0 - 0xC0) * 64 + (b1 - 0x80)) % 64 = b1 := by omega
    simp only [utf8, e1, e2, if_false, if_true, e3, e4]

theorem utf8_of_3 (b0 b1 b2 : Nat) (h0 : 0xE0 ≤ b0 ∧ b0 ≤ 0xEF) (hlo : secondLo b0 ≤ b1) (hhi : b1 ≤ secondHi b0)
    (h2 : isCont b2 = true) : ∃ c, isScalar c = true ∧ utf8 c = [b0, b1, b2] := by
  simp only [isCont, Bool.and_eq_true, decide_eq_true_eq] at h2
  have hb1 : 0x80 ≤ b1 ∧ b1 ≤ 0xBF ∧ (b0 = 0xE0 → 0xA0 ≤ b1) ∧ (b0 = 0xED → b1 ≤ 0x9F) := by
    rcases secondLo_cases b0 with ⟨e, q⟩ | ⟨e, q⟩ | ⟨e1, e2, q⟩ <;>
    rcases secondHi_cases b0 with ⟨e', q'⟩ | ⟨e', q'⟩ | ⟨e1', e2', q'⟩ <;> rw [q] at hlo <;> rw [q'] at hhi <;> omega
  refine ⟨(b0 - 0xE0) * 4096 + (b1 - 0x80) * 64 + (b2 - 0x80), ?_, ?_⟩
  · simp [isScalar]; omega
  · have e1 : ¬ ((b0 - 0xE0) * 4096 + (b1 - 0x80) * 64 + (b2 - 0x80) < 0x80) := by omega
    have e2 : ¬ ((b0 - 0xE0) * 4096 + (b1 - 0x80) * 64 + (b2 - 0x80) < 0x800) := by omega
    have e2' : (b0 - 0xE0) * 4096 + (b1 - 0x80) * 64 + (b2 - 0x80) < 0x10000 := by omega
    have e3 : 0xE0 + ((b0 - 0xE0) * 4096 + (b1 - 0x80) * 64 + (b2 - 0x80)) / 4096 = b0 := by omega
    have e4 : 0x80 + ((b0 - 0xE0) * 4096 + (b1 - 0x80) * 64 + (b2 - 0x80)) / 64 % 64 = b1 := by omega
    have e5 : 0x80 + ((b0 - 0xE0) * 4096 + (b1 - 0x80) * 64 + (b2 - 0x80)) % 64 = b2 := by omega
    simp only [utf8, e1, e2, e2', if_false, if_true, e3, e4, e5]

theorem utf8_of_4 (b0 b1 b2 b3 : Nat) (h0 : 0xF0 ≤ b0 ∧ b0 ≤ 0xF4) (hlo : secondLo b0 ≤ b1) (hhi : b1 ≤ secondHi b0)
    (h2 : isCont b2 = true) (h3 : isCont b3 = true) : ∃ c, isScalar c = true ∧ utf8 c = [b0, b1, b2, b3] := by
  simp only [isCont, Bool.and_eq_true, decide_eq_true_eq] at h2 h3
  have hb1 : 0x80 ≤ b1 ∧ b1 ≤ 0xBF ∧ (b0 = 0xF0 → 0x90 ≤ b1) ∧ (b0 = 0xF4 → b1 ≤ 0x8F) := by
    rcases secondLo_cases b0 with ⟨e, q⟩ | ⟨e, q⟩ | ⟨e1, e2, q⟩ <;>
    rcases secondHi_cases b0 with ⟨e', q'⟩ | ⟨e', q'⟩ | ⟨e1', e2', q'⟩ <;> rw [q] at hlo <;> rw [q'] at hhi <;> omega
  refine ⟨(b0 - 0xF0) * 262144 + (b1 - 0x80) * 4096 + (b2 - 0x80) * 64 + (b3 - 0x80), ?_, ?_⟩
  · simp [isScalar]; omega
  · have e1 : ¬ ((b0 - 0xF0) * 262144 + (b1 - 0x80) * 4096 + (b2 - 0x80) * 64 + (b3 - 0x80) < 0x80) := by omega
    have e2 : ¬ ((b0 - 0xF0) * 262144 + (b1 - 0x80) * 4096 + (b2 - 0x80) * 64 + (b3 - 0x80) < 0x800) := by omega
    have e2' : ¬ ((b0 - 0xF0) * 262144 + (b1 - 0x80) * 4096 + (b2 - 0x80) * 64 + (b3 - 0x80) < 0x10000) := by omega
    have e3 : 0xF0 + ((b0 - 0xF0) * 262144 + (b1 - 0x80) * 4096 + (b2 - 0x80) * 64 + (b3 - 0x80)) / 262144 = b0 := by omega
    have e4 : 0x80 + ((b0 - 0xF0) * 262144 + (b1 - 0x80) * 4096 + (b2 - 0x80) * 64 + (b3 - 0x80)) / 4096 % 64 = b1 := by omega
    have e5 : 0x80 + ((b0 - 0xF0) * 262144 + (b1 - 0x80) * 4096 + (b2 - 0x80) * 64 + (b3 - 0x80)) / 64 % 64 = b2 := by omega
    have e6 : 0x80 + ((b0 - 0xF0) * 262144 + (b1 - 0x80) * 4096 + (b2 - 0x80) * 64 + (b3 - 0x80)) % 64 = b3 := by omega
    simp only [utf8, e1, e2, e2', if_false, e3, e4, e5, e6]

/-- whatever utf8.Valid accepts is the UTF-8 encoding of a sequence of scalar values -/
theorem utf8Valid_decodes : ∀ (n : Nat) (b : Bytes), b.length ≤ n → utf8Valid b = true →
    ∃ cs : Chars, cs.all isScalar = true ∧ b = utf8s cs
  | _, [], _, _ => ⟨[], rfl, rfl⟩
  | 0, _ :: _, hl, _ => by simp at hl
  | n + 1, b0 :: rest, hl, hv => by
    simp only [List.length_cons, Nat.add_le_add_iff_right] at hl
    by_cases h1 : b0 < 0x80
    · rw [utf8Valid_1 b0 rest h1] at hv
      obtain ⟨cs, hs, he⟩ := utf8Valid_decodes n rest hl hv
      refine ⟨b0 :: cs, ?_, ?_⟩
      · have : isScalar b0 = true := by simp [isScalar]; omega
        simp [this, hs]
      · rw [utf8s_cons, utf8_ascii b0 h1, he]; rfl
    · by_cases h2 : 0xC2 ≤ b0 ∧ b0 ≤ 0xDF
      · match rest, hl, hv with
        | [], _, hv => simp [utf8Valid, h1, h2] at hv
        | b1 :: r, hl, hv =>
          rw [utf8Valid_2 b0 b1 r h2, Bool.and_eq_true] at hv
          simp only [List.length_cons] at hl
          obtain ⟨cs, hs, he⟩ := utf8Valid_decodes n r (by omega) hv.2
          obtain ⟨c, hc, hu⟩ := utf8_of_2 b0 b1 h2 hv.1
          exact ⟨c :: cs, by simp [hc, hs], by rw [utf8s_cons, hu, he]; rfl⟩
      · by_cases h3 : 0xE0 ≤ b0 ∧ b0 ≤ 0xEF
        · match rest, hl, hv with
          | [], _, hv => simp [utf8Valid, h1, h2, h3] at hv
          | [_], _, hv => simp [utf8Valid, h1, h2, h3] at hv
          | b1 :: b2 :: r, hl, hv =>
            rw [utf8Valid_3 b0 b1 b2 r h3] at hv
            simp only [Bool.and_eq_true, decide_eq_true_eq] at hv
            simp only [List.length_cons] at hl
            obtain ⟨cs, hs, he⟩ := utf8Valid_decodes n r (by omega) hv.2
            obtain ⟨c, hc, hu⟩ := utf8_of_3 b0 b1 b2 h3 hv.1.1.1 hv.1.1.2 hv.1.2
            exact ⟨c :: cs, by simp [hc, hs], by rw [utf8s_cons, hu, he]; rfl⟩
        · by_cases h4 : 0xF0 ≤ b0 ∧ b0 ≤ 0xF4
          · match rest, hl, hv with
            | [], _, hv => simp [utf8Valid, h1, h2, h3, h4] at hv
            | [_], _, hv => simp [utf8Valid, h1, h2, h3, h4] at hv
            | [_, _], _, hv => simp [utf8Valid, h1, h2, h3, h4] at hv
            | b1 :: b2 :: b3 :: r, hl, hv =>
              rw [utf8Valid_4 b0 b1 b2 b3 r h4] at hv
              simp only [Bool.and_eq_true, decide_eq_true_eq] at hv
              simp only [List.length_cons] at hl
              obtain ⟨cs, hs, he⟩ := utf8Valid_decodes n r (by omega) hv.2
              obtain ⟨c, hc, hu⟩ := utf8_of_4 b0 b1 b2 b3 h4 hv.1.1.1.1 hv.1.1.1.2 hv.1.1.2 hv.1.2
              exact ⟨c :: cs, by simp [hc, hs], by rw [utf8s_cons, hu, he]; rfl⟩
          · exfalso
            revert hv
            conv => lhs; lhs; unfold utf8Valid
            simp [h1, h2, h3, h4]

/-! ## the surrogate scan -/

theorem sp_nil (k : Nat) : surrogatesPaired k [] = true := by
  cases k <;> simp [surrogatesPaired]

theorem sp_skip (k b : Nat) (rest : Bytes) : surrogatesPaired (k + 1) (b :: rest) = surrogatesPaired k rest := by
  simp [surrogatesPaired]

theorem sp_plain (b : Nat) (rest : Bytes) (h : b ≠ 0x5C) :
    surrogatesPaired 0 (b :: rest) = surrogatesPaired 0 rest := by
  simp [surrogatesPaired, h]

theorem sp_backslash (rest : Bytes) :
    surrogatesPaired 0 (0x5C :: rest) =
      (if !isSurrogate (escapedUnit (0x5C :: rest)) then surrogatesPaired 1 rest
       else if !pairOK (escapedUnit (0x5C :: rest)) (escapedUnit (rest.drop 5)) then false
       else surrogatesPaired 7 rest) := by
  simp [surrogatesPaired]

/-- the scan passes over `t`: whatever follows is scanned from a fresh position -/
def Passes (t : Bytes) : Prop := ∀ rest, surrogatesPaired 0 (t ++ rest) = surrogatesPaired 0 rest

theorem passes_nil : Passes [] := fun _ => rfl

theorem passes_append {a b : Bytes} (ha : Passes a) (hb : Passes b) : Passes (a ++ b) := by
  intro rest; rw [List.append_assoc, ha, hb]

theorem passes_plain : ∀ t : Bytes, (∀ b ∈ t, b ≠ 0x5C) → Passes t
  | [], _ => passes_nil
  | b :: t, h => by
    intro rest
    rw [List.cons_append, sp_plain b _ (h b (by simp))]
    exact passes_plain t (fun x hx => h x (by simp [hx])) rest

theorem utf8_no_backslash (c : Nat) (h : c ≠ 0x5C) : ∀ b ∈ utf8 c, b ≠ 0x5C := by
  intro b hb
  unfold utf8 at hb
  repeat' split at hb
  all_goals simp only [List.mem_cons, List.mem_nil_iff, or_false] at hb
  all_goals omega

theorem passes_utf8s_plain : ∀ t : Chars, (∀ c ∈ t, c ≠ 0x5C) → Passes (utf8s t)
  | [], _ => passes_nil
  | c :: t, h => by
    rw [utf8s_cons]
    exact passes_append (passes_plain _ (utf8_no_backslash c (h c (by simp))))
      (passes_utf8s_plain t (fun x hx => h x (by simp [hx])))

theorem escapedUnit_not_u (x : Nat) (rest : Bytes) (hx : x ≠ 0x75) : escapedUnit (0x5C :: x :: rest) = none := by
  unfold escapedUnit
  split
  · rename_i heq
    simp only [List.cons.injEq] at heq
    exact absurd heq.2.1 hx
  · rfl

/-- a backslash followed by anything but `u` -/
theorem passes_esc2 (x : Nat) (hx : x ≠ 0x75) : Passes [0x5C, x] := by
  intro rest
  simp only [List.cons_append, List.nil_append]
  rw [sp_backslash, escapedUnit_not_u x rest hx]
  simp [isSurrogate, sp_skip]

theorem hexDigit_lt (c v : Nat) (h : hexDigit c = some v) : v < 16 := by
  unfold hexDigit at h
  repeat' split at h
  all_goals simp only [Option.some.injEq, reduceCtorEq] at h
  all_goals simp only [Bool.and_eq_true, decide_eq_true_eq] at *
  all_goals omega

theorem escapedUnit_00 (h l : Nat) (rest : Bytes) :
    isSurrogate (escapedUnit (0x5C :: 0x75 :: 0x30 :: 0x30 :: h :: l :: rest)) = false := by
  have h0 : hexDigit 0x30 = some 0 := by decide
  simp only [escapedUnit, h0]
  cases hh : hexDigit h with
  | none => simp [isSurrogate]
  | some a =>
    cases hl : hexDigit l with
    | none => simp [isSurrogate]
    | some b =>
      have := hexDigit_lt h a hh
      have := hexDigit_lt l b hl
      simp only [isSurrogate, Bool.and_eq_false_iff, decide_eq_false_iff_not]
      omega

/-- a `\u00XX` escape -/
theorem passes_u00 (h l : Nat) (hh : h ≠ 0x5C) (hl : l ≠ 0x5C) : Passes [0x5C, 0x75, 0x30, 0x30, h, l] := by
  intro rest
  simp only [List.cons_append, List.nil_append]
  rw [sp_backslash, escapedUnit_00]
  simp only [Bool.not_false, if_true, sp_skip]
  rw [sp_plain _ _ (by decide), sp_plain _ _ (by decide), sp_plain _ _ hh, sp_plain _ _ hl]

theorem upperHex_ne_backslash (n : Nat) (h : n < 16) : upperHex n ≠ 0x5C := by
  unfold upperHex; split <;> omega

theorem passes_escChar (c : Nat) : Passes (utf8s (escChar c)) := by
  unfold escChar
  repeat' split
  all_goals try (exact passes_esc2 _ (by decide))
  · rename_i h
    have : utf8s [0x5C, 0x75, 0x30, 0x30, upperHex (c / 16), upperHex (c % 16)] =
        [0x5C, 0x75, 0x30, 0x30, upperHex (c / 16), upperHex (c % 16)] := by
      have a : upperHex (c / 16) < 0x80 := by unfold upperHex; split <;> omega
      have b : upperHex (c % 16) < 0x80 := by unfold upperHex; split <;> omega
      simp [utf8s, utf8, a, b]
    rw [this]
    exact passes_u00 _ _ (upperHex_ne_backslash _ (by omega)) (upperHex_ne_backslash _ (by omega))
  · rename_i h _ _ _ _ _ _
    exact passes_utf8s_plain [c] (by intro x hx; simp at hx; subst hx; exact h)

theorem passes_escS : ∀ s : Str, Passes (utf8s (escS s))
  | [] => passes_nil
  | c :: cs => by
    have : escS (c :: cs) = escChar c ++ escS cs := by simp [escS]
    rw [this, utf8s_append]
    exact passes_append (passes_escChar c) (passes_escS cs)

theorem passes_strText (s : Str) : Passes (utf8s (strText s)) := by
  have : strText s = [0x22] ++ (escS s ++ [0x22]) := rfl
  rw [this, utf8s_append, utf8s_append]
  exact passes_append (passes_utf8s_plain _ (by simp)) (passes_append (passes_escS s) (passes_utf8s_plain _ (by simp)))

theorem formatInt_plain (i : Int) : ∀ x ∈ formatInt i, x ≠ 0x5C := by
  intro x hx
  unfold formatInt at hx
  have dig : ∀ n, x ∈ natDigits n → x ≠ 0x5C := by
    intro n hn
    have := (natDigits_spec n).dig x hn
    simp [isDigit] at this; omega
  split at hx
  · rcases List.mem_cons.mp hx with hx | hx
    · omega
    · exact dig _ hx
  · exact dig _ hx

theorem fltText_plain (neg : Bool) (ds : List Nat) (e : Int) (hw : wfDigits ds = true) :
    ∀ x ∈ fltText neg ds e, x ≠ 0x5C := by
  intro x hx
  cases ds with
  | nil => simp [wfDigits] at hw
  | cons d rest =>
    obtain ⟨hd, hall, _⟩ := wfDigits_cons hw
    simp only [fltText, List.headD_cons, List.tail_cons, List.mem_append, List.mem_cons] at hx
    rcases hx with hx | hx | hx | hx | hx | hx
    · cases neg <;> simp at hx
      omega
    · omega
    · omega
    · have := fracText_digits rest hall x hx
      simp [isDigit] at this; omega
    · omega
    · exact formatInt_plain e x hx

theorem passes_atomText (a : Atom) (hw : a.wf = true) : Passes (utf8s (atomText a)) := by
  cases a with
  | null => exact passes_utf8s_plain _ (by simp [atomText])
  | bool b => cases b <;> exact passes_utf8s_plain _ (by simp [atomText])
  | int i => exact passes_utf8s_plain _ (formatInt_plain i)
  | flt neg ds e => exact passes_utf8s_plain _ (fltText_plain neg ds e hw)
  | str s => exact passes_strText s

theorem passes_sep (f : Bool) : Passes (utf8s (sep f)) := by
  cases f <;> exact passes_utf8s_plain _ (by simp [sep])

mutual
theorem passes_text : ∀ (v : J), v.wf = true → Passes (utf8s (text v))
  | .atom a, hw => by simpa [text] using passes_atomText a (by simpa [J.wf] using hw)
  | .arr xs, hw => by
    have : text (.arr xs) = [0x5B] ++ (elems true xs ++ [0x5D]) := rfl
    rw [this, utf8s_append, utf8s_append]
    exact passes_append (passes_utf8s_plain _ (by simp))
      (passes_append (passes_elems true xs (by simpa [J.wf] using hw)) (passes_utf8s_plain _ (by simp)))
  | .obj kvs, hw => by
    have : text (.obj kvs) = [0x7B] ++ (members true kvs ++ [0x7D]) := rfl
    rw [this, utf8s_append, utf8s_append]
    exact passes_append (passes_utf8s_plain _ (by simp))
      (passes_append (passes_members true kvs (by simpa [J.wf] using hw)) (passes_utf8s_plain _ (by simp)))
theorem passes_elems : ∀ (f : Bool) (xs : JL), xs.wf = true → Passes (utf8s (elems f xs))
  | _, .nil, _ => by simpa [elems, utf8s] using passes_nil
  | f, .cons y ys, hw => by
    simp only [JL.wf, Bool.and_eq_true] at hw
    simp only [elems, utf8s_append]
    exact passes_append (passes_sep f) (passes_append (passes_text y hw.1) (passes_elems false ys hw.2))
theorem passes_members : ∀ (f : Bool) (kvs : KL), kvs.wf = true → Passes (utf8s (members f kvs))
  | _, .nil, _ => by simpa [members, utf8s] using passes_nil
  | f, .cons k v r, hw => by
    simp only [KL.wf, Bool.and_eq_true] at hw
    have : members f (.cons k v r) = sep f ++ (strText k ++ ([0x3A] ++ (text v ++ members false r))) := rfl
    rw [this]
    simp only [utf8s_append]
    exact passes_append (passes_sep f) (passes_append (passes_strText k)
      (passes_append (passes_utf8s_plain _ (by simp)) (passes_append (passes_text v hw.1) (passes_members false r hw.2))))
end

/-- the scan finds nothing to object to in canonical text -/
theorem surrogatesPaired_text (v : J) (hw : v.wf = true) : surrogatesPaired 0 (utf8s (text v)) = true := by
  have := passes_text v hw []
  rw [List.append_nil] at this
  rw [this]; exact sp_nil 0

/-- after any text the scan passes over, an escape of a surrogate that is not the high half of a
    pair followed at once by the escape of its low half is an error -/
theorem unpaired_rejected (pre tail : Bytes) (hp : Passes pre) (r : Nat) (hr : escapedUnit tail = some r)
    (hs : 0xD800 ≤ r ∧ r < 0xE000) (hno : pairOK (some r) (escapedUnit (tail.drop 6)) = false) :
    surrogatesPaired 0 (pre ++ tail) = false := by
  rw [hp]
  match tail, hr, hno with
  | [], hr, _ => simp [escapedUnit] at hr
  | b :: rest, hr, hno =>
    have hb : b = 0x5C := by
      unfold escapedUnit at hr
      split at hr
      · rename_i heq; simp only [List.cons.injEq] at heq; exact heq.1
      · simp at hr
    subst hb
    rw [sp_backslash, hr]
    have : isSurrogate (some r) = true := by simp [isSurrogate]; omega
    have hd : (0x5C :: rest).drop 6 = rest.drop 5 := rfl
    rw [hd] at hno
    simp [this, hno]

theorem hexDigit_ne_backslash (c v : Nat) (h : hexDigit c = some v) : c ≠ 0x5C := by
  intro e; subst e
  have : hexDigit 0x5C = none := by decide
  rw [this] at h; cases h

theorem escapedUnit_digits (a b c d r : Nat) (h : escapedUnit [0x5C, 0x75, a, b, c, d] = some r) :
    a ≠ 0x5C ∧ b ≠ 0x5C ∧ c ≠ 0x5C ∧ d ≠ 0x5C := by
  simp only [escapedUnit] at h
  cases ha : hexDigit a <;> cases hb : hexDigit b <;> cases hc : hexDigit c <;> cases hd : hexDigit d <;>
    simp [ha, hb, hc, hd] at h
  exact ⟨hexDigit_ne_backslash _ _ ha, hexDigit_ne_backslash _ _ hb, hexDigit_ne_backslash _ _ hc,
    hexDigit_ne_backslash _ _ hd⟩

/-- the escapes of a high and a low surrogate, one after the other, are passed over -/
theorem pair_passes (a b c d a' b' c' d' : Nat)
    (h : pairOK (escapedUnit [0x5C, 0x75, a, b, c, d]) (escapedUnit [0x5C, 0x75, a', b', c', d']) = true) :
    Passes [0x5C, 0x75, a, b, c, d, 0x5C, 0x75, a', b', c', d'] := by
  intro rest
  simp only [List.cons_append, List.nil_append]
  have e1 : escapedUnit (0x5C :: 0x75 :: a :: b :: c :: d :: 0x5C :: 0x75 :: a' :: b' :: c' :: d' :: rest) =
      escapedUnit [0x5C, 0x75, a, b, c, d] := by simp [escapedUnit]
  have e2 : escapedUnit (List.drop 5 (0x75 :: a :: b :: c :: d :: 0x5C :: 0x75 :: a' :: b' :: c' :: d' :: rest)) =
      escapedUnit [0x5C, 0x75, a', b', c', d'] := by simp [escapedUnit]
  rw [sp_backslash, e1, e2, h]
  have hs : isSurrogate (escapedUnit [0x5C, 0x75, a, b, c, d]) = true := by
    cases h1 : escapedUnit [0x5C, 0x75, a, b, c, d] with
    | none => rw [h1] at h; simp [pairOK] at h
    | some r =>
      rw [h1] at h
      cases h2 : escapedUnit [0x5C, 0x75, a', b', c', d'] with
      | none => rw [h2] at h; simp [pairOK] at h
      | some r2 =>
        rw [h2] at h
        simp only [pairOK, Bool.and_eq_true, decide_eq_true_eq] at h
        simp [isSurrogate]; omega
  have hd : a' ≠ 0x5C ∧ b' ≠ 0x5C ∧ c' ≠ 0x5C ∧ d' ≠ 0x5C := by
    cases h2 : escapedUnit [0x5C, 0x75, a', b', c', d'] with
    | none =>
      rw [h2] at h
      cases h1 : escapedUnit [0x5C, 0x75, a, b, c, d] <;> simp [h1, pairOK] at h
    | some r2 => exact escapedUnit_digits _ _ _ _ r2 h2
  simp only [hs, Bool.not_true, Bool.false_eq_true, if_false, sp_skip]
  rw [sp_plain _ _ hd.1, sp_plain _ _ hd.2.1, sp_plain _ _ hd.2.2.1, sp_plain _ _ hd.2.2.2]

/-! ## "clean" = every string is a sequence of scalar values -/

theorem cleanS_eq (s : Str) : cleanS s = !s.any (fun c => !isScalar c) := by
  unfold cleanS
  induction s with
  | nil => rfl
  | cons c cs ih => simp only [List.all_cons, List.any_cons, ih]; cases isScalar c <;> simp

mutual
theorem cleanJ_eq : ∀ v : J, cleanJ v = !strsHave (fun c => !isScalar c) v
  | .atom .null => rfl
  | .atom (.bool _) => rfl
  | .atom (.int _) => rfl
  | .atom (.flt _ _ _) => rfl
  | .atom (.str s) => by simp only [cleanJ, cleanA, strsHave]; exact cleanS_eq s
  | .arr xs => by simp only [cleanJ, strsHave]; exact cleanJL_eq xs
  | .obj kvs => by simp only [cleanJ, strsHave]; exact cleanJK_eq kvs
theorem cleanJL_eq : ∀ xs : JL, cleanJL xs = !strsHaveL (fun c => !isScalar c) xs
  | .nil => rfl
  | .cons x xs => by simp only [cleanJL, strsHaveL, cleanJ_eq x, cleanJL_eq xs, Bool.not_or]
theorem cleanJK_eq : ∀ kvs : KL, cleanJK kvs = !strsHaveK (fun c => !isScalar c) kvs
  | .nil => rfl
  | .cons k v r => by simp only [cleanJK, strsHaveK, cleanS_eq k, cleanJ_eq v, cleanJK_eq r, Bool.not_or]
end

/-- a value whose strings are Unicode strings has clean content -/
theorem cleanJ_norm_of_scalar (v : J) (hs : strsHave (fun c => !isScalar c) v = false) : cleanJ (norm v) = true := by
  rw [cleanJ_eq]
  cases h : strsHave (fun c => !isScalar c) (norm v) with
  | false => rfl
  | true => rw [strsHave_norm _ v h] at hs; cases hs

/-- the characters of the canonical text of clean content are scalar values -/
theorem text_scalar (v : J) (hw : v.wf = true) (hc : cleanJ v = true) : (text v).all isScalar = true := by
  rw [List.all_eq_true]
  intro x hx
  rcases text_chars v hw x hx with h | ⟨_, h⟩
  · unfold printable at h; simp [isScalar]; omega
  · cases hsc : isScalar x with
    | true => rfl
    | false =>
      have : strsHave (fun c => !isScalar c) v = true :=
        strsHave_mono (· == x) (fun c => !isScalar c) (by intro y hy; simp at hy; subst hy; simp [hsc]) v h
      rw [cleanJ_eq, this] at hc; cases hc

/-- canonical output passes checkEncoding -/
theorem checkEncoding_text (v : J) (hw : v.wf = true) (hc : cleanJ v = true) :
    checkEncoding (utf8s (text v)) = true := by
  unfold checkEncoding
  rw [utf8Valid_utf8s _ (text_scalar v hw hc), surrogatesPaired_text v hw]; rfl

end GoblVerif.Proofs.C14n
