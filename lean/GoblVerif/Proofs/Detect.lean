/-
  Generic single-digit error detection for "affine" check-digit schemes:
  a code d₁…dₙ is valid when (k + Σ fᵢ(dᵢ)) mod m = 0, where every fᵢ is
  injective mod m on the digits 0..9.  Weighted sums (fᵢ = wᵢ·), Luhn
  (fᵢ = id or digit-sum of the double) and mod-97 schemes are instances.
-/
import GoblVerif.Proofs.TaxId
import Mathlib.Data.Nat.ModEq

namespace GoblVerif.TaxId.Detect

def sumF (fs : List (Nat → Nat)) (ds : List Nat) : Nat := (List.zipWith (fun f d => f d) fs ds).sum

/-- weights as functions -/
def W (ws : List Nat) : List (Nat → Nat) := ws.map (fun w d => w * d)

theorem sumF_W (ws ds : List Nat) : sumF (W ws) ds = Spec.TaxId.dot ws ds := by
  induction ws generalizing ds with
  | nil => simp [sumF, W, Spec.TaxId.dot]
  | cons w ws ih =>
    cases ds with
    | nil => simp [sumF, W, Spec.TaxId.dot]
    | cons d ds =>
      have := ih ds
      simp only [sumF, W, Spec.TaxId.dot, List.map_cons, List.zipWith_cons_cons, List.sum_cons] at this ⊢
      rw [this]

theorem sumF_set (fs : List (Nat → Nat)) (ds : List Nat) (i x : Nat) (hi : i < fs.length) (hi' : i < ds.length) :
    sumF fs (ds.set i x) + (fs.getD i id) (ds.getD i 0) = sumF fs ds + (fs.getD i id) x := by
  induction fs generalizing ds i with
  | nil => simp at hi
  | cons f fs ih =>
    cases ds with
    | nil => simp at hi'
    | cons d ds =>
      cases i with
      | zero => simp [sumF]; omega
      | succ i =>
        have := ih ds i (by simpa using hi) (by simpa using hi')
        simp only [sumF, List.set_cons_succ, List.zipWith_cons_cons, List.sum_cons, List.getD_cons_succ] at this ⊢
        omega

theorem affine_congr (m k : Nat) (fs : List (Nat → Nat)) (ds : List Nat) (i x : Nat)
    (hi : i < fs.length) (hi' : i < ds.length)
    (h1 : (k + sumF fs ds) % m = 0) (h2 : (k + sumF fs (ds.set i x)) % m = 0) :
    (fs.getD i id (ds.getD i 0)) % m = (fs.getD i id x) % m := by
  have hs := sumF_set fs ds i x hi hi'
  have e1 : (k + sumF fs (ds.set i x) + fs.getD i id (ds.getD i 0)) % m = (fs.getD i id (ds.getD i 0)) % m := by
    rw [Nat.add_mod, h2]; simp
  have e2 : (k + sumF fs ds + fs.getD i id x) % m = (fs.getD i id x) % m := by
    rw [Nat.add_mod, h1]; simp
  have : k + sumF fs (ds.set i x) + fs.getD i id (ds.getD i 0) = k + sumF fs ds + fs.getD i id x := by omega
  rw [← e1, ← e2, this]

/-- every position function at a position not fixed by the format (`fixed i = false`)
    is injective mod `m` on 0..9 -/
def InjTable (m : Nat) (fixed : Nat → Bool) (fs : List (Nat → Nat)) : Prop :=
  ∀ i, i < fs.length → fixed i = false → ∀ d, d < 10 → ∀ d', d' < 10 →
    (fs.getD i id d) % m = (fs.getD i id d') % m → d = d'

instance (m : Nat) (fixed : Nat → Bool) (fs : List (Nat → Nat)) : Decidable (InjTable m fixed fs) := by
  unfold InjTable; infer_instance

/-- replacing one digit (at a free position) of a valid code by a different digit makes it invalid -/
theorem detect (m k : Nat) (fixed : Nat → Bool) (fs : List (Nat → Nat)) (htab : InjTable m fixed fs)
    (ds : List Nat) (i x : Nat) (hi : i < fs.length) (hi' : i < ds.length) (hs : fixed i = false)
    (hd : ds.getD i 0 < 10) (hx : x < 10) (hne : x ≠ ds.getD i 0)
    (h1 : (k + sumF fs ds) % m = 0) : (k + sumF fs (ds.set i x)) % m ≠ 0 := by
  intro h2
  exact hne (htab i hi hs x hx (ds.getD i 0) hd (affine_congr m k fs ds i x hi hi' h1 h2).symm)

end GoblVerif.TaxId.Detect

namespace GoblVerif.TaxId.Detect
open GoblVerif.Spec.TaxId (digs dot)

/-- `s'` is `s` with exactly one character replaced by a different one -/
def edit1 (s s' : Str) : Prop := ∃ i, i < s.length ∧ ∃ c, c ≠ s.getD i ' ' ∧ s' = s.set i c

theorem dval_inj (a b : Char) (ha : isDig a = true) (hb : isDig b = true) (h : dval a = dval b) : a = b := by
  rw [char_eq_iff_toNat]
  simp [isDig, dval] at ha hb h
  omega

theorem dval_lt (a : Char) (ha : isDig a = true) : dval a < 10 := by
  simp [isDig, dval] at ha ⊢; omega

theorem digs_set (s : Str) (i : Nat) (c : Char) : digs (s.set i c) = (digs s).set i (dval c) := by
  simp [digs, List.map_set]

theorem digs_getD (s : Str) (i : Nat) (hi : i < s.length) : (digs s).getD i 0 = dval (s.getD i ' ') := by
  simp [digs, List.getD_eq_getElem?_getD, List.getElem?_map, List.getElem?_eq_getElem hi]

/-- single-character edits are detected by an affine scheme given in string form -/
theorem detect_str (valid : Str → Bool) (n m k : Nat) (fixed : Nat → Bool) (fs : List (Nat → Nat))
    (hlen : fs.length = n) (htab : InjTable m fixed fs)
    (haff : ∀ s, valid s = true → s.length = n ∧ (∀ i, fixed i = false → i < n → isDig (s.getD i ' ') = true) ∧
      (k + sumF fs (digs s)) % m = 0)
    (hfix : ∀ s s', valid s = true → valid s' = true → ∀ i, fixed i = true → s.getD i ' ' = s'.getD i ' ')
    (s s' : Str) (hv : valid s = true) (he : edit1 s s') : valid s' = false := by
  cases hv' : valid s' with
  | false => rfl
  | true =>
    exfalso
    obtain ⟨i, hi, c, hc, rfl⟩ := he
    obtain ⟨hl, hd, ha⟩ := haff s hv
    obtain ⟨hl', hd', ha'⟩ := haff _ hv'
    have hget : (s.set i c).getD i ' ' = c := by
      simp [List.getD_eq_getElem?_getD, List.getElem?_set_self hi]
    by_cases hs : fixed i = true
    · have := hfix s _ hv hv' i hs
      rw [hget] at this
      exact hc this.symm
    · have hs' : fixed i = false := by simpa using hs
      have hin : i < n := hl ▸ hi
      have hdc : isDig c = true := by have := hd' i hs' hin; rwa [hget] at this
      have hdi := hd i hs' hin
      rw [digs_set] at ha'
      refine detect m k fixed fs htab (digs s) i (dval c) (hlen ▸ hin) (by simpa [digs] using hi) hs' ?_ (dval_lt c hdc) ?_ ha ha'
      · rw [digs_getD s i hi]; exact dval_lt _ hdi
      · rw [digs_getD s i hi]; intro h; exact hc (dval_inj _ _ hdc hdi h)

theorem dot_set_lt (ws ds : List Nat) (i x : Nat) (hi : i < ws.length) (hi' : i < ds.length) :
    dot ws (ds.set i x) + ws.getD i 0 * ds.getD i 0 = dot ws ds + ws.getD i 0 * x := by
  have := sumF_set (W ws) ds i x (by simpa [W] using hi) hi'
  rw [sumF_W, sumF_W] at this
  have hw : ∀ y, (W ws).getD i id y = ws.getD i 0 * y := by
    intro y
    simp [W, List.getD_eq_getElem?_getD, List.getElem?_map, List.getElem?_eq_getElem hi]
  rw [hw, hw] at this
  exact this

theorem dot_set_ge (ws ds : List Nat) (i x : Nat) (hi : ws.length ≤ i) : dot ws (ds.set i x) = dot ws ds := by
  induction ws generalizing ds i with
  | nil => simp [dot]
  | cons w ws ih =>
    cases ds with
    | nil => simp
    | cons d ds =>
      cases i with
      | zero => simp at hi
      | succ i =>
        have := ih ds i (by simpa using hi)
        simp only [dot, List.set_cons_succ, List.zipWith_cons_cons, List.sum_cons] at this ⊢
        rw [this]

/-- collapsed schemes `last = g (Σ wᵢdᵢ mod m)`: an undetected single-digit edit lies in
    the body, changes the remainder, and the two remainders collide under `g` -/
theorem collapsed_detect (m : Nat) (ws : List Nat) (g : Nat → Nat) (htab : InjTable m (fun _ => false) (W ws))
    (ds : List Nat) (hlen : ds.length = ws.length + 1) (i x : Nat) (hi : i < ds.length)
    (hx : x < 10) (hd : ds.getD i 0 < 10) (hne : x ≠ ds.getD i 0)
    (h : ds.getD ws.length 0 = g (dot ws ds % m))
    (h' : (ds.set i x).getD ws.length 0 = g (dot ws (ds.set i x) % m)) :
    i < ws.length ∧ dot ws ds % m ≠ dot ws (ds.set i x) % m ∧ g (dot ws ds % m) = g (dot ws (ds.set i x) % m) := by
  by_cases hlt : i < ws.length
  · refine ⟨hlt, ?_, ?_⟩
    · intro heq
      have hs := dot_set_lt ws ds i x hlt hi
      have h1 : (ws.getD i 0 * ds.getD i 0) % m = (ws.getD i 0 * x) % m := by
        have e : dot ws (ds.set i x) ≡ dot ws ds [MOD m] := heq.symm
        have e2 : dot ws (ds.set i x) + ws.getD i 0 * ds.getD i 0 ≡ dot ws ds + ws.getD i 0 * x [MOD m] := by rw [hs]
        exact Nat.ModEq.add_left_cancel e e2
      have hw : ∀ y, (W ws).getD i id y = ws.getD i 0 * y := by
        intro y
        simp [W, List.getD_eq_getElem?_getD, List.getElem?_map, List.getElem?_eq_getElem hlt]
      have := htab i (by simpa [W] using hlt) rfl x hx (ds.getD i 0) hd (by rw [hw, hw]; exact h1.symm)
      exact hne this
    · rw [← h, ← h']
      simp [List.getD_eq_getElem?_getD, List.getElem?_set_ne (Nat.ne_of_lt hlt)]
  · exfalso
    have hie : i = ws.length := by omega
    subst hie
    rw [dot_set_ge ws ds _ x (Nat.le_refl _)] at h'
    have : (ds.set ws.length x).getD ws.length 0 = x := by
      simp [List.getD_eq_getElem?_getD, List.getElem?_set_self hi]
    rw [this] at h'
    exact hne (h'.trans h.symm)


/-- string form of `collapsed_detect` -/
theorem collapsed_str (valid : Str → Bool) (n m : Nat) (ws : List Nat) (g : Nat → Nat) (hn : n = ws.length + 1)
    (htab : InjTable m (fun _ => false) (W ws))
    (hspec : ∀ s, valid s = true → s.length = n ∧ (∀ i, i < n → isDig (s.getD i ' ') = true) ∧
      (digs s).getD ws.length 0 = g (dot ws (digs s) % m))
    (s s' : Str) (hv : valid s = true) (he : edit1 s s') (hv' : valid s' = true) :
    dot ws (digs s) % m ≠ dot ws (digs s') % m ∧ g (dot ws (digs s) % m) = g (dot ws (digs s') % m) := by
  obtain ⟨i, hi, c, hc, rfl⟩ := he
  obtain ⟨hl, hd, ha⟩ := hspec s hv
  obtain ⟨hl', hd', ha'⟩ := hspec _ hv'
  have hget : (s.set i c).getD i ' ' = c := by
    simp [List.getD_eq_getElem?_getD, List.getElem?_set_self hi]
  have hin : i < n := hl ▸ hi
  have hdc : isDig c = true := by have := hd' i hin; rwa [hget] at this
  have hdi := hd i hin
  rw [digs_set] at ha' ⊢
  have := collapsed_detect m ws g htab (digs s) (by simp [digs, hl, hn]) i (dval c) (by simpa [digs] using hi)
    (dval_lt c hdc) (by rw [digs_getD s i hi]; exact dval_lt _ hdi)
    (by rw [digs_getD s i hi]; intro h; exact hc (dval_inj _ _ hdc hdi h)) ha ha'
  exact this.2

/-- finishing tactic for the "digits at the free positions" obligations -/
macro "digit_positions" n:num : tactic =>
  `(tactic| (intro i _ hi; (have hcases : ∀ k, k < $n → (k = 0 ∨ k = 1 ∨ k = 2 ∨ k = 3 ∨ k = 4 ∨ k = 5 ∨ k = 6 ∨ k = 7 ∨ k = 8 ∨ k = 9 ∨ k = 10 ∨ k = 11 ∨ k = 12 ∨ k = 13 ∨ k = 14) := by omega);
             rcases hcases i hi with rfl|rfl|rfl|rfl|rfl|rfl|rfl|rfl|rfl|rfl|rfl|rfl|rfl|rfl|rfl <;> simp_all [isDig] <;> omega))

/-- Luhn: digit sum of the double -/
def dbl (d : Nat) : Nat := Spec.TaxId.digitSum (2 * d)

theorem edit1_length {s s' : Str} (he : edit1 s s') : s'.length = s.length := by
  obtain ⟨i, _, c, _, rfl⟩ := he; simp


macro "all_digit_positions" n:num : tactic =>
  `(tactic| (intro i hi; (have hcases : ∀ k, k < $n → (k = 0 ∨ k = 1 ∨ k = 2 ∨ k = 3 ∨ k = 4 ∨ k = 5 ∨ k = 6 ∨ k = 7 ∨ k = 8 ∨ k = 9 ∨ k = 10 ∨ k = 11 ∨ k = 12 ∨ k = 13 ∨ k = 14) := by omega);
             rcases hcases i hi with rfl|rfl|rfl|rfl|rfl|rfl|rfl|rfl|rfl|rfl|rfl|rfl|rfl|rfl|rfl <;> simp_all [isDig] <;> omega))

/-! ### DE: ISO 7064 MOD 11,10 detects single-digit errors -/
open GoblVerif.Spec.TaxId.DE (step)

theorem de_step_inj_a : ∀ p, p < 11 → 1 ≤ p → ∀ a, a < 10 → ∀ a', a' < 10 → step p a = step p a' → a = a' := by decide
theorem de_step_inj_p : ∀ a, a < 10 → ∀ p, p < 11 → ∀ q, q < 11 → (1 ≤ p ∧ 1 ≤ q ∧ step p a = step q a) → p = q := by decide

theorem de_fold_inj (l : List Nat) (hl : ∀ d ∈ l, d < 10) (p p' : Nat) (hp : 1 ≤ p ∧ p ≤ 10) (hp' : 1 ≤ p' ∧ p' ≤ 10)
    (hne : p ≠ p') : l.foldl step p ≠ l.foldl step p' := by
  induction l generalizing p p' with
  | nil => simpa using hne
  | cons a l ih =>
    simp only [List.foldl_cons]
    apply ih (fun d hd => hl d (by simp [hd])) _ _ (de_step_range p a) (de_step_range p' a)
    intro h
    exact hne (de_step_inj_p a (hl a (by simp)) p (by omega) p' (by omega) ⟨hp.1, hp'.1, h⟩)

/-- ISO 7064 MOD 11,10 detects a wrong digit anywhere in the payload -/
theorem de_detect_list (pre post : List Nat) (a a' c : Nat) (hpost : ∀ d ∈ post, d < 10)
    (ha : a < 10) (ha' : a' < 10) (hne : a ≠ a')
    (h1 : ((pre ++ a :: post).foldl step 10 + c) % 10 = 1) :
    ((pre ++ a' :: post).foldl step 10 + c) % 10 ≠ 1 := by
  simp only [List.foldl_append, List.foldl_cons] at h1 ⊢
  have hP := de_fold_range pre 10 (by omega)
  generalize List.foldl step 10 pre = P at hP h1
  have hq := de_step_range P a
  have hq' := de_step_range P a'
  have hqne : step P a ≠ step P a' := fun h => hne (de_step_inj_a P (by omega) hP.1 a ha a' ha' h)
  have hr := de_fold_range post _ hq
  have hr' := de_fold_range post _ hq'
  have hrne := de_fold_inj post hpost _ _ hq hq' hqne
  omega

end GoblVerif.TaxId.Detect
