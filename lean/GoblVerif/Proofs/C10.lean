/-
  Helper lemmas for C10: the concrete validation / verification functions
  expressed through the abstract state (core Lean only).
-/
import GoblVerif.Spec.C10
import GoblVerif.Proofs.Envelope

namespace GoblVerif
open GoblVerif.Spec.C10

variable (H : Nat → String)

theorem any_isNone_eq (ss : List (Option Sig)) : ss.any (·.isNone) = !ss.all (·.isSome) := by
  induction ss with
  | nil => rfl
  | cons s rest ih => cases s <;> simp [ih]

/-- the decision of `Validate` as a function of the facts it looks at -/
def validateCore (digSome stampsEmpty dupS dupL valid needs has signed allSome digEq : Bool) : Outcome :=
  if !digSome || (!signed && !stampsEmpty) || dupS || dupL || !(valid && (!(signed && needs) || has)) || !allSome
  then .validation else if digEq then .ok else .digest

theorem validate_core (e : Env) (d : Doc) (hd : e.doc = some d) :
    Env.validate H e = validateCore e.head.dig.isSome e.head.stamps.isEmpty
      (dupKeys (e.head.stamps.map (·.prv))) (dupKeys (e.head.links.map (·.key)))
      d.valid d.needsCode d.hasCode (!e.sigs.isEmpty) (e.sigs.all (·.isSome))
      (e.head.dig == some (digestOf H d)) := by
  unfold Env.validate validateCore
  simp only [hd, headBad, Doc.validIn, Env.signed, any_isNone_eq]
  cases e.head.dig <;> simp

theorem validateCore_abs (digSome stampsEmpty dupS dupL valid needs has signed allSome digEq : Bool)
    (hs : signed = false → allSome = true) :
    validateCore digSome stampsEmpty dupS dupL valid needs has signed allSome digEq =
      Abs.validateOutcome ⟨true, false, valid, needs, has, !(dupS || dupL), digSome, digEq, !stampsEmpty,
        signed, allSome, true, []⟩ := by
  cases signed
  · have := hs rfl; subst this
    cases digSome <;> cases stampsEmpty <;> cases dupS <;> cases dupL <;> cases valid <;> cases needs <;>
      cases has <;> cases digEq <;> rfl
  · cases digSome <;> cases stampsEmpty <;> cases dupS <;> cases dupL <;> cases valid <;> cases needs <;>
      cases has <;> cases allSome <;> cases digEq <;> rfl

/-- the outcome functions only read some of the facts -/
theorem validateOutcome_congr (a b : Abs) (h1 : a.hasDoc = b.hasDoc) (h2 : a.docValid = b.docValid)
    (h3 : a.needsCode = b.needsCode) (h4 : a.hasCode = b.hasCode) (h5 : a.headOk = b.headOk)
    (h6 : a.digPresent = b.digPresent) (h7 : a.digestOk = b.digestOk) (h8 : a.stampsPresent = b.stampsPresent)
    (h9 : a.signed = b.signed) (h10 : a.allReal = b.allReal) : a.validateOutcome = b.validateOutcome := by
  cases a; cases b
  simp only at h1 h2 h3 h4 h5 h6 h7 h8 h9 h10
  subst h1 h2 h3 h4 h5 h6 h7 h8 h9 h10
  rfl

/-- `Validate` is the abstract `validateOutcome` -/
theorem validate_eq_abs (e : Env) : Env.validate H e = (abs H e).validateOutcome := by
  cases hd : e.doc with
  | none =>
    simp [Env.validate, hd, Abs.validateOutcome, Abs.structOk, Abs.validSigned, Abs.validUnsigned, abs]
  | some d =>
    rw [validate_core H e d hd, validateCore_abs]
    · apply validateOutcome_congr <;> simp [abs, hd, docFact]
    · intro h
      have : e.sigs = [] := by simpa using h
      simp [this]

theorem validateOutcome_signed (a : Abs) (h : a.signed = true) : a.validateOutcome = a.signOutcome := by
  simp [Abs.validateOutcome, Abs.signOutcome, Abs.structOk, h]

theorem signOutcome_congr (a b : Abs) (h1 : a.hasDoc = b.hasDoc) (h2 : a.docValid = b.docValid)
    (h3 : a.needsCode = b.needsCode) (h4 : a.hasCode = b.hasCode) (h5 : a.headOk = b.headOk)
    (h6 : a.digPresent = b.digPresent) (h7 : a.digestOk = b.digestOk)
    (h10 : a.allReal = b.allReal) : a.signOutcome = b.signOutcome := by
  cases a; cases b
  simp only at h1 h2 h3 h4 h5 h6 h7 h10
  subst h1 h2 h3 h4 h5 h6 h7 h10
  rfl

/-- validating the envelope with one more real signature on it -/
theorem validate_append (e : Env) (sg : Sig) :
    Env.validate H { e with sigs := e.sigs ++ [some sg] } = (abs H e).signOutcome := by
  rw [validate_eq_abs, validateOutcome_signed]
  · apply signOutcome_congr <;> simp [abs]
  · simp [abs]

theorem sign_ok_iff (e : Env) (k : Key) : (Env.sign H e k).2 = .ok ↔ (abs H e).signOutcome = .ok := by
  unfold Env.sign
  simp only [validate_append]
  cases h : (abs H e).signOutcome <;> simp

theorem sign_snd (e : Env) (k : Key) : (Env.sign H e k).2 = (abs H e).signOutcome := by
  unfold Env.sign
  simp only [validate_append]
  cases h : (abs H e).signOutcome <;> simp

theorem sign_fst_ok (e : Env) (k : Key) (h : (abs H e).signOutcome = .ok) :
    (Env.sign H e k).1 = { e with sigs := e.sigs ++ [some ⟨k, e.head⟩] } := by
  unfold Env.sign
  simp only [validate_append, h]

theorem sign_fst_fail (e : Env) (k : Key) (h : (abs H e).signOutcome ≠ .ok) :
    (Env.sign H e k).1 = { e with sigs := [] } := by
  unfold Env.sign
  simp only [validate_append]

/-- `Verify` through the abstract facts -/
theorem verify_eq_abs (e : Env) (ks : List Key) : (e.verify ks).outcome = (abs H e).verifyOutcome ks := by
  unfold Abs.verifyOutcome
  by_cases h0 : e.sigs = []
  · simp [Env.verify, h0, abs, VerifyOut.outcome]
  · have hne : e.sigs.isEmpty = false := by cases hs : e.sigs <;> simp_all
    have hsigned : (abs H e).signed = true := by simp [abs, hne]
    simp only [hsigned, Bool.not_true, Bool.false_eq_true, if_false]
    by_cases hv : e.verify ks = .ok
    · have hv' := hv
      rw [Env.verify_ok_iff] at hv'
      have hall : ∀ s ∈ e.sigs, ∃ sg, s = some sg ∧ (ks = [] ∨ sg.signer ∈ ks) ∧ e.head.contains sg.payload = true :=
        fun s hs => (verifySignature_ok_iff _ _ _).mp (hv'.2 s hs)
      have c1 : (abs H e).allReal = true := by
        simp only [abs, List.all_eq_true]
        intro s hs; obtain ⟨sg, rfl, _⟩ := hall s hs; rfl
      have c2 : (abs H e).containsAll = true := by
        simp only [abs, List.all_eq_true]
        intro s hs; obtain ⟨sg, rfl, _, h3⟩ := hall s hs; exact h3
      have c3 : (ks.isEmpty || (abs H e).signers.all (fun k => ks.contains k)) = true := by
        by_cases hk : ks = []
        · simp [hk]
        · simp only [abs, Bool.or_eq_true, List.all_eq_true, List.mem_filterMap, List.contains_iff_mem]
          right
          rintro k ⟨s, hs, hsk⟩
          obtain ⟨sg, rfl, h2, _⟩ := hall s hs
          simp only [Option.map_some, Option.some.injEq] at hsk
          subst hsk
          rcases h2 with h2 | h2
          · exact absurd h2 hk
          · exact h2
      rw [hv]
      simp only [VerifyOut.outcome, c1, c2, c3, Bool.and_self, if_true]
    · have hout : (e.verify ks).outcome = .verifyFailed := by
        unfold Env.verify at hv ⊢
        simp only [hne, Bool.false_eq_true, if_false] at hv ⊢
        split
        · rename_i h; simp [h] at hv
        · rfl
      rw [hout]
      have : ¬ ((abs H e).allReal && (abs H e).containsAll &&
          (ks.isEmpty || (abs H e).signers.all (fun k => ks.contains k))) = true := by
        intro hc
        apply hv
        rw [Env.verify_ok_iff]
        refine ⟨h0, fun s hs => (verifySignature_ok_iff _ _ _).mpr ?_⟩
        simp only [Bool.and_eq_true, Bool.or_eq_true, abs, List.all_eq_true, List.mem_filterMap,
          List.contains_iff_mem, List.isEmpty_iff] at hc
        obtain ⟨⟨c1, c2⟩, c3⟩ := hc
        have hr := c1 s hs
        cases s with
        | none => simp at hr
        | some sg =>
          refine ⟨sg, rfl, ?_, c2 _ hs⟩
          rcases c3 with c3 | c3
          · exact Or.inl c3
          · exact Or.inr (c3 sg.signer ⟨some sg, hs, rfl⟩)
      rw [if_neg this]

/-- a change of the header only: the facts about the document, the digest
    presence and the signature list stay -/
theorem abs_setHead_fields (e : Env) (h' : Header) (hd : h'.dig = e.head.dig) :
    (abs H (e.setHead h')).hasDoc = (abs H e).hasDoc ∧ (abs H (e.setHead h')).calcOk = (abs H e).calcOk ∧
    (abs H (e.setHead h')).docValid = (abs H e).docValid ∧ (abs H (e.setHead h')).needsCode = (abs H e).needsCode ∧
    (abs H (e.setHead h')).hasCode = (abs H e).hasCode ∧ (abs H (e.setHead h')).digPresent = (abs H e).digPresent ∧
    (abs H (e.setHead h')).digestOk = (abs H e).digestOk ∧ (abs H (e.setHead h')).signed = (abs H e).signed ∧
    (abs H (e.setHead h')).allReal = (abs H e).allReal ∧ (abs H (e.setHead h')).signers = (abs H e).signers := by
  simp [abs, Env.setHead, hd]

theorem containsAll_unsigned (e : Env) (h : (abs H e).signed = false) : (abs H e).containsAll = true := by
  have : e.sigs = [] := by simpa [abs] using h
  simp [abs, this]

/-- `freeContains` with the value read off the successor state -/
theorem freeContains_of (e e' : Env) (hs : (abs H e').signed = (abs H e).signed) :
    (abs H e').containsAll = (abs H e).freeContains (freeOf H e') := by
  unfold Abs.freeContains freeOf
  cases h : (abs H e).signed
  · simp only [Bool.false_eq_true, if_false]
    exact containsAll_unsigned H e' (by rw [hs, h])
  · simp

theorem run_fst_eq_after (e : Env) (ops : List Op) : (Env.run H e ops).1 = Env.after H e ops := by
  induction ops generalizing e with
  | nil => rfl
  | cons op ops ih => simp only [Env.run, Env.after]; exact ih _

/-- every entry of the signature list after a step was there before, is a
    `null` entry injected by a round trip, or is the signature this `sign`
    step made over the header at that time -/
theorem step_sigs (e : Env) (op : Op) (x : Option Sig) (hx : x ∈ (Env.step H e op).1.sigs) :
    x ∈ e.sigs ∨ (x = none ∧ op = .roundtrip .null) ∨ ∃ k, op = .sign k ∧ x = some ⟨k, e.head⟩ := by
  cases op with
  | insert d => cases hd : d.calcOk <;> (simp [Env.step, Env.insert, Env.calculate, hd] at hx; exact Or.inl hx)
  | calculate =>
    cases hdoc : e.doc with
    | none => simp [Env.step, Env.calculate, hdoc] at hx; exact Or.inl hx
    | some d => cases hd : d.calcOk <;> (simp [Env.step, Env.calculate, hdoc, hd] at hx; exact Or.inl hx)
  | editDoc c => cases hdoc : e.doc <;> (simp [Env.step, hdoc] at hx; exact Or.inl hx)
  | toggleCode c => cases hdoc : e.doc <;> (simp [Env.step, hdoc] at hx; exact Or.inl hx)
  | sign k =>
    simp only [Env.step] at hx
    by_cases h : (abs H e).signOutcome = .ok
    · rw [sign_fst_ok H e k h] at hx
      simp only [List.mem_append, List.mem_singleton] at hx
      rcases hx with hx | hx
      · exact Or.inl hx
      · exact Or.inr (Or.inr ⟨k, rfl, hx⟩)
    · rw [sign_fst_fail H e k h] at hx; simp at hx
  | signBadKey => exact Or.inl hx
  | unsign => simp [Env.step, Env.unsign] at hx
  | addStamp p v => exact Or.inl hx
  | alterStamp v => cases hs : e.head.stamps <;> (simp [Env.step, hs, Env.setHead] at hx; exact Or.inl hx)
  | addLink k u => exact Or.inl hx
  | addTag t => exact Or.inl hx
  | setMeta k v => exact Or.inl hx
  | setNotes s => exact Or.inl hx
  | validate => exact Or.inl hx
  | verify ks => exact Or.inl hx
  | roundtrip inj =>
    cases hdoc : e.doc with
    | none => simp [Env.step, hdoc] at hx; exact Or.inl hx
    | some d =>
      cases inj
      · simp [Env.step, hdoc] at hx; exact Or.inl hx
      · simp [Env.step, hdoc] at hx; exact Or.inl hx
      · simp only [Env.step, hdoc, List.mem_append, List.mem_singleton] at hx
        rcases hx with hx | hx
        · exact Or.inl hx
        · exact Or.inr (Or.inl ⟨hx, rfl⟩)

end GoblVerif
