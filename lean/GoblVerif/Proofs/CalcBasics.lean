/-
  Basic facts about the exact-ops instance of the calculation model: exponents
  of results, and exactness of the operations that never round.
-/
import GoblVerif.Model.Calc
import GoblVerif.Proofs.Num

namespace GoblVerif.Calc

@[simp] theorem exact_mul (a b : Amount) : exactOps.mul a b = a.mulX b := rfl
@[simp] theorem exact_div (a b : Amount) : exactOps.div a b = a.divX b := rfl
@[simp] theorem exact_rescale (a : Amount) (e : Nat) : exactOps.rescale a e = a.rescaleX e := rfl

/-! ### exponents -/

@[simp] theorem rescaleX_exp (a : Amount) (e : Nat) : (a.rescaleX e).exp = e := by
  unfold Amount.rescaleX
  split
  · rfl
  · split
    · rfl
    · omega

theorem rescaleX_self (a : Amount) (e : Nat) (h : a.exp = e) : a.rescaleX e = a := by
  unfold Amount.rescaleX
  have h1 : ¬ a.exp > e := by omega
  have h2 : ¬ a.exp < e := by omega
  simp [h1, h2]

@[simp] theorem mulX_exp (a b : Amount) : (a.mulX b).exp = a.exp := rfl

@[simp] theorem divX_exp (a b : Amount) : (a.divX b).exp = a.exp := by
  unfold Amount.divX; simp only; split <;> rfl

theorem up_exp (a : Amount) (e : Nat) : (up a e).exp = max a.exp e := by
  unfold up; split
  · simp; omega
  · omega

theorem up_self (a : Amount) (e : Nat) (h : e ≤ a.exp) : up a e = a := by
  unfold up
  have : ¬ e > a.exp := by omega
  simp [this]

@[simp] theorem add_exp (o : Ops) (a b : Amount) : (add o a b).exp = a.exp := rfl
@[simp] theorem sub_exp (o : Ops) (a b : Amount) : (sub o a b).exp = a.exp := rfl
@[simp] theorem neg_exp (a : Amount) : (neg a).exp = a.exp := rfl
@[simp] theorem pctOf_exp (p : Pct) (a : Amount) : (pctOf exactOps p a).exp = a.exp := rfl

/-! ### amounts at a common exponent: addition is plain integer addition -/

theorem add_same (a b : Amount) (h : b.exp = a.exp) :
    add exactOps a b = ⟨a.value + b.value, a.exp⟩ := by
  unfold add
  rw [exact_rescale, rescaleX_self b a.exp h]

theorem sub_same (a b : Amount) (h : b.exp = a.exp) :
    sub exactOps a b = ⟨a.value - b.value, a.exp⟩ := by
  unfold sub
  rw [exact_rescale, rescaleX_self b a.exp h]

theorem accum_same (acc x : Amount) (h : x.exp = acc.exp) :
    accum exactOps acc x = ⟨acc.value + x.value, acc.exp⟩ := by
  unfold accum
  rw [up_self acc x.exp (by omega), add_same acc x h]

theorem foldl_accum_same (c : Nat) (xs : List Amount) (z : Amount) (hz : z.exp = c)
    (hx : ∀ x ∈ xs, x.exp = c) :
    xs.foldl (accum exactOps) z = ⟨z.value + (xs.map (·.value)).sum, c⟩ := by
  induction xs generalizing z with
  | nil => cases z; simp at hz; simp [hz]
  | cons x xs ih =>
    have hxc : x.exp = c := hx x (by simp)
    rw [List.foldl_cons, accum_same z x (by omega)]
    rw [ih ⟨z.value + x.value, z.exp⟩ (by simpa using hz) (fun y hy => hx y (by simp [hy]))]
    simp only [List.map_cons, List.sum_cons]
    congr 1
    omega

end GoblVerif.Calc
