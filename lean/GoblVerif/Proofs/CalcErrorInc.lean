/-
  Error bounds, third part (C01): prices that include one tax category
  (`prices_include`), and the category rows of the tax summary.

  `removeIncludedTaxes` divides the prepared total of a row by 1 + percentage of
  the included category: one division rounding at the row's working precision
  (`remove_err`).  After that the tax summary is the one of a document whose
  rows are the reduced rows (`taxTotal_reduce`), so the bounds of
  `CalcErrorMore` apply to the reduced rows; what is new is the distance of the
  reduced rows from the exact quotient, and the amount of one category
  (`taxTotal_cat`: the category amount and surcharge against the exact sums).
-/
import GoblVerif.Proofs.CalcErrorMore

namespace GoblVerif
open GoblVerif.Spec GoblVerif.Calc
namespace Calc
namespace Err

variable {ret : String → Bool}

/-! ## one division rounding -/

theorem factor_toRat_e (p : Pct) : (factor p).toRat = 1 + p.amount.toRat := by
  have h := p10q_ne p.amount.exp
  unfold factor Amount.toRat
  push_cast
  field_simp
  ring

/-- `Amount.Remove` with a percentage ≥ 0: keeps the precision, and is within half a unit of it of
the exact quotient -/
theorem remove_err (t : Amount) (p : Pct) (hp : 0 ≤ p.amount.toRat) :
    (remove exactOps t p).exp = t.exp ∧
    |(remove exactOps t p).toRat - t.toRat / (1 + p.amount.toRat)| ≤ halfUlp t.exp := by
  have hf : (factor p).toRat = 1 + p.amount.toRat := factor_toRat_e p
  have hne : (factor p).value ≠ 0 := by
    intro h0
    have : (factor p).toRat = 0 := by unfold Amount.toRat; rw [h0]; simp
    rw [hf] at this; linarith
  unfold remove
  simp only [exact_div]
  refine ⟨divX_exp _ _, ?_⟩
  have h := roundTo_err t.exp (t.toRat / (factor p).toRat)
  have hv := divX_spec t (factor p) hne
  rw [← hf]
  show |((t.divX (factor p)).value : ℚ) / ((pow10 (t.divX (factor p)).exp : ℤ) : ℚ) - _| ≤ _
  rw [divX_exp, hv]
  exact h

/-! ## the rows the tax summary is built from -/

/-- the row after `prepareLines` and `removeIncludedTaxes` (a retained included category is an
error of the calculation: the row is then left as prepared) -/
def remRow (c : ℕ) (inc : Option String) (rw : Row) : Row :=
  match inc with
  | none => prepareRow c rw
  | some k =>
    match removeIncludedRow exactOps k (prepareRow c rw) with
    | .ok r => r
    | .error _ => prepareRow c rw

/-- the exact row total with the included tax taken out, as `Spec.C01.rowTaxQ` has it -/
def remQ (inc : Option String) (q : ℚ) (taxes : List Combo) : ℚ :=
  match inc with
  | none => q
  | some k =>
    match taxes.find? (fun cb => cb.cat == k) with
    | some cb => (match cb.percent with | some p => q / (1 + Spec.C01.pq p) | none => q)
    | none => q

/-- the included category is not retained and its percentages are not negative -/
def IncPos (ret : String → Bool) (inc : Option String) (taxes : List Combo) : Prop :=
  ∀ k, inc = some k → ret k = false ∧
    ∀ cb ∈ taxes, cb.cat = k → ∀ p, cb.percent = some p → 0 ≤ p.amount.toRat

theorem prepareRow_fix (c : ℕ) (rw : Row) (h : rw.taxes ≠ [] → c + 2 ≤ rw.total.exp) :
    prepareRow c rw = rw := by
  unfold prepareRow
  split
  · rfl
  · rename_i he
    have hne : rw.taxes ≠ [] := by simpa using he
    have := h hne
    rw [up_self _ _ (by simp only [Calc.E]; omega)]

theorem remRow_ok (c E : ℕ) (inc : Option String) (rw : Row) (h : RowOk ret E rw) (hE : c + 2 ≤ E)
    (hpos : IncPos ret inc rw.taxes) :
    (remRow c inc rw).taxes = rw.taxes ∧ RowOkP ret c E (remRow c inc rw) ∧
    ∀ q, |(remRow c inc rw).total.toRat - remQ inc q rw.taxes| ≤
      |rw.total.toRat - q| + (incB inc rw.taxes : ℚ) * halfUlp (c + 2) := by
  obtain ⟨hP, hq, htx⟩ := prepareRow_ok c E rw h hE
  have h0 := halfUlp_nonneg (c + 2)
  cases inc with
  | none =>
    refine ⟨htx, hP, fun q => ?_⟩
    simp only [remRow, remQ, incB, hq]
    push_cast
    linarith
  | some k =>
    obtain ⟨hret, hpp⟩ := hpos k rfl
    have hplain : ∀ q, |(prepareRow c rw).total.toRat - q| ≤ |rw.total.toRat - q| + (incB (some k) rw.taxes : ℚ) * halfUlp (c + 2) := by
      intro q
      rw [hq]
      have : (0 : ℚ) ≤ (incB (some k) rw.taxes : ℚ) * halfUlp (c + 2) := by positivity
      linarith
    cases hf : rw.taxes.find? (fun cb => cb.cat == k) with
    | none =>
      have hr : remRow c (some k) rw = prepareRow c rw := by
        simp only [remRow, removeIncludedRow, htx, hf]
      rw [hr]
      refine ⟨htx, hP, fun q => ?_⟩
      simp only [remQ, hf]
      exact hplain q
    | some cb =>
      have hmem : cb ∈ rw.taxes := List.mem_of_find?_eq_some hf
      have hcat : cb.cat = k := by simpa using List.find?_some hf
      have hnr : cb.retained = false := by rw [(h.1 cb hmem).1, hcat, hret]
      cases hp : cb.percent with
      | none =>
        have hr : remRow c (some k) rw = prepareRow c rw := by
          simp only [remRow, removeIncludedRow, htx, hf, hnr, hp, Bool.false_eq_true, if_false]
        rw [hr]
        refine ⟨htx, hP, fun q => ?_⟩
        simp only [remQ, hf, hp]
        exact hplain q
      | some p =>
        have hr : remRow c (some k) rw =
            { prepareRow c rw with total := remove exactOps (prepareRow c rw).total p } := by
          simp only [remRow, removeIncludedRow, htx, hf, hnr, hp, Bool.false_eq_true, if_false]
        have hp0 := hpp cb hmem hcat p hp
        obtain ⟨e1, e2⟩ := remove_err (prepareRow c rw).total p hp0
        have hne : rw.taxes ≠ [] := List.ne_nil_of_mem hmem
        have hne' : (prepareRow c rw).taxes ≠ [] := by rw [htx]; exact hne
        have hexp : c + 2 ≤ (prepareRow c rw).total.exp := hP.2.1 hne'
        rw [hr]
        refine ⟨htx, ⟨hP.1, fun _ => by simp only [e1]; exact hexp, by simp only [e1]; exact hP.2.2⟩, fun q => ?_⟩
        have hb : incB (some k) rw.taxes = 1 := by simp [incB, hf, hp]
        simp only [remQ, hf, hp, hb, Spec.C01.pq]
        rw [hq] at e2
        have hh : halfUlp (prepareRow c rw).total.exp ≤ halfUlp (c + 2) := halfUlp_mono _ _ hexp
        have hpos1 : (0 : ℚ) < 1 + p.amount.toRat := by linarith
        have e : (remove exactOps (prepareRow c rw).total p).toRat - q / (1 + p.amount.toRat) =
            ((remove exactOps (prepareRow c rw).total p).toRat - rw.total.toRat / (1 + p.amount.toRat)) +
            (rw.total.toRat - q) / (1 + p.amount.toRat) := by
          field_simp
          ring
        rw [e]
        refine le_trans (abs_add_le _ _) ?_
        have hd : |(rw.total.toRat - q) / (1 + p.amount.toRat)| ≤ |rw.total.toRat - q| := by
          rw [abs_div, abs_of_pos hpos1]
          exact div_le_self (abs_nonneg _) (by linarith)
        push_cast
        linarith

theorem removeIncluded_map (c : ℕ) (k : String) (rows rows2 : List Row)
    (h : removeIncluded exactOps k (rows.map (prepareRow c)) = .ok rows2) :
    rows2 = rows.map (remRow c (some k)) := by
  induction rows generalizing rows2 with
  | nil =>
    simp only [List.map_nil, removeIncluded] at h
    injection h with h
    subst h; rfl
  | cons rw rows ih =>
    simp only [List.map_cons, removeIncluded] at h
    cases h1 : removeIncludedRow exactOps k (prepareRow c rw) with
    | error e => simp [h1] at h
    | ok r =>
      cases h2 : removeIncluded exactOps k (rows.map (prepareRow c)) with
      | error e => simp [h1, h2] at h
      | ok rs =>
        simp only [h1, h2] at h
        injection h with h
        subst h
        rw [ih rs h2]
        simp only [List.map_cons, remRow, h1]

/-- the tax summary of a document whose prices include a category is the summary (without
included category) of the reduced rows -/
theorem taxTotal_reduce (c : ℕ) (inc : Option String) (rows : List Row) (tx : TaxTotal)
    (hfix : ∀ rw ∈ rows, prepareRow c (remRow c inc rw) = remRow c inc rw)
    (h : taxTotal exactOps .precise c inc rows = .ok tx) :
    taxTotal exactOps .precise c none (rows.map (remRow c inc)) = .ok tx := by
  have hm : (rows.map (remRow c inc)).map (prepareRow c) = rows.map (remRow c inc) := by
    rw [List.map_map]
    apply List.map_congr_left
    intro rw hrw
    exact hfix rw hrw
  unfold taxTotal at h ⊢
  simp only [hm]
  cases inc with
  | none =>
    simp only at h
    have : rows.map (remRow c none) = rows.map (prepareRow c) := rfl
    rw [this]
    exact h
  | some k =>
    simp only at h
    cases hr : removeIncluded exactOps k (rows.map (prepareRow c)) with
    | error e => simp [hr] at h
    | ok rows2 =>
      rw [hr] at h
      rw [← removeIncluded_map c k rows rows2 hr]
      exact h

/-! ## one category of the tax summary

`sel` selects what is measured from a percentage and a surcharge percentage: the percentage
(`selP`: the category amount), the surcharge (`selS`: the category surcharge). -/

abbrev selP : ℚ → ℚ → ℚ := fun p _ => p
abbrev selS : ℚ → ℚ → ℚ := fun _ s => s

def rateG (sel : ℚ → ℚ → ℚ) (rt : RateTotal) : ℚ :=
  match rt.percent with
  | some p => rt.base.toRat * sel p.amount.toRat (surR rt)
  | none => 0

def ratesG (sel : ℚ → ℚ → ℚ) (rts : List RateTotal) : ℚ := (rts.map (rateG sel)).sum

def comboG (sel : ℚ → ℚ → ℚ) (t : ℚ) (cb : Combo) : ℚ :=
  match cb.percent with
  | some p => t * sel p.amount.toRat (surC cb)
  | none => 0

/-- Σ base × sel over the groups of category `k` (the first category with that code) -/
def catG (sel : ℚ → ℚ → ℚ) (k : String) (cats : List CatTotal) : ℚ :=
  match cats.find? (fun ct => ct.code == k) with
  | some ct => ratesG sel ct.rates
  | none => 0

/-- what a row with total `t` contributes to category `k` -/
def rowG (sel : ℚ → ℚ → ℚ) (k : String) (t : ℚ) (taxes : List Combo) : ℚ :=
  ((taxes.filter (fun cb => cb.cat == k)).map (comboG sel t)).sum

theorem rateG_new (sel : ℚ → ℚ → ℚ) (c : ℕ) (cb : Combo) (b : Amount) :
    rateG sel { newRate c cb with base := b } = comboG sel b.toRat cb := by
  unfold rateG comboG surR surO surC newRate
  cases cb.percent <;> cases cb.surcharge <;> rfl

theorem addToRates_g (sel : ℚ → ℚ → ℚ) (c E : ℕ) (cb : Combo) (t : Amount) (rts : List RateTotal)
    (ht1 : c + 2 ≤ t.exp) :
    ratesG sel (addToRates exactOps .precise c cb t rts) = ratesG sel rts + comboG sel t.toRat cb := by
  induction rts with
  | nil =>
    obtain ⟨b1, _⟩ := base_step_precise ⟨0, c⟩ t
    simp only [addToRates, ratesG, List.map_cons, List.map_nil, List.sum_cons, List.sum_nil]
    have hb : (newRate c cb).base = ⟨0, c⟩ := rfl
    rw [rateG_new, hb, b1]
    have hz : (⟨0, c⟩ : Amount).toRat = 0 := by simp [Amount.toRat]
    rw [hz]; simp
  | cons rt rts ih =>
    simp only [addToRates]
    split
    · rename_i hm
      obtain ⟨b1, _⟩ := base_step_precise rt.base t
      simp only [ratesG, List.map_cons, List.sum_cons]
      have : rateG sel { rt with base := add exactOps (mrp .precise rt.base t) t } = rateG sel rt + comboG sel t.toRat cb := by
        rcases rtMatches_percent rt cb hm with ⟨h1, h2⟩ | ⟨p, q, h1, h2, h3, h4⟩
        · simp [rateG, comboG, h1, h2]
        · unfold surR at h4
          simp only [rateG, comboG, h1, h2, b1, h3, surR, h4]; ring
      rw [this]; ring
    · simp only [ratesG, List.map_cons, List.sum_cons] at ih ⊢
      rw [ih]; ring

theorem addToCats_g (sel : ℚ → ℚ → ℚ) (k : String) (c : ℕ) (cb : Combo) (t : Amount) (cats : List CatTotal)
    (ht1 : c + 2 ≤ t.exp) :
    catG sel k (addToCats exactOps .precise c cb t cats) =
      catG sel k cats + (if cb.cat == k then comboG sel t.toRat cb else 0) := by
  induction cats with
  | nil =>
    have h1 := addToRates_g sel c 0 cb t [] ht1
    simp only [addToCats, catG, List.find?_cons, List.find?_nil]
    by_cases hk : (cb.cat == k) = true
    · simp only [hk, if_true, h1]
      simp [ratesG]
    · simp [hk]
  | cons ct cts ih =>
    simp only [addToCats]
    split
    · rename_i hcode
      have hcode' : ct.code = cb.cat := by simpa using hcode
      have h1 := addToRates_g sel c 0 cb t ct.rates ht1
      by_cases hk : (ct.code == k) = true
      · have hk' : (cb.cat == k) = true := by rw [← hcode']; exact hk
        simp only [catG, List.find?_cons, hk, hk', if_true, h1]
      · have hk' : ¬ (cb.cat == k) = true := by rw [← hcode']; exact hk
        simp only [catG, List.find?_cons, hk, hk', if_false, add_zero]
        simp [hk]
    · rename_i hcode
      by_cases hk : (ct.code == k) = true
      · have hk' : ¬ (cb.cat == k) = true := by
          intro h2
          apply hcode
          have a1 : ct.code = k := by simpa using hk
          have a2 : cb.cat = k := by simpa using h2
          simp [a1, a2]
        simp only [catG, List.find?_cons, hk, hk']
        simp
      · have hk2 : (ct.code == k) = false := by simpa using hk
        simp only [catG, List.find?_cons, hk2] at ih ⊢
        exact ih

theorem sum_filter_ite {α : Type} (xs : List α) (p : α → Bool) (f : α → ℚ) :
    ((xs.filter p).map f).sum = (xs.map (fun x => if p x then f x else 0)).sum := by
  induction xs with
  | nil => simp
  | cons x xs ih =>
    simp only [List.filter_cons, List.map_cons, List.sum_cons]
    split <;> simp [ih]

theorem foldCombos_g (sel : ℚ → ℚ → ℚ) (k : String) (c : ℕ) (t : Amount) (cbs : List Combo) (cats : List CatTotal)
    (ht1 : cbs ≠ [] → c + 2 ≤ t.exp) :
    catG sel k (cbs.foldl (fun cats cb => addToCats exactOps .precise c cb t cats) cats) =
      catG sel k cats + rowG sel k t.toRat cbs := by
  induction cbs generalizing cats with
  | nil => simp [rowG]
  | cons cb cbs ih =>
    have ht1' : c + 2 ≤ t.exp := ht1 (by simp)
    rw [List.foldl_cons, ih _ (fun _ => ht1'), addToCats_g sel k c cb t cats ht1']
    simp only [rowG, List.filter_cons]
    split <;> simp <;> ring

theorem baseRateTotals_g (sel : ℚ → ℚ → ℚ) (k : String) (c E : ℕ) (rows : List Row) (cats : List CatTotal)
    (hrows : ∀ rw ∈ rows, RowOkP ret c E rw) :
    catG sel k (rows.foldl (fun cats rw => rw.taxes.foldl (fun cats cb => addToCats exactOps .precise c cb rw.total cats) cats) cats) =
      catG sel k cats + (rows.map (fun rw => rowG sel k rw.total.toRat rw.taxes)).sum := by
  induction rows generalizing cats with
  | nil => simp
  | cons rw rows ih =>
    obtain ⟨_, h1, _⟩ := hrows rw (by simp)
    rw [List.foldl_cons, ih _ (fun x hx => hrows x (by simp [hx])), foldCombos_g sel k c rw.total rw.taxes cats h1]
    simp only [List.map_cons, List.sum_cons]
    ring

/-! ### amounts of one category -/

theorem rateAmounts_errP (rt : RateTotal) (c : ℕ) (h1 : c + 2 ≤ rt.base.exp) :
    |taxedAmount .precise c (rateAmounts exactOps rt c) - rateG selP rt| ≤ halfUlp (c + 2) := by
  have h0 := halfUlp_nonneg (c + 2)
  have hper := rateAmounts_percent rt c
  cases hp : rt.percent with
  | none =>
    rw [hp] at hper
    simp only [taxedAmount, rateG, hper, hp, sub_self, abs_zero]; exact h0
  | some p =>
    rw [hp] at hper
    have hamt : (rateAmounts exactOps rt c).amount = rt.base.mulX p.amount := by
      simp [rateAmounts, hp, pctOf]
    have e1 := le_trans (mulX_err rt.base p.amount) (halfUlp_mono _ _ h1)
    simp only [taxedAmount, rateG, hper, hp, contrib, hamt]
    exact e1

theorem rateAmounts_errS (rt : RateTotal) (c : ℕ) (h1 : c + 2 ≤ rt.base.exp) :
    |surAmt (rateAmounts exactOps rt c) - rateG selS rt| ≤ halfUlp (c + 2) := by
  have h0 := halfUlp_nonneg (c + 2)
  have hper := rateAmounts_percent rt c
  cases hp : rt.percent with
  | none =>
    rw [hp] at hper
    simp only [surAmt, rateG, hper, hp, sub_self, abs_zero]; exact h0
  | some p =>
    rw [hp] at hper
    have hsur : (rateAmounts exactOps rt c).surcharge =
        rt.surcharge.map (fun x => (x.1, rt.base.mulX x.1.amount)) := by
      simp [rateAmounts, hp, pctOf]
    simp only [surAmt, rateG, hper, hp, hsur, surR, surO]
    cases hsr : rt.surcharge with
    | none => simp only [Option.map_none, mul_zero, sub_self, abs_zero]; exact h0
    | some x =>
      obtain ⟨sp, sa0⟩ := x
      simp only [Option.map_some]
      exact le_trans (mulX_err rt.base sp.amount) (halfUlp_mono _ _ h1)

/-- one category: the amount and the surcharge, each within one half-unit per rate group of the
exact Σ base × percentage, Σ base × surcharge percentage -/
theorem catAmounts_g (c E : ℕ) (ct : CatTotal) (hinv : RatesInv c E ct.rates) (hc : c ≤ E) :
    |(catAmounts exactOps .precise c ct).amount.toRat - ratesG selP ct.rates| ≤
      (ct.rates.length : ℚ) * halfUlp (c + 2) ∧
    |optQ (catAmounts exactOps .precise c ct).surcharge - ratesG selS ct.rates| ≤
      (ct.rates.length : ℚ) * halfUlp (c + 2) := by
  have hrates : (catAmounts exactOps .precise c ct).rates = ct.rates.map (rateAmounts exactOps · c) := rfl
  constructor
  · rw [catAmounts_amount, hrates, List.map_map]
    unfold ratesG
    exact list_sum_diff_le ct.rates _ _ _ (fun x hx => rateAmounts_errP x c (hinv x hx).1)
  · have hsur : optQ (catAmounts exactOps .precise c ct).surcharge =
        ((ct.rates.map (rateAmounts exactOps · c)).map surAmt).sum := by
      have := (surchargeFold_spec c E (ct.rates.map (rateAmounts exactOps · c)) none (fun s hs => by cases hs) hc
        (by
          intro rt hrt
          simp only [List.mem_map] at hrt
          obtain ⟨x, hx, rfl⟩ := hrt
          exact (rateAmounts_err x c E (hinv x hx).1 (hinv x hx).2 hc).2.1)).1
      simp only [catAmounts]
      refine this.trans ?_
      simp [optQ]
    rw [hsur, List.map_map]
    unfold ratesG
    exact list_sum_diff_le ct.rates _ _ _ (fun x hx => rateAmounts_errS x c (hinv x hx).1)

theorem find?_map_code (f : CatTotal → CatTotal) (hf : ∀ ct, (f ct).code = ct.code) (k : String) (cats : List CatTotal) :
    (cats.map f).find? (fun ct => ct.code == k) = (cats.find? (fun ct => ct.code == k)).map f := by
  induction cats with
  | nil => rfl
  | cons ct cts ih =>
    simp only [List.map_cons, List.find?_cons, hf, ih]
    split <;> simp

/-- how `Total.round` presents a category -/
def roundCat (c : ℕ) (ct : CatTotal) : CatTotal :=
  { ct with
    rates := ct.rates.map (fun rt =>
      { rt with amount := exactOps.rescale rt.amount c, base := exactOps.rescale rt.base c,
                surcharge := rt.surcharge.map (fun (sp, sa) => (sp, exactOps.rescale sa c)) }),
    precise := ct.amount,
    amount := exactOps.rescale ct.amount c,
    surcharge := ct.surcharge.map (exactOps.rescale · c) }

theorem roundTax_cats (c : ℕ) (cats : List CatTotal) (fs : Amount) :
    (roundTax exactOps c cats fs).cats = cats.map (roundCat c) := rfl

/-- **the rows of the tax summary, per category** (precise rule, rows of the class, no included
category): the category `k` of the summary, when present, shows (`amount` = half-away rounding at
currency precision of `precise`) a working amount within one half-unit per rate group of the exact
Σ rows Σ combos of the category, row total × percentage; its surcharge likewise against row total ×
surcharge percentage; when the category is absent the exact sum is 0 -/
theorem taxTotal_cat (c E : ℕ) (rows : List Row) (tx : TaxTotal) (hrows : ∀ rw ∈ rows, RowOk ret E rw) (hE : c + 2 ≤ E)
    (h : taxTotal exactOps .precise c none rows = .ok tx) (k : String) :
    (tx.cats.find? (fun ct => ct.code == k) = none →
      (rows.map (fun rw => rowG selP k rw.total.toRat rw.taxes)).sum = 0) ∧
    (∀ ct, tx.cats.find? (fun ct => ct.code == k) = some ct →
      ct.precise.exp ≤ E ∧ ct.amount = ct.precise.rescaleX c ∧
      |ct.precise.toRat - (rows.map (fun rw => rowG selP k rw.total.toRat rw.taxes)).sum| ≤
        (ct.rates.length : ℚ) * halfUlp (c + 2) ∧
      ∃ ws : Option Amount, ct.surcharge = ws.map (·.rescaleX c) ∧
        |optQ ws - (rows.map (fun rw => rowG selS k rw.total.toRat rw.taxes)).sum| ≤
          (ct.rates.length : ℚ) * halfUlp (c + 2)) := by
  have hc : c ≤ E := by omega
  unfold taxTotal at h
  simp only at h
  injection h with h
  have hprep : ∀ rw ∈ rows.map (prepareRow c), RowOkP ret c E rw := by
    intro rw hrw
    simp only [List.mem_map] at hrw
    obtain ⟨x, hx, rfl⟩ := hrw
    exact (prepareRow_ok c E x (hrows x hx) hE).1
  have hsame : ∀ sel, ((rows.map (prepareRow c)).map (fun rw => rowG sel k rw.total.toRat rw.taxes)).sum =
      (rows.map (fun rw => rowG sel k rw.total.toRat rw.taxes)).sum := by
    intro sel
    rw [List.map_map]
    congr 1
    apply List.map_congr_left
    intro x hx
    obtain ⟨_, h2, h3⟩ := prepareRow_ok c E x (hrows x hx) hE
    simp only [Function.comp, h2, h3]
  obtain ⟨_, b2⟩ := baseRateTotals_w c E (rows.map (prepareRow c)) [] hprep (fun _ hx => by simp at hx)
  have hb : baseRateTotals exactOps .precise c (rows.map (prepareRow c)) =
      (rows.map (prepareRow c)).foldl (fun cats rw => rw.taxes.foldl (fun cats cb => addToCats exactOps .precise c cb rw.total cats) cats) [] := rfl
  rw [← hb] at b2
  have g : ∀ sel, catG sel k (baseRateTotals exactOps .precise c (rows.map (prepareRow c))) =
      (rows.map (fun rw => rowG sel k rw.total.toRat rw.taxes)).sum := by
    intro sel
    have := baseRateTotals_g sel k c E (rows.map (prepareRow c)) [] hprep
    rw [← hb, hsame sel] at this
    rw [this]; simp [catG]
  set B := baseRateTotals exactOps .precise c (rows.map (prepareRow c)) with hB
  have hfind : tx.cats.find? (fun ct => ct.code == k) =
      ((B.find? (fun ct => ct.code == k)).map (catAmounts exactOps .precise c)).map (roundCat c) := by
    rw [← h, roundTax_cats, find?_map_code (roundCat c) (fun _ => rfl), find?_map_code (catAmounts exactOps .precise c) (fun _ => rfl)]
  cases hf : B.find? (fun ct => ct.code == k) with
  | none =>
    rw [hf] at hfind
    refine ⟨fun _ => ?_, fun ct hct => ?_⟩
    · rw [← g selP]; simp only [catG, hf]
    · rw [hfind] at hct; simp at hct
  | some ct0 =>
    rw [hf] at hfind
    refine ⟨fun hn => ?_, fun ct hct => ?_⟩
    · rw [hfind] at hn; simp at hn
    · rw [hfind] at hct
      simp only [Option.map_some, Option.some.injEq] at hct
      subst hct
      have hmem : ct0 ∈ B := List.mem_of_find?_eq_some hf
      have hinv := (b2 ct0 hmem).2
      obtain ⟨a1, a2⟩ := catAmounts_g c E ct0 hinv hc
      have hexp := (catAmounts_w c E ct0 hinv hc).2.1
      have hlen : (roundCat c (catAmounts exactOps .precise c ct0)).rates.length = ct0.rates.length := by
        simp [roundCat, catAmounts]
      have gP := g selP
      have gS := g selS
      simp only [catG, hf] at gP gS
      rw [hlen, ← gP, ← gS]
      exact ⟨hexp, rfl, a1, (catAmounts exactOps .precise c ct0).surcharge, rfl, a2⟩

/-! ## the rows of a document against the exact rows -/

/-- the rows of `Spec.C01.exactQ` (exact total, combos) with the weight of the working total -/
def exactRowsW (d : Doc) : List (ℚ × List Combo × ℕ) :=
  d.lines.filterMap (fun l => (Spec.C01.lineTotalQ d.cur d.rates l).map (fun t => (t, l.taxes, lineW l))) ++
  d.discounts.map (fun x => (-(Spec.C01.docAdjQ (Spec.C01.exactQ d).sum x), x.taxes, 1 + sumW d.lines)) ++
  d.charges.map (fun x => (Spec.C01.docAdjQ (Spec.C01.exactQ d).sum x, x.taxes, 1 + sumW d.lines))

/-- a working row against an exact row: same combos, total within the row's weight -/
def RowRel (c : ℕ) (rw : Row) (er : ℚ × List Combo × ℕ) : Prop :=
  rw.taxes = er.2.1 ∧ |rw.total.toRat - er.1| ≤ (er.2.2 : ℚ) * halfUlp (c + 2)

theorem forall2_append {α β : Type} {R : α → β → Prop} {a1 a2 : List α} {b1 b2 : List β}
    (h1 : List.Forall₂ R a1 b1) (h2 : List.Forall₂ R a2 b2) : List.Forall₂ R (a1 ++ a2) (b1 ++ b2) := by
  induction h1 with
  | nil => exact h2
  | cons h _ ih => exact List.Forall₂.cons h ih

theorem lines_rowRel (cur : String) (c : ℕ) (rates : List XRate) (ls ls' : List Line)
    (h : List.Forall₂ (LineRel cur rates c) ls ls') :
    List.Forall₂ (RowRel c)
      (ls'.filterMap (fun l => l.total.map (fun t => ({ total := t, taxes := l.taxes } : Row))))
      (ls.filterMap (fun l => (Spec.C01.lineTotalQ cur rates l).map (fun t => (t, l.taxes, lineW l)))) := by
  induction h with
  | nil => exact List.Forall₂.nil
  | @cons l l' ls ls' hl _ ih =>
    obtain ⟨t, q, ht, htax, _, hq, herr⟩ := hl
    simp only [List.filterMap_cons, ht, hq, Option.map_some]
    exact List.Forall₂.cons ⟨htax, herr⟩ ih

theorem adj_rowRel (c : ℕ) (sum : Amount) (S : ℚ) (W : ℕ) (xs : List DocAdj) (f : Amount → Amount) (g : ℚ → ℚ)
    (hfg : ∀ a q, |(f a).toRat - g q| = |a.toRat - q|)
    (hx : ∀ x ∈ xs, DocAdjOk c x) (hs : c + 2 ≤ sum.exp)
    (hS : |sum.toRat - S| ≤ (W : ℚ) * halfUlp (c + 2)) :
    List.Forall₂ (RowRel c)
      ((xs.map (docAdj exactOps .precise c sum)).map (fun x => ({ total := f x.amount, taxes := x.taxes } : Row)))
      (xs.map (fun x => (g (Spec.C01.docAdjQ S x), x.taxes, 1 + W))) := by
  rw [List.map_map, List.forall₂_map_left_iff, List.forall₂_map_right_iff]
  apply List.forall₂_same.mpr
  intro x hxm
  refine ⟨docAdj_taxes _ _ _ _, ?_⟩
  simp only [Function.comp]
  rw [hfg]
  have := docAdj_err c sum S W x (hx x hxm) hs hS
  push_cast
  linarith

theorem rows_rel (d : Doc) (p : Pre) (hd : DocA d) (hpre : pre exactOps d = .ok p) :
    List.Forall₂ (RowRel d.c) p.rows (exactRowsW d) := by
  obtain ⟨hrel, _, hsexp, hS, hdis, hch, hrows, _, _⟩ := pre_spec d p hd hpre
  rw [hrows]
  unfold taxRows exactRowsW
  rw [hdis, hch]
  refine forall2_append (forall2_append (lines_rowRel _ _ _ _ _ hrel) ?_) ?_
  · exact adj_rowRel d.c p.sum _ (sumW d.lines) d.discounts neg (fun q => -q)
      (fun a q => by rw [neg_toRat]; rw [← abs_neg]; congr 1; ring) hd.discounts hsexp hS
  · exact adj_rowRel d.c p.sum _ (sumW d.lines) d.charges (fun a => a) (fun q => q)
      (fun a q => rfl) hd.charges hsexp hS

/-- the rows' errors carried into any quantity `F` that is `L`-Lipschitz in the row total, the
included tax taken out on both sides -/
theorem rows_err_g (F : ℚ → List Combo → ℚ) (L : List Combo → ℕ) (c : ℕ) (inc : Option String)
    (rows : List Row) (ers : List (ℚ × List Combo × ℕ))
    (hLip : ∀ taxes, (∀ cb ∈ taxes, ComboOk ret cb) → ∀ T t : ℚ, |F T taxes - F t taxes| ≤ (L taxes : ℚ) * |T - t|)
    (h : List.Forall₂ (RowRel c) rows ers)
    (hrem : ∀ rw ∈ rows, (∀ cb ∈ rw.taxes, ComboOk ret cb) ∧
      ∀ q, |(remRow c inc rw).total.toRat - remQ inc q rw.taxes| ≤
        |rw.total.toRat - q| + (incB inc rw.taxes : ℚ) * halfUlp (c + 2)) :
    |(rows.map (fun rw => F (remRow c inc rw).total.toRat rw.taxes)).sum
      - (ers.map (fun er => F (remQ inc er.1 er.2.1) er.2.1)).sum| ≤
      (((ers.map (fun er => (er.2.2 + incB inc er.2.1) * L er.2.1)).sum : ℕ) : ℚ) * halfUlp (c + 2) := by
  induction h with
  | nil => simp
  | @cons rw er rows ers hr _ ih =>
    obtain ⟨htax, herr⟩ := hr
    obtain ⟨hcb, hq⟩ := hrem rw (by simp)
    have ih' := ih (fun x hx => hrem x (by simp [hx]))
    simp only [List.map_cons, List.sum_cons]
    rw [← htax]
    have h1 := hLip rw.taxes hcb (remRow c inc rw).total.toRat (remQ inc er.1 rw.taxes)
    have h2 := hq er.1
    have hk : (0 : ℚ) ≤ (L rw.taxes : ℚ) := by positivity
    have h3 := mul_le_mul_of_nonneg_left (le_trans h2 (add_le_add herr (le_refl _))) hk
    set A := (rows.map (fun rw => F (remRow c inc rw).total.toRat rw.taxes)).sum
    set B := (ers.map (fun er => F (remQ inc er.1 er.2.1) er.2.1)).sum
    have e : F (remRow c inc rw).total.toRat rw.taxes + A - (F (remQ inc er.1 rw.taxes) rw.taxes + B) =
        (F (remRow c inc rw).total.toRat rw.taxes - F (remQ inc er.1 rw.taxes) rw.taxes) + (A - B) := by ring
    rw [e]
    refine le_trans (abs_add_le _ _) ?_
    push_cast
    push_cast at ih'
    nlinarith

theorem lines_weight (cur : String) (c : ℕ) (rates : List XRate) (ls ls' : List Line)
    (h : List.Forall₂ (LineRel cur rates c) ls ls') (g : List Combo → ℕ → ℕ) :
    ((ls.filterMap (fun l => (Spec.C01.lineTotalQ cur rates l).map (fun t => (t, l.taxes, lineW l)))).map
      (fun er => g er.2.1 er.2.2)).sum = (ls.map (fun l => g l.taxes (lineW l))).sum := by
  induction h with
  | nil => rfl
  | @cons l l' ls ls' hl _ ih =>
    obtain ⟨t, q, _, _, _, hq, _⟩ := hl
    simp only [List.filterMap_cons, hq, Option.map_some, List.map_cons, List.sum_cons, ih]

theorem ers_weight (L : List Combo → ℕ) (inc : Option String) (d : Doc) (ls' : List Line)
    (hrel : List.Forall₂ (LineRel d.cur d.rates d.c) d.lines ls') :
    ((exactRowsW d).map (fun er => (er.2.2 + incB inc er.2.1) * L er.2.1)).sum = rowsWL L inc d := by
  unfold exactRowsW rowsWL
  simp only [List.map_append, List.sum_append, List.map_map, Function.comp_def]
  rw [lines_weight d.cur d.c d.rates d.lines ls' hrel (fun taxes W => (W + incB inc taxes) * L taxes)]

/-! ## the exact side with an included category -/

/-- the included category's share of a row -/
def incG (inc : Option String) (t : ℚ) (taxes : List Combo) : ℚ :=
  match inc with
  | none => 0
  | some k => rowG selP k t taxes

theorem rowTaxQ_fst (inc : Option String) (q : ℚ) (taxes : List Combo) :
    (Spec.C01.rowTaxQ inc q taxes).1 = rowQ (remQ inc q taxes) taxes := by
  cases inc <;> rfl

theorem rowTaxQ_snd (inc : Option String) (q : ℚ) (taxes : List Combo) :
    (Spec.C01.rowTaxQ inc q taxes).2 = incG inc (remQ inc q taxes) taxes := by
  cases inc with
  | none => rfl
  | some k =>
    simp only [Spec.C01.rowTaxQ, incG, rowG, remQ]
    congr 1

theorem exactQ_tax_rows (d : Doc) :
    (Spec.C01.exactQ d).tax =
      ((exactRowsW d).map (fun er => rowQ (remQ d.includes er.1 er.2.1) er.2.1)).sum := by
  simp only [Spec.C01.exactQ, exactRowsW, List.map_append, List.sum_append, List.map_map, List.filterMap_map,
    List.map_filterMap, Function.comp_def, Option.map_map, rowTaxQ_fst]

theorem exactQ_inc_rows (d : Doc) :
    (Spec.C01.exactQ d).taxIncluded =
      ((exactRowsW d).map (fun er => incG d.includes (remQ d.includes er.1 er.2.1) er.2.1)).sum := by
  simp only [Spec.C01.exactQ, exactRowsW, List.map_append, List.sum_append, List.map_map, List.filterMap_map,
    List.map_filterMap, Function.comp_def, Option.map_map, rowTaxQ_snd]

theorem incG_diff (inc : Option String) (taxes : List Combo) (h : ∀ cb ∈ taxes, ComboOk ret cb) (T t : ℚ) :
    |incG inc T taxes - incG inc t taxes| ≤ (kN inc taxes : ℚ) * |T - t| := by
  cases inc with
  | none => simp [incG, kN]
  | some k =>
    simp only [incG, rowG, kN]
    refine list_sum_diff_le _ _ _ _ ?_
    intro cb hcb
    have hmem : cb ∈ taxes := (List.mem_filter.mp hcb).1
    unfold comboG
    cases hp : cb.percent with
    | none => simp
    | some p =>
      simp only
      have hle := (h cb hmem).2.1 p hp
      have e : T * p.amount.toRat - t * p.amount.toRat = (T - t) * p.amount.toRat := by ring
      rw [e, abs_mul]
      calc |T - t| * |p.amount.toRat| ≤ |T - t| * 1 := mul_le_mul_of_nonneg_left hle (abs_nonneg _)
        _ = |T - t| := mul_one _

/-! ## the tax and the included tax of a document -/

/-- the document class with an optional included category: `DocA`, combos of the class `ComboOk`,
the included category not retained and with percentages ≥ 0 -/
structure DocTI (ret : String → Bool) (d : Doc) : Prop where
  base : DocA d
  lineTaxes : ∀ l ∈ d.lines, ∀ cb ∈ l.taxes, ComboOk ret cb
  discTaxes : ∀ x ∈ d.discounts, ∀ cb ∈ x.taxes, ComboOk ret cb
  chTaxes : ∀ x ∈ d.charges, ∀ cb ∈ x.taxes, ComboOk ret cb
  incLines : ∀ l ∈ d.lines, IncPos ret d.includes l.taxes
  incDisc : ∀ x ∈ d.discounts, IncPos ret d.includes x.taxes
  incCh : ∀ x ∈ d.charges, IncPos ret d.includes x.taxes

theorem rows_ok (d : Doc) (p : Pre) (hd : DocTI ret d) (hpre : pre exactOps d = .ok p) :
    ∀ rw ∈ p.rows, RowOk ret p.sum.exp rw ∧ IncPos ret d.includes rw.taxes := by
  obtain ⟨hrel, hsum, hsexp, hS, hdis, hch, hrows, _, _⟩ := pre_spec d p hd.base hpre
  rw [hrows]
  intro rw hrw
  simp only [taxRows, List.mem_append, List.mem_filterMap, List.mem_map] at hrw
  rcases hrw with (⟨l', hl', hrw⟩ | ⟨x, hx, rfl⟩) | ⟨x, hx, rfl⟩
  · obtain ⟨l, hl, t, q, ht, htax, hte, _, _⟩ := rel_mem d.cur d.c d.rates _ _ hrel l' hl'
    rw [ht] at hrw
    simp only [Option.map_some, Option.some.injEq] at hrw
    subst hrw
    refine ⟨⟨by simp only [htax]; exact hd.lineTaxes l hl, ?_⟩, by simp only [htax]; exact hd.incLines l hl⟩
    rw [hsum]
    unfold lineSum
    exact foldl_accum_exp_ge_mem _ ⟨0, d.c⟩ t (List.mem_filterMap.mpr ⟨l', hl', ht⟩)
  · rw [hdis] at hx
    simp only [List.mem_map] at hx
    obtain ⟨x0, hx0, rfl⟩ := hx
    have he := (docAdj_ok d.c p.sum x0 (hd.base.discounts x0 hx0) hsexp 0).1
    exact ⟨⟨by simp only [docAdj_taxes]; exact hd.discTaxes x0 hx0, by simp only [neg_exp]; exact he⟩,
      by simp only [docAdj_taxes]; exact hd.incDisc x0 hx0⟩
  · rw [hch] at hx
    simp only [List.mem_map] at hx
    obtain ⟨x0, hx0, rfl⟩ := hx
    have he := (docAdj_ok d.c p.sum x0 (hd.base.charges x0 hx0) hsexp 0).1
    exact ⟨⟨by simp only [docAdj_taxes]; exact hd.chTaxes x0 hx0, he⟩,
      by simp only [docAdj_taxes]; exact hd.incCh x0 hx0⟩

theorem preciseAmount_ok (c : ℕ) (ct : CatTotal) (h : ct.amount = ct.precise.rescaleX c) :
    ct.preciseAmount.toRat = ct.precise.toRat ∧ ct.preciseAmount.exp ≤ max ct.precise.exp c := by
  unfold CatTotal.preciseAmount
  split
  · exact ⟨rfl, by omega⟩
  · rename_i hz
    have hz' : ct.precise.value = 0 := by simpa using hz
    rw [h]
    refine ⟨?_, by rw [rescaleX_exp]; omega⟩
    rw [rescaleX_zero _ c hz']
    unfold Amount.toRat; rw [hz']; simp

/-- **the working tax and the working included tax** of a document of the class `DocTI` -/
theorem doc_tax_inc (d : Doc) (p : Pre) (tx : TaxTotal) (hd : DocTI ret d) (hpre : pre exactOps d = .ok p)
    (htx : taxTotal exactOps d.rule d.c d.includes p.rows = .ok tx) :
    tx.precise.exp ≤ p.sum.exp ∧
    |tx.precise.toRat - (Spec.C01.exactQ d).tax| ≤ (taxWI d (groupsOf tx.cats) : ℚ) * halfUlp (d.c + 2) ∧
    (∀ x, taxIncluded d.includes tx = some x → x.exp ≤ p.sum.exp) ∧
    |optQ (taxIncluded d.includes tx) - (Spec.C01.exactQ d).taxIncluded| ≤
      (incWI d (incGroupsOf d.includes tx.cats) : ℚ) * halfUlp (d.c + 2) := by
  obtain ⟨hrel, _, hsexp, _, _, _, _, _, _⟩ := pre_spec d p hd.base hpre
  have hok := rows_ok d p hd hpre
  have hrr := rows_rel d p hd.base hpre
  have h0 := halfUlp_nonneg (d.c + 2)
  rw [hd.base.rule] at htx
  have hrem : ∀ rw ∈ p.rows, (remRow d.c d.includes rw).taxes = rw.taxes ∧ RowOkP ret d.c p.sum.exp (remRow d.c d.includes rw) ∧
      ∀ q, |(remRow d.c d.includes rw).total.toRat - remQ d.includes q rw.taxes| ≤
        |rw.total.toRat - q| + (incB d.includes rw.taxes : ℚ) * halfUlp (d.c + 2) :=
    fun rw hrw => remRow_ok d.c p.sum.exp d.includes rw (hok rw hrw).1 hsexp (hok rw hrw).2
  have hfix : ∀ rw ∈ p.rows, prepareRow d.c (remRow d.c d.includes rw) = remRow d.c d.includes rw :=
    fun rw hrw => prepareRow_fix d.c _ (hrem rw hrw).2.1.2.1
  have htx' := taxTotal_reduce d.c d.includes p.rows tx hfix htx
  have hrows' : ∀ rw ∈ p.rows.map (remRow d.c d.includes), RowOk ret p.sum.exp rw := by
    intro rw hrw
    simp only [List.mem_map] at hrw
    obtain ⟨x, hx, rfl⟩ := hrw
    exact ⟨(hrem x hx).2.1.1, (hrem x hx).2.1.2.2⟩
  have hsumF : ∀ F : ℚ → List Combo → ℚ,
      ((p.rows.map (remRow d.c d.includes)).map (fun rw => F rw.total.toRat rw.taxes)).sum =
      (p.rows.map (fun rw => F (remRow d.c d.includes rw).total.toRat rw.taxes)).sum := by
    intro F
    rw [List.map_map]
    congr 1
    apply List.map_congr_left
    intro x hx
    simp only [Function.comp, (hrem x hx).1]
  have hremG : ∀ rw ∈ p.rows, (∀ cb ∈ rw.taxes, ComboOk ret cb) ∧
      ∀ q, |(remRow d.c d.includes rw).total.toRat - remQ d.includes q rw.taxes| ≤
        |rw.total.toRat - q| + (incB d.includes rw.taxes : ℚ) * halfUlp (d.c + 2) :=
    fun rw hrw => ⟨(hok rw hrw).1.1, (hrem rw hrw).2.2⟩
  -- the tax
  obtain ⟨t1, t2⟩ := taxTotal_w d.c p.sum.exp _ tx hrows' hsexp htx'
  rw [hsumF rowQ] at t2
  have e1 := rows_err_g rowQ comboW d.c d.includes p.rows (exactRowsW d)
    (fun taxes h T t => rowQ_diff T t taxes h) hrr hremG
  rw [ers_weight comboW d.includes d p.lines hrel, ← exactQ_tax_rows] at e1
  refine ⟨t1, ?_, ?_⟩
  · set A := (p.rows.map (fun rw => rowQ (remRow d.c d.includes rw).total.toRat rw.taxes)).sum
    have e : tx.precise.toRat - (Spec.C01.exactQ d).tax = (tx.precise.toRat - A) + (A - (Spec.C01.exactQ d).tax) := by ring
    rw [e]
    refine le_trans (abs_add_le _ _) ?_
    unfold taxWI
    push_cast
    linarith
  -- the included tax
  · have e2 := rows_err_g (incG d.includes) (kN d.includes) d.c d.includes p.rows (exactRowsW d)
      (fun taxes h T t => incG_diff d.includes taxes h T t) hrr hremG
    rw [ers_weight (kN d.includes) d.includes d p.lines hrel, ← exactQ_inc_rows] at e2
    cases hinc : d.includes with
    | none =>
      refine ⟨fun x hx => by simp [taxIncluded] at hx, ?_⟩
      rw [exactQ_inc_none d hinc]
      simp only [taxIncluded, optQ, Option.map_none, Option.getD_none, sub_self, abs_zero]
      positivity
    | some k =>
      rw [hinc] at e2 htx' hsumF
      obtain ⟨c1, c2⟩ := taxTotal_cat d.c p.sum.exp _ tx (by rw [← hinc]; exact hrows') hsexp htx' k
      rw [hsumF (rowG selP k)] at c1 c2
      have hA : (p.rows.map (fun rw => incG (some k) (remRow d.c (some k) rw).total.toRat rw.taxes)).sum =
          (p.rows.map (fun rw => rowG selP k (remRow d.c (some k) rw).total.toRat rw.taxes)).sum := rfl
      rw [hA] at e2
      set A := (p.rows.map (fun rw => rowG selP k (remRow d.c (some k) rw).total.toRat rw.taxes)).sum
      cases hf : tx.cats.find? (fun ct => ct.code == k) with
      | none =>
        have hA0 := c1 hf
        refine ⟨fun x hx => by simp [taxIncluded, hf] at hx, ?_⟩
        simp only [taxIncluded, hf, optQ, Option.map_none, Option.getD_none]
        have e : (0 : ℚ) - (Spec.C01.exactQ d).taxIncluded = A - (Spec.C01.exactQ d).taxIncluded := by rw [hA0]
        rw [e]
        refine le_trans e2 ?_
        unfold incWI
        rw [hinc]
        push_cast
        nlinarith [Nat.cast_nonneg (α := ℚ) (incGroupsOf (some k) tx.cats)]
      | some ct =>
        obtain ⟨g1, g2, g3, _⟩ := c2 ct hf
        obtain ⟨q1, q2⟩ := preciseAmount_ok d.c ct g2
        refine ⟨fun x hx => ?_, ?_⟩
        · simp only [taxIncluded, hf, Option.map_some, Option.some.injEq] at hx
          subst hx
          omega
        · simp only [taxIncluded, hf, optQ, Option.map_some, Option.getD_some, q1]
          have e : ct.precise.toRat - (Spec.C01.exactQ d).taxIncluded =
              (ct.precise.toRat - A) + (A - (Spec.C01.exactQ d).taxIncluded) := by ring
          rw [e]
          refine le_trans (abs_add_le _ _) ?_
          have hG : incGroupsOf (some k) tx.cats = ct.rates.length := by simp [incGroupsOf, hf]
          unfold incWI
          rw [hinc, hG]
          push_cast
          linarith

/-! ## payable, advances, due from any working total with tax -/

theorem pay_chain (d : Doc) (twt : Amount) (W : ℕ) (htwe : d.c + 2 ≤ twt.exp)
    (hTW : |twt.toRat - (Spec.C01.exactQ d).totalWithTax| ≤ (W : ℚ) * halfUlp (d.c + 2))
    (hround : ∀ x, d.rounding = some x → x.exp ≤ d.c + 2) (hadv : ∀ a ∈ d.advances, AdvOk d.c a)
    (payable : Amount) (adv : Option Amount)
    (hpay : payable = (match d.rounding with | some x => add exactOps twt x | none => twt))
    (hadvT : adv = (if d.hasPayment then
        advanceTotal exactOps d.c (d.advances.map (calcAdvance exactOps d.c twt)) else none)) :
    |payable.toRat - (Spec.C01.exactQ d).payable| ≤ (W : ℚ) * halfUlp (d.c + 2) ∧
    |optQ adv - (Spec.C01.exactQ d).advances| ≤ ((d.advances.length * (1 + W) : ℕ) : ℚ) * halfUlp (d.c + 2) ∧
    (∀ y, adv.map (fun x => sub exactOps payable x) = some y →
      |y.toRat - (Spec.C01.exactQ d).due| ≤ ((W + d.advances.length * (1 + W) : ℕ) : ℚ) * halfUlp (d.c + 2)) := by
  have h0 := halfUlp_nonneg (d.c + 2)
  have hh : halfUlp twt.exp ≤ halfUlp (d.c + 2) := halfUlp_mono _ _ htwe
  have hPe : payable.exp = twt.exp ∧
      |payable.toRat - (Spec.C01.exactQ d).payable| ≤ (W : ℚ) * halfUlp (d.c + 2) := by
    rw [hpay, exactQ_payable]
    cases hr : d.rounding with
    | none => simp only [add_zero]; exact ⟨trivial, hTW⟩
    | some x =>
      simp only [add_exp]
      refine ⟨trivial, ?_⟩
      rw [add_toRat _ _ (by have := hround x hr; omega)]
      have e : twt.toRat + x.toRat - ((Spec.C01.exactQ d).totalWithTax + x.toRat) =
          twt.toRat - (Spec.C01.exactQ d).totalWithTax := by ring
      rw [e]; exact hTW
  have hAe : (∀ s, adv = some s → s.exp ≤ twt.exp) ∧
      |optQ adv - (Spec.C01.exactQ d).advances| ≤ ((d.advances.length * (1 + W) : ℕ) : ℚ) * halfUlp (d.c + 2) := by
    rw [hadvT, exactQ_advances]
    cases hp : d.hasPayment with
    | false =>
      simp only [Bool.false_eq_true, if_false]
      refine ⟨fun s hs => (by cases hs), ?_⟩
      simp only [optQ, Option.map_none, Option.getD_none, sub_self, abs_zero]
      positivity
    | true =>
      simp only [if_true]
      have hok : ∀ a ∈ d.advances.map (calcAdvance exactOps d.c twt), a.amount.exp ≤ twt.exp := by
        intro a ha
        simp only [List.mem_map] at ha
        obtain ⟨a0, ha0, rfl⟩ := ha
        exact (calcAdvance_ok d.c twt a0 (hadv a0 ha0) htwe 0).1
      obtain ⟨a1, a2⟩ := advanceTotal_w d.c twt.exp _ (by omega) hok
      refine ⟨a1, ?_⟩
      rw [a2, List.map_map]
      have hB : ∀ a ∈ d.advances, |((fun a => a.amount.toRat) ∘ calcAdvance exactOps d.c twt) a
          - advQ (Spec.C01.exactQ d).totalWithTax a| ≤ (1 + (W : ℚ)) * halfUlp (d.c + 2) := by
        intro a ha
        have := (calcAdvance_ok d.c twt a (hadv a ha) htwe (Spec.C01.exactQ d).totalWithTax).2
        simp only [Function.comp]
        linarith
      refine le_trans (list_sum_diff_le d.advances _ _ _ hB) (le_of_eq ?_)
      push_cast; ring
  refine ⟨hPe.2, hAe.2, ?_⟩
  intro y hy
  cases ha : adv with
  | none => rw [ha] at hy; cases hy
  | some s =>
    rw [ha] at hy
    simp only [Option.map_some, Option.some.injEq] at hy
    subst hy
    rw [sub_toRat _ _ (by rw [hPe.1]; exact hAe.1 s ha), exactQ_due]
    have h2 := hAe.2
    rw [ha] at h2
    simp only [optQ, Option.map_some, Option.getD_some] at h2
    have e : payable.toRat - s.toRat -
        ((Spec.C01.exactQ d).payable - (Spec.C01.exactQ d).advances) =
        (payable.toRat - (Spec.C01.exactQ d).payable) - (s.toRat - (Spec.C01.exactQ d).advances) := by ring
    rw [e]
    refine le_trans (abs_sub _ _) ?_
    have := hPe.2
    push_cast at h2 ⊢
    linarith

/-! ## all working totals of a document whose prices may include a tax category -/

/-- the document class of `calc_eq_spec_included` -/
structure DocCI (ret : String → Bool) (d : Doc) : Prop where
  tax : DocTI ret d
  rounding : ∀ x, d.rounding = some x → x.exp ≤ d.c + 2
  advances : ∀ a ∈ d.advances, AdvOk d.c a

theorem working_spec_inc (d : Doc) (p : Pre) (tx : TaxTotal) (hd : DocCI ret d) (hpre : pre exactOps d = .ok p)
    (htx : taxTotal exactOps d.rule d.c d.includes p.rows = .ok tx) :
    |(rawTotals exactOps d p tx).sum.toRat - (Spec.C01.exactQ d).sum| ≤
      (sumW d.lines : ℚ) * halfUlp (d.c + 2) ∧
    |optQ (rawTotals exactOps d p tx).discount - (Spec.C01.exactQ d).discount| ≤
      (adjW (sumW d.lines) d.discounts.length : ℚ) * halfUlp (d.c + 2) ∧
    |optQ (rawTotals exactOps d p tx).charge - (Spec.C01.exactQ d).charge| ≤
      (adjW (sumW d.lines) d.charges.length : ℚ) * halfUlp (d.c + 2) ∧
    |optQ (rawTotals exactOps d p tx).taxIncluded - (Spec.C01.exactQ d).taxIncluded| ≤
      (incWI d (incGroupsOf d.includes tx.cats) : ℚ) * halfUlp (d.c + 2) ∧
    |(rawTotals exactOps d p tx).total.toRat - (Spec.C01.exactQ d).total| ≤
      (totalWI d (incGroupsOf d.includes tx.cats) : ℚ) * halfUlp (d.c + 2) ∧
    |(rawTotals exactOps d p tx).tax.toRat - (Spec.C01.exactQ d).tax| ≤
      (taxWI d (groupsOf tx.cats) : ℚ) * halfUlp (d.c + 2) ∧
    |(rawTotals exactOps d p tx).totalWithTax.toRat - (Spec.C01.exactQ d).totalWithTax| ≤
      (twtWI d (groupsOf tx.cats) (incGroupsOf d.includes tx.cats) : ℚ) * halfUlp (d.c + 2) ∧
    |(rawTotals exactOps d p tx).payable.toRat - (Spec.C01.exactQ d).payable| ≤
      (twtWI d (groupsOf tx.cats) (incGroupsOf d.includes tx.cats) : ℚ) * halfUlp (d.c + 2) ∧
    |optQ (rawTotals exactOps d p tx).advances - (Spec.C01.exactQ d).advances| ≤
      (advWI d (groupsOf tx.cats) (incGroupsOf d.includes tx.cats) : ℚ) * halfUlp (d.c + 2) ∧
    (∀ y, (rawTotals exactOps d p tx).due = some y →
      |y.toRat - (Spec.C01.exactQ d).due| ≤
        (dueWI d (groupsOf tx.cats) (incGroupsOf d.includes tx.cats) : ℚ) * halfUlp (d.c + 2)) := by
  have hA := hd.tax.base
  obtain ⟨_, _, _, _, _, _, hds, hcs, _, _⟩ := pre_unpack d p hpre
  obtain ⟨hrel, hsum, hsexp, hS, hdis, hch, hrows, te, hb⟩ := pre_spec d p hA hpre
  obtain ⟨x1, x2, x3, x4⟩ := doc_tax_inc d p tx hd.tax hpre htx
  have h0 := halfUlp_nonneg (d.c + 2)
  set G := groupsOf tx.cats
  set Gk := incGroupsOf d.includes tx.cats
  -- discount and charge totals
  have hkd : (0 : ℚ) ≤ (d.discounts.length : ℚ) := by positivity
  have hkc : (0 : ℚ) ≤ (d.charges.length : ℚ) := by positivity
  have hdq := (adjSum_ok d.c p.sum d.discounts (Spec.C01.exactQ d).sum hA.discounts hsexp).2
  have hcq := (adjSum_ok d.c p.sum d.charges (Spec.C01.exactQ d).sum hA.charges hsexp).2
  rw [← hdis, ← hds] at hdq
  rw [← hch, ← hcs] at hcq
  have hrow : |p.sum.toRat - (Spec.C01.exactQ d).sum| + halfUlp (d.c + 2) ≤
      (1 + (sumW d.lines : ℚ)) * halfUlp (d.c + 2) := by linarith
  have hD : |optQ p.dsum - (Spec.C01.exactQ d).discount| ≤ (adjW (sumW d.lines) d.discounts.length : ℚ) * halfUlp (d.c + 2) := by
    rw [exactQ_discount]
    refine le_trans (le_trans hdq (mul_le_mul_of_nonneg_left hrow hkd)) (le_of_eq ?_)
    unfold adjW; push_cast; ring
  have hC : |optQ p.csum - (Spec.C01.exactQ d).charge| ≤ (adjW (sumW d.lines) d.charges.length : ℚ) * halfUlp (d.c + 2) := by
    rw [exactQ_charge]
    refine le_trans (le_trans hcq (mul_le_mul_of_nonneg_left hrow hkc)) (le_of_eq ?_)
    unfold adjW; push_cast; ring
  -- total = sum − discounts + charges − included tax
  have f5 : (rawTotals exactOps d p tx).total =
      (match taxIncluded d.includes tx with | some x => sub exactOps p.total2 x | none => p.total2) := rfl
  have hT3 : (rawTotals exactOps d p tx).total.exp = p.sum.exp ∧
      (rawTotals exactOps d p tx).total.toRat = p.total2.toRat - optQ (taxIncluded d.includes tx) := by
    rw [f5]
    cases hc : taxIncluded d.includes tx with
    | none => simp [optQ, te]
    | some x =>
      simp only [sub_exp, optQ, Option.map_some, Option.getD_some]
      exact ⟨te, sub_toRat _ _ (by rw [te]; exact x3 x hc)⟩
  have hT : |(rawTotals exactOps d p tx).total.toRat - (Spec.C01.exactQ d).total| ≤
      (totalWI d Gk : ℚ) * halfUlp (d.c + 2) := by
    rw [hT3.2, exactQ_total]
    have e : p.total2.toRat - optQ (taxIncluded d.includes tx) - ((Spec.C01.exactQ d).sum - (Spec.C01.exactQ d).discount
          + (Spec.C01.exactQ d).charge - (Spec.C01.exactQ d).taxIncluded) =
        (p.total2.toRat - ((Spec.C01.exactQ d).sum - (Spec.C01.exactQ d).discount + (Spec.C01.exactQ d).charge))
        - (optQ (taxIncluded d.includes tx) - (Spec.C01.exactQ d).taxIncluded) := by ring
    rw [e]
    refine le_trans (abs_sub _ _) ?_
    unfold totalWI; push_cast; linarith
  -- total with tax
  have f7 : (rawTotals exactOps d p tx).totalWithTax = add exactOps (rawTotals exactOps d p tx).total tx.precise := rfl
  have htwe : (rawTotals exactOps d p tx).totalWithTax.exp = p.sum.exp := by rw [f7, add_exp]; exact hT3.1
  have hTW : |(rawTotals exactOps d p tx).totalWithTax.toRat - (Spec.C01.exactQ d).totalWithTax| ≤
      (twtWI d G Gk : ℚ) * halfUlp (d.c + 2) := by
    rw [f7, add_toRat _ _ (by rw [hT3.1]; exact x1), exactQ_twt]
    have e : (rawTotals exactOps d p tx).total.toRat + tx.precise.toRat - ((Spec.C01.exactQ d).total + (Spec.C01.exactQ d).tax) =
        ((rawTotals exactOps d p tx).total.toRat - (Spec.C01.exactQ d).total) + (tx.precise.toRat - (Spec.C01.exactQ d).tax) := by ring
    rw [e]
    refine le_trans (abs_add_le _ _) ?_
    unfold twtWI; push_cast; linarith
  have hpc := pay_chain d (rawTotals exactOps d p tx).totalWithTax (twtWI d G Gk) (by rw [htwe]; exact hsexp) hTW
    hd.rounding hd.advances (rawTotals exactOps d p tx).payable (rawTotals exactOps d p tx).advances
    (by simp only [rawTotals]; cases d.rounding <;> rfl) rfl
  obtain ⟨p1, p2, p3⟩ := hpc
  refine ⟨hS, hD, hC, x4, hT, x2, hTW, p1, ?_, ?_⟩
  · unfold advWI; exact p2
  · intro y hy
    unfold dueWI advWI
    exact p3 y hy

theorem groupsT_round_inc (d : Doc) (p : Pre) (tx : TaxTotal) :
    incGroupsT d.includes (roundTotals exactOps d.c (rawTotals exactOps d p tx)) = incGroupsOf d.includes tx.cats := by
  unfold incGroupsT
  simp only [roundTotals, rawTotals]
  split
  · rename_i tx' h
    split at h
    · cases h
    · injection h with h; rw [h]
  · rename_i h
    split at h
    · rename_i he
      have : tx.cats = [] := by simpa using he
      rw [this]
      cases d.includes <;> rfl
    · cases h

/-! ## the decided class -/

theorem incPosB_sound (ret : String → Bool) (inc : Option String) (taxes : List Combo)
    (hret : ∀ k, inc = some k → ret k = false) (h : ∀ cb ∈ taxes, incPosB inc cb = true) : IncPos ret inc taxes := by
  intro k hk
  refine ⟨hret k hk, ?_⟩
  intro cb hcb hcat p hp
  have h1 := h cb hcb
  subst hk
  simp only [incPosB, hcat, BEq.rfl, Bool.not_true, Bool.false_or, hp] at h1
  have hv : 0 ≤ p.amount.value := of_decide_eq_true h1
  unfold Amount.toRat
  have := p10q_pos p.amount.exp
  have hv' : (0 : ℚ) ≤ (p.amount.value : ℚ) := by exact_mod_cast hv
  positivity

theorem inDocI_sound (d : Doc) (h : inDocI d = true) : DocCI (retOf d) d := by
  unfold inDocI at h
  simp only [Bool.and_eq_true, List.all_eq_true] at h
  obtain ⟨⟨⟨⟨⟨⟨⟨⟨h1, h2⟩, h3⟩, h4⟩, h5⟩, h6⟩, h7⟩, h10⟩, h11⟩ := h
  have hret : ∀ k, d.includes = some k → retOf d k = false := by
    intro k hk
    simp only [hk] at h6
    simpa using h6
  have hall : ∀ cb ∈ allCombos d, ComboOk (retOf d) cb ∧ incPosB d.includes cb = true :=
    fun cb hcb => ⟨comboOkB_sound _ cb (h7 cb hcb).1, (h7 cb hcb).2⟩
  have mL : ∀ l ∈ d.lines, ∀ cb ∈ l.taxes, cb ∈ allCombos d := by
    intro l hl cb hcb
    simp only [allCombos, List.mem_append, List.mem_flatMap]
    exact Or.inl (Or.inl ⟨l, hl, hcb⟩)
  have mD : ∀ x ∈ d.discounts, ∀ cb ∈ x.taxes, cb ∈ allCombos d := by
    intro x hx cb hcb
    simp only [allCombos, List.mem_append, List.mem_flatMap]
    exact Or.inl (Or.inr ⟨x, hx, hcb⟩)
  have mC : ∀ x ∈ d.charges, ∀ cb ∈ x.taxes, cb ∈ allCombos d := by
    intro x hx cb hcb
    simp only [allCombos, List.mem_append, List.mem_flatMap]
    exact Or.inr ⟨x, hx, hcb⟩
  refine ⟨⟨⟨by simpa using h1, ?_, fun l hl => adjLineB_sound d.c l (h3 l hl),
      fun x hx => docAdjOkB_sound d.c x (h4 x hx), fun x hx => docAdjOkB_sound d.c x (h5 x hx)⟩,
    fun l hl cb hcb => (hall cb (mL l hl cb hcb)).1,
    fun x hx cb hcb => (hall cb (mD x hx cb hcb)).1,
    fun x hx cb hcb => (hall cb (mC x hx cb hcb)).1,
    fun l hl => incPosB_sound _ _ _ hret (fun cb hcb => (hall cb (mL l hl cb hcb)).2),
    fun x hx => incPosB_sound _ _ _ hret (fun cb hcb => (hall cb (mD x hx cb hcb)).2),
    fun x hx => incPosB_sound _ _ _ hret (fun cb hcb => (hall cb (mC x hx cb hcb)).2)⟩, ?_,
    fun a ha => advOkB_sound d.c a (h11 a ha)⟩
  · intro hne; simp [hne] at h2
  · intro x hx
    simp only [hx] at h10
    exact of_decide_eq_true h10

theorem docWeightI_eq (d : Doc) (out : Out) (t : Totals) (hcalc : calculate exactOps d = .ok out)
    (ht : out.totals = some t) : docWeightI d = dueWI d (groupsT t) (incGroupsT d.includes t) := by
  unfold docWeightI
  rw [hcalc]
  simp only [ht]

/-! ## the category rows of the tax summary as presented figures -/

/-- the exact amount (`selP`) / surcharge (`selS`) of tax category `k`: Σ rows Σ combos of the
category, exact row total (included tax taken out) × percentage / surcharge percentage -/
def catExactQ (sel : ℚ → ℚ → ℚ) (d : Doc) (k : String) : ℚ :=
  ((exactRowsW d).map (fun er => rowG sel k (remQ d.includes er.1 er.2.1) er.2.1)).sum

theorem rowG_diff (sel : ℚ → ℚ → ℚ)
    (hsel : ∀ cb, ComboOk ret cb → ∀ p, cb.percent = some p → |sel p.amount.toRat (surC cb)| ≤ 1)
    (k : String) (taxes : List Combo) (h : ∀ cb ∈ taxes, ComboOk ret cb) (T t : ℚ) :
    |rowG sel k T taxes - rowG sel k t taxes| ≤ (kN (some k) taxes : ℚ) * |T - t| := by
  simp only [rowG, kN]
  refine list_sum_diff_le _ _ _ _ ?_
  intro cb hcb
  have hmem : cb ∈ taxes := (List.mem_filter.mp hcb).1
  unfold comboG
  cases hp : cb.percent with
  | none => simp
  | some p =>
    simp only
    have hle := hsel cb (h cb hmem) p hp
    have e : T * sel p.amount.toRat (surC cb) - t * sel p.amount.toRat (surC cb) =
        (T - t) * sel p.amount.toRat (surC cb) := by ring
    rw [e, abs_mul]
    calc |T - t| * |sel p.amount.toRat (surC cb)| ≤ |T - t| * 1 := mul_le_mul_of_nonneg_left hle (abs_nonneg _)
      _ = |T - t| := mul_one _

theorem selP_le (cb : Combo) (h : ComboOk ret cb) (p : Pct) (hp : cb.percent = some p) :
    |selP p.amount.toRat (surC cb)| ≤ 1 := h.2.1 p hp

theorem selS_le (cb : Combo) (h : ComboOk ret cb) (p : Pct) (_ : cb.percent = some p) :
    |selS p.amount.toRat (surC cb)| ≤ 1 := by
  have h1 := surC_le cb h
  have h2 : ((cW cb : ℕ) : ℚ) ≤ 2 := by
    unfold cW; split <;> norm_num
  show |surC cb| ≤ 1
  linarith

/-- the reduced rows of a document of the class: the summary is the plain summary of the reduced
rows, which are of the class, carry the same combos, and are within their weight (+ the division)
of the exact reduced rows -/
theorem doc_reduced (d : Doc) (p : Pre) (tx : TaxTotal) (hd : DocTI ret d) (hpre : pre exactOps d = .ok p)
    (htx : taxTotal exactOps d.rule d.c d.includes p.rows = .ok tx) :
    d.c + 2 ≤ p.sum.exp ∧
    taxTotal exactOps .precise d.c none (p.rows.map (remRow d.c d.includes)) = .ok tx ∧
    (∀ rw ∈ p.rows.map (remRow d.c d.includes), RowOk ret p.sum.exp rw) ∧
    (∀ F : ℚ → List Combo → ℚ,
      ((p.rows.map (remRow d.c d.includes)).map (fun rw => F rw.total.toRat rw.taxes)).sum =
      (p.rows.map (fun rw => F (remRow d.c d.includes rw).total.toRat rw.taxes)).sum) ∧
    (∀ rw ∈ p.rows, (∀ cb ∈ rw.taxes, ComboOk ret cb) ∧
      ∀ q, |(remRow d.c d.includes rw).total.toRat - remQ d.includes q rw.taxes| ≤
        |rw.total.toRat - q| + (incB d.includes rw.taxes : ℚ) * halfUlp (d.c + 2)) := by
  obtain ⟨hrel, _, hsexp, _, _, _, _, _, _⟩ := pre_spec d p hd.base hpre
  have hok := rows_ok d p hd hpre
  rw [hd.base.rule] at htx
  have hrem : ∀ rw ∈ p.rows, (remRow d.c d.includes rw).taxes = rw.taxes ∧ RowOkP ret d.c p.sum.exp (remRow d.c d.includes rw) ∧
      ∀ q, |(remRow d.c d.includes rw).total.toRat - remQ d.includes q rw.taxes| ≤
        |rw.total.toRat - q| + (incB d.includes rw.taxes : ℚ) * halfUlp (d.c + 2) :=
    fun rw hrw => remRow_ok d.c p.sum.exp d.includes rw (hok rw hrw).1 hsexp (hok rw hrw).2
  have hfix : ∀ rw ∈ p.rows, prepareRow d.c (remRow d.c d.includes rw) = remRow d.c d.includes rw :=
    fun rw hrw => prepareRow_fix d.c _ (hrem rw hrw).2.1.2.1
  refine ⟨hsexp, taxTotal_reduce d.c d.includes p.rows tx hfix htx, ?_, ?_, fun rw hrw => ⟨(hok rw hrw).1.1, (hrem rw hrw).2.2⟩⟩
  · intro rw hrw
    simp only [List.mem_map] at hrw
    obtain ⟨x, hx, rfl⟩ := hrw
    exact ⟨(hrem x hx).2.1.1, (hrem x hx).2.1.2.2⟩
  · intro F
    rw [List.map_map]
    congr 1
    apply List.map_congr_left
    intro x hx
    simp only [Function.comp, (hrem x hx).1]

/-- **the category rows** of a calculated document of the class `DocTI`: every category of the
presented tax summary shows (half-away rounding at currency precision of the working amount
`precise`) a working amount within `#rate groups + rowsWL kN` half-units of the exact amount of the
category, and its surcharge likewise of the exact surcharge -/
theorem cat_rows_shown (d : Doc) (out : Out) (t : Totals) (hd : DocTI ret d)
    (hcalc : calculate exactOps d = .ok out) (ht : out.totals = some t)
    (txp : TaxTotal) (htp : t.taxes = some txp) (k : String) (ct : CatTotal)
    (hf : txp.cats.find? (fun ct => ct.code == k) = some ct) :
    Spec.C01.presents d.c ct.amount ct.precise.toRat ∧
    |ct.precise.toRat - catExactQ selP d k| ≤
      ((ct.rates.length + rowsWL (kN (some k)) d.includes d : ℕ) : ℚ) * halfUlp (d.c + 2) ∧
    ∃ ws : Option Amount, ct.surcharge = ws.map (·.rescaleX d.c) ∧
      |optQ ws - catExactQ selS d k| ≤
        ((ct.rates.length + rowsWL (kN (some k)) d.includes d : ℕ) : ℚ) * halfUlp (d.c + 2) := by
  obtain ⟨p, tx, hpre, htx, _, htr⟩ := calculate_unpack d out t hcalc ht
  have htxp : txp = tx := by
    rw [htr] at htp
    simp only [roundTotals, rawTotals] at htp
    split at htp
    · cases htp
    · injection htp with htp; exact htp.symm
  subst htxp
  obtain ⟨hrel, _, _, _, _, _, _, _, _⟩ := pre_spec d p hd.base hpre
  obtain ⟨hsexp, htx', hrows', hsumF, hremG⟩ := doc_reduced d p txp hd hpre htx
  have hrr := rows_rel d p hd.base hpre
  obtain ⟨_, c2⟩ := taxTotal_cat d.c p.sum.exp _ txp hrows' hsexp htx' k
  obtain ⟨_, g2, g3, ws, g4, g5⟩ := c2 ct hf
  rw [hsumF (rowG selP k)] at g3
  rw [hsumF (rowG selS k)] at g5
  have eP := rows_err_g (rowG selP k) (kN (some k)) d.c d.includes p.rows (exactRowsW d)
    (fun taxes h T t => rowG_diff selP selP_le k taxes h T t) hrr hremG
  have eS := rows_err_g (rowG selS k) (kN (some k)) d.c d.includes p.rows (exactRowsW d)
    (fun taxes h T t => rowG_diff selS selS_le k taxes h T t) hrr hremG
  rw [ers_weight (kN (some k)) d.includes d p.lines hrel] at eP eS
  refine ⟨?_, ?_, ws, g4, ?_⟩
  · rw [g2]; exact presents_rescale d.c _
  · set A := (p.rows.map (fun rw => rowG selP k (remRow d.c d.includes rw).total.toRat rw.taxes)).sum
    have e : ct.precise.toRat - catExactQ selP d k = (ct.precise.toRat - A) + (A - catExactQ selP d k) := by ring
    rw [e]
    refine le_trans (abs_add_le _ _) ?_
    unfold catExactQ
    push_cast
    linarith
  · set A := (p.rows.map (fun rw => rowG selS k (remRow d.c d.includes rw).total.toRat rw.taxes)).sum
    have e : optQ ws - catExactQ selS d k = (optQ ws - A) + (A - catExactQ selS d k) := by ring
    rw [e]
    refine le_trans (abs_add_le _ _) ?_
    unfold catExactQ
    push_cast
    linarith

/-- the exact amount of the included category is `tax_included` of `Spec.C01.exactQ` -/
theorem catExactQ_included (d : Doc) (k : String) (h : d.includes = some k) :
    catExactQ selP d k = (Spec.C01.exactQ d).taxIncluded := by
  rw [exactQ_inc_rows]
  unfold catExactQ
  rw [h]
  rfl

end Err
end Calc
end GoblVerif
