/-
  Helper lemmas for C15: the accounting invariant of the bulk dispatcher and
  its preservation by every step.
-/
import GoblVerif.Model.Bulk

namespace GoblVerif.Bulk
open List

variable {α β : Type}

/-- the accounting invariant: every request is, exactly once, either still
    unread, or held by a running worker, or answered in the stream; the final
    marker exists only in the closed phase, after everything else -/
structure Inv (c : Cfg α β) (s : State α β) : Prop where
  count : s.next + s.pending.length = c.reqs.length
  pend : s.phase ≠ .reading → s.pending = []
  opn : s.phase ≠ .closed →
    (∀ r ∈ s.stream, r.isFinal = false) ∧
    (s.stream ++ s.running.map (respOf c) ++ expectedFrom c (s.next + 1) s.pending).Perm (expected c)
  cls : s.phase = .closed →
    s.running = [] ∧ s.sent = 0 ∧ s.pending = [] ∧
    ∃ body, s.stream = body ++ [finalResp c] ∧ body.Perm (expected c)

theorem expected_nonfinal (c : Cfg α β) : ∀ r ∈ expected c, r.isFinal = false := by
  intro r hr
  unfold expected expectedFrom at hr
  simp only [mem_map] at hr
  obtain ⟨w, _, rfl⟩ := hr
  rfl

theorem expectedFrom_nonfinal (c : Cfg α β) (k : Nat) (rs : List (Req α)) :
    ∀ r ∈ expectedFrom c k rs, r.isFinal = false := by
  intro r hr
  unfold expectedFrom at hr
  simp only [mem_map] at hr
  obtain ⟨w, _, rfl⟩ := hr
  rfl

theorem workersFrom_length (k : Nat) (rs : List (Req α)) : (workersFrom k rs).length = rs.length := by
  induction rs generalizing k with
  | nil => rfl
  | cons r rs ih => simp [workersFrom, ih]

theorem expected_length (c : Cfg α β) : (expected c).length = c.reqs.length := by
  simp [expected, expectedFrom, workersFrom_length]

theorem inv_init (c : Cfg α β) : Inv c (init c) where
  count := by simp [init]
  pend := by simp [init]
  opn := by
    intro _
    constructor
    · simp [init, State.stream]
    · simp [init, State.stream, expected]
  cls := by simp [init]

theorem perm_cons_eraseIdx {γ : Type} : ∀ (l : List γ) (k : Nat) (w : γ), l[k]? = some w →
    l.Perm (w :: l.eraseIdx k)
  | [], k, w, h => by simp at h
  | a :: l, 0, w, h => by
    simp at h; subst h; simp
  | a :: l, k + 1, w, h => by
    simp at h
    have ih := perm_cons_eraseIdx l k w h
    simp only [eraseIdx_cons_succ]
    exact (Perm.cons a ih).trans (Perm.swap w a _)

theorem inv_step (c : Cfg α β) (s s' : State α β) (l : Label)
    (h : step c s l = some s') (inv : Inv c s) : Inv c s' := by
  obtain ⟨hcount, hpend, hopn, hcls⟩ := inv
  cases l with
  | read =>
    simp only [step] at h
    split at h
    · rename_i hph hpd
      simp only [Option.some.injEq] at h; subst h
      have ho := hopn (by simp [hph])
      refine ⟨?_, ?_, ?_, ?_⟩
      · simp [hpd] at hcount ⊢; omega
      · simp [hph]
      · intro _
        refine ⟨ho.1, ?_⟩
        have := ho.2
        simp only [hpd, expectedFrom, workersFrom, map_cons] at this
        simpa [State.stream, expectedFrom, append_assoc] using this
      · simp [hph]
    · simp at h
  | stop =>
    simp only [step] at h
    split at h
    · rename_i hph hpd
      simp only [Option.some.injEq] at h; subst h
      have ho := hopn (by simp [hph])
      refine ⟨hcount, ?_, ?_, ?_⟩
      · intro _; exact hpd
      · intro _; exact ho
      · simp
    · simp at h
  | send k =>
    simp only [step] at h
    split at h
    · rename_i w hw
      split at h
      · simp only [Option.some.injEq] at h; subst h
        have hph : s.phase ≠ .closed := by
          intro hc
          have := (hcls hc).1
          simp [this] at hw
        have ho := hopn hph
        refine ⟨hcount, hpend, ?_, ?_⟩
        · intro _
          constructor
          · intro r hr
            simp only [State.stream, mem_append, mem_singleton] at hr
            rcases hr with hr | hr | hr
            · exact ho.1 r (by simp [State.stream, hr])
            · exact ho.1 r (by simp [State.stream, hr])
            · subst hr; rfl
          · refine Perm.trans ?_ ho.2
            have hp := (perm_cons_eraseIdx s.running k w hw).map (respOf c)
            simp only [map_cons] at hp
            -- stream ++ [x] ++ erased ++ E  ~  stream ++ running ++ E
            simp only [State.stream, append_assoc]
            refine Perm.append_left _ (Perm.append_left _ ?_)
            simp only [singleton_append]
            rw [← cons_append]
            exact Perm.append_right _ hp.symm
        · intro hc; exact absurd hc hph
      · simp at h
    · simp at h
  | done =>
    simp only [step] at h
    split at h
    · rename_i n hn
      simp only [Option.some.injEq] at h; subst h
      refine ⟨hcount, hpend, hopn, ?_⟩
      intro hc
      have := (hcls hc).2.1
      omega
    · simp at h
  | final =>
    simp only [step] at h
    split at h
    · rename_i hph hrun hsent
      split at h
      · simp only [Option.some.injEq] at h; subst h
        have ho := hopn (by simp [hph])
        have hpd := hpend (by simp [hph])
        refine ⟨hcount, ?_, ?_, ?_⟩
        · intro _; exact hpd
        · simp
        · intro _
          refine ⟨hrun, hsent, hpd, s.stream, ?_, ?_⟩
          · have : s.next = c.reqs.length := by simp [hpd] at hcount; exact hcount
            simp [State.stream, finalResp, this]
          · have := ho.2
            simpa [hrun, hpd, expectedFrom, workersFrom] using this
      · simp at h
    · simp at h
  | recv =>
    simp only [step] at h
    split at h
    · rename_i r rest hb
      simp only [Option.some.injEq] at h; subst h
      have hs : (s.out ++ [r]) ++ rest = s.stream := by simp [State.stream, hb]
      refine ⟨hcount, hpend, ?_, ?_⟩
      · intro hp
        have ho := hopn hp
        simp only [State.stream, hs]
        exact ho
      · intro hc
        have := hcls hc
        simp only [State.stream, hs]
        exact this
    · simp at h

theorem inv_exec (c : Cfg α β) : ∀ (sched : List Label) (s s' : State α β),
    exec c s sched = some s' → Inv c s → Inv c s'
  | [], s, s', h, inv => by simp [exec] at h; subst h; exact inv
  | l :: ls, s, s', h, inv => by
    simp only [exec] at h
    split at h
    · rename_i s1 hs1
      exact inv_exec c ls s1 s' h (inv_step c s s1 l hs1 inv)
    · simp at h

theorem inv_reachable (c : Cfg α β) (s : State α β) (h : Reachable c s) : Inv c s := by
  obtain ⟨sched, hs⟩ := h
  exact inv_exec c sched _ _ hs (inv_init c)

theorem exec_append (c : Cfg α β) : ∀ (a b : List Label) (s : State α β),
    exec c s (a ++ b) = (exec c s a).bind (fun s1 => exec c s1 b)
  | [], b, s => by simp [exec]
  | l :: a, b, s => by
    simp only [cons_append, exec]
    split
    · exact exec_append c a b _
    · simp

/-- every step lowers the measure by exactly one -/
theorem measure_step (c : Cfg α β) (s s' : State α β) (l : Label)
    (h : step c s l = some s') : s'.measure + 1 = s.measure := by
  cases l with
  | read =>
    simp only [step] at h
    split at h
    · rename_i hph hpd
      simp only [Option.some.injEq] at h; subst h
      simp [State.measure, hph, hpd]; omega
    · simp at h
  | stop =>
    simp only [step] at h
    split at h
    · rename_i hph hpd
      simp only [Option.some.injEq] at h; subst h
      simp [State.measure, hph, hpd]
    · simp at h
  | send k =>
    simp only [step] at h
    split at h
    · rename_i w hw
      split at h
      · simp only [Option.some.injEq] at h; subst h
        have hk : k < s.running.length := by
          rcases Nat.lt_or_ge k s.running.length with hk | hk
          · exact hk
          · simp [getElem?_eq_none hk] at hw
        simp [State.measure, length_eraseIdx, hk]; omega
      · simp at h
    · simp at h
  | done =>
    simp only [step] at h
    split at h
    · rename_i n hn
      simp only [Option.some.injEq] at h; subst h
      simp [State.measure, hn]; omega
    · simp at h
  | final =>
    simp only [step] at h
    split at h
    · rename_i hph hrun hsent
      split at h
      · simp only [Option.some.injEq] at h; subst h
        simp [State.measure, hph, hrun, hsent]; omega
      · simp at h
    · simp at h
  | recv =>
    simp only [step] at h
    split at h
    · rename_i r rest hb
      simp only [Option.some.injEq] at h; subst h
      simp [State.measure, hb]; omega
    · simp at h

theorem measure_exec (c : Cfg α β) : ∀ (sched : List Label) (s s' : State α β),
    exec c s sched = some s' → s'.measure + sched.length = s.measure
  | [], s, s', h => by simp [exec] at h; subst h; simp
  | l :: ls, s, s', h => by
    simp only [exec] at h
    split at h
    · rename_i s1 hs1
      have := measure_exec c ls s1 s' h
      have := measure_step c s s1 l hs1
      simp only [length_cons]; omega
    · simp at h

/-! ### construction of a schedule for an accepted trace -/

/-- reading all pending requests -/
theorem exec_reads (c : Cfg α β) : ∀ (ps : List (Req α)) (s : State α β),
    s.phase = .reading → s.pending = ps →
    exec c s (replicate ps.length Label.read) =
      some { s with pending := [], next := s.next + ps.length,
                    running := s.running ++ workersFrom (s.next + 1) ps }
  | [], s, hph, hpd => by
    cases s; simp_all [exec, workersFrom]
  | p :: ps, s, hph, hpd => by
    simp only [length_cons, replicate_succ, exec, step, hph, hpd]
    rw [exec_reads c ps _ rfl rfl]
    simp [workersFrom, Nat.add_assoc, Nat.add_comm 1]

/-- serving the responses `body` one after the other (send, recv, done) -/
theorem exec_serve [DecidableEq β] (c : Cfg α β) (hcap : 1 ≤ c.cap) : ∀ (body : List (Resp β)) (s : State α β),
    s.buf = [] → s.sent = 0 → body.Perm (s.running.map (respOf c)) →
    ∃ sched s', exec c s sched = some s' ∧ s'.running = [] ∧ s'.sent = 0 ∧ s'.buf = [] ∧
      s'.phase = s.phase ∧ s'.pending = s.pending ∧ s'.next = s.next ∧ s'.out = s.out ++ body
  | [], s, hb, hs, hp => by
    refine ⟨[], s, rfl, ?_, hs, hb, rfl, rfl, rfl, by simp⟩
    have := hp.length_eq
    simpa using this.symm
  | r :: body, s, hb, hs, hp => by
    have hmem : r ∈ s.running.map (respOf c) := hp.subset (by simp)
    obtain ⟨k, hk, hkr⟩ := getElem_of_mem hmem
    simp only [length_map] at hk
    have hw : s.running[k]? = some s.running[k] := getElem?_eq_getElem hk
    have hr : respOf c s.running[k] = r := by simpa using hkr
    -- the state after send k, recv, done
    let s1 : State α β := { s with running := s.running.eraseIdx k, out := s.out ++ [r] }
    have hstep : exec c s [Label.send k, Label.recv, Label.done] = some s1 := by
      have h0 : 0 < c.cap := by omega
      simp [exec, step, hw, hb, hs, hr, s1, h0]
    have hp1 : body.Perm (s1.running.map (respOf c)) := by
      have h1 := (perm_cons_eraseIdx s.running k _ hw).map (respOf c)
      simp only [map_cons, hr] at h1
      exact (hp.trans h1).cons_inv
    obtain ⟨sched, s', he, h1, h2, h3, h4, h5, h6, h7⟩ := exec_serve c hcap body s1 hb hs hp1
    refine ⟨[Label.send k, Label.recv, Label.done] ++ sched, s', ?_, h1, h2, h3, h4, h5, h6, ?_⟩
    · rw [exec_append, hstep]; exact he
    · simp [h7, s1]

end GoblVerif.Bulk
