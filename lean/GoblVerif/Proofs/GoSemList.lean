/-
  GoSemList (proofs): reasoning principles for the loops over LISTS that the
  go2lean translator emits (`for _, x := range xs { … }` with `return`,
  `break`, `continue` inside).  Nothing here is about a particular package.
  Companion of Proofs/GoSem.lean (condition-controlled loops).

  * `forIn_list_id`: a `for x in l` loop in `Id` is the structural recursion
    `forList` over the list, whose step is the body read as a plain function
    (`done` = break / return, `yield` = next element / continue).  After
    `simp only [forIn_list_id, pure_bind]` and `simp only [Id.run, id_pure]` a
    translated function contains no monadic code any more, and a loop invariant
    is an ordinary induction on the list.
  * `forList_any`: the search loop `for x in l { if p x { return r } }`.
  * `forList_flag`: the flag loop `m := false; for x in l { if p x { m = true; break } }`.
  * `forList_stateless`: any loop that either returns or goes on unchanged is
    `findSome?`; `any_findSome`, `all_findSome`, `any_not_eq_not_all` bring the
    result into the `any` / `all` form the hand models use.
  * `forList_fold`: a loop without exits is `foldl`.
  * `lookup_perm`: a Go map read through `List.lookup` does not depend on the
    order in which the association list (with distinct keys) lists its pairs.
-/
import GoblVerif.Proofs.GoSem

namespace GoblVerif.GoSem

/-- a loop over a list: `done` ends it (break / return), `yield` goes on -/
def forList {α β : Type} (f : α → β → ForInStep β) : List α → β → β
  | [], b => b
  | x :: xs, b => match f x b with
    | .done b' => b'
    | .yield b' => forList f xs b'

theorem forIn_list_id {α β : Type} (l : List α) (init : β) (f : α → β → Id (ForInStep β)) :
    forIn (m := Id) l init f = pure (forList (fun x s => (f x s).run) l init) := by
  induction l generalizing init with
  | nil => rfl
  | cons x xs ih =>
    rw [List.forIn_cons]
    simp only [forList]
    cases h : (f x init).run with
    | done b =>
      have : f x init = pure (ForInStep.done b) := h
      rw [this]; rfl
    | yield b =>
      have : f x init = pure (ForInStep.yield b) := h
      rw [this]; simp [ih]

/-- in `Id`, bind is application -/
theorem id_bind {α β : Type} (x : Id α) (f : α → Id β) : (x >>= f) = f x.run := rfl

/-- a loop that returns `r` at the first element satisfying `p` and otherwise changes nothing -/
theorem forList_any {α ρ : Type} (p : α → Prop) [DecidablePred p] (r : ρ) (l : List α) :
    forList (fun x (_ : Option ρ × Unit) =>
        if p x then ForInStep.done (some r, ()) else ForInStep.yield (none, ())) l (none, ())
      = (if l.any (fun x => decide (p x)) then some r else none, ()) := by
  induction l with
  | nil => rfl
  | cons a l ih =>
    simp only [forList, List.any_cons]
    by_cases h : p a
    · simp [h]
    · simp [h, ih]

/-- the flag loop `for x in l { if p x { m = true; break } }` on the flag `m` -/
theorem forList_flag {α : Type} (p : α → Prop) [DecidablePred p] (l : List α) (b : Bool) :
    forList (fun x (s : Bool) => if p x then ForInStep.done true else ForInStep.yield s) l b
      = (b || l.any (fun x => decide (p x))) := by
  induction l with
  | nil => simp [forList]
  | cons a l ih =>
    simp only [forList, List.any_cons]
    by_cases h : p a
    · simp [h]
    · simp [h, ih]

/-- a loop whose body never looks at the state: each element either ends the loop
    with a result (`return r`) or leaves everything as it was (`continue`, or
    falling off the end of the body).  `g` says which; the loop is `findSome?`. -/
theorem forList_stateless {α ρ : Type} (body : α → Option ρ × Unit → ForInStep (Option ρ × Unit))
    (g : α → Option ρ)
    (h : ∀ x s, body x s = match g x with
      | some r => ForInStep.done (some r, ())
      | none => ForInStep.yield (none, ()))
    (l : List α) :
    forList body l (none, ()) = (l.findSome? g, ()) := by
  induction l with
  | nil => rfl
  | cons a l ih =>
    simp only [forList, List.findSome?, h]
    cases g a with
    | some r => rfl
    | none => exact ih

/-- a loop that only updates its state is a left fold -/
theorem forList_fold {α β : Type} (g : β → α → β) (l : List α) (init : β) :
    forList (fun x s => ForInStep.yield (g s x)) l init = l.foldl g init := by
  induction l generalizing init with
  | nil => rfl
  | cons a l ih => simp only [forList, List.foldl_cons, ih]

/-- `for x in l { if p x { return true } }; return false` -/
theorem any_findSome {α : Type} (l : List α) (p : α → Bool) :
    (l.findSome? fun x => if p x = true then some true else none)
      = if l.any p = true then some true else none := by
  induction l with
  | nil => rfl
  | cons a l ih =>
    simp only [List.findSome?, List.any_cons]
    by_cases h : p a = true <;> simp [h, ih]

/-- `for x in l { if !p x { return false } }; return true` -/
theorem all_findSome {α : Type} (l : List α) (p : α → Bool) :
    (l.findSome? fun x => if p x = true then none else some false)
      = if l.all p = true then none else some false := by
  induction l with
  | nil => rfl
  | cons a l ih =>
    simp only [List.findSome?, List.all_cons]
    by_cases h : p a = true <;> simp [h, ih]

/-- "some element fails `q`" is "not all satisfy `q`" (`q'` = `q` in the model's spelling) -/
theorem any_not_eq_not_all {α : Type} (l : List α) (q q' : α → Bool) (hq : ∀ x, q x = q' x) :
    (l.any fun x => decide ¬ (q x = true)) = !(l.all q') := by
  induction l with
  | nil => rfl
  | cons a l ih =>
    simp only [List.any_cons, List.all_cons, ih]
    rw [hq]
    cases q' a <;> simp

/-- reading a map does not depend on the order of its association list -/
theorem lookup_perm {α β : Type} [BEq α] [LawfulBEq α] {l l' : List (α × β)} (hp : l.Perm l')
    (hn : (l.map Prod.fst).Nodup) (k : α) : l.lookup k = l'.lookup k := by
  induction hp with
  | nil => rfl
  | cons x _ ih =>
    obtain ⟨a, b⟩ := x
    simp only [List.map_cons, List.nodup_cons] at hn
    simp only [List.lookup, ih hn.2]
  | swap x y l =>
    obtain ⟨a, b⟩ := x
    obtain ⟨c, d⟩ := y
    simp only [List.map_cons, List.nodup_cons, List.mem_cons, not_or] at hn
    have hne : c ≠ a := hn.1.1
    simp only [List.lookup]
    by_cases h1 : (k == a) = true
    · have : (k == c) = false := by
        cases h2 : (k == c)
        · rfl
        · exact absurd ((beq_iff_eq.mp h2).symm.trans (beq_iff_eq.mp h1)) hne
      simp [h1, this]
    · have h1' : (k == a) = false := by simpa using h1
      simp [h1']
  | trans h1 _ ih1 ih2 =>
    rw [ih1 hn]
    exact ih2 (((h1.map Prod.fst).nodup_iff).mp hn)

end GoblVerif.GoSem
