/-
  GoSem (proofs): reasoning principles for the shapes the go2lean translator
  emits.  Nothing here is about a particular package.

  * a condition-controlled Go loop becomes `for _ in [0:fuel] do …` in `Id`;
    `forIn_range_fuel` turns that into the structural recursion `forFuel`, on
    which a loop invariant is an ordinary induction on the fuel;
  * `forFuel_countdown`: the invariant of every loop that counts a Nat down to
    zero and applies the same step each round (`for n != 0 { s = step s; n-- }`).
-/
namespace GoblVerif.GoSem

/-- in `Id`, `pure` is the identity (what `return` leaves behind after `simp [Id.run]`) -/
theorem id_pure {α : Type} (x : α) : (pure x : Id α) = x := rfl

/-- `fuel` rounds of a loop body `g` (`done` = break / return, `yield` = next round) -/
def forFuel {β : Type} (g : β → ForInStep β) : Nat → β → β
  | 0, b => b
  | n+1, b => match g b with
    | .done b' => b'
    | .yield b' => forFuel g n b'

theorem forIn_list_const {β α : Type} (g : β → ForInStep β) (l : List α) (init : β) :
    (forIn (m := Id) l init (fun _ s => pure (g s))) = pure (forFuel g l.length init) := by
  induction l generalizing init with
  | nil => rfl
  | cons x xs ih =>
    simp only [List.forIn_cons, List.length_cons, forFuel]
    cases h : g init with
    | done b => simp
    | yield b => simp [ih]

/-- a `for _ in [0:n]` loop whose body ignores the index is `forFuel` -/
theorem forIn_range_fuel {β : Type} (f : Nat → β → Id (ForInStep β)) (hf : ∀ i s, f i s = f 0 s)
    (n : Nat) (init : β) :
    (forIn [0:n] init f) = pure (forFuel (fun s => (f 0 s).run) n init) := by
  have h : f = fun _ s => pure ((fun s => (f 0 s).run) s) := by
    funext i s; rw [hf]; rfl
  rw [Std.Legacy.Range.forIn_eq_forIn_range']
  conv => lhs; rw [h]
  rw [forIn_list_const]
  simp [Std.Legacy.Range.size]

/-- `n` applications of `step`, first application innermost -/
def iter {σ : Type} (step : σ → σ) : Nat → σ → σ
  | 0, s => s
  | n + 1, s => iter step n (step s)

/-- count-down loops: the counter reaches zero exactly when the fuel does, and the
    accumulator has gone through `n` steps -/
theorem forFuel_countdown {σ : Type} (g : Nat × σ → ForInStep (Nat × σ)) (step : σ → σ)
    (h0 : ∀ s, g (0, s) = .done (0, s))
    (hs : ∀ k s, g (k + 1, s) = .yield (k, step s)) :
    ∀ n s, forFuel g n (n, s) = (0, iter step n s)
  | 0, s => rfl
  | n + 1, s => by
    simp only [forFuel, hs, iter]
    exact forFuel_countdown g step h0 hs n (step s)

/-- the accumulator of `for n != 0 { out *= base; n-- }` -/
theorem iter_mul_int (base : Int) (n : Nat) (s : Int) : iter (fun o => o * base) n s = s * base ^ n := by
  induction n generalizing s with
  | zero => simp [iter]
  | succ k ih => simp only [iter]; rw [ih, Int.pow_succ]; ac_rfl

end GoblVerif.GoSem
