/-
  RatesSrc (proofs): `(*Combo).prepareRate` as the go2lean translator reads it.

  The Go function writes to its receiver and to the receiver's extension map;
  the translation (Generated/RatesSrc.lean, `Combo_prepareRate`) returns the
  error key together with the final combo and builds the map with `mapSet`
  (insertion order).  `prepareRateM` is that reading written as one expression;
  Props/C12.lean proves the regenerated definition equal to it.  The model of
  Model/Rates.lean keeps extension maps sorted (`extSet`), so the two agree up
  to the order of the association list: `MapEq` (same lookups).  This file
  proves that nothing `RateDef.Value` looks at depends on that order, hence
  `prepareRateM_agrees`: same error, same percent and surcharge, the same
  extension MAP as `Rates.prepareRate` — for all arguments — and
  `prepareWith_order`: the same again whatever the order in which Go's `range`
  visits the rate's extension map.
-/
import GoblVerif.Model.Rates
import GoblVerif.Model.GoSemMap
import GoblVerif.Proofs.GoSemList

namespace GoblVerif.Proofs.RatesSrc
open GoblVerif.Rates GoblVerif.GoSem

/-! ## the translator's reading of `prepareRate` -/

/-- `for k, v := range other { em[k] = v }` -/
def mergeM (em other : Ext) : Ext := other.foldl (fun acc kv => mapSet acc kv.1 kv.2) em

/-- the copy of the rate's extensions onto a combo without a country override -/
def mergedExtM (c : Combo) (rate : RateDef) : Ext :=
  if c.country == "" && !rate.ext.isEmpty then mergeM c.ext rate.ext else c.ext

/-- the key of the `tax.Error` an error result wraps -/
def errKey : PrepErr → String
  | .invalidCategory => "invalid-category"
  | .invalidRate => "invalid-rate"
  | .invalidDate => "invalid-date"

/-- `prepareRate` once the rate definition has been found -/
def prepareWith (rate : RateDef) (c : Combo) (tags : List String) (date : Date) : Option String × Combo :=
  let c := { c with ext := mergedExtM c rate }
  if rate.exempt then (none, { c with percent := none, surcharge := none })
  else if rate.values.isEmpty then (none, c)
  else match value rate.values date tags c.ext with
    | none => (some "invalid-date", c)
    | some v => (none, { c with percent := some v.percent, surcharge := v.surcharge })

/-- `(*Combo).prepareRate`: the error key (none = nil) and the combo as the call leaves it -/
def prepareRateM (cat : CategoryDef) (c : Combo) (tags : List String) (date : Date) : Option String × Combo :=
  if c.rate == "" then (none, c) else
  match rateDef cat.rates c.rate with
  | none => (some "invalid-rate", c)
  | some rate => prepareWith rate c tags date

/-! ## two association lists that are the same map -/

/-- the same lookups: the same Go map -/
def MapEq (a b : Ext) : Prop := ∀ k, List.lookup k a = List.lookup k b

theorem MapEq.refl (a : Ext) : MapEq a a := fun _ => rfl

theorem lookup_cons_ite (k' k0 v0 : String) (m : Ext) :
    List.lookup k' ((k0, v0) :: m) = if k' = k0 then some v0 else List.lookup k' m := by
  simp only [List.lookup]
  by_cases h : k' = k0
  · subst h; simp
  · have : (k' == k0) = false := by simpa using h
    simp [this, h]

theorem lookup_mapSet (m : Ext) (k v k' : String) :
    List.lookup k' (mapSet m k v) = if k' = k then some v else List.lookup k' m := by
  induction m with
  | nil => simp only [mapSet, lookup_cons_ite, List.lookup]
  | cons a m ih =>
    obtain ⟨k0, v0⟩ := a
    simp only [mapSet]
    by_cases h0 : k0 = k
    · subst h0
      simp only [beq_self_eq_true, if_true, lookup_cons_ite]
      by_cases h : k' = k0 <;> simp [h]
    · have : (k0 == k) = false := by simpa using h0
      simp only [this, Bool.false_eq_true, if_false]
      rw [lookup_cons_ite, lookup_cons_ite, ih]
      by_cases h1 : k' = k0
      · subst h1; simp [h0]
      · simp [h1]

theorem lookup_extSet (m : Ext) (k v k' : String) :
    List.lookup k' (extSet m k v) = if k' = k then some v else List.lookup k' m := by
  induction m with
  | nil => simp only [extSet, lookup_cons_ite, List.lookup]
  | cons a m ih =>
    obtain ⟨k0, v0⟩ := a
    simp only [extSet]
    by_cases h0 : k0 = k
    · subst h0
      simp only [beq_self_eq_true, if_true, lookup_cons_ite]
      by_cases h : k' = k0 <;> simp [h]
    · have hb : (k0 == k) = false := by simpa using h0
      simp only [hb, Bool.false_eq_true, if_false]
      by_cases hlt : k < k0
      · simp only [hlt, if_true]
        rw [lookup_cons_ite]
      · simp only [hlt, if_false]
        rw [lookup_cons_ite, lookup_cons_ite, ih]
        by_cases h1 : k' = k0
        · subst h1; simp [h0]
        · simp [h1]

theorem MapEq.mapSet_extSet {a b : Ext} (h : MapEq a b) (k v : String) :
    MapEq (mapSet a k v) (extSet b k v) := by
  intro k'
  rw [lookup_mapSet, lookup_extSet, h k']

/-- the code's merge and the model's merge build the same map -/
theorem mergeM_mapEq (a b other : Ext) (h : MapEq a b) : MapEq (mergeM a other) (extMergeInto b other) := by
  unfold mergeM extMergeInto
  induction other generalizing a b with
  | nil => exact h
  | cons kv rest ih => exact ih _ _ (h.mapSet_extSet kv.1 kv.2)

theorem MapEq.isEmpty_eq {a b : Ext} (h : MapEq a b) : a.isEmpty = b.isEmpty := by
  cases a with
  | nil =>
    cases b with
    | nil => rfl
    | cons x b =>
      have := h x.1
      simp [List.lookup] at this
  | cons x a =>
    cases b with
    | nil =>
      have := h x.1
      simp [List.lookup] at this
    | cons y b => rfl

theorem extLookup_eq_lookup (em : Ext) (k : String) : extLookup em k = List.lookup k em := by
  induction em with
  | nil => rfl
  | cons a em ih =>
    obtain ⟨k', v⟩ := a
    simp only [extLookup, List.lookup]
    by_cases h : k' = k
    · subst h; simp
    · have h2 : (k == k') = false := by simp; exact fun e => h e.symm
      simp [h, h2, ih]

/-- `Extensions.Contains` reads its receiver as a map -/
theorem extContains_mapEq {a b : Ext} (h : MapEq a b) (other : Ext) : extContains a other = extContains b other := by
  unfold extContains
  rw [h.isEmpty_eq]
  congr 2
  funext kv
  rw [extLookup_eq_lookup, extLookup_eq_lookup, h kv.1]

/-- … and so does `RateDef.Value` -/
theorem value_mapEq {a b : Ext} (h : MapEq a b) (vals : List RateValue) (date : Date) (tags : List String) :
    value vals date tags a = value vals date tags b := by
  induction vals with
  | nil => rfl
  | cons rv rest ih => simp only [value, ih, extContains_mapEq h]

theorem mergedExtM_mapEq (c : Combo) (rate : RateDef) : MapEq (mergedExtM c rate) (mergedExt c rate) := by
  unfold mergedExtM mergedExt
  split
  · exact mergeM_mapEq _ _ _ (MapEq.refl _)
  · exact MapEq.refl _

/-- **the translator's reading agrees with the model**: the same error; on
    success the same category, country, rate key, percent and surcharge, and
    the same extension map -/
theorem prepareRateM_agrees (cat : CategoryDef) (c : Combo) (tags : List String) (date : Date) :
    match prepareRate cat c tags date with
    | .error e => (prepareRateM cat c tags date).1 = some (errKey e)
    | .ok c' =>
      (prepareRateM cat c tags date).1 = none ∧
      (prepareRateM cat c tags date).2.category = c'.category ∧
      (prepareRateM cat c tags date).2.country = c'.country ∧
      (prepareRateM cat c tags date).2.rate = c'.rate ∧
      (prepareRateM cat c tags date).2.percent = c'.percent ∧
      (prepareRateM cat c tags date).2.surcharge = c'.surcharge ∧
      MapEq (prepareRateM cat c tags date).2.ext c'.ext := by
  unfold prepareRate prepareRateM prepareWith
  by_cases hk : (c.rate == "") = true
  · simp only [hk, if_true]
    exact ⟨trivial, trivial, trivial, trivial, trivial, trivial, MapEq.refl _⟩
  · simp only [hk]
    cases hr : rateDef cat.rates c.rate with
    | none => rfl
    | some rate =>
      have hm := mergedExtM_mapEq c rate
      simp only [Bool.false_eq_true, if_false]
      by_cases hx : rate.exempt = true
      · simp only [hx, if_true]
        exact ⟨by trivial, by trivial, by trivial, by trivial, by trivial, by trivial, hm⟩
      · simp only [hx]
        by_cases hv : rate.values.isEmpty = true
        · simp only [hv, if_true, Bool.false_eq_true, if_false]
          exact ⟨by trivial, by trivial, by trivial, by trivial, by trivial, by trivial, hm⟩
        · simp only [hv, Bool.false_eq_true, if_false]
          rw [value_mapEq hm]
          cases value rate.values date tags (mergedExt c rate) with
          | none => rfl
          | some v => exact ⟨by trivial, by trivial, by trivial, by trivial, by trivial, by trivial, hm⟩

/-! ## the order in which `range rate.Ext` visits the rate's extensions -/

theorem lookup_mergeM (em other : Ext) (k : String) :
    List.lookup k (mergeM em other) = (List.lookup k other.reverse).or (List.lookup k em) := by
  unfold mergeM
  induction other generalizing em with
  | nil => simp
  | cons kv rest ih =>
    rw [List.foldl_cons, ih, lookup_mapSet, List.reverse_cons, List.lookup_append]
    cases List.lookup k rest.reverse with
    | some v => rfl
    | none =>
      obtain ⟨k0, v0⟩ := kv
      simp only [Option.none_or]
      rw [lookup_cons_ite]
      by_cases h : k = k0 <;> simp [h]

/-- the merge loop builds the same map whatever the order in which Go visits
    the rate's extensions (a Go map: distinct keys) -/
theorem mergeM_order (em other other' : Ext) (hp : other.Perm other') (hn : (other.map Prod.fst).Nodup) :
    MapEq (mergeM em other) (mergeM em other') := by
  intro k
  rw [lookup_mergeM, lookup_mergeM]
  have h1 : List.lookup k other.reverse = List.lookup k other :=
    GoSem.lookup_perm (List.reverse_perm other)
      (((List.reverse_perm other).map Prod.fst).nodup_iff.mpr hn) k
  have hn' : (other'.map Prod.fst).Nodup := ((hp.map Prod.fst).nodup_iff).mp hn
  have h2 : List.lookup k other'.reverse = List.lookup k other' :=
    GoSem.lookup_perm (List.reverse_perm other')
      (((List.reverse_perm other').map Prod.fst).nodup_iff.mpr hn') k
  rw [h1, h2, GoSem.lookup_perm hp hn k]

/-- hence the whole of `prepareRate` after the lookup: the same error, the same
    percent and surcharge, the same extension map -/
theorem prepareWith_order (rate : RateDef) (e' : Ext) (hp : rate.ext.Perm e') (hn : (rate.ext.map Prod.fst).Nodup)
    (c : Combo) (tags : List String) (date : Date) :
    (prepareWith { rate with ext := e' } c tags date).1 = (prepareWith rate c tags date).1 ∧
    (prepareWith { rate with ext := e' } c tags date).2.category = (prepareWith rate c tags date).2.category ∧
    (prepareWith { rate with ext := e' } c tags date).2.country = (prepareWith rate c tags date).2.country ∧
    (prepareWith { rate with ext := e' } c tags date).2.rate = (prepareWith rate c tags date).2.rate ∧
    (prepareWith { rate with ext := e' } c tags date).2.percent = (prepareWith rate c tags date).2.percent ∧
    (prepareWith { rate with ext := e' } c tags date).2.surcharge = (prepareWith rate c tags date).2.surcharge ∧
    MapEq (prepareWith { rate with ext := e' } c tags date).2.ext (prepareWith rate c tags date).2.ext := by
  have hm : MapEq (mergedExtM c { rate with ext := e' }) (mergedExtM c rate) := by
    unfold mergedExtM
    simp only
    rw [← hp.isEmpty_eq]
    split
    · intro k; exact (mergeM_order c.ext rate.ext e' hp hn k).symm
    · exact MapEq.refl _
  unfold prepareWith
  simp only
  generalize mergedExtM c { rate with ext := e' } = X at hm ⊢
  generalize mergedExtM c rate = Y at hm ⊢
  by_cases hx : rate.exempt = true
  · simp only [hx, if_true]
    exact ⟨by trivial, by trivial, by trivial, by trivial, by trivial, by trivial, hm⟩
  · simp only [hx]
    by_cases hv : rate.values.isEmpty = true
    · simp only [hv, if_true, Bool.false_eq_true, if_false]
      exact ⟨by trivial, by trivial, by trivial, by trivial, by trivial, by trivial, hm⟩
    · simp only [hv, Bool.false_eq_true, if_false]
      rw [value_mapEq hm]
      cases value rate.values date tags Y with
      | none => exact ⟨by trivial, by trivial, by trivial, by trivial, by trivial, by trivial, hm⟩
      | some v => exact ⟨by trivial, by trivial, by trivial, by trivial, by trivial, by trivial, hm⟩

end GoblVerif.Proofs.RatesSrc
