/-
  Helper lemmas for Props/C13.lean.
-/
import GoblVerif.Model.TaxId
import GoblVerif.Model.Normalize
import GoblVerif.Spec.C13
import Mathlib.Tactic.Ring

namespace GoblVerif.TaxId

theorem matchSeq_length : ∀ (ps : List (Char → Bool)) (s : Str), matchSeq ps s = true → s.length = ps.length
  | [], [], _ => rfl
  | [], _ :: _, h => by simp [matchSeq] at h
  | _ :: _, [], h => by simp [matchSeq] at h
  | p :: ps, c :: cs, h => by
    simp only [matchSeq, Bool.and_eq_true] at h
    simp [matchSeq_length ps cs h.2]

theorem matchSeq_false_of_length {ps : List (Char → Bool)} {s : Str} (h : s.length ≠ ps.length) :
    matchSeq ps s = false := by
  cases hm : matchSeq ps s with
  | false => rfl
  | true => exact absurd (matchSeq_length ps s hm) h

theorem char_eq_iff_toNat (c d : Char) : c = d ↔ c.toNat = d.toNat := Char.toNat_inj.symm

theorem digitChar_toNat (k : Nat) (h : k ≤ 9) : (digitChar k).toNat = 48 + k := by
  unfold digitChar
  have : (48 + k).isValidChar := by
    left; omega
  simp [Char.ofNat, this, Char.ofNatAux, Char.toNat]
  omega

theorem digitChar_mod10_toNat (x : Nat) : (digitChar (x % 10)).toNat = 48 + x % 10 :=
  digitChar_toNat _ (by omega)
theorem digitChar_mod97_div10_toNat (x : Nat) : (digitChar (x % 97 / 10)).toNat = 48 + x % 97 / 10 :=
  digitChar_toNat _ (by omega)

/-- closes arithmetic goals about digit variables: the same sums in two shapes, `if`s, `%` -/
macro "taxid_arith" : tactic => `(tactic| (ring_nf; (repeat' split) <;> omega))

theorem at_step (t x : Nat) : (if 9 < x then t + (x / 10 + x % 10) else t + x) = t + (x / 10 + x % 10) := by
  split <;> omega

theorem luhn_dbl (d : Nat) (h : d ≤ 9) : (if 9 < d * 2 then d * 2 - 9 else d * 2) = 2 * d / 10 + 2 * d % 10 := by
  split <;> omega

theorem atoi_single (c : Char) (h : isDig c = true) : atoi? [c] = some (dval c) := by
  simp [atoi?, allDig, h]

/-! ### strconv.Atoi on digit strings = positional value -/

theorem horner_eq (s : Str) (acc : Nat) :
    s.foldl (fun n c => n * 10 + dval c) acc = acc * 10 ^ s.length + Spec.TaxId.num (Spec.TaxId.digs s) := by
  induction s generalizing acc with
  | nil => simp [Spec.TaxId.num, Spec.TaxId.digs]
  | cons c cs ih =>
    simp only [List.foldl_cons, ih, Spec.TaxId.digs, List.map_cons, Spec.TaxId.num, List.length_cons, List.length_map]
    rw [Nat.pow_succ]; ring

theorem atoi?_eq (s : Str) (hne : s ≠ []) (hd : allDig s = true) :
    atoi? s = some (Spec.TaxId.num (Spec.TaxId.digs s)) := by
  unfold atoi?
  have : s.isEmpty = false := by cases s <;> simp_all
  simp [this, hd, horner_eq]

theorem atoi0_eq (s : Str) (hne : s ≠ []) (hd : allDig s = true) :
    atoi0 s = Spec.TaxId.num (Spec.TaxId.digs s) := by
  simp [atoi0, atoi?_eq s hne hd]

/-! ### DE: ISO 7064 MOD 11,10 -/

theorem de_step_range (p a : Nat) : 1 ≤ Spec.TaxId.DE.step p a ∧ Spec.TaxId.DE.step p a ≤ 10 := by
  have key : ∀ s, s < 10 → 1 ≤ 2 * (if (s == 0) = true then 10 else s) % 11 ∧ 2 * (if (s == 0) = true then 10 else s) % 11 ≤ 10 := by decide
  exact key ((p + a) % 10) (Nat.mod_lt _ (by omega))

theorem de_fold_range (l : List Nat) (p : Nat) (hp : 1 ≤ p ∧ p ≤ 10) :
    1 ≤ l.foldl Spec.TaxId.DE.step p ∧ l.foldl Spec.TaxId.DE.step p ≤ 10 := by
  induction l generalizing p with
  | nil => simpa using hp
  | cons a l ih => simpa using ih _ (de_step_range p a)

/-- the Go loop over the first `k` characters is the ISO 7064 recursion -/
theorem de_loop (k : Nat) (s : Str) (p : Nat) (hk : k ≤ s.length) (h : (s.take k).all isDig = true) :
    DE.loop k s p = some ((Spec.TaxId.digs (s.take k)).foldl Spec.TaxId.DE.step p) := by
  induction k generalizing s p with
  | zero => simp [DE.loop, Spec.TaxId.digs]
  | succ k ih =>
    match s, hk, h with
    | c :: cs, hk, h =>
      simp only [List.take_succ_cons, List.all_cons, Bool.and_eq_true] at h
      simp only [DE.loop, atoi_single c h.1]
      rw [ih cs _ (by simpa using hk) h.2]
      simp [Spec.TaxId.digs, Spec.TaxId.DE.step, Nat.add_comm]

/-! ### PT: the prefix table in its two shapes -/

theorem pt_prefix_eq (c0 c1 : Char) :
    (Spec.TaxId.PT.prefixes1.contains c0 || Spec.TaxId.PT.prefixes2.contains (c0, c1)) =
    (PT.validPrefixes.contains [c0] || PT.validPrefixes.contains [c0, c1]) := by
  rw [Bool.eq_iff_iff]
  simp [PT.validPrefixes, Spec.TaxId.PT.prefixes1, Spec.TaxId.PT.prefixes2]

/-! ### BR -/

theorem atoi_single_some (c : Char) (v : Nat) (h : atoi? [c] = some v) : isDig c = true := by
  cases hd : isDig c with
  | true => rfl
  | false => simp [atoi?, allDig, hd] at h

theorem br_sumLoop_digits (ws : List Nat) (s : Str) (acc r : Nat) (h : BR.sumLoop ws s acc = some r) :
    (s.take ws.length).all isDig = true := by
  induction ws generalizing s acc with
  | nil => simp
  | cons w ws ih =>
    match s, h with
    | [], h => simp [BR.sumLoop] at h
    | c :: cs, h =>
      simp only [BR.sumLoop] at h
      cases ha : atoi? [c] with
      | none => simp [ha] at h
      | some d =>
        simp only [ha] at h
        simp [atoi_single_some c d ha, ih cs _ h]

theorem br_verify_digits (s : Str) (ws : List Nat) (pos : Nat) (h : BR.verifyDigit s ws pos = true) :
    (s.take ws.length).all isDig = true ∧ isDig (s.getD pos ' ') = true := by
  unfold BR.verifyDigit at h
  cases hs : BR.sumLoop ws s 0 with
  | none => simp [hs] at h
  | some sum =>
    simp only [hs] at h
    cases ha : atoi? [s.getD pos ' '] with
    | none => simp [List.getD_eq_getElem?_getD] at ha; simp [ha] at h
    | some a => exact ⟨br_sumLoop_digits ws s 0 sum hs, atoi_single_some _ a ha⟩

/-! ### FR -/

theorem digitChar_mod97_mod10_toNat (x : Nat) : (digitChar (x % 97 % 10)).toNat = 48 + x % 97 % 10 :=
  digitChar_toNat _ (by omega)

/-! ### NL -/

theorem nl_mod11Loop (d0 d1 d2 d3 d4 d5 d6 d7 d8 : Nat)
    (h : d0 ≤ 9 ∧ d1 ≤ 9 ∧ d2 ≤ 9 ∧ d3 ≤ 9 ∧ d4 ≤ 9 ∧ d5 ≤ 9 ∧ d6 ≤ 9 ∧ d7 ≤ 9 ∧ d8 ≤ 9) :
    NL.mod11Loop 8 0 (Spec.TaxId.num [d0,d1,d2,d3,d4,d5,d6,d7,d8]) 0 = Spec.TaxId.dot [9, 8, 7, 6, 5, 4, 3, 2] [d0,d1,d2,d3,d4,d5,d6,d7,d8]
    ∧ Spec.TaxId.num [d0,d1,d2,d3,d4,d5,d6,d7,d8] % 10 = d8 := by
  simp [NL.mod11Loop, Spec.TaxId.num, Spec.TaxId.dot]
  omega

theorem nl_m97_small (c : Nat) (cs : List Nat) (r : Nat) (h : c ≤ 9) :
    NL.mod97Loop (c :: cs) r = NL.mod97Loop cs (r * 10 + c) := by
  simp only [NL.mod97Loop]; rw [if_neg (by omega)]
theorem nl_m97_big (c : Nat) (cs : List Nat) (r : Nat) (h : 9 < c) :
    NL.mod97Loop (c :: cs) r = NL.mod97Loop cs (r * 100 + c) := by
  simp only [NL.mod97Loop]; rw [if_pos h]; ring_nf

theorem nl_mod97Loop (d0 d1 d2 d3 d4 d5 d6 d7 d8 e0 e1 : Nat)
    (h : d0 ≤ 9 ∧ d1 ≤ 9 ∧ d2 ≤ 9 ∧ d3 ≤ 9 ∧ d4 ≤ 9 ∧ d5 ≤ 9 ∧ d6 ≤ 9 ∧ d7 ≤ 9 ∧ d8 ≤ 9 ∧ e0 ≤ 9 ∧ e1 ≤ 9) :
    NL.mod97Loop [23, 21, d0,d1,d2,d3,d4,d5,d6,d7,d8, 11, e0, e1] 0 =
      Spec.TaxId.num [2,3,2,1,d0,d1,d2,d3,d4,d5,d6,d7,d8,1,1,e0,e1] := by
  obtain ⟨h0,h1,h2,h3,h4,h5,h6,h7,h8,h9,h10⟩ := h
  rw [nl_m97_big _ _ _ (by omega), nl_m97_big _ _ _ (by omega), nl_m97_small _ _ _ h0, nl_m97_small _ _ _ h1,
    nl_m97_small _ _ _ h2, nl_m97_small _ _ _ h3, nl_m97_small _ _ _ h4, nl_m97_small _ _ _ h5, nl_m97_small _ _ _ h6,
    nl_m97_small _ _ _ h7, nl_m97_small _ _ _ h8, nl_m97_big _ _ _ (by omega), nl_m97_small _ _ _ h9, nl_m97_small _ _ _ h10]
  simp only [NL.mod97Loop, Spec.TaxId.num, List.length_cons, List.length_nil]
  omega

theorem len5 {α} (s : List α) (h : s.length = 5) : ∃ a b c d e, s = [a,b,c,d,e] := by
  match s, h with
  | [a,b,c,d,e], _ => exact ⟨a,b,c,d,e,rfl⟩
theorem len9 {α} (s : List α) (h : s.length = 9) : ∃ a b c d e f g h i, s = [a,b,c,d,e,f,g,h,i] := by
  match s, h with
  | [a,b,c,d,e,f,g,h,i], _ => exact ⟨a,b,c,d,e,f,g,h,i,rfl⟩
theorem len10 {α} (s : List α) (h : s.length = 10) : ∃ a b c d e f g h i j, s = [a,b,c,d,e,f,g,h,i,j] := by
  match s, h with
  | [a,b,c,d,e,f,g,h,i,j], _ => exact ⟨a,b,c,d,e,f,g,h,i,j,rfl⟩
theorem len11 {α} (s : List α) (h : s.length = 11) : ∃ a b c d e f g h i j k, s = [a,b,c,d,e,f,g,h,i,j,k] := by
  match s, h with
  | [a,b,c,d,e,f,g,h,i,j,k], _ => exact ⟨a,b,c,d,e,f,g,h,i,j,k,rfl⟩
theorem len12 {α} (s : List α) (h : s.length = 12) : ∃ a b c d e f g h i j k l, s = [a,b,c,d,e,f,g,h,i,j,k,l] := by
  match s, h with
  | [a,b,c,d,e,f,g,h,i,j,k,l], _ => exact ⟨a,b,c,d,e,f,g,h,i,j,k,l,rfl⟩
theorem len13 {α} (s : List α) (h : s.length = 13) : ∃ a b c d e f g h i j k l m, s = [a,b,c,d,e,f,g,h,i,j,k,l,m] := by
  match s, h with
  | [a,b,c,d,e,f,g,h,i,j,k,l,m], _ => exact ⟨a,b,c,d,e,f,g,h,i,j,k,l,m,rfl⟩
theorem len14 {α} (s : List α) (h : s.length = 14) : ∃ a b c d e f g h i j k l m n, s = [a,b,c,d,e,f,g,h,i,j,k,l,m,n] := by
  match s, h with
  | [a,b,c,d,e,f,g,h,i,j,k,l,m,n], _ => exact ⟨a,b,c,d,e,f,g,h,i,j,k,l,m,n,rfl⟩
theorem len15 {α} (s : List α) (h : s.length = 15) : ∃ a b c d e f g h i j k l m n o, s = [a,b,c,d,e,f,g,h,i,j,k,l,m,n,o] := by
  match s, h with
  | [a,b,c,d,e,f,g,h,i,j,k,l,m,n,o], _ => exact ⟨a,b,c,d,e,f,g,h,i,j,k,l,m,n,o,rfl⟩

end GoblVerif.TaxId
