/-
  Error bounds: one rounding step is at most half a unit of its precision, so
  a plain line is within half a unit of the working precision of the exact
  product, and the presented document sum of fewer than 100 such lines is
  less than one minor unit away from the exact sum.
-/
import GoblVerif.Proofs.NumX
import GoblVerif.Proofs.CalcBasics

namespace GoblVerif
open GoblVerif.Spec GoblVerif.Calc

theorem roundHalfAway_err (q : ℚ) : |((roundHalfAway q : ℤ) : ℚ) - q| ≤ 1 / 2 := by
  unfold roundHalfAway
  rw [abs_le]
  split
  · rw [ratfloor_eq]
    have h1 := Int.floor_le (q + 1 / 2)
    have h2 := Int.lt_floor_add_one (q + 1 / 2)
    constructor <;> linarith
  · rw [ratfloor_eq]
    have h1 := Int.floor_le (-q + 1 / 2)
    have h2 := Int.lt_floor_add_one (-q + 1 / 2)
    push_cast
    constructor <;> linarith

/-- the value `roundTo e q` read at `e` decimals is within half a unit of `q` -/
theorem roundTo_err (e : ℕ) (q : ℚ) :
    |((roundTo e q : ℤ) : ℚ) / ((pow10 e : ℤ) : ℚ) - q| ≤ 1 / (2 * ((pow10 e : ℤ) : ℚ)) := by
  have hp := p10q_pos e
  have h := roundHalfAway_err (q * ((pow10 e : ℤ) : ℚ))
  unfold roundTo
  have : ((roundHalfAway (q * ((pow10 e : ℤ) : ℚ)) : ℤ) : ℚ) / ((pow10 e : ℤ) : ℚ) - q =
      (((roundHalfAway (q * ((pow10 e : ℤ) : ℚ)) : ℤ) : ℚ) - q * ((pow10 e : ℤ) : ℚ)) / ((pow10 e : ℤ) : ℚ) := by
    field_simp
  rw [this, abs_div, abs_of_pos hp, div_le_iff₀ hp]
  calc _ ≤ (1 : ℚ) / 2 := h
    _ = 1 / (2 * ((pow10 e : ℤ) : ℚ)) * ((pow10 e : ℤ) : ℚ) := by field_simp

/-- half a unit of the `e`-th decimal -/
def halfUlp (e : ℕ) : ℚ := 1 / (2 * ((pow10 e : ℤ) : ℚ))

theorem halfUlp_mono (e e' : ℕ) (h : e ≤ e') : halfUlp e' ≤ halfUlp e := by
  unfold halfUlp
  have h1 := p10q_pos e
  have h2 := p10q_pos e'
  have : ((pow10 e : ℤ) : ℚ) ≤ ((pow10 e' : ℤ) : ℚ) := by
    have : pow10 e ≤ pow10 e' := by
      unfold pow10
      exact_mod_cast Nat.pow_le_pow_right (by norm_num) h
    exact_mod_cast this
  apply one_div_le_one_div_of_le (by positivity)
  linarith

theorem mulX_err (a b : Amount) : |(a.mulX b).toRat - a.toRat * b.toRat| ≤ halfUlp a.exp := by
  have h := roundTo_err a.exp (a.toRat * b.toRat)
  have hv := mulX_spec a b
  show |((a.mulX b).value : ℚ) / ((pow10 (a.mulX b).exp : ℤ) : ℚ) - a.toRat * b.toRat| ≤ _
  rw [mulX_exp, hv]
  exact h

theorem rescaleX_err (a : Amount) (e : ℕ) : |(a.rescaleX e).toRat - a.toRat| ≤ halfUlp e := by
  have h := roundTo_err e a.toRat
  have hv := rescaleX_value a e
  have he := rescaleX_exp a e
  show |((a.rescaleX e).value : ℚ) / ((pow10 (a.rescaleX e).exp : ℤ) : ℚ) - a.toRat| ≤ _
  rw [he, hv]
  exact h

namespace Calc

/-- a line priced in the document currency without breakdown, discounts or charges -/
def SimpleLine (l : Line) : Prop :=
  ∃ it p, l.item = some it ∧ it.cur = "" ∧ it.price = some p ∧ l.breakdown = [] ∧ l.discounts = [] ∧ l.charges = []

/-- price × quantity in exact arithmetic -/
def lineExact (l : Line) : ℚ :=
  match l.item with
  | some it => match it.price with
    | some p => p.toRat * l.qty.toRat
    | none => 0
  | none => 0

theorem simpleLine_total (cur : String) (c : ℕ) (rates : List XRate) (l l' : Line) (hs : SimpleLine l)
    (h : calcLine exactOps cur c rates .precise l = .ok l') :
    ∃ t, l'.total = some t ∧ |t.toRat - lineExact l| ≤ halfUlp (c + 2) := by
  obtain ⟨it, p, hit, hcur, hp, hbd, hd, hc⟩ := hs
  unfold calcLine at h
  simp only [hit, hbd, calcSubLines, List.isEmpty_nil, Bool.true_or, if_true, hp] at h
  unfold itemPrice at h
  simp only [hcur, BEq.rfl, Bool.true_or, if_true] at h
  simp only [show (Rule.precise == Rule.precise) = true from rfl, if_true, Option.getD_some, hd, hc,
    lineDiscounts, lineCharges] at h
  injection h with h
  subst h
  refine ⟨_, rfl, ?_⟩
  simp only [applyRule, lineExact, hit, hp]
  have hexp : c ≤ (exactOps.mul (up (up p it.sub) (c + E)) l.qty).exp := by
    simp only [exact_mul, mulX_exp, up_exp, E]; omega
  rw [up_self _ _ hexp, exact_mul]
  have h1 := mulX_err (up (up p it.sub) (c + E)) l.qty
  rw [up_toRat, up_toRat] at h1
  refine le_trans h1 (halfUlp_mono _ _ ?_)
  simp only [up_exp, E]; omega

theorem simpleLines_sum (cur : String) (c : ℕ) (rates : List XRate) (ls ls' : List Line)
    (hs : ∀ l ∈ ls, SimpleLine l) (h : calcLines exactOps cur c rates .precise ls = .ok ls') :
    |((ls'.filterMap (·.total)).map Amount.toRat).sum - (ls.map lineExact).sum| ≤ ls.length * halfUlp (c + 2) := by
  induction ls generalizing ls' with
  | nil =>
    simp only [calcLines] at h
    injection h with h
    subst h
    simp
  | cons l ls ih =>
    simp only [calcLines] at h
    cases h1 : calcLine exactOps cur c rates .precise l with
    | error e => simp [h1] at h
    | ok l' =>
      cases h2 : calcLines exactOps cur c rates .precise ls with
      | error e => simp [h1, h2] at h
      | ok ls'' =>
        simp only [h1, h2] at h
        injection h with h
        subst h
        obtain ⟨t, ht, hte⟩ := simpleLine_total cur c rates l l' (hs l (by simp)) h1
        have ih' := ih ls'' (fun x hx => hs x (by simp [hx])) h2
        simp only [List.filterMap_cons, ht, List.map_cons, List.sum_cons, List.length_cons]
        have : t.toRat + ((ls''.filterMap (·.total)).map Amount.toRat).sum - (lineExact l + (ls.map lineExact).sum) =
            (t.toRat - lineExact l) + (((ls''.filterMap (·.total)).map Amount.toRat).sum - (ls.map lineExact).sum) := by ring
        rw [this]
        refine le_trans (abs_add_le _ _) ?_
        push_cast
        linarith

end Calc
end GoblVerif
