/-
  Error bounds: one rounding step is at most half a unit of its precision, so
  a plain line is within half a unit of the working precision of the exact
  product, and the presented document sum of fewer than 100 such lines is
  less than one minor unit away from the exact sum.
-/
import GoblVerif.Proofs.NumX
import GoblVerif.Proofs.CalcBasics

namespace GoblVerif
open GoblVerif.Spec GoblVerif.Calc

theorem roundHalfAway_err (q : ℚ) : |((roundHalfAway q : ℤ) : ℚ) - q| ≤ 1 / 2 := by
  unfold roundHalfAway
  rw [abs_le]
  split
  · rw [ratfloor_eq]
    have h1 := Int.floor_le (q + 1 / 2)
    have h2 := Int.lt_floor_add_one (q + 1 / 2)
    constructor <;> linarith
  · rw [ratfloor_eq]
    have h1 := Int.floor_le (-q + 1 / 2)
    have h2 := Int.lt_floor_add_one (-q + 1 / 2)
    push_cast
    constructor <;> linarith

/-- the value `roundTo e q` read at `e` decimals is within half a unit of `q` -/
theorem roundTo_err (e : ℕ) (q : ℚ) :
    |((roundTo e q : ℤ) : ℚ) / ((pow10 e : ℤ) : ℚ) - q| ≤ 1 / (2 * ((pow10 e : ℤ) : ℚ)) := by
  have hp := p10q_pos e
  have h := roundHalfAway_err (q * ((pow10 e : ℤ) : ℚ))
  unfold roundTo
  have : ((roundHalfAway (q * ((pow10 e : ℤ) : ℚ)) : ℤ) : ℚ) / ((pow10 e : ℤ) : ℚ) - q =
      (((roundHalfAway (q * ((pow10 e : ℤ) : ℚ)) : ℤ) : ℚ) - q * ((pow10 e : ℤ) : ℚ)) / ((pow10 e : ℤ) : ℚ) := by
    field_simp
  rw [this, abs_div, abs_of_pos hp, div_le_iff₀ hp]
  calc _ ≤ (1 : ℚ) / 2 := h
    _ = 1 / (2 * ((pow10 e : ℤ) : ℚ)) * ((pow10 e : ℤ) : ℚ) := by field_simp

/-- half a unit of the `e`-th decimal -/
def halfUlp (e : ℕ) : ℚ := 1 / (2 * ((pow10 e : ℤ) : ℚ))

theorem halfUlp_mono (e e' : ℕ) (h : e ≤ e') : halfUlp e' ≤ halfUlp e := by
  unfold halfUlp
  have h1 := p10q_pos e
  have h2 := p10q_pos e'
  have : ((pow10 e : ℤ) : ℚ) ≤ ((pow10 e' : ℤ) : ℚ) := by
    have : pow10 e ≤ pow10 e' := by
      unfold pow10
      exact_mod_cast Nat.pow_le_pow_right (by norm_num) h
    exact_mod_cast this
  apply one_div_le_one_div_of_le (by positivity)
  linarith

theorem mulX_err (a b : Amount) : |(a.mulX b).toRat - a.toRat * b.toRat| ≤ halfUlp a.exp := by
  have h := roundTo_err a.exp (a.toRat * b.toRat)
  have hv := mulX_spec a b
  show |((a.mulX b).value : ℚ) / ((pow10 (a.mulX b).exp : ℤ) : ℚ) - a.toRat * b.toRat| ≤ _
  rw [mulX_exp, hv]
  exact h

theorem rescaleX_err (a : Amount) (e : ℕ) : |(a.rescaleX e).toRat - a.toRat| ≤ halfUlp e := by
  have h := roundTo_err e a.toRat
  have hv := rescaleX_value a e
  have he := rescaleX_exp a e
  show |((a.rescaleX e).value : ℚ) / ((pow10 (a.rescaleX e).exp : ℤ) : ℚ) - a.toRat| ≤ _
  rw [he, hv]
  exact h

namespace Calc

/-- a line priced in the document currency without breakdown, discounts or charges -/
def SimpleLine (l : Line) : Prop :=
  ∃ it p, l.item = some it ∧ it.cur = "" ∧ it.price = some p ∧ l.breakdown = [] ∧ l.discounts = [] ∧ l.charges = []

/-- price × quantity in exact arithmetic -/
def lineExact (l : Line) : ℚ :=
  match l.item with
  | some it => match it.price with
    | some p => p.toRat * l.qty.toRat
    | none => 0
  | none => 0

theorem simpleLine_total (cur : String) (c : ℕ) (rates : List XRate) (l l' : Line) (hs : SimpleLine l)
    (h : calcLine exactOps cur c rates .precise l = .ok l') :
    ∃ t, l'.total = some t ∧ |t.toRat - lineExact l| ≤ halfUlp (c + 2) := by
  obtain ⟨it, p, hit, hcur, hp, hbd, hd, hc⟩ := hs
  unfold calcLine at h
  simp only [hit, hbd, calcSubLines, List.isEmpty_nil, Bool.true_or, if_true, hp] at h
  unfold itemPrice at h
  simp only [hcur, BEq.rfl, Bool.true_or, if_true] at h
  simp only [show (Rule.precise == Rule.precise) = true from rfl, if_true, Option.getD_some, hd, hc,
    lineDiscounts, lineCharges] at h
  injection h with h
  subst h
  refine ⟨_, rfl, ?_⟩
  simp only [applyRule, lineExact, hit, hp]
  have hexp : c ≤ (exactOps.mul (up (up p it.sub) (c + E)) l.qty).exp := by
    simp only [exact_mul, mulX_exp, up_exp, E]; omega
  rw [up_self _ _ hexp, exact_mul]
  have h1 := mulX_err (up (up p it.sub) (c + E)) l.qty
  rw [up_toRat, up_toRat] at h1
  refine le_trans h1 (halfUlp_mono _ _ ?_)
  simp only [up_exp, E]; omega

theorem simpleLines_sum (cur : String) (c : ℕ) (rates : List XRate) (ls ls' : List Line)
    (hs : ∀ l ∈ ls, SimpleLine l) (h : calcLines exactOps cur c rates .precise ls = .ok ls') :
    |((ls'.filterMap (·.total)).map Amount.toRat).sum - (ls.map lineExact).sum| ≤ ls.length * halfUlp (c + 2) := by
  induction ls generalizing ls' with
  | nil =>
    simp only [calcLines] at h
    injection h with h
    subst h
    simp
  | cons l ls ih =>
    simp only [calcLines] at h
    cases h1 : calcLine exactOps cur c rates .precise l with
    | error e => simp [h1] at h
    | ok l' =>
      cases h2 : calcLines exactOps cur c rates .precise ls with
      | error e => simp [h1, h2] at h
      | ok ls'' =>
        simp only [h1, h2] at h
        injection h with h
        subst h
        obtain ⟨t, ht, hte⟩ := simpleLine_total cur c rates l l' (hs l (by simp)) h1
        have ih' := ih ls'' (fun x hx => hs x (by simp [hx])) h2
        simp only [List.filterMap_cons, ht, List.map_cons, List.sum_cons, List.length_cons]
        have : t.toRat + ((ls''.filterMap (·.total)).map Amount.toRat).sum - (lineExact l + (ls.map lineExact).sum) =
            (t.toRat - lineExact l) + (((ls''.filterMap (·.total)).map Amount.toRat).sum - (ls.map lineExact).sum) := by ring
        rw [this]
        refine le_trans (abs_add_le _ _) ?_
        push_cast
        linarith

end Calc
end GoblVerif

namespace GoblVerif
open GoblVerif.Spec GoblVerif.Calc
namespace Calc

/-! ### document discounts and charges given as percentages -/

/-- a document discount/charge that is a percentage of the document sum, at most 100 % in magnitude -/
def PctOnly (x : DocAdj) : Prop :=
  ∃ p, x.percent = some p ∧ pctIsZero p = false ∧ x.base = none ∧ |p.amount.toRat| ≤ 1

/-- its percentage as a rational -/
def pctQ (x : DocAdj) : ℚ :=
  match x.percent with
  | some p => p.amount.toRat
  | none => 0

theorem docAdj_pct (c : ℕ) (sum : Amount) (x : DocAdj) (hx : PctOnly x) (hs : c ≤ sum.exp) :
    (docAdj exactOps .precise c sum x).amount.exp = sum.exp ∧
    |(docAdj exactOps .precise c sum x).amount.toRat - sum.toRat * pctQ x| ≤ halfUlp sum.exp := by
  obtain ⟨p, hp, hz, hb, _⟩ := hx
  have hval : (docAdj exactOps .precise c sum x).amount = sum.mulX p.amount := by
    simp only [docAdj, hp, hz, hb, applyRule, pctOf, exact_mul, Bool.false_eq_true, if_false]
    exact up_self _ c (by rw [mulX_exp]; exact hs)
  rw [hval]
  refine ⟨rfl, ?_⟩
  have := mulX_err sum p.amount
  simpa [pctQ, hp] using this

theorem foldl_accum_exp_le (xs : List Amount) (z : Amount) (e : ℕ) (hz : z.exp ≤ e) (hx : ∀ x ∈ xs, x.exp ≤ e) :
    (xs.foldl (accum exactOps) z).exp ≤ e := by
  induction xs generalizing z with
  | nil => simpa
  | cons x xs ih =>
    rw [List.foldl_cons]
    apply ih
    · rw [accum_exp]
      have := hx x (by simp)
      omega
    · intro y hy; exact hx y (by simp [hy])

/-- the rational value of an optional total (absent = 0) -/
def optQ (o : Option Amount) : ℚ := (o.map Amount.toRat).getD 0

theorem adjSum_pct (c : ℕ) (sum : Amount) (xs : List DocAdj) (hx : ∀ x ∈ xs, PctOnly x) (hs : c ≤ sum.exp) :
    (∀ s, adjSum exactOps c (xs.map (docAdj exactOps .precise c sum)) = some s → s.exp ≤ sum.exp) ∧
    |optQ (adjSum exactOps c (xs.map (docAdj exactOps .precise c sum))) - sum.toRat * (xs.map pctQ).sum| ≤
      xs.length * halfUlp sum.exp := by
  constructor
  · intro s h
    unfold adjSum at h
    split at h
    · simp at h
    · injection h with h
      rw [← h]
      apply foldl_accum_exp_le _ _ _ hs
      intro y hy
      simp only [List.mem_map] at hy
      obtain ⟨a, ha, rfl⟩ := hy
      obtain ⟨x, hxm, rfl⟩ := ha
      exact le_of_eq (docAdj_pct c sum x (hx x hxm) hs).1
  · have hq : optQ (adjSum exactOps c (xs.map (docAdj exactOps .precise c sum))) =
        ((xs.map (docAdj exactOps .precise c sum)).map (·.amount.toRat)).sum := by
      unfold optQ adjSum
      split
      · rename_i he
        have : xs.map (docAdj exactOps .precise c sum) = [] := by simpa using he
        simp [this]
      · simp only [Option.map_some, Option.getD_some]
        rw [foldl_accum_toRat]
        simp [Amount.toRat, List.map_map, Function.comp_def]
    rw [hq]
    clear hq
    induction xs with
    | nil => simp
    | cons x xs ih =>
      have h1 := (docAdj_pct c sum x (hx x (by simp)) hs).2
      have h2 := ih (fun y hy => hx y (by simp [hy]))
      simp only [List.map_cons, List.sum_cons, List.length_cons]
      have : (docAdj exactOps .precise c sum x).amount.toRat +
            ((xs.map (docAdj exactOps .precise c sum)).map (·.amount.toRat)).sum - sum.toRat * (pctQ x + (xs.map pctQ).sum) =
          ((docAdj exactOps .precise c sum x).amount.toRat - sum.toRat * pctQ x) +
          (((xs.map (docAdj exactOps .precise c sum)).map (·.amount.toRat)).sum - sum.toRat * (xs.map pctQ).sum) := by ring
      rw [this]
      refine le_trans (abs_add_le _ _) ?_
      push_cast
      linarith

theorem pctQ_sum_abs (xs : List DocAdj) (hx : ∀ x ∈ xs, PctOnly x) : |(xs.map pctQ).sum| ≤ xs.length := by
  induction xs with
  | nil => simp
  | cons x xs ih =>
    obtain ⟨p, hp, _, _, hle⟩ := hx x (by simp)
    have h1 : |pctQ x| ≤ 1 := by simpa [pctQ, hp] using hle
    have h2 := ih (fun y hy => hx y (by simp [hy]))
    simp only [List.map_cons, List.sum_cons, List.length_cons]
    refine le_trans (abs_add_le _ _) ?_
    push_cast
    linarith

end Calc
end GoblVerif

namespace GoblVerif
open GoblVerif.Spec GoblVerif.Calc
namespace Calc

theorem simpleLine_total_exp (cur : String) (c : ℕ) (rates : List XRate) (l l' : Line) (hs : SimpleLine l)
    (h : calcLine exactOps cur c rates .precise l = .ok l') :
    ∃ t, l'.total = some t ∧ c + 2 ≤ t.exp := by
  obtain ⟨it, p, hit, hcur, hp, hbd, hd, hc⟩ := hs
  unfold calcLine at h
  simp only [hit, hbd, calcSubLines, List.isEmpty_nil, Bool.true_or, if_true, hp] at h
  unfold itemPrice at h
  simp only [hcur, BEq.rfl, Bool.true_or, if_true] at h
  simp only [show (Rule.precise == Rule.precise) = true from rfl, if_true, Option.getD_some, hd, hc,
    lineDiscounts, lineCharges] at h
  injection h with h
  subst h
  refine ⟨_, rfl, ?_⟩
  simp only [applyRule, up_exp, exact_mul, mulX_exp, E]
  omega

theorem foldl_accum_exp_ge_mem (xs : List Amount) (z : Amount) (x : Amount) (hx : x ∈ xs) :
    x.exp ≤ (xs.foldl (accum exactOps) z).exp := by
  induction xs generalizing z with
  | nil => simp at hx
  | cons y ys ih =>
    rw [List.foldl_cons]
    simp only [List.mem_cons] at hx
    rcases hx with rfl | hx
    · have := foldl_accum_exp_ge ys (accum exactOps z x)
      rw [accum_exp] at this
      omega
    · exact ih _ hx

/-- with at least one simple line the document sum carries the working precision -/
theorem simpleLines_sum_exp (cur : String) (c : ℕ) (rates : List XRate) (ls ls' : List Line)
    (hs : ∀ l ∈ ls, SimpleLine l) (hne : ls ≠ []) (h : calcLines exactOps cur c rates .precise ls = .ok ls') :
    c + 2 ≤ (lineSum exactOps c ls').exp := by
  cases ls with
  | nil => exact absurd rfl hne
  | cons l ls =>
    simp only [calcLines] at h
    cases h1 : calcLine exactOps cur c rates .precise l with
    | error e => simp [h1] at h
    | ok l' =>
      cases h2 : calcLines exactOps cur c rates .precise ls with
      | error e => simp [h1, h2] at h
      | ok ls'' =>
        simp only [h1, h2] at h
        injection h with h
        subst h
        obtain ⟨t, ht, hte⟩ := simpleLine_total_exp cur c rates l l' (hs l (by simp)) h1
        unfold lineSum
        have hm : t ∈ (l' :: ls'').filterMap (·.total) := by
          simp [List.filterMap_cons, ht]
        have := foldl_accum_exp_ge_mem _ ⟨0, c⟩ t hm
        omega

end Calc
end GoblVerif
