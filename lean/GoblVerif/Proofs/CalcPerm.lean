/-
  Order independence of the accumulations of the calculation model.
-/
import GoblVerif.Proofs.NumX
import Mathlib.Data.List.Perm.Basic

namespace GoblVerif.Calc

/-- at a fixed exponent an amount is determined by its rational value -/
theorem amount_ext (a b : Amount) (he : a.exp = b.exp) (hq : a.toRat = b.toRat) : a = b := by
  cases a with | mk av ae => cases b with | mk bv be =>
  simp only at he
  subst he
  unfold Amount.toRat at hq
  simp only at hq
  have hp := p10q_ne ae
  have : (av : ℚ) = (bv : ℚ) := by
    field_simp at hq
    exact hq
  congr 1
  exact_mod_cast this

theorem accum_right_comm (z x y : Amount) :
    accum exactOps (accum exactOps z x) y = accum exactOps (accum exactOps z y) x := by
  apply amount_ext
  · simp only [accum_exp]; omega
  · simp only [accum_toRat]; ring

instance : RightCommutative (accum exactOps) := ⟨accum_right_comm⟩

/-- accumulating a permutation of the same amounts gives the same amount -/
theorem foldl_accum_perm (xs ys : List Amount) (h : xs.Perm ys) (z : Amount) :
    xs.foldl (accum exactOps) z = ys.foldl (accum exactOps) z :=
  h.foldl_eq z

end GoblVerif.Calc
