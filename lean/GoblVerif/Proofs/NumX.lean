/-
  The exact (integer) layer of the num model read as rational arithmetic:
  every rounding operation is the exact rational result rounded half away
  from zero; scaling up and accumulating never round.
-/
import GoblVerif.Spec.C05
import GoblVerif.Proofs.CalcBasics
import Mathlib.Tactic.Linarith
import Mathlib.Tactic.FieldSimp

namespace GoblVerif
open GoblVerif.Spec

theorem p10q_pos (e : ℕ) : (0 : ℚ) < ((pow10 e : ℤ) : ℚ) := by exact_mod_cast pow10_pos e
theorem p10q_ne (e : ℕ) : ((pow10 e : ℤ) : ℚ) ≠ 0 := ne_of_gt (p10q_pos e)
theorem pow10_add (a b : ℕ) : pow10 (a + b) = pow10 a * pow10 b := by unfold pow10; exact pow_add _ _ _

/-- `mulX`: exact product rounded half away from zero at the receiver's precision -/
theorem mulX_spec (a b : Amount) : (a.mulX b).value = roundTo a.exp (a.toRat * b.toRat) := by
  show rha (a.value * b.value) (pow10 b.exp) = _
  rw [← goRound_div_pos _ _ (pow10_pos _)]
  unfold roundTo Amount.toRat
  show goRound _ = goRound _
  congr 1
  have := p10q_ne a.exp; have := p10q_ne b.exp
  push_cast; field_simp

/-- `divX`: exact quotient rounded half away from zero at the receiver's precision -/
theorem divX_spec (a b : Amount) (hb : b.value ≠ 0) : (a.divX b).value = roundTo a.exp (a.toRat / b.toRat) := by
  have hbq : (b.value : ℚ) ≠ 0 := by exact_mod_cast hb
  have h1 := p10q_ne a.exp; have h2 := p10q_ne b.exp
  have key : a.toRat / b.toRat * ((pow10 a.exp : ℤ) : ℚ)
      = ((a.value * pow10 b.exp : ℤ) : ℚ) / (b.value : ℚ) := by
    unfold Amount.toRat; push_cast; field_simp
  unfold Amount.divX roundTo
  show _ = goRound _
  rw [key]
  by_cases hpos : 0 < b.value
  · simp only [hpos, if_true]
    exact (goRound_div_pos _ _ hpos).symm
  · simp only [hpos, if_false]
    exact (goRound_div_neg _ _ (by omega)).symm

/-- lowering the precision rounds the same value half away from zero -/
theorem rescaleX_down_spec (a : Amount) (e : ℕ) (h : e < a.exp) :
    (a.rescaleX e).value = roundTo e a.toRat := by
  unfold Amount.rescaleX
  rw [if_pos h]
  show rha a.value (pow10 (a.exp - e)) = _
  rw [← goRound_div_pos _ _ (pow10_pos _)]
  unfold roundTo Amount.toRat
  show goRound _ = goRound _
  congr 1
  have h1 := p10q_ne a.exp; have h2 := p10q_ne e; have h3 := p10q_ne (a.exp - e)
  have : pow10 a.exp = pow10 e * pow10 (a.exp - e) := by
    rw [← pow10_add]; congr 1; omega
  rw [this]; push_cast; field_simp

/-- raising (or keeping) the precision is lossless -/
theorem rescaleX_up_toRat (a : Amount) (e : ℕ) (h : a.exp ≤ e) : (a.rescaleX e).toRat = a.toRat := by
  unfold Amount.rescaleX
  have h0 : ¬ a.exp > e := by omega
  rw [if_neg h0]
  by_cases h1 : a.exp < e
  · rw [if_pos h1]
    show ((a.value * pow10 (e - a.exp) : ℤ) : ℚ) / ((pow10 e : ℤ) : ℚ) = (a.value : ℚ) / ((pow10 a.exp : ℤ) : ℚ)
    have : pow10 e = pow10 a.exp * pow10 (e - a.exp) := by
      rw [← pow10_add]; congr 1; omega
    rw [this]
    have h2 := p10q_ne a.exp; have h3 := p10q_ne (e - a.exp)
    push_cast; field_simp
  · rw [if_neg h1]

namespace Calc

theorem up_toRat (a : Amount) (e : ℕ) : (up a e).toRat = a.toRat := by
  unfold up
  split
  · rename_i h
    show ((a.value * pow10 (e - a.exp) : ℤ) : ℚ) / ((pow10 e : ℤ) : ℚ) = (a.value : ℚ) / ((pow10 a.exp : ℤ) : ℚ)
    have : pow10 e = pow10 a.exp * pow10 (e - a.exp) := by
      rw [← pow10_add]; congr 1; omega
    rw [this]
    have h2 := p10q_ne a.exp; have h3 := p10q_ne (e - a.exp)
    push_cast; field_simp
  · rfl

/-- adding an amount of no greater precision is exact -/
theorem add_toRat (a b : Amount) (h : b.exp ≤ a.exp) : (add exactOps a b).toRat = a.toRat + b.toRat := by
  have hr := rescaleX_up_toRat b a.exp h
  rw [← hr]
  unfold add Amount.toRat
  simp only [exact_rescale, rescaleX_exp]
  push_cast; ring

theorem sub_toRat (a b : Amount) (h : b.exp ≤ a.exp) : (sub exactOps a b).toRat = a.toRat - b.toRat := by
  have hr := rescaleX_up_toRat b a.exp h
  rw [← hr]
  unfold sub Amount.toRat
  simp only [exact_rescale, rescaleX_exp]
  push_cast; ring

/-- `acc.MatchPrecision(x).Add(x)` never rounds -/
theorem accum_toRat (acc x : Amount) : (accum exactOps acc x).toRat = acc.toRat + x.toRat := by
  unfold accum
  rw [add_toRat _ _ (by rw [up_exp]; omega), up_toRat]

theorem accum_exp (acc x : Amount) : (accum exactOps acc x).exp = max acc.exp x.exp := by
  unfold accum; rw [add_exp, up_exp]

theorem foldl_accum_toRat (xs : List Amount) (z : Amount) :
    (xs.foldl (accum exactOps) z).toRat = z.toRat + (xs.map Amount.toRat).sum := by
  induction xs generalizing z with
  | nil => simp
  | cons x xs ih => rw [List.foldl_cons, ih, accum_toRat]; simp [add_assoc]

theorem foldl_accum_exp_ge (xs : List Amount) (z : Amount) : z.exp ≤ (xs.foldl (accum exactOps) z).exp := by
  induction xs generalizing z with
  | nil => simp
  | cons x xs ih =>
    rw [List.foldl_cons]
    have := ih (accum exactOps z x)
    rw [accum_exp] at this
    omega

end Calc
end GoblVerif

namespace GoblVerif
open GoblVerif.Spec

/-- rounding an integer-valued rational gives that integer -/
theorem roundHalfAway_int (z : ℤ) : roundHalfAway (z : ℚ) = z := by
  unfold roundHalfAway
  by_cases h : (0 : ℚ) ≤ (z : ℚ)
  · rw [if_pos h, ratfloor_eq]
    have : ((z : ℚ) + 1 / 2) = ((z : ℤ) : ℚ) + 1 / 2 := rfl
    rw [Int.floor_intCast_add]
    have : ⌊(1 / 2 : ℚ)⌋ = 0 := by norm_num
    rw [this]; simp
  · rw [if_neg h, ratfloor_eq]
    have hneg : (-(z : ℚ) + 1 / 2) = (((-z : ℤ)) : ℚ) + 1 / 2 := by push_cast; ring
    rw [hneg, Int.floor_intCast_add]
    have : ⌊(1 / 2 : ℚ)⌋ = 0 := by norm_num
    rw [this]; simp

/-- in every case the value of a rescaled amount is the amount's rational value
    rounded half away from zero at the target precision (exact when raising) -/
theorem rescaleX_value (a : Amount) (e : ℕ) : (a.rescaleX e).value = roundTo e a.toRat := by
  by_cases h : e < a.exp
  · exact rescaleX_down_spec a e h
  · have hle : a.exp ≤ e := by omega
    have hr := rescaleX_up_toRat a e hle
    unfold roundTo
    have hp := p10q_ne e
    have : a.toRat * ((pow10 e : ℤ) : ℚ) = (((a.rescaleX e).value : ℤ) : ℚ) := by
      rw [← hr]
      unfold Amount.toRat
      rw [Calc.rescaleX_exp]
      field_simp
    rw [this, roundHalfAway_int]

/-- so amounts with the same rational value rescale to the same value -/
theorem rescaleX_value_congr (a b : Amount) (e : ℕ) (h : a.toRat = b.toRat) :
    (a.rescaleX e).value = (b.rescaleX e).value := by
  rw [rescaleX_value, rescaleX_value, h]

end GoblVerif
