/-
  Invariants of the calculation model under the `currency` rounding rule:
  every computed figure sits at the currency's exponent, so additions and
  subtractions are plain integer operations (used by Props/C03).
-/
import GoblVerif.Proofs.CalcBasics

namespace GoblVerif.Calc

/-- the property's guard for one line discount/charge: a fixed amount (and a
    charge rate) is supplied at the currency's precision -/
def adjGuard (c : Nat) (d : LineAdj) : Bool :=
  (match d.rate with
   | some r => decide (r.exp ≤ c)
   | none =>
     match d.percent with
     | some p => if pctIsZero p then decide (d.amount.exp ≤ c) else true
     | none => decide (d.amount.exp ≤ c))

theorem applyRule_currency_exp (c : Nat) (a : Amount) : (applyRule exactOps .currency c a).exp = c := by
  simp [applyRule]

theorem adjPct_rate (r : Rule) (c : Nat) (sum : Amount) (d : LineAdj) :
    (adjPct exactOps r c sum d).rate = d.rate := by
  unfold adjPct; split
  · split
    · rfl
    · split <;> rfl
  · rfl

theorem adjPct_exp (c : Nat) (sum : Amount) (hs : sum.exp = c) (d : LineAdj)
    (hg : adjGuard c d = true) (hr : d.rate = none) :
    (adjPct exactOps .currency c sum d).amount.exp ≤ c := by
  unfold adjGuard at hg
  rw [hr] at hg
  unfold adjPct
  cases hp : d.percent with
  | none => simp [hp] at hg ⊢; exact hg
  | some p =>
    simp only [hp] at hg ⊢
    by_cases hz : pctIsZero p = true
    · simp [hz] at hg ⊢; exact hg
    · simp only [hz]
      cases hb : d.base with
      | none => simp [hs]
      | some b => simp [applyRule]

theorem lineDiscountStep_currency (c : Nat) (sum total : Amount) (hs : sum.exp = c) (ht : total.exp = c)
    (d : LineAdj) (hr : d.rate = none) (hg : adjGuard c d = true) :
    (lineDiscountStep exactOps .currency c sum total d).1.amount.exp = c ∧
    (lineDiscountStep exactOps .currency c sum total d).2 =
      ⟨total.value - (lineDiscountStep exactOps .currency c sum total d).1.amount.value, c⟩ := by
  have he : (lineDiscountStep exactOps .currency c sum total d).1.amount.exp = c := by
    show (up _ c).exp = c
    rw [up_exp]; have := adjPct_exp c sum hs d hg hr; omega
  refine ⟨he, ?_⟩
  show sub exactOps total _ = _
  rw [sub_same _ _ (by rw [ht]; exact he), ht]
  rfl

theorem lineDiscounts_currency (c : Nat) (sum : Amount) (hs : sum.exp = c) (ds : List LineAdj)
    (hr : ∀ d ∈ ds, d.rate = none) (hg : ∀ d ∈ ds, adjGuard c d = true) (total : Amount) (ht : total.exp = c) :
    (∀ d' ∈ (lineDiscounts exactOps .currency c sum ds total).1, d'.amount.exp = c) ∧
    (lineDiscounts exactOps .currency c sum ds total).2 =
      ⟨total.value - (((lineDiscounts exactOps .currency c sum ds total).1).map (·.amount.value)).sum, c⟩ := by
  induction ds generalizing total with
  | nil => cases total; simp at ht; simp [lineDiscounts, ht]
  | cons d ds ih =>
    obtain ⟨h1, h2⟩ := lineDiscountStep_currency c sum total hs ht d (hr d (by simp)) (hg d (by simp))
    have ih' := ih (fun x hx => hr x (by simp [hx])) (fun x hx => hg x (by simp [hx]))
      (lineDiscountStep exactOps .currency c sum total d).2 (by rw [h2])
    simp only [lineDiscounts]
    refine ⟨?_, ?_⟩
    · intro d' hd'
      simp only [List.mem_cons] at hd'
      rcases hd' with rfl | hd'
      · exact h1
      · exact ih'.1 d' hd'
    · rw [ih'.2, h2]
      simp only [List.map_cons, List.sum_cons]
      congr 1
      omega

/-! charges: the same, with the optional rate × quantity override -/

theorem lineChargeStep_currency (c : Nat) (qty sum total : Amount) (hs : sum.exp = c) (ht : total.exp = c)
    (d : LineAdj) (hg : adjGuard c d = true) :
    (lineChargeStep exactOps .currency c qty sum total d).1.amount.exp = c ∧
    (lineChargeStep exactOps .currency c qty sum total d).2 =
      ⟨total.value + (lineChargeStep exactOps .currency c qty sum total d).1.amount.value, c⟩ := by
  have hle : (adjRate exactOps qty (adjPct exactOps .currency c sum d)).amount.exp ≤ c := by
    unfold adjRate
    rw [adjPct_rate]
    cases hrt : d.rate with
    | some rt =>
      unfold adjGuard at hg; simp [hrt] at hg
      simpa using hg
    | none => exact adjPct_exp c sum hs d hg hrt
  have he : (lineChargeStep exactOps .currency c qty sum total d).1.amount.exp = c := by
    show (up _ c).exp = c
    rw [up_exp]; omega
  refine ⟨he, ?_⟩
  show add exactOps total _ = _
  rw [add_same _ _ (by rw [ht]; exact he), ht]
  rfl

theorem lineCharges_currency (c : Nat) (qty sum : Amount) (hs : sum.exp = c) (ds : List LineAdj)
    (hg : ∀ d ∈ ds, adjGuard c d = true) (total : Amount) (ht : total.exp = c) :
    (∀ d' ∈ (lineCharges exactOps .currency c qty sum ds total).1, d'.amount.exp = c) ∧
    (lineCharges exactOps .currency c qty sum ds total).2 =
      ⟨total.value + (((lineCharges exactOps .currency c qty sum ds total).1).map (·.amount.value)).sum, c⟩ := by
  induction ds generalizing total with
  | nil => cases total; simp at ht; simp [lineCharges, ht]
  | cons d ds ih =>
    obtain ⟨h1, h2⟩ := lineChargeStep_currency c qty sum total hs ht d (hg d (by simp))
    have ih' := ih (fun x hx => hg x (by simp [hx]))
      (lineChargeStep exactOps .currency c qty sum total d).2 (by rw [h2])
    simp only [lineCharges]
    refine ⟨?_, ?_⟩
    · intro d' hd'
      simp only [List.mem_cons] at hd'
      rcases hd' with rfl | hd'
      · exact h1
      · exact ih'.1 d' hd'
    · rw [ih'.2, h2]
      simp only [List.map_cons, List.sum_cons]
      congr 1
      omega

end GoblVerif.Calc

namespace GoblVerif.Calc

/-- the guard of C03 for a whole line -/
def lineGuard (c : Nat) (l : Line) : Prop :=
  (∀ d ∈ l.discounts, d.rate = none ∧ adjGuard c d = true) ∧ (∀ d ∈ l.charges, adjGuard c d = true)

/-- under the currency rule a calculated line's total is its sum minus its
    discounts plus its charges, all at the currency's exponent -/
theorem calcLine_currency (cur : String) (c : Nat) (rates : List XRate) (l l' : Line)
    (hg : lineGuard c l) (h : calcLine exactOps cur c rates .currency l = .ok l')
    (s t : Amount) (hs : l'.sum = some s) (ht : l'.total = some t) (hi : l.item ≠ none) :
    s.exp = c ∧ (∀ d ∈ l'.discounts, d.amount.exp = c) ∧ (∀ d ∈ l'.charges, d.amount.exp = c) ∧
    t = ⟨s.value - (l'.discounts.map (·.amount.value)).sum + (l'.charges.map (·.amount.value)).sum, c⟩ := by
  unfold calcLine at h
  cases hit : l.item with
  | none => exact absurd hit hi
  | some it0 =>
    simp only [hit] at h
    cases hbd : calcSubLines exactOps cur c rates .currency l.breakdown with
    | error e => simp [hbd] at h
    | ok bd =>
      simp only [hbd] at h
      split at h
      · -- no price: sum and total are none
        cases h; simp at hs
      · rename_i p0 hp0
        split at h
        · simp at h
        · rename_i it2 hit2
          injection h with h
          subst h
          simp only at hs ht
          injection hs with hs
          subst hs
          have hsum : (applyRule exactOps .currency c (exactOps.mul (up (it2.price.getD p0) c) l.qty)).exp = c :=
            applyRule_currency_exp c _
          have hD := lineDiscounts_currency c _ hsum l.discounts (fun d hd => (hg.1 d hd).1) (fun d hd => (hg.1 d hd).2)
            _ hsum
          have hC := lineCharges_currency c l.qty _ hsum l.charges hg.2
            (lineDiscounts exactOps .currency c _ l.discounts _).2 (by rw [hD.2])
          simp only [show (Rule.currency == Rule.precise) = false from rfl, Bool.false_eq_true, if_false] at ht hD hC ⊢
          injection ht with ht
          refine ⟨hsum, hD.1, hC.1, ?_⟩
          rw [← ht, hC.2, hD.2]

end GoblVerif.Calc
