/-
  Invariants of the calculation model under the `currency` rounding rule:
  every computed figure sits at the currency's exponent, so additions and
  subtractions are plain integer operations (used by Props/C03).
-/
import GoblVerif.Proofs.CalcBasics

namespace GoblVerif.Calc

/-- the property's guard for one line discount/charge: a fixed amount (and a
    charge rate) is supplied at the currency's precision -/
def adjGuard (c : Nat) (d : LineAdj) : Bool :=
  (match d.rate with
   | some r => decide (r.exp ≤ c)
   | none =>
     match d.percent with
     | some p => if pctIsZero p then decide (d.amount.exp ≤ c) else true
     | none => decide (d.amount.exp ≤ c))

theorem applyRule_currency_exp (c : Nat) (a : Amount) : (applyRule exactOps .currency c a).exp = c := by
  simp [applyRule]

theorem adjPct_rate (r : Rule) (c : Nat) (sum : Amount) (d : LineAdj) :
    (adjPct exactOps r c sum d).rate = d.rate := by
  unfold adjPct; split
  · split
    · rfl
    · split <;> rfl
  · rfl

theorem adjPct_exp (c : Nat) (sum : Amount) (hs : sum.exp = c) (d : LineAdj)
    (hg : adjGuard c d = true) (hr : d.rate = none) :
    (adjPct exactOps .currency c sum d).amount.exp ≤ c := by
  unfold adjGuard at hg
  rw [hr] at hg
  unfold adjPct
  cases hp : d.percent with
  | none => simp [hp] at hg ⊢; exact hg
  | some p =>
    simp only [hp] at hg ⊢
    by_cases hz : pctIsZero p = true
    · simp [hz] at hg ⊢; exact hg
    · simp only [hz]
      cases hb : d.base with
      | none => simp [hs]
      | some b => simp [applyRule]

theorem lineDiscountStep_currency (c : Nat) (sum total : Amount) (hs : sum.exp = c) (ht : total.exp = c)
    (d : LineAdj) (hr : d.rate = none) (hg : adjGuard c d = true) :
    (lineDiscountStep exactOps .currency c sum total d).1.amount.exp = c ∧
    (lineDiscountStep exactOps .currency c sum total d).2 =
      ⟨total.value - (lineDiscountStep exactOps .currency c sum total d).1.amount.value, c⟩ := by
  have he : (lineDiscountStep exactOps .currency c sum total d).1.amount.exp = c := by
    show (up _ c).exp = c
    rw [up_exp]; have := adjPct_exp c sum hs d hg hr; omega
  refine ⟨he, ?_⟩
  show sub exactOps total _ = _
  rw [sub_same _ _ (by rw [ht]; exact he), ht]
  rfl

theorem lineDiscounts_currency (c : Nat) (sum : Amount) (hs : sum.exp = c) (ds : List LineAdj)
    (hr : ∀ d ∈ ds, d.rate = none) (hg : ∀ d ∈ ds, adjGuard c d = true) (total : Amount) (ht : total.exp = c) :
    (∀ d' ∈ (lineDiscounts exactOps .currency c sum ds total).1, d'.amount.exp = c) ∧
    (lineDiscounts exactOps .currency c sum ds total).2 =
      ⟨total.value - (((lineDiscounts exactOps .currency c sum ds total).1).map (·.amount.value)).sum, c⟩ := by
  induction ds generalizing total with
  | nil => cases total; simp at ht; simp [lineDiscounts, ht]
  | cons d ds ih =>
    obtain ⟨h1, h2⟩ := lineDiscountStep_currency c sum total hs ht d (hr d (by simp)) (hg d (by simp))
    have ih' := ih (fun x hx => hr x (by simp [hx])) (fun x hx => hg x (by simp [hx]))
      (lineDiscountStep exactOps .currency c sum total d).2 (by rw [h2])
    simp only [lineDiscounts]
    refine ⟨?_, ?_⟩
    · intro d' hd'
      simp only [List.mem_cons] at hd'
      rcases hd' with rfl | hd'
      · exact h1
      · exact ih'.1 d' hd'
    · rw [ih'.2, h2]
      simp only [List.map_cons, List.sum_cons]
      congr 1
      omega

/-! charges: the same, with the optional rate × quantity override -/

theorem lineChargeStep_currency (c : Nat) (qty sum total : Amount) (hs : sum.exp = c) (ht : total.exp = c)
    (d : LineAdj) (hg : adjGuard c d = true) :
    (lineChargeStep exactOps .currency c qty sum total d).1.amount.exp = c ∧
    (lineChargeStep exactOps .currency c qty sum total d).2 =
      ⟨total.value + (lineChargeStep exactOps .currency c qty sum total d).1.amount.value, c⟩ := by
  have hle : (adjRate exactOps qty (adjPct exactOps .currency c sum d)).amount.exp ≤ c := by
    unfold adjRate
    rw [adjPct_rate]
    cases hrt : d.rate with
    | some rt =>
      unfold adjGuard at hg; simp [hrt] at hg
      simpa using hg
    | none => exact adjPct_exp c sum hs d hg hrt
  have he : (lineChargeStep exactOps .currency c qty sum total d).1.amount.exp = c := by
    show (up _ c).exp = c
    rw [up_exp]; omega
  refine ⟨he, ?_⟩
  show add exactOps total _ = _
  rw [add_same _ _ (by rw [ht]; exact he), ht]
  rfl

theorem lineCharges_currency (c : Nat) (qty sum : Amount) (hs : sum.exp = c) (ds : List LineAdj)
    (hg : ∀ d ∈ ds, adjGuard c d = true) (total : Amount) (ht : total.exp = c) :
    (∀ d' ∈ (lineCharges exactOps .currency c qty sum ds total).1, d'.amount.exp = c) ∧
    (lineCharges exactOps .currency c qty sum ds total).2 =
      ⟨total.value + (((lineCharges exactOps .currency c qty sum ds total).1).map (·.amount.value)).sum, c⟩ := by
  induction ds generalizing total with
  | nil => cases total; simp at ht; simp [lineCharges, ht]
  | cons d ds ih =>
    obtain ⟨h1, h2⟩ := lineChargeStep_currency c qty sum total hs ht d (hg d (by simp))
    have ih' := ih (fun x hx => hg x (by simp [hx]))
      (lineChargeStep exactOps .currency c qty sum total d).2 (by rw [h2])
    simp only [lineCharges]
    refine ⟨?_, ?_⟩
    · intro d' hd'
      simp only [List.mem_cons] at hd'
      rcases hd' with rfl | hd'
      · exact h1
      · exact ih'.1 d' hd'
    · rw [ih'.2, h2]
      simp only [List.map_cons, List.sum_cons]
      congr 1
      omega

end GoblVerif.Calc

namespace GoblVerif.Calc

/-- the guard of C03 for a whole line -/
def lineGuard (c : Nat) (l : Line) : Prop :=
  (∀ d ∈ l.discounts, d.rate = none ∧ adjGuard c d = true) ∧ (∀ d ∈ l.charges, adjGuard c d = true)

/-- under the currency rule a calculated line's total is its sum minus its
    discounts plus its charges, all at the currency's exponent -/
theorem calcLine_currency (cur : String) (c : Nat) (rates : List XRate) (l l' : Line)
    (hg : lineGuard c l) (h : calcLine exactOps cur c rates .currency l = .ok l')
    (s t : Amount) (hs : l'.sum = some s) (ht : l'.total = some t) (hi : l.item ≠ none) :
    s.exp = c ∧ (∀ d ∈ l'.discounts, d.amount.exp = c) ∧ (∀ d ∈ l'.charges, d.amount.exp = c) ∧
    t = ⟨s.value - (l'.discounts.map (·.amount.value)).sum + (l'.charges.map (·.amount.value)).sum, c⟩ := by
  unfold calcLine at h
  cases hit : l.item with
  | none => exact absurd hit hi
  | some it0 =>
    simp only [hit] at h
    cases hbd : calcSubLines exactOps cur c rates .currency l.breakdown with
    | error e => simp [hbd] at h
    | ok bd =>
      simp only [hbd] at h
      split at h
      · -- no price: sum and total are none
        cases h; simp at hs
      · rename_i p0 hp0
        split at h
        · simp at h
        · rename_i it2 hit2
          injection h with h
          subst h
          simp only at hs ht
          injection hs with hs
          subst hs
          have hsum : (applyRule exactOps .currency c (exactOps.mul (up (it2.price.getD p0) c) l.qty)).exp = c :=
            applyRule_currency_exp c _
          have hD := lineDiscounts_currency c _ hsum l.discounts (fun d hd => (hg.1 d hd).1) (fun d hd => (hg.1 d hd).2)
            _ hsum
          have hC := lineCharges_currency c l.qty _ hsum l.charges hg.2
            (lineDiscounts exactOps .currency c _ l.discounts _).2 (by rw [hD.2])
          simp only [show (Rule.currency == Rule.precise) = false from rfl, Bool.false_eq_true, if_false] at ht hD hC ⊢
          injection ht with ht
          refine ⟨hsum, hD.1, hC.1, ?_⟩
          rw [← ht, hC.2, hD.2]

end GoblVerif.Calc

namespace GoblVerif.Calc

/-! ### exponents of running totals (any rule) -/

theorem lineDiscounts_exp (r : Rule) (c : ℕ) (sum : Amount) (ds : List LineAdj) (total : Amount) :
    (lineDiscounts exactOps r c sum ds total).2.exp = total.exp := by
  induction ds generalizing total with
  | nil => rfl
  | cons d ds ih =>
    simp only [lineDiscounts]
    rw [ih]
    rfl

theorem lineCharges_exp (r : Rule) (c : ℕ) (qty sum : Amount) (ds : List LineAdj) (total : Amount) :
    (lineCharges exactOps r c qty sum ds total).2.exp = total.exp := by
  induction ds generalizing total with
  | nil => rfl
  | cons d ds ih =>
    simp only [lineCharges]
    rw [ih]
    rfl

/-- under the currency rule every calculated line total sits at the currency's exponent (no guard needed) -/
theorem calcLine_currency_total_exp (cur : String) (c : Nat) (rates : List XRate) (l l' : Line)
    (h : calcLine exactOps cur c rates .currency l = .ok l') (hclean : l.total = none)
    (t : Amount) (ht : l'.total = some t) : t.exp = c := by
  unfold calcLine at h
  cases hit : l.item with
  | none => simp only [hit] at h; cases h; rw [hclean] at ht; cases ht
  | some it0 =>
    simp only [hit] at h
    cases hbd : calcSubLines exactOps cur c rates .currency l.breakdown with
    | error e => simp [hbd] at h
    | ok bd =>
      simp only [hbd] at h
      split at h
      · cases h; simp at ht
      · split at h
        · simp at h
        · injection h with h
          subst h
          simp only at ht
          injection ht with ht
          rw [← ht, lineCharges_exp, lineDiscounts_exp]
          exact applyRule_currency_exp c _

theorem calcLines_currency_total_exp (cur : String) (c : Nat) (rates : List XRate) (ls out : List Line)
    (h : calcLines exactOps cur c rates .currency ls = .ok out) (hclean : ∀ l ∈ ls, l.total = none) :
    ∀ t ∈ out.filterMap (·.total), t.exp = c := by
  induction ls generalizing out with
  | nil => simp [calcLines] at h; subst h; simp
  | cons l ls ih =>
    unfold calcLines at h
    cases h1 : calcLine exactOps cur c rates .currency l with
    | error e => simp [h1] at h
    | ok l' =>
      simp only [h1] at h
      cases h2 : calcLines exactOps cur c rates .currency ls with
      | error e => simp [h2] at h
      | ok ls' =>
        simp only [h2] at h
        injection h with h
        subst h
        intro t ht
        simp only [List.filterMap_cons] at ht
        cases hl : l'.total with
        | none =>
          simp only [hl] at ht
          exact ih ls' h2 (fun x hx => hclean x (by simp [hx])) t ht
        | some t0 =>
          simp only [hl, List.mem_cons] at ht
          rcases ht with rfl | ht
          · exact calcLine_currency_total_exp cur c rates l l' h1 (hclean l (by simp)) t hl
          · exact ih ls' h2 (fun x hx => hclean x (by simp [hx])) t ht

/-- document discounts / charges under the currency rule: every amount at the currency's exponent -/
theorem docAdj_currency_exp (c : ℕ) (sum : Amount) (d : DocAdj) :
    (docAdj exactOps .currency c sum d).amount.exp = c := by
  unfold docAdj
  simp [applyRule]

theorem adjSum_currency (c : ℕ) (ds : List DocAdj) (h : ∀ d ∈ ds, d.amount.exp = c) (s : Amount)
    (hs : adjSum exactOps c ds = some s) : s = ⟨(ds.map (·.amount.value)).sum, c⟩ := by
  unfold adjSum at hs
  split at hs
  · simp at hs
  · injection hs with hs
    rw [← hs, foldl_accum_same c _ ⟨0, c⟩ rfl (by
      intro x hx
      simp only [List.mem_map] at hx
      obtain ⟨d, hd, rfl⟩ := hx
      exact h d hd)]
    simp [List.map_map, Function.comp_def]

end GoblVerif.Calc

namespace GoblVerif.Calc

/-! ### the tax summary under the currency rule -/

/-- every base of every group sits at the currency's exponent -/
def BasesAtC (c : ℕ) (cats : List CatTotal) : Prop := ∀ ct ∈ cats, ∀ rt ∈ ct.rates, rt.base.exp = c

theorem addToRates_currency (c : ℕ) (cb : Combo) (t : Amount) (rts : List RateTotal)
    (h : ∀ rt ∈ rts, rt.base.exp = c) : ∀ rt ∈ addToRates exactOps .currency c cb t rts, rt.base.exp = c := by
  induction rts with
  | nil =>
    intro rt hrt
    simp only [addToRates, List.mem_singleton] at hrt
    subst hrt
    simp [newRate, mrp]
  | cons x xs ih =>
    simp only [addToRates]
    split
    · intro rt hrt
      simp only [List.mem_cons] at hrt
      rcases hrt with rfl | hrt
      · simp [mrp, h x (by simp)]
      · exact h rt (by simp [hrt])
    · intro rt hrt
      simp only [List.mem_cons] at hrt
      rcases hrt with rfl | hrt
      · exact h rt (by simp)
      · exact ih (fun y hy => h y (by simp [hy])) rt hrt

theorem addToCats_currency (c : ℕ) (cb : Combo) (t : Amount) (cats : List CatTotal)
    (h : BasesAtC c cats) : BasesAtC c (addToCats exactOps .currency c cb t cats) := by
  induction cats with
  | nil =>
    intro ct hct
    simp only [addToCats, List.mem_singleton] at hct
    subst hct
    exact addToRates_currency c cb t [] (by simp)
  | cons x xs ih =>
    simp only [addToCats]
    split
    · intro ct hct
      simp only [List.mem_cons] at hct
      rcases hct with rfl | hct
      · exact addToRates_currency c cb t x.rates (h x (by simp))
      · exact h ct (by simp [hct])
    · intro ct hct
      simp only [List.mem_cons] at hct
      rcases hct with rfl | hct
      · exact h ct (by simp)
      · exact ih (fun y hy => h y (by simp [hy])) ct hct

theorem baseRateTotals_currency (c : ℕ) (rows : List Row) : BasesAtC c (baseRateTotals exactOps .currency c rows) := by
  unfold baseRateTotals
  have key : ∀ (rows : List Row) (cats : List CatTotal), BasesAtC c cats →
      BasesAtC c (rows.foldl (fun cats rw => rw.taxes.foldl (fun cats cb => addToCats exactOps .currency c cb rw.total cats) cats) cats) := by
    intro rows
    induction rows with
    | nil => intro cats h; exact h
    | cons rw rows ih =>
      intro cats h
      rw [List.foldl_cons]
      apply ih
      have inner : ∀ (cbs : List Combo) (cats : List CatTotal), BasesAtC c cats →
          BasesAtC c (cbs.foldl (fun cats cb => addToCats exactOps .currency c cb rw.total cats) cats) := by
        intro cbs
        induction cbs with
        | nil => intro cats h; exact h
        | cons cb cbs ih2 => intro cats h; rw [List.foldl_cons]; exact ih2 _ (addToCats_currency c cb rw.total cats h)
      exact inner rw.taxes cats h
  exact key rows [] (fun _ h => by simp at h)

/-- the integer value a group contributes to its category amount -/
def taxedValue (rt : RateTotal) : Int := match rt.percent with | none => 0 | some _ => rt.amount.value

/-- the integer value a group contributes to its category surcharge -/
def surchargeValue (rt : RateTotal) : Int :=
  match rt.percent, rt.surcharge with
  | some _, some (_, sa) => sa.value
  | _, _ => 0

theorem rateAmounts_currency (c : ℕ) (rt : RateTotal) (h : rt.base.exp = c) :
    (rateAmounts exactOps rt c).amount.exp = c ∧ (rateAmounts exactOps rt c).base = rt.base ∧
    (∀ sp sa, (rateAmounts exactOps rt c).percent.isSome → (rateAmounts exactOps rt c).surcharge = some (sp, sa) → sa.exp = c) := by
  unfold rateAmounts
  cases hp : rt.percent with
  | none => simp
  | some p =>
    simp only [pctOf_exp, h, true_and]
    intro sp sa _ hs
    cases hsr : rt.surcharge with
    | none => simp [hsr] at hs
    | some x =>
      simp only [hsr, Option.map_some, Option.some.injEq, Prod.mk.injEq] at hs
      rw [← hs.2]; exact h

theorem amountFold_currency (c : ℕ) (rates : List RateTotal) (z : Amount) (hz : z.exp = c)
    (hr : ∀ rt ∈ rates, rt.amount.exp = c) :
    rates.foldl (fun a rt =>
        match rt.percent with
        | none => a
        | some _ => add exactOps (mrp .currency a rt.amount) rt.amount) z
      = ⟨z.value + (rates.map taxedValue).sum, c⟩ := by
  induction rates generalizing z with
  | nil => cases z; simp at hz; simp [hz]
  | cons rt rates ih =>
    rw [List.foldl_cons]
    have hrc := hr rt (by simp)
    cases hp : rt.percent with
    | none =>
      simp only [hp]
      refine (ih z hz (fun x hx => hr x (by simp [hx]))).trans ?_
      simp [taxedValue, hp]
    | some p =>
      simp only [hp]
      have hstep : add exactOps (mrp .currency z rt.amount) rt.amount = ⟨z.value + rt.amount.value, z.exp⟩ := by
        simp only [mrp]
        exact add_same _ _ (by rw [hrc, hz])
      rw [hstep]
      refine (ih _ (by simpa using hz) (fun x hx => hr x (by simp [hx]))).trans ?_
      simp only [List.map_cons, List.sum_cons, taxedValue, hp]
      congr 1
      omega

theorem surchargeFold_currency (c : ℕ) (rates : List RateTotal) (z : Option Amount) (hz : ∀ x, z = some x → x.exp = c)
    (hr : ∀ rt ∈ rates, ∀ sp sa, rt.percent.isSome → rt.surcharge = some (sp, sa) → sa.exp = c) :
    ∀ s, rates.foldl (fun (s : Option Amount) rt =>
        match rt.percent, rt.surcharge with
        | some _, some (_, sa) =>
          let x := s.getD ⟨0, c⟩
          some (add exactOps (mrp .currency x sa) sa)
        | _, _ => s) z = some s →
      s = ⟨(match z with | some x => x.value | none => 0) + (rates.map surchargeValue).sum, c⟩ := by
  induction rates generalizing z with
  | nil =>
    intro s hs
    simp only [List.foldl_nil] at hs
    subst hs
    have := hz s rfl
    cases s; simp at this; simp [this]
  | cons rt rates ih =>
    intro s hs
    rw [List.foldl_cons] at hs
    cases hp : rt.percent with
    | none =>
      simp only [hp] at hs
      have := ih z hz (fun x hx => hr x (by simp [hx])) s hs
      rw [this]; simp [surchargeValue, hp]
    | some p =>
      cases hsr : rt.surcharge with
      | none =>
        simp only [hp, hsr] at hs
        have := ih z hz (fun x hx => hr x (by simp [hx])) s hs
        rw [this]; simp [surchargeValue, hp, hsr]
      | some x =>
        obtain ⟨sp, sa⟩ := x
        simp only [hp, hsr] at hs
        have hsa : sa.exp = c := hr rt (by simp) sp sa (by simp [hp]) hsr
        have hx : (z.getD ⟨0, c⟩).exp = c := by
          cases z with
          | none => rfl
          | some y => exact hz y rfl
        have hstep : add exactOps (mrp .currency (z.getD ⟨0, c⟩) sa) sa =
            ⟨(z.getD ⟨0, c⟩).value + sa.value, (z.getD ⟨0, c⟩).exp⟩ := by
          simp only [mrp]
          exact add_same _ _ (by rw [hsa, hx])
        rw [hstep] at hs
        have := ih (some ⟨(z.getD ⟨0, c⟩).value + sa.value, (z.getD ⟨0, c⟩).exp⟩)
          (by intro y hy; injection hy with hy; rw [← hy]; exact hx) (fun x hx => hr x (by simp [hx])) s hs
        rw [this]
        simp only [List.map_cons, List.sum_cons, surchargeValue, hp, hsr]
        congr 1
        cases z <;> simp <;> omega

/-- **category sums under the currency rule**: amounts and surcharges of a
category are the plain integer sums of its groups' figures, everything at the
currency's exponent -/
theorem catAmounts_currency (c : ℕ) (ct : CatTotal) (h : ∀ rt ∈ ct.rates, rt.base.exp = c) :
    let ct' := catAmounts exactOps .currency c ct
    (∀ rt ∈ ct'.rates, rt.base.exp = c ∧ rt.amount.exp = c) ∧
    ct'.amount = ⟨(ct'.rates.map taxedValue).sum, c⟩ ∧
    (∀ s, ct'.surcharge = some s → s = ⟨(ct'.rates.map surchargeValue).sum, c⟩) := by
  have hrates : ∀ rt ∈ ct.rates.map (rateAmounts exactOps · c), rt.base.exp = c ∧ rt.amount.exp = c := by
    intro rt hrt
    simp only [List.mem_map] at hrt
    obtain ⟨x, hx, rfl⟩ := hrt
    have := rateAmounts_currency c x (h x hx)
    exact ⟨by rw [this.2.1]; exact h x hx, this.1⟩
  have hsur : ∀ rt ∈ ct.rates.map (rateAmounts exactOps · c), ∀ sp sa, rt.percent.isSome → rt.surcharge = some (sp, sa) → sa.exp = c := by
    intro rt hrt
    simp only [List.mem_map] at hrt
    obtain ⟨x, hx, rfl⟩ := hrt
    exact (rateAmounts_currency c x (h x hx)).2.2
  refine ⟨hrates, ?_, ?_⟩
  · simp only [catAmounts]
    refine (amountFold_currency c _ ⟨0, c⟩ rfl (fun rt hrt => (hrates rt hrt).2)).trans ?_
    simp
  · intro s hs
    simp only [catAmounts] at hs
    have := surchargeFold_currency c _ none (by simp) hsur s hs
    rw [this]
    simp [catAmounts]

end GoblVerif.Calc

namespace GoblVerif.Calc

/-- signed contribution of a category to the tax sum -/
def catSigned (ct : CatTotal) : Int :=
  let v := ct.amount.value + (match ct.surcharge with | some s => s.value | none => 0)
  if ct.retained then -v else v

theorem finalSum_currency (c : ℕ) (cats : List CatTotal)
    (h : ∀ ct ∈ cats, ct.amount.exp = c ∧ ∀ s, ct.surcharge = some s → s.exp = c) :
    finalSum exactOps .currency c cats = ⟨(cats.map catSigned).sum, c⟩ := by
  unfold finalSum
  have key : ∀ (cats : List CatTotal) (z : Amount), z.exp = c →
      (∀ ct ∈ cats, ct.amount.exp = c ∧ ∀ s, ct.surcharge = some s → s.exp = c) →
      cats.foldl (fun s ct =>
        let s1 := mrp .currency s ct.amount
        if ct.retained then
          let s2 := sub exactOps s1 ct.amount
          match ct.surcharge with | some x => sub exactOps s2 x | none => s2
        else
          let s2 := add exactOps s1 ct.amount
          match ct.surcharge with | some x => add exactOps s2 x | none => s2) z
        = ⟨z.value + (cats.map catSigned).sum, c⟩ := by
    intro cats
    induction cats with
    | nil => intro z hz _; cases z; simp at hz; simp [hz]
    | cons ct cts ih =>
      intro z hz hc
      rw [List.foldl_cons]
      obtain ⟨ha, hs⟩ := hc ct (by simp)
      have hrest := fun x hx => hc x (List.mem_cons_of_mem ct hx)
      have hstep : (let s1 := mrp .currency z ct.amount
          if ct.retained then
            let s2 := sub exactOps s1 ct.amount
            match ct.surcharge with | some x => sub exactOps s2 x | none => s2
          else
            let s2 := add exactOps s1 ct.amount
            match ct.surcharge with | some x => add exactOps s2 x | none => s2) = ⟨z.value + catSigned ct, c⟩ := by
        simp only [mrp, catSigned]
        cases hr : ct.retained with
        | true =>
          simp only [if_true]
          rw [sub_same _ _ (by rw [ha, hz])]
          cases hsc : ct.surcharge with
          | none => simp [hz]; omega
          | some x =>
            simp only
            rw [sub_same _ _ (by simp [hs x hsc, hz])]
            simp [hz]; omega
        | false =>
          simp only [Bool.false_eq_true, if_false]
          rw [add_same _ _ (by rw [ha, hz])]
          cases hsc : ct.surcharge with
          | none => simp [hz]
          | some x =>
            simp only
            rw [add_same _ _ (by simp [hs x hsc, hz])]
            simp [hz]; omega
      rw [hstep]
      refine (ih _ rfl hrest).trans ?_
      simp only [List.map_cons, List.sum_cons]
      congr 1
      omega
  refine (key cats ⟨0, c⟩ rfl h).trans ?_
  simp

end GoblVerif.Calc
