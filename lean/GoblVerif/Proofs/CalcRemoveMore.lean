/-
  `Invoice.RemoveIncludedTaxes`, continued: when no row carries the included
  category the removal changes nothing but the flag; and inside the domain of
  `removeIncludedDoc_payable` the function returns normally (no error of a
  recalculation, no nil totals).
-/
import GoblVerif.Proofs.CalcRemove

namespace GoblVerif.Calc

/-! ### the combos of a row survive the calculation -/

theorem calcLine_taxes (cur : String) (c : ℕ) (rates : List XRate) (r : Rule) (l l1 : Line)
    (h : calcLine exactOps cur c rates r l = .ok l1) : l1.taxes = l.taxes := by
  unfold calcLine at h
  cases hi : l.item with
  | none =>
    simp only [hi] at h
    injection h with h
    rw [← h]
  | some it0 =>
    simp only [hi] at h
    cases hbd : calcSubLines exactOps cur c rates r l.breakdown with
    | error e => simp [hbd] at h
    | ok bd =>
      simp only [hbd] at h
      split at h
      · injection h with h
        rw [← h]
      · split at h
        · cases h
        · injection h with h
          rw [← h]

theorem roundLine_taxes (l : Line) : (roundLine exactOps l).taxes = l.taxes := by
  unfold roundLine
  split
  · rfl
  · split <;> rfl

/-! ### a category nobody carries does not appear in the summary -/

theorem addToCats_codes (r : Rule) (c : ℕ) (cb : Combo) (t : Amount) (cats : List CatTotal) :
    ∀ ct ∈ addToCats exactOps r c cb t cats, ct.code = cb.cat ∨ ∃ ct' ∈ cats, ct'.code = ct.code := by
  induction cats with
  | nil =>
    intro ct hct
    simp only [addToCats, List.mem_singleton] at hct
    subst hct
    exact Or.inl rfl
  | cons x xs ih =>
    intro ct hct
    unfold addToCats at hct
    split at hct
    · simp only [List.mem_cons] at hct
      rcases hct with rfl | hct
      · exact Or.inr ⟨x, by simp, rfl⟩
      · exact Or.inr ⟨ct, by simp [hct], rfl⟩
    · simp only [List.mem_cons] at hct
      rcases hct with rfl | hct
      · exact Or.inr ⟨ct, by simp, rfl⟩
      · rcases ih ct hct with h | ⟨ct', h1, h2⟩
        · exact Or.inl h
        · exact Or.inr ⟨ct', by simp [h1], h2⟩

theorem foldCombos_codes (r : Rule) (c : ℕ) (t : Amount) (cbs : List Combo) (cats : List CatTotal) (P : String → Prop)
    (hc : ∀ ct ∈ cats, P ct.code) (hb : ∀ cb ∈ cbs, P cb.cat) :
    ∀ ct ∈ cbs.foldl (fun cats cb => addToCats exactOps r c cb t cats) cats, P ct.code := by
  induction cbs generalizing cats with
  | nil => exact hc
  | cons cb cbs ih =>
    simp only [List.foldl_cons]
    apply ih
    · intro ct hct
      rcases addToCats_codes r c cb t cats ct hct with h | ⟨ct', h1, h2⟩
      · rw [h]; exact hb cb (by simp)
      · rw [← h2]; exact hc ct' h1
    · intro x hx; exact hb x (by simp [hx])

theorem baseRateTotals_codes_aux (r : Rule) (c : ℕ) (rows : List Row) (cats : List CatTotal) (P : String → Prop)
    (hc : ∀ ct ∈ cats, P ct.code) (hb : ∀ rw ∈ rows, ∀ cb ∈ rw.taxes, P cb.cat) :
    ∀ ct ∈ rows.foldl (fun cats rw => rw.taxes.foldl (fun cats cb => addToCats exactOps r c cb rw.total cats) cats) cats,
      P ct.code := by
  induction rows generalizing cats with
  | nil => exact hc
  | cons rw rows ih =>
    simp only [List.foldl_cons]
    apply ih
    · exact foldCombos_codes r c rw.total rw.taxes cats P hc (hb rw (by simp))
    · intro x hx; exact hb x (by simp [hx])

theorem baseRateTotals_codes (r : Rule) (c : ℕ) (rows : List Row) (P : String → Prop)
    (hb : ∀ rw ∈ rows, ∀ cb ∈ rw.taxes, P cb.cat) : ∀ ct ∈ baseRateTotals exactOps r c rows, P ct.code :=
  baseRateTotals_codes_aux r c rows [] P (by simp) hb

/-- no row carries a combo of category `k` -/
def NoCat (k : String) (taxes : List Combo) : Prop := taxes.find? (fun cb => cb.cat == k) = none

theorem noCat_iff (k : String) (taxes : List Combo) : NoCat k taxes ↔ ∀ cb ∈ taxes, cb.cat ≠ k := by
  unfold NoCat
  rw [List.find?_eq_none]
  constructor
  · intro h cb hcb heq; exact h cb hcb (by simp [heq])
  · intro h cb hcb heq; exact h cb hcb (by simpa using heq)

theorem removeIncluded_noop (k : String) (rows : List Row) (h : ∀ rw ∈ rows, NoCat k rw.taxes) :
    removeIncluded exactOps k rows = .ok rows := by
  induction rows with
  | nil => rfl
  | cons rw rows ih =>
    have h1 : removeIncludedRow exactOps k rw = .ok rw := by
      have := h rw (by simp)
      unfold NoCat at this
      simp [removeIncludedRow, this]
    simp only [removeIncluded, h1, ih (fun x hx => h x (by simp [hx]))]

theorem prepareRow_taxes (c : ℕ) (rw : Row) : (prepareRow c rw).taxes = rw.taxes := by
  unfold prepareRow
  split <;> rfl

/-- when no row carries category `k`, "prices include `k`" makes no difference to the tax summary, and
the summary has no category `k` -/
theorem taxTotal_noCat (r : Rule) (c : ℕ) (k : String) (rows : List Row) (h : ∀ rw ∈ rows, NoCat k rw.taxes) :
    taxTotal exactOps r c (some k) rows = taxTotal exactOps r c none rows ∧
    ∀ tx, taxTotal exactOps r c none rows = .ok tx → tx.cats.find? (fun ct => ct.code == k) = none := by
  have hprep : ∀ rw ∈ rows.map (prepareRow c), NoCat k rw.taxes := by
    intro rw hrw
    obtain ⟨rw', h1, rfl⟩ := List.mem_map.mp hrw
    rw [prepareRow_taxes]
    exact h rw' h1
  refine ⟨?_, ?_⟩
  · unfold taxTotal
    simp only [removeIncluded_noop k _ hprep]
  · intro tx htx
    unfold taxTotal at htx
    simp only at htx
    injection htx with htx
    subst htx
    rw [List.find?_eq_none]
    intro ct hct
    simp only [roundTax, List.mem_map] at hct
    obtain ⟨ct1, hct1, rfl⟩ := hct
    obtain ⟨ct0, hct0, rfl⟩ := hct1
    have hcode : ct0.code ≠ k :=
      baseRateTotals_codes r c (rows.map (prepareRow c)) (fun s => s ≠ k)
        (fun rw hrw cb hcb => (noCat_iff k rw.taxes).mp (hprep rw hrw) cb hcb) ct0 hct0
    simpa [catAmounts] using hcode

/-! ### nothing to remove -/

/-- an input line that the second calculation reproduces: `LineStable` of Proofs/CalcFix.lean (fixed
amounts not finer than the line is presented with: the complement is the known finding
`invert-after-in-place-rounding`), or a line that is already in the shape a calculation leaves -/
def InputLineStable (cur : String) (c : ℕ) (l : Line) : Prop := LineStable cur c l ∨ Settled cur c l

theorem lineFix_of_inputStable (cur : String) (c : ℕ) (rates : List XRate) (r : Rule) (l : Line)
    (h : InputLineStable cur c l) : LineFix cur c rates r l := by
  rcases h with h | h
  · intro l2 h2
    exact calcLine_fix cur c rates r l l2 h h2
  · exact lineFix_of_settled cur c rates r l h

/-- a document discount/charge whose stored amount survives presentation -/
def DocAdjStable' (r : Rule) (c : ℕ) (x : DocAdj) : Prop :=
  r = .currency ∨ (∃ p, x.percent = some p ∧ pctIsZero p = false) ∨ x.amount.exp ≤ adjExp c x

/-- the second calculation of the document reproduces the first: no fixed amount is finer than it is
presented with -/
def InputStable (d : Doc) : Prop :=
  (∀ l ∈ d.lines, InputLineStable d.cur d.c l) ∧
  (∀ x ∈ d.discounts ++ d.charges, DocAdjStable' d.rule d.c x) ∧
  (∀ a ∈ d.advances, AdvanceStable d.c a)

/-- no line, document discount or document charge carries a combo of category `k` -/
def NothingIncluded (k : String) (d : Doc) : Prop :=
  (∀ l ∈ d.lines, NoCat k l.taxes) ∧ (∀ x ∈ d.discounts ++ d.charges, NoCat k x.taxes)

theorem rowsFix_of_inputStable (d : Doc) (p : Pre) (hs : InputStable d) (hpre : pre exactOps d = .ok p) :
    RowsFix d p := by
  obtain ⟨hl, _, hd, hc, _, _⟩ := pre_ok d p hpre
  obtain ⟨s1, s2, _⟩ := hs
  refine ⟨?_, ?_, ?_⟩
  · exact calcLines_fix_of _ _ _ _ _ _ (fun l hl' => lineFix_of_inputStable _ _ _ _ l (s1 l hl')) hl
  · rw [hd, List.map_map, List.map_map]
    apply List.map_congr_left
    intro x hx
    exact docAdj_fix' d.rule d.c p.sum x (s2 x (by simp [hx]))
  · rw [hc, List.map_map, List.map_map]
    apply List.map_congr_left
    intro x hx
    exact docAdj_fix' d.rule d.c p.sum x (s2 x (by simp [hx]))

/-- the stored document, with another `prices_include` that gives the same `tax_included`, finishes
the same way -/
theorem finish_stored_eq (d : Doc) (p : Pre) (tx : TaxTotal) (i' : Option String)
    (hti : taxIncluded i' tx = taxIncluded d.includes tx) (hsa : ∀ a ∈ d.advances, AdvanceStable d.c a) :
    finish exactOps { stored d (finish exactOps d p tx) with includes := i', rounding := d.rounding } p tx =
      finish exactOps d p tx := by
  unfold finish rawTotals
  simp only [stored, hti]
  cases hpay : d.hasPayment
  · simp
  · simp only [if_true]
    rw [map_calcAdvance_fix d.c _ d.advances hsa]
    simp only [List.map_map]
    congr 1
    apply List.map_congr_left
    intro x _
    exact calcDue_idem d.c _ x

theorem taxRows_noCat (k : String) (lines : List Line) (ds cs : List DocAdj)
    (hl : ∀ l ∈ lines, NoCat k l.taxes) (hd : ∀ x ∈ ds, NoCat k x.taxes) (hc : ∀ x ∈ cs, NoCat k x.taxes) :
    ∀ rw ∈ taxRows lines ds cs, NoCat k rw.taxes := by
  intro rw hrw
  unfold taxRows at hrw
  simp only [List.mem_append, List.mem_filterMap, List.mem_map] at hrw
  rcases hrw with (⟨l, h1, h2⟩ | ⟨x, h1, rfl⟩) | ⟨x, h1, rfl⟩
  · cases ht : l.total with
    | none => simp [ht] at h2
    | some t =>
      simp only [ht, Option.map_some, Option.some.injEq] at h2
      rw [← h2]
      exact hl l h1
  · exact hd x h1
  · exact hc x h1

theorem mem_out_eta (d : Doc) (out : Out) :
    Mem.out { doc := stored d out, totals := out.totals } = out := by
  cases out
  rfl

/-- **Nothing to remove.**  If no line, document discount or document charge carries the included
category, and the document is one its second calculation reproduces (`InputStable`), then
`RemoveIncludedTaxes` returns exactly what the calculation returned: every row, every total, no
rounding.  (The flag is cleared: `removeIncludedMem_flag`.) -/
theorem removeIncludedDoc_nothing (d : Doc) (k : String) (out : Out) (t : Totals)
    (hk : d.includes = some k) (hr : d.rounding = none) (hs : InputStable d) (hn : NothingIncluded k d)
    (h1 : calculate exactOps d = .ok out) (ht : out.totals = some t) :
    removeIncludedDoc exactOps d = .ok out := by
  obtain ⟨p1, tx1, hpre1, hne1, htx1, hout⟩ := calculate_ok_totals d out t h1 ht
  obtain ⟨hl1, _, hd1, hc1, _, hrows1⟩ := pre_ok d p1 hpre1
  have hfix := rowsFix_of_inputStable d p1 hs hpre1
  obtain ⟨n1, n2⟩ := hn
  -- the rows of the calculation carry the same combos as the input
  have hlines : ∀ l1 ∈ p1.lines, NoCat k l1.taxes := by
    intro l1 hl1m
    obtain ⟨l0, hl0, hc⟩ := calcLines_mem _ _ _ _ _ _ hl1 l1 hl1m
    rw [calcLine_taxes _ _ _ _ l0 l1 hc]
    exact n1 l0 hl0
  have hadj : ∀ xs : List DocAdj, (∀ x ∈ xs, NoCat k x.taxes) →
      ∀ y ∈ xs.map (docAdj exactOps d.rule d.c p1.sum), NoCat k y.taxes := by
    intro xs hxs y hy
    obtain ⟨x, hx, rfl⟩ := List.mem_map.mp hy
    rw [(docAdj_keeps d.rule d.c p1.sum x).2.2]
    exact hxs x hx
  have hdisc : ∀ y ∈ p1.discounts, NoCat k y.taxes := by
    rw [hd1]; exact hadj d.discounts (fun x hx => n2 x (by simp [hx]))
  have hchg : ∀ y ∈ p1.charges, NoCat k y.taxes := by
    rw [hc1]; exact hadj d.charges (fun x hx => n2 x (by simp [hx]))
  have hrowsNo : ∀ rw ∈ p1.rows, NoCat k rw.taxes := by
    rw [hrows1]; exact taxRows_noCat k _ _ _ hlines hdisc hchg
  obtain ⟨htt1, htt2⟩ := taxTotal_noCat d.rule d.c k p1.rows hrowsNo
  have htxn : taxTotal exactOps d.rule d.c none p1.rows = .ok tx1 := by
    rw [← htt1, ← hk]; exact htx1
  have hcat : tx1.cats.find? (fun ct => ct.code == k) = none := htt2 tx1 htxn
  -- the removal leaves every row alone
  have hrem : removedDoc k (stored d (finish exactOps d p1 tx1)) =
      { stored d (finish exactOps d p1 tx1) with includes := none, rounding := d.rounding } := by
    unfold removedDoc
    have e1 : (stored d (finish exactOps d p1 tx1)).lines.map (removeLineIncluded exactOps k) =
        (stored d (finish exactOps d p1 tx1)).lines := by
      rw [List.map_congr_left (g := id)]
      · exact List.map_id _
      · intro l hl
        have hl' : l ∈ p1.lines.map (roundLine exactOps) := hl
        obtain ⟨l1, hl1m, rfl⟩ := List.mem_map.mp hl'
        apply removeLineIncluded_untouched
        intro cb p it pr hf
        have := hlines l1 hl1m
        unfold NoCat at this
        rw [roundLine_taxes, this] at hf
        cases hf
    have e2 : ∀ ys : List DocAdj, (∀ y ∈ ys, NoCat k y.taxes) →
        (ys.map (roundDocAdj exactOps d.c)).map (removeAdjIncluded exactOps k) = ys.map (roundDocAdj exactOps d.c) := by
      intro ys hys
      rw [List.map_congr_left (g := id)]
      · exact List.map_id _
      · intro y hy
        obtain ⟨y0, hy0, rfl⟩ := List.mem_map.mp hy
        apply removeAdjIncluded_untouched
        intro cb p hf
        have := hys y0 hy0
        unfold NoCat at this
        have ht : (roundDocAdj exactOps d.c y0).taxes = y0.taxes := rfl
        rw [ht, this] at hf
        cases hf
    have e3 : (stored d (finish exactOps d p1 tx1)).discounts.map (removeAdjIncluded exactOps k) =
        (stored d (finish exactOps d p1 tx1)).discounts := e2 p1.discounts hdisc
    have e4 : (stored d (finish exactOps d p1 tx1)).charges.map (removeAdjIncluded exactOps k) =
        (stored d (finish exactOps d p1 tx1)).charges := e2 p1.charges hchg
    rw [e1, e3, e4, hr]
  -- the recalculation
  have hpre2 : pre exactOps { stored d (finish exactOps d p1 tx1) with includes := none, rounding := d.rounding } = .ok p1 :=
    pre_congr d _ p1 hpre1 rfl rfl rfl rfl hfix.lines hfix.discounts hfix.charges
  have hcalc2 : calculate exactOps { stored d (finish exactOps d p1 tx1) with includes := none, rounding := d.rounding } =
      .ok (finish exactOps d p1 tx1) := by
    rw [calculate_of_pre _ p1 tx1 hpre2 hne1 htxn]
    congr 1
    apply finish_stored_eq d p1 tx1 none _ hs.2.2
    rw [hk]
    simp only [taxIncluded, hcat, Option.map_none]
  rw [removeIncludedDoc_eq d k out t hk hr h1 ht]
  unfold removeFrom
  rw [calcMem_removedMem]
  simp only
  rw [hout, hrem, hcalc2]
  simp only
  rw [← hout, ht]
  simp only
  rw [amtEq_same_exp _ _ rfl]
  simp only [beq_self_eq_true, Bool.not_true, Bool.false_eq_true, if_false]
  show Except.ok (Mem.out _) = Except.ok out
  congr 1
  rw [hout]
  have ht' : (finish exactOps d p1 tx1).totals = some t := by rw [← hout]; exact ht
  rw [← ht']
  exact mem_out_eta _ _

/-! ### the removal returns normally -/

theorem calcSubLine_settled_ok (cur : String) (c : ℕ) (rates : List XRate) (r : Rule) (sl : SubLine)
    (hs : SubSettled cur c sl) : ∃ sl2, calcSubLine exactOps cur c rates r sl = .ok sl2 := by
  unfold calcSubLine
  cases hi : sl.item with
  | none => exact ⟨_, rfl⟩
  | some it =>
    simp only
    cases hq : it.price with
    | none => exact ⟨_, rfl⟩
    | some q =>
      have hs' : (it.cur == "" || it.cur == cur) = true ∧ c ≤ q.exp := by simpa [SubSettled, hi, hq] using hs
      simp only [itemPrice_same cur c rates it q hs'.1]
      exact ⟨_, rfl⟩

theorem calcSubLines_settled_ok (cur : String) (c : ℕ) (rates : List XRate) (r : Rule) (sls : List SubLine)
    (hs : ∀ sl ∈ sls, SubSettled cur c sl) : ∃ bd, calcSubLines exactOps cur c rates r sls = .ok bd := by
  induction sls with
  | nil => exact ⟨[], rfl⟩
  | cons sl sls ih =>
    obtain ⟨sl2, h1⟩ := calcSubLine_settled_ok cur c rates r sl (hs sl (by simp))
    obtain ⟨bd, h2⟩ := ih (fun x hx => hs x (by simp [hx]))
    exact ⟨sl2 :: bd, by simp only [calcSubLines, h1, h2]⟩

/-- a settled line calculates without error; it has a total when it has a priced item, and is
returned as it is when it has no item -/
theorem calcLine_settled_ok (cur : String) (c : ℕ) (rates : List XRate) (r : Rule) (l : Line)
    (h : Settled cur c l) :
    ∃ l2, calcLine exactOps cur c rates r l = .ok l2 ∧
      (∀ it, l.item = some it → it.price.isSome = true → l2.total.isSome = true) ∧ (l.item = none → l2 = l) := by
  cases hi : l.item with
  | none =>
    refine ⟨l, ?_, ?_, fun _ => rfl⟩
    · unfold calcLine; simp only [hi]
    · intro it h1; cases h1
  | some it =>
    unfold Settled at h
    simp only [hi] at h
    obtain ⟨hsl, hrest⟩ := h
    obtain ⟨bd, hbd⟩ := calcSubLines_settled_ok cur c rates r l.breakdown hsl
    obtain ⟨_, _, s3, _, s5, _, _⟩ := calcSubLines_settled cur c rates r l.breakdown bd hsl hbd
    unfold calcLine
    simp only [hi, hbd]
    by_cases hany : l.breakdown.any SubPriced = true
    · have he1 : l.breakdown.isEmpty = false := by
        cases hl : l.breakdown with
        | nil => rw [hl] at hany; simp at hany
        | cons _ _ => rfl
      have he2 : (bd.filterMap (·.total)).isEmpty = false := by rw [s3, hany]; rfl
      simp only [he1, he2, Bool.or_self, Bool.false_eq_true, if_false]
      have hsame : ∀ p0 : Amount, ((({ it with cur := cur, sub := c, price := some p0, alts := [] } : Item).cur == "") ||
          (({ it with cur := cur, sub := c, price := some p0, alts := [] } : Item).cur == cur)) = true := by
        intro p0; simp
      simp only [itemPrice_same cur c rates _ _ (hsame _)]
      exact ⟨_, rfl, fun _ _ _ => rfl, fun h => by cases h⟩
    · have hany' : l.breakdown.any SubPriced = false := by simpa using hany
      have he2 : (bd.filterMap (·.total)).isEmpty = true := by rw [s3, hany']; rfl
      simp only [hany', Bool.false_eq_true, if_false] at hrest
      simp only [he2, Bool.or_true, if_true]
      cases hp : it.price with
      | none =>
        refine ⟨_, rfl, ?_, fun h => by cases h⟩
        intro it' h1 h2
        cases h1
        rw [hp] at h2
        cases h2
      | some p =>
        simp only [hp] at hrest
        simp only [itemPrice_same cur c rates it p hrest.1]
        exact ⟨_, rfl, fun _ _ _ => rfl, fun h => by cases h⟩

theorem calcLines_settled_ok (cur : String) (c : ℕ) (rates : List XRate) (r : Rule) (ls : List Line)
    (h : ∀ l ∈ ls, Settled cur c l) : ∃ out, calcLines exactOps cur c rates r ls = .ok out := by
  induction ls with
  | nil => exact ⟨[], rfl⟩
  | cons l ls ih =>
    obtain ⟨l2, h1, _⟩ := calcLine_settled_ok cur c rates r l (h l (by simp))
    obtain ⟨out, h2⟩ := ih (fun x hx => h x (by simp [hx]))
    exact ⟨l2 :: out, by simp only [calcLines, h1, h2]⟩

theorem calcLines_mem_fwd (cur : String) (c : ℕ) (rates : List XRate) (r : Rule) (ls ls1 : List Line)
    (h1 : calcLines exactOps cur c rates r ls = .ok ls1) :
    ∀ l ∈ ls, ∃ l1 ∈ ls1, calcLine exactOps cur c rates r l = .ok l1 := by
  induction ls generalizing ls1 with
  | nil => intro l hl; simp at hl
  | cons x xs ih =>
    simp only [calcLines] at h1
    cases ha : calcLine exactOps cur c rates r x with
    | error e => simp [ha] at h1
    | ok x1 =>
      cases hb : calcLines exactOps cur c rates r xs with
      | error e => simp [ha, hb] at h1
      | ok rest =>
        simp only [ha, hb] at h1
        injection h1 with h1
        subst h1
        intro l hl
        simp only [List.mem_cons] at hl
        rcases hl with rfl | hl
        · exact ⟨x1, by simp, ha⟩
        · obtain ⟨l1, hl1, h0⟩ := ih rest hb l hl
          exact ⟨l1, by simp [hl1], h0⟩

theorem roundLine_item (l : Line) : (roundLine exactOps l).item = l.item := by
  unfold roundLine
  split
  · rfl
  · split <;> rfl

theorem roundLine_total_isSome (l : Line) : (roundLine exactOps l).total.isSome = l.total.isSome := by
  unfold roundLine
  split
  · rfl
  · split
    · rfl
    · simp

/-- a stored line that had a total still has one after the removal and the next calculation -/
theorem stored_line_keeps_total (cur : String) (c : ℕ) (rates : List XRate) (r : Rule) (k : String) (l0 l1 l2 : Line)
    (hwf : LineWF cur c l0) (hr : RatesWF c rates) (h : calcLine exactOps cur c rates r l0 = .ok l1)
    (ht : l1.total.isSome = true)
    (h2 : calcLine exactOps cur c rates r (removeLineIncluded exactOps k (roundLine exactOps l1)) = .ok l2) :
    l2.total.isSome = true := by
  have hset := settled_remove cur c k _ (settled_of_calcLine cur c rates r l0 l1 hwf hr h)
  obtain ⟨l2', h2', hpriced, hnone⟩ := calcLine_settled_ok cur c rates r _ hset
  rw [h2] at h2'
  injection h2' with h2'
  subst h2'
  cases hi : l1.item with
  | none =>
    -- no item: nothing touches the line
    have hr1 : roundLine exactOps l1 = l1 := by unfold roundLine; simp only [hi]
    have hr2 : removeLineIncluded exactOps k l1 = l1 := by
      apply removeLineIncluded_untouched
      intro cb p it pr _ _ h3; rw [hi] at h3; cases h3
    rw [hr1, hr2] at hnone
    rw [hnone hi]
    exact ht
  | some it1 =>
    -- an item: the line has a total only if the item has a price
    have hp1 : it1.price.isSome = true := by
      unfold calcLine at h
      cases hi0 : l0.item with
      | none =>
        simp only [hi0] at h
        injection h with h
        rw [← h, hi0] at hi
        cases hi
      | some it0 =>
        simp only [hi0] at h
        cases hbd : calcSubLines exactOps cur c rates r l0.breakdown with
        | error e => simp [hbd] at h
        | ok bd =>
          simp only [hbd] at h
          split at h
          · injection h with h
            rw [← h] at ht
            simp at ht
          · split at h
            · cases h
            · rename_i it2 hip
              injection h with h
              rw [← h] at hi
              simp only [Option.some.injEq] at hi
              rw [← hi]
              obtain ⟨_, _, p1, hp1, _⟩ := itemPrice_norm cur c rates _ it2 _ (by
                split
                · exact hwf.1 it0 hi0
                · intro _; exact Nat.le_refl _) hr hip
              rw [hp1]; rfl
    have hitem : ∃ it', (removeLineIncluded exactOps k (roundLine exactOps l1)).item = some it' ∧ it'.price.isSome = true := by
      have hri : (roundLine exactOps l1).item = some it1 := by rw [roundLine_item, hi]
      unfold removeLineIncluded
      split
      · exact ⟨it1, hri, hp1⟩
      · split
        · exact ⟨it1, hri, hp1⟩
        · split
          · exact ⟨it1, hri, hp1⟩
          · split
            · exact ⟨it1, hri, hp1⟩
            · exact ⟨_, rfl, rfl⟩
    obtain ⟨it', h3, h4⟩ := hitem
    exact hpriced it' h3 h4

theorem taxRows_nonempty_elim (lines : List Line) (ds cs : List DocAdj)
    (h : (taxRows lines ds cs).isEmpty = false) :
    (∃ l ∈ lines, l.total.isSome = true) ∨ ds ≠ [] ∨ cs ≠ [] := by
  cases ds with
  | cons _ _ => exact Or.inr (Or.inl (by simp))
  | nil =>
    cases cs with
    | cons _ _ => exact Or.inr (Or.inr (by simp))
    | nil =>
      left
      simp only [taxRows, List.map_nil, List.append_nil] at h
      cases hf : lines.filterMap (fun l => l.total.map (fun t => ({ total := t, taxes := l.taxes } : Row))) with
      | nil => rw [hf] at h; simp at h
      | cons rw rest =>
        have hm : rw ∈ lines.filterMap (fun l => l.total.map (fun t => ({ total := t, taxes := l.taxes } : Row))) := by
          rw [hf]; simp
        obtain ⟨l, hl, h2⟩ := List.mem_filterMap.mp hm
        refine ⟨l, hl, ?_⟩
        cases ht : l.total with
        | none => simp [ht] at h2
        | some t => rfl

theorem taxRows_nonempty_intro (lines : List Line) (ds cs : List DocAdj)
    (h : (∃ l ∈ lines, l.total.isSome = true) ∨ ds ≠ [] ∨ cs ≠ []) :
    (taxRows lines ds cs).isEmpty = false := by
  unfold taxRows
  rcases h with ⟨l, hl, ht⟩ | h | h
  · cases htt : l.total with
    | none => rw [htt] at ht; cases ht
    | some t =>
      have hm : (⟨t, l.taxes⟩ : Row) ∈ lines.filterMap (fun l => l.total.map (fun t => ({ total := t, taxes := l.taxes } : Row))) :=
        List.mem_filterMap.mpr ⟨l, hl, by simp [htt]⟩
      cases hA : lines.filterMap (fun l => l.total.map (fun t => ({ total := t, taxes := l.taxes } : Row))) with
      | nil => rw [hA] at hm; simp at hm
      | cons _ _ => simp
  · cases ds with
    | nil => exact absurd rfl h
    | cons _ _ => simp
  · cases cs with
    | nil => exact absurd rfl h
    | cons _ _ => simp

/-- **`RemoveIncludedTaxes` returns normally.**  In the domain of `removeIncludedDoc_payable` (a
document with `prices_include`, without supplied rounding, well formed, no fixed document row carrying
the included tax unless the rule is `currency`) that calculates with totals, none of the error exits of
the model is taken: no recalculation fails and the totals are never nil (`RemErr.nilTotals`). -/
theorem removeIncludedDoc_succeeds (d : Doc) (k : String) (out : Out) (t : Totals)
    (hk : d.includes = some k) (hr : d.rounding = none)
    (hwf : ∀ l ∈ d.lines, LineWF d.cur d.c l) (hrates : RatesWF d.c d.rates)
    (hrows : d.rule = .currency ∨ ∀ x ∈ d.discounts ++ d.charges, ¬ FixedIncludedRow k x)
    (h1 : calculate exactOps d = .ok out) (ht : out.totals = some t) :
    ∃ out', removeIncludedDoc exactOps d = .ok out' := by
  obtain ⟨p1, tx1, hpre1, hne1, htx1, hout⟩ := calculate_ok_totals d out t h1 ht
  obtain ⟨hl1, _, hd1, hc1, _, hrows1⟩ := pre_ok d p1 hpre1
  -- the lines after the removal are settled, so they calculate
  have hsettled : ∀ l' ∈ (removedDoc k (stored d (finish exactOps d p1 tx1))).lines, Settled d.cur d.c l' := by
    intro l' hl'
    have hl'' : l' ∈ ((p1.lines.map (roundLine exactOps)).map (removeLineIncluded exactOps k)) := hl'
    obtain ⟨lr, hlr, rfl⟩ := List.mem_map.mp hl''
    obtain ⟨l1, hl1m, rfl⟩ := List.mem_map.mp hlr
    obtain ⟨l0, hl0, hcalc⟩ := calcLines_mem _ _ _ _ _ _ hl1 l1 hl1m
    exact settled_remove _ _ k _ (settled_of_calcLine _ _ _ _ l0 l1 (hwf l0 hl0) hrates hcalc)
  obtain ⟨ls2, hls2⟩ := calcLines_settled_ok d.cur d.c d.rates d.rule _ hsettled
  have hpre2e : ∃ p2, pre exactOps (removedDoc k (stored d (finish exactOps d p1 tx1))) = .ok p2 := by
    unfold pre
    have e : calcLines exactOps (removedDoc k (stored d (finish exactOps d p1 tx1))).cur
        (removedDoc k (stored d (finish exactOps d p1 tx1))).c (removedDoc k (stored d (finish exactOps d p1 tx1))).rates
        (removedDoc k (stored d (finish exactOps d p1 tx1))).rule
        (removedDoc k (stored d (finish exactOps d p1 tx1))).lines = .ok ls2 := hls2
    simp only [e]
    exact ⟨_, rfl⟩
  obtain ⟨p2, hpre2⟩ := hpre2e
  obtain ⟨hl2, _, hd2, hc2, _, hrows2⟩ := pre_ok _ p2 hpre2
  have hne2 : p2.rows.isEmpty = false := by
    rw [hrows2]
    apply taxRows_nonempty_intro
    rw [hrows1] at hne1
    rcases taxRows_nonempty_elim _ _ _ hne1 with ⟨l1, hl1m, ht1⟩ | h | h
    · left
      have hl' : removeLineIncluded exactOps k (roundLine exactOps l1) ∈
          (removedDoc k (stored d (finish exactOps d p1 tx1))).lines :=
        List.mem_map.mpr ⟨roundLine exactOps l1, List.mem_map.mpr ⟨l1, hl1m, rfl⟩, rfl⟩
      obtain ⟨l2, hl2m, hc2'⟩ := calcLines_mem_fwd _ _ _ _ _ _ hl2 _ hl'
      obtain ⟨l0, hl0, hc0⟩ := calcLines_mem _ _ _ _ _ _ hl1 l1 hl1m
      exact ⟨l2, hl2m, stored_line_keeps_total d.cur d.c d.rates d.rule k l0 l1 l2 (hwf l0 hl0) hrates hc0 ht1 hc2'⟩
    · right; left
      rw [hd2]
      show List.map _ (List.map (removeAdjIncluded exactOps k) (List.map (roundDocAdj exactOps d.c) p1.discounts)) ≠ []
      simpa [List.map_eq_nil_iff] using h
    · right; right
      rw [hc2]
      show List.map _ (List.map (removeAdjIncluded exactOps k) (List.map (roundDocAdj exactOps d.c) p1.charges)) ≠ []
      simpa [List.map_eq_nil_iff] using h
  have htx2e : ∃ tx2, taxTotal exactOps (removedDoc k (stored d (finish exactOps d p1 tx1))).rule
      (removedDoc k (stored d (finish exactOps d p1 tx1))).c (removedDoc k (stored d (finish exactOps d p1 tx1))).includes
      p2.rows = .ok tx2 := by
    show ∃ tx2, taxTotal exactOps d.rule d.c none p2.rows = .ok tx2
    unfold taxTotal
    exact ⟨_, rfl⟩
  obtain ⟨tx2, htx2⟩ := htx2e
  have hcalc2 := calculate_of_pre _ p2 tx2 hpre2 hne2 htx2
  have hrf := removed_rowsFix d k p1 tx1 hpre1 hwf hrates hrows p2 hpre2
  rw [removeIncludedDoc_eq d k out t hk hr h1 ht, hout]
  suffices hs : ∃ m', removeFrom exactOps k
      { doc := stored d (finish exactOps d p1 tx1), totals := (finish exactOps d p1 tx1).totals } t = .ok m' by
    obtain ⟨m', hm'⟩ := hs
    exact ⟨m'.out, by rw [hm']; rfl⟩
  unfold removeFrom
  rw [calcMem_removedMem]
  simp only
  rw [hcalc2]
  have hfin : (finish exactOps (removedDoc k (stored d (finish exactOps d p1 tx1))) p2 tx2).totals =
      some (roundTotals exactOps d.c (rawTotals exactOps (removedDoc k (stored d (finish exactOps d p1 tx1))) p2 tx2)) := rfl
  simp only [hfin]
  split
  · have h3 := calculate_stored _ p2 tx2
      (some (sub exactOps t.totalWithTax (roundTotals exactOps d.c (rawTotals exactOps (removedDoc k (stored d (finish exactOps d p1 tx1))) p2 tx2)).totalWithTax))
      hpre2 hne2 htx2 hrf
    unfold calcMem
    simp only [Option.bind_some]
    rw [h3]
    exact ⟨_, rfl⟩
  · exact ⟨_, rfl⟩

end GoblVerif.Calc
