/-
  From the per-level identities of the currency rule (Proofs/CalcCurrency.lean,
  Props/C03.lean) to the executable oracle `Spec.C03.readdOk` on the whole
  output of `Calc.calculate`:

  * breakdown rows (the line-level lemmas of CalcCurrency stop at lines),
  * presented item prices are never coarser than the currency, so the
    presentation rounding of `Line.round` / `Discount.round` / `Totals.round` /
    `tax.Total.round` leaves every figure untouched,
  * the tax summary with the percentage identity of every rate and surcharge,
    and when a category surcharge is presented at all,
  * advances and due dates,
  * the bridge from "integers at the currency's exponent" to the exact
    rational arithmetic of the oracle.
-/
import GoblVerif.Spec.C03
import GoblVerif.Proofs.CalcCurrency
import GoblVerif.Proofs.CalcTax

namespace GoblVerif.Calc
open GoblVerif.Spec GoblVerif.Spec.C03

/-! ## integers at one exponent ↔ exact rationals -/

theorem toRat_at (a : Amount) (c : ℕ) (h : a.exp = c) : a.toRat = (a.value : ℚ) / ((pow10 c : ℤ) : ℚ) := by
  rw [← h]; rfl

theorem qsum_at (c : ℕ) (xs : List Amount) (h : ∀ x ∈ xs, x.exp = c) :
    qsum xs = (((xs.map (·.value)).sum : ℤ) : ℚ) / ((pow10 c : ℤ) : ℚ) := by
  unfold qsum
  induction xs with
  | nil => simp
  | cons x xs ih =>
    simp only [List.map_cons, List.sum_cons]
    rw [ih (fun y hy => h y (by simp [hy])), toRat_at x c (h x (by simp))]
    push_cast
    ring

/-- the value of an optional figure, 0 when absent -/
def v0 (a : Option Amount) : ℤ := match a with | some x => x.value | none => 0

theorem q0_at (c : ℕ) (a : Option Amount) (h : ∀ x, a = some x → x.exp = c) :
    q0 a = ((v0 a : ℤ) : ℚ) / ((pow10 c : ℤ) : ℚ) := by
  cases a with
  | none => simp [q0, v0]
  | some x => simp only [q0, v0]; exact toRat_at x c (h x rfl)

theorem atMost_of_eq (c : ℕ) (a : Amount) (h : a.exp = c) : atMost c a = true := by
  simp [atMost, h]

theorem atMost_mono (c e : ℕ) (a : Amount) (h : a.exp = c) (hce : c ≤ e) : atMost e a = true := by
  simp only [atMost, decide_eq_true_eq]; omega

theorem atMostO_of_eq (c : ℕ) (a : Option Amount) (h : ∀ x, a = some x → x.exp = c) : atMostO c a = true := by
  cases a with
  | none => rfl
  | some x => exact atMost_of_eq c x (h x rfl)

/-- total = sum − discounts + charges as integers at exponent `c` is the oracle's row identity -/
theorem rowOk_of_values (c e : ℕ) (hce : c ≤ e) (s t : Amount) (ds cs : List LineAdj)
    (hs : s.exp = c) (hd : ∀ d ∈ ds, d.amount.exp = c) (hc : ∀ d ∈ cs, d.amount.exp = c)
    (ht : t = ⟨s.value - (ds.map (·.amount.value)).sum + (cs.map (·.amount.value)).sum, c⟩) :
    rowOk e s t ds cs = true := by
  have hte : t.exp = c := by rw [ht]
  have hq : t.toRat = s.toRat - qsum (ds.map (·.amount)) + qsum (cs.map (·.amount)) := by
    rw [qsum_at c (ds.map (·.amount)) (by
          intro x hx; simp only [List.mem_map] at hx; obtain ⟨y, hy, rfl⟩ := hx; exact hd y hy),
        qsum_at c (cs.map (·.amount)) (by
          intro x hx; simp only [List.mem_map] at hx; obtain ⟨y, hy, rfl⟩ := hx; exact hc y hy),
        toRat_at s c hs, toRat_at t c hte, ht]
    simp only [List.map_map, Function.comp_def]
    push_cast
    ring
  unfold rowOk
  simp only [Bool.and_eq_true, decide_eq_true_eq, List.all_eq_true]
  exact ⟨⟨⟨⟨hq, atMost_mono c e s hs hce⟩, atMost_mono c e t hte hce⟩,
    fun d hd' => atMost_mono c e d.amount (hd d hd') hce⟩, fun d hd' => atMost_mono c e d.amount (hc d hd') hce⟩

/-! ## breakdown rows under the currency rule -/

/-- the guard of C03 for a breakdown row (same as `lineGuard`) -/
def subGuard (c : ℕ) (sl : SubLine) : Prop :=
  (∀ d ∈ sl.discounts, d.rate = none ∧ adjGuard c d = true) ∧ (∀ d ∈ sl.charges, adjGuard c d = true)

/-- what a calculated breakdown row presents: nothing, or a sum and a total that re-add at the currency's exponent -/
def SubFacts (c : ℕ) (sl : SubLine) : Prop :=
  (sl.sum = none ∧ sl.total = none) ∨
  ∃ s t, sl.sum = some s ∧ sl.total = some t ∧ s.exp = c ∧
    (∀ d ∈ sl.discounts, d.amount.exp = c) ∧ (∀ d ∈ sl.charges, d.amount.exp = c) ∧
    t = ⟨s.value - (sl.discounts.map (·.amount.value)).sum + (sl.charges.map (·.amount.value)).sum, c⟩

theorem calcSubLine_currency (cur : String) (c : ℕ) (rates : List XRate) (sl sl' : SubLine)
    (hg : subGuard c sl) (hclean : sl.sum = none ∧ sl.total = none)
    (h : calcSubLine exactOps cur c rates .currency sl = .ok sl') : SubFacts c sl' := by
  unfold calcSubLine at h
  split at h
  · cases h; exact Or.inl hclean
  · split at h
    · cases h; exact Or.inl ⟨rfl, rfl⟩
    · rename_i it p0 hp0
      split at h
      · simp at h
      · rename_i it' hit'
        injection h with h
        subst h
        have hsum : (applyRule exactOps .currency c (exactOps.mul
            (if (Rule.currency == Rule.precise) = true then up (it'.price.getD p0) (c + E) else it'.price.getD p0) sl.qty)).exp = c :=
          applyRule_currency_exp c _
        have hD := lineDiscounts_currency c _ hsum sl.discounts (fun d hd => (hg.1 d hd).1) (fun d hd => (hg.1 d hd).2)
          _ hsum
        have hC := lineCharges_currency c sl.qty _ hsum sl.charges hg.2
          (lineDiscounts exactOps .currency c _ sl.discounts _).2 (by rw [hD.2])
        refine Or.inr ⟨_, _, rfl, rfl, hsum, hD.1, hC.1, ?_⟩
        rw [hC.2, hD.2]

theorem calcSubLines_currency (cur : String) (c : ℕ) (rates : List XRate) (sls out : List SubLine)
    (hg : ∀ sl ∈ sls, subGuard c sl) (hclean : ∀ sl ∈ sls, sl.sum = none ∧ sl.total = none)
    (h : calcSubLines exactOps cur c rates .currency sls = .ok out) : ∀ sl ∈ out, SubFacts c sl := by
  induction sls generalizing out with
  | nil => simp [calcSubLines] at h; subst h; simp
  | cons sl sls ih =>
    unfold calcSubLines at h
    cases h1 : calcSubLine exactOps cur c rates .currency sl with
    | error e => simp [h1] at h
    | ok sl' =>
      simp only [h1] at h
      cases h2 : calcSubLines exactOps cur c rates .currency sls with
      | error e => simp [h2] at h
      | ok sls' =>
        simp only [h2] at h
        injection h with h
        subst h
        intro x hx
        simp only [List.mem_cons] at hx
        rcases hx with rfl | hx
        · exact calcSubLine_currency cur c rates sl x (hg sl (by simp)) (hclean sl (by simp)) h1
        · exact ih sls' (fun y hy => hg y (by simp [hy])) (fun y hy => hclean y (by simp [hy])) h2 x hx

theorem subLineOk_of_facts (c e : ℕ) (hce : c ≤ e) (sl : SubLine) (h : SubFacts c sl) : subLineOk e sl = true := by
  unfold subLineOk
  rcases h with ⟨h1, h2⟩ | ⟨s, t, h1, h2, hs, hd, hc, ht⟩
  · simp [h1]
  · simp only [h1, h2]
    exact rowOk_of_values c e hce s t _ _ hs hd hc ht

/-! ## the presented item price is never coarser than the currency -/

/-- the encoding of an item: its `sub` field is the number of decimals of its
    currency; for an item priced in the document's currency that is at least `c` -/
def itemOk (cur : String) (c : ℕ) (it : Item) : Prop := (it.cur = "" ∨ it.cur = cur) → c ≤ it.sub

/-- the encoding of an exchange rate: `toSub` is the number of decimals of the destination currency -/
def ratesOk (cur : String) (c : ℕ) (rates : List XRate) : Prop := ∀ r ∈ rates, r.to = cur → c ≤ r.toSub

theorem convert_exp_rd (r : XRate) (a : Amount) : (convert exactOps r a).exp = r.toSub := by
  unfold convert
  simp only
  split
  · simp only [exact_mul, mulX_exp, up_exp]; simp
  · rename_i h
    simp only [exact_mul, mulX_exp, up_exp]; omega

theorem itemPrice_exp (cur : String) (c : ℕ) (rates : List XRate) (it it' : Item) (p0 : Amount)
    (hi : itemOk cur c it) (hr : ratesOk cur c rates)
    (h : itemPrice exactOps cur c rates it p0 = .ok it') : ∃ p, it'.price = some p ∧ c ≤ p.exp := by
  unfold itemPrice at h
  simp only at h
  split at h
  · rename_i hc
    injection h with h
    subst h
    refine ⟨_, rfl, ?_⟩
    rw [up_exp]
    have : c ≤ it.sub := hi (by simpa using hc)
    omega
  · split at h
    · injection h with h
      subst h
      refine ⟨_, rfl, ?_⟩
      rw [up_exp]; omega
    · split at h
      · rename_i r hf
        injection h with h
        subst h
        refine ⟨_, rfl, ?_⟩
        rw [convert_exp_rd]
        unfold findRate at hf
        have hm := List.mem_of_find?_eq_some hf
        have hp := List.find?_some hf
        simp only [Bool.and_eq_true, beq_iff_eq] at hp
        exact hr r hm hp.2
      · simp at h

/-! ## lines -/

/-- what a calculated line presents: nothing (no item, or no price), or a sum and
    a total that re-add at the currency's exponent, with an item price of at
    least the currency's precision and breakdown rows that re-add -/
def LineFacts (c : ℕ) (l : Line) : Prop :=
  (l.sum = none ∧ l.total = none ∧ (l.item = none ∨ ∃ it, l.item = some it ∧ it.price = none)) ∨
  ∃ s t it p, l.sum = some s ∧ l.total = some t ∧ l.item = some it ∧ it.price = some p ∧ c ≤ p.exp ∧
    s.exp = c ∧ (∀ d ∈ l.discounts, d.amount.exp = c) ∧ (∀ d ∈ l.charges, d.amount.exp = c) ∧
    t = ⟨s.value - (l.discounts.map (·.amount.value)).sum + (l.charges.map (·.amount.value)).sum, c⟩ ∧
    (∀ sl ∈ l.breakdown, SubFacts c sl)

/-- input lines carry no figures of an earlier calculation -/
def lineClean (l : Line) : Prop :=
  l.sum = none ∧ l.total = none ∧ ∀ sl ∈ l.breakdown, sl.sum = none ∧ sl.total = none

theorem calcLine_facts (cur : String) (c : ℕ) (rates : List XRate) (l l' : Line)
    (hg : lineGuard c l) (hgs : ∀ sl ∈ l.breakdown, subGuard c sl) (hclean : lineClean l)
    (hi : ∀ it, l.item = some it → itemOk cur c it) (hr : ratesOk cur c rates)
    (h : calcLine exactOps cur c rates .currency l = .ok l') : LineFacts c l' := by
  unfold calcLine at h
  cases hit : l.item with
  | none =>
    simp only [hit] at h
    cases h
    exact Or.inl ⟨hclean.1, hclean.2.1, Or.inl hit⟩
  | some it0 =>
    simp only [hit] at h
    cases hbd : calcSubLines exactOps cur c rates .currency l.breakdown with
    | error e => simp [hbd] at h
    | ok bd =>
      simp only [hbd] at h
      have hbdf := calcSubLines_currency cur c rates l.breakdown bd hgs hclean.2.2 hbd
      split at h
      · rename_i hpn
        cases h
        exact Or.inl ⟨rfl, rfl, Or.inr ⟨_, rfl, hpn⟩⟩
      · rename_i p0 hp0
        split at h
        · simp at h
        · rename_i it2 hit2
          injection h with h
          subst h
          -- the item handed to `itemPrice` is in the document's currency at `c`, or the input item
          have hi1 : itemOk cur c
              (if (l.breakdown.isEmpty || (bd.filterMap (·.total)).isEmpty) = true then it0 else
                { it0 with cur := cur, sub := c,
                           price := some (exactOps.rescale ((bd.filterMap (·.total)).foldl (accum exactOps) ⟨0, c⟩) (subLinePrecision bd)),
                           alts := [] }) := by
            split
            · exact hi it0 hit
            · intro _; exact Nat.le_refl c
          obtain ⟨p, hp, hpc⟩ := itemPrice_exp cur c rates _ it2 p0 hi1 hr hit2
          have hsum : (applyRule exactOps .currency c (exactOps.mul (up (it2.price.getD p0) c) l.qty)).exp = c :=
            applyRule_currency_exp c _
          have hD := lineDiscounts_currency c _ hsum l.discounts (fun d hd => (hg.1 d hd).1) (fun d hd => (hg.1 d hd).2)
            _ hsum
          have hC := lineCharges_currency c l.qty _ hsum l.charges hg.2
            (lineDiscounts exactOps .currency c _ l.discounts _).2 (by rw [hD.2])
          simp only [show (Rule.currency == Rule.precise) = false from rfl, Bool.false_eq_true, if_false] at hD hC ⊢
          refine Or.inr ⟨_, _, it2, p, rfl, rfl, rfl, hp, hpc, hsum, hD.1, hC.1, ?_, hbdf⟩
          rw [hC.2, hD.2]

theorem calcLines_facts (cur : String) (c : ℕ) (rates : List XRate) (ls out : List Line)
    (hg : ∀ l ∈ ls, lineGuard c l ∧ ∀ sl ∈ l.breakdown, subGuard c sl) (hclean : ∀ l ∈ ls, lineClean l)
    (hi : ∀ l ∈ ls, ∀ it, l.item = some it → itemOk cur c it) (hr : ratesOk cur c rates)
    (h : calcLines exactOps cur c rates .currency ls = .ok out) : ∀ l ∈ out, LineFacts c l := by
  induction ls generalizing out with
  | nil => simp [calcLines] at h; subst h; simp
  | cons l ls ih =>
    unfold calcLines at h
    cases h1 : calcLine exactOps cur c rates .currency l with
    | error e => simp [h1] at h
    | ok l' =>
      simp only [h1] at h
      cases h2 : calcLines exactOps cur c rates .currency ls with
      | error e => simp [h2] at h
      | ok ls' =>
        simp only [h2] at h
        injection h with h
        subst h
        intro x hx
        simp only [List.mem_cons] at hx
        rcases hx with rfl | hx
        · exact calcLine_facts cur c rates l x (hg l (by simp)).1 (hg l (by simp)).2 (hclean l (by simp))
            (hi l (by simp)) hr h1
        · exact ih ls' (fun y hy => hg y (by simp [hy])) (fun y hy => hclean y (by simp [hy]))
            (fun y hy => hi y (by simp [hy])) h2 x hx

theorem lineOk_of_facts (c : ℕ) (l : Line) (h : LineFacts c l) : lineOk c l = true := by
  unfold lineOk
  rcases h with ⟨h1, h2, _⟩ | ⟨s, t, it, p, h1, h2, h3, h4, hpc, hs, hd, hc, ht, hsl⟩
  · simp [h1]
  · simp only [h1, h2, Bool.and_eq_true, List.all_eq_true]
    have hce : c ≤ max c (priceExp l.item) := Nat.le_max_left _ _
    exact ⟨rowOk_of_values c _ hce s t _ _ hs hd hc ht, fun sl hsl' => subLineOk_of_facts c _ hce sl (hsl sl hsl')⟩

/-! ## presentation rounding leaves a calculated line untouched -/

theorem down_self (a : Amount) (e : ℕ) (h : a.exp ≤ e) : down exactOps a e = a := by
  unfold down
  have : ¬ e < a.exp := by omega
  simp [this]

theorem map_roundAdj_self (e : ℕ) (ds : List LineAdj) (h : ∀ d ∈ ds, d.amount.exp ≤ e) :
    ds.map (roundAdj exactOps e) = ds := by
  induction ds with
  | nil => rfl
  | cons d ds ih =>
    simp only [List.map_cons]
    rw [ih (fun x hx => h x (by simp [hx]))]
    congr 1
    unfold roundAdj
    rw [down_self _ _ (h d (by simp))]

theorem roundSubLine_self (c e : ℕ) (hce : c ≤ e) (sl : SubLine) (h : SubFacts c sl) :
    roundSubLine exactOps e sl = sl := by
  unfold roundSubLine
  rcases h with ⟨h1, h2⟩ | ⟨s, t, h1, h2, hs, _, _, ht⟩
  · cases sl; simp_all
  · have hte : t.exp = c := by rw [ht]
    cases sl
    simp only at h1 h2
    simp only [h1, h2, Option.map_some]
    rw [down_self s e (by omega), down_self t e (by omega)]

theorem roundLine_self (c : ℕ) (l : Line) (h : LineFacts c l) : roundLine exactOps l = l := by
  unfold roundLine
  rcases h with ⟨_, _, h3 | ⟨it, h3, h4⟩⟩ | ⟨s, t, it, p, h1, h2, h3, h4, hpc, hs, hd, hc, ht, hsl⟩
  · simp [h3]
  · simp [h3, h4]
  · have hte : t.exp = c := by rw [ht]
    simp only [h3, h4]
    have e1 : l.discounts.map (roundAdj exactOps p.exp) = l.discounts :=
      map_roundAdj_self _ _ (fun d hd' => by rw [hd d hd']; exact hpc)
    have e2 : l.charges.map (roundAdj exactOps p.exp) = l.charges :=
      map_roundAdj_self _ _ (fun d hd' => by rw [hc d hd']; exact hpc)
    have e3 : l.breakdown.map (roundSubLine exactOps p.exp) = l.breakdown := by
      have : ∀ (xs : List SubLine), (∀ sl ∈ xs, SubFacts c sl) → xs.map (roundSubLine exactOps p.exp) = xs := by
        intro xs
        induction xs with
        | nil => intro _; rfl
        | cons x xs ih =>
          intro hx
          simp only [List.map_cons]
          rw [ih (fun y hy => hx y (by simp [hy])), roundSubLine_self c p.exp hpc x (hx x (by simp))]
      exact this _ hsl
    rw [e1, e2, e3, h1, h2]
    simp only [Option.map_some]
    rw [down_self s _ (by omega), down_self t _ (by omega)]
    cases l
    simp_all

theorem map_roundLine_self (c : ℕ) (ls : List Line) (h : ∀ l ∈ ls, LineFacts c l) :
    ls.map (roundLine exactOps) = ls := by
  induction ls with
  | nil => rfl
  | cons l ls ih =>
    simp only [List.map_cons]
    rw [ih (fun x hx => h x (by simp [hx])), roundLine_self c l (h l (by simp))]

/-! ## the tax summary -/

/-- a rate group at the currency's exponent whose amounts are the rounded percentages of its base -/
def RateFacts (c : ℕ) (rt : RateTotal) : Prop :=
  rt.base.exp = c ∧ rt.amount.exp = c ∧ (rt.percent = none → rt.amount.value = 0) ∧
  ∀ p, rt.percent = some p →
    rt.amount.value = roundTo c (rt.base.toRat * p.amount.toRat) ∧
    ∀ sp sa, rt.surcharge = some (sp, sa) → sa.exp = c ∧ sa.value = roundTo c (rt.base.toRat * sp.amount.toRat)

theorem rateAmounts_facts (c : ℕ) (rt : RateTotal) (h : rt.base.exp = c) :
    RateFacts c (rateAmounts exactOps rt c) := by
  unfold rateAmounts
  cases hp : rt.percent with
  | none =>
    refine ⟨h, rfl, fun _ => rfl, ?_⟩
    intro p hp'
    simp [hp] at hp'
  | some p =>
    refine ⟨h, by simp [h], fun hn => by simp [hp] at hn, ?_⟩
    intro p' hp'
    simp only [hp, Option.some.injEq] at hp'
    subst hp'
    refine ⟨by simp only [pctOf, exact_mul]; rw [mulX_spec, h], ?_⟩
    intro sp sa hs
    cases hsr : rt.surcharge with
    | none => simp [hsr] at hs
    | some x =>
      obtain ⟨sp0, sa0⟩ := x
      simp only [hsr, Option.map_some, Option.some.injEq, Prod.mk.injEq] at hs
      obtain ⟨rfl, rfl⟩ := hs
      exact ⟨h, by simp only [pctOf, exact_mul]; rw [mulX_spec, h]⟩

theorem isPctOf_of (c : ℕ) (p : Pct) (base a : Amount) (he : a.exp = c)
    (hv : a.value = roundTo c (base.toRat * p.amount.toRat)) : isPctOf c p base a = true := by
  simp [isPctOf, he, hv]

theorem rateOk_of_facts (c : ℕ) (rt : RateTotal) (h : RateFacts c rt) : rateOk c rt = true := by
  obtain ⟨hb, ha, _, hp⟩ := h
  unfold rateOk
  simp only [Bool.and_eq_true]
  refine ⟨⟨atMost_of_eq c _ hb, atMost_of_eq c _ ha⟩, ?_⟩
  cases hpp : rt.percent with
  | none => rfl
  | some p =>
    obtain ⟨h1, h2⟩ := hp p hpp
    simp only [Bool.and_eq_true]
    refine ⟨isPctOf_of c p _ _ ha h1, ?_⟩
    cases hs : rt.surcharge with
    | none => rfl
    | some x =>
      obtain ⟨sp, sa⟩ := x
      obtain ⟨e1, e2⟩ := h2 sp sa hs
      exact isPctOf_of c sp _ _ e1 e2

/-- `tax.Total.round` on one rate group -/
def presentRate (c : ℕ) (rt : RateTotal) : RateTotal :=
  { rt with amount := exactOps.rescale rt.amount c, base := exactOps.rescale rt.base c,
            surcharge := rt.surcharge.map (fun (sp, sa) => (sp, exactOps.rescale sa c)) }

/-- `tax.Total.round` on one category -/
def presentCat (c : ℕ) (ct : CatTotal) : CatTotal :=
  { ct with rates := ct.rates.map (presentRate c), precise := ct.amount,
            amount := exactOps.rescale ct.amount c, surcharge := ct.surcharge.map (exactOps.rescale · c) }

theorem roundTax_eq (c : ℕ) (cats : List CatTotal) (sum : Amount) :
    roundTax exactOps c cats sum =
      { cats := cats.map (presentCat c), preciseSum := sum, sum := exactOps.rescale sum c } := rfl

theorem presentRate_facts (c : ℕ) (rt : RateTotal) (h : RateFacts c rt) :
    RateFacts c (presentRate c rt) ∧ (presentRate c rt).amount = rt.amount ∧
    surOf (presentRate c rt) = surOf rt := by
  obtain ⟨hb, ha, hn, hp⟩ := h
  have eb : exactOps.rescale rt.base c = rt.base := rescaleX_self _ _ hb
  have ea : exactOps.rescale rt.amount c = rt.amount := rescaleX_self _ _ ha
  unfold presentRate
  rw [eb, ea]
  refine ⟨⟨hb, ha, hn, ?_⟩, rfl, ?_⟩
  · intro p hpp
    obtain ⟨h1, h2⟩ := hp p hpp
    refine ⟨h1, ?_⟩
    intro sp sa hs
    cases hsr : rt.surcharge with
    | none => simp [hsr] at hs
    | some x =>
      obtain ⟨sp0, sa0⟩ := x
      simp only [hsr, Option.map_some, Option.some.injEq, Prod.mk.injEq] at hs
      obtain ⟨rfl, rfl⟩ := hs
      obtain ⟨e1, e2⟩ := h2 sp0 sa0 hsr
      rw [show exactOps.rescale sa0 c = sa0 from rescaleX_self _ _ e1]
      exact ⟨e1, e2⟩
  · unfold surOf
    cases hpp : rt.percent with
    | none => rfl
    | some p =>
      cases hsr : rt.surcharge with
      | none => rfl
      | some x =>
        obtain ⟨sp0, sa0⟩ := x
        obtain ⟨e1, _⟩ := (hp p hpp).2 sp0 sa0 hsr
        simp only [Option.map_some]
        rw [show exactOps.rescale sa0 c = sa0 from rescaleX_self _ _ e1]

/-- a category at the currency's exponent whose figures are the integer sums of its groups' figures -/
def CatFacts (c : ℕ) (ct : CatTotal) : Prop :=
  (∀ rt ∈ ct.rates, RateFacts c rt) ∧
  ct.amount = ⟨(ct.rates.map (·.amount.value)).sum, c⟩ ∧
  (∀ s, ct.surcharge = some s → s = ⟨((ct.rates.filterMap surOf).map (·.value)).sum, c⟩) ∧
  (ct.surcharge = none → ct.rates.filterMap surOf = [])

theorem taxedValue_sum (c : ℕ) (rates : List RateTotal) (h : ∀ rt ∈ rates, RateFacts c rt) :
    (rates.map taxedValue).sum = (rates.map (·.amount.value)).sum := by
  induction rates with
  | nil => rfl
  | cons rt rates ih =>
    simp only [List.map_cons, List.sum_cons]
    rw [ih (fun x hx => h x (by simp [hx]))]
    congr 1
    unfold taxedValue
    cases hp : rt.percent with
    | none => exact ((h rt (by simp)).2.2.1 hp).symm
    | some p => rfl

theorem surchargeValue_sum (rates : List RateTotal) :
    (rates.map surchargeValue).sum = ((rates.filterMap surOf).map (·.value)).sum := by
  induction rates with
  | nil => rfl
  | cons rt rates ih =>
    simp only [List.map_cons, List.sum_cons, List.filterMap_cons, ih]
    cases hp : rt.percent with
    | none => simp [surchargeValue, surOf, hp]
    | some p =>
      cases hs : rt.surcharge with
      | none => simp [surchargeValue, surOf, hp, hs]
      | some x =>
        obtain ⟨sp, sa⟩ := x
        simp [surchargeValue, surOf, hp, hs]

/-- the category surcharge is absent only when no rate presents one -/
theorem surchargeFold_none (r : Rule) (c : ℕ) (rates : List RateTotal) (z : Option Amount)
    (h : rates.foldl (fun (s : Option Amount) rt =>
        match rt.percent, rt.surcharge with
        | some _, some (_, sa) =>
          let x := s.getD ⟨0, c⟩
          some (add exactOps (mrp r x sa) sa)
        | _, _ => s) z = none) : z = none ∧ rates.filterMap surOf = [] := by
  induction rates generalizing z with
  | nil => exact ⟨by simpa using h, rfl⟩
  | cons rt rates ih =>
    rw [List.foldl_cons] at h
    cases hp : rt.percent with
    | none =>
      simp only [hp] at h
      obtain ⟨h1, h2⟩ := ih z h
      exact ⟨h1, by simp [List.filterMap_cons, surOf, hp, h2]⟩
    | some p =>
      cases hs : rt.surcharge with
      | none =>
        simp only [hp, hs] at h
        obtain ⟨h1, h2⟩ := ih z h
        exact ⟨h1, by simp [List.filterMap_cons, surOf, hp, hs, h2]⟩
      | some x =>
        obtain ⟨sp, sa⟩ := x
        simp only [hp, hs] at h
        obtain ⟨h1, _⟩ := ih _ h
        cases h1

theorem catAmounts_facts (c : ℕ) (ct : CatTotal) (h : ∀ rt ∈ ct.rates, rt.base.exp = c) :
    CatFacts c (catAmounts exactOps .currency c ct) := by
  obtain ⟨_, h2, h3⟩ := catAmounts_currency c ct h
  have hrates : ∀ rt ∈ (catAmounts exactOps .currency c ct).rates, RateFacts c rt := by
    intro rt hrt
    simp only [catAmounts, List.mem_map] at hrt
    obtain ⟨x, hx, rfl⟩ := hrt
    exact rateAmounts_facts c x (h x hx)
  refine ⟨hrates, ?_, ?_, ?_⟩
  · rw [h2, taxedValue_sum c _ hrates]
  · intro s hs
    rw [h3 s hs, surchargeValue_sum]
  · intro hn
    simp only [catAmounts] at hn
    exact (surchargeFold_none .currency c _ none hn).2

theorem presentCat_facts (c : ℕ) (ct : CatTotal) (h : CatFacts c ct) :
    CatFacts c (presentCat c ct) ∧ (presentCat c ct).amount = ct.amount ∧
    (presentCat c ct).surcharge = ct.surcharge ∧ (presentCat c ct).retained = ct.retained ∧
    (presentCat c ct).precise = (presentCat c ct).amount := by
  obtain ⟨hr, ha, hs, hn⟩ := h
  have ea : exactOps.rescale ct.amount c = ct.amount := rescaleX_self _ _ (by rw [ha])
  have es : ct.surcharge.map (exactOps.rescale · c) = ct.surcharge := by
    cases hsc : ct.surcharge with
    | none => rfl
    | some s =>
      simp only [Option.map_some]
      rw [show exactOps.rescale s c = s from rescaleX_self _ _ (by rw [hs s hsc])]
  have e1 : (ct.rates.map (presentRate c)).map (·.amount.value) = ct.rates.map (·.amount.value) := by
    rw [List.map_map]
    apply List.map_congr_left
    intro rt hrt
    simp only [Function.comp_def]
    rw [(presentRate_facts c rt (hr rt hrt)).2.1]
  have e2 : (ct.rates.map (presentRate c)).filterMap surOf = ct.rates.filterMap surOf := by
    have : ∀ (xs : List RateTotal), (∀ rt ∈ xs, RateFacts c rt) →
        (xs.map (presentRate c)).filterMap surOf = xs.filterMap surOf := by
      intro xs
      induction xs with
      | nil => intro _; rfl
      | cons x xs ih =>
        intro hx
        simp only [List.map_cons, List.filterMap_cons]
        rw [(presentRate_facts c x (hx x (by simp))).2.2, ih (fun y hy => hx y (by simp [hy]))]
    exact this _ hr
  have hamt : (presentCat c ct).amount = ct.amount := ea
  have hsur : (presentCat c ct).surcharge = ct.surcharge := es
  have hrts : (presentCat c ct).rates = ct.rates.map (presentRate c) := rfl
  refine ⟨⟨?_, ?_, ?_, ?_⟩, hamt, hsur, rfl, hamt.symm⟩
  · intro rt hrt
    rw [hrts] at hrt
    simp only [List.mem_map] at hrt
    obtain ⟨x, hx, rfl⟩ := hrt
    exact (presentRate_facts c x (hr x hx)).1
  · rw [hamt, hrts, e1]; exact ha
  · intro s hsc; rw [hsur] at hsc; rw [hrts, e2]; exact hs s hsc
  · intro hsc; rw [hsur] at hsc; rw [hrts, e2]; exact hn hsc

theorem catOk_of_facts (c : ℕ) (ct : CatTotal) (h : CatFacts c ct) : catOk c ct = true := by
  obtain ⟨hr, ha, hs, hn⟩ := h
  have hrexp : ∀ x ∈ ct.rates.map (·.amount), x.exp = c := by
    intro x hx
    simp only [List.mem_map] at hx
    obtain ⟨rt, hrt, rfl⟩ := hx
    exact (hr rt hrt).2.1
  have hsexp : ∀ x ∈ ct.rates.filterMap surOf, x.exp = c := by
    intro x hx
    simp only [List.mem_filterMap] at hx
    obtain ⟨rt, hrt, hso⟩ := hx
    unfold surOf at hso
    cases hp : rt.percent with
    | none => simp [hp] at hso
    | some p =>
      cases hsr : rt.surcharge with
      | none => simp [hp, hsr] at hso
      | some y =>
        obtain ⟨sp, sa⟩ := y
        simp only [hp, hsr, Option.some.injEq] at hso
        subst hso
        exact (((hr rt hrt).2.2.2 p hp).2 sp sa hsr).1
  unfold catOk
  simp only [Bool.and_eq_true, List.all_eq_true, decide_eq_true_eq]
  refine ⟨⟨⟨fun rt hrt => rateOk_of_facts c rt (hr rt hrt), ?_⟩, atMost_of_eq c _ (by rw [ha])⟩, ?_⟩
  · rw [qsum_at c _ hrexp, toRat_at _ c (by rw [ha]), ha]
    simp only [List.map_map, Function.comp_def]
  · cases hsc : ct.surcharge with
    | none => simp [hn hsc]
    | some s =>
      simp only [Bool.and_eq_true, decide_eq_true_eq]
      have := hs s hsc
      refine ⟨?_, atMost_of_eq c _ (by rw [this])⟩
      rw [qsum_at c _ hsexp, toRat_at _ c (by rw [this]), this]

/-- the presented tax summary under the currency rule -/
def TaxFacts (c : ℕ) (tx : TaxTotal) : Prop :=
  (∀ ct ∈ tx.cats, CatFacts c ct ∧ ct.precise = ct.amount) ∧
  tx.sum = ⟨(tx.cats.map catSigned).sum, c⟩ ∧ tx.preciseSum = tx.sum

theorem CatFacts.exps {c : ℕ} {ct : CatTotal} (h : CatFacts c ct) :
    ct.amount.exp = c ∧ ∀ s, ct.surcharge = some s → s.exp = c :=
  ⟨by rw [h.2.1], fun s hs => by rw [h.2.2.1 s hs]⟩

theorem taxTotal_facts (c : ℕ) (inc : Option String) (rows : List Row) (tx : TaxTotal)
    (h : taxTotal exactOps .currency c inc rows = .ok tx) : TaxFacts c tx := by
  have key : ∀ rows3 : List Row,
      TaxFacts c (roundTax exactOps c ((baseRateTotals exactOps .currency c rows3).map (catAmounts exactOps .currency c))
        (finalSum exactOps .currency c ((baseRateTotals exactOps .currency c rows3).map (catAmounts exactOps .currency c)))) := by
    intro rows3
    set cats := (baseRateTotals exactOps .currency c rows3).map (catAmounts exactOps .currency c) with hcats
    have hc : ∀ ct ∈ cats, CatFacts c ct := by
      intro ct hct
      simp only [hcats, List.mem_map] at hct
      obtain ⟨ct0, h0, rfl⟩ := hct
      exact catAmounts_facts c ct0 (baseRateTotals_currency c rows3 ct0 h0)
    have hfs := finalSum_currency c cats (fun ct hct => (hc ct hct).exps)
    rw [roundTax_eq, hfs]
    have hsig : (cats.map (presentCat c)).map catSigned = cats.map catSigned := by
      rw [List.map_map]
      apply List.map_congr_left
      intro ct hct
      obtain ⟨_, e1, e2, e3, _⟩ := presentCat_facts c ct (hc ct hct)
      simp only [Function.comp_def, catSigned, e1, e2, e3]
    refine ⟨?_, ?_, ?_⟩
    · intro ct hct
      simp only [List.mem_map] at hct
      obtain ⟨x, hx, rfl⟩ := hct
      obtain ⟨f, _, _, _, e4⟩ := presentCat_facts c x (hc x hx)
      exact ⟨f, e4⟩
    · simp only [hsig]
      exact rescaleX_self _ _ rfl
    · simp only
      exact (rescaleX_self _ _ rfl).symm
  unfold taxTotal at h
  simp only at h
  cases inc with
  | none =>
    simp only at h
    injection h with h
    rw [← h]
    exact key _
  | some k =>
    simp only at h
    cases hrm : removeIncluded exactOps k (rows.map (prepareRow c)) with
    | error e => simp [hrm] at h
    | ok rows3 =>
      simp only [hrm] at h
      injection h with h
      rw [← h]
      exact key _

theorem TaxFacts.precise_eq {c : ℕ} {tx : TaxTotal} (h : TaxFacts c tx) : tx.precise = tx.sum := by
  unfold TaxTotal.precise
  rw [h.2.2]
  split <;> rfl

theorem TaxFacts.taxIncluded_exp {c : ℕ} {tx : TaxTotal} (h : TaxFacts c tx) (inc : Option String) :
    ∀ x, taxIncluded inc tx = some x → x.exp = c := by
  intro x hx
  unfold taxIncluded at hx
  cases inc with
  | none => simp at hx
  | some k =>
    simp only [Option.map_eq_some_iff] at hx
    obtain ⟨ct, hf, rfl⟩ := hx
    have hm := List.mem_of_find?_eq_some hf
    obtain ⟨f, hp⟩ := h.1 ct hm
    unfold CatTotal.preciseAmount
    rw [hp]
    split <;> exact f.exps.1

/-- Σ of the signed presented category figures, as exact rationals -/
theorem signedQ_sum (c : ℕ) (cats : List CatTotal) (h : ∀ ct ∈ cats, CatFacts c ct) :
    ((cats.map signedQ).sum : ℚ) = (((cats.map catSigned).sum : ℤ) : ℚ) / ((pow10 c : ℤ) : ℚ) := by
  induction cats with
  | nil => simp
  | cons ct cats ih =>
    simp only [List.map_cons, List.sum_cons]
    rw [ih (fun x hx => h x (by simp [hx]))]
    have hf := (h ct (by simp)).exps
    have : signedQ ct = ((catSigned ct : ℤ) : ℚ) / ((pow10 c : ℤ) : ℚ) := by
      unfold signedQ catSigned
      rw [toRat_at _ c hf.1, q0_at c ct.surcharge hf.2]
      simp only [v0]
      cases ct.retained <;> cases ct.surcharge <;> simp <;> ring
    rw [this]
    push_cast
    ring

theorem taxesOk_of_facts (c : ℕ) (t : Totals) (tx : TaxTotal) (h : TaxFacts c tx)
    (ht : t.taxes = if tx.cats.isEmpty then none else some tx) (htax : t.tax = tx.precise) :
    taxesOk c t = true := by
  unfold taxesOk
  rw [ht, htax, h.precise_eq]
  by_cases he : tx.cats.isEmpty = true
  · have : tx.cats = [] := by simpa using he
    simp only [he, if_true, decide_eq_true_eq]
    rw [h.2.1, this]
    rfl
  · simp only [he, Bool.false_eq_true, if_false, Bool.and_eq_true, List.all_eq_true, decide_eq_true_eq]
    refine ⟨⟨⟨fun ct hct => catOk_of_facts c ct (h.1 ct hct).1, ?_⟩, atMost_of_eq c _ (by rw [h.2.1])⟩, trivial⟩
    rw [signedQ_sum c tx.cats (fun ct hct => (h.1 ct hct).1), toRat_at _ c (by rw [h.2.1]), h.2.1]

/-! ## advances and due dates -/

theorem calcAdvance_percent (c : ℕ) (twt : Amount) (a : Advance) :
    (calcAdvance exactOps c twt a).percent = a.percent := by
  unfold calcAdvance
  cases hp : a.percent <;> simp [hp]

theorem calcAdvance_facts (c : ℕ) (twt : Amount) (htw : twt.exp = c) (a : Advance)
    (ha : a.percent = none → a.amount.exp ≤ c) :
    (calcAdvance exactOps c twt a).amount.exp = c ∧ (calcAdvance exactOps c twt a).percent = a.percent ∧
    ∀ p, a.percent = some p →
      (calcAdvance exactOps c twt a).amount.value = roundTo c (twt.toRat * p.amount.toRat) := by
  refine ⟨?_, calcAdvance_percent c twt a, ?_⟩
  · unfold calcAdvance
    cases hp : a.percent with
    | none => have := ha hp; simp only [up_exp]; omega
    | some p => simp only [up_exp, pctOf_exp]; omega
  · intro p hp
    unfold calcAdvance
    simp only [hp]
    rw [up_self _ _ (by simp [htw])]
    simp only [pctOf, exact_mul]
    rw [mulX_spec, htw]

theorem calcDue_percent (c : ℕ) (payable : Amount) (x : Due) :
    (calcDue exactOps c payable x).percent = x.percent := by
  unfold calcDue
  cases hp : x.percent with
  | none => simp [hp]
  | some p => by_cases hz : pctIsZero p = true <;> simp [hz, hp]

theorem calcDue_facts (c : ℕ) (payable : Amount) (hpe : payable.exp = c) (x : Due) :
    (calcDue exactOps c payable x).amount.exp = c ∧ (calcDue exactOps c payable x).percent = x.percent ∧
    ∀ p, x.percent = some p → pctIsZero p = false →
      (calcDue exactOps c payable x).amount.value = roundTo c (payable.toRat * p.amount.toRat) := by
  refine ⟨by unfold calcDue; simp, calcDue_percent c payable x, ?_⟩
  intro p hp hz
  unfold calcDue
  simp only [hp, hz, Bool.false_eq_true, if_false]
  have he : (pctOf exactOps p payable).exp = c := by simp [hpe]
  rw [show exactOps.rescale (pctOf exactOps p payable) c = pctOf exactOps p payable from rescaleX_self _ _ he]
  simp only [pctOf, exact_mul]
  rw [mulX_spec, hpe]

theorem advanceTotal_currency (c : ℕ) (advs : List Advance) (h : ∀ a ∈ advs, a.amount.exp = c) :
    (∀ x, advanceTotal exactOps c advs = some x → x = ⟨(advs.map (·.amount.value)).sum, c⟩) ∧
    (advanceTotal exactOps c advs = none → advs = []) := by
  unfold advanceTotal
  by_cases he : advs.isEmpty = true
  · simp only [he, if_true]
    exact ⟨fun x hx => by simp at hx, fun _ => by simpa using he⟩
  · simp only [he, Bool.false_eq_true, if_false]
    refine ⟨?_, fun hx => by simp at hx⟩
    intro x hx
    injection hx with hx
    rw [← hx, foldl_accum_same c _ ⟨0, c⟩ rfl (by
      intro y hy
      simp only [List.mem_map] at hy
      obtain ⟨a, ha, rfl⟩ := hy
      exact h a ha)]
    simp [List.map_map, Function.comp_def]

theorem adjSum_none (c : ℕ) (ds : List DocAdj) (h : adjSum exactOps c ds = none) : ds = [] := by
  unfold adjSum at h
  split at h
  · rename_i he; simpa using he
  · simp at h

/-! ## presentation rounding of document rows and totals -/

theorem map_roundDocAdj_self (c : ℕ) (ds : List DocAdj) (h : ∀ x ∈ ds, x.amount.exp = c) :
    ds.map (roundDocAdj exactOps c) = ds := by
  induction ds with
  | nil => rfl
  | cons x xs ih =>
    simp only [List.map_cons]
    rw [ih (fun y hy => h y (by simp [hy]))]
    congr 1
    have hx := h x (by simp)
    have key : ∀ e, c ≤ e → ({ x with amount := down exactOps x.amount e } : DocAdj) = x := by
      intro e he; rw [down_self _ _ (by omega)]
    unfold roundDocAdj
    exact key _ (by split <;> [split <;> omega; omega])

theorem optmap_rescale_self (c : ℕ) (o : Option Amount) (h : ∀ x, o = some x → x.exp = c) :
    o.map (exactOps.rescale · c) = o := by
  cases o with
  | none => rfl
  | some x => simp only [Option.map_some]; rw [show exactOps.rescale x c = x from rescaleX_self _ _ (h x rfl)]

theorem roundTotals_self (c : ℕ) (t : Totals) (h1 : t.sum.exp = c) (h2 : ∀ x, t.discount = some x → x.exp = c)
    (h3 : ∀ x, t.charge = some x → x.exp = c) (h4 : ∀ x, t.taxIncluded = some x → x.exp = c)
    (h5 : t.total.exp = c) (h6 : t.tax.exp = c) (h7 : t.totalWithTax.exp = c) (h8 : t.payable.exp = c)
    (h9 : ∀ x, t.advances = some x → x.exp = c) (h10 : ∀ x, t.due = some x → x.exp = c) :
    roundTotals exactOps c t = t := by
  unfold roundTotals
  rw [optmap_rescale_self c _ h2, optmap_rescale_self c _ h3, optmap_rescale_self c _ h4,
    optmap_rescale_self c _ h9, optmap_rescale_self c _ h10,
    show exactOps.rescale t.sum c = t.sum from rescaleX_self _ _ h1,
    show exactOps.rescale t.total c = t.total from rescaleX_self _ _ h5,
    show exactOps.rescale t.tax c = t.tax from rescaleX_self _ _ h6,
    show exactOps.rescale t.totalWithTax c = t.totalWithTax from rescaleX_self _ _ h7,
    show exactOps.rescale t.payable c = t.payable from rescaleX_self _ _ h8]

theorem rowsSumOk_of (c : ℕ) (o : Option Amount) (rows : List Amount) (hr : ∀ x ∈ rows, x.exp = c)
    (hs : ∀ s, o = some s → s = ⟨(rows.map (·.value)).sum, c⟩) (hn : o = none → rows = []) :
    rowsSumOk o rows = true := by
  unfold rowsSumOk
  cases ho : o with
  | none => simp [hn ho]
  | some s =>
    simp only [decide_eq_true_eq]
    rw [qsum_at c rows hr, toRat_at s c (by rw [hs s ho]), hs s ho]

/-! ## the whole output -/

/-- the totals of a calculated line list sit at the currency's exponent -/
theorem lineTotals_exp (c : ℕ) (ls : List Line) (h : ∀ l ∈ ls, LineFacts c l) :
    ∀ t ∈ ls.filterMap (·.total), t.exp = c := by
  intro t ht
  simp only [List.mem_filterMap] at ht
  obtain ⟨l, hl, hlt⟩ := ht
  rcases h l hl with ⟨_, h2, _⟩ | ⟨s, t', it, p, _, h2, _, _, _, _, _, _, ht', _⟩
  · rw [h2] at hlt; cases hlt
  · rw [h2] at hlt; injection hlt with hlt; rw [← hlt, ht']

/-- **readdOk of the final assembly**: given the per-level identities (lines,
document sums, tax summary, totals), presentation rounding is the identity on
every figure and the oracle holds of what `finish` returns. -/
theorem readdOk_finish (d : Doc) (p : Pre) (tx : TaxTotal)
    (hL : ∀ l ∈ p.lines, LineFacts d.c l)
    (hsum : p.sum = ⟨((p.lines.filterMap (·.total)).map (·.value)).sum, d.c⟩)
    (hD : ∀ x ∈ p.discounts, x.amount.exp = d.c) (hC : ∀ x ∈ p.charges, x.amount.exp = d.c)
    (hds : ∀ s, p.dsum = some s → s = ⟨(p.discounts.map (·.amount.value)).sum, d.c⟩)
    (hcs : ∀ s, p.csum = some s → s = ⟨(p.charges.map (·.amount.value)).sum, d.c⟩)
    (hdn : p.dsum = none → p.discounts = []) (hcn : p.csum = none → p.charges = [])
    (ht2 : p.total2 = ⟨p.sum.value - v0 p.dsum + v0 p.csum, d.c⟩)
    (hT : TaxFacts d.c tx)
    (hrnd : ∀ x, d.rounding = some x → x.exp = d.c)
    (hadv : ∀ a ∈ d.advances, a.percent = none → a.amount.exp ≤ d.c)
    (hpay : d.hasPayment = false → d.advances = [] ∧ d.dues = [])
    (htot : (rawTotals exactOps d p tx).total = ⟨p.total2.value - v0 (rawTotals exactOps d p tx).taxIncluded, d.c⟩ ∧
      (rawTotals exactOps d p tx).totalWithTax =
        ⟨(rawTotals exactOps d p tx).total.value + (rawTotals exactOps d p tx).tax.value, d.c⟩ ∧
      (rawTotals exactOps d p tx).payable =
        ⟨(rawTotals exactOps d p tx).totalWithTax.value + v0 (rawTotals exactOps d p tx).rounding, d.c⟩ ∧
      (∀ x, (rawTotals exactOps d p tx).due = some x →
        x = ⟨(rawTotals exactOps d p tx).payable.value - v0 (rawTotals exactOps d p tx).advances, d.c⟩)) :
    readdOk d.c (finish exactOps d p tx) = true := by
  obtain ⟨hTot, hTwt, hPay, hDue⟩ := htot
  set t := rawTotals exactOps d p tx with ht
  -- the fields of the raw totals
  have f_sum : t.sum = p.sum := rfl
  have f_disc : t.discount = p.dsum := rfl
  have f_chg : t.charge = p.csum := rfl
  have f_ti : t.taxIncluded = taxIncluded d.includes tx := rfl
  have f_tax : t.tax = tx.precise := rfl
  have f_taxes : t.taxes = if tx.cats.isEmpty then none else some tx := rfl
  have f_rnd : t.rounding = d.rounding := rfl
  have f_due : t.due = t.advances.map (fun x => sub exactOps t.payable x) := rfl
  -- exponents
  have e_sum : t.sum.exp = d.c := by rw [f_sum, hsum]
  have e_disc : ∀ x, t.discount = some x → x.exp = d.c := fun x hx => by rw [hds x (f_disc ▸ hx)]
  have e_chg : ∀ x, t.charge = some x → x.exp = d.c := fun x hx => by rw [hcs x (f_chg ▸ hx)]
  have e_ti : ∀ x, t.taxIncluded = some x → x.exp = d.c := fun x hx => hT.taxIncluded_exp d.includes x (f_ti ▸ hx)
  have e_total : t.total.exp = d.c := by rw [hTot]
  have e_tax : t.tax.exp = d.c := by rw [f_tax, hT.precise_eq, hT.2.1]
  have e_twt : t.totalWithTax.exp = d.c := by rw [hTwt]
  have e_pay : t.payable.exp = d.c := by rw [hPay]
  have e_rnd : ∀ x, t.rounding = some x → x.exp = d.c := fun x hx => hrnd x (f_rnd ▸ hx)
  -- advances
  have hA : ∀ a ∈ d.advances.map (calcAdvance exactOps d.c t.totalWithTax), a.amount.exp = d.c := by
    intro a ha
    simp only [List.mem_map] at ha
    obtain ⟨a0, h0, rfl⟩ := ha
    exact (calcAdvance_facts d.c _ e_twt a0 (hadv a0 h0)).1
  have f_adv : t.advances = if d.hasPayment then
      advanceTotal exactOps d.c (d.advances.map (calcAdvance exactOps d.c t.totalWithTax)) else none := rfl
  have hAT := advanceTotal_currency d.c _ hA
  have e_adv : ∀ x, t.advances = some x → x.exp = d.c := by
    intro x hx
    rw [f_adv] at hx
    split at hx
    · rw [hAT.1 x hx]
    · cases hx
  have e_due : ∀ x, t.due = some x → x.exp = d.c := fun x hx => by rw [hDue x hx]
  -- presentation is the identity
  have hrt : roundTotals exactOps d.c t = t :=
    roundTotals_self d.c t e_sum e_disc e_chg e_ti e_total e_tax e_twt e_pay e_adv e_due
  have hadvs : (d.advances.map (calcAdvance exactOps d.c t.totalWithTax)).map
      (fun a => { a with amount := exactOps.rescale a.amount d.c }) =
      d.advances.map (calcAdvance exactOps d.c t.totalWithTax) := by
    have : ∀ (xs : List Advance), (∀ a ∈ xs, a.amount.exp = d.c) →
        xs.map (fun a => { a with amount := exactOps.rescale a.amount d.c }) = xs := by
      intro xs
      induction xs with
      | nil => intro _; rfl
      | cons x xs ih =>
        intro hx
        simp only [List.map_cons]
        rw [ih (fun y hy => hx y (by simp [hy])),
          show exactOps.rescale x.amount d.c = x.amount from rescaleX_self _ _ (hx x (by simp))]
    exact this _ hA
  -- the output, written out
  have hout : finish exactOps d p tx =
      { lines := p.lines, discounts := p.discounts, charges := p.charges,
        advances := if d.hasPayment then d.advances.map (calcAdvance exactOps d.c t.totalWithTax) else d.advances,
        dues := if d.hasPayment then d.dues.map (calcDue exactOps d.c t.payable) else d.dues,
        totals := some t } := by
    unfold finish
    simp only [← ht, hrt, hadvs, map_roundLine_self d.c p.lines hL, map_roundDocAdj_self d.c _ hD,
      map_roundDocAdj_self d.c _ hC]
  -- the advances and dues the output presents
  have hAout : ∀ a ∈ (if d.hasPayment then d.advances.map (calcAdvance exactOps d.c t.totalWithTax) else d.advances),
      advanceOk d.c t.totalWithTax a = true := by
    intro a ha
    cases hp : d.hasPayment with
    | false => rw [hp, (hpay hp).1] at ha; simp at ha
    | true =>
      simp only [hp, if_true, List.mem_map] at ha
      obtain ⟨a0, h0, rfl⟩ := ha
      obtain ⟨g1, g2, g3⟩ := calcAdvance_facts d.c _ e_twt a0 (hadv a0 h0)
      unfold advanceOk
      simp only [Bool.and_eq_true]
      refine ⟨atMost_of_eq _ _ g1, ?_⟩
      rw [g2]
      cases hpp : a0.percent with
      | none => rfl
      | some pc => exact isPctOf_of _ _ _ _ g1 (g3 pc hpp)
  have hUout : ∀ u ∈ (if d.hasPayment then d.dues.map (calcDue exactOps d.c t.payable) else d.dues),
      dueOk d.c t.payable u = true := by
    intro u hu
    cases hp : d.hasPayment with
    | false => rw [hp, (hpay hp).2] at hu; simp at hu
    | true =>
      simp only [hp, if_true, List.mem_map] at hu
      obtain ⟨u0, h0, rfl⟩ := hu
      obtain ⟨g1, g2, g3⟩ := calcDue_facts d.c _ e_pay u0
      unfold dueOk
      simp only [Bool.and_eq_true]
      refine ⟨atMost_of_eq _ _ g1, ?_⟩
      rw [g2]
      cases hpp : u0.percent with
      | none => rfl
      | some pc =>
        by_cases hz : pctIsZero pc = true
        · simp [hz]
        · simp only [hz, Bool.false_eq_true, if_false]
          exact isPctOf_of _ _ _ _ g1 (g3 pc hpp (by simpa using hz))
  have hAsum : rowsSumOk t.advances
      ((if d.hasPayment then d.advances.map (calcAdvance exactOps d.c t.totalWithTax) else d.advances).map (·.amount)) = true := by
    cases hp : d.hasPayment with
    | false =>
      have : t.advances = none := by rw [f_adv, hp]; rfl
      rw [this, (hpay hp).1]; rfl
    | true =>
      simp only [if_true]
      have fa : t.advances = advanceTotal exactOps d.c (d.advances.map (calcAdvance exactOps d.c t.totalWithTax)) := by
        rw [f_adv, hp]; rfl
      apply rowsSumOk_of d.c
      · intro x hx
        simp only [List.mem_map] at hx
        obtain ⟨a, ha, rfl⟩ := hx
        exact hA a (by simpa using ha)
      · intro s hs
        rw [hAT.1 s (fa ▸ hs)]
        simp only [List.map_map, Function.comp_def]
      · intro hn
        rw [hAT.2 (fa ▸ hn)]; rfl
  -- the identities, one by one
  have c_sum : decide (t.sum.toRat = qsum (p.lines.filterMap (·.total))) = true := by
    simp only [decide_eq_true_eq]
    rw [qsum_at d.c _ (lineTotals_exp d.c p.lines hL), toRat_at _ d.c e_sum, f_sum, hsum]
  have c_disc : rowsSumOk t.discount (p.discounts.map (·.amount)) = true := by
    apply rowsSumOk_of d.c
    · intro x hx
      simp only [List.mem_map] at hx
      obtain ⟨a, ha, rfl⟩ := hx
      exact hD a ha
    · intro s hs; rw [hds s (f_disc ▸ hs)]; simp only [List.map_map, Function.comp_def]
    · intro hn; rw [hdn (f_disc ▸ hn)]; rfl
  have c_chg : rowsSumOk t.charge (p.charges.map (·.amount)) = true := by
    apply rowsSumOk_of d.c
    · intro x hx
      simp only [List.mem_map] at hx
      obtain ⟨a, ha, rfl⟩ := hx
      exact hC a ha
    · intro s hs; rw [hcs s (f_chg ▸ hs)]; simp only [List.map_map, Function.comp_def]
    · intro hn; rw [hcn (f_chg ▸ hn)]; rfl
  have c_total : decide (t.total.toRat = t.sum.toRat - q0 t.discount + q0 t.charge - q0 t.taxIncluded) = true := by
    simp only [decide_eq_true_eq]
    rw [toRat_at _ d.c e_total, toRat_at _ d.c e_sum, q0_at d.c _ e_disc, q0_at d.c _ e_chg, q0_at d.c _ e_ti,
      hTot, ht2, f_disc, f_chg, f_sum]
    push_cast
    ring
  have c_taxes : taxesOk d.c t = true := taxesOk_of_facts d.c t tx hT f_taxes f_tax
  have c_twt : decide (t.totalWithTax.toRat = t.total.toRat + t.tax.toRat) = true := by
    simp only [decide_eq_true_eq]
    rw [toRat_at _ d.c e_twt, toRat_at _ d.c e_total, toRat_at _ d.c e_tax, hTwt]
    push_cast
    ring
  have c_pay : decide (t.payable.toRat = t.totalWithTax.toRat + q0 t.rounding) = true := by
    simp only [decide_eq_true_eq]
    rw [toRat_at _ d.c e_pay, toRat_at _ d.c e_twt, q0_at d.c _ e_rnd, hPay]
    push_cast
    ring
  have c_due : (match t.due with
      | some x => decide (x.toRat = t.payable.toRat - q0 t.advances)
      | none => t.advances.isNone) = true := by
    cases hdu : t.due with
    | none =>
      rw [f_due] at hdu
      cases ha : t.advances with
      | none => rfl
      | some a => rw [ha] at hdu; simp at hdu
    | some x =>
      simp only [decide_eq_true_eq]
      rw [toRat_at _ d.c (e_due x hdu), toRat_at _ d.c e_pay, q0_at d.c _ e_adv, hDue x hdu]
      push_cast
      ring
  unfold readdOk
  rw [hout]
  simp only [Bool.and_eq_true, List.all_eq_true]
  refine ⟨fun l hl => lineOk_of_facts d.c l (hL l hl), ?_⟩
  unfold totalsOk
  simp only [c_sum, c_disc, c_chg, c_total, c_taxes, c_twt, c_pay, hAsum,
    atMost_of_eq d.c _ e_sum, atMostO_of_eq d.c _ e_disc, atMostO_of_eq d.c _ e_chg, atMostO_of_eq d.c _ e_ti,
    atMost_of_eq d.c _ e_total, atMost_of_eq d.c _ e_tax, atMost_of_eq d.c _ e_twt, atMostO_of_eq d.c _ e_rnd,
    atMost_of_eq d.c _ e_pay, atMostO_of_eq d.c _ e_adv, atMostO_of_eq d.c _ e_due, Bool.and_true, Bool.true_and,
    Bool.and_eq_true, List.all_eq_true]
  exact ⟨⟨⟨⟨c_due, hAout⟩, hUout⟩, fun x hx => atMost_of_eq d.c _ (hD x hx)⟩, fun x hx => atMost_of_eq d.c _ (hC x hx)⟩

theorem rawTotals_twt_exp_rd (d : Doc) (p : Pre) (tx : TaxTotal) :
    (rawTotals exactOps d p tx).totalWithTax.exp = p.total2.exp := by
  simp only [rawTotals, add_exp]
  split <;> simp

/-- the advance total sits at the currency's exponent when fixed advances are not finer than it -/
theorem rawTotals_advances_exp (d : Doc) (p : Pre) (tx : TaxTotal) (h2 : p.total2.exp = d.c)
    (hadv : ∀ a ∈ d.advances, a.percent = none → a.amount.exp ≤ d.c) :
    ∀ x, (rawTotals exactOps d p tx).advances = some x → x.exp = d.c := by
  intro x hx
  have e_twt : (rawTotals exactOps d p tx).totalWithTax.exp = d.c := by rw [rawTotals_twt_exp_rd, h2]
  have f_adv : (rawTotals exactOps d p tx).advances = if d.hasPayment then
      advanceTotal exactOps d.c (d.advances.map (calcAdvance exactOps d.c (rawTotals exactOps d p tx).totalWithTax))
      else none := rfl
  have hA : ∀ a ∈ d.advances.map (calcAdvance exactOps d.c (rawTotals exactOps d p tx).totalWithTax),
      a.amount.exp = d.c := by
    intro a ha
    simp only [List.mem_map] at ha
    obtain ⟨a0, h0, rfl⟩ := ha
    exact (calcAdvance_facts d.c _ e_twt a0 (hadv a0 h0)).1
  rw [f_adv] at hx
  split at hx
  · rw [(advanceTotal_currency d.c _ hA).1 x hx]
  · cases hx

/-- no taxable row: `calculate` returns the lines as they are and no totals -/
theorem readdOk_noTotals (c : ℕ) (out : Out) (hL : ∀ l ∈ out.lines, LineFacts c l) (ht : out.totals = none) :
    readdOk c out = true := by
  unfold readdOk
  rw [ht]
  simp only [Bool.and_true, List.all_eq_true]
  exact fun l hl => lineOk_of_facts c l (hL l hl)

/-- what `pre` stores next to the calculated lines -/
theorem pre_fields (d : Doc) (p : Pre) (h : pre exactOps d = .ok p) :
    calcLines exactOps d.cur d.c d.rates d.rule d.lines = .ok p.lines ∧
    p.dsum = adjSum exactOps d.c p.discounts ∧ p.csum = adjSum exactOps d.c p.charges := by
  unfold pre at h
  cases hl : calcLines exactOps d.cur d.c d.rates d.rule d.lines with
  | error e => simp [hl] at h
  | ok lines =>
    simp only [hl] at h
    injection h with h
    subst h
    exact ⟨rfl, rfl, rfl⟩

/-! ## decidability of the hypotheses, and a concrete document for the non-vacuity examples -/

instance (c : ℕ) (sl : SubLine) : Decidable (subGuard c sl) := by unfold subGuard; infer_instance
instance (c : ℕ) (l : Line) : Decidable (lineGuard c l) := by unfold lineGuard; infer_instance
instance (l : Line) : Decidable (lineClean l) := by unfold lineClean; infer_instance
instance (cur : String) (c : ℕ) (it : Item) : Decidable (itemOk cur c it) := by unfold itemOk; infer_instance
instance (cur : String) (c : ℕ) (rates : List XRate) : Decidable (ratesOk cur c rates) := by
  unfold ratesOk; infer_instance

/-- EUR, currency rule, prices include VAT.  Line 1: 3 × 10.005 (a price finer
than the currency), 10 % discount, fixed 1.00 charge, VAT 21 % with a 5.2 %
surcharge.  Line 2: priced by a breakdown of two rows (one with a 2.5 % discount
on an explicit base, one in USD through an exchange rate), VAT 10 % and retained
IRPF 15 %.  Line 3: VAT 21.0 % without surcharge (a group of its own next to
line 1's).  A 5 % document discount taxed at VAT 10 %, a fixed document charge
finer than the currency (1.2345), external rounding 0.01, a 30 % and a fixed
5.00 advance, a 50 % due date. -/
def readdExample : Doc :=
  let vat (p : Int) (e : Nat) (s : Option Pct) : Combo :=
    { cat := "VAT", country := "", key := "", percent := some ⟨⟨p, e⟩⟩, surcharge := s, ext := "", retained := false }
  let irpf : Combo :=
    { cat := "IRPF", country := "", key := "", percent := some ⟨⟨15, 2⟩⟩, surcharge := none, ext := "", retained := true }
  { cur := "EUR", c := 2, rule := .currency, includes := some "VAT",
    lines := [
      { qty := ⟨3, 0⟩, item := some { price := some ⟨10005, 3⟩, cur := "", sub := 2, alts := [] },
        discounts := [{ percent := some ⟨⟨10, 2⟩⟩, base := none, amount := ⟨0, 0⟩, rate := none, quantity := none }],
        charges := [{ percent := none, base := none, amount := ⟨100, 2⟩, rate := none, quantity := none }],
        breakdown := [], taxes := [vat 21 2 (some ⟨⟨52, 3⟩⟩)] },
      { qty := ⟨15, 1⟩, item := some { price := none, cur := "", sub := 2, alts := [] },
        discounts := [], charges := [],
        breakdown := [
          { qty := ⟨2, 0⟩, item := some { price := some ⟨4999, 3⟩, cur := "", sub := 2, alts := [] },
            discounts := [{ percent := some ⟨⟨25, 3⟩⟩, base := some ⟨1999, 2⟩, amount := ⟨0, 0⟩, rate := none, quantity := none }],
            charges := [] },
          { qty := ⟨1, 0⟩, item := some { price := some ⟨1250, 2⟩, cur := "USD", sub := 2, alts := [] },
            discounts := [], charges := [{ percent := none, base := none, amount := ⟨0, 0⟩, rate := some ⟨35, 2⟩, quantity := some ⟨3, 0⟩ }] } ],
        taxes := [vat 10 2 none, irpf] },
      { qty := ⟨7, 0⟩, item := some { price := some ⟨333, 2⟩, cur := "", sub := 2, alts := [] },
        discounts := [], charges := [], breakdown := [], taxes := [vat 210 3 none] } ],
    discounts := [{ percent := some ⟨⟨5, 2⟩⟩, base := none, amount := ⟨0, 0⟩, taxes := [vat 10 2 none] }],
    charges := [{ percent := none, base := none, amount := ⟨12345, 4⟩, taxes := [] }],
    rates := [⟨"USD", "EUR", 2, ⟨9137, 4⟩⟩],
    rounding := some ⟨1, 2⟩, hasPayment := true,
    advances := [{ percent := some ⟨⟨30, 2⟩⟩, amount := ⟨0, 0⟩ }, { percent := none, amount := ⟨500, 2⟩ }],
    dues := [{ percent := some ⟨⟨50, 2⟩⟩, amount := ⟨0, 0⟩ }] }

end GoblVerif.Calc
