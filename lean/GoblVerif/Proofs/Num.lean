/-
  Bridging lemmas: faithful float layer = exact integer layer inside the
  magnitude domain, and integer rounding `rha` = rounding of the exact
  rational half away from zero.
-/
import GoblVerif.Model.Num
import GoblVerif.Proofs.Float53
import Mathlib.Tactic.IntervalCases
import Mathlib.Tactic.NormNum

namespace GoblVerif
open Int

/-! ### `goRound` of an integer quotient is `rha` -/

theorem goRound_div_pos (N D : ℤ) (hD : 0 < D) : goRound ((N : ℚ) / D) = rha N D := by
  obtain ⟨d, rfl⟩ : ∃ d : ℕ, D = d := ⟨D.toNat, (Int.toNat_of_nonneg hD.le).symm⟩
  have hdq : (0 : ℚ) < (d : ℚ) := by exact_mod_cast hD
  have hdne : (d : ℚ) ≠ 0 := ne_of_gt hdq
  simp only [Int.cast_natCast]
  unfold goRound rha
  by_cases hN : 0 ≤ N
  · have hx : (0 : ℚ) ≤ (N : ℚ) / (d : ℚ) := div_nonneg (by exact_mod_cast hN) hdq.le
    rw [if_pos hx, if_pos hN]
    have : (N : ℚ) / (d : ℚ) + 1 / 2 = ((2 * N + d : ℤ) : ℚ) / ((2 * d : ℕ) : ℚ) := by
      push_cast; field_simp
    rw [ratfloor_eq, this, Rat.floor_intCast_div_natCast]
    push_cast; ring_nf
  · have hN' : N < 0 := lt_of_not_ge hN
    have hx : ¬ (0 : ℚ) ≤ (N : ℚ) / (d : ℚ) := by
      rw [not_le]; exact div_neg_of_neg_of_pos (by exact_mod_cast hN') hdq
    rw [if_neg hx, if_neg hN]
    have : -((N : ℚ) / (d : ℚ)) + 1 / 2 = ((2 * (-N) + d : ℤ) : ℚ) / ((2 * d : ℕ) : ℚ) := by
      push_cast; field_simp
    rw [ratfloor_eq, this, Rat.floor_intCast_div_natCast]
    push_cast; ring_nf

theorem goRound_div_neg (N D : ℤ) (hD : D < 0) : goRound ((N : ℚ) / D) = rha (-N) (-D) := by
  rw [← goRound_div_pos (-N) (-D) (by omega)]
  congr 1
  push_cast
  rw [neg_div_neg_eq]

/-! ### exact conversions -/

theorem ofInt64_exact (i : ℤ) (h : |i| < 2 ^ 53) : ofInt64 i = (i : ℚ) := by
  have := rnd53_exact i 0 h
  simpa [ofInt64] using this

theorem pow5_lt (e : ℕ) (he : e ≤ 22) : |((5 : ℤ) ^ e)| < 2 ^ 53 := by
  interval_cases e <;> norm_num

theorem ofInt64_pow10 (e : ℕ) (he : e ≤ 22) : ofInt64 (pow10 e) = ((pow10 e : ℤ) : ℚ) := by
  have h := rnd53_exact ((5 : ℤ) ^ e) (e : ℤ) (pow5_lt e he)
  have hq : (((5 : ℤ) ^ e : ℤ) : ℚ) * (2 : ℚ) ^ (e : ℤ) = ((pow10 e : ℤ) : ℚ) := by
    unfold pow10
    push_cast
    rw [zpow_natCast, ← mul_pow]
    norm_num
  rw [hq] at h
  exact h

theorem pow10_pos (e : ℕ) : 0 < pow10 e := by unfold pow10; positivity

theorem pow10_ne (e : ℕ) : pow10 e ≠ 0 := ne_of_gt (pow10_pos e)

/-! ### faithful = exact inside the domain -/

theorem abs_lt_of_mul_lt {a b : ℤ} {B : ℤ} (h : |a * b| < B) (hb : b ≠ 0) : |a| < B := by
  have hb1 : 1 ≤ |b| := Int.one_le_abs hb
  have : |a| ≤ |a| * |b| := by
    have := abs_nonneg a
    nlinarith
  rw [abs_mul] at h
  omega

theorem multiply_exact (a b : Amount) (hm : |a.value * b.value| < 2 ^ 52) (he : b.exp ≤ 22) :
    a.multiply b = a.mulX b := by
  unfold Amount.multiply Amount.mulX
  congr 1
  rw [← goRound_div_pos _ _ (pow10_pos _)]
  by_cases ha : a.value = 0
  · simp [ha, fmul, fdiv, ofInt64, rnd53]
  by_cases hb : b.value = 0
  · simp [hb, fmul, fdiv, ofInt64, rnd53]
  have ha' : |a.value| < 2 ^ 53 := by
    have := abs_lt_of_mul_lt hm hb; omega
  have hb' : |b.value| < 2 ^ 53 := by
    rw [mul_comm] at hm
    have := abs_lt_of_mul_lt hm ha; omega
  rw [ofInt64_exact _ ha', ofInt64_exact _ hb', ofInt64_pow10 _ he]
  unfold fmul fdiv
  have hprod : rnd53 ((a.value : ℚ) * (b.value : ℚ)) = ((a.value * b.value : ℤ) : ℚ) := by
    have h := rnd53_exact (a.value * b.value) 0 (by omega)
    simpa using h
  rw [hprod, round_div_exact _ _ (pow10_ne _) hm]

theorem divide_exact (a b : Amount) (hb : b.value ≠ 0) (hn : |a.value * pow10 b.exp| < 2 ^ 52)
    (hd : |b.value| < 2 ^ 53) : a.divide b = a.divX b := by
  unfold Amount.divide Amount.divX
  have hn' : |a.value * pow10 b.exp| < 2 ^ 53 := by omega
  rw [ofInt64_exact _ hn', ofInt64_exact _ hd]
  unfold fdiv
  rw [round_div_exact _ _ hb hn]
  by_cases hpos : 0 < b.value
  · simp only [hpos, if_true]
    rw [goRound_div_pos _ _ hpos]
  · have hneg : b.value < 0 := by omega
    simp only [hpos, if_false]
    rw [goRound_div_neg _ _ hneg]

theorem rescale_exact (a : Amount) (e : ℕ) (hv : |a.value| < 2 ^ 52) (he : a.exp - e ≤ 22) :
    a.rescale e = a.rescaleX e := by
  unfold Amount.rescale Amount.rescaleX
  by_cases h : a.exp > e
  · simp only [h, if_true]
    congr 1
    rw [ofInt64_exact _ (by omega), ofInt64_pow10 _ he]
    unfold fdiv
    rw [round_div_exact _ _ (pow10_ne _) hv, goRound_div_pos _ _ (pow10_pos _)]
  · simp only [h, if_false]

/-- raising precision never involves floats at all -/
theorem rescale_up_eq (a : Amount) (e : ℕ) (h : a.exp ≤ e) : a.rescale e = a.rescaleX e := by
  unfold Amount.rescale Amount.rescaleX
  have : ¬ a.exp > e := by omega
  simp only [this, if_false]

end GoblVerif
