/-
  `Invoice.Invert` at document level: recalculating the inverted document gives
  the negated result, component by component.
-/
import GoblVerif.Proofs.CalcNeg

namespace GoblVerif

/-- also for a zero divisor (both sides are 0) -/
theorem rha_neg0 (n d : ℤ) (hd : 0 ≤ d) : rha (-n) d = - rha n d := by
  rcases Int.lt_or_eq_of_le hd with h | h
  · exact rha_neg n d h
  · subst h
    unfold rha
    split <;> split <;> simp

namespace Calc

theorem neg_zero_amt (c : ℕ) : neg ⟨0, c⟩ = ⟨0, c⟩ := by simp [neg]

theorem divX_neg (a b : Amount) : (neg a).divX b = neg (a.divX b) := by
  unfold Amount.divX neg
  simp only
  split
  · rename_i h
    rw [Int.neg_mul, rha_neg _ _ h]
  · rename_i h
    rw [Int.neg_mul, rha_neg0 _ _ (by omega)]

theorem remove_neg (a : Amount) (p : Pct) : remove exactOps (neg a) p = neg (remove exactOps a p) := by
  simp [remove, divX_neg]

theorem mrp_neg (r : Rule) (a b : Amount) : mrp r (neg a) (neg b) = neg (mrp r a b) := by
  cases r
  · exact up_neg a b.exp
  · rfl
  · exact up_neg a b.exp

theorem down_neg (a : Amount) (e : ℕ) : down exactOps (neg a) e = neg (down exactOps a e) := by
  unfold down
  by_cases h : e < a.exp
  · have h' : e < (neg a).exp := h
    rw [if_pos h, if_pos h']
    exact rescaleX_neg a e
  · have h' : ¬ e < (neg a).exp := h
    rw [if_neg h, if_neg h']

/-! ### lines -/

/-- an input line: nothing calculated is stored on it yet (any breakdown, item, adjustments) -/
def PlainLine (l : Line) : Prop := l.sum = none ∧ l.total = none

theorem calcLines_invert (cur : String) (c : ℕ) (rates : List XRate) (r : Rule) (ls : List Line)
    (h : ∀ l ∈ ls, PlainLine l) :
    calcLines exactOps cur c rates r (ls.map invertLine) =
      (calcLines exactOps cur c rates r ls).map (·.map negLineOut) := by
  induction ls with
  | nil => rfl
  | cons l ls ih =>
    have hl := h l (by simp)
    have ih' := ih (fun x hx => h x (by simp [hx]))
    simp only [List.map_cons, calcLines]
    rw [calcLine_invert_breakdown cur c rates r l hl.1 hl.2, ih']
    cases calcLine exactOps cur c rates r l with
    | error e => simp [Except.map]
    | ok l' =>
      cases calcLines exactOps cur c rates r ls with
      | error e => simp [Except.map]
      | ok ls' => simp [Except.map]

theorem lineSum_neg (c : ℕ) (ls : List Line) :
    lineSum exactOps c (ls.map negLineOut) = neg (lineSum exactOps c ls) := by
  unfold lineSum
  have : (ls.map negLineOut).filterMap (·.total) = (ls.filterMap (·.total)).map neg := by
    induction ls with
    | nil => rfl
    | cons l ls ih =>
      simp only [List.map_cons, List.filterMap_cons]
      cases ht : l.total with
      | none => simp [negLineOut, invertLine, ht, ih]
      | some t => simp [negLineOut, invertLine, ht, ih]
  rw [this]
  have := foldl_accum_neg (ls.filterMap (·.total)) ⟨0, c⟩
  rwa [neg_zero_amt] at this

/-! ### document discounts and charges -/

theorem docAdj_neg (r : Rule) (c : ℕ) (sum : Amount) (d : DocAdj) :
    docAdj exactOps r c (neg sum) (invertDocAdj d) = invertDocAdj (docAdj exactOps r c sum d) := by
  unfold docAdj invertDocAdj
  cases hp : d.percent with
  | none => simp [hp, applyRule_neg]
  | some p =>
    simp only [hp]
    by_cases hz : pctIsZero p = true
    · simp [hz, applyRule_neg, hp]
    · simp only [hz]
      cases hb : d.base with
      | none => simp [pctOf_neg, applyRule_neg, hp]
      | some b => simp [up_neg, pctOf_neg, applyRule_neg, hp]

theorem adjSum_neg (c : ℕ) (ds : List DocAdj) :
    adjSum exactOps c (ds.map invertDocAdj) = (adjSum exactOps c ds).map neg := by
  unfold adjSum
  cases ds with
  | nil => rfl
  | cons d ds =>
    simp only [List.map_cons, List.isEmpty_cons, Bool.false_eq_true, if_false, Option.map_some]
    congr 1
    have h : ((invertDocAdj d :: ds.map invertDocAdj).map (·.amount)) = ((d :: ds).map (·.amount)).map neg := by
      simp [invertDocAdj, List.map_map, Function.comp_def]
    have := foldl_accum_neg ((d :: ds).map (·.amount)) ⟨0, c⟩
    rw [neg_zero_amt, ← h] at this
    exact this

/-! ### tax summary -/

def negRow (rw : Row) : Row := { rw with total := neg rw.total }

def negRate (rt : RateTotal) : RateTotal :=
  { rt with base := neg rt.base, amount := neg rt.amount,
            surcharge := rt.surcharge.map (fun (sp, sa) => (sp, neg sa)) }

def negCat (ct : CatTotal) : CatTotal :=
  { ct with rates := ct.rates.map negRate, amount := neg ct.amount,
            surcharge := ct.surcharge.map neg, precise := neg ct.precise }

def negTax (t : TaxTotal) : TaxTotal :=
  { cats := t.cats.map negCat, sum := neg t.sum, preciseSum := neg t.preciseSum }

theorem prepareRow_neg (c : ℕ) (rw : Row) : prepareRow c (negRow rw) = negRow (prepareRow c rw) := by
  unfold prepareRow negRow
  simp only
  split
  · rfl
  · simp [up_neg]

theorem removeIncludedRow_neg (k : String) (rw : Row) :
    removeIncludedRow exactOps k (negRow rw) = (removeIncludedRow exactOps k rw).map negRow := by
  unfold removeIncludedRow
  simp only [negRow]
  cases rw.taxes.find? (fun cb => cb.cat == k) with
  | none => rfl
  | some cb =>
    simp only
    split
    · rfl
    · cases cb.percent with
      | none => rfl
      | some p => simp [Except.map, remove_neg, negRow]

theorem removeIncluded_neg (k : String) (rows : List Row) :
    removeIncluded exactOps k (rows.map negRow) = (removeIncluded exactOps k rows).map (·.map negRow) := by
  induction rows with
  | nil => rfl
  | cons rw rows ih =>
    simp only [List.map_cons, removeIncluded, removeIncludedRow_neg, ih]
    cases removeIncludedRow exactOps k rw with
    | error e => simp [Except.map]
    | ok rw' =>
      cases removeIncluded exactOps k rows with
      | error e => simp [Except.map]
      | ok rws' => simp [Except.map]

theorem rtMatches_negRate (rt : RateTotal) (cb : Combo) : rtMatches (negRate rt) cb = rtMatches rt cb := by
  unfold rtMatches negRate
  simp only
  cases rt.surcharge with
  | none => rfl
  | some s => obtain ⟨sp, sa⟩ := s; cases cb.surcharge <;> rfl

theorem newRate_neg (c : ℕ) (cb : Combo) : negRate (newRate c cb) = newRate c cb := by
  cases h : cb.surcharge <;> simp [negRate, newRate, h, neg]

theorem addToRates_neg (r : Rule) (c : ℕ) (cb : Combo) (t : Amount) (rts : List RateTotal) :
    addToRates exactOps r c cb (neg t) (rts.map negRate) = (addToRates exactOps r c cb t rts).map negRate := by
  induction rts with
  | nil =>
    simp only [List.map_nil, addToRates, List.map_cons]
    congr 1
    simp only [negRate, newRate, RateTotal.mk.injEq, true_and]
    refine ⟨?_, ?_, ?_⟩
    · rw [← add_neg, ← mrp_neg, neg_zero_amt]
    · cases cb.surcharge <;> simp [neg]
    · simp [neg]
  | cons rt rts ih =>
    simp only [List.map_cons, addToRates, rtMatches_negRate]
    split
    · simp only [List.map_cons]
      congr 1
      simp only [negRate, RateTotal.mk.injEq, true_and, and_true]
      rw [← add_neg, ← mrp_neg]
    · simp only [List.map_cons, ih]

theorem addToCats_neg (r : Rule) (c : ℕ) (cb : Combo) (t : Amount) (cts : List CatTotal) :
    addToCats exactOps r c cb (neg t) (cts.map negCat) = (addToCats exactOps r c cb t cts).map negCat := by
  induction cts with
  | nil =>
    simp only [List.map_nil, addToCats, List.map_cons]
    congr 1
    have := addToRates_neg r c cb t []
    simp only [List.map_nil] at this
    simp only [negCat, CatTotal.mk.injEq, Option.map_none, neg_zero_amt, true_and, and_true]
    exact this
  | cons ct cts ih =>
    simp only [List.map_cons, addToCats]
    have hc : (negCat ct).code = ct.code := rfl
    rw [hc]
    split
    · simp only [List.map_cons]
      congr 1
      simp only [negCat, CatTotal.mk.injEq, true_and, and_true]
      exact addToRates_neg r c cb t ct.rates
    · simp only [List.map_cons, ih]

theorem baseRateTotals_neg (r : Rule) (c : ℕ) (rows : List Row) :
    baseRateTotals exactOps r c (rows.map negRow) = (baseRateTotals exactOps r c rows).map negCat := by
  unfold baseRateTotals
  have inner : ∀ (t : Amount) (cbs : List Combo) (cats : List CatTotal),
      cbs.foldl (fun cats cb => addToCats exactOps r c cb (neg t) cats) (cats.map negCat) =
        (cbs.foldl (fun cats cb => addToCats exactOps r c cb t cats) cats).map negCat := by
    intro t cbs
    induction cbs with
    | nil => intro cats; rfl
    | cons cb cbs ih => intro cats; simp only [List.foldl_cons, addToCats_neg, ih]
  have outer : ∀ (rows : List Row) (cats : List CatTotal),
      (rows.map negRow).foldl (fun cats rw => rw.taxes.foldl (fun cats cb => addToCats exactOps r c cb rw.total cats) cats) (cats.map negCat) =
        (rows.foldl (fun cats rw => rw.taxes.foldl (fun cats cb => addToCats exactOps r c cb rw.total cats) cats) cats).map negCat := by
    intro rows
    induction rows with
    | nil => intro cats; rfl
    | cons rw rows ih =>
      intro cats
      simp only [List.map_cons, List.foldl_cons]
      have := inner rw.total rw.taxes cats
      simp only [negRow]
      rw [this, ih]
  exact outer rows []

theorem rateAmounts_neg (rt : RateTotal) (c : ℕ) :
    rateAmounts exactOps (negRate rt) c = negRate (rateAmounts exactOps rt c) := by
  unfold rateAmounts
  cases hp : rt.percent with
  | none =>
    have : (negRate rt).percent = none := hp
    simp only [this]
    simp [negRate, neg]
  | some p =>
    have : (negRate rt).percent = some p := hp
    simp only [this]
    simp only [negRate, RateTotal.mk.injEq, true_and, pctOf_neg]
    refine ⟨?_, ?_⟩
    · cases rt.surcharge with
      | none => rfl
      | some s => simp [pctOf_neg]
    · trivial

theorem amountFold_neg (r : Rule) (rts : List RateTotal) (z : Amount) :
    (rts.map negRate).foldl (fun a rt =>
        match rt.percent with
        | none => a
        | some _ => add exactOps (mrp r a rt.amount) rt.amount) (neg z) =
      neg (rts.foldl (fun a rt =>
        match rt.percent with
        | none => a
        | some _ => add exactOps (mrp r a rt.amount) rt.amount) z) := by
  induction rts generalizing z with
  | nil => rfl
  | cons rt rts ih =>
    simp only [List.map_cons, List.foldl_cons]
    have hp : (negRate rt).percent = rt.percent := rfl
    have ha : (negRate rt).amount = neg rt.amount := rfl
    rw [hp, ha]
    cases rt.percent with
    | none => exact ih z
    | some p =>
      simp only
      rw [mrp_neg, add_neg]
      exact ih _

theorem surchargeFold_neg (r : Rule) (c : ℕ) (rts : List RateTotal) (z : Option Amount) :
    (rts.map negRate).foldl (fun (s : Option Amount) rt =>
        match rt.percent, rt.surcharge with
        | some _, some (_, sa) =>
          let x := s.getD ⟨0, c⟩
          some (add exactOps (mrp r x sa) sa)
        | _, _ => s) (z.map neg) =
      (rts.foldl (fun (s : Option Amount) rt =>
        match rt.percent, rt.surcharge with
        | some _, some (_, sa) =>
          let x := s.getD ⟨0, c⟩
          some (add exactOps (mrp r x sa) sa)
        | _, _ => s) z).map neg := by
  induction rts generalizing z with
  | nil => rfl
  | cons rt rts ih =>
    simp only [List.map_cons, List.foldl_cons]
    have hp : (negRate rt).percent = rt.percent := rfl
    rw [hp]
    cases rt.percent with
    | none => exact ih z
    | some p =>
      cases hs : rt.surcharge with
      | none =>
        have : (negRate rt).surcharge = none := by simp [negRate, hs]
        rw [this]
        exact ih z
      | some s =>
        obtain ⟨sp, sa⟩ := s
        have : (negRate rt).surcharge = some (sp, neg sa) := by simp [negRate, hs]
        rw [this]
        simp only
        have hz : (z.map neg).getD ⟨0, c⟩ = neg (z.getD ⟨0, c⟩) := by
          cases z <;> simp [neg]
        rw [hz, mrp_neg, add_neg]
        exact ih (some _)

theorem catAmounts_neg (r : Rule) (c : ℕ) (ct : CatTotal) :
    catAmounts exactOps r c (negCat ct) = negCat (catAmounts exactOps r c ct) := by
  unfold catAmounts
  have hr : (negCat ct).rates.map (rateAmounts exactOps · c) = (ct.rates.map (rateAmounts exactOps · c)).map negRate := by
    simp [negCat, List.map_map, Function.comp_def, rateAmounts_neg]
  simp only [hr]
  have h1 := amountFold_neg r (ct.rates.map (rateAmounts exactOps · c)) ⟨0, c⟩
  rw [neg_zero_amt] at h1
  have h2 := surchargeFold_neg r c (ct.rates.map (rateAmounts exactOps · c)) none
  simp only [Option.map_none] at h2
  simp only [negCat, CatTotal.mk.injEq, true_and]
  exact ⟨h1, h2, trivial⟩

theorem finalSum_neg (r : Rule) (c : ℕ) (cats : List CatTotal) :
    finalSum exactOps r c (cats.map negCat) = neg (finalSum exactOps r c cats) := by
  unfold finalSum
  have key : ∀ (cats : List CatTotal) (z : Amount),
      (cats.map negCat).foldl (fun s ct =>
        let s1 := mrp r s ct.amount
        if ct.retained then
          let s2 := sub exactOps s1 ct.amount
          match ct.surcharge with | some x => sub exactOps s2 x | none => s2
        else
          let s2 := add exactOps s1 ct.amount
          match ct.surcharge with | some x => add exactOps s2 x | none => s2) (neg z) =
      neg (cats.foldl (fun s ct =>
        let s1 := mrp r s ct.amount
        if ct.retained then
          let s2 := sub exactOps s1 ct.amount
          match ct.surcharge with | some x => sub exactOps s2 x | none => s2
        else
          let s2 := add exactOps s1 ct.amount
          match ct.surcharge with | some x => add exactOps s2 x | none => s2) z) := by
    intro cats
    induction cats with
    | nil => intro z; rfl
    | cons ct cts ih =>
      intro z
      simp only [List.map_cons, List.foldl_cons]
      have ha : (negCat ct).amount = neg ct.amount := rfl
      have hr : (negCat ct).retained = ct.retained := rfl
      have hs : (negCat ct).surcharge = ct.surcharge.map neg := rfl
      rw [ha, hr, hs, mrp_neg]
      cases ct.retained
      · simp only [Bool.false_eq_true, if_false]
        cases ct.surcharge with
        | none => simp only [Option.map_none]; rw [add_neg]; exact ih _
        | some x => simp only [Option.map_some]; rw [add_neg, add_neg]; exact ih _
      · simp only [if_true]
        cases ct.surcharge with
        | none => simp only [Option.map_none]; rw [sub_neg]; exact ih _
        | some x => simp only [Option.map_some]; rw [sub_neg, sub_neg]; exact ih _
  have := key cats ⟨0, c⟩
  rwa [neg_zero_amt] at this

theorem roundTax_neg (c : ℕ) (cats : List CatTotal) (sum : Amount) :
    roundTax exactOps c (cats.map negCat) (neg sum) = negTax (roundTax exactOps c cats sum) := by
  unfold roundTax negTax
  simp only [TaxTotal.mk.injEq, exact_rescale, rescaleX_neg, and_true, List.map_map]
  apply List.map_congr_left
  intro ct _
  simp only [Function.comp, negCat, CatTotal.mk.injEq, true_and, rescaleX_neg, List.map_map, and_true]
  refine ⟨?_, ?_⟩
  · apply List.map_congr_left
    intro rt _
    simp only [Function.comp, negRate, RateTotal.mk.injEq, true_and, rescaleX_neg, and_true]
    cases rt.surcharge with
    | none => rfl
    | some s => simp [rescaleX_neg]
  · cases ct.surcharge with
    | none => rfl
    | some s => simp [rescaleX_neg]

def negTaxR : Except CalcErr TaxTotal → Except CalcErr TaxTotal := Except.map negTax

theorem taxTotal_neg (r : Rule) (c : ℕ) (includes : Option String) (rows : List Row) :
    taxTotal exactOps r c includes (rows.map negRow) = (taxTotal exactOps r c includes rows).map negTax := by
  unfold taxTotal
  have hprep : (rows.map negRow).map (prepareRow c) = (rows.map (prepareRow c)).map negRow := by
    simp [List.map_map, Function.comp_def, prepareRow_neg]
  simp only [hprep]
  have tail : ∀ rows3 : List Row,
      (Except.ok (roundTax exactOps c ((baseRateTotals exactOps r c (rows3.map negRow)).map (catAmounts exactOps r c))
        (finalSum exactOps r c ((baseRateTotals exactOps r c (rows3.map negRow)).map (catAmounts exactOps r c)))) : Except CalcErr TaxTotal) =
      (Except.ok (roundTax exactOps c ((baseRateTotals exactOps r c rows3).map (catAmounts exactOps r c))
        (finalSum exactOps r c ((baseRateTotals exactOps r c rows3).map (catAmounts exactOps r c)))) : Except CalcErr TaxTotal).map negTax := by
    intro rows3
    have hc : (baseRateTotals exactOps r c (rows3.map negRow)).map (catAmounts exactOps r c) =
        ((baseRateTotals exactOps r c rows3).map (catAmounts exactOps r c)).map negCat := by
      rw [baseRateTotals_neg]
      simp [List.map_map, Function.comp_def, catAmounts_neg]
    rw [hc, finalSum_neg, roundTax_neg]
    rfl
  cases includes with
  | none => exact tail _
  | some k =>
    simp only [removeIncluded_neg]
    cases removeIncluded exactOps k (rows.map (prepareRow c)) with
    | error e => rfl
    | ok rows3 => exact tail rows3

/-! ### everything before the tax summary -/

def negPre (p : Pre) : Pre :=
  { lines := p.lines.map negLineOut, sum := neg p.sum, discounts := p.discounts.map invertDocAdj,
    charges := p.charges.map invertDocAdj, dsum := p.dsum.map neg, csum := p.csum.map neg,
    total2 := neg p.total2, rows := p.rows.map negRow }

theorem taxRows_neg (lines : List Line) (ds cs : List DocAdj) :
    taxRows (lines.map negLineOut) (ds.map invertDocAdj) (cs.map invertDocAdj) =
      (taxRows lines ds cs).map negRow := by
  unfold taxRows
  simp only [List.map_append, List.map_map]
  congr 1
  · congr 1
    · induction lines with
      | nil => rfl
      | cons l ls ih =>
        simp only [List.map_cons, List.filterMap_cons]
        cases ht : l.total with
        | none => simp [negLineOut, invertLine, ht, ih]
        | some t => simp [negLineOut, invertLine, ht, ih, negRow]

theorem pre_invert (d : Doc) (h : ∀ l ∈ d.lines, PlainLine l) :
    pre exactOps (invertDoc d) = (pre exactOps d).map negPre := by
  unfold pre
  have hl : calcLines exactOps (invertDoc d).cur (invertDoc d).c (invertDoc d).rates (invertDoc d).rule (invertDoc d).lines =
      (calcLines exactOps d.cur d.c d.rates d.rule d.lines).map (·.map negLineOut) :=
    calcLines_invert d.cur d.c d.rates d.rule d.lines h
  rw [hl]
  cases calcLines exactOps d.cur d.c d.rates d.rule d.lines with
  | error e => rfl
  | ok lines =>
    simp only [Except.map]
    have hc : (invertDoc d).c = d.c := rfl
    have hr : (invertDoc d).rule = d.rule := rfl
    have hd : (invertDoc d).discounts = d.discounts.map invertDocAdj := rfl
    have hch : (invertDoc d).charges = d.charges.map invertDocAdj := rfl
    rw [hc, hr, hd, hch, lineSum_neg]
    have hda : ∀ xs : List DocAdj, (xs.map invertDocAdj).map (docAdj exactOps d.rule d.c (neg (lineSum exactOps d.c lines))) =
        (xs.map (docAdj exactOps d.rule d.c (lineSum exactOps d.c lines))).map invertDocAdj := by
      intro xs
      simp [List.map_map, Function.comp_def, docAdj_neg]
    rw [hda, hda, adjSum_neg, adjSum_neg, taxRows_neg]
    congr 1
    simp only [negPre, Pre.mk.injEq, true_and, and_true]
    cases adjSum exactOps d.c (d.discounts.map (docAdj exactOps d.rule d.c (lineSum exactOps d.c lines))) with
    | none =>
      cases adjSum exactOps d.c (d.charges.map (docAdj exactOps d.rule d.c (lineSum exactOps d.c lines))) with
      | none => rfl
      | some y => simp [add_neg]
    | some x =>
      cases adjSum exactOps d.c (d.charges.map (docAdj exactOps d.rule d.c (lineSum exactOps d.c lines))) with
      | none => simp [sub_neg]
      | some y => simp [sub_neg, add_neg]

/-! ### totals, payment, presentation -/

def negTotals (t : Totals) : Totals :=
  { sum := neg t.sum, discount := t.discount.map neg, charge := t.charge.map neg,
    taxIncluded := t.taxIncluded.map neg, total := neg t.total, taxes := t.taxes.map negTax,
    tax := neg t.tax, totalWithTax := neg t.totalWithTax, rounding := t.rounding.map neg,
    payable := neg t.payable, advances := t.advances.map neg, due := t.due.map neg }

/-- the negated result; payment due dates are compared separately (a fixed due amount does not change sign) -/
def negOut (o : Out) : Out :=
  { lines := o.lines.map negLineOut, discounts := o.discounts.map invertDocAdj,
    charges := o.charges.map invertDocAdj, advances := o.advances.map invertAdvance,
    dues := o.dues, totals := o.totals.map negTotals }

def Out.dropDues (o : Out) : Out := { o with dues := [] }

theorem preciseAmount_neg (ct : CatTotal) : (negCat ct).preciseAmount = neg ct.preciseAmount := by
  unfold CatTotal.preciseAmount negCat neg
  simp only
  by_cases h : ct.precise.value = 0 <;> simp [h]

theorem precise_neg (t : TaxTotal) : (negTax t).precise = neg t.precise := by
  unfold TaxTotal.precise negTax neg
  simp only
  by_cases h : t.preciseSum.value = 0 <;> simp [h]

theorem taxIncluded_neg (inc : Option String) (tx : TaxTotal) :
    taxIncluded inc (negTax tx) = (taxIncluded inc tx).map neg := by
  unfold taxIncluded
  cases inc with
  | none => rfl
  | some k =>
    simp only [negTax, List.find?_map, Option.map_map]
    have : ((fun ct : CatTotal => ct.code == k) ∘ negCat) = (fun ct : CatTotal => ct.code == k) := by
      funext ct; rfl
    rw [this]
    cases tx.cats.find? (fun ct => ct.code == k) with
    | none => rfl
    | some ct => simp [preciseAmount_neg]

theorem calcAdvance_neg (c : ℕ) (twt : Amount) (a : Advance) :
    calcAdvance exactOps c (neg twt) (invertAdvance a) = invertAdvance (calcAdvance exactOps c twt a) := by
  unfold calcAdvance invertAdvance
  cases hp : a.percent with
  | none => simp [up_neg, hp]
  | some p => simp [up_neg, pctOf_neg, hp]

theorem advanceTotal_neg (c : ℕ) (advs : List Advance) :
    advanceTotal exactOps c (advs.map invertAdvance) = (advanceTotal exactOps c advs).map neg := by
  unfold advanceTotal
  cases advs with
  | nil => rfl
  | cons a as =>
    simp only [List.map_cons, List.isEmpty_cons, Bool.false_eq_true, if_false, Option.map_some]
    congr 1
    have h : ((invertAdvance a :: as.map invertAdvance).map (·.amount)) = ((a :: as).map (·.amount)).map neg := by
      simp [invertAdvance, List.map_map, Function.comp_def]
    have := foldl_accum_neg ((a :: as).map (·.amount)) ⟨0, c⟩
    rw [neg_zero_amt, ← h] at this
    exact this

theorem rawTotals_neg (d : Doc) (p : Pre) (tx : TaxTotal) :
    rawTotals exactOps (invertDoc d) (negPre p) (negTax tx) = negTotals (rawTotals exactOps d p tx) := by
  unfold rawTotals
  have hi : (invertDoc d).includes = d.includes := rfl
  have hro : (invertDoc d).rounding = d.rounding.map neg := rfl
  have hc : (invertDoc d).c = d.c := rfl
  have hpay : (invertDoc d).hasPayment = d.hasPayment := rfl
  have hadv : (invertDoc d).advances = d.advances.map invertAdvance := rfl
  have ht2 : (negPre p).total2 = neg p.total2 := rfl
  have hcats : (negTax tx).cats.isEmpty = tx.cats.isEmpty := by simp [negTax]
  rw [hi, hro, hc, hpay, hadv, ht2, hcats, taxIncluded_neg, precise_neg]
  have hmap : ∀ twt : Amount, (d.advances.map invertAdvance).map (calcAdvance exactOps d.c (neg twt)) =
      (d.advances.map (calcAdvance exactOps d.c twt)).map invertAdvance := by
    intro twt
    simp [List.map_map, Function.comp_def, calcAdvance_neg]
  cases d.rounding with
  | none =>
    cases taxIncluded d.includes tx with
    | none =>
      simp only [Option.map_none, add_neg, hmap, advanceTotal_neg]
      simp only [negTotals, negPre, Totals.mk.injEq, true_and, Option.map_none, and_true]
      cases d.hasPayment
      · simp
        split <;> simp
      · simp only [if_true]
        refine ⟨?_, trivial, ?_⟩
        · split <;> simp
        · cases advanceTotal exactOps d.c (d.advances.map (calcAdvance exactOps d.c (add exactOps p.total2 tx.precise))) with
          | none => rfl
          | some x => simp [sub_neg]
    | some ti =>
      simp only [Option.map_some, Option.map_none, sub_neg, add_neg, hmap, advanceTotal_neg]
      simp only [negTotals, negPre, Totals.mk.injEq, true_and, Option.map_none, Option.map_some, and_true]
      cases d.hasPayment
      · simp
        split <;> simp
      · simp only [if_true]
        refine ⟨?_, trivial, ?_⟩
        · split <;> simp
        · cases advanceTotal exactOps d.c (d.advances.map (calcAdvance exactOps d.c (add exactOps (sub exactOps p.total2 ti) tx.precise))) with
          | none => rfl
          | some x => simp [sub_neg]
  | some r =>
    cases taxIncluded d.includes tx with
    | none =>
      simp only [Option.map_none, Option.map_some, add_neg, hmap, advanceTotal_neg]
      simp only [negTotals, negPre, Totals.mk.injEq, true_and, Option.map_none, Option.map_some, and_true]
      cases d.hasPayment
      · simp
        split <;> simp
      · simp only [if_true]
        refine ⟨?_, trivial, ?_⟩
        · split <;> simp
        · cases advanceTotal exactOps d.c (d.advances.map (calcAdvance exactOps d.c (add exactOps p.total2 tx.precise))) with
          | none => rfl
          | some x => simp [sub_neg]
    | some ti =>
      simp only [Option.map_some, sub_neg, add_neg, hmap, advanceTotal_neg]
      simp only [negTotals, negPre, Totals.mk.injEq, true_and, Option.map_none, Option.map_some, and_true]
      cases d.hasPayment
      · simp
        split <;> simp
      · simp only [if_true]
        refine ⟨?_, trivial, ?_⟩
        · split <;> simp
        · cases advanceTotal exactOps d.c (d.advances.map (calcAdvance exactOps d.c (add exactOps (sub exactOps p.total2 ti) tx.precise))) with
          | none => rfl
          | some x => simp [sub_neg]

theorem roundAdj_neg (e : ℕ) (x : LineAdj) : roundAdj exactOps e (invertAdj x) = invertAdj (roundAdj exactOps e x) := by
  simp [roundAdj, invertAdj, down_neg]

theorem roundLine_neg (l : Line) : roundLine exactOps (negLineOut l) = negLineOut (roundLine exactOps l) := by
  unfold roundLine
  have hi : (negLineOut l).item = l.item := rfl
  rw [hi]
  cases l.item with
  | none => rfl
  | some it =>
    simp only
    cases it.price with
    | none => rfl
    | some pr =>
      simp only [negLineOut, invertLine, Line.mk.injEq, true_and, and_true, List.map_map, Option.map_map]
      refine ⟨?_, ?_, ?_, ?_⟩
      · apply List.map_congr_left; intro x _; exact roundAdj_neg pr.exp x
      · apply List.map_congr_left; intro x _; exact roundAdj_neg pr.exp x
      · cases l.sum <;> simp [down_neg]
      · cases l.total <;> simp [down_neg]

theorem roundDocAdj_neg (c : ℕ) (x : DocAdj) :
    roundDocAdj exactOps c (invertDocAdj x) = invertDocAdj (roundDocAdj exactOps c x) := by
  unfold roundDocAdj invertDocAdj
  cases x.base with
  | none => simp [down_neg]
  | some b =>
    simp only [Option.map_some, neg_exp]
    rw [down_neg]
    rfl

theorem roundTotals_neg (c : ℕ) (t : Totals) :
    roundTotals exactOps c (negTotals t) = negTotals (roundTotals exactOps c t) := by
  unfold roundTotals negTotals
  simp only [exact_rescale, rescaleX_neg, Totals.mk.injEq, true_and, and_true, Option.map_map]
  have hf : ((fun x : Amount => x.rescaleX c) ∘ neg) = (neg ∘ fun x : Amount => x.rescaleX c) := by
    funext x; exact rescaleX_neg x c
  rw [hf]
  exact ⟨rfl, rfl, rfl, rfl, rfl⟩

theorem finish_neg (d : Doc) (p : Pre) (tx : TaxTotal) :
    (finish exactOps (invertDoc d) (negPre p) (negTax tx)).dropDues =
      (negOut (finish exactOps d p tx)).dropDues := by
  unfold finish
  simp only [rawTotals_neg d p tx]
  have hc : (invertDoc d).c = d.c := rfl
  have hpay : (invertDoc d).hasPayment = d.hasPayment := rfl
  have hadv : (invertDoc d).advances = d.advances.map invertAdvance := rfl
  have htw : (negTotals (rawTotals exactOps d p tx)).totalWithTax = neg (rawTotals exactOps d p tx).totalWithTax := rfl
  rw [hc, hpay, hadv, htw, roundTotals_neg]
  simp only [Out.dropDues, negOut, negPre, Out.mk.injEq, true_and, and_true, List.map_map, Option.map_some]
  refine ⟨?_, ?_, ?_, ?_⟩
  · apply List.map_congr_left; intro l _; exact roundLine_neg l
  · apply List.map_congr_left; intro x _; exact roundDocAdj_neg d.c x
  · apply List.map_congr_left; intro x _; exact roundDocAdj_neg d.c x
  · cases d.hasPayment
    · simp
    · simp only [if_true, List.map_map]
      apply List.map_congr_left
      intro a _
      simp only [Function.comp, calcAdvance_neg, exact_rescale]
      simp [invertAdvance, rescaleX_neg]

/-- **Whole-document inversion.** For a document of input lines (nothing calculated stored on them; breakdowns allowed), with or
without an externally supplied rounding amount (inverted with the rest), recalculating the inverted document gives exactly the negated result:
every line, discount, charge, advance, tax-summary group and total changes sign and nothing else
changes.  Payment due dates are excluded from the comparison: a due date with a fixed amount keeps
its sign in the code as well. -/
theorem calculate_invert (d : Doc) (h : ∀ l ∈ d.lines, PlainLine l) :
    (calculate exactOps (invertDoc d)).map Out.dropDues =
      ((calculate exactOps d).map negOut).map Out.dropDues := by
  unfold calculate
  rw [pre_invert d h]
  cases pre exactOps d with
  | error e => rfl
  | ok p =>
    simp only [Except.map]
    have hrows : (negPre p).rows.isEmpty = p.rows.isEmpty := by simp [negPre]
    rw [hrows]
    cases hre : p.rows.isEmpty
    · simp only [Bool.false_eq_true, if_false]
      have hrule : (invertDoc d).rule = d.rule := rfl
      have hc : (invertDoc d).c = d.c := rfl
      have hi : (invertDoc d).includes = d.includes := rfl
      have hrw : (negPre p).rows = p.rows.map negRow := rfl
      rw [hrule, hc, hi, hrw, taxTotal_neg]
      cases taxTotal exactOps d.rule d.c d.includes p.rows with
      | error e => rfl
      | ok tx =>
        simp only [Except.map]
        congr 1
        exact finish_neg d p tx
    · simp only [if_true]
      congr 1

end Calc
end GoblVerif
