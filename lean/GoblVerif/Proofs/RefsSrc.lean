/-
  RefsSrc (proofs): the leaf predicates of /repo/cbc and /repo/tax as the go2lean translator
  reads them (Generated/RefsSrc.lean) brought into the closed forms of Model/Refs.lean.
  Props/C18.lean (namespace Src) restates the results against the model.

  * `splitAux_plus`, `splitAux_head`: the primitive `strings.Split / SplitN` with the
    separator "+" is the model's `splitPlus` (all pieces / the first piece);
  * `src_Key_Has_list`, `src_Key_In`, `src_Key_HasPrefix`, `src_Definition_HasCode` (cbc);
  * `src_inCategoryRatesRule`, `src_CategoryDef`, `src_tagValidation_*`, `src_addonValidation`,
    `src_Regime_Validate`, `src_ExtCodeValues`, `src_Extensions_Validate` (tax);
  * `errLoop`: a loop that only collects errors into a map ends with a non-empty map exactly
    when it started with one or some element was not `ok` (`keyLoop`, `pairLoop` are the two
    loops of `Extensions.Validate`); only the NIL-NESS of the result is observed, so the
    order in which Go ranges over the extension map does not matter (`List.all`).
-/
import GoblVerif.Generated.RefsSrc
import GoblVerif.Proofs.GoSemList

namespace GoblVerif.Proofs.RefsSrc
open GoblVerif.Generated.RefsSrc GoblVerif.GoSem GoblVerif.Refs GoblVerif.Refs.Src GoblVerif.GoStr

theorem splitAux_plus (s : Str) (cur : Str) (more : Nat) (h : s.length ≤ more) :
    splitAux ['+'] s 0 cur more = splitPlus s cur := by
  induction s generalizing cur more with
  | nil => simp [splitAux, splitPlus]
  | cons c rest ih =>
    cases more with
    | zero => simp at h
    | succ m =>
      simp only [List.length_cons, Nat.add_le_add_iff_right] at h
      by_cases hc : c = '+'
      · subst hc
        simp [splitAux, splitPlus, ih [] m h]
      · have : ¬ (['+'].isPrefixOf (c :: rest) = true) := by
          simp [List.isPrefixOf]; exact fun h => hc h.symm
        simp only [splitAux, this, splitPlus]
        simp [hc]
        exact ih (c :: cur) (m+1) (by omega)

theorem src_Key_Has_list (k ke : Str) : Cbc.Key_Has k ke = (splitPlus k []).any (· == ke) := by
  unfold Cbc.Key_Has Cbc.Key_String Cbc.KeySeparator split
  simp only [forIn_list_id, pure_bind]
  simp only [Id.run, id_pure]
  rw [splitAux_plus k [] k.length (Nat.le_refl _)]
  rw [forList_stateless _ (fun v => if (v == ke) = true then some true else none)
    (by intro x s; by_cases h : x = ke <;> simp [h])]
  rw [any_findSome]
  cases ((splitPlus k []).any (· == ke)) <;> rfl

theorem any_beq_contains (k : Str) (set : List Str) : set.any (· == k) = set.contains k := by
  rw [Bool.eq_iff_iff]
  simp [List.any_eq_true]

theorem src_Key_In (k : Str) (set : List Str) : Cbc.Key_In k set = set.contains k := by
  unfold Cbc.Key_In
  simp only [forIn_list_id, pure_bind]
  simp only [Id.run, id_pure]
  rw [forList_stateless _ (fun v => if (v == k) = true then some true else none)
    (by intro x s; by_cases h : x = k <;> simp [h])]
  rw [any_findSome, any_beq_contains]
  cases set.contains k <;> rfl

theorem splitAux_head (s cur : Str) :
    (splitAux ['+'] s 0 cur 1)[0]?.getD [] = (splitPlus s cur).head?.getD [] := by
  induction s generalizing cur with
  | nil => simp [splitAux, splitPlus]
  | cons c rest ih =>
    by_cases hc : c = '+'
    · subst hc
      simp [splitAux, splitPlus]
    · have : ¬ (['+'].isPrefixOf (c :: rest) = true) := by
        simp [List.isPrefixOf]; exact fun h => hc h.symm
      simp only [splitAux, this, splitPlus]
      simp only [hc, beq_iff_eq, if_false]
      exact ih (c :: cur)

theorem src_Key_HasPrefix (k ke : Str) : Cbc.Key_HasPrefix k ke = ((splitPlus k []).head?.getD [] == ke) := by
  have h2 : splitN k ['+'] 2 = splitAux ['+'] k 0 [] 1 := rfl
  unfold Cbc.Key_HasPrefix Cbc.Key_String Cbc.KeySeparator
  simp only [Id.run, id_pure, h2]
  rw [← splitAux_head]
  have hd : (default : Str) = [] := rfl
  rw [Bool.eq_iff_iff]
  simp [hd]

theorem find_first {α : Type} (l : List α) (p : α → Prop) [DecidablePred p] :
    l.findSome? (fun v => if p v then some (some v) else none) = (l.find? (fun v => decide (p v))).map some := by
  induction l with
  | nil => rfl
  | cons a l ih =>
    simp only [List.findSome?, List.find?]
    by_cases h : p a
    · simp [h]
    · simp only [h]; simpa using ih

theorem isSome_find {α : Type} (l : List α) (p : α → Bool) : (l.find? p).isSome = l.any p := by
  induction l with
  | nil => rfl
  | cons a l ih =>
    simp only [List.find?, List.any_cons]
    cases h : p a <;> simp [ih]

theorem src_Definition_HasCode (d : CDef) (c : Str) : Cbc.Definition_HasCode d c = d.values.any (fun v => v.code == c) := by
  unfold Cbc.Definition_HasCode Cbc.Definition_CodeDef
  simp only [forIn_list_id, pure_bind]
  simp only [Id.run, id_pure]
  rw [forList_stateless _ (fun v => if (v.code == c) = true then some (some v) else none)
    (by intro x s; by_cases h : x.code = c <;> simp [h])]
  simp only [beq_iff_eq]
  rw [find_first d.values (fun v => v.code = c), ← isSome_find]
  have e : (fun v : CDef => v.code == c) = (fun v => decide (v.code = c)) := by funext v; rw [Bool.eq_iff_iff]; simp
  rw [e]
  cases d.values.find? (fun v => decide (v.code = c)) <;> simp

theorem src_inCategoryRatesRule (cat : Str) (keys : List Str) (key : Str) :
    (Tax.inCategoryRatesRule_Validate ⟨cat, keys⟩ (.key key)).isNone =
      (key == [] || keys.any (fun k => Cbc.Key_Has key k)) := by
  unfold Tax.inCategoryRatesRule_Validate
  simp only [forIn_list_id, pure_bind]
  simp only [Id.run, id_pure, Dyn.asKey]
  by_cases hk : key = []
  · subst hk; simp
  · simp only [hk, not_true_eq_false, or_self, if_false]
    rw [forList_stateless _ (fun k => if (Cbc.Key_Has key k) = true then some none else none)
      (by intro x s; by_cases h : Cbc.Key_Has key x = true <;> simp [h])]
    have hb : (key == []) = false := by simpa using hk
    rw [hb, Bool.false_or]
    induction keys with
    | nil => simp [errNew]
    | cons a l ih =>
      simp only [List.findSome?, List.any_cons]
      by_cases h : Cbc.Key_Has key a = true
      · simp [h]
      · simp only [h]; simpa using ih

theorem src_inCategoryRatesRule_other (r : Tax.inCategoryRatesRule) (v : Dyn) (h : ∀ k, v ≠ .key k) :
    Tax.inCategoryRatesRule_Validate r v = none := by
  unfold Tax.inCategoryRatesRule_Validate
  cases v with
  | key k => exact absurd rfl (h k)
  | _ => simp [Dyn.asKey, Id.run, id_pure]

theorem src_CategoryDef (r : Option RegimeD) (code : Str) :
    Tax.RegimeDef_CategoryDef r code = r.bind (fun r => r.categories.find? (fun c => c.code == code)) := by
  unfold Tax.RegimeDef_CategoryDef
  cases r with
  | none => simp [Id.run, id_pure]
  | some r =>
    simp only [forIn_list_id, pure_bind]
    simp only [Id.run, id_pure, Option.isNone_some, Bool.false_eq_true, if_false, Option.get!_some, Option.bind_some]
    rw [forList_stateless _ (fun c => if (c.code == code) = true then some (some c) else none)
      (by intro x s; by_cases h : x.code = code <;> simp [h])]
    induction r.categories with
    | nil => rfl
    | cons a l ih =>
      simp only [List.findSome?, List.find?]
      by_cases h : a.code = code
      · simp [h]
      · have hb : (a.code == code) = false := by simpa using h
        simp only [hb, Bool.false_eq_true, if_false]; exact ih

theorem findSome_zipIdx {α β : Type} (l : List α) (n : Nat) (f : α → Option β) :
    (l.zipIdx n).findSome? (fun x => f x.1) = l.findSome? f := by
  induction l generalizing n with
  | nil => rfl
  | cons a l ih =>
    simp only [List.zipIdx_cons, List.findSome?]
    cases f a with
    | some b => rfl
    | none => exact ih (n + 1)

theorem findSome_all {α β : Type} (l : List α) (q : α → Bool) (e : β) :
    (l.findSome? fun x => if q x = true then none else some e) = if l.all q = true then none else some e := by
  induction l with
  | nil => rfl
  | cons a l ih =>
    simp only [List.findSome?, List.all_cons]
    by_cases h : q a = true <;> simp [h, ih]

/-- the loop of `tagValidation.Validate` -/
theorem tagLoop (keys l : List Str) :
    (forList (fun (x : Str × Nat) (_ : Option (Option Str) × Unit) =>
        if ¬ Cbc.Key_In x.fst keys = true then ForInStep.done (some errorsAsError, ()) else ForInStep.yield (none, ()))
      l.zipIdx (none, ())).fst = if l.all (fun x => keys.contains x) = true then none else some errorsAsError := by
  rw [forList_stateless _ (fun x => if (keys.contains x.1) = true then none else some errorsAsError)
    (by intro x s; rw [src_Key_In]; by_cases h : x.1 ∈ keys <;> simp [h])]
  simp only []
  rw [findSome_zipIdx l 0 (fun x => if (keys.contains x) = true then none else some errorsAsError), findSome_all]

theorem src_tagValidation_keys (keys l : List Str) :
    (Tax.tagValidation_Validate ⟨keys⟩ (.keys l)).isNone = l.all (keys.contains ·) := by
  unfold Tax.tagValidation_Validate
  simp only [forIn_list_id, pure_bind]
  simp only [Id.run, id_pure, Dyn.asKeys, Dyn.asTags]
  simp only [not_true_eq_false, if_false, tagLoop]
  cases l.all (fun x => keys.contains x) <;> simp [errorsAsError]

theorem src_tagValidation_tags (keys l : List Str) :
    (Tax.tagValidation_Validate ⟨keys⟩ (.tags ⟨l⟩)).isNone = l.all (keys.contains ·) := by
  unfold Tax.tagValidation_Validate
  simp only [forIn_list_id, pure_bind]
  simp only [Id.run, id_pure, Dyn.asKeys, Dyn.asTags]
  simp only [Bool.false_eq_true, not_false_eq_true, not_true_eq_false, if_true, if_false, tagLoop]
  cases l.all (fun x => keys.contains x) <;> simp [errorsAsError]

theorem src_tagValidation_other (keys : List Str) (v : Dyn) (h1 : ∀ l, v ≠ .keys l) (h2 : ∀ t, v ≠ .tags t) :
    Tax.tagValidation_Validate ⟨keys⟩ v = none := by
  unfold Tax.tagValidation_Validate
  cases v with
  | keys l => exact absurd rfl (h1 l)
  | tags t => exact absurd rfl (h2 t)
  | _ => simp [Dyn.asKeys, Dyn.asTags, Id.run, id_pure]

theorem src_addonValidation [reg : Registry] (k : Str) :
    (Tax.addonValidation_Validate ⟨⟩ (.key k)).isNone = reg.addonDefined k := by
  unfold Tax.addonValidation_Validate
  simp only [Id.run, id_pure, Dyn.asKey]
  by_cases h : reg.addonDefined k = true
  · simp [h]
  · have hb : reg.addonDefined k = false := by simpa using h
    simp [hb, errNew]

theorem src_Regime_Validate [reg : Registry] (c : Str) :
    (Tax.Regime_Validate ⟨c⟩).isNone = (c == [] || reg.regimeDefined c) := by
  unfold Tax.Regime_Validate
  simp only [Id.run, id_pure]
  by_cases hc : c = []
  · subst hc; simp
  · have hb : (c == []) = false := by simpa using hc
    by_cases h : reg.regimeDefined c = true
    · simp [hc, hb, h]
    · have hr : reg.regimeDefined c = false := by simpa using h
      simp [hc, hb, hr, errNew]

theorem mapSet_length_pos {α β : Type} [BEq α] (m : List (α × β)) (k : α) (v : β) :
    (GoblVerif.GoSem.mapSet m k v).length > 0 := by
  cases m with
  | nil => simp [GoblVerif.GoSem.mapSet]
  | cons a m => 
    obtain ⟨k0, v0⟩ := a
    simp only [GoblVerif.GoSem.mapSet]
    split <;> simp

theorem src_ExtCodeValues (key : Str) (values : List Str) (em : List (Str × Str)) :
    (Tax.validateExtCodeValues_Validate ⟨key, values⟩ (.ext em)).isNone =
      (match em.lookup key with | none => true | some ev => values.contains ev) := by
  unfold Tax.validateExtCodeValues_Validate
  simp only [forIn_list_id, pure_bind]
  simp only [Id.run, id_pure, Dyn.asExt]
  obtain ⟨o, ho⟩ : ∃ o, List.lookup key em = o := ⟨_, rfl⟩
  simp only [ho]
  cases o with
  | none => simp
  | some ev =>
    simp only [Option.isSome_some, Option.getD_some, if_true, not_true_eq_false, if_false]
    have e : values.any (fun x => decide (ev = x)) = values.contains ev := by
      induction values with
      | nil => rfl
      | cons a l ih => simp only [List.any_cons, List.contains_cons, ih]; congr 1; rw [Bool.eq_iff_iff]; simp
    simp only [forList_flag (fun x => ev = x) values false, Bool.false_or, e]
    cases values.contains ev <;> simp [GoblVerif.GoSem.mapSet, errorsAsError]

/-- a loop that collects errors: each element leaves the collection alone (`ok`) or makes it non-empty -/
theorem errLoop {α β : Type} (body : α → List β → ForInStep (List β)) (ok : α → Bool)
    (h : ∀ x s, match body x s with
      | .yield s' => (if ok x = true then s' = s else s'.length > 0)
      | .done _ => False)
    (l : List α) (s : List β) :
    ((forList body l s).length > 0) ↔ (s.length > 0 ∨ l.all ok = false) := by
  induction l generalizing s with
  | nil => simp [forList]
  | cons a l ih =>
    have ha := h a s
    cases hb : body a s with
    | done s' => rw [hb] at ha; exact ha.elim
    | yield s' =>
      rw [hb] at ha
      simp only [forList, hb, ih s', List.all_cons]
      by_cases hok : ok a = true
      · simp only [hok, if_true] at ha
        subst ha
        simp [hok]
      · simp only [hok] at ha
        have hf : ok a = false := by simpa using hok
        simp [hf]
        left; exact ha

/-- one pair of `Extensions.Validate`, as the code judges it -/
def extPairOK [reg : Registry] (reMatch : Str → Str → Bool) (codeSyntax : Str → Bool) (x : Str × Str) : Bool :=
  match reg.extensionForKey x.1 with
  | none => false
  | some kd =>
    (validateCode codeSyntax x.2 ["validation.Required"]).isNone &&
    (kd.values.isEmpty || kd.values.any (fun v => v.code == x.2)) &&
    (kd.pattern == [] || reMatch kd.pattern x.2)

theorem keyLoop (keySyntax : Str → Option Str) (em : List (Str × Str)) (s : List (Str × Option Str)) :
    ((forList (fun (x : Str × Str) (s : List (Str × Option Str)) =>
        if (keySyntax x.fst).isSome = true then ForInStep.yield (mapSet s x.fst (keySyntax x.fst))
        else ForInStep.yield s) em s).length > 0) ↔ (s.length > 0 ∨ em.all (fun x => (keySyntax x.1).isNone) = false) := by
  apply errLoop
  intro x s
  cases hk : keySyntax x.1 with
  | none => simp
  | some e => simpa using mapSet_length_pos s x.1 (some e)

theorem pairLoop [reg : Registry] (reMatch : Str → Str → Bool) (codeSyntax : Str → Bool) (em : List (Str × Str))
    (s : List (Str × Option Str)) :
    ((forList (fun (x : Str × Str) (s : List (Str × Option Str)) =>
        if (Registry.extensionForKey x.fst).isNone = true then
          ForInStep.yield (mapSet s x.fst (errNew "undefined"))
        else
          if (validateCode codeSyntax x.snd ["validation.Required"]).isSome = true then
            ForInStep.yield (mapSet s x.fst (validateCode codeSyntax x.snd ["validation.Required"]))
          else
            if
                ((Registry.extensionForKey x.fst).get!.values.length : Int) > 0 ∧
                  ¬Cbc.Definition_HasCode ((Registry.extensionForKey x.fst).getD default) x.snd =
                      true then
              if (Registry.extensionForKey x.fst).get!.pattern ≠ [] then
                if (reCompile (Registry.extensionForKey x.fst).get!.pattern).snd.isSome = true then
                  ForInStep.yield
                    (mapSet (mapSet s x.fst (errNew "value '%s' invalid")) x.fst
                      (reCompile (Registry.extensionForKey x.fst).get!.pattern).snd)
                else
                  if
                      ¬reMatch (reCompile (Registry.extensionForKey x.fst).get!.pattern).fst x.snd =
                          true then
                    ForInStep.yield
                      (mapSet (mapSet s x.fst (errNew "value '%s' invalid")) x.fst
                        (errNew "does not match pattern"))
                  else ForInStep.yield (mapSet s x.fst (errNew "value '%s' invalid"))
              else ForInStep.yield (mapSet s x.fst (errNew "value '%s' invalid"))
            else
              if (Registry.extensionForKey x.fst).get!.pattern ≠ [] then
                if (reCompile (Registry.extensionForKey x.fst).get!.pattern).snd.isSome = true then
                  ForInStep.yield
                    (mapSet s x.fst (reCompile (Registry.extensionForKey x.fst).get!.pattern).snd)
                else
                  if
                      ¬reMatch (reCompile (Registry.extensionForKey x.fst).get!.pattern).fst x.snd =
                          true then
                    ForInStep.yield (mapSet s x.fst (errNew "does not match pattern"))
                  else ForInStep.yield s
              else ForInStep.yield s) em s).length > 0) ↔
      (s.length > 0 ∨ em.all (extPairOK reMatch codeSyntax) = false) := by
  apply errLoop
  intro x s
  unfold extPairOK
  cases hk : Registry.extensionForKey x.1 with
  | none => simpa using mapSet_length_pos s x.1 _
  | some kd =>
    simp only [Option.isNone_some, Bool.false_eq_true, if_false, Option.get!_some, Option.getD_some,
      src_Definition_HasCode, reCompile]
    cases hv : validateCode codeSyntax x.2 ["validation.Required"] with
    | some e => simpa using mapSet_length_pos s x.1 _
    | none =>
      simp only [Option.isSome_none, Bool.false_eq_true, if_false, Option.isNone_none, Bool.true_and]
      have hlen : (0 < kd.values.length) ↔ kd.values.isEmpty = false := by
        cases kd.values <;> simp
      by_cases h1 : kd.values.isEmpty = true <;> by_cases h2 : (kd.values.any fun v => v.code == x.2) = true <;>
        by_cases h3 : kd.pattern = [] <;> by_cases h4 : reMatch kd.pattern x.2 = true <;>
        simp [hlen, h1, h2, h3, h4, mapSet_length_pos]

theorem keyLoopI (keySyntax : Str → Option Str) (em : List (Str × Str)) (s : List (Str × Option Str)) :
    (((forList (fun (x : Str × Str) (s : List (Str × Option Str)) =>
        if (keySyntax x.fst).isSome = true then ForInStep.yield (mapSet s x.fst (keySyntax x.fst))
        else ForInStep.yield s) em s).length : Int) > 0) ↔ (s.length > 0 ∨ em.all (fun x => (keySyntax x.1).isNone) = false) := by
  rw [gt_iff_lt, Int.natCast_pos]
  exact keyLoop keySyntax em s

theorem pairLoopI [reg : Registry] (reMatch : Str → Str → Bool) (codeSyntax : Str → Bool) (em : List (Str × Str))
    (s : List (Str × Option Str)) :
    (((forList (fun (x : Str × Str) (s : List (Str × Option Str)) =>
        if (Registry.extensionForKey x.fst).isNone = true then
          ForInStep.yield (mapSet s x.fst (errNew "undefined"))
        else
          if (validateCode codeSyntax x.snd ["validation.Required"]).isSome = true then
            ForInStep.yield (mapSet s x.fst (validateCode codeSyntax x.snd ["validation.Required"]))
          else
            if
                ((Registry.extensionForKey x.fst).get!.values.length : Int) > 0 ∧
                  ¬Cbc.Definition_HasCode ((Registry.extensionForKey x.fst).getD default) x.snd =
                      true then
              if (Registry.extensionForKey x.fst).get!.pattern ≠ [] then
                if (reCompile (Registry.extensionForKey x.fst).get!.pattern).snd.isSome = true then
                  ForInStep.yield
                    (mapSet (mapSet s x.fst (errNew "value '%s' invalid")) x.fst
                      (reCompile (Registry.extensionForKey x.fst).get!.pattern).snd)
                else
                  if
                      ¬reMatch (reCompile (Registry.extensionForKey x.fst).get!.pattern).fst x.snd =
                          true then
                    ForInStep.yield
                      (mapSet (mapSet s x.fst (errNew "value '%s' invalid")) x.fst
                        (errNew "does not match pattern"))
                  else ForInStep.yield (mapSet s x.fst (errNew "value '%s' invalid"))
              else ForInStep.yield (mapSet s x.fst (errNew "value '%s' invalid"))
            else
              if (Registry.extensionForKey x.fst).get!.pattern ≠ [] then
                if (reCompile (Registry.extensionForKey x.fst).get!.pattern).snd.isSome = true then
                  ForInStep.yield
                    (mapSet s x.fst (reCompile (Registry.extensionForKey x.fst).get!.pattern).snd)
                else
                  if
                      ¬reMatch (reCompile (Registry.extensionForKey x.fst).get!.pattern).fst x.snd =
                          true then
                    ForInStep.yield (mapSet s x.fst (errNew "does not match pattern"))
                  else ForInStep.yield s
              else ForInStep.yield s) em s).length : Int) > 0) ↔
      (s.length > 0 ∨ em.all (extPairOK reMatch codeSyntax) = false) := by
  rw [gt_iff_lt, Int.natCast_pos]
  exact pairLoop reMatch codeSyntax em s

theorem src_Extensions_Validate [reg : Registry] (reMatch : Str → Str → Bool) (keySyntax : Str → Option Str)
    (codeSyntax : Str → Bool) (em : List (Str × Str)) :
    (Tax.Extensions_Validate reMatch keySyntax codeSyntax em).isNone =
      (em.all (fun x => (keySyntax x.1).isNone) && em.all (extPairOK reMatch codeSyntax)) := by
  unfold Tax.Extensions_Validate
  simp only [forIn_list_id, pure_bind]
  simp only [Id.run, id_pure]
  simp only [keyLoopI, pairLoopI, keyLoop]
  cases em.all (fun x => (keySyntax x.1).isNone) <;> cases em.all (extPairOK reMatch codeSyntax) <;>
    simp [errorsAsError]

end GoblVerif.Proofs.RefsSrc
