/-
  Helper lemmas for C20.

  `Total.Merge` is, at both levels (categories by code, rate groups by
  `Matches`), the same loop: find the first related element and absorb the new
  one into it, else append.  The generic combinator `mergeOne` captures it; the
  lemmas about sums, invariants and duplicates are proved once for it and
  instantiated twice.
-/
import GoblVerif.Model.Merge
import GoblVerif.Spec.C20
import GoblVerif.Proofs.Num
import Mathlib.Tactic.Linarith
import Mathlib.Tactic.Ring
import Mathlib.Tactic.FieldSimp

namespace GoblVerif.Merge
open GoblVerif GoblVerif.Spec.C20

/-! ### the generic loop -/

def mergeOne {α : Type} (eqv : α → α → Bool) (absorb : α → α → α) : List α → α → List α
  | [], x => [x]
  | m :: rest, x => if eqv m x then absorb m x :: rest else m :: mergeOne eqv absorb rest x

theorem mergeRate_eq (rs : List RateTotal) (rt : RateTotal) :
    mergeRate rs rt = mergeOne RateTotal.matches RateTotal.absorb rs rt := by
  induction rs with
  | nil => rfl
  | cons m rest ih => simp only [mergeRate, mergeOne, ih]

theorem mergeCategory_eq (cs : List CategoryTotal) (ct : CategoryTotal) :
    mergeCategory cs ct = mergeOne (fun m c => m.code == c.code) CategoryTotal.absorb cs ct := by
  induction cs with
  | nil => rfl
  | cons m rest ih => simp only [mergeCategory, mergeOne, ih]

theorem mergeRates_eq (rs rts : List RateTotal) :
    mergeRates rs rts = rts.foldl (mergeOne RateTotal.matches RateTotal.absorb) rs := by
  unfold mergeRates
  induction rts generalizing rs with
  | nil => rfl
  | cons r more ih => simp only [List.foldl_cons, mergeRate_eq, ih]

theorem mergeCategories_eq (cs cts : List CategoryTotal) :
    mergeCategories cs cts = cts.foldl (mergeOne (fun m c => m.code == c.code) CategoryTotal.absorb) cs := by
  unfold mergeCategories
  induction cts generalizing cs with
  | nil => rfl
  | cons r more ih => simp only [List.foldl_cons, mergeCategory_eq, ih]

section generic
variable {α : Type} (eqv : α → α → Bool) (absorb : α → α → α) (Inv : α → Prop)

theorem inv_mergeOne
    (hInv : ∀ m x, Inv m → Inv x → eqv m x = true → Inv (absorb m x))
    (xs : List α) (x : α) (hxs : ∀ m ∈ xs, Inv m) (hx : Inv x) :
    ∀ m ∈ mergeOne eqv absorb xs x, Inv m := by
  induction xs with
  | nil => intro m hm; simp [mergeOne] at hm; subst hm; exact hx
  | cons a rest ih =>
    have ha := hxs a (by simp)
    have hrest : ∀ m ∈ rest, Inv m := fun m hm => hxs m (by simp [hm])
    intro m hm
    unfold mergeOne at hm
    cases he : eqv a x with
    | true =>
      simp only [he, if_true, List.mem_cons] at hm
      rcases hm with rfl | hm
      · exact hInv a x ha hx he
      · exact hrest m hm
    | false =>
      simp only [he, Bool.false_eq_true, if_false, List.mem_cons] at hm
      rcases hm with rfl | hm
      · exact ha
      · exact ih hrest m hm

theorem inv_foldl_mergeOne
    (hInv : ∀ m x, Inv m → Inv x → eqv m x = true → Inv (absorb m x))
    (xs ys : List α) (hxs : ∀ m ∈ xs, Inv m) (hys : ∀ m ∈ ys, Inv m) :
    ∀ m ∈ ys.foldl (mergeOne eqv absorb) xs, Inv m := by
  induction ys generalizing xs with
  | nil => exact hxs
  | cons y more ih =>
    simp only [List.foldl_cons]
    exact ih _ (inv_mergeOne eqv absorb Inv hInv xs y hxs (hys y (by simp))) (fun m hm => hys m (by simp [hm]))

variable (sel : α → Bool) (w : α → Int)

theorem wsum_mergeOne
    (hsel1 : ∀ m x, Inv m → Inv x → eqv m x = true → sel (absorb m x) = sel m)
    (hsel2 : ∀ m x, Inv m → Inv x → eqv m x = true → sel m = sel x)
    (hw : ∀ m x, Inv m → Inv x → eqv m x = true → sel m = true → w (absorb m x) = w m + w x)
    (xs : List α) (x : α) (hxs : ∀ m ∈ xs, Inv m) (hx : Inv x) :
    wsum sel w (mergeOne eqv absorb xs x) = wsum sel w xs + (if sel x then w x else 0) := by
  induction xs with
  | nil => simp [mergeOne, wsum]
  | cons a rest ih =>
    have ha := hxs a (by simp)
    have hrest : ∀ m ∈ rest, Inv m := fun m hm => hxs m (by simp [hm])
    unfold mergeOne
    cases he : eqv a x with
    | true =>
      simp only [if_true, wsum]
      rw [hsel1 a x ha hx he]
      have h2 := hsel2 a x ha hx he
      by_cases hs : sel a = true
      · rw [← h2]
        simp only [hs, if_true]
        rw [hw a x ha hx he hs]; ring
      · rw [← h2]
        simp only [hs]
        simp
    | false =>
      simp only [Bool.false_eq_true, if_false, wsum]
      rw [ih hrest]; ring

theorem wsum_foldl_mergeOne
    (hInv : ∀ m x, Inv m → Inv x → eqv m x = true → Inv (absorb m x))
    (hsel1 : ∀ m x, Inv m → Inv x → eqv m x = true → sel (absorb m x) = sel m)
    (hsel2 : ∀ m x, Inv m → Inv x → eqv m x = true → sel m = sel x)
    (hw : ∀ m x, Inv m → Inv x → eqv m x = true → sel m = true → w (absorb m x) = w m + w x)
    (xs ys : List α) (hxs : ∀ m ∈ xs, Inv m) (hys : ∀ m ∈ ys, Inv m) :
    wsum sel w (ys.foldl (mergeOne eqv absorb) xs) = wsum sel w xs + wsum sel w ys := by
  induction ys generalizing xs with
  | nil => simp [wsum]
  | cons y more ih =>
    simp only [List.foldl_cons]
    rw [ih _ (inv_mergeOne eqv absorb Inv hInv xs y hxs (hys y (by simp))) (fun m hm => hys m (by simp [hm]))]
    rw [wsum_mergeOne eqv absorb Inv sel w hsel1 hsel2 hw xs y hxs (hys y (by simp))]
    simp only [wsum]; ring

end generic

/-! ### `Percentage.Equals` compares values -/

theorem rescale_up_value (a : Amount) (e : ℕ) (h : a.exp ≤ e) :
    (a.rescale e).value = a.value * pow10 (e - a.exp) ∧ (a.rescale e).exp = e := by
  rw [rescale_up_eq a e h]
  unfold Amount.rescaleX
  have h0 : ¬ a.exp > e := by omega
  by_cases h1 : a.exp < e
  · simp [h0, h1]
  · have : a.exp = e := by omega
    simp [this, pow10]

theorem toRat_scaled (a : Amount) (E : ℕ) (h : a.exp ≤ E) :
    a.toRat = ((a.value * pow10 (E - a.exp) : ℤ) : ℚ) / ((pow10 E : ℤ) : ℚ) := by
  unfold Amount.toRat
  have hp : pow10 E = pow10 a.exp * pow10 (E - a.exp) := by
    unfold pow10; rw [← pow_add]; congr 1; omega
  rw [hp]
  have h1 : ((pow10 a.exp : ℤ) : ℚ) ≠ 0 := by exact_mod_cast pow10_ne a.exp
  have h2 : ((pow10 (E - a.exp) : ℤ) : ℚ) ≠ 0 := by exact_mod_cast pow10_ne _
  push_cast
  field_simp

theorem equals_iff_toRat (a b : Amount) : a.equals b = true ↔ a.toRat = b.toRat := by
  unfold Amount.equals Amount.compare
  set E := (if b.exp > a.exp then b.exp else a.exp) with hE
  have ha : a.exp ≤ E := by rw [hE]; split <;> omega
  have hb : b.exp ≤ E := by rw [hE]; split <;> omega
  simp only
  rw [(rescale_up_value a E ha).1, (rescale_up_value b E hb).1, toRat_scaled a E ha, toRat_scaled b E hb]
  have hp : ((pow10 E : ℤ) : ℚ) ≠ 0 := by exact_mod_cast pow10_ne E
  rw [div_left_inj' hp]
  constructor
  · intro h
    by_cases h1 : a.value * pow10 (E - a.exp) < b.value * pow10 (E - b.exp)
    · simp [h1] at h
    · by_cases h2 : a.value * pow10 (E - a.exp) > b.value * pow10 (E - b.exp)
      · simp [h1, h2] at h
      · have : a.value * pow10 (E - a.exp) = b.value * pow10 (E - b.exp) := by omega
        exact_mod_cast this
  · intro h
    have : a.value * pow10 (E - a.exp) = b.value * pow10 (E - b.exp) := by exact_mod_cast h
    simp [this]

theorem pct_equals_eq (p q : Pct) : p.equals q = (p.amount.toRat == q.amount.toRat) := by
  unfold Pct.equals
  rw [Bool.eq_iff_iff, equals_iff_toRat]
  simp

/-- `RateTotal.Matches` decides exactly "same rate group" of the specification -/
theorem matches_eq_sameGroup (a b : RateTotal) : a.matches b = sameGroup a b := by
  unfold RateTotal.matches sameGroup extEquals samePercent sameSurchargePercent
  by_cases he : a.ext = b.ext <;> by_cases hc : a.country = b.country <;>
    rcases a.percent with _ | p <;> rcases b.percent with _ | q <;>
    rcases a.surcharge with _ | s <;> rcases b.surcharge with _ | t <;>
    simp [he, hc, pct_equals_eq, Bool.beq_eq_decide_eq]

/-! ### rate level: `sameGroup` is an equivalence compatible with `absorb` -/

theorem sameGroup_congr_right (k m x : RateTotal) (h : sameGroup m x = true) :
    sameGroup k m = sameGroup k x := by
  unfold sameGroup samePercent sameSurchargePercent at *
  rcases hk : k.percent with _ | kp <;> rcases hm : m.percent with _ | mp <;> rcases hx : x.percent with _ | xp <;>
    rcases hks : k.surcharge with _ | ks <;> rcases hms : m.surcharge with _ | ms <;> rcases hxs : x.surcharge with _ | xs <;>
    simp_all [Bool.beq_eq_decide_eq]

/-- absorbing a row of the same group keeps the group of the matched row (a
    surcharge is only copied into an exempt row, whose group ignores it) -/
theorem sameGroup_absorb (k m x : RateTotal) (h : sameGroup m x = true) :
    sameGroup k (m.absorb x) = sameGroup k m := by
  unfold sameGroup samePercent sameSurchargePercent RateTotal.absorb at *
  rcases hk : k.percent with _ | kp <;> rcases hm : m.percent with _ | mp <;> rcases hx : x.percent with _ | xp <;>
    rcases hks : k.surcharge with _ | ks <;> rcases hms : m.surcharge with _ | ms <;> rcases hxs : x.surcharge with _ | xs <;>
    simp_all

theorem sameGroup_refl (k : RateTotal) : sameGroup k k = true := by
  unfold sameGroup samePercent sameSurchargePercent
  rcases k.percent with _ | kp <;> rcases k.surcharge with _ | ks <;> simp

theorem sameGroup_symm (a b : RateTotal) : sameGroup a b = sameGroup b a := by
  unfold sameGroup samePercent sameSurchargePercent
  rcases ha : a.percent with _ | p <;> rcases hb : b.percent with _ | q <;>
    rcases has : a.surcharge with _ | s <;> rcases hbs : b.surcharge with _ | t <;>
    simp [Bool.beq_eq_decide_eq, eq_comm]

/-- adding amounts of the same precision is integer addition -/
theorem add_same_exp (a b : Amount) (h : b.exp = a.exp) : a.add b = ⟨a.value + b.value, a.exp⟩ := by
  unfold Amount.add Amount.rescale
  have h1 : ¬ b.exp > a.exp := by omega
  have h2 : ¬ b.exp < a.exp := by omega
  simp [h1, h2]

theorem sub_same_exp (a b : Amount) (h : b.exp = a.exp) : a.sub b = ⟨a.value - b.value, a.exp⟩ := by
  unfold Amount.sub Amount.rescale
  have h1 : ¬ b.exp > a.exp := by omega
  have h2 : ¬ b.exp < a.exp := by omega
  simp [h1, h2]

/-- invariant of the rate rows while merging summaries of precision `e` -/
def RInv (e : ℕ) (r : RateTotal) : Prop := uniformRate e r = true

theorem uniformRate_iff (e : ℕ) (r : RateTotal) :
    uniformRate e r = true ↔ r.base.exp = e ∧ r.amount.exp = e ∧ ∀ s, r.surcharge = some s → s.amount.exp = e := by
  unfold uniformRate
  rcases r.surcharge with _ | s <;> simp [and_assoc]

theorem absorb_uniform (e : ℕ) (m x : RateTotal) (hm : RInv e m) (hx : RInv e x) : RInv e (m.absorb x) := by
  unfold RInv at *
  rw [uniformRate_iff] at *
  obtain ⟨m1, m2, m3⟩ := hm
  obtain ⟨x1, x2, x3⟩ := hx
  unfold RateTotal.absorb
  refine ⟨by simp [Amount.add, m1], by simp [Amount.add, m2], ?_⟩
  intro s hs
  simp only at hs
  rcases hxs : x.surcharge with _ | xs
  · rw [hxs] at hs; exact m3 s hs
  · rw [hxs] at hs
    rcases hms : m.surcharge with _ | ms
    · rw [hms] at hs
      simp only [Option.some.injEq] at hs
      subst hs
      exact x3 xs hxs
    · rw [hms] at hs
      simp only [Option.some.injEq] at hs
      subst hs
      simp [Amount.add, m3 ms hms]

theorem absorb_base (e : ℕ) (m x : RateTotal) (hm : RInv e m) (hx : RInv e x) :
    (m.absorb x).base.value = m.base.value + x.base.value := by
  have h1 := ((uniformRate_iff e m).mp hm).1
  have h2 := ((uniformRate_iff e x).mp hx).1
  unfold RateTotal.absorb
  simp only
  rw [add_same_exp _ _ (by omega)]

theorem absorb_amount (e : ℕ) (m x : RateTotal) (hm : RInv e m) (hx : RInv e x) :
    (m.absorb x).amount.value = m.amount.value + x.amount.value := by
  have h1 := ((uniformRate_iff e m).mp hm).2.1
  have h2 := ((uniformRate_iff e x).mp hx).2.1
  unfold RateTotal.absorb
  simp only
  rw [add_same_exp _ _ (by omega)]

/-- the surcharge of the absorbing row is the sum of the two rows' surcharges
    (absent = 0), whichever side carries one — no condition on the rows' shape -/
theorem absorb_surcharge (e : ℕ) (m x : RateTotal) (hm : RInv e m) (hx : RInv e x) :
    surchargeValue (m.absorb x) = surchargeValue m + surchargeValue x := by
  have m3 := ((uniformRate_iff e m).mp hm).2.2
  have x3 := ((uniformRate_iff e x).mp hx).2.2
  unfold surchargeValue RateTotal.absorb
  rcases hms : m.surcharge with _ | ms <;> rcases hxs : x.surcharge with _ | xs <;> simp_all
  rw [add_same_exp _ _ (by omega)]

/-! ### rate groups of one category -/

theorem rates_figure (e : ℕ) (f : RateTotal → ℤ) (k : RateTotal)
    (hf : ∀ m x, RInv e m → RInv e x → f (m.absorb x) = f m + f x)
    (rs rts : List RateTotal) (hrs : ∀ r ∈ rs, RInv e r) (hrts : ∀ r ∈ rts, RInv e r) :
    wsum (sameGroup k) f (mergeRates rs rts) = wsum (sameGroup k) f rs + wsum (sameGroup k) f rts := by
  rw [mergeRates_eq]
  apply wsum_foldl_mergeOne RateTotal.matches RateTotal.absorb (RInv e) (sameGroup k) f
  · intro m x hm hx _; exact absorb_uniform e m x hm hx
  · intro m x _ _ he; rw [matches_eq_sameGroup] at he; exact sameGroup_absorb k m x he
  · intro m x _ _ he; rw [matches_eq_sameGroup] at he; exact sameGroup_congr_right k m x he
  · intro m x hm hx _ _; exact hf m x hm hx
  · exact hrs
  · exact hrts

theorem rates_inv (e : ℕ) (rs rts : List RateTotal) (hrs : ∀ r ∈ rs, RInv e r) (hrts : ∀ r ∈ rts, RInv e r) :
    ∀ r ∈ mergeRates rs rts, RInv e r := by
  rw [mergeRates_eq]
  exact inv_foldl_mergeOne _ _ (RInv e) (fun m x hm hx _ => absorb_uniform e m x hm hx) rs rts hrs hrts

/-! ### categories -/

def CInv (e : ℕ) (c : CategoryTotal) : Prop := uniformCategory e c = true

theorem uniformCategory_iff (e : ℕ) (c : CategoryTotal) :
    uniformCategory e c = true ↔
      c.amount.exp = e ∧ (∀ s, c.surcharge = some s → s.exp = e) ∧ ∀ r ∈ c.rates, RInv e r := by
  unfold uniformCategory RInv
  rcases c.surcharge with _ | s <;> simp [and_assoc]

theorem cat_absorb_code (m c : CategoryTotal) : (m.absorb c).code = m.code := rfl

theorem cat_absorb_uniform (e : ℕ) (m c : CategoryTotal) (hm : CInv e m) (hc : CInv e c) : CInv e (m.absorb c) := by
  unfold CInv at *
  rw [uniformCategory_iff] at *
  obtain ⟨m1, m2, m3⟩ := hm
  obtain ⟨c1, c2, c3⟩ := hc
  refine ⟨by simp [CategoryTotal.absorb, Amount.add, m1], ?_, ?_⟩
  · intro s hs
    unfold CategoryTotal.absorb at hs
    simp only at hs
    rcases hcs : c.surcharge with _ | cs
    · rw [hcs] at hs; exact m2 s hs
    · rw [hcs] at hs
      rcases hms : m.surcharge with _ | ms
      · rw [hms] at hs; simp only [Option.some.injEq] at hs; subst hs; exact c2 cs hcs
      · rw [hms] at hs; simp only [Option.some.injEq] at hs; subst hs
        simp [Amount.add, m2 ms hms]
  · exact rates_inv e m.rates c.rates m3 c3

theorem cat_absorb_amount (e : ℕ) (m c : CategoryTotal) (hm : CInv e m) (hc : CInv e c) :
    (m.absorb c).amount.value = m.amount.value + c.amount.value := by
  have h1 := ((uniformCategory_iff e m).mp hm).1
  have h2 := ((uniformCategory_iff e c).mp hc).1
  unfold CategoryTotal.absorb
  simp only
  rw [add_same_exp _ _ (by omega)]

theorem cat_absorb_surcharge (e : ℕ) (m c : CategoryTotal) (hm : CInv e m) (hc : CInv e c) :
    catSurchargeValue (m.absorb c) = catSurchargeValue m + catSurchargeValue c := by
  have h1 := ((uniformCategory_iff e m).mp hm).2.1
  have h2 := ((uniformCategory_iff e c).mp hc).2.1
  unfold catSurchargeValue CategoryTotal.absorb
  rcases hms : m.surcharge with _ | ms <;> rcases hcs : c.surcharge with _ | cs <;> simp_all
  rw [add_same_exp _ _ (by omega)]

theorem code_congr (code : String) (m c : CategoryTotal) (h : (m.code == c.code) = true) :
    (m.code == code) = (c.code == code) := by
  have : m.code = c.code := by simpa using h
  rw [this]

/-- the generic statement for any category figure that is additive under `absorb` -/
theorem categories_figure (Inv : CategoryTotal → Prop) (g : CategoryTotal → ℤ) (code : String)
    (hInv : ∀ m c, Inv m → Inv c → Inv (m.absorb c))
    (hg : ∀ m c, Inv m → Inv c → g (m.absorb c) = g m + g c)
    (cs cts : List CategoryTotal) (hcs : ∀ c ∈ cs, Inv c) (hcts : ∀ c ∈ cts, Inv c) :
    wsum (fun c => c.code == code) g (mergeCategories cs cts) =
      wsum (fun c => c.code == code) g cs + wsum (fun c => c.code == code) g cts := by
  rw [mergeCategories_eq]
  apply wsum_foldl_mergeOne (fun m c => m.code == c.code) CategoryTotal.absorb Inv (fun c => c.code == code) g
  · intro m c hm hc _; exact hInv m c hm hc
  · intro m c _ _ _; rfl
  · intro m c _ _ he; exact code_congr code m c he
  · intro m c hm hc _ _; exact hg m c hm hc
  · exact hcs
  · exact hcts

/-! ### merging a list with an elementwise related copy of itself -/

section self
variable {α : Type} (eqv : α → α → Bool) (absorb : α → α → α)

theorem mergeOne_hit (pre : List α) (p : α) (ps : List α) (x : α)
    (hpre : ∀ a ∈ pre, eqv a x = false) (hp : eqv p x = true) :
    mergeOne eqv absorb (pre ++ p :: ps) x = pre ++ absorb p x :: ps := by
  induction pre with
  | nil => simp [mergeOne, hp]
  | cons a rest ih =>
    have ha := hpre a (by simp)
    simp only [List.cons_append, mergeOne, ha, Bool.false_eq_true, if_false]
    rw [ih (fun b hb => hpre b (by simp [hb]))]

theorem foldl_mergeOne_self (neg : α → α)
    (hA1 : ∀ m x y, eqv m x = true → eqv (absorb m x) y = eqv m y)
    (hA2 : ∀ y b, eqv y (neg b) = eqv y b)
    (hrefl : ∀ p, eqv p p = true)
    (pre post : List α)
    (hpre : ∀ a ∈ pre, ∀ b ∈ post, eqv a b = false)
    (hpost : pairwiseNot eqv post = true) :
    (post.map neg).foldl (mergeOne eqv absorb) (pre ++ post) =
      pre ++ post.map (fun x => absorb x (neg x)) := by
  induction post generalizing pre with
  | nil => simp
  | cons p ps ih =>
    simp only [List.map_cons, List.foldl_cons]
    unfold pairwiseNot at hpost
    simp only [Bool.and_eq_true, List.all_eq_true, Bool.not_eq_true'] at hpost
    rw [mergeOne_hit eqv absorb pre p ps (neg p)
      (fun a ha => by rw [hA2]; exact hpre a ha p (by simp))
      (by rw [hA2]; exact hrefl p)]
    have := ih (pre ++ [absorb p (neg p)])
      (by
        intro a ha b hb
        simp only [List.mem_append, List.mem_singleton] at ha
        rcases ha with ha | rfl
        · exact hpre a ha b (by simp [hb])
        · rw [hA1 _ _ _ (by rw [hA2]; exact hrefl p)]; exact hpost.1 b hb)
      hpost.2
    simp only [List.append_assoc, List.singleton_append] at this
    exact this

end self

theorem sameGroup_negate (y b : RateTotal) : sameGroup y b.negate = sameGroup y b := by
  unfold sameGroup samePercent sameSurchargePercent RateTotal.negate
  rcases y.percent with _ | yp <;> rcases b.percent with _ | bp <;>
    rcases y.surcharge with _ | ys <;> rcases b.surcharge with _ | bs <;> simp

theorem rates_self_negate (rs : List RateTotal) (h : pairwiseNot sameGroup rs = true) :
    mergeRates rs (rs.map RateTotal.negate) = rs.map (fun r => r.absorb r.negate) := by
  rw [mergeRates_eq]
  have hfun : RateTotal.matches = sameGroup := by
    funext a b; exact matches_eq_sameGroup a b
  rw [hfun]
  have := foldl_mergeOne_self sameGroup RateTotal.absorb RateTotal.negate
    (fun m x y he => by rw [sameGroup_symm, sameGroup_absorb _ _ _ he, sameGroup_symm])
    sameGroup_negate sameGroup_refl [] rs (by simp) h
  simpa using this

theorem categories_self_negate (cs : List CategoryTotal)
    (h : pairwiseNot (fun a b => a.code == b.code) cs = true) :
    mergeCategories cs (cs.map CategoryTotal.negate) = cs.map (fun c => c.absorb c.negate) := by
  rw [mergeCategories_eq]
  have := foldl_mergeOne_self (fun (a b : CategoryTotal) => a.code == b.code) CategoryTotal.absorb CategoryTotal.negate
    (fun m x y _ => rfl) (fun y b => rfl) (fun p => by simp) [] cs (by simp) h
  simpa using this

theorem add_negate_zero (a : Amount) : (a.add a.negate).value = 0 := by
  rw [add_same_exp a a.negate rfl]
  simp [Amount.negate]

theorem rate_absorb_negate_zero (r : RateTotal) : rateZero (r.absorb r.negate) = true := by
  unfold rateZero surchargeValue RateTotal.absorb RateTotal.negate
  simp only [add_negate_zero, beq_self_eq_true, Bool.true_and]
  rcases r.surcharge with _ | s
  · simp
  · simp [add_negate_zero]

/-! ### no duplicates are created -/

section nodup
variable {α : Type} (eqv : α → α → Bool) (absorb : α → α → α)

theorem pairwiseNot_cons (x : α) (xs : List α) :
    pairwiseNot eqv (x :: xs) = true ↔ (∀ y ∈ xs, eqv x y = false) ∧ pairwiseNot eqv xs = true := by
  rw [pairwiseNot]; simp

theorem pairwiseNot_mergeOne
    (hL : ∀ m x y, eqv m x = true → eqv (absorb m x) y = eqv m y)
    (hR : ∀ a m x, eqv m x = true → eqv a (absorb m x) = eqv a m)
    (xs : List α) (x : α) (h : pairwiseNot eqv xs = true) :
    pairwiseNot eqv (mergeOne eqv absorb xs x) = true ∧
      ∀ a, (∀ y ∈ xs, eqv a y = false) → eqv a x = false → ∀ y ∈ mergeOne eqv absorb xs x, eqv a y = false := by
  induction xs with
  | nil =>
    refine ⟨by simp [mergeOne, pairwiseNot], ?_⟩
    intro a _ hax y hy
    simp [mergeOne] at hy; subst hy; exact hax
  | cons m rest ih =>
    obtain ⟨hm, hrest⟩ := (pairwiseNot_cons eqv m rest).mp h
    obtain ⟨ih1, ih2⟩ := ih hrest
    unfold mergeOne
    cases he : eqv m x with
    | true =>
      simp only [if_true]
      refine ⟨?_, ?_⟩
      · rw [pairwiseNot_cons]
        exact ⟨fun y hy => by rw [hL _ _ _ he]; exact hm y hy, hrest⟩
      · intro a ha _ y hy
        simp only [List.mem_cons] at hy
        rcases hy with rfl | hy
        · rw [hR _ _ _ he]; exact ha m (by simp)
        · exact ha y (by simp [hy])
    | false =>
      simp only [Bool.false_eq_true, if_false]
      refine ⟨?_, ?_⟩
      · rw [pairwiseNot_cons]
        exact ⟨ih2 m hm he, ih1⟩
      · intro a ha hax y hy
        simp only [List.mem_cons] at hy
        rcases hy with rfl | hy
        · exact ha y (by simp)
        · exact ih2 a (fun z hz => ha z (by simp [hz])) hax y hy

theorem pairwiseNot_foldl
    (hL : ∀ m x y, eqv m x = true → eqv (absorb m x) y = eqv m y)
    (hR : ∀ a m x, eqv m x = true → eqv a (absorb m x) = eqv a m)
    (xs ys : List α) (h : pairwiseNot eqv xs = true) :
    pairwiseNot eqv (ys.foldl (mergeOne eqv absorb) xs) = true := by
  induction ys generalizing xs with
  | nil => exact h
  | cons y more ih =>
    simp only [List.foldl_cons]
    exact ih _ (pairwiseNot_mergeOne eqv absorb hL hR xs y h).1

end nodup

theorem mergeRates_nodup (rs rts : List RateTotal) (h : pairwiseNot sameGroup rs = true) :
    pairwiseNot sameGroup (mergeRates rs rts) = true := by
  rw [mergeRates_eq]
  have hfun : RateTotal.matches = sameGroup := by
    funext a b; exact matches_eq_sameGroup a b
  rw [hfun]
  exact pairwiseNot_foldl sameGroup RateTotal.absorb
    (fun m x y he => by rw [sameGroup_symm, sameGroup_absorb _ _ _ he, sameGroup_symm])
    (fun a m x he => sameGroup_absorb a m x he) rs rts h

def CND (c : CategoryTotal) : Prop := pairwiseNot sameGroup c.rates = true

theorem mergeCategories_nodup (cs cts : List CategoryTotal)
    (h : pairwiseNot (fun (a b : CategoryTotal) => a.code == b.code) cs = true)
    (hcs : ∀ c ∈ cs, CND c) (hcts : ∀ c ∈ cts, CND c) :
    pairwiseNot (fun (a b : CategoryTotal) => a.code == b.code) (mergeCategories cs cts) = true ∧
      ∀ c ∈ mergeCategories cs cts, CND c := by
  rw [mergeCategories_eq]
  refine ⟨pairwiseNot_foldl (fun (a b : CategoryTotal) => a.code == b.code) CategoryTotal.absorb
    (fun m x y _ => rfl) (fun a m x _ => rfl) cs cts h, ?_⟩
  exact inv_foldl_mergeOne (fun (m c : CategoryTotal) => m.code == c.code) CategoryTotal.absorb CND
    (fun m x hm _ _ => mergeRates_nodup m.rates x.rates hm) cs cts hcs hcts


end GoblVerif.Merge
