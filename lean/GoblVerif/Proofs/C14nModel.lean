/-
  Helper lemmas for C07: the model of the Go marshaller (extracted tables,
  strconv post-processing, `first` flags, error propagation) produces exactly
  the README text of the content with null members dropped, or refuses.
-/
import GoblVerif.Model.C14n
import GoblVerif.Proofs.C14nText

namespace GoblVerif.Proofs.C14n
open GoblVerif GoblVerif.Spec.C07 GoblVerif.C14n

/-! ## tables: the extracted safeSet / hex / switch give the README escapes -/

theorem runeSelf_eq : runeSelf = 128 := by decide

/-- per ASCII character, the code's choice (literal if safe, else backslash + switch) is README rule 8 -/
theorem ascii_escape_table :
    ∀ c, c < 128 → (if safe c then [c] else 0x5C :: escapeAscii c) = escChar c := by
  decide +kernel

theorem escChar_ge (c : Nat) (h : 128 ≤ c) : escChar c = [c] := by
  unfold escChar
  repeat' split
  all_goals first | rfl | omega

theorem isScalar_ascii (c : Nat) (h : c < 128) : isScalar c = true := by
  simp [isScalar]; omega

theorem encodeRunes_eq : ∀ s : Str, encodeRunes s = if cleanS s then some (escS s) else none
  | [] => by simp [encodeRunes, cleanS, escS]
  | c :: cs => by
    have ih := encodeRunes_eq cs
    unfold encodeRunes
    rw [runeSelf_eq]
    have hcl : cleanS (c :: cs) = (isScalar c && cleanS cs) := by
      simp [cleanS]
    rw [hcl, ih]
    by_cases hc : c < 128
    · have ht := ascii_escape_table c hc
      simp only [hc, if_true, isScalar_ascii c hc, Bool.true_and]
      by_cases hs : safe c = true
      · simp only [hs, if_true] at ht ⊢
        cases hcs : cleanS cs <;> simp [escS, ← ht]
      · simp only [hs, Bool.false_eq_true, if_false] at ht ⊢
        cases hcs : cleanS cs <;> simp [escS, ← ht]
    · simp only [hc, if_false]
      have hge := escChar_ge c (by omega)
      cases hsc : isScalar c with
      | false => simp
      | true => cases hcs : cleanS cs <;> simp [escS, hge]

theorem encodeString_eq (s : Str) : encodeString s = if cleanS s then some (strText s) else none := by
  unfold encodeString
  rw [encodeRunes_eq]
  cases cleanS s <;> simp [strText]

/-! ## Float.MarshalJSON: the byte surgery on strconv's output gives README rule 7 -/

theorem natDigits_lt10 (n : Nat) (h : n < 10) : natDigits n = [48 + n] := by
  simp [natDigits, natDigitsAux, h]

theorem splitAtE_append (pre post : Chars) (h : ∀ c ∈ pre, c ≠ 0x45) :
    splitAtE (pre ++ 0x45 :: post) = (pre ++ [0x45], post) := by
  induction pre with
  | nil => simp [splitAtE]
  | cons x xs ih =>
    have hx : (x == 0x45) = false := by simp [h x (by simp)]
    have := ih (fun c hc => h c (by simp [hc]))
    simp [splitAtE, hx, this]

theorem expHacks_pos (n : Nat) : expHacks (0x2B :: pad2 n) = natDigits n := by
  unfold pad2
  by_cases h : n < 10
  · rw [if_pos h, natDigits_lt10 n h]
    by_cases h0 : n = 0
    · subst h0; decide
    · have : (48 + n == 48) = false := by simp; omega
      have h1 : (48 + n == 0x2D || 48 + n == 0x2B) = false := by
        simp only [Bool.or_eq_false_iff, beq_eq_false_iff_ne, ne_eq]; constructor <;> omega
      simp [expHacks, scanExp, this, h1]
  · rw [if_neg h]
    obtain ⟨c, t, e, hd, hz⟩ := natDigits_cons n
    have hz := hz (by omega)
    simp only [isDigit, Bool.and_eq_true, decide_eq_true_eq] at hd
    have h1 : (c == 0x2D || c == 0x2B) = false := by
      simp only [Bool.or_eq_false_iff, beq_eq_false_iff_ne, ne_eq]; constructor <;> omega
    have h2 : (c == 0x30) = false := by simp; omega
    rw [e]
    simp [expHacks, scanExp, h1, h2]

theorem expHacks_neg (n : Nat) : expHacks (0x2D :: pad2 n) = 0x2D :: natDigits n := by
  unfold pad2
  by_cases h : n < 10
  · rw [if_pos h, natDigits_lt10 n h]
    by_cases h0 : n = 0
    · subst h0; decide
    · have : (48 + n == 48) = false := by simp; omega
      have h1 : (48 + n == 0x2D || 48 + n == 0x2B) = false := by
        simp only [Bool.or_eq_false_iff, beq_eq_false_iff_ne, ne_eq]; constructor <;> omega
      simp [expHacks, scanExp, this, h1]
  · rw [if_neg h]
    obtain ⟨c, t, e, hd, hz⟩ := natDigits_cons n
    have hz := hz (by omega)
    simp only [isDigit, Bool.and_eq_true, decide_eq_true_eq] at hd
    have h1 : (c == 0x2D || c == 0x2B) = false := by
      simp only [Bool.or_eq_false_iff, beq_eq_false_iff_ne, ne_eq]; constructor <;> omega
    have h2 : (c == 0x30) = false := by simp; omega
    rw [e]
    simp [expHacks, scanExp, h1, h2]

theorem expHacks_exp (e : Int) :
    expHacks ((if e < 0 then 0x2D else 0x2B) :: pad2 e.natAbs) = formatInt e := by
  unfold formatInt
  by_cases h : e < 0
  · simp only [h, if_true]; exact expHacks_neg _
  · simp only [h, if_false]; exact expHacks_pos _

theorem frac_no_E (rest : List Nat) (h : rest.all (· < 10) = true) : ∀ c ∈ fracText rest, c ≠ 0x45 := by
  intro c hc
  have := fracText_digits rest h c hc
  simp [isDigit] at this; omega

theorem insertPoint_pos (x : Nat) (rest : Chars) (hx : x ≠ 0x2D) :
    insertPoint (x :: rest) = if rest.head? == some 0x2E then x :: rest else x :: 0x2E :: 0x30 :: rest := by
  rw [insertPoint.eq_def]
  split <;> simp_all

theorem marshalFloat_eq (neg : Bool) (ds : List Nat) (e : Int) (hw : wfDigits ds = true) :
    marshalFloat neg ds e = fltText neg ds e := by
  cases ds with
  | nil => simp [wfDigits] at hw
  | cons d rest =>
    obtain ⟨hd, hall, _⟩ := wfDigits_cons hw
    have hne := frac_no_E rest hall
    have hd45 : 48 + d ≠ 0x45 := by omega
    have hd2d : 48 + d ≠ 0x2D := by omega
    -- after insertPoint the number reads sign d . frac E sign exp
    have key : ∀ (sgn : Chars) (hs : ∀ c ∈ sgn, c ≠ 0x45),
        insertPoint (strconvE neg (d :: rest) e) = sgn ++ (48 + d) :: 0x2E :: (fracText rest ++ 0x45 ::
          ((if e < 0 then 0x2D else 0x2B) :: pad2 e.natAbs)) →
        marshalFloat neg (d :: rest) e = sgn ++ (48 + d) :: 0x2E :: (fracText rest ++ 0x45 :: formatInt e) := by
      intro sgn hs hi
      unfold marshalFloat floatHacks
      rw [hi]
      have : sgn ++ (48 + d) :: 0x2E :: (fracText rest ++ 0x45 :: ((if e < 0 then 0x2D else 0x2B) :: pad2 e.natAbs)) =
          (sgn ++ (48 + d) :: 0x2E :: fracText rest) ++ 0x45 :: ((if e < 0 then 0x2D else 0x2B) :: pad2 e.natAbs) := by
        simp
      rw [this, splitAtE_append _ _ (by
        intro c hc
        simp only [List.mem_append, List.mem_cons] at hc
        rcases hc with hc | hc | hc | hc
        · exact hs c hc
        · omega
        · omega
        · exact hne c hc)]
      simp only [expHacks_exp]
      simp
    cases neg with
    | true =>
      have := key [0x2D] (by simp) (by
        cases rest with
        | nil => simp [strconvE, insertPoint, fracText]
        | cons a t => simp [strconvE, insertPoint, fracText])
      simpa [fltText] using this
    | false =>
      have := key [] (by simp) (by
        cases rest with
        | nil =>
          simp only [strconvE, List.nil_append, List.cons_append, Bool.false_eq_true, if_false]
          rw [insertPoint_pos _ _ hd2d]; simp [fracText]
        | cons a t =>
          simp only [strconvE, List.nil_append, List.cons_append, Bool.false_eq_true, if_false]
          rw [insertPoint_pos _ _ hd2d]; simp [fracText])
      simpa [fltText] using this

theorem marshalAtom_eq (a : Atom) (hw : a.wf = true) :
    marshalAtom a = if cleanA a then some (atomText a) else none := by
  cases a with
  | null => rfl
  | bool b => cases b <;> rfl
  | int i => rfl
  | flt neg ds e => simp [marshalAtom, cleanA, atomText, marshalFloat_eq neg ds e hw]
  | str s => simp only [marshalAtom, cleanA, atomText]; exact encodeString_eq s

/-! ## Array / Object / Attribute.MarshalJSON -/

theorem strText_ne_nil (k : Str) : (strText k).isEmpty = false := rfl

theorem isNull_dropJ (v : J) : (dropJ v).isNull = v.isNull := by
  cases v with
  | atom a => rfl
  | arr xs => rfl
  | obj kvs => rfl

mutual
theorem marshalJ_eq : ∀ (t : J), t.wf = true →
    marshalJ t = if cleanJ (dropJ t) then some (text (dropJ t)) else none
  | .atom a, hw => by
    simp only [marshalJ, dropJ, cleanJ, text]
    exact marshalAtom_eq a (by simpa [J.wf] using hw)
  | .arr xs, hw => by
    have := marshalL_eq true xs (by simpa [J.wf] using hw)
    simp only [marshalJ, dropJ, cleanJ, text, this]
    cases cleanJL (dropJL xs) <;> simp
  | .obj kvs, hw => by
    have := marshalK_eq true kvs (by simpa [J.wf] using hw)
    simp only [marshalJ, dropJ, cleanJ, text, this]
    cases cleanJK (dropJK kvs) <;> simp
theorem marshalL_eq : ∀ (f : Bool) (xs : JL), xs.wf = true →
    marshalL f xs = if cleanJL (dropJL xs) then some (elems f (dropJL xs)) else none
  | f, .nil, _ => by simp [marshalL, dropJL, cleanJL, elems]
  | f, .cons x xs, hw => by
    simp only [JL.wf, Bool.and_eq_true] at hw
    have h1 := marshalJ_eq x hw.1
    have h2 := marshalL_eq false xs hw.2
    simp only [marshalL, dropJL, cleanJL, elems, h1, h2]
    cases cleanJ (dropJ x) <;> cases cleanJL (dropJL xs) <;> cases f <;> simp [sep]
theorem marshalK_eq : ∀ (f : Bool) (kvs : KL), kvs.wf = true →
    marshalK f kvs = if cleanJK (dropJK kvs) then some (members f (dropJK kvs)) else none
  | f, .nil, _ => by simp [marshalK, dropJK, cleanJK, members]
  | f, .cons k v r, hw => by
    simp only [KL.wf, Bool.and_eq_true] at hw
    have h1 := marshalJ_eq v hw.1
    have h2 := marshalK_eq false r hw.2
    have h3 := marshalK_eq f r hw.2
    by_cases hn : v.isNull = true
    · simp only [marshalK, dropJK, hn, attrJoin, if_true, List.isEmpty_nil, h3]
    · simp only [Bool.not_eq_true] at hn
      simp only [marshalK, dropJK, hn, attrJoin, Bool.false_eq_true, if_false, cleanJK, members,
        encodeString_eq, h1, h2]
      cases cleanS k <;> cases cleanJ (dropJ v) <;> cases cleanJK (dropJK r) <;> cases f <;>
        simp [sep, strText]
end

theorem canonChars_eq (v : J) (hw : (sortJ v).wf = true) :
    canonChars v = if cleanJ (norm v) then some (text (norm v)) else none :=
  marshalJ_eq (sortJ v) hw

end GoblVerif.Proofs.C14n
