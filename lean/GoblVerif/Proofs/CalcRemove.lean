/-
  `Invoice.RemoveIncludedTaxes` (Model/CalcRemove.lean): the amount payable
  after the removal is the original total with tax, the residue being the
  rounding field.

  Part 1: rounding half away from zero and shifts by whole units.
  Part 2: the recalculation of a stored document reproduces `Pre` (lines,
          document discounts/charges, tax rows) whenever its rows are fixpoints.
  Part 3: the three calculations of `removeIncludedTaxes` spelled out.
-/
import GoblVerif.Model.CalcRemove
import GoblVerif.Proofs.CalcFix
import GoblVerif.Proofs.CalcRemoveLines
import GoblVerif.Proofs.NumX
import Mathlib.Tactic.Linarith

namespace GoblVerif.Calc

/-! ## Part 1: `rha` and shifts -/

theorem goRound_bounds (x : ℚ) : ((goRound x : ℤ) : ℚ) - 1/2 ≤ x ∧ x ≤ ((goRound x : ℤ) : ℚ) + 1/2 := by
  by_cases hx : 0 ≤ x
  · have := (goRound_nonneg_iff x hx (goRound x)).mp rfl
    constructor <;> linarith [this.1, this.2]
  · have hx' : x < 0 := not_le.mp hx
    have := (goRound_neg_iff x hx' (goRound x)).mp rfl
    constructor <;> linarith [this.1, this.2]

/-- Shifting by a whole number of units commutes with rounding half away from zero, unless the shift
crosses zero: here it is required that the rounded value is zero, or that it has the strict sign of
the shifted rounded value. -/
theorem goRound_shift (x : ℚ) (K : ℤ)
    (h : goRound x = 0 ∨ 0 < (goRound x + K) * goRound x) :
    goRound (x + K) = goRound x + K := by
  set m := goRound x with hm
  by_cases hx : 0 ≤ x
  · have hb := (goRound_nonneg_iff x hx m).mp hm.symm
    by_cases hy : 0 ≤ x + K
    · rw [goRound_nonneg_iff _ hy]
      push_cast
      constructor <;> linarith [hb.1, hb.2]
    · have hy' : x + K < 0 := not_le.mp hy
      rw [goRound_neg_iff _ hy']
      push_cast
      refine ⟨?_, by linarith [hb.2]⟩
      -- x = m - 1/2 is impossible: then 0 ≤ x forces 1 ≤ m, and x + K < 0 forces m + K ≤ 0
      rcases h with h0 | hpos
      · have : (m : ℚ) = 0 := by exact_mod_cast h0
        linarith [hb.1]
      · have hm1 : (0 : ℚ) ≤ m + 1/2 := by linarith [hb.2]
        have hm0 : 0 ≤ m := by
          have : (-1 : ℚ) < m := by linarith
          have : (-1 : ℤ) < m := by exact_mod_cast this
          omega
        have hmK : (m : ℚ) + K < 1/2 := by linarith [hb.1]
        have hmK' : m + K ≤ 0 := by
          have : ((m + K : ℤ) : ℚ) < 1 := by push_cast; linarith
          have : m + K < 1 := by exact_mod_cast this
          omega
        have : (m + K) * m ≤ 0 := Int.mul_nonpos_of_nonpos_of_nonneg hmK' hm0
        omega
  · have hx' : x < 0 := not_le.mp hx
    have hb := (goRound_neg_iff x hx' m).mp hm.symm
    by_cases hy : 0 ≤ x + K
    · rw [goRound_nonneg_iff _ hy]
      push_cast
      refine ⟨by linarith [hb.1], ?_⟩
      rcases h with h0 | hpos
      · have : (m : ℚ) = 0 := by exact_mod_cast h0
        linarith [hb.2]
      · have hm0 : m ≤ 0 := by
          have : (m : ℚ) < 1 := by linarith [hb.1]
          have : m < 1 := by exact_mod_cast this
          omega
        have hmK' : 0 ≤ m + K := by
          have : (-1 : ℚ) < ((m + K : ℤ) : ℚ) := by push_cast; linarith [hb.2]
          have : (-1 : ℤ) < m + K := by exact_mod_cast this
          omega
        have : (m + K) * m ≤ 0 := Int.mul_nonpos_of_nonneg_of_nonpos hmK' hm0
        omega
    · have hy' : x + K < 0 := not_le.mp hy
      rw [goRound_neg_iff _ hy']
      push_cast
      constructor <;> linarith [hb.1, hb.2]

theorem rha_shift (x K D : ℤ) (hD : 0 < D) (h : rha x D = 0 ∨ 0 < (rha x D + K) * rha x D) :
    rha (x + K * D) D = rha x D + K := by
  rw [← goRound_div_pos _ _ hD, ← goRound_div_pos _ _ hD] at *
  have hDq : (D : ℚ) ≠ 0 := by exact_mod_cast (ne_of_gt hD)
  have : ((x + K * D : ℤ) : ℚ) / D = (x : ℚ) / D + K := by
    push_cast
    field_simp
  rw [this]
  exact goRound_shift _ K h

/-! ## Part 2: recalculating a stored document -/

theorem lineSum_exp_ge (c : ℕ) (ls : List Line) : c ≤ (lineSum exactOps c ls).exp := by
  unfold lineSum
  exact foldl_accum_exp_ge _ ⟨0, c⟩

/-- what a successful `pre` consists of -/
theorem pre_ok (d : Doc) (p : Pre) (h : pre exactOps d = .ok p) :
    calcLines exactOps d.cur d.c d.rates d.rule d.lines = .ok p.lines ∧
    p.sum = lineSum exactOps d.c p.lines ∧
    p.discounts = d.discounts.map (docAdj exactOps d.rule d.c p.sum) ∧
    p.charges = d.charges.map (docAdj exactOps d.rule d.c p.sum) ∧
    p.total2.exp = p.sum.exp ∧
    p.rows = taxRows p.lines p.discounts p.charges := by
  unfold pre at h
  cases hl : calcLines exactOps d.cur d.c d.rates d.rule d.lines with
  | error e => simp [hl] at h
  | ok lines =>
    simp only [hl] at h
    injection h with h
    subst h
    refine ⟨rfl, rfl, rfl, rfl, ?_, rfl⟩
    simp only
    cases adjSum exactOps d.c (d.charges.map (docAdj exactOps d.rule d.c (lineSum exactOps d.c lines))) <;>
      cases adjSum exactOps d.c (d.discounts.map (docAdj exactOps d.rule d.c (lineSum exactOps d.c lines))) <;> rfl

/-- `pre` of another document with the same settings whose rows calculate to the same rows -/
theorem pre_congr (d d' : Doc) (p : Pre) (hpre : pre exactOps d = .ok p)
    (hcur : d'.cur = d.cur) (hc : d'.c = d.c) (hrates : d'.rates = d.rates) (hrule : d'.rule = d.rule)
    (hl : calcLines exactOps d.cur d.c d.rates d.rule d'.lines = .ok p.lines)
    (hd : d'.discounts.map (docAdj exactOps d.rule d.c p.sum) = p.discounts)
    (hch : d'.charges.map (docAdj exactOps d.rule d.c p.sum) = p.charges) :
    pre exactOps d' = .ok p := by
  unfold pre at hpre
  cases hl0 : calcLines exactOps d.cur d.c d.rates d.rule d.lines with
  | error e => simp [hl0] at hpre
  | ok lines =>
    simp only [hl0] at hpre
    injection hpre with hpre
    subst hpre
    simp only at hl hd hch
    unfold pre
    simp only [hcur, hc, hrates, hrule, hl, hd, hch]

theorem calculate_of_pre (d : Doc) (p : Pre) (tx : TaxTotal) (hpre : pre exactOps d = .ok p)
    (hne : p.rows.isEmpty = false) (htx : taxTotal exactOps d.rule d.c d.includes p.rows = .ok tx) :
    calculate exactOps d = .ok (finish exactOps d p tx) := by
  unfold calculate
  simp only [hpre, hne, htx, Bool.false_eq_true, if_false]

/-- a successful calculation that produced totals, taken apart -/
theorem calculate_ok_totals (d : Doc) (out : Out) (t : Totals)
    (h : calculate exactOps d = .ok out) (ht : out.totals = some t) :
    ∃ p tx, pre exactOps d = .ok p ∧ p.rows.isEmpty = false ∧
      taxTotal exactOps d.rule d.c d.includes p.rows = .ok tx ∧ out = finish exactOps d p tx := by
  unfold calculate at h
  cases hpre : pre exactOps d with
  | error e => simp [hpre] at h
  | ok p =>
    simp only [hpre] at h
    by_cases hre : p.rows.isEmpty = true
    · simp only [hre, if_true] at h
      injection h with h
      rw [← h] at ht
      simp at ht
    · simp only [hre] at h
      cases htx : taxTotal exactOps d.rule d.c d.includes p.rows with
      | error e => simp [htx] at h
      | ok tx =>
        simp only [htx] at h
        injection h with h
        exact ⟨p, tx, rfl, by simpa using hre, htx, h.symm⟩

/-- a calculation without totals leaves nothing to add up -/
theorem calculate_ok_no_totals (d : Doc) (out : Out)
    (h : calculate exactOps d = .ok out) (ht : out.totals = none) :
    ∃ p, pre exactOps d = .ok p ∧ p.rows.isEmpty = true := by
  unfold calculate at h
  cases hpre : pre exactOps d with
  | error e => simp [hpre] at h
  | ok p =>
    simp only [hpre] at h
    by_cases hre : p.rows.isEmpty = true
    · exact ⟨p, rfl, hre⟩
    · simp only [hre] at h
      cases htx : taxTotal exactOps d.rule d.c d.includes p.rows with
      | error e => simp [htx] at h
      | ok tx =>
        simp only [htx] at h
        injection h with h
        rw [← h] at ht
        simp [finish] at ht

/-- the rows of a document are fixpoints of calculate ∘ present -/
structure RowsFix (d : Doc) (p : Pre) : Prop where
  lines : calcLines exactOps d.cur d.c d.rates d.rule (p.lines.map (roundLine exactOps)) = .ok p.lines
  discounts : (p.discounts.map (roundDocAdj exactOps d.c)).map (docAdj exactOps d.rule d.c p.sum) = p.discounts
  charges : (p.charges.map (roundDocAdj exactOps d.c)).map (docAdj exactOps d.rule d.c p.sum) = p.charges

/-- **Recalculation.**  If the rows of `d` are fixpoints, the stored document — whatever rounding is
then written into its totals — calculates to the same lines, document rows and tax summary. -/
theorem calculate_stored (d : Doc) (p : Pre) (tx : TaxTotal) (r' : Option Amount)
    (hpre : pre exactOps d = .ok p) (hne : p.rows.isEmpty = false)
    (htx : taxTotal exactOps d.rule d.c d.includes p.rows = .ok tx) (hfix : RowsFix d p) :
    calculate exactOps { stored d (finish exactOps d p tx) with rounding := r' } =
      .ok (finish exactOps { stored d (finish exactOps d p tx) with rounding := r' } p tx) := by
  have hpre' : pre exactOps { stored d (finish exactOps d p tx) with rounding := r' } = .ok p :=
    pre_congr d _ p hpre rfl rfl rfl rfl hfix.lines hfix.discounts hfix.charges
  exact calculate_of_pre _ p tx hpre' hne htx

/-! ### the totals of a result -/

theorem rawTotals_twt_exp (d : Doc) (p : Pre) (tx : TaxTotal) :
    (rawTotals exactOps d p tx).totalWithTax.exp = p.total2.exp := by
  unfold rawTotals
  simp only [add_exp]
  cases taxIncluded d.includes tx <;> rfl

/-- the unrounded total with tax does not depend on rounding, advances or due dates -/
theorem rawTotals_twt_congr (d d' : Doc) (p : Pre) (tx : TaxTotal) (h : d'.includes = d.includes) :
    (rawTotals exactOps d' p tx).totalWithTax = (rawTotals exactOps d p tx).totalWithTax := by
  unfold rawTotals
  simp only [h]

theorem rawTotals_payable (d : Doc) (p : Pre) (tx : TaxTotal) :
    (rawTotals exactOps d p tx).payable =
      match d.rounding with
      | some x => add exactOps (rawTotals exactOps d p tx).totalWithTax x
      | none => (rawTotals exactOps d p tx).totalWithTax := by
  unfold rawTotals
  cases d.rounding <;> rfl

theorem rawTotals_rounding (d : Doc) (p : Pre) (tx : TaxTotal) :
    (rawTotals exactOps d p tx).rounding = d.rounding := rfl

/-! ## Part 3: the calculations of `removeIncludedTaxes` -/

/-- the document the first recalculation works on: every row with the included tax taken out,
`prices_include` cleared, a fresh totals object (no rounding) -/
def removedDoc (k : String) (d : Doc) : Doc :=
  { d with lines := d.lines.map (removeLineIncluded exactOps k),
           discounts := d.discounts.map (removeAdjIncluded exactOps k),
           charges := d.charges.map (removeAdjIncluded exactOps k),
           includes := none, rounding := none }

theorem calcMem_removedMem (k : String) (m : Mem) :
    calcMem exactOps (removedMem exactOps k m) =
      match calculate exactOps (removedDoc k m.doc) with
      | .error e => .error e
      | .ok out => .ok { doc := stored (removedDoc k m.doc) out, totals := out.totals } := rfl

theorem amtEq_same_exp (a b : Amount) (h : a.exp = b.exp) : amtEq a b = (a.value == b.value) := by
  unfold amtEq
  simp only [h, Nat.lt_irrefl, if_false]
  rw [up_self a b.exp (by omega), up_self b b.exp (by omega)]

theorem roundTotals_twt (c : ℕ) (t : Totals) :
    (roundTotals exactOps c t).totalWithTax = t.totalWithTax.rescaleX c := rfl
theorem roundTotals_payable (c : ℕ) (t : Totals) :
    (roundTotals exactOps c t).payable = t.payable.rescaleX c := rfl
theorem roundTotals_rounding (c : ℕ) (t : Totals) :
    (roundTotals exactOps c t).rounding = t.rounding := rfl

/-- presenting `raw + rnd` where `rnd` has the currency's decimals and `raw` at least as many -/
theorem rescale_add_rounding (raw rnd : Amount) (c : ℕ) (hc : rnd.exp = c) (hraw : c ≤ raw.exp)
    (h : (raw.rescaleX c).value = 0 ∨ 0 < ((raw.rescaleX c).value + rnd.value) * (raw.rescaleX c).value) :
    ((add exactOps raw rnd).rescaleX c).value = (raw.rescaleX c).value + rnd.value := by
  unfold add
  simp only [exact_rescale]
  by_cases heq : raw.exp = c
  · rw [rescaleX_self rnd raw.exp (by omega), rescaleX_self raw c heq, rescaleX_self _ c (by simpa using heq)]
  · have hlt : c < raw.exp := by omega
    have h1 : (rnd.rescaleX raw.exp).value = rnd.value * pow10 (raw.exp - c) := by
      unfold Amount.rescaleX
      have h2 : ¬ c > raw.exp := by omega
      simp only [hc, h2, hlt, if_false, if_true]
    have h4 : ∀ v : ℤ, ((⟨v, raw.exp⟩ : Amount).rescaleX c).value = rha v (pow10 (raw.exp - c)) := by
      intro v
      unfold Amount.rescaleX
      simp only [gt_iff_lt, hlt, if_true]
    have h5 : (raw.rescaleX c).value = rha raw.value (pow10 (raw.exp - c)) := h4 raw.value
    rw [h4, h1]
    rw [h5] at h ⊢
    exact rha_shift raw.value rnd.value _ (pow10_pos _) h

/-- **Payable after the removal (core).**  `removeFrom` is `removeIncludedTaxes` from the point where
the original total with tax `t.totalWithTax` is known.  Provided the rows of the document *after the
removal* are fixpoints of calculate ∘ present (`RowsFix`; discharged from visible hypotheses on the
input in `removed_rowsFix` below), the result has totals, `prices_include` is cleared, the rounding
field holds exactly `original − new` total with tax when they differ and nothing otherwise, and —
unless the residue is carried across zero — the amount payable is the original total with tax. -/
theorem removeFrom_payable (k : String) (m m' : Mem) (t : Totals)
    (hc : t.totalWithTax.exp = m.doc.c)
    (h : removeFrom exactOps k m t = .ok m')
    (hfix : ∀ p, pre exactOps (removedDoc k m.doc) = .ok p → RowsFix (removedDoc k m.doc) p) :
    ∃ t', m'.totals = some t' ∧ m'.doc.includes = none ∧ t'.taxIncluded = none ∧
      t'.totalWithTax.exp = m.doc.c ∧ t'.payable.exp = m.doc.c ∧
      t'.rounding = (if t'.totalWithTax = t.totalWithTax then none
                     else some ⟨t.totalWithTax.value - t'.totalWithTax.value, m.doc.c⟩) ∧
      ((t'.totalWithTax.value = 0 ∨ 0 < t.totalWithTax.value * t'.totalWithTax.value) →
        t'.payable = t.totalWithTax) := by
  unfold removeFrom at h
  rw [calcMem_removedMem] at h
  cases hcal : calculate exactOps (removedDoc k m.doc) with
  | error e => simp [hcal] at h
  | ok out2 =>
    simp only [hcal] at h
    cases ht2 : out2.totals with
    | none => simp [ht2] at h
    | some t2 =>
      simp only [ht2] at h
      obtain ⟨p2, tx2, hpre2, hne2, htx2, hout2⟩ := calculate_ok_totals _ out2 t2 hcal ht2
      have hrf := hfix p2 hpre2
      -- the presented totals of the first recalculation
      have hc2 : (removedDoc k m.doc).c = m.doc.c := rfl
      have ht2' : t2 = roundTotals exactOps m.doc.c (rawTotals exactOps (removedDoc k m.doc) p2 tx2) := by
        have : out2.totals = some (roundTotals exactOps m.doc.c (rawTotals exactOps (removedDoc k m.doc) p2 tx2)) := by
          rw [hout2]; rfl
        rw [ht2] at this
        exact Option.some.inj this
      set raw := rawTotals exactOps (removedDoc k m.doc) p2 tx2 with hraw
      have htwt2 : t2.totalWithTax = raw.totalWithTax.rescaleX m.doc.c := by rw [ht2']; rfl
      have hexp2 : t2.totalWithTax.exp = m.doc.c := by rw [htwt2, rescaleX_exp]
      have hti : raw.taxIncluded = none := rfl
      have hpay_raw : raw.payable = raw.totalWithTax := by
        rw [hraw, rawTotals_payable]; rfl
      have hrawexp : m.doc.c ≤ raw.totalWithTax.exp := by
        rw [hraw, rawTotals_twt_exp]
        obtain ⟨_, hsum, _, _, h2, _⟩ := pre_ok _ p2 hpre2
        rw [h2, hsum]
        exact lineSum_exp_ge _ _
      rw [amtEq_same_exp _ _ (by rw [hc, hexp2])] at h
      by_cases heq : t.totalWithTax.value = t2.totalWithTax.value
      · -- no residue: the first recalculation is the result
        have hb : (t.totalWithTax.value == t2.totalWithTax.value) = true := by simp [heq]
        simp only [hb, Bool.not_true, Bool.false_eq_true, if_false] at h
        injection h with h
        subst h
        have hsame : t2.totalWithTax = t.totalWithTax := by
          cases ha : t2.totalWithTax with
          | mk v e =>
            cases hb' : t.totalWithTax with
            | mk v' e' =>
              rw [ha] at hexp2 heq; rw [hb'] at hc heq
              simp only at hexp2 hc heq
              rw [hexp2, hc, heq]
        refine ⟨t2, rfl, rfl, by rw [ht2']; rfl, hexp2, ?_, ?_, ?_⟩
        · rw [ht2', roundTotals_payable, rescaleX_exp]
        · rw [if_pos hsame, ht2', roundTotals_rounding]; rfl
        · intro _
          rw [← hsame, ht2', roundTotals_payable, roundTotals_twt, hpay_raw]
      · -- a residue: it is written into the rounding field and the document calculated once more
        have hb : (t.totalWithTax.value == t2.totalWithTax.value) = false := by simp [heq]
        simp only [hb, Bool.not_false, if_true] at h
        have hrnd : sub exactOps t.totalWithTax t2.totalWithTax =
            ⟨t.totalWithTax.value - t2.totalWithTax.value, m.doc.c⟩ := by
          rw [sub_same _ _ (by rw [hc, hexp2]), hc]
        rw [hrnd] at h
        set rnd : Amount := ⟨t.totalWithTax.value - t2.totalWithTax.value, m.doc.c⟩ with hrnddef
        have hcalc3 := calculate_stored (removedDoc k m.doc) p2 tx2 (some rnd) hpre2 hne2 htx2 hrf
        have hcm : calcMem exactOps { ({ doc := stored (removedDoc k m.doc) out2, totals := out2.totals } : Mem) with
              totals := some { t2 with rounding := some rnd } } =
            .ok { doc := stored { stored (removedDoc k m.doc) (finish exactOps (removedDoc k m.doc) p2 tx2) with rounding := some rnd }
                          (finish exactOps { stored (removedDoc k m.doc) (finish exactOps (removedDoc k m.doc) p2 tx2) with rounding := some rnd } p2 tx2),
                  totals := (finish exactOps { stored (removedDoc k m.doc) (finish exactOps (removedDoc k m.doc) p2 tx2) with rounding := some rnd } p2 tx2).totals } := by
          unfold calcMem
          simp only [Option.bind_some]
          rw [hout2, hcalc3]
        rw [hcm] at h
        injection h with h
        subst h
        set d3 : Doc := { stored (removedDoc k m.doc) (finish exactOps (removedDoc k m.doc) p2 tx2) with rounding := some rnd } with hd3
        have hraw3 : (rawTotals exactOps d3 p2 tx2).totalWithTax = raw.totalWithTax :=
          rawTotals_twt_congr (removedDoc k m.doc) d3 p2 tx2 rfl
        have htwt3 : (roundTotals exactOps m.doc.c (rawTotals exactOps d3 p2 tx2)).totalWithTax = t2.totalWithTax := by
          rw [roundTotals_twt, hraw3, htwt2]
        have hne : ¬ t2.totalWithTax = t.totalWithTax := by
          intro hh; exact heq (by rw [hh])
        refine ⟨roundTotals exactOps m.doc.c (rawTotals exactOps d3 p2 tx2), rfl, rfl, rfl, ?_, ?_, ?_, ?_⟩
        · rw [htwt3]; exact hexp2
        · rw [roundTotals_payable, rescaleX_exp]
        · rw [htwt3, if_neg hne, roundTotals_rounding, rawTotals_rounding]
        · intro hsign
          rw [htwt3] at hsign
          have hp3 : (rawTotals exactOps d3 p2 tx2).payable = add exactOps raw.totalWithTax rnd := by
            rw [rawTotals_payable, hraw3]
          rw [roundTotals_payable, hp3]
          have hval := rescale_add_rounding raw.totalWithTax rnd m.doc.c rfl hrawexp (by
            rw [← htwt2]
            rcases hsign with h0 | hpos
            · exact Or.inl h0
            · refine Or.inr ?_
              have : t2.totalWithTax.value + rnd.value = t.totalWithTax.value := by simp [hrnddef]
              rw [this]; exact hpos)
          rw [← htwt2] at hval
          cases hb' : t.totalWithTax with
          | mk v' e' =>
            rw [hb'] at hc
            simp only at hc
            have hv : ((add exactOps raw.totalWithTax rnd).rescaleX m.doc.c).value = v' := by
              rw [hval]; simp [hrnddef, hb']
            have he : ((add exactOps raw.totalWithTax rnd).rescaleX m.doc.c).exp = e' := by
              rw [rescaleX_exp, hc]
            cases hx : (add exactOps raw.totalWithTax rnd).rescaleX m.doc.c with
            | mk v e =>
              rw [hx] at hv he
              simp only at hv he
              rw [hv, he]

/-! ## Part 4: the rows after the removal are fixpoints -/

theorem calcLines_fix_of (cur : String) (c : ℕ) (rates : List XRate) (r : Rule) (ls ls1 : List Line)
    (hs : ∀ l ∈ ls, LineFix cur c rates r l) (h1 : calcLines exactOps cur c rates r ls = .ok ls1) :
    calcLines exactOps cur c rates r (ls1.map (roundLine exactOps)) = .ok ls1 := by
  induction ls generalizing ls1 with
  | nil =>
    simp only [calcLines] at h1
    injection h1 with h1
    subst h1
    rfl
  | cons l ls ih =>
    simp only [calcLines] at h1
    cases ha : calcLine exactOps cur c rates r l with
    | error e => simp [ha] at h1
    | ok l1 =>
      cases hb : calcLines exactOps cur c rates r ls with
      | error e => simp [ha, hb] at h1
      | ok ls' =>
        simp only [ha, hb] at h1
        injection h1 with h1
        subst h1
        simp only [List.map_cons, calcLines]
        rw [hs l (by simp) l1 ha, ih ls' (fun x hx => hs x (by simp [hx])) hb]

/-- every calculated line comes from an input line -/
theorem calcLines_mem (cur : String) (c : ℕ) (rates : List XRate) (r : Rule) (ls ls1 : List Line)
    (h1 : calcLines exactOps cur c rates r ls = .ok ls1) :
    ∀ l1 ∈ ls1, ∃ l0 ∈ ls, calcLine exactOps cur c rates r l0 = .ok l1 := by
  induction ls generalizing ls1 with
  | nil =>
    simp only [calcLines] at h1
    injection h1 with h1
    subst h1
    simp
  | cons l ls ih =>
    simp only [calcLines] at h1
    cases ha : calcLine exactOps cur c rates r l with
    | error e => simp [ha] at h1
    | ok l1 =>
      cases hb : calcLines exactOps cur c rates r ls with
      | error e => simp [ha, hb] at h1
      | ok ls' =>
        simp only [ha, hb] at h1
        injection h1 with h1
        subst h1
        intro x hx
        simp only [List.mem_cons] at hx
        rcases hx with rfl | hx
        · exact ⟨l, by simp, ha⟩
        · obtain ⟨l0, hl0, h0⟩ := ih ls' hb x hx
          exact ⟨l0, by simp [hl0], h0⟩

theorem removeAt_exp (a : Amount) (p : Pct) : (removeAt exactOps a p).exp = a.exp + 2 := removeAt_exp' a p

/-! ### document discounts and charges -/

/-- the number of decimals a document discount/charge is presented with (`Discount.round`) -/
def adjExp (c : ℕ) (x : DocAdj) : ℕ := match x.base with | some b => if b.exp > c then b.exp else c | none => c

theorem adjExp_ge (c : ℕ) (x : DocAdj) : c ≤ adjExp c x := by
  unfold adjExp
  cases x.base with
  | none => exact Nat.le_refl _
  | some b => simp only; split <;> omega

theorem roundDocAdj_eq (c : ℕ) (x : DocAdj) :
    roundDocAdj exactOps c x = { x with amount := down exactOps x.amount (adjExp c x) } := rfl

/-- a document discount/charge is reproduced by calculate ∘ present ∘ calculate when the rule is
`currency`, when its amount comes from a percentage, or when its fixed amount is not finer than it is
presented with -/
theorem docAdj_fix' (r : Rule) (c : ℕ) (sum : Amount) (x : DocAdj)
    (hs : r = .currency ∨ (∃ p, x.percent = some p ∧ pctIsZero p = false) ∨ x.amount.exp ≤ adjExp c x) :
    docAdj exactOps r c sum (roundDocAdj exactOps c (docAdj exactOps r c sum x)) = docAdj exactOps r c sum x := by
  have fixed : ∀ (hfix : (docAdj exactOps r c sum x) = { x with amount := applyRule exactOps r c x.amount })
      (hperc : ∀ y : DocAdj, y.percent = x.percent → y.base = x.base →
        docAdj exactOps r c sum y = { y with amount := applyRule exactOps r c y.amount })
      (hexp : r = .currency ∨ x.amount.exp ≤ adjExp c x),
      docAdj exactOps r c sum (roundDocAdj exactOps c (docAdj exactOps r c sum x)) = docAdj exactOps r c sum x := by
    intro hfix hperc hexp
    rw [hfix]
    have hge := adjExp_ge c x
    have he : (applyRule exactOps r c x.amount).exp ≤ adjExp c x := by
      cases r with
      | currency => simp only [applyRule, exact_rescale, rescaleX_exp]; exact hge
      | precise =>
        rcases hexp with h | h
        · cases h
        · simp only [applyRule, up_exp]; omega
      | other =>
        rcases hexp with h | h
        · cases h
        · simp only [applyRule, up_exp]; omega
    have hround : roundDocAdj exactOps c { x with amount := applyRule exactOps r c x.amount } =
        { x with amount := applyRule exactOps r c x.amount } := by
      rw [roundDocAdj_eq]
      simp only
      rw [down_noop _ _ (by simpa [adjExp] using he)]
    rw [hround, hperc { x with amount := applyRule exactOps r c x.amount } rfl rfl]
    simp only
    congr 1
    cases r with
    | currency =>
      simp only [applyRule, exact_rescale]
      exact rescaleX_self _ c (rescaleX_exp _ _)
    | precise => simp only [applyRule]; exact up_up _ _
    | other => simp only [applyRule]; exact up_up _ _
  cases hp : x.percent with
  | none =>
    apply fixed
    · simp [docAdj, hp]
    · intro y hy _; simp [docAdj, hy, hp]
    · rcases hs with h | ⟨p, h1, _⟩ | h
      · exact Or.inl h
      · rw [hp] at h1; cases h1
      · exact Or.inr h
  | some p =>
    by_cases hz : pctIsZero p = true
    · apply fixed
      · simp [docAdj, hp, hz]
      · intro y hy _; simp [docAdj, hy, hp, hz]
      · rcases hs with h | ⟨q, h1, h2⟩ | h
        · exact Or.inl h
        · rw [hp] at h1; cases h1; rw [hz] at h2; cases h2
        · exact Or.inr h
    · -- the amount is recomputed from the percentage whatever was stored
      unfold docAdj roundDocAdj
      simp only [hp, hz]
      cases hb : x.base with
      | none => simp [hz]
      | some b => simp [hz]

/-- The domain of the known finding `remove-included-fixed-document-row`: a document discount/charge
with a fixed amount (no percentage, or 0 %) that carries the included category with a percentage.  The
removal divides its amount at two extra decimals; unless the rounding rule is `currency`, the next
calculation presents (rounds) that amount in place and the one after it starts from the rounded value. -/
def FixedIncludedRow (k : String) (x : DocAdj) : Prop :=
  (∀ p, x.percent = some p → pctIsZero p = true) ∧
  ∃ cb p, x.taxes.find? (fun cb => cb.cat == k) = some cb ∧ cb.percent = some p

theorem docAdj_keeps (r : Rule) (c : ℕ) (sum : Amount) (x : DocAdj) :
    (docAdj exactOps r c sum x).percent = x.percent ∧ (docAdj exactOps r c sum x).base = x.base ∧
    (docAdj exactOps r c sum x).taxes = x.taxes := by
  cases x with
  | mk percent base amount taxes =>
    unfold docAdj
    cases percent with
    | none => exact ⟨rfl, rfl, rfl⟩
    | some p =>
      simp only
      split
      · exact ⟨rfl, rfl, rfl⟩
      · cases base <;> exact ⟨rfl, rfl, rfl⟩

theorem removeAdjIncluded_keeps (k : String) (x : DocAdj) :
    (removeAdjIncluded exactOps k x).percent = x.percent ∧ (removeAdjIncluded exactOps k x).base = x.base ∧
    (removeAdjIncluded exactOps k x).taxes = x.taxes := by
  cases x with
  | mk percent base amount taxes =>
    unfold removeAdjIncluded
    split
    · exact ⟨rfl, rfl, rfl⟩
    · split <;> exact ⟨rfl, rfl, rfl⟩

/-- a document row after calculation, presentation and removal satisfies the condition of `docAdj_fix'` -/
theorem removed_adj_cond (r : Rule) (c : ℕ) (sum : Amount) (k : String) (x0 : DocAdj)
    (h : r = .currency ∨ ¬ FixedIncludedRow k x0) :
    let x := removeAdjIncluded exactOps k (roundDocAdj exactOps c (docAdj exactOps r c sum x0))
    r = .currency ∨ (∃ p, x.percent = some p ∧ pctIsZero p = false) ∨ x.amount.exp ≤ adjExp c x := by
  intro x
  rcases h with h | h
  · exact Or.inl h
  · refine Or.inr ?_
    obtain ⟨hp1, hb1, ht1⟩ := docAdj_keeps r c sum x0
    set y := docAdj exactOps r c sum x0 with hy
    have hp2 : (roundDocAdj exactOps c y).percent = x0.percent := hp1
    have hb2 : (roundDocAdj exactOps c y).base = x0.base := hb1
    have ht2 : (roundDocAdj exactOps c y).taxes = x0.taxes := ht1
    obtain ⟨hp3, hb3, ht3⟩ := removeAdjIncluded_keeps k (roundDocAdj exactOps c y)
    have hxp : x.percent = x0.percent := by rw [← hp2]; exact hp3
    have hxb : x.base = x0.base := by rw [← hb2]; exact hb3
    by_cases hpct : ∃ p, x0.percent = some p ∧ pctIsZero p = false
    · obtain ⟨p, h1, h2⟩ := hpct
      exact Or.inl ⟨p, by rw [hxp]; exact h1, h2⟩
    · refine Or.inr ?_
      -- a fixed amount: then the row does not carry the included tax with a percentage, the removal
      -- leaves it alone and the amount is the presented one
      have hfixed : ∀ p, x0.percent = some p → pctIsZero p = true := by
        intro p hp
        by_cases hz : pctIsZero p = true
        · exact hz
        · exact absurd ⟨p, hp, by simpa using hz⟩ hpct
      have hnot : ¬ ∃ cb p, x0.taxes.find? (fun cb => cb.cat == k) = some cb ∧ cb.percent = some p :=
        fun hh => h ⟨hfixed, hh⟩
      have hid : x = roundDocAdj exactOps c y := by
        show removeAdjIncluded exactOps k (roundDocAdj exactOps c y) = _
        unfold removeAdjIncluded
        rw [ht2]
        cases hf : x0.taxes.find? (fun cb => cb.cat == k) with
        | none => rfl
        | some cb =>
          simp only
          cases hcp : cb.percent with
          | none => rfl
          | some p => exact absurd ⟨cb, p, hf, hcp⟩ hnot
      have hadj : adjExp c x = adjExp c y := by
        unfold adjExp
        rw [hxb, hb1]
      rw [hadj, hid, roundDocAdj_eq]
      exact down_exp_le _ _

/-- **The rows after the removal are fixpoints.**  `d` is the document before anything happened, `p1`,
`tx1` its calculation; the document the first recalculation of `removeIncludedTaxes` works on is
`removedDoc k (stored d (finish d p1 tx1))`. -/
theorem removed_rowsFix (d : Doc) (k : String) (p1 : Pre) (tx1 : TaxTotal) (hpre1 : pre exactOps d = .ok p1)
    (hwf : ∀ l ∈ d.lines, LineWF d.cur d.c l) (hrates : RatesWF d.c d.rates)
    (hrows : d.rule = .currency ∨ ∀ x ∈ d.discounts ++ d.charges, ¬ FixedIncludedRow k x) :
    ∀ p2, pre exactOps (removedDoc k (stored d (finish exactOps d p1 tx1))) = .ok p2 →
      RowsFix (removedDoc k (stored d (finish exactOps d p1 tx1))) p2 := by
  intro p2 hpre2
  obtain ⟨hl1, _, hd1, hc1, _, _⟩ := pre_ok d p1 hpre1
  obtain ⟨hl2, _, hd2, hc2, _, _⟩ := pre_ok _ p2 hpre2
  have hadj : ∀ (xs : List DocAdj), (∀ x ∈ xs, d.rule = Rule.currency ∨ ¬ FixedIncludedRow k x) →
      List.map (docAdj exactOps d.rule d.c p2.sum) (List.map (roundDocAdj exactOps d.c)
        (List.map (docAdj exactOps d.rule d.c p2.sum) (List.map (removeAdjIncluded exactOps k)
          (List.map (roundDocAdj exactOps d.c) (List.map (docAdj exactOps d.rule d.c p1.sum) xs))))) =
        List.map (docAdj exactOps d.rule d.c p2.sum) (List.map (removeAdjIncluded exactOps k)
          (List.map (roundDocAdj exactOps d.c) (List.map (docAdj exactOps d.rule d.c p1.sum) xs))) := by
    intro xs hxs
    simp only [List.map_map]
    apply List.map_congr_left
    intro x0 hx0
    simp only [Function.comp_apply]
    exact docAdj_fix' d.rule d.c p2.sum _ (removed_adj_cond d.rule d.c p1.sum k x0 (hxs x0 hx0))
  have hrow : ∀ x ∈ d.discounts ++ d.charges, d.rule = .currency ∨ ¬ FixedIncludedRow k x := by
    intro x hx
    rcases hrows with h | h
    · exact Or.inl h
    · exact Or.inr (h x hx)
  refine ⟨?_, ?_, ?_⟩
  · -- lines
    apply calcLines_fix_of _ _ _ _ _ _ _ hl2
    intro l' hl'
    have hl'' : l' ∈ ((p1.lines.map (roundLine exactOps)).map (removeLineIncluded exactOps k)) := hl'
    obtain ⟨lr, hlr, rfl⟩ := List.mem_map.mp hl''
    obtain ⟨l1, hl1m, rfl⟩ := List.mem_map.mp hlr
    obtain ⟨l0, hl0, hcalc⟩ := calcLines_mem _ _ _ _ _ _ hl1 l1 hl1m
    exact lineFix_of_settled _ _ _ _ _
      (settled_remove _ _ k _ (settled_of_calcLine _ _ _ _ l0 l1 (hwf l0 hl0) hrates hcalc))
  · -- discounts
    rw [hd2]
    show List.map (docAdj exactOps d.rule d.c p2.sum) (List.map (roundDocAdj exactOps d.c)
        (List.map (docAdj exactOps d.rule d.c p2.sum) (List.map (removeAdjIncluded exactOps k)
          (List.map (roundDocAdj exactOps d.c) p1.discounts)))) =
      List.map (docAdj exactOps d.rule d.c p2.sum) (List.map (removeAdjIncluded exactOps k)
          (List.map (roundDocAdj exactOps d.c) p1.discounts))
    rw [hd1]
    exact hadj d.discounts (fun x hx => hrow x (by simp [hx]))
  · rw [hc2]
    show List.map (docAdj exactOps d.rule d.c p2.sum) (List.map (roundDocAdj exactOps d.c)
        (List.map (docAdj exactOps d.rule d.c p2.sum) (List.map (removeAdjIncluded exactOps k)
          (List.map (roundDocAdj exactOps d.c) p1.charges)))) =
      List.map (docAdj exactOps d.rule d.c p2.sum) (List.map (removeAdjIncluded exactOps k)
          (List.map (roundDocAdj exactOps d.c) p1.charges))
    rw [hc1]
    exact hadj d.charges (fun x hx => hrow x (by simp [hx]))

/-! ## Part 5: `Invoice.RemoveIncludedTaxes` on a document -/

theorem rounding_none_eta (d : Doc) (hr : d.rounding = none) : { d with rounding := none } = d := by
  cases d
  simp only at hr
  subst hr
  rfl

theorem calcMem_fresh (d : Doc) (hr : d.rounding = none) :
    calcMem exactOps { doc := d, totals := none } =
      match calculate exactOps d with
      | .error e => .error e
      | .ok out => .ok { doc := stored d out, totals := out.totals } := by
  cases d
  simp only at hr
  subst hr
  rfl

/-- `removeIncludedDoc` on a document with `prices_include` that calculates with totals: it is
`removeFrom` on the stored document -/
theorem removeIncludedDoc_eq (d : Doc) (k : String) (out : Out) (t : Totals)
    (hk : d.includes = some k) (hr : d.rounding = none)
    (h1 : calculate exactOps d = .ok out) (ht : out.totals = some t) :
    removeIncludedDoc exactOps d =
      (removeFrom exactOps k { doc := stored d out, totals := out.totals } t).map Mem.out := by
  unfold removeIncludedDoc removeIncludedMem memOfDoc
  simp only [hr, Option.map_none, hk]
  rw [calcMem_fresh d hr, h1]
  simp only [ht]

/-- `Calculate` and then `RemoveIncludedTaxes` is `RemoveIncludedTaxes` on the uncalculated document,
when prices include a tax, no rounding was supplied and there is something to calculate -/
theorem calculateThenRemove_eq (d : Doc) (k : String) (out : Out) (t : Totals)
    (hk : d.includes = some k) (hr : d.rounding = none)
    (h1 : calculate exactOps d = .ok out) (ht : out.totals = some t) :
    (calculateThenRemove exactOps d).map Mem.out = removeIncludedDoc exactOps d := by
  rw [removeIncludedDoc_eq d k out t hk hr h1 ht]
  unfold calculateThenRemove
  congr 1
  unfold memOfDoc
  simp only [hr, Option.map_none]
  rw [calcMem_fresh d hr, h1]
  simp only
  unfold removeIncludedMem
  have : (stored d out).includes = some k := hk
  simp only [this, ht]

theorem map_out_ok {m : Except RemErr Mem} {out' : Out} (h : m.map Mem.out = .ok out') :
    ∃ m', m = .ok m' ∧ out' = m'.out := by
  cases m with
  | error e => cases h
  | ok m' =>
    refine ⟨m', rfl, ?_⟩
    have : Except.ok (Mem.out m') = (Except.ok out' : Except RemErr Out) := h
    injection this with this
    exact this.symm

/-- the presented total with tax has the currency's number of decimals -/
theorem calculate_twt_exp (d : Doc) (out : Out) (t : Totals)
    (h : calculate exactOps d = .ok out) (ht : out.totals = some t) : t.totalWithTax.exp = d.c := by
  obtain ⟨p, tx, _, _, _, hout⟩ := calculate_ok_totals d out t h ht
  have : out.totals = some (roundTotals exactOps d.c (rawTotals exactOps d p tx)) := by rw [hout]; rfl
  rw [ht] at this
  rw [Option.some.inj this, roundTotals_twt, rescaleX_exp]

/-- **Payable after `RemoveIncludedTaxes`.** -/
theorem removeIncludedDoc_payable (d : Doc) (k : String) (out out' : Out) (t : Totals)
    (hk : d.includes = some k) (hr : d.rounding = none)
    (hwf : ∀ l ∈ d.lines, LineWF d.cur d.c l) (hrates : RatesWF d.c d.rates)
    (hrows : d.rule = .currency ∨ ∀ x ∈ d.discounts ++ d.charges, ¬ FixedIncludedRow k x)
    (h1 : calculate exactOps d = .ok out) (ht : out.totals = some t)
    (h2 : removeIncludedDoc exactOps d = .ok out') :
    ∃ t', out'.totals = some t' ∧ t'.taxIncluded = none ∧
      t'.totalWithTax.exp = d.c ∧ t'.payable.exp = d.c ∧
      t'.rounding = (if t'.totalWithTax = t.totalWithTax then none
                     else some ⟨t.totalWithTax.value - t'.totalWithTax.value, d.c⟩) ∧
      ((t'.totalWithTax.value = 0 ∨ 0 < t.totalWithTax.value * t'.totalWithTax.value) →
        t'.payable = t.totalWithTax) := by
  rw [removeIncludedDoc_eq d k out t hk hr h1 ht] at h2
  obtain ⟨m', hm', rfl⟩ := map_out_ok h2
  obtain ⟨p1, tx1, hpre1, _, _, hout⟩ := calculate_ok_totals d out t h1 ht
  have hfix := removed_rowsFix d k p1 tx1 hpre1 hwf hrates hrows
  rw [← hout] at hfix
  obtain ⟨t', h1', _, h3, h4, h5, h6, h7⟩ := removeFrom_payable k { doc := stored d out, totals := out.totals } m' t
    (calculate_twt_exp d out t h1 ht) hm' hfix
  exact ⟨t', h1', h3, h4, h5, h6, h7⟩

/-! ## Part 6: the flag, and what the removal does to a price -/

theorem calculate_taxIncluded_none (d : Doc) (out : Out) (t : Totals)
    (h : calculate exactOps d = .ok out) (ht : out.totals = some t) (hi : d.includes = none) :
    t.taxIncluded = none := by
  obtain ⟨p, tx, _, _, _, hout⟩ := calculate_ok_totals d out t h ht
  have : out.totals = some (roundTotals exactOps d.c (rawTotals exactOps d p tx)) := by rw [hout]; rfl
  rw [ht] at this
  rw [Option.some.inj this]
  show (rawTotals exactOps d p tx).taxIncluded.map _ = none
  have : (rawTotals exactOps d p tx).taxIncluded = taxIncluded d.includes tx := rfl
  rw [this, hi]
  rfl

theorem calcMem_ok (m m' : Mem) (h : calcMem exactOps m = .ok m') :
    ∃ out, calculate exactOps { m.doc with rounding := m.totals.bind (·.rounding) } = .ok out ∧
      m' = { doc := stored { m.doc with rounding := m.totals.bind (·.rounding) } out, totals := out.totals } := by
  unfold calcMem at h
  cases hc : calculate exactOps { m.doc with rounding := m.totals.bind (·.rounding) } with
  | error e => simp [hc] at h
  | ok out =>
    simp only [hc] at h
    injection h with h
    exact ⟨out, rfl, h.symm⟩

/-- whatever `removeFrom` returns normally has `prices_include` cleared and no `tax_included` -/
theorem removeFrom_flag (k : String) (m m' : Mem) (t : Totals) (h : removeFrom exactOps k m t = .ok m') :
    m'.doc.includes = none ∧ ∀ t', m'.totals = some t' → t'.taxIncluded = none := by
  unfold removeFrom at h
  cases hcm : calcMem exactOps (removedMem exactOps k m) with
  | error e => simp [hcm] at h
  | ok m2 =>
    simp only [hcm] at h
    obtain ⟨out2, hcal2, hm2⟩ := calcMem_ok _ m2 hcm
    cases ht2 : m2.totals with
    | none => simp [ht2] at h
    | some t2 =>
      simp only [ht2] at h
      split at h
      · -- a residue was recorded and the document calculated again
        cases hcm3 : calcMem exactOps { m2 with totals := some { t2 with rounding := some (sub exactOps t.totalWithTax t2.totalWithTax) } } with
        | error e => simp [hcm3] at h
        | ok m3 =>
          simp only [hcm3] at h
          injection h with h
          subst h
          obtain ⟨out3, hcal3, hm3⟩ := calcMem_ok _ m3 hcm3
          have hinc : m2.doc.includes = none := by rw [hm2]; rfl
          refine ⟨by rw [hm3]; exact hinc, ?_⟩
          intro t' ht'
          rw [hm3] at ht'
          exact calculate_taxIncluded_none _ out3 t' hcal3 ht' hinc
      · injection h with h
        subst h
        refine ⟨by rw [hm2]; rfl, ?_⟩
        intro t' ht'
        rw [hm2] at ht'
        exact calculate_taxIncluded_none _ out2 t' hcal2 ht' rfl

/-- **The flag.**  `removeIncludedTaxes` on a document with `prices_include = k` either returns with
`prices_include` cleared (and then no `tax_included` in the totals), or it found nothing to calculate
(no totals) and left the flag as it was. -/
theorem removeIncludedMem_flag (m m' : Mem) (k : String) (hk : m.doc.includes = some k)
    (h : removeIncludedMem exactOps m = .ok m') :
    (m'.doc.includes = none ∧ ∀ t', m'.totals = some t' → t'.taxIncluded = none) ∨
    (m'.totals = none ∧ m'.doc.includes = some k) := by
  unfold removeIncludedMem at h
  simp only [hk] at h
  cases hmt : m.totals with
  | some t =>
    simp only [hmt] at h
    exact Or.inl (removeFrom_flag k m m' t h)
  | none =>
    simp only [hmt] at h
    cases hcm : calcMem exactOps m with
    | error e => simp [hcm] at h
    | ok m1 =>
      simp only [hcm] at h
      obtain ⟨out1, _, hm1⟩ := calcMem_ok _ m1 hcm
      cases ht1 : m1.totals with
      | none =>
        simp only [ht1] at h
        injection h with h
        subst h
        exact Or.inr ⟨ht1, by rw [hm1]; exact hk⟩
      | some t =>
        simp only [ht1] at h
        exact Or.inl (removeFrom_flag k m1 m' t h)

/-- without `prices_include` nothing happens at all -/
theorem removeIncludedMem_without_flag (m : Mem) (h : m.doc.includes = none) :
    removeIncludedMem exactOps m = .ok m := by
  unfold removeIncludedMem
  simp only [h]

theorem factor_toRat (p : Pct) : (factor p).toRat = 1 + p.amount.toRat := by
  have h := p10q_ne p.amount.exp
  unfold factor Amount.toRat
  push_cast
  field_simp
  ring

/-- **What the removal does to an amount**: the gross amount divided by (1 + rate), rounded half
away from zero once, at two more decimals than it was stored with. -/
theorem removeAt_spec (a : Amount) (p : Pct) (hne : (factor p).value ≠ 0) :
    (removeAt exactOps a p).exp = a.exp + 2 ∧
    (removeAt exactOps a p).value = Spec.roundTo (a.exp + 2) (a.toRat / (1 + p.amount.toRat)) := by
  refine ⟨removeAt_exp a p, ?_⟩
  unfold removeAt remove upscale removalAccuracy
  simp only [exact_div, exact_rescale]
  rw [divX_spec _ _ hne, rescaleX_exp, rescaleX_up_toRat a (a.exp + 2) (by omega), factor_toRat]

theorem removeLineIncluded_priced (k : String) (l : Line) (cb : Combo) (p : Pct) (it : Item) (pr : Amount)
    (hf : l.taxes.find? (fun cb => cb.cat == k) = some cb) (hp : cb.percent = some p)
    (hi : l.item = some it) (hpr : it.price = some pr) :
    removeLineIncluded exactOps k l =
      { l with item := some { it with alts := [], price := some (removeAt exactOps pr p) },
               breakdown := l.breakdown.map (removeSubLine exactOps p),
               discounts := l.discounts.map (removeLineAdj exactOps p),
               charges := l.charges.map (removeLineAdj exactOps p) } := by
  unfold removeLineIncluded
  simp only [hf, hp, hi, hpr]

theorem removeLineIncluded_untouched (k : String) (l : Line)
    (h : ∀ cb p it pr, l.taxes.find? (fun cb => cb.cat == k) = some cb → cb.percent = some p →
      l.item = some it → it.price = some pr → False) :
    removeLineIncluded exactOps k l = l := by
  unfold removeLineIncluded
  cases hf : l.taxes.find? (fun cb => cb.cat == k) with
  | none => rfl
  | some cb =>
    simp only
    cases hp : cb.percent with
    | none => rfl
    | some p =>
      simp only
      cases hi : l.item with
      | none => rfl
      | some it =>
        simp only
        cases hpr : it.price with
        | none => rfl
        | some pr => exact absurd (h cb p it pr hf hp hi hpr) id

theorem removeAdjIncluded_carrying (k : String) (x : DocAdj) (cb : Combo) (p : Pct)
    (hf : x.taxes.find? (fun cb => cb.cat == k) = some cb) (hp : cb.percent = some p) :
    removeAdjIncluded exactOps k x = { x with amount := removeAt exactOps x.amount p } := by
  unfold removeAdjIncluded
  simp only [hf, hp]

theorem removeAdjIncluded_untouched (k : String) (x : DocAdj)
    (h : ∀ cb p, x.taxes.find? (fun cb => cb.cat == k) = some cb → cb.percent = some p → False) :
    removeAdjIncluded exactOps k x = x := by
  unfold removeAdjIncluded
  cases hf : x.taxes.find? (fun cb => cb.cat == k) with
  | none => rfl
  | some cb =>
    simp only
    cases hp : cb.percent with
    | none => rfl
    | some p => exact absurd (h cb p hf hp) id

end GoblVerif.Calc
