/-
  TaxIdSrc (proofs): what the string primitives of Model/GoStr.lean do on the
  inputs that the tax-identity checkers give them, in the vocabulary of
  Model/TaxId.lean, and the loop principles for the shapes that the go2lean
  translator emits for those checkers.  Nothing here mentions the generated
  definitions (Generated/TaxIdSrc.lean): the theorems about those are in
  Props/C13.lean, namespace Src, so that a change of the Go source breaks a
  theorem with a name.
-/
import GoblVerif.Model.GoStr
import GoblVerif.Model.GoMath
import GoblVerif.Model.TaxIdRe
import GoblVerif.Proofs.GoSem
import GoblVerif.Proofs.TaxId
import GoblVerif.Proofs.Float53

namespace GoblVerif.TaxIdSrc
open GoblVerif.GoStr hiding Str isDig
open GoblVerif.TaxId GoblVerif.GoSem

/-! ## characters, runes, bytes -/

theorem isDigitRune_runeOf (c : Char) : isDigitRune (runeOf c) = TaxId.isDig c := by
  simp only [isDigitRune, runeOf, TaxId.isDig]
  congr 1
  apply propext; omega

/-- the digit test of PT, IT, CO: `x := v - 48; x < 0 || x > 9` -/
theorem rune_guard (c : Char) : (runeOf c - 48 < 0 ∨ runeOf c - 48 > 9) ↔ ¬ (TaxId.isDig c = true) := by
  simp only [runeOf, TaxId.isDig, decide_eq_true_eq]
  omega

theorem ofRune_runeOf (c : Char) : ofRune (runeOf c) = [c] := by
  simp [ofRune, runeOf, Char.ofNat_toNat]

theorem ofByte_toNat (c : Char) : ofByte c.toNat = [c] := by
  simp [ofByte, Char.ofNat_toNat]

theorem isDig_bounds {c : Char} (h : TaxId.isDig c = true) : 48 ≤ c.toNat ∧ c.toNat ≤ 57 := by
  simpa [TaxId.isDig] using h

/-- `int(c - '0')` on a digit: the byte subtraction does not wrap -/
theorem byte_sub_digit (c : Char) : ((c.toNat - 48 : Nat) : Int) = (dval c : Int) := rfl

theorem runeOf_sub_digit {c : Char} (h : TaxId.isDig c = true) : runeOf c - 48 = (dval c : Int) := by
  have := isDig_bounds h
  simp only [runeOf, dval]; omega

theorem dval_le {c : Char} (h : TaxId.isDig c = true) : dval c ≤ 9 := by
  have := isDig_bounds h
  simp only [dval]; omega

/-! ## strconv.Atoi -/

theorem isDig_eq (c : Char) : GoStr.isDig c = TaxId.isDig c := rfl

theorem atoiU_eq (s : Str) : atoiU s = atoi? s := by
  simp only [atoiU, atoi?, digitsVal, allDig, dval]
  rfl

theorem not_sign_of_isAZ09 {c : Char} (h : isAZ09 c = true) : c ≠ '-' ∧ c ≠ '+' := by
  constructor <;> (intro e; subst e; simp [isAZ09, TaxId.isDig, isUp] at h)

/-- a string that does not start with a sign: `strconv.Atoi` is the model's `atoi?` -/
theorem atoi_eq_of_head (s : Str) (h : ∀ c ∈ s.head?, c ≠ '-' ∧ c ≠ '+') :
    atoi s = match atoi? s with
      | some n => ((n : Int), none)
      | none => (0, some errSyntax) := by
  unfold atoi
  split
  · rename_i t; exact absurd rfl (h '-' (by simp)).1
  · rename_i t; exact absurd rfl (h '+' (by simp)).2
  · rw [atoiU_eq]
    rfl

theorem atoi_single (c : Char) :
    atoi [c] = if TaxId.isDig c = true then ((dval c : Int), none) else (0, some errSyntax) := by
  by_cases hm : c = '-'
  · subst hm; simp [atoi, atoiU, TaxId.isDig]
  by_cases hp : c = '+'
  · subst hp; simp [atoi, atoiU, TaxId.isDig]
  rw [atoi_eq_of_head [c] (by simp [hm, hp])]
  by_cases hd : TaxId.isDig c = true
  · simp [atoi?, allDig, hd]
  · simp [atoi?, allDig, hd]

theorem atoi_single_digit {c : Char} (h : TaxId.isDig c = true) : atoi [c] = ((dval c : Int), none) := by
  rw [atoi_single, if_pos h]

/-- on a string of digits `strconv.Atoi` succeeds with the model's `atoi0` -/
theorem atoi_digits (s : Str) (hne : s ≠ []) (hd : allDig s = true) : atoi s = ((atoi0 s : Int), none) := by
  have hh : ∀ c ∈ s.head?, c ≠ '-' ∧ c ≠ '+' := by
    intro c hc
    cases s with
    | nil => simp at hc
    | cons x xs =>
      simp only [List.head?_cons, Option.mem_def, Option.some.injEq] at hc
      subst hc
      have : TaxId.isDig x = true := by simp [allDig] at hd; exact hd.1
      exact not_sign_of_isAZ09 (by simp [isAZ09, this])
  rw [atoi_eq_of_head s hh]
  have : s.isEmpty = false := by cases s <;> simp_all
  simp [atoi0, atoi?, this, hd]

/-- behind the generic gate `^[A-Z0-9]+$` no sign can occur -/
theorem atoi_gated (s : Str) (hg : s.all isAZ09 = true) :
    atoi s = match atoi? s with
      | some n => ((n : Int), none)
      | none => (0, some errSyntax) := by
  apply atoi_eq_of_head
  intro c hc
  cases s with
  | nil => simp at hc
  | cons x xs =>
    simp only [List.head?_cons, Option.mem_def, Option.some.injEq] at hc
    subst hc
    simp only [List.all_cons, Bool.and_eq_true] at hg
    exact not_sign_of_isAZ09 hg.1

/-! ## small facts about digit strings -/

theorem len8 {α} (s : List α) (h : s.length = 8) : ∃ a b c d e f g h, s = [a,b,c,d,e,f,g,h] := by
  match s, h with
  | [a,b,c,d,e,f,g,h], _ => exact ⟨a,b,c,d,e,f,g,h,rfl⟩

theorem allDig_getElem {s : Str} (hd : allDig s = true) (i : Nat) (hi : i < s.length) : TaxId.isDig s[i] = true := by
  simp only [allDig, List.all_eq_true] at hd
  exact hd _ (List.getElem_mem hi)

theorem allDig_take {s : Str} (hd : allDig s = true) (n : Nat) : allDig (s.take n) = true := by
  simp only [allDig, List.all_eq_true] at hd ⊢
  intro x hx; exact hd x (List.mem_of_mem_take hx)

theorem allDig_drop {s : Str} (hd : allDig s = true) (n : Nat) : allDig (s.drop n) = true := by
  simp only [allDig, List.all_eq_true] at hd ⊢
  intro x hx; exact hd x (List.mem_of_mem_drop hx)

theorem allDig_isAZ09 {s : Str} (h : allDig s = true) : s.all isAZ09 = true := by
  simp only [allDig, List.all_eq_true] at h ⊢
  intro x hx; simp [isAZ09, h x hx]

theorem matchSeq_rep_isDig (n : Nat) (s : Str) (h : matchSeq (rep n TaxId.isDig) s = true) :
    allDig s = true ∧ s.length = n := by
  induction n generalizing s with
  | zero => cases s <;> simp_all [rep, matchSeq, allDig]
  | succ k ih =>
    cases s with
    | nil => simp [rep, matchSeq, List.replicate] at h
    | cons c cs =>
      simp only [rep, List.replicate, matchSeq, Bool.and_eq_true] at h
      have := ih cs h.2
      refine ⟨?_, by simp [this.2]⟩
      have h2 := this.1
      simp only [allDig] at h2 ⊢
      simp [h.1, h2]

theorem isEmpty_false_of_ne {s : Str} (h : s ≠ []) : s.isEmpty = false := by
  cases s <;> simp_all

/-- behind the generic gate, `n, _ := strconv.Atoi(s)` is the model's `atoi0` -/
theorem atoi_gated_fst (s : Str) (hg : s.all isAZ09 = true) : (atoi s).1 = (atoi0 s : Int) := by
  rw [atoi_gated s hg, atoi0]
  cases atoi? s <;> rfl

/-! ## strconv.Itoa, %02d -/

theorem natDigits_lt10 (f n : Nat) (acc : Str) (h : n < 10) :
    natDigits (f + 1) n acc = digitChar n :: acc := by
  have h1 : n % 10 = n := Nat.mod_eq_of_lt h
  have h2 : n / 10 = 0 := Nat.div_eq_of_lt h
  simp [natDigits, h1, h2, digitChar]

theorem itoa_digit (n : Nat) (h : n < 10) : itoa (n : Int) = [digitChar n] := by
  have : ¬ ((n : Int) < 0) := by omega
  simp only [itoa, this, if_false, Int.toNat_natCast]
  exact natDigits_lt10 n n [] h

theorem itoa_two (n : Nat) (h1 : 10 ≤ n) (h2 : n < 100) : itoa (n : Int) = [digitChar (n / 10), digitChar (n % 10)] := by
  have : ¬ ((n : Int) < 0) := by omega
  simp only [itoa, this, if_false, Int.toNat_natCast]
  obtain ⟨m, rfl⟩ : ∃ m, n = m + 1 := ⟨n - 1, by omega⟩
  have hd : (m + 1) / 10 ≠ 0 := by omega
  have hd' : (m + 1) / 10 < 10 := by omega
  rw [natDigits]
  simp only [hd, if_false]
  rw [natDigits_lt10 _ _ _ hd']
  rfl

/-- `fmt.Sprintf("%02d", n)` for `0 ≤ n < 100` -/
theorem fmt02d_lt100 (n : Nat) (h : n < 100) : fmt02d (n : Int) = [digitChar (n / 10), digitChar (n % 10)] := by
  by_cases h10 : n < 10
  · have hq : n / 10 = 0 := Nat.div_eq_of_lt h10
    have hr : n % 10 = n := Nat.mod_eq_of_lt h10
    have h0 : (0 : Int) ≤ (n : Int) := by omega
    simp [fmt02d, itoa_digit n h10, hq, hr, h0]
    rfl
  · have h0 : (0 : Int) ≤ (n : Int) := by omega
    simp [fmt02d, itoa_two n (by omega) h, h0]

/-! ## truncated division on non-negative numbers -/

theorem tmod_nat (a b : Nat) : Int.tmod (a : Int) (b : Int) = ((a % b : Nat) : Int) := by
  rw [Int.tmod_eq_emod_of_nonneg (by omega)]; norm_cast

theorem tdiv_nat (a b : Nat) : Int.tdiv (a : Int) (b : Int) = ((a / b : Nat) : Int) := by
  rw [Int.tdiv_eq_ediv_of_nonneg (by omega)]; norm_cast

@[norm_cast] theorem natCast_tmod (a b : Nat) : ((a % b : Nat) : Int) = Int.tmod (a : Int) (b : Int) := (tmod_nat a b).symm
@[norm_cast] theorem natCast_tdiv (a b : Nat) : ((a / b : Nat) : Int) = Int.tdiv (a : Int) (b : Int) := (tdiv_nat a b).symm

/-! ## errors -/

theorem errNew_isSome (m : String) : (errNew m).isSome = true := rfl
theorem errNew_isNone (m : String) : (errNew m).isNone = false := rfl
theorem errNew_ne_none (m : String) : errNew m ≠ none := by simp [errNew]

/-! ## read-only map literals -/

/-- a `map[K]bool` literal whose values are all `true` is the set of its keys -/
theorem mapGet_true_keys {κ : Type} [BEq κ] (l : List κ) (k : κ) :
    mapGet (l.map (fun x => (x, true))) k false = l.contains k := by
  induction l with
  | nil => rfl
  | cons a as ih =>
    simp only [List.map_cons, mapGet, List.lookup_cons, List.contains_cons] at ih ⊢
    cases h : k == a with
    | true => simp
    | false => simpa using ih

/-! ## loops

  `for _, c := range s { if bad(c) { return e } }` — the state of the loop that
  the `do` notation builds is `(early-return slot, ())`. -/

theorem forIn_all_guard {α ρ : Type} (l : List α) (p : α → Prop) [DecidablePred p] (r : ρ) :
    (forIn (m := Id) l ((none, ()) : Option ρ × Unit) fun a _ =>
        if p a then pure (ForInStep.done (some r, ())) else pure (ForInStep.yield (none, ())))
      = pure (if l.all (fun a => !decide (p a)) then (none, ()) else (some r, ())) := by
  induction l with
  | nil => rfl
  | cons a as ih =>
    simp only [List.forIn_cons, List.all_cons]
    by_cases h : p a
    · simp [h]
    · simp [h, ih]

/-- the digit gate of PL: `for _, char := range s { if !unicode.IsDigit(char) { return false } }` -/
theorem all_isDigitRune (s : Str) :
    s.all (fun a => !decide (¬ isDigitRune (runeOf a) = true)) = allDig s := by
  simp [allDig, isDigitRune_runeOf]

/-- the digit gate of PT, IT, CO: `x := v - 48; if x < 0 || x > 9 { return … }` -/
theorem all_rune_guard (s : Str) :
    s.all (fun a => !decide (runeOf a - 48 < 0 ∨ runeOf a - 48 > 9)) = allDig s := by
  unfold allDig
  congr 1
  funext a
  by_cases h : TaxId.isDig a = true
  · have := (rune_guard a).not.mpr (by simpa using h)
    rw [h, decide_eq_false this]; rfl
  · have := (rune_guard a).mpr h
    rw [Bool.not_eq_true] at h
    rw [h, decide_eq_true this]; rfl

theorem byteAt_getElem (s : Str) (i : Nat) (hi : i < s.length) : byteAt s i = s[i].toNat := by
  simp [byteAt, List.getD_eq_getElem?_getD, hi]

/-- THE WEIGHTED SUM ACCUMULATED IN A LOOP:
    `for i, m := range ws { sum += int(val[i+off]-'0') * m }` is the model's `wloop`
    over the string from offset `off` (GB: off = 0; AT, CH: off = 1). -/
theorem forIn_wsum (ws : List Nat) (val : Str) (off k acc : Nat) (hlen : k + off + ws.length ≤ val.length) :
    (forIn (m := Id) ((ws.map (Nat.cast : Nat → Int)).zipIdx k) (acc : Int)
        fun it s => pure (ForInStep.yield (s + Int.ofNat (byteAt val (it.2 + off) - 48) * it.1)))
      = pure ((wloop ws (val.drop (k + off)) acc : Nat) : Int) := by
  induction ws generalizing k acc with
  | nil => simp [wloop]
  | cons w ws ih =>
    have hk : k + off < val.length := by simp at hlen; omega
    rw [List.drop_eq_getElem_cons hk]
    simp only [List.map_cons, List.zipIdx_cons, List.forIn_cons, wloop]
    rw [byteAt_getElem val _ hk]
    have e : (acc : Int) + Int.ofNat (val[k + off].toNat - 48) * (w : Int) = ((acc + dval val[k + off] * w : Nat) : Int) := by
      simp only [dval, Int.ofNat_eq_natCast]; push_cast; rfl
    rw [e]
    have := ih (k + 1) (acc + dval val[k + off] * w) (by simp at hlen ⊢; omega)
    rw [show k + 1 + off = k + off + 1 from by omega] at this
    exact this

/-- `for c > 0 { c -= 97 }` -/
theorem forFuel_sub97 (g : Int → ForInStep Int)
    (hg : ∀ c, g c = if ¬ c > 0 then .done c else .yield (c - 97)) :
    ∀ (f : Nat) (c : Int), forFuel g f c = GB.subLoop f c
  | 0, c => rfl
  | f + 1, c => by
    rw [forFuel, hg, GB.subLoop]
    by_cases h : c > 0
    · simp [h, forFuel_sub97 g hg f]
    · simp [h]


/-! ## the right-to-left loop of `common.ComputeLuhnCheckDigit` -/

/-- what one round adds to the sum -/
def luhnStep (d pos : Nat) : Nat :=
  if pos % 2 == 0 then (if d * 2 > 9 then d * 2 - 9 else d * 2) else d

theorem luhnLoop_cons (c : Char) (cs : Str) (pos sum : Nat) :
    luhnLoop (c :: cs) pos sum = luhnLoop cs (pos + 1) (sum + luhnStep (dval c) pos) := rfl

/-- `for i := len(s) - 1; i >= 0; i-- { … }` with state `(sum, pos, i)`: `k` rounds from
    `i = k - 1` consume the first `k` characters from the right -/
theorem forFuel_luhn (s : Str) (g : Int × Int × Int → ForInStep (Int × Int × Int))
    (hstep : ∀ (sum pos i : Nat) (hi : i < s.length),
      g ((sum : Int), (pos : Int), (i : Int)) =
        .yield (((sum + luhnStep (dval s[i]) pos : Nat) : Int), ((pos + 1 : Nat) : Int), (i : Int) - 1)) :
    ∀ (k : Nat) (_ : k ≤ s.length) (sum pos : Nat),
      forFuel g k ((sum : Int), (pos : Int), (k : Int) - 1)
        = (((luhnLoop (s.take k).reverse pos sum : Nat) : Int), ((pos + k : Nat) : Int), -1)
  | 0, _, sum, pos => by simp [forFuel, luhnLoop]
  | k + 1, hk, sum, pos => by
    have hk' : k < s.length := by omega
    have e : ((k + 1 : Nat) : Int) - 1 = (k : Int) := by omega
    rw [e, forFuel, hstep sum pos k hk']
    simp only
    rw [forFuel_luhn s g hstep k (by omega) _ _]
    have ht : (s.take (k + 1)).reverse = s[k] :: (s.take k).reverse := by
      rw [List.take_succ_eq_append_getElem hk', List.reverse_append]; rfl
    rw [ht, luhnLoop_cons]
    congr 2
    · congr 1; omega

/-! ## DE: the loop of `validateTaxCodeChecksum` (the state of one round depends on the previous one) -/

/-- one round of DE's loop on the pair `(p, sum)`, for the digit `d` -/
def deStep (d p : Nat) : Nat × Nat :=
  let sum := (d + p) % 10
  let sum := if sum == 0 then 10 else sum
  ((2 * sum) % 11, sum)

/-- `k` rounds from index `i` -/
def deIter (s : Str) : Nat → Nat → Nat → Nat → Nat × Nat
  | 0, _, p, sum => (p, sum)
  | k + 1, i, p, _ => deIter s k (i + 1) (deStep (dval (s.getD i '0')) p).1 (deStep (dval (s.getD i '0')) p).2

/-- `for i := 0; i < 8; i++ { … }` with state `(early return, p, sum, i)` -/
theorem forFuel_de {ρ : Type} (s : Str) (g : Option ρ × Int × Int × Int → ForInStep (Option ρ × Int × Int × Int))
    (hstep : ∀ (p sum i : Nat), i < 8 →
      g (none, (p : Int), (sum : Int), (i : Int)) =
        .yield (none, ((deStep (dval (s.getD i '0')) p).1 : Int), ((deStep (dval (s.getD i '0')) p).2 : Int), ((i + 1 : Nat) : Int))) :
    ∀ (k i p sum : Nat), i + k ≤ 8 →
      forFuel g k (none, (p : Int), (sum : Int), (i : Int))
        = (none, ((deIter s k i p sum).1 : Int), ((deIter s k i p sum).2 : Int), ((i + k : Nat) : Int))
  | 0, i, p, sum, _ => by simp [forFuel, deIter]
  | k + 1, i, p, sum, h8 => by
    rw [forFuel, hstep p sum i (by omega)]
    simp only
    rw [forFuel_de s g hstep k (i + 1) _ _ (by omega), deIter]
    congr 4; omega

theorem deIter_loop (s : Str) : ∀ (k i p sum : Nat), i + k ≤ s.length →
    (∀ j (hj : j < s.length), i ≤ j → j < i + k → TaxId.isDig s[j] = true) →
    DE.loop k (s.drop i) p = some (deIter s k i p sum).1
  | 0, i, p, sum, _, _ => by simp [DE.loop, deIter]
  | k + 1, i, p, sum, hl, hd => by
    have hi : i < s.length := by omega
    have hdi := hd i hi (Nat.le_refl _) (by omega)
    rw [List.drop_eq_getElem_cons hi, DE.loop, TaxId.atoi_single _ hdi, deIter]
    have : s.getD i '0' = s[i] := by simp [List.getD_eq_getElem?_getD, hi]
    rw [this]
    have := deIter_loop s k (i + 1) (deStep (dval s[i]) p).1 (deStep (dval s[i]) p).2 (by omega)
      (fun j hj h1 h2 => hd j hj (by omega) (by omega))
    simpa [deStep] using this

theorem deIter_le (s : Str) : ∀ (k i p sum : Nat), p ≤ 10 → (deIter s k i p sum).1 ≤ 10
  | 0, _, _, _, h => by simpa [deIter] using h
  | k + 1, i, p, sum, _ => by
    rw [deIter]
    exact deIter_le s k _ _ _ (by simp only [deStep]; omega)

/-! ## NL: the letters of the IBAN-style test -/

theorem rune_digit_cond {c : Char} (h : TaxId.isDig c = true) : (runeOf c ≥ 48 ∧ runeOf c ≤ 57) := by
  have := isDig_bounds h
  simp only [runeOf]; omega

theorem rune_digit_if {α : Type} {c : Char} (h : TaxId.isDig c = true) (a b : α) :
    (if runeOf c ≥ 48 ∧ runeOf c ≤ 57 then a else b) = a := if_pos (rune_digit_cond h)

theorem runeOf_N : runeOf 'N' = 78 := rfl
theorem runeOf_L : runeOf 'L' = 76 := rfl
theorem runeOf_B : runeOf 'B' = 66 := rfl
theorem isDig_N : TaxId.isDig 'N' = false := by decide
theorem isDig_L : TaxId.isDig 'L' = false := by decide
theorem isDig_B : TaxId.isDig 'B' = false := by decide

theorem allDig_of_atoi {s : Str} {n : Nat} (h : atoi? s = some n) : allDig s = true := by
  cases hd : allDig s with
  | true => rfl
  | false => simp [atoi?, hd] at h

/-! ## regexps: what the table of Model/TaxIdRe.lean says for each pattern text -/

open GoblVerif.TaxId.Re in
theorem re_ae : reMatch "^\\d{15}$" = AE.regime := rfl
open GoblVerif.TaxId.Re in
theorem re_at : reMatch "^U\\d{8}$" = AT.fmt := rfl
open GoblVerif.TaxId.Re in
theorem re_be : reMatch "^0?\\d{9}$" = BE.fmt := rfl
open GoblVerif.TaxId.Re in
theorem re_ch : reMatch "^E\\d{9}$" = CH.fmt := rfl
open GoblVerif.TaxId.Re in
theorem re_de : reMatch "^[1-9]\\d{8}$" = DE.fmt := rfl
open GoblVerif.TaxId.Re in
theorem re_fr_vat : reMatch "^\\d{11}$" = FR.vatRe := rfl
open GoblVerif.TaxId.Re in
theorem re_d9 : reMatch "^\\d{9}$" = FR.sirenRe := rfl
open GoblVerif.TaxId.Re in
theorem re_d12 : reMatch "^\\d{12}$" = matchSeq (rep 12 TaxId.isDig) := rfl
open GoblVerif.TaxId.Re in
theorem re_gd : reMatch "^GD\\d{3}$" = matchSeq (isCh 'G' :: isCh 'D' :: rep 3 TaxId.isDig) := rfl
open GoblVerif.TaxId.Re in
theorem re_ha : reMatch "^HA\\d{3}$" = matchSeq (isCh 'H' :: isCh 'A' :: rep 3 TaxId.isDig) := rfl
open GoblVerif.TaxId.Re in
theorem re_in : reMatch "^[0-9]{2}[A-Z]{5}[0-9]{4}[A-Z]{1}[1-9A-Z]{1}Z[0-9A-Z]{1}$" = IN.fmt := rfl
open GoblVerif.TaxId.Re in
theorem re_mx_person : reMatch "^([A-ZÑ\\&]{4})([0-9]{6})([A-Z0-9]{3})$" = MX.personRe := rfl
open GoblVerif.TaxId.Re in
theorem re_mx_company : reMatch "^([A-ZÑ\\&]{3})([0-9]{6})([A-Z0-9]{3})$" = MX.companyRe := rfl
open GoblVerif.TaxId.Re in
theorem re_pl : reMatch "^[1-9]((\\d[1-9])|([1-9]\\d))\\d{7}$" = PL.fmt := rfl

/-- `for _, re := range res { if re.MatchString(val) { match = true; break } }` with one pattern -/
theorem forIn_match_one (p : String) (val : Str) :
    (forIn (m := Id) [p] false fun re r =>
        if Re.reMatch re val = true then pure (ForInStep.done true) else pure (ForInStep.yield r))
      = pure (Re.reMatch p val) := by
  simp only [List.forIn_cons, List.forIn_nil]
  cases Re.reMatch p val <;> simp

/-- `for _, re := range res { if re.MatchString(val) { match = true; break } }` -/
theorem forIn_match_any (ps : List String) (val : Str) (b : Bool) :
    (forIn (m := Id) ps b fun re r =>
        if Re.reMatch re val = true then pure (ForInStep.done true) else pure (ForInStep.yield r))
      = pure (b || ps.any (fun p => Re.reMatch p val)) := by
  induction ps generalizing b with
  | nil => simp
  | cons p ps ih =>
    simp only [List.forIn_cons, List.any_cons]
    cases h : Re.reMatch p val
    · simp [ih]
    · simp


theorem hasPrefix2 (a b : Char) (s : Str) : hasPrefix s [a, b] = (s.take 2 == [a, b]) := by
  match s with
  | [] => rfl
  | [x] => simp [hasPrefix, List.isPrefixOf]
  | x :: y :: t =>
    simp only [hasPrefix, List.isPrefixOf, List.take_succ_cons, List.take_zero, Bool.and_true]
    rw [Bool.eq_iff_iff]
    simp only [Bool.and_eq_true, beq_iff_eq, List.cons.injEq, and_true]
    constructor <;> (rintro ⟨rfl, rfl⟩; exact ⟨rfl, rfl⟩)


/-! ## fuel: counted loops never run out of it -/

/-- a counted loop never runs out of fuel: `cnt` goes up by one each round, the loop stops
    by itself once `cnt ≥ n`, and `P` holds of every state an early `return` leaves -/
theorem forFuel_counter {β : Type} (g : β → ForInStep β) (cnt : β → Int) (n : Int) (P Q : β → Prop)
    (hd : ∀ b b', Q b → g b = .done b' → P b' ∨ (Q b' ∧ ¬ cnt b' < n))
    (hy : ∀ b b', Q b → g b = .yield b' → Q b' ∧ cnt b' = cnt b + 1) :
    ∀ (k : Nat) (b : β), Q b → n - cnt b ≤ k →
      P (forFuel g k b) ∨ (Q (forFuel g k b) ∧ ¬ cnt (forFuel g k b) < n)
  | 0, b, hq, hk => Or.inr ⟨hq, by simp only [forFuel]; omega⟩
  | k + 1, b, hq, hk => by
    rw [forFuel]
    cases h : g b with
    | done b' => exact hd b b' hq h
    | yield b' =>
      obtain ⟨hq', hc⟩ := hy b b' hq h
      exact forFuel_counter g cnt n P Q hd hy k b' hq' (by omega)

/-- discharges the two hypotheses of `forFuel_counter` for a loop body that is a tree of `if`s -/
macro "fuel_step" : tactic =>
  `(tactic| (intro b b' hq h; simp only [Id.run] at h; (repeat' split at h) <;> (first | cases h | skip) <;> simp_all <;> omega))

/-- an invariant of a `for … range` loop over a list -/
theorem forIn_list_inv {α β : Type} (l : List α) (f : α → β → Id (ForInStep β)) (P : β → Prop)
    (hstep : ∀ a b, P b → ∀ b', ((f a b).run = .done b' ∨ (f a b).run = .yield b') → P b') :
    ∀ b, P b → P (forIn (m := Id) l b f).run := by
  induction l with
  | nil => intro b hb; exact hb
  | cons a as ih =>
    intro b hb
    simp only [List.forIn_cons]
    cases h : (f a b).run with
    | done b' =>
      have : f a b = pure (ForInStep.done b') := h
      rw [this]; exact hstep a b hb b' (Or.inl h)
    | yield b' =>
      have : f a b = pure (ForInStep.yield b') := h
      rw [this]; exact ih b' (hstep a b hb b' (Or.inr h))

/-- discharges the step hypothesis of `forIn_list_inv` for a loop body that is a tree of `if`s -/
macro "inv_step" : tactic =>
  `(tactic| (intro a b hb b' h; simp only [Id.run] at h; (repeat' split at h) <;> rcases h with h | h <;>
      (first | cases h | skip) <;> simp_all))

/-- closes what is left once a checker and its model are both unrolled over digit
    variables: `if`s, `%`, casts between ℕ and ℤ -/
macro "src_arith" : tactic =>
  `(tactic| ((repeat' split) <;> simp_all [GoblVerif.TaxIdSrc.errNew_isNone] <;> (try simp only [Int.subNatNat_eq_coe] at *) <;> omega))


end GoblVerif.TaxIdSrc
