/-
  The tax summary of the calculation model: accumulating rows into rate
  groups preserves sums (partition) and never creates two groups with the
  same key.
-/
import GoblVerif.Proofs.NumX

namespace GoblVerif.Calc

/-- what one row contributes to a base: the row total itself, except under the
    currency rule where it is first rounded to the currency -/
def contrib (r : Rule) (c : ℕ) (t : Amount) : ℚ :=
  match r with
  | .currency => (t.rescaleX c).toRat
  | _ => t.toRat

def ratesBase (rts : List RateTotal) : ℚ := (rts.map (·.base.toRat)).sum

/-- sum of the bases of all groups of category `k` -/
def catBase (k : String) (cats : List CatTotal) : ℚ :=
  ((cats.filter (·.code == k)).map (fun ct => ratesBase ct.rates)).sum

/-- under the currency rule every base stays at the currency's exponent -/
def RatesOk (r : Rule) (c : ℕ) (rts : List RateTotal) : Prop :=
  r = .currency → ∀ rt ∈ rts, rt.base.exp = c

theorem base_step (r : Rule) (c : ℕ) (base t : Amount) (hb : r = .currency → base.exp = c) :
    (add exactOps (mrp r base t) t).toRat = base.toRat + contrib r c t ∧
    (r = .currency → (add exactOps (mrp r base t) t).exp = c) := by
  cases r with
  | currency =>
    have hbc := hb rfl
    refine ⟨?_, fun _ => by simp [mrp, hbc]⟩
    simp only [mrp, contrib]
    unfold add Amount.toRat
    simp only [exact_rescale, rescaleX_exp, hbc]
    push_cast; ring
  | precise =>
    refine ⟨?_, fun h => by cases h⟩
    simp only [mrp, contrib]
    rw [add_toRat _ _ (by rw [up_exp]; omega), up_toRat]
  | other =>
    refine ⟨?_, fun h => by cases h⟩
    simp only [mrp, contrib]
    rw [add_toRat _ _ (by rw [up_exp]; omega), up_toRat]

theorem addToRates_spec (r : Rule) (c : ℕ) (cb : Combo) (t : Amount) (rts : List RateTotal)
    (hok : RatesOk r c rts) :
    ratesBase (addToRates exactOps r c cb t rts) = ratesBase rts + contrib r c t ∧
    RatesOk r c (addToRates exactOps r c cb t rts) := by
  induction rts with
  | nil =>
    obtain ⟨h1, h2⟩ := base_step r c ⟨0, c⟩ t (fun _ => rfl)
    simp only [addToRates, newRate, ratesBase, List.map_cons, List.map_nil, List.sum_cons, List.sum_nil]
    refine ⟨?_, ?_⟩
    · rw [h1]; simp [Amount.toRat]
    · intro hr rt hrt
      simp only [List.mem_singleton] at hrt
      subst hrt
      exact h2 hr
  | cons rt rts ih =>
    have hok' : RatesOk r c rts := fun hr x hx => hok hr x (by simp [hx])
    simp only [addToRates]
    split
    · obtain ⟨h1, h2⟩ := base_step r c rt.base t (fun hr => hok hr rt (by simp))
      refine ⟨?_, ?_⟩
      · simp only [ratesBase, List.map_cons, List.sum_cons, h1]; ring
      · intro hr x hx
        simp only [List.mem_cons] at hx
        rcases hx with rfl | hx
        · exact h2 hr
        · exact hok' hr x hx
    · obtain ⟨i1, i2⟩ := ih hok'
      refine ⟨?_, ?_⟩
      · simp only [ratesBase, List.map_cons, List.sum_cons] at i1 ⊢
        rw [i1]; ring
      · intro hr x hx
        simp only [List.mem_cons] at hx
        rcases hx with rfl | hx
        · exact hok hr x (by simp)
        · exact i2 hr x hx

def CatsOk (r : Rule) (c : ℕ) (cats : List CatTotal) : Prop := ∀ ct ∈ cats, RatesOk r c ct.rates

theorem addToCats_spec (r : Rule) (c : ℕ) (cb : Combo) (t : Amount) (k : String) (cats : List CatTotal)
    (hok : CatsOk r c cats) :
    catBase k (addToCats exactOps r c cb t cats) =
      catBase k cats + (if cb.cat == k then contrib r c t else 0) ∧
    CatsOk r c (addToCats exactOps r c cb t cats) := by
  induction cats with
  | nil =>
    obtain ⟨h1, h2⟩ := addToRates_spec r c cb t [] (fun _ _ h => by simp at h)
    simp only [addToCats, catBase]
    refine ⟨?_, ?_⟩
    · by_cases hk : (cb.cat == k) = true
      · have h1' : ratesBase (addToRates exactOps r c cb t []) = contrib r c t := by
          rw [h1]; simp [ratesBase]
        simp [hk, h1']
      · simp [hk]
    · intro ct hct
      simp only [List.mem_singleton] at hct
      subst hct
      exact h2
  | cons ct cts ih =>
    have hok' : CatsOk r c cts := fun x hx => hok x (by simp [hx])
    simp only [addToCats]
    split
    · rename_i hcode
      obtain ⟨h1, h2⟩ := addToRates_spec r c cb t ct.rates (hok ct (by simp))
      have hcode' : ct.code = cb.cat := by simpa using hcode
      refine ⟨?_, ?_⟩
      · by_cases hk : (cb.cat == k) = true
        · have : (ct.code == k) = true := by rw [hcode']; exact hk
          simp only [catBase, List.filter_cons, this, if_true, List.map_cons, List.sum_cons, h1, hk]
          ring
        · have : ¬ (ct.code == k) = true := by rw [hcode']; exact hk
          simp [catBase, List.filter_cons, this, hk]
      · intro x hx
        simp only [List.mem_cons] at hx
        rcases hx with rfl | hx
        · exact h2
        · exact hok' x hx
    · obtain ⟨i1, i2⟩ := ih hok'
      refine ⟨?_, ?_⟩
      · simp only [catBase, List.filter_cons] at i1 ⊢
        split
        · simp only [List.map_cons, List.sum_cons]
          rw [i1]; ring
        · exact i1
      · intro x hx
        simp only [List.mem_cons] at hx
        rcases hx with rfl | hx
        · exact hok x (by simp)
        · exact i2 x hx

/-- what the combos of one row contribute to category `k` -/
def rowContrib (r : Rule) (c : ℕ) (k : String) (rw : Row) : ℚ :=
  ((rw.taxes.filter (·.cat == k)).map (fun _ => contrib r c rw.total)).sum

theorem foldCombos_spec (r : Rule) (c : ℕ) (k : String) (t : Amount) (cbs : List Combo) (cats : List CatTotal)
    (hok : CatsOk r c cats) :
    catBase k (cbs.foldl (fun cats cb => addToCats exactOps r c cb t cats) cats) =
      catBase k cats + ((cbs.filter (·.cat == k)).map (fun _ => contrib r c t)).sum ∧
    CatsOk r c (cbs.foldl (fun cats cb => addToCats exactOps r c cb t cats) cats) := by
  induction cbs generalizing cats with
  | nil => simp [hok]
  | cons cb cbs ih =>
    obtain ⟨h1, h2⟩ := addToCats_spec r c cb t k cats hok
    obtain ⟨i1, i2⟩ := ih (addToCats exactOps r c cb t cats) h2
    refine ⟨?_, i2⟩
    rw [List.foldl_cons, i1, h1, List.filter_cons]
    split <;> simp <;> ring

theorem baseRateTotals_spec (r : Rule) (c : ℕ) (k : String) (rows : List Row) (cats : List CatTotal)
    (hok : CatsOk r c cats) :
    catBase k (rows.foldl (fun cats rw => rw.taxes.foldl (fun cats cb => addToCats exactOps r c cb rw.total cats) cats) cats) =
      catBase k cats + (rows.map (rowContrib r c k)).sum := by
  induction rows generalizing cats with
  | nil => simp
  | cons rw rows ih =>
    obtain ⟨h1, h2⟩ := foldCombos_spec r c k rw.total rw.taxes cats hok
    rw [List.foldl_cons, ih _ h2, h1]
    simp only [List.map_cons, List.sum_cons, rowContrib]
    ring

end GoblVerif.Calc

namespace GoblVerif.Calc

/-! ### amounts -/

def taxedAmount (r : Rule) (c : ℕ) (rt : RateTotal) : ℚ :=
  match rt.percent with
  | none => 0
  | some _ => contrib r c rt.amount

theorem amountFold_spec (r : Rule) (c : ℕ) (rates : List RateTotal) (z : Amount) (hz : r = .currency → z.exp = c) :
    (rates.foldl (fun a rt =>
        match rt.percent with
        | none => a
        | some _ => add exactOps (mrp r a rt.amount) rt.amount) z).toRat
      = z.toRat + (rates.map (taxedAmount r c)).sum ∧
    (r = .currency → (rates.foldl (fun a rt =>
        match rt.percent with
        | none => a
        | some _ => add exactOps (mrp r a rt.amount) rt.amount) z).exp = c) := by
  induction rates generalizing z with
  | nil => exact ⟨by simp, hz⟩
  | cons rt rates ih =>
    rw [List.foldl_cons]
    cases hp : rt.percent with
    | none =>
      obtain ⟨i1, i2⟩ := ih z hz
      simp only [hp] at i1 i2 ⊢
      refine ⟨?_, i2⟩
      rw [i1]; simp [taxedAmount, hp]
    | some p =>
      obtain ⟨b1, b2⟩ := base_step r c z rt.amount hz
      obtain ⟨i1, i2⟩ := ih (add exactOps (mrp r z rt.amount) rt.amount) b2
      simp only [hp] at i1 i2 ⊢
      refine ⟨?_, i2⟩
      rw [i1, b1]; simp [taxedAmount, hp]; ring

/-- the category amount computed by `catAmounts` is the sum of its groups' amounts -/
theorem catAmounts_amount (r : Rule) (c : ℕ) (ct : CatTotal) :
    (catAmounts exactOps r c ct).amount.toRat =
      (((catAmounts exactOps r c ct).rates).map (taxedAmount r c)).sum := by
  have h := (amountFold_spec r c (ct.rates.map (rateAmounts exactOps · c)) ⟨0, c⟩ (fun _ => rfl)).1
  simp only [catAmounts]
  refine h.trans ?_
  simp [Amount.toRat]

/-- a group's amount is its percentage of its base (one rounding at the base's precision); exempt groups have none -/
theorem rateAmounts_amount (rt : RateTotal) (c : ℕ) :
    (∀ p, rt.percent = some p →
      (rateAmounts exactOps rt c).amount.exp = rt.base.exp ∧
      (rateAmounts exactOps rt c).amount.value = Spec.roundTo rt.base.exp (rt.base.toRat * p.amount.toRat)) ∧
    (rt.percent = none → (rateAmounts exactOps rt c).amount = ⟨0, c⟩) := by
  refine ⟨?_, ?_⟩
  · intro p hp
    simp only [rateAmounts, hp, pctOf, exact_mul, mulX_exp, true_and]
    exact mulX_spec rt.base p.amount
  · intro hp
    simp [rateAmounts, hp]

/-- and so is its surcharge -/
theorem rateAmounts_surcharge (rt : RateTotal) (c : ℕ) (p sp : Pct) (sa : Amount)
    (hp : rt.percent = some p) (hs : rt.surcharge = some (sp, sa)) :
    ∃ sa', (rateAmounts exactOps rt c).surcharge = some (sp, sa') ∧ sa'.exp = rt.base.exp ∧
      sa'.value = Spec.roundTo rt.base.exp (rt.base.toRat * sp.amount.toRat) := by
  refine ⟨pctOf exactOps sp rt.base, ?_, rfl, mulX_spec rt.base sp.amount⟩
  simp [rateAmounts, hp, hs]

/-! ### distinct groups -/

/-- the combo a group was created for, as far as matching is concerned -/
def keyCombo (rt : RateTotal) : Combo :=
  { cat := "", country := rt.country, key := rt.key, percent := rt.percent,
    surcharge := rt.surcharge.map (·.1), ext := rt.ext, retained := false }

/-- matching only looks at extensions, country, percentage and surcharge percentage -/
theorem rtMatches_congr (rt rt' : RateTotal) (cb cb' : Combo)
    (h1 : rt.ext = rt'.ext) (h2 : rt.country = rt'.country) (h3 : rt.percent = rt'.percent)
    (h4 : rt.surcharge.map (·.1) = rt'.surcharge.map (·.1))
    (g1 : cb.ext = cb'.ext) (g2 : cb.country = cb'.country) (g3 : cb.percent = cb'.percent)
    (g4 : cb.surcharge = cb'.surcharge) : rtMatches rt cb = rtMatches rt' cb' := by
  unfold rtMatches
  rw [h1, h2, h3, g1, g2, g3, g4]
  cases hs : rt.surcharge with
  | none =>
    cases hs' : rt'.surcharge with
    | none => rfl
    | some x => simp [hs, hs'] at h4
  | some x =>
    cases hs' : rt'.surcharge with
    | none => simp [hs, hs'] at h4
    | some y =>
      obtain ⟨a, b⟩ := x; obtain ⟨a', b'⟩ := y
      simp [hs, hs'] at h4
      subst h4
      cases rt'.percent <;> cases cb'.percent <;> cases cb'.surcharge <;> rfl

/-- no earlier group matches the key of a later one -/
def Distinct (rts : List RateTotal) : Prop :=
  rts.Pairwise (fun a b => rtMatches a (keyCombo b) = false)

theorem keyCombo_newRate (c : ℕ) (cb : Combo) (rt : RateTotal) :
    rtMatches rt (keyCombo (newRate c cb)) = rtMatches rt cb := by
  apply rtMatches_congr <;> simp [keyCombo, newRate, Option.map_map, Function.comp_def]

theorem addToRates_distinct (r : Rule) (c : ℕ) (cb : Combo) (t : Amount) (rts : List RateTotal)
    (hd : Distinct rts) : Distinct (addToRates exactOps r c cb t rts) ∧
    (∀ x, (∀ rt ∈ rts, rtMatches x (keyCombo rt) = false) → rtMatches x cb = false →
      ∀ rt ∈ addToRates exactOps r c cb t rts, rtMatches x (keyCombo rt) = false) := by
  induction rts with
  | nil =>
    refine ⟨by simp [addToRates, Distinct], ?_⟩
    intro x _ hx rt hrt
    simp only [addToRates, List.mem_singleton] at hrt
    subst hrt
    rw [← hx]
    apply rtMatches_congr <;> simp [keyCombo, newRate, Option.map_map, Function.comp_def]
  | cons rt rts ih =>
    have hd' : Distinct rts := (List.pairwise_cons.mp hd).2
    have hhead := (List.pairwise_cons.mp hd).1
    simp only [addToRates]
    split
    · -- the head group absorbs the row: keys unchanged
      refine ⟨?_, ?_⟩
      · unfold Distinct
        rw [List.pairwise_cons]
        refine ⟨?_, hd'⟩
        intro b hb
        rw [← hhead b hb]
        apply rtMatches_congr <;> rfl
      · intro x hx _ y hy
        simp only [List.mem_cons] at hy
        rcases hy with rfl | hy
        · rw [← hx rt (by simp)]
          apply rtMatches_congr <;> rfl
        · exact hx y (by simp [hy])
    · rename_i hnm
      obtain ⟨i1, i2⟩ := ih hd'
      refine ⟨?_, ?_⟩
      · unfold Distinct
        rw [List.pairwise_cons]
        refine ⟨?_, i1⟩
        exact i2 rt hhead (by simpa using hnm)
      · intro x hx hxc y hy
        simp only [List.mem_cons] at hy
        rcases hy with rfl | hy
        · exact hx y (by simp)
        · exact i2 x (fun z hz => hx z (by simp [hz])) hxc y hy

end GoblVerif.Calc

namespace GoblVerif.Calc

def AllDistinct (cats : List CatTotal) : Prop := ∀ ct ∈ cats, Distinct ct.rates

theorem addToCats_distinct (r : Rule) (c : ℕ) (cb : Combo) (t : Amount) (cats : List CatTotal)
    (h : AllDistinct cats) : AllDistinct (addToCats exactOps r c cb t cats) := by
  induction cats with
  | nil =>
    intro ct hct
    simp only [addToCats, List.mem_singleton] at hct
    subst hct
    exact (addToRates_distinct r c cb t [] (by simp [Distinct])).1
  | cons ct cts ih =>
    simp only [addToCats]
    split
    · intro x hx
      simp only [List.mem_cons] at hx
      rcases hx with rfl | hx
      · exact (addToRates_distinct r c cb t ct.rates (h ct (by simp))).1
      · exact h x (by simp [hx])
    · intro x hx
      simp only [List.mem_cons] at hx
      rcases hx with rfl | hx
      · exact h x (by simp)
      · exact ih (fun y hy => h y (by simp [hy])) x hx

theorem baseRateTotals_distinct (r : Rule) (c : ℕ) (rows : List Row) :
    AllDistinct (baseRateTotals exactOps r c rows) := by
  unfold baseRateTotals
  have key : ∀ (rows : List Row) (cats : List CatTotal), AllDistinct cats →
      AllDistinct (rows.foldl (fun cats rw => rw.taxes.foldl (fun cats cb => addToCats exactOps r c cb rw.total cats) cats) cats) := by
    intro rows
    induction rows with
    | nil => intro cats h; exact h
    | cons rw rows ih =>
      intro cats h
      rw [List.foldl_cons]
      apply ih
      have inner : ∀ (cbs : List Combo) (cats : List CatTotal), AllDistinct cats →
          AllDistinct (cbs.foldl (fun cats cb => addToCats exactOps r c cb rw.total cats) cats) := by
        intro cbs
        induction cbs with
        | nil => intro cats h; exact h
        | cons cb cbs ih2 => intro cats h; rw [List.foldl_cons]; exact ih2 _ (addToCats_distinct r c cb rw.total cats h)
      exact inner rw.taxes cats h
  exact key rows [] (fun _ h => by simp at h)

end GoblVerif.Calc

namespace GoblVerif.Calc

/-- signed rational contribution of a category to the tax sum -/
def catSignedQ (ct : CatTotal) : ℚ :=
  let v := ct.amount.toRat + (match ct.surcharge with | some s => s.toRat | none => 0)
  if ct.retained then -v else v

theorem finalSum_step_precise (r : Rule) (hr : r ≠ .currency) (z : Amount) (ct : CatTotal)
    (hs : ∀ s, ct.surcharge = some s → s.exp ≤ ct.amount.exp) :
    let s1 := mrp r z ct.amount
    let out := if ct.retained then
        (let s2 := sub exactOps s1 ct.amount
         match ct.surcharge with | some x => sub exactOps s2 x | none => s2)
      else
        (let s2 := add exactOps s1 ct.amount
         match ct.surcharge with | some x => add exactOps s2 x | none => s2)
    out.toRat = z.toRat + catSignedQ ct := by
  have hm : mrp r z ct.amount = up z ct.amount.exp := by
    cases r <;> simp_all [mrp]
  have he : ct.amount.exp ≤ (up z ct.amount.exp).exp := by rw [up_exp]; omega
  simp only [hm, catSignedQ]
  cases hret : ct.retained with
  | true =>
    simp only [if_true]
    cases hsc : ct.surcharge with
    | none => simp only; rw [sub_toRat _ _ he, up_toRat]; ring
    | some x =>
      simp only
      rw [sub_toRat _ _ (by simp only [sub_exp]; have := hs x hsc; omega), sub_toRat _ _ he, up_toRat]
      ring
  | false =>
    simp only [Bool.false_eq_true, if_false]
    cases hsc : ct.surcharge with
    | none => simp only; rw [add_toRat _ _ he, up_toRat]; ring
    | some x =>
      simp only
      rw [add_toRat _ _ (by simp only [add_exp]; have := hs x hsc; omega), add_toRat _ _ he, up_toRat]
      ring

/-- **tax sum under the precise rule**: ordinary categories (with their
surcharges) are added, retained ones subtracted, with no rounding at all -/
theorem finalSum_toRat (r : Rule) (hr : r ≠ .currency) (c : ℕ) (cats : List CatTotal)
    (hs : ∀ ct ∈ cats, ∀ s, ct.surcharge = some s → s.exp ≤ ct.amount.exp) :
    (finalSum exactOps r c cats).toRat = (cats.map catSignedQ).sum := by
  unfold finalSum
  have key : ∀ (cats : List CatTotal) (z : Amount),
      (∀ ct ∈ cats, ∀ s, ct.surcharge = some s → s.exp ≤ ct.amount.exp) →
      (cats.foldl (fun s ct =>
        let s1 := mrp r s ct.amount
        if ct.retained then
          let s2 := sub exactOps s1 ct.amount
          match ct.surcharge with | some x => sub exactOps s2 x | none => s2
        else
          let s2 := add exactOps s1 ct.amount
          match ct.surcharge with | some x => add exactOps s2 x | none => s2) z).toRat
        = z.toRat + (cats.map catSignedQ).sum := by
    intro cats
    induction cats with
    | nil => intro z _; simp
    | cons ct cts ih =>
      intro z h
      rw [List.foldl_cons, ih _ (fun x hx => h x (List.mem_cons_of_mem ct hx))]
      have := finalSum_step_precise r hr z ct (h ct (by simp))
      simp only at this
      rw [this]
      simp only [List.map_cons, List.sum_cons]
      ring
  refine (key cats ⟨0, c⟩ hs).trans ?_
  simp [Amount.toRat]

end GoblVerif.Calc

namespace GoblVerif.Calc

theorem step_exp_precise (r : Rule) (hr : r ≠ .currency) (a x : Amount) :
    (add exactOps (mrp r a x) x).exp = max a.exp x.exp := by
  have hm : mrp r a x = up a x.exp := by cases r <;> simp_all [mrp]
  rw [hm, add_exp, up_exp]

/-- the category surcharge never carries more decimals than the category amount -/
theorem folds_exp (r : Rule) (hr : r ≠ .currency) (c : ℕ) (rates : List RateTotal)
    (hrate : ∀ rt ∈ rates, ∀ sp sa, rt.percent.isSome → rt.surcharge = some (sp, sa) → sa.exp = rt.amount.exp)
    (za : Amount) (zs : Option Amount) (h0 : (zs.getD ⟨0, c⟩).exp ≤ za.exp) :
    ∀ s, rates.foldl (fun (s : Option Amount) rt =>
        match rt.percent, rt.surcharge with
        | some _, some (_, sa) =>
          let x := s.getD ⟨0, c⟩
          some (add exactOps (mrp r x sa) sa)
        | _, _ => s) zs = some s →
      s.exp ≤ (rates.foldl (fun a rt =>
        match rt.percent with
        | none => a
        | some _ => add exactOps (mrp r a rt.amount) rt.amount) za).exp := by
  induction rates generalizing za zs with
  | nil =>
    intro s hs
    simp only [List.foldl_nil] at hs ⊢
    subst hs
    simpa using h0
  | cons rt rates ih =>
    intro s hs
    rw [List.foldl_cons] at hs ⊢
    have hrest := fun x hx => hrate x (List.mem_cons_of_mem rt hx)
    cases hp : rt.percent with
    | none =>
      simp only [hp] at hs ⊢
      exact ih hrest za zs h0 s hs
    | some p =>
      cases hsr : rt.surcharge with
      | none =>
        simp only [hp, hsr] at hs ⊢
        refine ih hrest _ zs ?_ s hs
        rw [step_exp_precise r hr]; omega
      | some x =>
        obtain ⟨sp, sa⟩ := x
        simp only [hp, hsr] at hs ⊢
        have hsa : sa.exp = rt.amount.exp := hrate rt (by simp) sp sa (by simp [hp]) hsr
        refine ih hrest _ _ ?_ s hs
        simp only [Option.getD_some]
        rw [step_exp_precise r hr, step_exp_precise r hr, hsa]
        omega

theorem rateAmounts_surcharge_exp (rt : RateTotal) (c : ℕ) :
    ∀ sp sa, (rateAmounts exactOps rt c).percent.isSome → (rateAmounts exactOps rt c).surcharge = some (sp, sa) →
      sa.exp = (rateAmounts exactOps rt c).amount.exp := by
  intro sp sa hp hs
  unfold rateAmounts at hp hs ⊢
  cases h : rt.percent with
  | none => simp [h] at hp
  | some p =>
    simp only [h] at hs ⊢
    cases hsr : rt.surcharge with
    | none => simp [hsr] at hs
    | some x =>
      simp only [hsr, Option.map_some, Option.some.injEq, Prod.mk.injEq] at hs
      rw [← hs.2]; rfl

/-- the invariant `finalSum_toRat` needs holds for everything `catAmounts` produces -/
theorem catAmounts_surcharge_exp_le (r : Rule) (hr : r ≠ .currency) (c : ℕ) (ct : CatTotal) :
    ∀ s, (catAmounts exactOps r c ct).surcharge = some s → s.exp ≤ (catAmounts exactOps r c ct).amount.exp := by
  intro s hs
  simp only [catAmounts] at hs ⊢
  refine folds_exp r hr c _ ?_ ⟨0, c⟩ none (by simp) s hs
  intro rt hrt
  simp only [List.mem_map] at hrt
  obtain ⟨x, _, rfl⟩ := hrt
  exact rateAmounts_surcharge_exp x c

end GoblVerif.Calc
