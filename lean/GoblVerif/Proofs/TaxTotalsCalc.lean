/-
  TaxTotalsCalc (proofs): the closed forms of Proofs/TaxTotalsSrc.lean for the
  functions regenerated from /repo/tax/totals.go, read with the operations of
  Model/Calc.lean over ANY rounding primitives `o : Calc.Ops` (`calcOps o`), are
  the functions of Model/Calc.lean: `round` = `roundTax`,
  `calculateBaseCategoryTotal` = `catAmounts`, `calculateFinalSum` = `finalSum`,
  `rateTotalFor` followed by the base accumulation on the row it returns =
  `addToCats`.  Used by `namespace Src` of Props/C02.lean.
-/
import GoblVerif.Proofs.TaxTotalsSrc
import GoblVerif.Proofs.CalcGroups
import Mathlib.Data.Countable.Basic
import Mathlib.Logic.Equiv.List

namespace GoblVerif.Proofs.TaxTotalsSrc
open GoblVerif GoblVerif.Merge GoblVerif.TaxTotals GoblVerif.Generated GoblVerif.GoSem

/-! ## the closed forms read with the operations of Model/Calc.lean over any `Ops` -/

theorem foldl_pair {α β X : Type} (H : α × β → X → α × β) (A : α → X → α) (B : β → X → β)
    (h : ∀ s x, H s x = (A s.1 x, B s.2 x)) (l : List X) (a : α) (b : β) :
    l.foldl H (a, b) = (l.foldl A a, l.foldl B b) := by
  induction l generalizing a b with
  | nil => rfl
  | cons x l ih => simp only [List.foldl_cons, h, ih]

section
variable (o : Calc.Ops) (enc : List (String × String) → String)

theorem round_calc (t : Total) (e : Nat) :
    toCalcTotal enc ⟨t.categories.map (@roundCatG (calcOps o) e), @NumOps.rescale (calcOps o) t.sum e, t.sum⟩ =
      Calc.roundTax o e (t.categories.map (toCalcCat enc)) t.sum := by
  simp only [toCalcTotal, Calc.roundTax, List.map_map, c_rescale]
  congr 1
  apply List.map_congr_left
  intro ct _
  rcases ct with ⟨cd, ret, rs, am, su, ap⟩
  simp only [Function.comp, toCalcCat, roundCatG, List.map_map, c_rescale]
  congr 1
  apply List.map_congr_left
  intro rt _
  rcases rt with ⟨k, cn, ex, b, pc, rsu, a⟩
  cases rsu <;> simp [toCalcRT, roundRateG, c_rescale]

theorem rateAmounts_calc (c : Nat) (rt : RateTotal) :
    toCalcRT enc (@rateAmountsG (calcOps o) ⟨0, c⟩ rt) = Calc.rateAmounts o (toCalcRT enc rt) c := by
  rcases rt with ⟨k, cn, ex, b, pc, rsu, a⟩
  cases pc <;> cases rsu <;> simp [toCalcRT, rateAmountsG, Calc.rateAmounts, c_pctOf]

theorem catAmounts_calc (c : Nat) (rr : String) (ct : CategoryTotal) :
    toCalcCat enc (@calcCatG (calcOps o) ⟨0, c⟩ rr ct) = Calc.catAmounts o (ruleOf rr) c (toCalcCat enc ct) := by
  rcases ct with ⟨cd, ret, rs, am, su, ap⟩
  simp only [toCalcCat, calcCatG, Calc.catAmounts, List.map_map]
  have hr : List.map (toCalcRT enc ∘ @rateAmountsG (calcOps o) ⟨0, c⟩) rs =
      List.map ((fun x => Calc.rateAmounts o x c) ∘ toCalcRT enc) rs := by
    apply List.map_congr_left; intro rt _; exact rateAmounts_calc o enc c rt
  rw [hr]
  rw [foldl_pair (@catAccG (calcOps o) ⟨0, c⟩ rr)
    (fun a rt => match rt.percent with
      | none => a
      | some p => Calc.add o (Calc.mrp (ruleOf rr) a (Calc.pctOf o p rt.base)) (Calc.pctOf o p rt.base))
    (fun s rt => match rt.percent, rt.surcharge with
      | some _, some su =>
        some (Calc.add o (Calc.mrp (ruleOf rr) (s.getD ⟨0, c⟩) (Calc.pctOf o su.percent rt.base)) (Calc.pctOf o su.percent rt.base))
      | _, _ => s)
    (by
      intro s rt
      rcases rt with ⟨k, cn, ex, b, pc, rsu, a⟩
      cases pc <;> cases rsu <;> simp [catAccG, mrp_calc, c_add, c_pctOf])]
  simp only [List.foldl_map]
  congr 1
  · apply foldl_congr'
    intro a rt
    rcases rt with ⟨k, cn, ex, b, pc, rsu, am'⟩
    cases pc <;> cases rsu <;> simp [toCalcRT, Calc.rateAmounts]
  · apply foldl_congr'
    intro a rt
    rcases rt with ⟨k, cn, ex, b, pc, rsu, am'⟩
    cases pc <;> cases rsu <;> simp [toCalcRT, Calc.rateAmounts]

theorem finalSum_calc (c : Nat) (rr : String) (cats : List CategoryTotal) :
    cats.foldl (@sumAccG (calcOps o) rr) ⟨0, c⟩ = Calc.finalSum o (ruleOf rr) c (cats.map (toCalcCat enc)) := by
  unfold Calc.finalSum
  rw [List.foldl_map]
  apply foldl_congr'
  intro s ct
  rcases ct with ⟨cd, ret, rs, am, su, ap⟩
  cases ret <;> cases su <;> simp [sumAccG, toCalcCat, mrp_calc, c_add, c_sub]

/-- `calculateFinalSum` followed by `round`, read with the operations of Model/Calc.lean over any
    rounding primitives, is the last line of `Calc.taxTotal`: `roundTax` of the categories with their
    amounts (`catAmounts`) and of their `finalSum` -/
theorem Calculate_body_calc (t : Total) (c : Nat) (rr : String) :
    toCalcTotal enc (@TaxTotalsSrc.Total_round (calcOps o)
        (@TaxTotalsSrc.Total_calculateFinalSum (calcOps o) t ⟨0, c⟩ rr).2 ⟨0, c⟩).2 =
      Calc.roundTax o c ((t.categories.map (toCalcCat enc)).map (Calc.catAmounts o (ruleOf rr) c))
        (Calc.finalSum o (ruleOf rr) c ((t.categories.map (toCalcCat enc)).map (Calc.catAmounts o (ruleOf rr) c))) := by
  rw [@calcFinalSum_eq (calcOps o), @round_eq (calcOps o)]
  have hm : (t.categories.map (@calcCatG (calcOps o) ⟨0, c⟩ rr)).map (toCalcCat enc) =
      (t.categories.map (toCalcCat enc)).map (Calc.catAmounts o (ruleOf rr) c) := by
    simp only [List.map_map]
    apply List.map_congr_left; intro ct _; exact catAmounts_calc o enc c rr ct
  have := round_calc o enc ⟨t.categories.map (@calcCatG (calcOps o) ⟨0, c⟩ rr),
    (t.categories.map (@calcCatG (calcOps o) ⟨0, c⟩ rr)).foldl (@sumAccG (calcOps o) rr) ⟨0, c⟩, t.sumP⟩ c
  simp only at this
  rw [this, hm, finalSum_calc o enc, hm]
end

/-! ## `rateTotalFor` and `addToCats` -/

/-- write `f` through the pointer `rateTotalFor` returns: the first row that `matches` -/
def updRates [NumOps] (c : TaxTotals.Combo) (f : RateTotal → RateTotal) : List RateTotal → List RateTotal
  | [] => []
  | rt :: rts => if TaxTotalsSrc.RateTotal_matches rt c = true then f rt :: rts else rt :: updRates c f rts

/-- … in the first category with the combo's code -/
def updCats [NumOps] (c : TaxTotals.Combo) (f : RateTotal → RateTotal) : List CategoryTotal → List CategoryTotal
  | [] => []
  | ct :: cts => if ct.code = c.category then { ct with rates := updRates c f ct.rates } :: cts else ct :: updCats c f cts

/-- the row a pointer to which `rateTotalFor` returns -/
def findRow [NumOps] (c : TaxTotals.Combo) (cats : List CategoryTotal) : Option RateTotal :=
  (cats.find? (fun ct => ct.code = c.category)).bind (fun ct => ct.rates.find? (fun rt => TaxTotalsSrc.RateTotal_matches rt c))

/-- the two statements of `calculateBaseRateTotals` after `rateTotalFor` -/
def accBase (o : Calc.Ops) (r : Calc.Rule) (tot : Amount) (rt : RateTotal) : RateTotal :=
  { rt with base := Calc.add o (Calc.mrp r rt.base tot) tot }


section
variable (o : Calc.Ops) (enc : List (String × String) → String) (henc : ∀ a b, enc a = enc b → a = b)

theorem newRT_calc (c : TaxTotals.Combo) (c0 : Nat) :
    toCalcRT enc (newRT c ⟨0, c0⟩) = Calc.newRate c0 (toCalcCombo enc c) := by
  rcases c with ⟨cat, cn, r, p, s, e, ret⟩
  cases s <;> rfl

include henc

theorem newRT_matches (c : TaxTotals.Combo) (zero : Amount) :
    @TaxTotalsSrc.RateTotal_matches (calcOps o) (newRT c zero) c = true := by
  rw [matches_calc o enc _ _ (henc _ _), Calc.rtMatches_iff]
  rcases c with ⟨cat, cn, r, p, s, e, ret⟩
  cases s <;> cases p <;> simp [Calc.rtKey, Calc.comboKey, toCalcRT, toCalcCombo, newRT]

theorem updRates_calc (r : Calc.Rule) (c0 : Nat) (c : TaxTotals.Combo) (tot : Amount) (rs : List RateTotal) :
    (@updRates (calcOps o) c (accBase o r tot) (@locRates (calcOps o) c ⟨0, c0⟩ rs).1).map (toCalcRT enc) =
      Calc.addToRates o r c0 (toCalcCombo enc c) tot (rs.map (toCalcRT enc)) := by
  induction rs with
  | nil =>
    simp only [locRates, updRates, newRT_matches o enc henc, if_true, List.map_cons, List.map_nil, Calc.addToRates]
    rw [← newRT_calc]; rfl
  | cons a l ih =>
    simp only [locRates, List.map_cons, Calc.addToRates, ← matches_calc o enc a c (henc _ _)]
    by_cases h : @TaxTotalsSrc.RateTotal_matches (calcOps o) a c = true
    · simp only [h, if_true, updRates, List.map_cons]; rfl
    · simp only [h, if_false, updRates, List.map_cons, ih, Bool.false_eq_true]

theorem updCats_calc (r : Calc.Rule) (c0 : Nat) (c : TaxTotals.Combo) (tot : Amount) (cats : List CategoryTotal) :
    (@updCats (calcOps o) c (accBase o r tot) (@locCats (calcOps o) c ⟨0, c0⟩ cats).1).map (toCalcCat enc) =
      Calc.addToCats o r c0 (toCalcCombo enc c) tot (cats.map (toCalcCat enc)) := by
  induction cats with
  | nil =>
    have h := updRates_calc o enc henc r c0 c tot []
    simp only [locRates, List.map_nil] at h
    simp only [locCats, updCats, if_true, List.map_cons, List.map_nil, Calc.addToCats, toCalcCat, h]
    rfl
  | cons a l ih =>
    simp only [locCats, List.map_cons, Calc.addToCats]
    by_cases h : a.code = c.category
    · have hb : ((toCalcCat enc a).code == (toCalcCombo enc c).cat) = true := by simpa [toCalcCat, toCalcCombo] using h
      rw [if_pos hb]
      simp only [h, if_true, updCats, List.map_cons, toCalcCat, updRates_calc o enc henc]
    · have hb : ((toCalcCat enc a).code == (toCalcCombo enc c).cat) = false := by simpa [toCalcCat, toCalcCombo] using h
      simp only [h, if_false, updCats, List.map_cons, ih]
      rw [if_neg (by rw [hb]; exact Bool.false_ne_true)]

theorem findRow_locRates (c : TaxTotals.Combo) (zero : Amount) (rs : List RateTotal) :
    (@locRates (calcOps o) c zero rs).1.find? (fun rt => @TaxTotalsSrc.RateTotal_matches (calcOps o) rt c) =
      some (@locRates (calcOps o) c zero rs).2 := by
  induction rs with
  | nil => simp [locRates, newRT_matches o enc henc]
  | cons a l ih =>
    by_cases h : @TaxTotalsSrc.RateTotal_matches (calcOps o) a c = true
    · simp [locRates, h]
    · simp [locRates, h, ih]

theorem findRow_locCats (c : TaxTotals.Combo) (zero : Amount) (cats : List CategoryTotal) :
    @findRow (calcOps o) c (@locCats (calcOps o) c zero cats).1 = some (@locCats (calcOps o) c zero cats).2 := by
  unfold findRow
  induction cats with
  | nil => simp [locCats, newRT_matches o enc henc]
  | cons a l ih =>
    by_cases h : a.code = c.category
    · simp [locCats, h, findRow_locRates o enc henc]
    · simp [locCats, h, ih]

end

/-! ## an injective encoding of extension maps exists (non-vacuity of `henc`) -/

theorem exists_enc : ∃ enc : List (String × String) → String, ∀ a b, enc a = enc b → a = b := by
  haveI : Countable Char := (show Function.Injective Char.toNat from fun _ _ h => Char.toNat_inj.mp h).countable
  haveI : Countable String := (show Function.Injective String.toList from fun _ _ h => String.toList_inj.mp h).countable
  obtain ⟨f, hf⟩ := exists_injective_nat (List (String × String))
  refine ⟨fun l => String.ofList (List.replicate (f l) 'a'), fun a b h => hf ?_⟩
  have := congrArg String.length h
  simpa using this

/-! ## the loop of `calculateBaseRateTotals` around the regenerated `rateTotalFor` -/

/-- one round of the inner loop of `calculateBaseRateTotals`: the regenerated `rateTotalFor`, then
    `rt.Base = matchRoundingPrecision(rr, rt.Base, total)`, `rt.Base = rt.Base.Add(total)` written
    through the returned pointer (`updCats`: the first row that `matches` in the first category with
    the combo's code — the row `rateTotalFor` returns, `findRow_locCats`) -/
def srcStep (o : Calc.Ops) (r : Calc.Rule) (c0 : Nat) (t : Total) (cb : TaxTotals.Combo) (tot : Amount) : Total :=
  { (@TaxTotalsSrc.Total_rateTotalFor (calcOps o) t cb ⟨0, c0⟩).2 with
    categories := @updCats (calcOps o) cb (accBase o r tot) (@TaxTotalsSrc.Total_rateTotalFor (calcOps o) t cb ⟨0, c0⟩).2.categories }

/-- both loops of `calculateBaseRateTotals` over rows (total, combos) -/
def srcBaseRateTotals (o : Calc.Ops) (r : Calc.Rule) (c0 : Nat) (rows : List (Amount × List TaxTotals.Combo)) (t : Total) : Total :=
  rows.foldl (fun t rw => rw.2.foldl (fun t cb => srcStep o r c0 t cb rw.1) t) t

def toCalcRow (enc : List (String × String) → String) (rw : Amount × List TaxTotals.Combo) : Calc.Row :=
  ⟨rw.1, rw.2.map (toCalcCombo enc)⟩

theorem srcStep_calc (o : Calc.Ops) (enc : List (String × String) → String) (henc : ∀ a b, enc a = enc b → a = b)
    (r : Calc.Rule) (c0 : Nat) (t : Total) (cb : TaxTotals.Combo) (tot : Amount) :
    (srcStep o r c0 t cb tot).categories.map (toCalcCat enc) =
      Calc.addToCats o r c0 (toCalcCombo enc cb) tot (t.categories.map (toCalcCat enc)) := by
  unfold srcStep
  rw [@rateTotalFor_eq (calcOps o)]
  exact updCats_calc o enc henc r c0 cb tot t.categories

theorem srcBaseRateTotals_calc (o : Calc.Ops) (enc : List (String × String) → String) (henc : ∀ a b, enc a = enc b → a = b)
    (r : Calc.Rule) (c0 : Nat) (rows : List (Amount × List TaxTotals.Combo)) (t : Total) :
    (srcBaseRateTotals o r c0 rows t).categories.map (toCalcCat enc) =
      (rows.map (toCalcRow enc)).foldl
        (fun cats rw => rw.taxes.foldl (fun cats cb => Calc.addToCats o r c0 cb rw.total cats) cats)
        (t.categories.map (toCalcCat enc)) := by
  unfold srcBaseRateTotals
  induction rows generalizing t with
  | nil => rfl
  | cons rw rows ih =>
    simp only [List.foldl_cons, List.map_cons]
    rw [ih]
    congr 1
    rcases rw with ⟨tot, cbs⟩
    simp only [toCalcRow]
    induction cbs generalizing t with
    | nil => rfl
    | cons cb cbs ih2 =>
      simp only [List.foldl_cons, List.map_cons]
      rw [ih2, srcStep_calc o enc henc]

/-! ## the regenerated `calculateBaseRateTotals` (B24): the returned pointer and its index path -/

/-- index of the first row that `matches` (the length when there is none: where `append` puts the new row) -/
def rateIdx [NumOps] (c : TaxTotals.Combo) : List RateTotal → Nat
  | [] => 0
  | rt :: rts => if TaxTotalsSrc.RateTotal_matches rt c = true then 0 else rateIdx c rts + 1

/-- index path of the row `rateTotalFor` returns: first category with the code (or the length), first matching row in it -/
def catIdx [NumOps] (c : TaxTotals.Combo) : List CategoryTotal → Nat × Nat
  | [] => (0, 0)
  | ct :: cts => if ct.code = c.category then (0, rateIdx c ct.rates) else ((catIdx c cts).1 + 1, (catIdx c cts).2)

theorem rateIdx_none [NumOps] (c : TaxTotals.Combo) (l : List RateTotal)
    (h : ∀ x ∈ l, ¬ (TaxTotalsSrc.RateTotal_matches x c = true)) : rateIdx c l = l.length := by
  induction l with
  | nil => rfl
  | cons a l ih =>
    have ha := h a (by simp)
    simp [rateIdx, ha, ih (fun x hx => h x (by simp [hx]))]

theorem rateIdx_found [NumOps] (c : TaxTotals.Combo) (pre post : List RateTotal) (m : RateTotal)
    (h : ∀ x ∈ pre, ¬ (TaxTotalsSrc.RateTotal_matches x c = true)) (hm : TaxTotalsSrc.RateTotal_matches m c = true) :
    rateIdx c (pre ++ m :: post) = pre.length := by
  induction pre with
  | nil => simp [rateIdx, hm]
  | cons a l ih =>
    have ha := h a (by simp)
    simp [rateIdx, ha, ih (fun x hx => h x (by simp [hx]))]

theorem catIdx_none [NumOps] (c : TaxTotals.Combo) (l : List CategoryTotal)
    (h : ∀ x ∈ l, ¬ (x.code = c.category)) : catIdx c l = (l.length, 0) := by
  induction l with
  | nil => rfl
  | cons a l ih =>
    have ha := h a (by simp)
    simp [catIdx, ha, ih (fun x hx => h x (by simp [hx]))]

theorem catIdx_found [NumOps] (c : TaxTotals.Combo) (pre post : List CategoryTotal) (m : CategoryTotal)
    (h : ∀ x ∈ pre, ¬ (x.code = c.category)) (hm : m.code = c.category) :
    catIdx c (pre ++ m :: post) = (pre.length, rateIdx c m.rates) := by
  induction pre with
  | nil => simp [catIdx, hm]
  | cons a l ih =>
    have ha := h a (by simp)
    simp [catIdx, ha, ih (fun x hx => h x (by simp [hx]))]

/-- **the `_at` twin of the regenerated `rateTotalFor`** returns the index path `catIdx` -/
theorem rateTotalFor_at_eq [NumOps] (t : Total) (c : TaxTotals.Combo) (zero : Amount) :
    TaxTotalsSrc.Total_rateTotalFor_at t c zero = (some (catIdx c t.categories).1, some (catIdx c t.categories).2) := by
  unfold TaxTotalsSrc.Total_rateTotalFor_at
  simp only [forIn_list_id, pure_bind]
  simp only [Id.run, id_pure, newRateTotal_eq, newCategoryTotal_eq, Option.get!_some]
  rcases forList_search (fun (m : CategoryTotal) => m.code = c.category) t.categories 0 with
    ⟨hno, hs⟩ | ⟨pre, m, post, hl, hpre, hm, hs⟩
  · simp only [hs, Option.isNone_none, if_true, List.zipIdx_nil, forList]
    rw [catIdx_none _ _ hno]
    simp
  · simp only [hs, Option.isNone_some, Bool.false_eq_true, if_false, Option.get!_some, Nat.zero_add]
    rw [hl, catIdx_found _ _ _ _ hpre hm]
    rcases forList_search (fun (r : RateTotal) => TaxTotalsSrc.RateTotal_matches r c = true) m.rates 0 with
      ⟨rno, rs⟩ | ⟨rpre, rm, rpost, rl, rpreh, rmh, rs⟩
    · simp only [rs, Option.isNone_none, if_true]
      rw [rateIdx_none _ _ rno]
    · simp only [rs, Option.isNone_some, Bool.false_eq_true, if_false]
      rw [rl, rateIdx_found _ _ _ _ rpreh rmh]
      simp

/-- write `v` at the index path `(i, j)`: what the translation emits after a write through the returned pointer -/
def setAt (i j : Nat) (v : RateTotal) (cats : List CategoryTotal) : List CategoryTotal :=
  cats.set i { (cats[i]!) with rates := (cats[i]!).rates.set j v }

theorem setAt_setAt (i j : Nat) (v w : RateTotal) (cats : List CategoryTotal) :
    setAt i j w (setAt i j v cats) = setAt i j w cats := by
  unfold setAt
  by_cases h : i < cats.length
  · simp [h, List.set_set]
  · have h' : cats.length ≤ i := Nat.le_of_not_lt h
    simp [List.set_eq_of_length_le h']

theorem setAt_cons_succ (i j : Nat) (v : RateTotal) (a : CategoryTotal) (cats : List CategoryTotal) :
    setAt (i + 1) j v (a :: cats) = a :: setAt i j v cats := by
  simp [setAt]

section
variable (o : Calc.Ops) (enc : List (String × String) → String) (henc : ∀ a b, enc a = enc b → a = b)
include henc

theorem setRate_locRates (c : TaxTotals.Combo) (zero : Amount) (f : RateTotal → RateTotal) (rs : List RateTotal) :
    (@locRates (calcOps o) c zero rs).1.set (@rateIdx (calcOps o) c rs) (f (@locRates (calcOps o) c zero rs).2) =
      @updRates (calcOps o) c f (@locRates (calcOps o) c zero rs).1 := by
  induction rs with
  | nil => simp [locRates, rateIdx, updRates, newRT_matches o enc henc]
  | cons a l ih =>
    by_cases h : @TaxTotalsSrc.RateTotal_matches (calcOps o) a c = true
    · simp [locRates, rateIdx, updRates, h]
    · simp [locRates, rateIdx, updRates, h, ih]

theorem setAt_locCats (c : TaxTotals.Combo) (zero : Amount) (f : RateTotal → RateTotal) (cats : List CategoryTotal) :
    setAt (@catIdx (calcOps o) c cats).1 (@catIdx (calcOps o) c cats).2 (f (@locCats (calcOps o) c zero cats).2)
        (@locCats (calcOps o) c zero cats).1 =
      @updCats (calcOps o) c f (@locCats (calcOps o) c zero cats).1 := by
  induction cats with
  | nil => simp [locCats, catIdx, updCats, updRates, setAt, newRT_matches o enc henc]
  | cons a l ih =>
    by_cases h : a.code = c.category
    · have := setRate_locRates o enc henc c zero f a.rates
      simp [locCats, catIdx, updCats, setAt, h, this]
    · simp only [locCats, catIdx, updCats, h, if_false, setAt_cons_succ, ih]

/-- **one round of the regenerated inner loop of `calculateBaseRateTotals`** — `rateTotalFor`, its index
    path, the two writes through the returned pointer with their write-backs — **is `srcStep`** -/
theorem baseStep_eq (r : String) (c0 : Nat) (t : Total) (cb : TaxTotals.Combo) (tot : Amount) :
    ({ (@TaxTotalsSrc.Total_rateTotalFor (calcOps o) t cb ⟨0, c0⟩).2 with
        categories := setAt (@catIdx (calcOps o) cb t.categories).1 (@catIdx (calcOps o) cb t.categories).2
          (accBase o (ruleOf r) tot (@locCats (calcOps o) cb ⟨0, c0⟩ t.categories).2)
          (@TaxTotalsSrc.Total_rateTotalFor (calcOps o) t cb ⟨0, c0⟩).2.categories } : Total) =
      srcStep o (ruleOf r) c0 t cb tot := by
  unfold srcStep
  rw [@rateTotalFor_eq (calcOps o)]
  simp only [setAt_locCats o enc henc]

end

/-- the rows `calculateBaseRateTotals` walks over, as (total, combos) -/
def lineRows (ls : List TaxTotals.TaxLine) : List (Amount × List TaxTotals.Combo) := ls.map (fun tl => (tl.total, tl.taxes))

/-- **the regenerated `(*TotalCalculator).calculateBaseRateTotals` is `srcBaseRateTotals`**: both loops, the
    call of `rateTotalFor`, and the two statements written through the pointer it returns -/
theorem calculateBaseRateTotals_eq (o : Calc.Ops) (enc : List (String × String) → String)
    (henc : ∀ a b, enc a = enc b → a = b) (tc : TaxTotals.Calculator) (c0 : Nat) (hz : tc.zero = ⟨0, c0⟩)
    (ls : List TaxTotals.TaxLine) (t : Total) :
    (@TaxTotalsSrc.TotalCalculator_calculateBaseRateTotals (calcOps o) tc ls t).2 =
      srcBaseRateTotals o (ruleOf tc.rounding) c0 (lineRows ls) t := by
  unfold TaxTotalsSrc.TotalCalculator_calculateBaseRateTotals srcBaseRateTotals lineRows
  simp only [forIn_list_id, pure_bind, hz, @rateTotalFor_at_eq (calcOps o)]
  simp only [Id.run, id_pure]
  rw [List.foldl_map]
  apply forList_eq_foldl
  intro tl s
  congr 1
  apply forList_eq_foldl
  intro cb s'
  congr 1
  rw [← baseStep_eq o enc henc tc.rounding c0 s' cb tl.total]
  rw [@rateTotalFor_eq (calcOps o)]
  generalize @locCats (calcOps o) cb ⟨0, c0⟩ s'.categories = LC
  generalize @catIdx (calcOps o) cb s'.categories = ij
  by_cases h : ij.1 < LC.1.length
  · simp [setAt, accBase, mrp_calc, c_add, h, List.set_set]
  · simp [setAt, accBase, mrp_calc, c_add, List.set_eq_of_length_le (Nat.le_of_not_lt h)]

end GoblVerif.Proofs.TaxTotalsSrc
