/-
  TaxTotalsCalc (proofs): the closed forms of Proofs/TaxTotalsSrc.lean for the
  functions regenerated from /repo/tax/totals.go, read with the operations of
  Model/Calc.lean over ANY rounding primitives `o : Calc.Ops` (`calcOps o`), are
  the functions of Model/Calc.lean: `round` = `roundTax`,
  `calculateBaseCategoryTotal` = `catAmounts`, `calculateFinalSum` = `finalSum`,
  `rateTotalFor` followed by the base accumulation on the row it returns =
  `addToCats`.  Used by `namespace Src` of Props/C02.lean.
-/
import GoblVerif.Proofs.TaxTotalsSrc
import GoblVerif.Proofs.CalcGroups
import Mathlib.Data.Countable.Basic
import Mathlib.Logic.Equiv.List

namespace GoblVerif.Proofs.TaxTotalsSrc
open GoblVerif GoblVerif.Merge GoblVerif.TaxTotals GoblVerif.Generated GoblVerif.GoSem

/-! ## the closed forms read with the operations of Model/Calc.lean over any `Ops` -/

theorem foldl_pair {α β X : Type} (H : α × β → X → α × β) (A : α → X → α) (B : β → X → β)
    (h : ∀ s x, H s x = (A s.1 x, B s.2 x)) (l : List X) (a : α) (b : β) :
    l.foldl H (a, b) = (l.foldl A a, l.foldl B b) := by
  induction l generalizing a b with
  | nil => rfl
  | cons x l ih => simp only [List.foldl_cons, h, ih]

section
variable (o : Calc.Ops) (enc : List (String × String) → String)

theorem round_calc (t : Total) (e : Nat) :
    toCalcTotal enc ⟨t.categories.map (@roundCatG (calcOps o) e), @NumOps.rescale (calcOps o) t.sum e, t.sum⟩ =
      Calc.roundTax o e (t.categories.map (toCalcCat enc)) t.sum := by
  simp only [toCalcTotal, Calc.roundTax, List.map_map, c_rescale]
  congr 1
  apply List.map_congr_left
  intro ct _
  rcases ct with ⟨cd, ret, rs, am, su, ap⟩
  simp only [Function.comp, toCalcCat, roundCatG, List.map_map, c_rescale]
  congr 1
  apply List.map_congr_left
  intro rt _
  rcases rt with ⟨k, cn, ex, b, pc, rsu, a⟩
  cases rsu <;> simp [toCalcRT, roundRateG, c_rescale]

theorem rateAmounts_calc (c : Nat) (rt : RateTotal) :
    toCalcRT enc (@rateAmountsG (calcOps o) ⟨0, c⟩ rt) = Calc.rateAmounts o (toCalcRT enc rt) c := by
  rcases rt with ⟨k, cn, ex, b, pc, rsu, a⟩
  cases pc <;> cases rsu <;> simp [toCalcRT, rateAmountsG, Calc.rateAmounts, c_pctOf]

theorem catAmounts_calc (c : Nat) (rr : String) (ct : CategoryTotal) :
    toCalcCat enc (@calcCatG (calcOps o) ⟨0, c⟩ rr ct) = Calc.catAmounts o (ruleOf rr) c (toCalcCat enc ct) := by
  rcases ct with ⟨cd, ret, rs, am, su, ap⟩
  simp only [toCalcCat, calcCatG, Calc.catAmounts, List.map_map]
  have hr : List.map (toCalcRT enc ∘ @rateAmountsG (calcOps o) ⟨0, c⟩) rs =
      List.map ((fun x => Calc.rateAmounts o x c) ∘ toCalcRT enc) rs := by
    apply List.map_congr_left; intro rt _; exact rateAmounts_calc o enc c rt
  rw [hr]
  rw [foldl_pair (@catAccG (calcOps o) ⟨0, c⟩ rr)
    (fun a rt => match rt.percent with
      | none => a
      | some p => Calc.add o (Calc.mrp (ruleOf rr) a (Calc.pctOf o p rt.base)) (Calc.pctOf o p rt.base))
    (fun s rt => match rt.percent, rt.surcharge with
      | some _, some su =>
        some (Calc.add o (Calc.mrp (ruleOf rr) (s.getD ⟨0, c⟩) (Calc.pctOf o su.percent rt.base)) (Calc.pctOf o su.percent rt.base))
      | _, _ => s)
    (by
      intro s rt
      rcases rt with ⟨k, cn, ex, b, pc, rsu, a⟩
      cases pc <;> cases rsu <;> simp [catAccG, mrp_calc, c_add, c_pctOf])]
  simp only [List.foldl_map]
  congr 1
  · apply foldl_congr'
    intro a rt
    rcases rt with ⟨k, cn, ex, b, pc, rsu, am'⟩
    cases pc <;> cases rsu <;> simp [toCalcRT, Calc.rateAmounts]
  · apply foldl_congr'
    intro a rt
    rcases rt with ⟨k, cn, ex, b, pc, rsu, am'⟩
    cases pc <;> cases rsu <;> simp [toCalcRT, Calc.rateAmounts]

theorem finalSum_calc (c : Nat) (rr : String) (cats : List CategoryTotal) :
    cats.foldl (@sumAccG (calcOps o) rr) ⟨0, c⟩ = Calc.finalSum o (ruleOf rr) c (cats.map (toCalcCat enc)) := by
  unfold Calc.finalSum
  rw [List.foldl_map]
  apply foldl_congr'
  intro s ct
  rcases ct with ⟨cd, ret, rs, am, su, ap⟩
  cases ret <;> cases su <;> simp [sumAccG, toCalcCat, mrp_calc, c_add, c_sub]

/-- `calculateFinalSum` followed by `round`, read with the operations of Model/Calc.lean over any
    rounding primitives, is the last line of `Calc.taxTotal`: `roundTax` of the categories with their
    amounts (`catAmounts`) and of their `finalSum` -/
theorem Calculate_body_calc (t : Total) (c : Nat) (rr : String) :
    toCalcTotal enc (@TaxTotalsSrc.Total_round (calcOps o)
        (@TaxTotalsSrc.Total_calculateFinalSum (calcOps o) t ⟨0, c⟩ rr).2 ⟨0, c⟩).2 =
      Calc.roundTax o c ((t.categories.map (toCalcCat enc)).map (Calc.catAmounts o (ruleOf rr) c))
        (Calc.finalSum o (ruleOf rr) c ((t.categories.map (toCalcCat enc)).map (Calc.catAmounts o (ruleOf rr) c))) := by
  rw [@calcFinalSum_eq (calcOps o), @round_eq (calcOps o)]
  have hm : (t.categories.map (@calcCatG (calcOps o) ⟨0, c⟩ rr)).map (toCalcCat enc) =
      (t.categories.map (toCalcCat enc)).map (Calc.catAmounts o (ruleOf rr) c) := by
    simp only [List.map_map]
    apply List.map_congr_left; intro ct _; exact catAmounts_calc o enc c rr ct
  have := round_calc o enc ⟨t.categories.map (@calcCatG (calcOps o) ⟨0, c⟩ rr),
    (t.categories.map (@calcCatG (calcOps o) ⟨0, c⟩ rr)).foldl (@sumAccG (calcOps o) rr) ⟨0, c⟩, t.sumP⟩ c
  simp only at this
  rw [this, hm, finalSum_calc o enc, hm]
end

/-! ## `rateTotalFor` and `addToCats` -/

/-- write `f` through the pointer `rateTotalFor` returns: the first row that `matches` -/
def updRates [NumOps] (c : TaxTotals.Combo) (f : RateTotal → RateTotal) : List RateTotal → List RateTotal
  | [] => []
  | rt :: rts => if TaxTotalsSrc.RateTotal_matches rt c = true then f rt :: rts else rt :: updRates c f rts

/-- … in the first category with the combo's code -/
def updCats [NumOps] (c : TaxTotals.Combo) (f : RateTotal → RateTotal) : List CategoryTotal → List CategoryTotal
  | [] => []
  | ct :: cts => if ct.code = c.category then { ct with rates := updRates c f ct.rates } :: cts else ct :: updCats c f cts

/-- the row a pointer to which `rateTotalFor` returns -/
def findRow [NumOps] (c : TaxTotals.Combo) (cats : List CategoryTotal) : Option RateTotal :=
  (cats.find? (fun ct => ct.code = c.category)).bind (fun ct => ct.rates.find? (fun rt => TaxTotalsSrc.RateTotal_matches rt c))

/-- the two statements of `calculateBaseRateTotals` after `rateTotalFor` -/
def accBase (o : Calc.Ops) (r : Calc.Rule) (tot : Amount) (rt : RateTotal) : RateTotal :=
  { rt with base := Calc.add o (Calc.mrp r rt.base tot) tot }


section
variable (o : Calc.Ops) (enc : List (String × String) → String) (henc : ∀ a b, enc a = enc b → a = b)

theorem newRT_calc (c : TaxTotals.Combo) (c0 : Nat) :
    toCalcRT enc (newRT c ⟨0, c0⟩) = Calc.newRate c0 (toCalcCombo enc c) := by
  rcases c with ⟨cat, cn, r, p, s, e, ret⟩
  cases s <;> rfl

include henc

theorem newRT_matches (c : TaxTotals.Combo) (zero : Amount) :
    @TaxTotalsSrc.RateTotal_matches (calcOps o) (newRT c zero) c = true := by
  rw [matches_calc o enc _ _ (henc _ _), Calc.rtMatches_iff]
  rcases c with ⟨cat, cn, r, p, s, e, ret⟩
  cases s <;> cases p <;> simp [Calc.rtKey, Calc.comboKey, toCalcRT, toCalcCombo, newRT]

theorem updRates_calc (r : Calc.Rule) (c0 : Nat) (c : TaxTotals.Combo) (tot : Amount) (rs : List RateTotal) :
    (@updRates (calcOps o) c (accBase o r tot) (@locRates (calcOps o) c ⟨0, c0⟩ rs).1).map (toCalcRT enc) =
      Calc.addToRates o r c0 (toCalcCombo enc c) tot (rs.map (toCalcRT enc)) := by
  induction rs with
  | nil =>
    simp only [locRates, updRates, newRT_matches o enc henc, if_true, List.map_cons, List.map_nil, Calc.addToRates]
    rw [← newRT_calc]; rfl
  | cons a l ih =>
    simp only [locRates, List.map_cons, Calc.addToRates, ← matches_calc o enc a c (henc _ _)]
    by_cases h : @TaxTotalsSrc.RateTotal_matches (calcOps o) a c = true
    · simp only [h, if_true, updRates, List.map_cons]; rfl
    · simp only [h, if_false, updRates, List.map_cons, ih, Bool.false_eq_true]

theorem updCats_calc (r : Calc.Rule) (c0 : Nat) (c : TaxTotals.Combo) (tot : Amount) (cats : List CategoryTotal) :
    (@updCats (calcOps o) c (accBase o r tot) (@locCats (calcOps o) c ⟨0, c0⟩ cats).1).map (toCalcCat enc) =
      Calc.addToCats o r c0 (toCalcCombo enc c) tot (cats.map (toCalcCat enc)) := by
  induction cats with
  | nil =>
    have h := updRates_calc o enc henc r c0 c tot []
    simp only [locRates, List.map_nil] at h
    simp only [locCats, updCats, if_true, List.map_cons, List.map_nil, Calc.addToCats, toCalcCat, h]
    rfl
  | cons a l ih =>
    simp only [locCats, List.map_cons, Calc.addToCats]
    by_cases h : a.code = c.category
    · have hb : ((toCalcCat enc a).code == (toCalcCombo enc c).cat) = true := by simpa [toCalcCat, toCalcCombo] using h
      rw [if_pos hb]
      simp only [h, if_true, updCats, List.map_cons, toCalcCat, updRates_calc o enc henc]
    · have hb : ((toCalcCat enc a).code == (toCalcCombo enc c).cat) = false := by simpa [toCalcCat, toCalcCombo] using h
      simp only [h, if_false, updCats, List.map_cons, ih]
      rw [if_neg (by rw [hb]; exact Bool.false_ne_true)]

theorem findRow_locRates (c : TaxTotals.Combo) (zero : Amount) (rs : List RateTotal) :
    (@locRates (calcOps o) c zero rs).1.find? (fun rt => @TaxTotalsSrc.RateTotal_matches (calcOps o) rt c) =
      some (@locRates (calcOps o) c zero rs).2 := by
  induction rs with
  | nil => simp [locRates, newRT_matches o enc henc]
  | cons a l ih =>
    by_cases h : @TaxTotalsSrc.RateTotal_matches (calcOps o) a c = true
    · simp [locRates, h]
    · simp [locRates, h, ih]

theorem findRow_locCats (c : TaxTotals.Combo) (zero : Amount) (cats : List CategoryTotal) :
    @findRow (calcOps o) c (@locCats (calcOps o) c zero cats).1 = some (@locCats (calcOps o) c zero cats).2 := by
  unfold findRow
  induction cats with
  | nil => simp [locCats, newRT_matches o enc henc]
  | cons a l ih =>
    by_cases h : a.code = c.category
    · simp [locCats, h, findRow_locRates o enc henc]
    · simp [locCats, h, ih]

end

/-! ## an injective encoding of extension maps exists (non-vacuity of `henc`) -/

theorem exists_enc : ∃ enc : List (String × String) → String, ∀ a b, enc a = enc b → a = b := by
  haveI : Countable Char := (show Function.Injective Char.toNat from fun _ _ h => Char.toNat_inj.mp h).countable
  haveI : Countable String := (show Function.Injective String.toList from fun _ _ h => String.toList_inj.mp h).countable
  obtain ⟨f, hf⟩ := exists_injective_nat (List (String × String))
  refine ⟨fun l => String.ofList (List.replicate (f l) 'a'), fun a b h => hf ?_⟩
  have := congrArg String.length h
  simpa using this

/-! ## the loop of `calculateBaseRateTotals` around the regenerated `rateTotalFor` -/

/-- one round of the inner loop of `calculateBaseRateTotals`: the regenerated `rateTotalFor`, then
    `rt.Base = matchRoundingPrecision(rr, rt.Base, total)`, `rt.Base = rt.Base.Add(total)` written
    through the returned pointer (`updCats`: the first row that `matches` in the first category with
    the combo's code — the row `rateTotalFor` returns, `findRow_locCats`) -/
def srcStep (o : Calc.Ops) (r : Calc.Rule) (c0 : Nat) (t : Total) (cb : TaxTotals.Combo) (tot : Amount) : Total :=
  { (@TaxTotalsSrc.Total_rateTotalFor (calcOps o) t cb ⟨0, c0⟩).2 with
    categories := @updCats (calcOps o) cb (accBase o r tot) (@TaxTotalsSrc.Total_rateTotalFor (calcOps o) t cb ⟨0, c0⟩).2.categories }

/-- both loops of `calculateBaseRateTotals` over rows (total, combos) -/
def srcBaseRateTotals (o : Calc.Ops) (r : Calc.Rule) (c0 : Nat) (rows : List (Amount × List TaxTotals.Combo)) (t : Total) : Total :=
  rows.foldl (fun t rw => rw.2.foldl (fun t cb => srcStep o r c0 t cb rw.1) t) t

def toCalcRow (enc : List (String × String) → String) (rw : Amount × List TaxTotals.Combo) : Calc.Row :=
  ⟨rw.1, rw.2.map (toCalcCombo enc)⟩

theorem srcStep_calc (o : Calc.Ops) (enc : List (String × String) → String) (henc : ∀ a b, enc a = enc b → a = b)
    (r : Calc.Rule) (c0 : Nat) (t : Total) (cb : TaxTotals.Combo) (tot : Amount) :
    (srcStep o r c0 t cb tot).categories.map (toCalcCat enc) =
      Calc.addToCats o r c0 (toCalcCombo enc cb) tot (t.categories.map (toCalcCat enc)) := by
  unfold srcStep
  rw [@rateTotalFor_eq (calcOps o)]
  exact updCats_calc o enc henc r c0 cb tot t.categories

theorem srcBaseRateTotals_calc (o : Calc.Ops) (enc : List (String × String) → String) (henc : ∀ a b, enc a = enc b → a = b)
    (r : Calc.Rule) (c0 : Nat) (rows : List (Amount × List TaxTotals.Combo)) (t : Total) :
    (srcBaseRateTotals o r c0 rows t).categories.map (toCalcCat enc) =
      (rows.map (toCalcRow enc)).foldl
        (fun cats rw => rw.taxes.foldl (fun cats cb => Calc.addToCats o r c0 cb rw.total cats) cats)
        (t.categories.map (toCalcCat enc)) := by
  unfold srcBaseRateTotals
  induction rows generalizing t with
  | nil => rfl
  | cons rw rows ih =>
    simp only [List.foldl_cons, List.map_cons]
    rw [ih]
    congr 1
    rcases rw with ⟨tot, cbs⟩
    simp only [toCalcRow]
    induction cbs generalizing t with
    | nil => rfl
    | cons cb cbs ih2 =>
      simp only [List.foldl_cons, List.map_cons]
      rw [ih2, srcStep_calc o enc henc]

end GoblVerif.Proofs.TaxTotalsSrc
