/-
  Error bounds, continued (C01 proof deepening): lines with line-level
  percentage / fixed discounts and charges, the tax summary under the precise
  rule, payable / advances / due, all against the rational no-rounding
  pipeline `Spec.C01.exactQ`.

  Everything is counted in units of `halfUlp (c + 2)` (half a unit of the
  working precision: currency + 2 decimals); the weights (`lineW`, `sumW`, …)
  count the rounding points that can contribute.
-/
import GoblVerif.Proofs.CalcError
import GoblVerif.Proofs.CalcTax
import GoblVerif.Spec.C01
import Mathlib.Data.List.Forall2

namespace GoblVerif
open GoblVerif.Spec GoblVerif.Calc
namespace Calc
/- everything of this file lives in `GoblVerif.Calc.Err` (the names are generic; other `Calc` proof
   files share the parent namespace) -/
namespace Err

/-! ## generic list lemmas -/

theorem list_sum_diff_le {α : Type} (xs : List α) (f g : α → ℚ) (B : ℚ)
    (h : ∀ x ∈ xs, |f x - g x| ≤ B) : |(xs.map f).sum - (xs.map g).sum| ≤ xs.length * B := by
  induction xs with
  | nil => simp
  | cons x xs ih =>
    have h1 := h x (by simp)
    have h2 := ih (fun y hy => h y (by simp [hy]))
    simp only [List.map_cons, List.sum_cons, List.length_cons]
    have : f x + (xs.map f).sum - (g x + (xs.map g).sum) = (f x - g x) + ((xs.map f).sum - (xs.map g).sum) := by ring
    rw [this]
    refine le_trans (abs_add_le _ _) ?_
    push_cast
    linarith

theorem halfUlp_nonneg (e : ℕ) : 0 ≤ halfUlp e := by
  unfold halfUlp
  have := p10q_pos e
  positivity

/-! ## line-level discounts and charges -/

/-- the covered class of line discounts / charges: no rate × quantity, and either a non-zero
percentage of magnitude at most 100 % of the line sum or of an explicit base (base with at most
currency + 2 decimals), or a fixed amount (no percentage, or a zero one) written with at most
currency + 2 decimals (not finer than the working precision) -/
def AdjOk (c : ℕ) (d : LineAdj) : Prop :=
  d.rate = none ∧
  ((∃ p, d.percent = some p ∧ pctIsZero p = false ∧ |p.amount.toRat| ≤ 1 ∧
      (d.base = none ∨ ∃ b, d.base = some b ∧ b.exp ≤ c + 2)) ∨
   ((d.percent = none ∨ ∃ p, d.percent = some p ∧ pctIsZero p = true) ∧ d.amount.exp ≤ c + 2))

/-- the amount `calculateLineDiscounts` stores for one row -/
def adjAmt (c : ℕ) (sum : Amount) (d : LineAdj) : Amount :=
  (adjUp c (adjPct exactOps .precise c sum d)).amount

/-- the amount `calculateLineCharges` stores for one row -/
def chAmt (c : ℕ) (qty sum : Amount) (d : LineAdj) : Amount :=
  (adjUp c (adjRate exactOps qty (adjPct exactOps .precise c sum d))).amount

theorem adjPct_rate_eq (r : Rule) (c : ℕ) (sum : Amount) (d : LineAdj) :
    (adjPct exactOps r c sum d).rate = d.rate := by
  unfold adjPct
  split
  · split
    · rfl
    · split <;> rfl
  · rfl

theorem chAmt_eq (c : ℕ) (qty sum : Amount) (d : LineAdj) (h : d.rate = none) :
    chAmt c qty sum d = adjAmt c sum d := by
  unfold chAmt adjAmt adjRate
  rw [adjPct_rate_eq, h]

/-- one row: never finer than the line sum, and within |sum − s| + ½ulp of the exact amount -/
theorem adjAmt_ok (c : ℕ) (sum : Amount) (d : LineAdj) (hd : AdjOk c d) (hs : c + 2 ≤ sum.exp)
    (s q : ℚ) (isCharge : Bool) :
    (adjAmt c sum d).exp ≤ sum.exp ∧
    |(adjAmt c sum d).toRat - Spec.C01.adjQ s q isCharge d| ≤ |sum.toRat - s| + halfUlp (c + 2) := by
  obtain ⟨hrate, hcase⟩ := hd
  have h0 := halfUlp_nonneg (c + 2)
  have ha := abs_nonneg (sum.toRat - s)
  rcases hcase with ⟨p, hp, hz, hle, hb | ⟨b, hb, hbe⟩⟩ | ⟨hp, he⟩
  · have hval : adjAmt c sum d = sum.mulX p.amount := by
      simp only [adjAmt, adjUp, adjPct, hp, hz, hb, pctOf, exact_mul, Bool.false_eq_true, if_false]
      exact up_self _ c (by rw [mulX_exp]; omega)
    have hq : Spec.C01.adjQ s q isCharge d = s * p.amount.toRat := by
      have hz' : (p.amount.value == 0) = false := hz
      cases isCharge <;> simp [Spec.C01.adjQ, hrate, hp, hb, hz', Spec.C01.pq]
    rw [hval, hq]
    refine ⟨le_of_eq rfl, ?_⟩
    have h1 := le_trans (mulX_err sum p.amount) (halfUlp_mono _ _ hs)
    have e : (sum.mulX p.amount).toRat - s * p.amount.toRat =
        ((sum.mulX p.amount).toRat - sum.toRat * p.amount.toRat) + (sum.toRat - s) * p.amount.toRat := by ring
    rw [e]
    refine le_trans (abs_add_le _ _) ?_
    have h2 : |(sum.toRat - s) * p.amount.toRat| ≤ |sum.toRat - s| := by
      rw [abs_mul]
      calc |sum.toRat - s| * |p.amount.toRat| ≤ |sum.toRat - s| * 1 :=
            mul_le_mul_of_nonneg_left hle (abs_nonneg _)
        _ = |sum.toRat - s| := mul_one _
    linarith
  · have hu : up (up (up b c) (c + E)) c = up (up b c) (c + E) := up_self _ _ (by rw [up_exp]; omega)
    have hval : adjAmt c sum d = (up (up b c) (c + E)).mulX p.amount := by
      simp only [adjAmt, adjUp, adjPct, hp, hz, hb, pctOf, exact_mul, applyRule, Bool.false_eq_true, if_false, hu]
      exact up_self _ c (by rw [mulX_exp, up_exp]; omega)
    have hq : Spec.C01.adjQ s q isCharge d = b.toRat * p.amount.toRat := by
      have hz' : (p.amount.value == 0) = false := hz
      cases isCharge <;> simp [Spec.C01.adjQ, hrate, hp, hb, hz', Spec.C01.pq]
    rw [hval, hq]
    refine ⟨by simp only [mulX_exp, up_exp, E]; omega, ?_⟩
    have h1 := mulX_err (up (up b c) (c + E)) p.amount
    rw [up_toRat, up_toRat] at h1
    have h2 : halfUlp (up (up b c) (c + E)).exp ≤ halfUlp (c + 2) :=
      halfUlp_mono _ _ (by simp only [up_exp, E]; omega)
    linarith
  · have hval : adjAmt c sum d = up d.amount c := by
      rcases hp with hp | ⟨p, hp, hz⟩
      · simp only [adjAmt, adjUp, adjPct, hp]
      · simp only [adjAmt, adjUp, adjPct, hp, hz, if_true]
    have hq : Spec.C01.adjQ s q isCharge d = d.amount.toRat := by
      rcases hp with hp | ⟨p, hp, hz⟩
      · cases isCharge <;> simp [Spec.C01.adjQ, hrate, hp]
      · have hz' : (p.amount.value == 0) = true := hz
        cases isCharge <;> simp [Spec.C01.adjQ, hrate, hp, hz']
    rw [hval, hq, up_toRat, up_exp]
    refine ⟨by omega, ?_⟩
    simp only [sub_self, abs_zero]
    linarith

theorem lineDiscounts_cons_snd (o : Ops) (r : Rule) (c : ℕ) (sum : Amount) (d : LineAdj) (ds : List LineAdj) (total : Amount) :
    (lineDiscounts o r c sum (d :: ds) total).2 =
      (lineDiscounts o r c sum ds (lineDiscountStep o r c sum total d).2).2 := rfl

theorem lineCharges_cons_snd (o : Ops) (r : Rule) (c : ℕ) (qty sum : Amount) (d : LineAdj) (ds : List LineAdj) (total : Amount) :
    (lineCharges o r c qty sum (d :: ds) total).2 =
      (lineCharges o r c qty sum ds (lineChargeStep o r c qty sum total d).2).2 := rfl

/-- the running total after the discounts: exact subtraction of the stored amounts -/
theorem lineDiscounts_snd (c : ℕ) (sum : Amount) (ds : List LineAdj) (total : Amount)
    (ht : total.exp = sum.exp) (hok : ∀ d ∈ ds, (adjAmt c sum d).exp ≤ sum.exp) :
    (lineDiscounts exactOps .precise c sum ds total).2.exp = sum.exp ∧
    (lineDiscounts exactOps .precise c sum ds total).2.toRat =
      total.toRat - (ds.map (fun d => (adjAmt c sum d).toRat)).sum := by
  induction ds generalizing total with
  | nil => simp [lineDiscounts, ht]
  | cons d ds ih =>
    rw [lineDiscounts_cons_snd]
    have hstep : (lineDiscountStep exactOps .precise c sum total d).2 = sub exactOps total (adjAmt c sum d) := rfl
    rw [hstep]
    have hd := hok d (by simp)
    obtain ⟨i1, i2⟩ := ih (sub exactOps total (adjAmt c sum d)) (by rw [sub_exp]; exact ht)
      (fun x hx => hok x (by simp [hx]))
    refine ⟨i1, ?_⟩
    rw [i2, sub_toRat _ _ (by omega)]
    simp only [List.map_cons, List.sum_cons]
    ring

theorem lineCharges_snd (c : ℕ) (qty sum : Amount) (ds : List LineAdj) (total : Amount)
    (ht : total.exp = sum.exp) (hok : ∀ d ∈ ds, (chAmt c qty sum d).exp ≤ sum.exp) :
    (lineCharges exactOps .precise c qty sum ds total).2.exp = sum.exp ∧
    (lineCharges exactOps .precise c qty sum ds total).2.toRat =
      total.toRat + (ds.map (fun d => (chAmt c qty sum d).toRat)).sum := by
  induction ds generalizing total with
  | nil => simp [lineCharges, ht]
  | cons d ds ih =>
    rw [lineCharges_cons_snd]
    have hstep : (lineChargeStep exactOps .precise c qty sum total d).2 = add exactOps total (chAmt c qty sum d) := rfl
    rw [hstep]
    have hd := hok d (by simp)
    obtain ⟨i1, i2⟩ := ih (add exactOps total (chAmt c qty sum d)) (by rw [add_exp]; exact ht)
      (fun x hx => hok x (by simp [hx]))
    refine ⟨i1, ?_⟩
    rw [i2, add_toRat _ _ (by omega)]
    simp only [List.map_cons, List.sum_cons]
    ring

/-! ## a line with discounts and charges -/

/-- a line priced in the document currency without breakdown whose discounts and charges are all
of the covered class -/
def AdjLine (c : ℕ) (l : Line) : Prop :=
  ∃ it p, l.item = some it ∧ it.cur = "" ∧ it.price = some p ∧ l.breakdown = [] ∧
    (∀ d ∈ l.discounts, AdjOk c d) ∧ (∀ d ∈ l.charges, AdjOk c d)


/-- what `calcLine` guarantees for a line of the class, against the exact line total -/
def LineRel (cur : String) (rates : List XRate) (c : ℕ) (l l' : Line) : Prop :=
  ∃ t q, l'.total = some t ∧ l'.taxes = l.taxes ∧ c + 2 ≤ t.exp ∧
    Spec.C01.lineTotalQ cur rates l = some q ∧ |t.toRat - q| ≤ (lineW l : ℚ) * halfUlp (c + 2)

theorem adjLine_total (cur : String) (c : ℕ) (rates : List XRate) (l l' : Line) (hs : AdjLine c l)
    (h : calcLine exactOps cur c rates .precise l = .ok l') : LineRel cur rates c l l' := by
  obtain ⟨it, p, hit, hcur, hp, hbd, hd, hc⟩ := hs
  unfold calcLine at h
  simp only [hit, hbd, calcSubLines, List.isEmpty_nil, Bool.true_or, if_true, hp] at h
  unfold itemPrice at h
  simp only [hcur, BEq.rfl, Bool.true_or, if_true] at h
  simp only [Option.getD_some] at h
  -- the line sum
  have hS : applyRule exactOps .precise c (exactOps.mul (up (up p it.sub) (c + E)) l.qty) =
      (up (up p it.sub) (c + E)).mulX l.qty := by
    simp only [applyRule, exact_mul]
    exact up_self _ c (by simp only [mulX_exp, up_exp, E]; omega)
  rw [hS] at h
  set S := (up (up p it.sub) (c + E)).mulX l.qty with hSdef
  have hSe : c + 2 ≤ S.exp := by simp only [hSdef, mulX_exp, up_exp, E]; omega
  have hSerr : |S.toRat - p.toRat * l.qty.toRat| ≤ halfUlp (c + 2) := by
    have h1 := mulX_err (up (up p it.sub) (c + E)) l.qty
    rw [up_toRat, up_toRat] at h1
    refine le_trans h1 (halfUlp_mono _ _ ?_)
    simp only [up_exp, E]; omega
  have hhS : halfUlp S.exp ≤ halfUlp (c + 2) := halfUlp_mono _ _ hSe
  -- discounts and charges
  have hdok : ∀ d ∈ l.discounts, (adjAmt c S d).exp ≤ S.exp :=
    fun d hdm => (adjAmt_ok c S d (hd d hdm) hSe 0 0 false).1
  have hcok : ∀ d ∈ l.charges, (chAmt c l.qty S d).exp ≤ S.exp := by
    intro d hdm
    rw [chAmt_eq _ _ _ _ (hc d hdm).1]
    exact (adjAmt_ok c S d (hc d hdm) hSe 0 0 false).1
  obtain ⟨d1, d2⟩ := lineDiscounts_snd c S l.discounts S rfl hdok
  obtain ⟨c1, c2⟩ := lineCharges_snd c l.qty S l.charges
    (lineDiscounts exactOps .precise c S l.discounts S).2 d1 hcok
  rcases hD : lineDiscounts exactOps .precise c S l.discounts S with ⟨ds', t1⟩
  rw [hD] at d1 d2 c1 c2
  simp only [hD] at h
  rcases hC : lineCharges exactOps .precise c l.qty S l.charges t1 with ⟨cs', t2⟩
  rw [hC] at c1 c2
  simp only [hC] at h
  injection h with h
  subst h
  simp only at d1 d2 c1 c2
  set s := p.toRat * l.qty.toRat with hsdef
  refine ⟨t2, s - (l.discounts.map (Spec.C01.adjQ s l.qty.toRat false)).sum
      + (l.charges.map (Spec.C01.adjQ s l.qty.toRat true)).sum, rfl, rfl, by omega, ?_, ?_⟩
  · simp [Spec.C01.lineTotalQ, Spec.C01.rowTotalQ, Spec.C01.priceQ, hit, hbd, hp, hcur, hsdef]
  · rw [c2, d2]
    have hB : ∀ d ∈ l.discounts, |(adjAmt c S d).toRat - Spec.C01.adjQ s l.qty.toRat false d| ≤ 2 * halfUlp (c + 2) := by
      intro d hdm
      have := (adjAmt_ok c S d (hd d hdm) hSe s l.qty.toRat false).2
      linarith
    have hB' : ∀ d ∈ l.charges, |(chAmt c l.qty S d).toRat - Spec.C01.adjQ s l.qty.toRat true d| ≤ 2 * halfUlp (c + 2) := by
      intro d hdm
      rw [chAmt_eq _ _ _ _ (hc d hdm).1]
      have := (adjAmt_ok c S d (hc d hdm) hSe s l.qty.toRat true).2
      linarith
    have e1 := list_sum_diff_le l.discounts (fun d => (adjAmt c S d).toRat) (Spec.C01.adjQ s l.qty.toRat false) _ hB
    have e2 := list_sum_diff_le l.charges (fun d => (chAmt c l.qty S d).toRat) (Spec.C01.adjQ s l.qty.toRat true) _ hB'
    set D := (l.discounts.map (fun d => (adjAmt c S d).toRat)).sum
    set D' := (l.discounts.map (Spec.C01.adjQ s l.qty.toRat false)).sum
    set C := (l.charges.map (fun d => (chAmt c l.qty S d).toRat)).sum
    set C' := (l.charges.map (Spec.C01.adjQ s l.qty.toRat true)).sum
    have e : S.toRat - D + C - (s - D' + C') = (S.toRat - s) - (D - D') + (C - C') := by ring
    rw [e]
    have t1 := abs_add_le ((S.toRat - s) - (D - D')) (C - C')
    have t2 := abs_sub (S.toRat - s) (D - D')
    unfold lineW
    push_cast
    nlinarith [halfUlp_nonneg (c + 2)]

theorem calcLines_rel (cur : String) (c : ℕ) (rates : List XRate) (ls ls' : List Line)
    (hs : ∀ l ∈ ls, AdjLine c l) (h : calcLines exactOps cur c rates .precise ls = .ok ls') :
    List.Forall₂ (LineRel cur rates c) ls ls' := by
  induction ls generalizing ls' with
  | nil =>
    simp only [calcLines] at h
    injection h with h
    subst h
    exact List.Forall₂.nil
  | cons l ls ih =>
    simp only [calcLines] at h
    cases h1 : calcLine exactOps cur c rates .precise l with
    | error e => simp [h1] at h
    | ok l' =>
      cases h2 : calcLines exactOps cur c rates .precise ls with
      | error e => simp [h1, h2] at h
      | ok ls'' =>
        simp only [h1, h2] at h
        injection h with h
        subst h
        exact List.Forall₂.cons (adjLine_total cur c rates l l' (hs l (by simp)) h1)
          (ih ls'' (fun x hx => hs x (by simp [hx])) h2)


/-- the working document sum against the exact one -/
theorem rel_sum (cur : String) (c : ℕ) (rates : List XRate) (ls ls' : List Line)
    (h : List.Forall₂ (LineRel cur rates c) ls ls') :
    |((ls'.filterMap (·.total)).map Amount.toRat).sum - (ls.filterMap (Spec.C01.lineTotalQ cur rates)).sum| ≤
      (sumW ls : ℚ) * halfUlp (c + 2) := by
  induction h with
  | nil => simp [sumW]
  | @cons l l' ls ls' hl _ ih =>
    obtain ⟨t, q, ht, _, _, hq, herr⟩ := hl
    simp only [List.filterMap_cons, ht, hq, List.map_cons, List.sum_cons, sumW]
    have e : t.toRat + ((ls'.filterMap (·.total)).map Amount.toRat).sum
        - (q + (ls.filterMap (Spec.C01.lineTotalQ cur rates)).sum) =
        (t.toRat - q) + (((ls'.filterMap (·.total)).map Amount.toRat).sum
          - (ls.filterMap (Spec.C01.lineTotalQ cur rates)).sum) := by ring
    rw [e]
    refine le_trans (abs_add_le _ _) ?_
    unfold sumW at ih
    push_cast
    linarith

/-- every line total is at least as fine as the working precision, so the sum is too -/
theorem rel_sum_exp (cur : String) (c : ℕ) (rates : List XRate) (ls ls' : List Line)
    (h : List.Forall₂ (LineRel cur rates c) ls ls') (hne : ls ≠ []) :
    c + 2 ≤ (lineSum exactOps c ls').exp := by
  cases h with
  | nil => exact absurd rfl hne
  | @cons l l' ls0 ls'' hl _ =>
    obtain ⟨t, q, ht, _, hte, _, _⟩ := hl
    unfold lineSum
    have hm : t ∈ (l' :: ls'').filterMap (·.total) := by simp [List.filterMap_cons, ht]
    have := foldl_accum_exp_ge_mem _ ⟨0, c⟩ t hm
    omega

/-! ## unpacking `pre` and `calculate` -/

/-- sum − discounts + charges as `calculate` assembles it -/
def total2Of (sum : Amount) (dsum csum : Option Amount) : Amount :=
  match csum with
  | some x => add exactOps (match dsum with | some x => sub exactOps sum x | none => sum) x
  | none => (match dsum with | some x => sub exactOps sum x | none => sum)

theorem pre_unpack (d : Doc) (p : Pre) (h : pre exactOps d = .ok p) :
    ∃ lines, calcLines exactOps d.cur d.c d.rates d.rule d.lines = .ok lines ∧ p.lines = lines ∧
      p.sum = lineSum exactOps d.c lines ∧
      p.discounts = d.discounts.map (docAdj exactOps d.rule d.c (lineSum exactOps d.c lines)) ∧
      p.charges = d.charges.map (docAdj exactOps d.rule d.c (lineSum exactOps d.c lines)) ∧
      p.dsum = adjSum exactOps d.c p.discounts ∧ p.csum = adjSum exactOps d.c p.charges ∧
      p.total2 = total2Of p.sum p.dsum p.csum ∧
      p.rows = taxRows lines p.discounts p.charges := by
  unfold pre at h
  cases hl : calcLines exactOps d.cur d.c d.rates d.rule d.lines with
  | error e => simp [hl] at h
  | ok lines =>
    simp only [hl] at h
    injection h with h
    subst h
    exact ⟨lines, rfl, rfl, rfl, rfl, rfl, rfl, rfl, rfl, rfl⟩

/-- a successful calculation that produced totals went through `pre`, the tax summary and
`finish`; the presented totals are `roundTotals` of the working totals `rawTotals` -/
theorem calculate_unpack (d : Doc) (out : Out) (t : Totals)
    (hcalc : calculate exactOps d = .ok out) (ht : out.totals = some t) :
    ∃ p tx, pre exactOps d = .ok p ∧ taxTotal exactOps d.rule d.c d.includes p.rows = .ok tx ∧
      out = finish exactOps d p tx ∧ t = roundTotals exactOps d.c (rawTotals exactOps d p tx) := by
  unfold calculate at hcalc
  cases hpre : pre exactOps d with
  | error e => simp [hpre] at hcalc
  | ok p =>
    simp only [hpre] at hcalc
    split at hcalc
    · injection hcalc with hcalc
      rw [← hcalc] at ht
      simp at ht
    · cases htx : taxTotal exactOps d.rule d.c d.includes p.rows with
      | error e => simp [htx] at hcalc
      | ok tx =>
        simp only [htx] at hcalc
        injection hcalc with hcalc
        refine ⟨p, tx, rfl, htx, hcalc.symm, ?_⟩
        rw [← hcalc] at ht
        simp only [finish, Option.some.injEq] at ht
        exact ht.symm

/-! ## sum − discounts + charges -/

theorem total2_toRat (sum : Amount) (dsum csum : Option Amount)
    (hde : ∀ s, dsum = some s → s.exp ≤ sum.exp) (hce : ∀ s, csum = some s → s.exp ≤ sum.exp) :
    (total2Of sum dsum csum).exp = sum.exp ∧
    (total2Of sum dsum csum).toRat = sum.toRat - optQ dsum + optQ csum := by
  unfold total2Of
  cases dsum with
  | none =>
    cases csum with
    | none => simp [optQ]
    | some y =>
      simp only [optQ, Option.map_none, Option.getD_none, Option.map_some, Option.getD_some, add_exp, true_and]
      rw [add_toRat _ _ (hce y rfl)]; ring
  | some x =>
    have hx1 : (sub exactOps sum x).exp = sum.exp := rfl
    cases csum with
    | none =>
      simp only [optQ, Option.map_none, Option.getD_none, Option.map_some, Option.getD_some, sub_exp, true_and]
      rw [sub_toRat _ _ (hde x rfl)]; ring
    | some y =>
      simp only [optQ, Option.map_some, Option.getD_some, add_exp, sub_exp, true_and]
      rw [add_toRat _ _ (by rw [hx1]; exact hce y rfl), sub_toRat _ _ (hde x rfl)]

theorem total2_bound (sumR S P Q D C n kd kc h : ℚ) (hS : |sumR - S| ≤ n * h) (hD : |D - sumR * P| ≤ kd * h)
    (hC : |C - sumR * Q| ≤ kc * h) (hP : |P| ≤ kd) (hQ : |Q| ≤ kc) (hh : 0 ≤ h) (hn : 0 ≤ n) :
    |sumR - D + C - S * (1 - P + Q)| ≤ (n * (1 + kd + kc) + kd + kc) * h := by
  have hkd : 0 ≤ kd := le_trans (abs_nonneg _) hP
  have hkc : 0 ≤ kc := le_trans (abs_nonneg _) hQ
  have hfac : |1 - P + Q| ≤ 1 + kd + kc := by
    have a1 := abs_add_le (1 - P) Q
    have a2 := abs_sub (1 : ℚ) P
    simp only [abs_one] at a2
    linarith
  have e : sumR - D + C - S * (1 - P + Q) = (sumR - S) * (1 - P + Q) - (D - sumR * P) + (C - sumR * Q) := by ring
  rw [e]
  have b1 : |(sumR - S) * (1 - P + Q)| ≤ (n * h) * (1 + kd + kc) := by
    rw [abs_mul]
    exact mul_le_mul hS hfac (abs_nonneg _) (by positivity)
  have t1 := abs_add_le ((sumR - S) * (1 - P + Q) - (D - sumR * P)) (C - sumR * Q)
  have t2 := abs_sub ((sumR - S) * (1 - P + Q)) (D - sumR * P)
  nlinarith

/-- a working value within N ≤ 99 half-units of the working precision of `q` is presented less
than one minor unit from `q` -/
theorem within_unit (c : ℕ) (a : Amount) (q N : ℚ) (hN : N ≤ 99) (h : |a.toRat - q| ≤ N * halfUlp (c + 2)) :
    |(a.rescaleX c).toRat - q| < 1 / ((pow10 c : ℤ) : ℚ) := by
  have h1 := rescaleX_err a c
  have hp := p10q_pos c
  have hp2 : ((pow10 (c + 2) : ℤ) : ℚ) = ((pow10 c : ℤ) : ℚ) * 100 := by
    unfold pow10; push_cast; ring
  have hu2 : halfUlp (c + 2) = 1 / (200 * ((pow10 c : ℤ) : ℚ)) := by
    unfold halfUlp; rw [hp2]; ring
  have hu : halfUlp c = 1 / (2 * ((pow10 c : ℤ) : ℚ)) := rfl
  calc |(a.rescaleX c).toRat - q|
      = |((a.rescaleX c).toRat - a.toRat) + (a.toRat - q)| := by ring_nf
    _ ≤ halfUlp c + N * halfUlp (c + 2) := le_trans (abs_add_le _ _) (add_le_add h1 h)
    _ ≤ 1 / (2 * ((pow10 c : ℤ) : ℚ)) + 99 * (1 / (200 * ((pow10 c : ℤ) : ℚ))) := by
        rw [hu2]
        have hpos200 : (0 : ℚ) ≤ 1 / (200 * ((pow10 c : ℤ) : ℚ)) := by positivity
        have := mul_le_mul_of_nonneg_right hN hpos200
        linarith
    _ < 1 / ((pow10 c : ℤ) : ℚ) := by
        rw [div_add' _ _ _ (by positivity), ← sub_pos]
        field_simp
        ring_nf
        positivity

/-! ## the exact side: projections of `Spec.C01.exactQ` -/

theorem exactQ_sum (d : Doc) :
    (Spec.C01.exactQ d).sum = (d.lines.filterMap (Spec.C01.lineTotalQ d.cur d.rates)).sum := by
  simp [Spec.C01.exactQ, List.filterMap_map, Function.comp_def]

theorem exactQ_discount (d : Doc) :
    (Spec.C01.exactQ d).discount = (d.discounts.map (Spec.C01.docAdjQ (Spec.C01.exactQ d).sum)).sum := by
  simp [Spec.C01.exactQ, List.map_map, Function.comp_def]

theorem exactQ_charge (d : Doc) :
    (Spec.C01.exactQ d).charge = (d.charges.map (Spec.C01.docAdjQ (Spec.C01.exactQ d).sum)).sum := by
  simp [Spec.C01.exactQ, List.map_map, Function.comp_def]

theorem docAdjQ_pct (s : ℚ) (x : DocAdj) (hx : PctOnly x) : Spec.C01.docAdjQ s x = s * pctQ x := by
  obtain ⟨p, hp, hz, hb, _⟩ := hx
  have hz' : (p.amount.value == 0) = false := hz
  simp [Spec.C01.docAdjQ, hp, hb, hz', pctQ, Spec.C01.pq]

theorem docAdjQ_sum_pct (s : ℚ) (xs : List DocAdj) (hx : ∀ x ∈ xs, PctOnly x) :
    (xs.map (Spec.C01.docAdjQ s)).sum = s * (xs.map pctQ).sum := by
  induction xs with
  | nil => simp
  | cons x xs ih =>
    simp only [List.map_cons, List.sum_cons]
    rw [ih (fun y hy => hx y (by simp [hy])), docAdjQ_pct s x (hx x (by simp))]
    ring

theorem exactQ_inc_none (d : Doc) (h : d.includes = none) : (Spec.C01.exactQ d).taxIncluded = 0 := by
  simp only [Spec.C01.exactQ, h, Spec.C01.rowTaxQ, List.map_map, Function.comp_def]
  simp [Function.comp_def]

theorem exactQ_total (d : Doc) :
    (Spec.C01.exactQ d).total = (Spec.C01.exactQ d).sum - (Spec.C01.exactQ d).discount
      + (Spec.C01.exactQ d).charge - (Spec.C01.exactQ d).taxIncluded := rfl

/-! ## the document class of step 1 and what `pre` guarantees for it -/

/-- a document-level discount / charge of the covered class: a non-zero percentage of at most
100 % of the document sum or of an explicit base (base with at most currency + 2 decimals), or a
fixed amount (no percentage, or a zero one) with at most currency + 2 decimals -/
def DocAdjOk (c : ℕ) (x : DocAdj) : Prop :=
  (∃ p, x.percent = some p ∧ pctIsZero p = false ∧ |p.amount.toRat| ≤ 1 ∧
    (x.base = none ∨ ∃ b, x.base = some b ∧ b.exp ≤ c + 2)) ∨
  ((x.percent = none ∨ ∃ p, x.percent = some p ∧ pctIsZero p = true) ∧ x.amount.exp ≤ c + 2)

theorem PctOnly.ok {x : DocAdj} (c : ℕ) (h : PctOnly x) : DocAdjOk c x := by
  obtain ⟨p, hp, hz, hb, hle⟩ := h
  exact Or.inl ⟨p, hp, hz, hle, Or.inl hb⟩

/-- one document discount / charge: not finer than the sum, and within |sum − S| + ½ulp of its
exact value on the exact sum `S` -/
theorem docAdj_ok (c : ℕ) (sum : Amount) (x : DocAdj) (hx : DocAdjOk c x) (hs : c + 2 ≤ sum.exp) (S : ℚ) :
    (docAdj exactOps .precise c sum x).amount.exp ≤ sum.exp ∧
    |(docAdj exactOps .precise c sum x).amount.toRat - Spec.C01.docAdjQ S x| ≤
      |sum.toRat - S| + halfUlp (c + 2) := by
  have h0 := halfUlp_nonneg (c + 2)
  have ha := abs_nonneg (sum.toRat - S)
  rcases hx with ⟨p, hp, hz, hle, hb | ⟨b, hb, hbe⟩⟩ | ⟨hp, he⟩
  · have hval : (docAdj exactOps .precise c sum x).amount = sum.mulX p.amount := by
      simp only [docAdj, hp, hz, hb, applyRule, pctOf, exact_mul, Bool.false_eq_true, if_false]
      exact up_self _ c (by rw [mulX_exp]; omega)
    have hz' : (p.amount.value == 0) = false := hz
    have hq : Spec.C01.docAdjQ S x = S * p.amount.toRat := by
      simp [Spec.C01.docAdjQ, hp, hb, hz', Spec.C01.pq]
    rw [hval, hq]
    refine ⟨le_of_eq rfl, ?_⟩
    have h1 := le_trans (mulX_err sum p.amount) (halfUlp_mono _ _ hs)
    have e : (sum.mulX p.amount).toRat - S * p.amount.toRat =
        ((sum.mulX p.amount).toRat - sum.toRat * p.amount.toRat) + (sum.toRat - S) * p.amount.toRat := by ring
    rw [e]
    refine le_trans (abs_add_le _ _) ?_
    have h2 : |(sum.toRat - S) * p.amount.toRat| ≤ |sum.toRat - S| := by
      rw [abs_mul]
      calc |sum.toRat - S| * |p.amount.toRat| ≤ |sum.toRat - S| * 1 :=
            mul_le_mul_of_nonneg_left hle (abs_nonneg _)
        _ = |sum.toRat - S| := mul_one _
    linarith
  · have hu : up (up b (c + E)) c = up b (c + E) := up_self _ _ (by rw [up_exp]; omega)
    have hval : (docAdj exactOps .precise c sum x).amount = (up b (c + E)).mulX p.amount := by
      simp only [docAdj, hp, hz, hb, applyRule, pctOf, exact_mul, Bool.false_eq_true, if_false, hu]
      exact up_self _ c (by rw [mulX_exp, up_exp]; omega)
    have hz' : (p.amount.value == 0) = false := hz
    have hq : Spec.C01.docAdjQ S x = b.toRat * p.amount.toRat := by
      simp [Spec.C01.docAdjQ, hp, hb, hz', Spec.C01.pq]
    rw [hval, hq]
    refine ⟨by simp only [mulX_exp, up_exp, E]; omega, ?_⟩
    have h1 := mulX_err (up b (c + E)) p.amount
    rw [up_toRat] at h1
    have h2 : halfUlp (up b (c + E)).exp ≤ halfUlp (c + 2) := halfUlp_mono _ _ (by simp only [up_exp, E]; omega)
    linarith
  · have hval : (docAdj exactOps .precise c sum x).amount = up x.amount c := by
      rcases hp with hp | ⟨p, hp, hz⟩
      · simp only [docAdj, hp, applyRule]
      · simp only [docAdj, hp, hz, applyRule, if_true]
    have hq : Spec.C01.docAdjQ S x = x.amount.toRat := by
      rcases hp with hp | ⟨p, hp, hz⟩
      · simp [Spec.C01.docAdjQ, hp]
      · have hz' : (p.amount.value == 0) = true := hz
        simp [Spec.C01.docAdjQ, hp, hz']
    rw [hval, hq, up_toRat, up_exp]
    refine ⟨by omega, ?_⟩
    simp only [sub_self, abs_zero]
    linarith

/-- the discount / charge total: never finer than the sum, every row within |sum − S| + ½ulp -/
theorem adjSum_ok (c : ℕ) (sum : Amount) (xs : List DocAdj) (S : ℚ) (hx : ∀ x ∈ xs, DocAdjOk c x)
    (hs : c + 2 ≤ sum.exp) :
    (∀ s, adjSum exactOps c (xs.map (docAdj exactOps .precise c sum)) = some s → s.exp ≤ sum.exp) ∧
    |optQ (adjSum exactOps c (xs.map (docAdj exactOps .precise c sum))) - (xs.map (Spec.C01.docAdjQ S)).sum| ≤
      xs.length * (|sum.toRat - S| + halfUlp (c + 2)) := by
  constructor
  · intro s h
    unfold adjSum at h
    split at h
    · simp at h
    · injection h with h
      rw [← h]
      apply foldl_accum_exp_le _ _ _ (show c ≤ sum.exp by omega)
      intro y hy
      simp only [List.mem_map] at hy
      obtain ⟨a, ha, rfl⟩ := hy
      obtain ⟨x, hxm, rfl⟩ := ha
      exact (docAdj_ok c sum x (hx x hxm) hs S).1
  · have hq : optQ (adjSum exactOps c (xs.map (docAdj exactOps .precise c sum))) =
        (xs.map (fun x => (docAdj exactOps .precise c sum x).amount.toRat)).sum := by
      unfold optQ adjSum
      split
      · rename_i he
        have : xs.map (docAdj exactOps .precise c sum) = [] := by simpa using he
        have hxs : xs = [] := by simpa using this
        simp [hxs]
      · simp only [Option.map_some, Option.getD_some]
        rw [foldl_accum_toRat]
        simp [Amount.toRat, List.map_map, Function.comp_def]
    rw [hq]
    exact list_sum_diff_le xs _ _ _ (fun x hxm => (docAdj_ok c sum x (hx x hxm) hs S).2)

/-- precise rule, at least one line, every line of the class `AdjLine`, every document discount
and charge of the class `DocAdjOk` -/
structure DocA (d : Doc) : Prop where
  rule : d.rule = .precise
  ne : d.lines ≠ []
  lines : ∀ l ∈ d.lines, AdjLine d.c l
  discounts : ∀ x ∈ d.discounts, DocAdjOk d.c x
  charges : ∀ x ∈ d.charges, DocAdjOk d.c x


/-- the sum alone needs nothing about the document-level discounts and charges -/
theorem pre_sum_spec (d : Doc) (p : Pre) (hr : d.rule = .precise) (hlines : ∀ l ∈ d.lines, AdjLine d.c l)
    (h : pre exactOps d = .ok p) :
    |p.sum.toRat - (Spec.C01.exactQ d).sum| ≤ (sumW d.lines : ℚ) * halfUlp (d.c + 2) := by
  obtain ⟨lines, hl, hpl, hsum, _⟩ := pre_unpack d p h
  rw [hr] at hl
  subst hpl
  have hrel := calcLines_rel d.cur d.c d.rates d.lines p.lines hlines hl
  have hS := rel_sum d.cur d.c d.rates _ _ hrel
  have hsq : p.sum.toRat = ((p.lines.filterMap (·.total)).map Amount.toRat).sum := by
    rw [hsum]; unfold lineSum; rw [foldl_accum_toRat]; simp [Amount.toRat]
  rw [← hsq, ← exactQ_sum] at hS
  exact hS

theorem pre_spec (d : Doc) (p : Pre) (hd : DocA d) (h : pre exactOps d = .ok p) :
    List.Forall₂ (LineRel d.cur d.rates d.c) d.lines p.lines ∧
    p.sum = lineSum exactOps d.c p.lines ∧ d.c + 2 ≤ p.sum.exp ∧
    |p.sum.toRat - (Spec.C01.exactQ d).sum| ≤ (sumW d.lines : ℚ) * halfUlp (d.c + 2) ∧
    p.discounts = d.discounts.map (docAdj exactOps .precise d.c p.sum) ∧
    p.charges = d.charges.map (docAdj exactOps .precise d.c p.sum) ∧
    p.rows = taxRows p.lines p.discounts p.charges ∧
    p.total2.exp = p.sum.exp ∧
    |p.total2.toRat - ((Spec.C01.exactQ d).sum - (Spec.C01.exactQ d).discount + (Spec.C01.exactQ d).charge)| ≤
      (totalW d : ℚ) * halfUlp (d.c + 2) := by
  obtain ⟨lines, hl, hpl, hsum, hdis, hch, hds, hcs, ht2, hrows⟩ := pre_unpack d p h
  rw [hd.rule] at hl hdis hch
  subst hpl
  rw [← hsum] at hdis hch
  have hrel := calcLines_rel d.cur d.c d.rates d.lines p.lines hd.lines hl
  have hsexp : d.c + 2 ≤ p.sum.exp := by rw [hsum]; exact rel_sum_exp d.cur d.c d.rates _ _ hrel hd.ne
  have hS := rel_sum d.cur d.c d.rates _ _ hrel
  have hsq : p.sum.toRat = ((p.lines.filterMap (·.total)).map Amount.toRat).sum := by
    rw [hsum]; unfold lineSum; rw [foldl_accum_toRat]; simp [Amount.toRat]
  rw [← hsq, ← exactQ_sum] at hS
  obtain ⟨hde, hdq⟩ := adjSum_ok d.c p.sum d.discounts (Spec.C01.exactQ d).sum hd.discounts hsexp
  obtain ⟨hce, hcq⟩ := adjSum_ok d.c p.sum d.charges (Spec.C01.exactQ d).sum hd.charges hsexp
  rw [← hdis] at hde hdq
  rw [← hch] at hce hcq
  rw [← hds] at hde hdq
  rw [← hcs] at hce hcq
  obtain ⟨te, tq⟩ := total2_toRat p.sum p.dsum p.csum hde hce
  rw [← ht2] at te tq
  refine ⟨hrel, hsum, hsexp, hS, hdis, hch, hrows, te, ?_⟩
  rw [tq, exactQ_discount, exactQ_charge]
  have h0 := halfUlp_nonneg (d.c + 2)
  have hkd : (0 : ℚ) ≤ (d.discounts.length : ℚ) := by positivity
  have hkc : (0 : ℚ) ≤ (d.charges.length : ℚ) := by positivity
  set S := (Spec.C01.exactQ d).sum
  set D := (d.discounts.map (Spec.C01.docAdjQ S)).sum
  set C := (d.charges.map (Spec.C01.docAdjQ S)).sum
  have hrow : |p.sum.toRat - S| + halfUlp (d.c + 2) ≤ (1 + (sumW d.lines : ℚ)) * halfUlp (d.c + 2) := by linarith
  have hdq' := le_trans hdq (mul_le_mul_of_nonneg_left hrow hkd)
  have hcq' := le_trans hcq (mul_le_mul_of_nonneg_left hrow hkc)
  have e : p.sum.toRat - optQ p.dsum + optQ p.csum - (S - D + C) =
      (p.sum.toRat - S) - (optQ p.dsum - D) + (optQ p.csum - C) := by ring
  rw [e]
  have t1 := abs_add_le ((p.sum.toRat - S) - (optQ p.dsum - D)) (optQ p.csum - C)
  have t2 := abs_sub (p.sum.toRat - S) (optQ p.dsum - D)
  unfold totalW
  push_cast
  nlinarith

/-! ## the tax summary under the precise rule, prices not including tax -/

theorem list_sum_diff_le' {α : Type} (xs : List α) (f g B : α → ℚ)
    (h : ∀ x ∈ xs, |f x - g x| ≤ B x) : |(xs.map f).sum - (xs.map g).sum| ≤ (xs.map B).sum := by
  induction xs with
  | nil => simp
  | cons x xs ih =>
    have h1 := h x (by simp)
    have h2 := ih (fun y hy => h y (by simp [hy]))
    simp only [List.map_cons, List.sum_cons]
    have : f x + (xs.map f).sum - (g x + (xs.map g).sum) = (f x - g x) + ((xs.map f).sum - (xs.map g).sum) := by ring
    rw [this]
    refine le_trans (abs_add_le _ _) ?_
    linarith

theorem sum_map_mul_const {α : Type} (xs : List α) (f : α → ℕ) (h : ℚ) :
    (xs.map (fun x => ((f x : ℕ) : ℚ) * h)).sum = (((xs.map f).sum : ℕ) : ℚ) * h := by
  induction xs with
  | nil => simp
  | cons x xs ih => simp only [List.map_cons, List.sum_cons, ih]; push_cast; ring

theorem amtEq_toRat (a b : Amount) (h : amtEq a b = true) : a.toRat = b.toRat := by
  unfold amtEq at h
  simp only at h
  generalize he : (if b.exp > a.exp then b.exp else a.exp) = e at h
  have hv : (up a e).value = (up b e).value := by simpa using h
  have hx : (up a e).exp = (up b e).exp := by
    rw [up_exp, up_exp]; split at he <;> omega
  rw [← up_toRat a e, ← up_toRat b e]
  unfold Amount.toRat
  rw [hv, hx]

/-- surcharge percentage of a rate group / of a combo (0 when there is none) -/
def surO (o : Option (Pct × Amount)) : ℚ := match o with | some (sp, _) => sp.amount.toRat | none => 0
def surR (rt : RateTotal) : ℚ := surO rt.surcharge
def surC (cb : Combo) : ℚ := match cb.surcharge with | some sp => sp.amount.toRat | none => 0

theorem rtMatches_percent (rt : RateTotal) (cb : Combo) (h : rtMatches rt cb = true) :
    (rt.percent = none ∧ cb.percent = none) ∨
    ∃ p q, rt.percent = some p ∧ cb.percent = some q ∧ p.amount.toRat = q.amount.toRat ∧ surR rt = surC cb := by
  unfold rtMatches at h
  split at h
  · simp at h
  · split at h
    · simp at h
    · cases hp : rt.percent with
      | none =>
        cases hq : cb.percent with
        | none => exact Or.inl ⟨rfl, rfl⟩
        | some q => simp [hp, hq] at h
      | some p =>
        cases hq : cb.percent with
        | none => simp [hp, hq] at h
        | some q =>
          simp only [hp, hq, Bool.and_eq_true] at h
          refine Or.inr ⟨p, q, rfl, rfl, amtEq_toRat _ _ h.2, ?_⟩
          have h1 := h.1
          unfold surR surO surC
          cases hs : rt.surcharge with
          | none =>
            cases hc : cb.surcharge with
            | none => rfl
            | some sq => simp [hs, hc] at h1
          | some x =>
            obtain ⟨sp, sa⟩ := x
            cases hc : cb.surcharge with
            | none => simp [hs, hc] at h1
            | some sq =>
              simp only [hs, hc] at h1
              exact amtEq_toRat _ _ h1

variable {ret : String → Bool}

/-- a tax combo of the covered class: exempt or a percentage of at most 100 % in magnitude, with
or without a surcharge of at most 100 %; whether it is retained (subtracted) is a function `ret` of
its category alone -/
def ComboOk (ret : String → Bool) (cb : Combo) : Prop :=
  cb.retained = ret cb.cat ∧ (∀ p, cb.percent = some p → |p.amount.toRat| ≤ 1) ∧
  (∀ sp, cb.surcharge = some sp → |sp.amount.toRat| ≤ 1)

/-- magnitude of the exact tax of one combo on a row total `t` -/
def comboU (t : ℚ) (cb : Combo) : ℚ :=
  match cb.percent with
  | some p => t * (p.amount.toRat + surC cb)
  | none => 0

/-- … signed: retained taxes are subtracted -/
def comboQ (t : ℚ) (cb : Combo) : ℚ := if cb.retained then -(comboU t cb) else comboU t cb


/-- the exact tax of a row with total `t` (prices not including tax), as `Spec.C01.exactQ` has it -/
def rowQ (t : ℚ) (taxes : List Combo) : ℚ := (Spec.C01.rowTaxQ none t taxes).1

theorem rowQ_eq (t : ℚ) (taxes : List Combo) : rowQ t taxes = (taxes.map (comboQ t)).sum := by
  unfold rowQ Spec.C01.rowTaxQ
  simp only
  congr 1
  apply List.map_congr_left
  intro cb _
  unfold comboQ comboU surC
  cases hp : cb.percent with
  | none => simp
  | some p => cases hs : cb.surcharge <;> simp [Spec.C01.pq]

theorem surC_le (cb : Combo) (h : ComboOk ret cb) : |surC cb| ≤ ((cW cb : ℕ) : ℚ) - 1 := by
  unfold surC cW
  cases hs : cb.surcharge with
  | none => simp
  | some sp =>
    have := h.2.2 sp hs
    simp only [Option.isSome_some, if_true]
    push_cast
    linarith

theorem comboQ_diff (T t : ℚ) (cb : Combo) (h : ComboOk ret cb) :
    |comboQ T cb - comboQ t cb| ≤ ((cW cb : ℕ) : ℚ) * |T - t| := by
  have hu : |comboU T cb - comboU t cb| ≤ ((cW cb : ℕ) : ℚ) * |T - t| := by
    unfold comboU
    cases hp : cb.percent with
    | none => simp only [sub_self, abs_zero]; positivity
    | some p =>
      simp only
      have hle := h.2.1 p hp
      have hsl := surC_le cb h
      have e : T * (p.amount.toRat + surC cb) - t * (p.amount.toRat + surC cb) =
          (T - t) * (p.amount.toRat + surC cb) := by ring
      rw [e, abs_mul, mul_comm]
      have hsum : |p.amount.toRat + surC cb| ≤ ((cW cb : ℕ) : ℚ) := by
        have := abs_add_le p.amount.toRat (surC cb)
        linarith
      exact mul_le_mul_of_nonneg_right hsum (abs_nonneg _)
  unfold comboQ
  split
  · have e : -(comboU T cb) - -(comboU t cb) = -(comboU T cb - comboU t cb) := by ring
    rw [e, abs_neg]; exact hu
  · exact hu

theorem rowQ_diff (T t : ℚ) (taxes : List Combo) (h : ∀ cb ∈ taxes, ComboOk ret cb) :
    |rowQ T taxes - rowQ t taxes| ≤ (comboW taxes : ℚ) * |T - t| := by
  rw [rowQ_eq T taxes, rowQ_eq t taxes]
  have := list_sum_diff_le' taxes (comboQ T) (comboQ t) (fun cb => ((cW cb : ℕ) : ℚ) * |T - t|)
    (fun cb hcb => comboQ_diff T t cb (h cb hcb))
  exact le_trans this (le_of_eq (sum_map_mul_const taxes cW _))

def rateQ (rt : RateTotal) : ℚ :=
  match rt.percent with
  | some p => rt.base.toRat * (p.amount.toRat + surR rt)
  | none => 0

def ratesQ (rts : List RateTotal) : ℚ := (rts.map rateQ).sum
/-- retained categories count negatively -/
def catsQ (cats : List CatTotal) : ℚ :=
  (cats.map (fun ct => if ct.retained then -(ratesQ ct.rates) else ratesQ ct.rates)).sum

/-- every group has a base between the working precision and `E` -/
def RatesInv (c E : ℕ) (rts : List RateTotal) : Prop :=
  ∀ rt ∈ rts, c + 2 ≤ rt.base.exp ∧ rt.base.exp ≤ E

theorem base_step_precise (base t : Amount) :
    (add exactOps (mrp .precise base t) t).toRat = base.toRat + t.toRat ∧
    (add exactOps (mrp .precise base t) t).exp = max base.exp t.exp := by
  refine ⟨?_, step_exp_precise .precise (by decide) base t⟩
  have := (base_step .precise 0 base t (fun h => by cases h)).1
  simpa [contrib] using this

theorem rateQ_new (c : ℕ) (cb : Combo) (b : Amount) :
    rateQ { newRate c cb with base := b } = comboU b.toRat cb := by
  unfold rateQ comboU surR surO surC newRate
  cases cb.percent <;> cases cb.surcharge <;> rfl

theorem addToRates_w (c E : ℕ) (cb : Combo) (t : Amount) (rts : List RateTotal)
    (ht1 : c + 2 ≤ t.exp) (ht2 : t.exp ≤ E) (hinv : RatesInv c E rts) :
    ratesQ (addToRates exactOps .precise c cb t rts) = ratesQ rts + comboU t.toRat cb ∧
    RatesInv c E (addToRates exactOps .precise c cb t rts) := by
  induction rts with
  | nil =>
    obtain ⟨b1, b2⟩ := base_step_precise ⟨0, c⟩ t
    simp only [addToRates, ratesQ, List.map_cons, List.map_nil, List.sum_cons, List.sum_nil]
    refine ⟨?_, ?_⟩
    · have hb : (newRate c cb).base = ⟨0, c⟩ := rfl
      rw [rateQ_new, hb, b1]
      have hz : (⟨0, c⟩ : Amount).toRat = 0 := by simp [Amount.toRat]
      rw [hz]; simp
    · intro rt hrt
      simp only [List.mem_singleton] at hrt
      subst hrt
      have hb : (newRate c cb).base = ⟨0, c⟩ := rfl
      have hc0 : (⟨0, c⟩ : Amount).exp = c := rfl
      exact ⟨by simp only [hb, b2, hc0]; omega, by simp only [hb, b2, hc0]; omega⟩
  | cons rt rts ih =>
    have hinv' : RatesInv c E rts := fun x hx => hinv x (by simp [hx])
    obtain ⟨he1, he2⟩ := hinv rt (by simp)
    simp only [addToRates]
    split
    · rename_i hm
      obtain ⟨b1, b2⟩ := base_step_precise rt.base t
      refine ⟨?_, ?_⟩
      · simp only [ratesQ, List.map_cons, List.sum_cons]
        have : rateQ { rt with base := add exactOps (mrp .precise rt.base t) t } = rateQ rt + comboU t.toRat cb := by
          rcases rtMatches_percent rt cb hm with ⟨h1, h2⟩ | ⟨p, q, h1, h2, h3, h4⟩
          · simp [rateQ, comboU, h1, h2]
          · unfold surR at h4
            simp only [rateQ, comboU, h1, h2, b1, h3, surR, h4]; ring
        rw [this]; ring
      · intro x hx
        simp only [List.mem_cons] at hx
        rcases hx with rfl | hx
        · exact ⟨by simp only [b2]; omega, by simp only [b2]; omega⟩
        · exact hinv' x hx
    · obtain ⟨i1, i2⟩ := ih hinv'
      refine ⟨?_, ?_⟩
      · simp only [ratesQ, List.map_cons, List.sum_cons] at i1 ⊢
        rw [i1]; ring
      · intro x hx
        simp only [List.mem_cons] at hx
        rcases hx with rfl | hx
        · exact hinv x (by simp)
        · exact i2 x hx

def CatsInv (ret : String → Bool) (c E : ℕ) (cats : List CatTotal) : Prop :=
  ∀ ct ∈ cats, ct.retained = ret ct.code ∧ RatesInv c E ct.rates

theorem addToCats_w (c E : ℕ) (cb : Combo) (t : Amount) (cats : List CatTotal)
    (hcb : ComboOk ret cb) (ht1 : c + 2 ≤ t.exp) (ht2 : t.exp ≤ E) (hinv : CatsInv ret c E cats) :
    catsQ (addToCats exactOps .precise c cb t cats) = catsQ cats + comboQ t.toRat cb ∧
    CatsInv ret c E (addToCats exactOps .precise c cb t cats) := by
  induction cats with
  | nil =>
    obtain ⟨h1, h2⟩ := addToRates_w c E cb t [] ht1 ht2 (fun _ h => by simp at h)
    simp only [addToCats, catsQ, List.map_cons, List.map_nil, List.sum_cons, List.sum_nil]
    refine ⟨?_, ?_⟩
    · rw [h1]; simp [ratesQ, comboQ]
    · intro ct hct
      simp only [List.mem_singleton] at hct
      subst hct
      exact ⟨hcb.1, h2⟩
  | cons ct cts ih =>
    have hinv' : CatsInv ret c E cts := fun x hx => hinv x (by simp [hx])
    simp only [addToCats]
    split
    · rename_i hcode
      have hcode' : ct.code = cb.cat := by simpa using hcode
      have hsame : ct.retained = cb.retained := by rw [(hinv ct (by simp)).1, hcb.1, hcode']
      obtain ⟨h1, h2⟩ := addToRates_w c E cb t ct.rates ht1 ht2 (hinv ct (by simp)).2
      refine ⟨?_, ?_⟩
      · simp only [catsQ, List.map_cons, List.sum_cons, h1, comboQ, hsame]
        split <;> ring
      · intro x hx
        simp only [List.mem_cons] at hx
        rcases hx with rfl | hx
        · exact ⟨(hinv ct (by simp)).1, h2⟩
        · exact hinv' x hx
    · obtain ⟨i1, i2⟩ := ih hinv'
      refine ⟨?_, ?_⟩
      · simp only [catsQ, List.map_cons, List.sum_cons] at i1 ⊢
        rw [i1]; ring
      · intro x hx
        simp only [List.mem_cons] at hx
        rcases hx with rfl | hx
        · exact hinv x (by simp)
        · exact i2 x hx

theorem foldCombos_w (c E : ℕ) (t : Amount) (cbs : List Combo) (cats : List CatTotal)
    (hcb : ∀ cb ∈ cbs, ComboOk ret cb) (ht1 : cbs ≠ [] → c + 2 ≤ t.exp) (ht2 : t.exp ≤ E) (hinv : CatsInv ret c E cats) :
    catsQ (cbs.foldl (fun cats cb => addToCats exactOps .precise c cb t cats) cats) =
      catsQ cats + (cbs.map (comboQ t.toRat)).sum ∧
    CatsInv ret c E (cbs.foldl (fun cats cb => addToCats exactOps .precise c cb t cats) cats) := by
  induction cbs generalizing cats with
  | nil => simp [hinv]
  | cons cb cbs ih =>
    have ht1' : c + 2 ≤ t.exp := ht1 (by simp)
    obtain ⟨h1, h2⟩ := addToCats_w c E cb t cats (hcb cb (by simp)) ht1' ht2 hinv
    obtain ⟨i1, i2⟩ := ih (addToCats exactOps .precise c cb t cats) (fun x hx => hcb x (by simp [hx])) (fun _ => ht1') h2
    refine ⟨?_, i2⟩
    rw [List.foldl_cons, i1, h1]
    simp only [List.map_cons, List.sum_cons]
    ring

/-- a prepared row of the covered class: combos of the class, total not finer than `E` and, when
it carries combos, at least as fine as the working precision -/
def RowOkP (ret : String → Bool) (c E : ℕ) (rw : Row) : Prop :=
  (∀ cb ∈ rw.taxes, ComboOk ret cb) ∧ (rw.taxes ≠ [] → c + 2 ≤ rw.total.exp) ∧ rw.total.exp ≤ E

/-- a row of the covered class (before `prepareLines`): combos of the class, total not finer than `E` -/
def RowOk (ret : String → Bool) (E : ℕ) (rw : Row) : Prop :=
  (∀ cb ∈ rw.taxes, ComboOk ret cb) ∧ rw.total.exp ≤ E

theorem baseRateTotals_w (c E : ℕ) (rows : List Row) (cats : List CatTotal)
    (hrows : ∀ rw ∈ rows, RowOkP ret c E rw) (hinv : CatsInv ret c E cats) :
    catsQ (rows.foldl (fun cats rw => rw.taxes.foldl (fun cats cb => addToCats exactOps .precise c cb rw.total cats) cats) cats) =
      catsQ cats + (rows.map (fun rw => rowQ rw.total.toRat rw.taxes)).sum ∧
    CatsInv ret c E (rows.foldl (fun cats rw => rw.taxes.foldl (fun cats cb => addToCats exactOps .precise c cb rw.total cats) cats) cats) := by
  induction rows generalizing cats with
  | nil => simp [hinv]
  | cons rw rows ih =>
    obtain ⟨hc, h1, h2⟩ := hrows rw (by simp)
    obtain ⟨f1, f2⟩ := foldCombos_w c E rw.total rw.taxes cats hc h1 h2 hinv
    obtain ⟨i1, i2⟩ := ih _ (fun x hx => hrows x (by simp [hx])) f2
    refine ⟨?_, i2⟩
    rw [List.foldl_cons, i1, f1]
    simp only [List.map_cons, List.sum_cons]
    rw [rowQ_eq]
    ring

/-! ### amounts of the groups, categories and the tax sum -/

theorem rateAmounts_percent (rt : RateTotal) (c : ℕ) : (rateAmounts exactOps rt c).percent = rt.percent := by
  unfold rateAmounts; split <;> simp_all


theorem rateAmounts_rateW (rt : RateTotal) (c : ℕ) : rateW (rateAmounts exactOps rt c) = rateW rt := by
  unfold rateW rateAmounts
  split <;> simp [Option.isSome_map]

/-- what a group adds to the category surcharge -/
def surAmt (rt : RateTotal) : ℚ :=
  match rt.percent, rt.surcharge with
  | some _, some (_, sa) => sa.toRat
  | _, _ => 0

theorem rateAmounts_err (rt : RateTotal) (c E : ℕ) (h1 : c + 2 ≤ rt.base.exp) (h2 : rt.base.exp ≤ E) (hc : c ≤ E) :
    (rateAmounts exactOps rt c).amount.exp ≤ E ∧
    (∀ sp sa, (rateAmounts exactOps rt c).percent.isSome →
      (rateAmounts exactOps rt c).surcharge = some (sp, sa) → sa.exp ≤ E) ∧
    |taxedAmount .precise c (rateAmounts exactOps rt c) + surAmt (rateAmounts exactOps rt c) - rateQ rt| ≤
      (rateW rt : ℚ) * halfUlp (c + 2) := by
  have h0 := halfUlp_nonneg (c + 2)
  have hper := rateAmounts_percent rt c
  cases hp : rt.percent with
  | none =>
    have hamt : (rateAmounts exactOps rt c).amount = ⟨0, c⟩ := by simp [rateAmounts, hp]
    rw [hp] at hper
    refine ⟨by rw [hamt]; exact hc, ?_, ?_⟩
    · intro sp sa hsome; simp [hper] at hsome
    · simp only [taxedAmount, surAmt, rateQ, hper, hp, add_zero, sub_self, abs_zero]
      positivity
  | some p =>
    rw [hp] at hper
    have hamt : (rateAmounts exactOps rt c).amount = rt.base.mulX p.amount := by
      simp [rateAmounts, hp, pctOf]
    have hsur : (rateAmounts exactOps rt c).surcharge =
        rt.surcharge.map (fun x => (x.1, rt.base.mulX x.1.amount)) := by
      simp [rateAmounts, hp, pctOf]
    have e1 := le_trans (mulX_err rt.base p.amount) (halfUlp_mono _ _ h1)
    refine ⟨by rw [hamt]; exact h2, ?_, ?_⟩
    · intro sp sa _ hs
      rw [hsur] at hs
      cases hsr : rt.surcharge with
      | none => simp [hsr] at hs
      | some x =>
        simp only [hsr, Option.map_some, Option.some.injEq, Prod.mk.injEq] at hs
        rw [← hs.2]; exact h2
    · simp only [taxedAmount, surAmt, rateQ, hper, hp, contrib, hamt, hsur, surR, surO, rateW]
      cases hsr : rt.surcharge with
      | none =>
        simp only [Option.map_none, add_zero, Option.isSome_none, Bool.false_eq_true, if_false]
        push_cast
        linarith
      | some x =>
        obtain ⟨sp, sa0⟩ := x
        simp only [Option.map_some, Option.isSome_some, if_true]
        have e2 := le_trans (mulX_err rt.base sp.amount) (halfUlp_mono _ _ h1)
        have e : (rt.base.mulX p.amount).toRat + (rt.base.mulX sp.amount).toRat
            - rt.base.toRat * (p.amount.toRat + sp.amount.toRat) =
            ((rt.base.mulX p.amount).toRat - rt.base.toRat * p.amount.toRat) +
            ((rt.base.mulX sp.amount).toRat - rt.base.toRat * sp.amount.toRat) := by ring
        rw [e]
        refine le_trans (abs_add_le _ _) ?_
        push_cast
        linarith

theorem getD_toRat (zs : Option Amount) (c : ℕ) : (zs.getD ⟨0, c⟩).toRat = optQ zs := by
  cases zs <;> simp [optQ, Amount.toRat]

/-- the category surcharge is the exact sum of the groups' surcharges -/
theorem surchargeFold_spec (c E : ℕ) (rates : List RateTotal) (zs : Option Amount)
    (hz : ∀ s, zs = some s → s.exp ≤ E) (hc : c ≤ E)
    (hsa : ∀ rt ∈ rates, ∀ sp sa, rt.percent.isSome → rt.surcharge = some (sp, sa) → sa.exp ≤ E) :
    optQ (rates.foldl (fun (s : Option Amount) rt =>
      match rt.percent, rt.surcharge with
      | some _, some (_, sa) =>
        let x := s.getD ⟨0, c⟩
        some (add exactOps (mrp .precise x sa) sa)
      | _, _ => s) zs) = optQ zs + (rates.map surAmt).sum ∧
    (∀ s, rates.foldl (fun (s : Option Amount) rt =>
      match rt.percent, rt.surcharge with
      | some _, some (_, sa) =>
        let x := s.getD ⟨0, c⟩
        some (add exactOps (mrp .precise x sa) sa)
      | _, _ => s) zs = some s → s.exp ≤ E) := by
  induction rates generalizing zs with
  | nil => simp only [List.foldl_nil, List.map_nil, List.sum_nil, add_zero, true_and]; exact hz
  | cons rt rates ih =>
    rw [List.foldl_cons]
    have hrest := fun x hx => hsa x (List.mem_cons_of_mem rt hx)
    cases hp : rt.percent with
    | none =>
      obtain ⟨i1, i2⟩ := ih zs hz hrest
      simp only [hp] at i1 i2 ⊢
      refine ⟨?_, i2⟩
      rw [i1]; simp [surAmt, hp]
    | some p =>
      cases hsr : rt.surcharge with
      | none =>
        obtain ⟨i1, i2⟩ := ih zs hz hrest
        simp only [hp, hsr] at i1 i2 ⊢
        refine ⟨?_, i2⟩
        rw [i1]; simp [surAmt, hp, hsr]
      | some x =>
        obtain ⟨sp, sa⟩ := x
        have hsae : sa.exp ≤ E := hsa rt (by simp) sp sa (by simp [hp]) hsr
        obtain ⟨b1, b2⟩ := base_step_precise (zs.getD ⟨0, c⟩) sa
        have hz' : ∀ s, some (add exactOps (mrp .precise (zs.getD ⟨0, c⟩) sa) sa) = some s → s.exp ≤ E := by
          intro s hs
          injection hs with hs
          rw [← hs, b2]
          have : (zs.getD ⟨0, c⟩).exp ≤ E := by
            cases zs with
            | none => exact hc
            | some z => exact hz z rfl
          omega
        obtain ⟨i1, i2⟩ := ih _ hz' hrest
        simp only [hp, hsr] at i1 i2 ⊢
        refine ⟨?_, i2⟩
        rw [i1]
        simp only [optQ, Option.map_some, Option.getD_some, b1, List.map_cons, List.sum_cons, surAmt, hp, hsr]
        rw [getD_toRat]
        simp only [optQ]
        ring

theorem amountFold_exp_le (E : ℕ) (rates : List RateTotal) (z : Amount) (hz : z.exp ≤ E)
    (h : ∀ rt ∈ rates, rt.amount.exp ≤ E) :
    (rates.foldl (fun a rt =>
        match rt.percent with
        | none => a
        | some _ => add exactOps (mrp .precise a rt.amount) rt.amount) z).exp ≤ E := by
  induction rates generalizing z with
  | nil => simpa
  | cons rt rates ih =>
    rw [List.foldl_cons]
    apply ih _ _ (fun x hx => h x (by simp [hx]))
    cases rt.percent with
    | none => exact hz
    | some p =>
      simp only
      rw [step_exp_precise .precise (by decide)]
      have := h rt (by simp)
      omega

theorem sum_map_add {α : Type} (xs : List α) (f g : α → ℚ) :
    (xs.map (fun x => f x + g x)).sum = (xs.map f).sum + (xs.map g).sum := by
  induction xs with
  | nil => simp
  | cons x xs ih => simp only [List.map_cons, List.sum_cons, ih]; ring

/-- one category: amount not finer than `E`, amount + surcharge within one half-unit per rounding
point (group amount, group surcharge) of Σ base × (percentage + surcharge percentage) -/
theorem catAmounts_w (c E : ℕ) (ct : CatTotal) (hinv : RatesInv c E ct.rates) (hc : c ≤ E) :
    (catAmounts exactOps .precise c ct).retained = ct.retained ∧
    (catAmounts exactOps .precise c ct).amount.exp ≤ E ∧
    ratesW (catAmounts exactOps .precise c ct).rates = ratesW ct.rates ∧
    |(catAmounts exactOps .precise c ct).amount.toRat + optQ (catAmounts exactOps .precise c ct).surcharge
      - ratesQ ct.rates| ≤ (ratesW ct.rates : ℚ) * halfUlp (c + 2) := by
  have hrates : (catAmounts exactOps .precise c ct).rates = ct.rates.map (rateAmounts exactOps · c) := rfl
  refine ⟨rfl, ?_, ?_, ?_⟩
  · simp only [catAmounts]
    apply amountFold_exp_le E _ _ hc
    intro rt hrt
    simp only [List.mem_map] at hrt
    obtain ⟨x, hx, rfl⟩ := hrt
    exact (rateAmounts_err x c E (hinv x hx).1 (hinv x hx).2 hc).1
  · rw [hrates]
    unfold ratesW
    rw [List.map_map]
    congr 1
    apply List.map_congr_left
    intro x _
    exact rateAmounts_rateW x c
  · rw [catAmounts_amount]
    have hsur : optQ (catAmounts exactOps .precise c ct).surcharge =
        ((ct.rates.map (rateAmounts exactOps · c)).map surAmt).sum := by
      have := (surchargeFold_spec c E (ct.rates.map (rateAmounts exactOps · c)) none (fun s hs => by cases hs) hc
        (by
          intro rt hrt
          simp only [List.mem_map] at hrt
          obtain ⟨x, hx, rfl⟩ := hrt
          exact (rateAmounts_err x c E (hinv x hx).1 (hinv x hx).2 hc).2.1)).1
      simp only [catAmounts]
      refine this.trans ?_
      simp [optQ]
    rw [hsur, hrates, List.map_map, List.map_map, ← sum_map_add]
    unfold ratesQ ratesW
    have := list_sum_diff_le' ct.rates
      (fun x => (taxedAmount .precise c ∘ (rateAmounts exactOps · c)) x + (surAmt ∘ (rateAmounts exactOps · c)) x)
      rateQ (fun x => ((rateW x : ℕ) : ℚ) * halfUlp (c + 2))
      (fun x hx => (rateAmounts_err x c E (hinv x hx).1 (hinv x hx).2 hc).2.2)
    exact le_trans this (le_of_eq (sum_map_mul_const ct.rates rateW _))

theorem finalSum_exp_le (c E : ℕ) (cats : List CatTotal) (hc : c ≤ E)
    (h : ∀ ct ∈ cats, ct.amount.exp ≤ E) :
    (finalSum exactOps .precise c cats).exp ≤ E := by
  unfold finalSum
  have key : ∀ (cats : List CatTotal) (z : Amount), z.exp ≤ E →
      (∀ ct ∈ cats, ct.amount.exp ≤ E) →
      (cats.foldl (fun s ct =>
        let s1 := mrp .precise s ct.amount
        if ct.retained then
          let s2 := sub exactOps s1 ct.amount
          match ct.surcharge with | some x => sub exactOps s2 x | none => s2
        else
          let s2 := add exactOps s1 ct.amount
          match ct.surcharge with | some x => add exactOps s2 x | none => s2) z).exp ≤ E := by
    intro cats
    induction cats with
    | nil => intro z hz _; simpa
    | cons ct cts ih =>
      intro z hz h
      rw [List.foldl_cons]
      apply ih _ _ (fun x hx => h x (by simp [hx]))
      have he := h ct (by simp)
      simp only [mrp]
      cases ct.surcharge <;> split <;> simp only [sub_exp, add_exp, up_exp] <;> omega
  exact key cats ⟨0, c⟩ hc h


theorem cats_w (c E : ℕ) (cats : List CatTotal) (hinv : CatsInv ret c E cats) (hc : c ≤ E) :
    (finalSum exactOps .precise c (cats.map (catAmounts exactOps .precise c))).exp ≤ E ∧
    groupsOf (cats.map (catAmounts exactOps .precise c)) = groupsOf cats ∧
    |(finalSum exactOps .precise c (cats.map (catAmounts exactOps .precise c))).toRat - catsQ cats| ≤
      (groupsOf cats : ℚ) * halfUlp (c + 2) := by
  have hall : ∀ ct ∈ cats.map (catAmounts exactOps .precise c), ct.amount.exp ≤ E := by
    intro ct hct
    simp only [List.mem_map] at hct
    obtain ⟨x, hx, rfl⟩ := hct
    exact (catAmounts_w c E x (hinv x hx).2 hc).2.1
  have hsx : ∀ ct ∈ cats.map (catAmounts exactOps .precise c), ∀ s, ct.surcharge = some s → s.exp ≤ ct.amount.exp := by
    intro ct hct
    simp only [List.mem_map] at hct
    obtain ⟨x, hx, rfl⟩ := hct
    exact catAmounts_surcharge_exp_le .precise (by decide) c x
  refine ⟨finalSum_exp_le c E _ hc hall, ?_, ?_⟩
  · unfold groupsOf
    rw [List.map_map]
    congr 1
    apply List.map_congr_left
    intro x hx
    exact (catAmounts_w c E x (hinv x hx).2 hc).2.2.1
  · rw [finalSum_toRat .precise (by decide) c _ hsx]
    rw [List.map_map]
    unfold catsQ groupsOf
    have hB : ∀ x ∈ cats, |(catSignedQ ∘ catAmounts exactOps .precise c) x
          - (if x.retained then -(ratesQ x.rates) else ratesQ x.rates)| ≤
        ((ratesW x.rates : ℕ) : ℚ) * halfUlp (c + 2) := by
      intro x hx
      obtain ⟨h1, _, _, h5⟩ := catAmounts_w c E x (hinv x hx).2 hc
      have : catSignedQ (catAmounts exactOps .precise c x) =
          if x.retained then -((catAmounts exactOps .precise c x).amount.toRat + optQ (catAmounts exactOps .precise c x).surcharge)
          else (catAmounts exactOps .precise c x).amount.toRat + optQ (catAmounts exactOps .precise c x).surcharge := by
        unfold catSignedQ
        rw [h1]
        cases (catAmounts exactOps .precise c x).surcharge <;> simp [optQ]
      simp only [Function.comp]
      rw [this]
      split
      · have e : -((catAmounts exactOps .precise c x).amount.toRat + optQ (catAmounts exactOps .precise c x).surcharge)
            - -(ratesQ x.rates) =
            -((catAmounts exactOps .precise c x).amount.toRat + optQ (catAmounts exactOps .precise c x).surcharge
              - ratesQ x.rates) := by ring
        rw [e, abs_neg]; exact h5
      · exact h5
    have := list_sum_diff_le' cats _ (fun x => if x.retained then -(ratesQ x.rates) else ratesQ x.rates)
      (fun x => ((ratesW x.rates : ℕ) : ℚ) * halfUlp (c + 2)) hB
    exact le_trans this (le_of_eq (sum_map_mul_const cats (fun ct => ratesW ct.rates) _))

/-! ### `taxTotal` as a whole -/

theorem prepareRow_ok (c E : ℕ) (rw : Row) (h : RowOk ret E rw) (hE : c + 2 ≤ E) :
    RowOkP ret c E (prepareRow c rw) ∧ (prepareRow c rw).total.toRat = rw.total.toRat ∧
    (prepareRow c rw).taxes = rw.taxes := by
  unfold prepareRow
  split
  · rename_i he
    have : rw.taxes = [] := by simpa using he
    exact ⟨⟨h.1, fun hne => absurd this hne, h.2⟩, rfl, rfl⟩
  · refine ⟨⟨h.1, fun _ => ?_, ?_⟩, up_toRat _ _, rfl⟩
    · simp only [up_exp, Calc.E]; omega
    · have := h.2
      simp only [up_exp, Calc.E]; omega

theorem rescaleX_zero (a : Amount) (c : ℕ) (h : a.value = 0) : (a.rescaleX c).toRat = 0 := by
  have ha : a.toRat = 0 := by unfold Amount.toRat; rw [h]; simp
  have hv := rescaleX_value a c
  rw [ha] at hv
  have : roundTo c 0 = 0 := by
    unfold roundTo
    have := roundHalfAway_int 0
    simpa using this
  unfold Amount.toRat
  rw [hv, this]; simp

theorem precise_roundTax (c : ℕ) (cats : List CatTotal) (fs : Amount) :
    (roundTax exactOps c cats fs).precise.toRat = fs.toRat ∧
    (roundTax exactOps c cats fs).precise.exp ≤ max fs.exp c ∧
    groupsOf (roundTax exactOps c cats fs).cats = groupsOf cats := by
  refine ⟨?_, ?_, ?_⟩
  · unfold TaxTotal.precise roundTax
    simp only
    split
    · rfl
    · rename_i h
      have hz : fs.value = 0 := by simpa using h
      rw [exact_rescale, rescaleX_zero fs c hz]
      unfold Amount.toRat; rw [hz]; simp
  · unfold TaxTotal.precise roundTax
    simp only
    split
    · omega
    · rw [exact_rescale, rescaleX_exp]; omega
  · unfold groupsOf ratesW rateW roundTax
    simp [List.map_map, Function.comp_def, Option.isSome_map]

/-- **the working tax** (precise rule, prices not including tax, rows of the class): not finer
than `E`, and within one half-unit per rate group of Σ rows' exact tax on the *working* row totals -/
theorem taxTotal_w (c E : ℕ) (rows : List Row) (tx : TaxTotal) (hrows : ∀ rw ∈ rows, RowOk ret E rw) (hE : c + 2 ≤ E)
    (h : taxTotal exactOps .precise c none rows = .ok tx) :
    tx.precise.exp ≤ E ∧
    |tx.precise.toRat - (rows.map (fun rw => rowQ rw.total.toRat rw.taxes)).sum| ≤
      (groupsOf tx.cats : ℚ) * halfUlp (c + 2) := by
  have hc : c ≤ E := by omega
  unfold taxTotal at h
  simp only at h
  injection h with h
  have hprep : ∀ rw ∈ rows.map (prepareRow c), RowOkP ret c E rw := by
    intro rw hrw
    simp only [List.mem_map] at hrw
    obtain ⟨x, hx, rfl⟩ := hrw
    exact (prepareRow_ok c E x (hrows x hx) hE).1
  have hsame : ((rows.map (prepareRow c)).map (fun rw => rowQ rw.total.toRat rw.taxes)).sum =
      (rows.map (fun rw => rowQ rw.total.toRat rw.taxes)).sum := by
    rw [List.map_map]
    congr 1
    apply List.map_congr_left
    intro x hx
    obtain ⟨_, h2, h3⟩ := prepareRow_ok c E x (hrows x hx) hE
    simp only [Function.comp, h2, h3]
  obtain ⟨b1, b2⟩ := baseRateTotals_w c E (rows.map (prepareRow c)) [] hprep (fun _ hx => by simp at hx)
  have hb : baseRateTotals exactOps .precise c (rows.map (prepareRow c)) =
      (rows.map (prepareRow c)).foldl (fun cats rw => rw.taxes.foldl (fun cats cb => addToCats exactOps .precise c cb rw.total cats) cats) [] := rfl
  rw [← hb] at b1 b2
  obtain ⟨c1, c2, c3⟩ := cats_w c E _ b2 hc
  obtain ⟨p1, p2, p3⟩ := precise_roundTax c ((baseRateTotals exactOps .precise c (rows.map (prepareRow c))).map (catAmounts exactOps .precise c))
    (finalSum exactOps .precise c ((baseRateTotals exactOps .precise c (rows.map (prepareRow c))).map (catAmounts exactOps .precise c)))
  rw [h] at p1 p2 p3
  refine ⟨by omega, ?_⟩
  rw [p1, p3, c2]
  rw [b1, hsame] at c3
  simpa [catsQ] using c3

/-! ### the tax of a document of the class -/

theorem neg_toRat (a : Amount) : (neg a).toRat = -a.toRat := by
  unfold neg Amount.toRat
  push_cast
  ring

theorem docAdj_taxes (r : Rule) (c : ℕ) (sum : Amount) (x : DocAdj) :
    (docAdj exactOps r c sum x).taxes = x.taxes := by
  unfold docAdj
  simp only
  split
  · split
    · rfl
    · split <;> rfl
  · rfl

/-- step 2's document class: `DocA`, prices not including tax, every tax combo (on lines and on
document discounts / charges) ordinary: not retained, no surcharge, exempt or a percentage ≤ 100 % -/
structure DocT (ret : String → Bool) (d : Doc) : Prop where
  base : DocA d
  inc : d.includes = none
  lineTaxes : ∀ l ∈ d.lines, ∀ cb ∈ l.taxes, ComboOk ret cb
  discTaxes : ∀ x ∈ d.discounts, ∀ cb ∈ x.taxes, ComboOk ret cb
  chTaxes : ∀ x ∈ d.charges, ∀ cb ∈ x.taxes, ComboOk ret cb


theorem exactQ_tax (d : Doc) (h : d.includes = none) :
    (Spec.C01.exactQ d).tax =
      (d.lines.filterMap (fun l => (Spec.C01.lineTotalQ d.cur d.rates l).map (fun t => rowQ t l.taxes))).sum
      + (d.discounts.map (fun x => rowQ (-(Spec.C01.docAdjQ (Spec.C01.exactQ d).sum x)) x.taxes)).sum
      + (d.charges.map (fun x => rowQ (Spec.C01.docAdjQ (Spec.C01.exactQ d).sum x) x.taxes)).sum := by
  simp only [Spec.C01.exactQ, h, rowQ, List.map_append, List.sum_append, List.map_map, List.filterMap_map,
    List.map_filterMap, Function.comp_def, Option.map_map]

theorem rows_sum (lines : List Line) (discounts charges : List DocAdj) :
    ((taxRows lines discounts charges).map (fun rw => rowQ rw.total.toRat rw.taxes)).sum =
      (lines.filterMap (fun l => l.total.map (fun t => rowQ t.toRat l.taxes))).sum
      + (discounts.map (fun x => rowQ (neg x.amount).toRat x.taxes)).sum
      + (charges.map (fun x => rowQ x.amount.toRat x.taxes)).sum := by
  simp only [taxRows, List.map_append, List.sum_append, List.map_map, List.map_filterMap,
    Function.comp_def, Option.map_map]

theorem rel_rows (cur : String) (c : ℕ) (rates : List XRate) (ls ls' : List Line)
    (h : List.Forall₂ (LineRel cur rates c) ls ls') (htx : ∀ l ∈ ls, ∀ cb ∈ l.taxes, ComboOk ret cb) :
    |(ls'.filterMap (fun l => l.total.map (fun t => rowQ t.toRat l.taxes))).sum
      - (ls.filterMap (fun l => (Spec.C01.lineTotalQ cur rates l).map (fun t => rowQ t l.taxes))).sum| ≤
      (linesTaxW ls : ℚ) * halfUlp (c + 2) := by
  induction h with
  | nil => simp [linesTaxW]
  | @cons l l' ls ls' hl _ ih =>
    obtain ⟨t, q, ht, htax, _, hq, herr⟩ := hl
    have ih' := ih (fun x hx => htx x (by simp [hx]))
    simp only [List.filterMap_cons, ht, hq, Option.map_some, List.sum_cons, linesTaxW, List.map_cons, htax]
    have hr := rowQ_diff t.toRat q l.taxes (htx l (by simp))
    set A := (ls'.filterMap (fun l => l.total.map (fun t => rowQ t.toRat l.taxes))).sum
    set B := (ls.filterMap (fun l => (Spec.C01.lineTotalQ cur rates l).map (fun t => rowQ t l.taxes))).sum
    have e : rowQ t.toRat l.taxes + A - (rowQ q l.taxes + B) = (rowQ t.toRat l.taxes - rowQ q l.taxes) + (A - B) := by ring
    rw [e]
    refine le_trans (abs_add_le _ _) ?_
    unfold linesTaxW at ih'
    have hk : (0 : ℚ) ≤ (comboW l.taxes : ℚ) := by positivity
    have := mul_le_mul_of_nonneg_left herr hk
    push_cast
    nlinarith

theorem rel_mem (cur : String) (c : ℕ) (rates : List XRate) (ls ls' : List Line)
    (h : List.Forall₂ (LineRel cur rates c) ls ls') : ∀ l' ∈ ls', ∃ l ∈ ls, LineRel cur rates c l l' := by
  induction h with
  | nil => intro l' hl'; simp at hl'
  | @cons l l' ls ls' hl _ ih =>
    intro x hx
    simp only [List.mem_cons] at hx
    rcases hx with rfl | hx
    · exact ⟨l, by simp, hl⟩
    · obtain ⟨y, hy, hr⟩ := ih x hx
      exact ⟨y, by simp [hy], hr⟩

/-- one document discount / charge against its exact value -/
theorem docAdj_err (c : ℕ) (sum : Amount) (S W : ℚ) (x : DocAdj) (hx : DocAdjOk c x) (hs : c + 2 ≤ sum.exp)
    (hS : |sum.toRat - S| ≤ W * halfUlp (c + 2)) :
    |(docAdj exactOps .precise c sum x).amount.toRat - Spec.C01.docAdjQ S x| ≤ (1 + W) * halfUlp (c + 2) := by
  have := (docAdj_ok c sum x hx hs S).2
  linarith

theorem adjRows_err (c : ℕ) (sum : Amount) (S : ℚ) (W : ℕ) (xs : List DocAdj) (sgn : Bool)
    (hx : ∀ x ∈ xs, DocAdjOk c x) (htx : ∀ x ∈ xs, ∀ cb ∈ x.taxes, ComboOk ret cb) (hs : c + 2 ≤ sum.exp)
    (hS : |sum.toRat - S| ≤ (W : ℚ) * halfUlp (c + 2)) :
    |((xs.map (docAdj exactOps .precise c sum)).map
        (fun x => rowQ (if sgn then (neg x.amount).toRat else x.amount.toRat) x.taxes)).sum
      - (xs.map (fun x => rowQ (if sgn then -(Spec.C01.docAdjQ S x) else Spec.C01.docAdjQ S x) x.taxes)).sum| ≤
      (adjTaxW W xs : ℚ) * halfUlp (c + 2) := by
  rw [List.map_map]
  have hB : ∀ x ∈ xs, |((fun x => rowQ (if sgn then (neg x.amount).toRat else x.amount.toRat) x.taxes) ∘
        docAdj exactOps .precise c sum) x
      - rowQ (if sgn then -(Spec.C01.docAdjQ S x) else Spec.C01.docAdjQ S x) x.taxes| ≤
      (((1 + W) * comboW x.taxes : ℕ) : ℚ) * halfUlp (c + 2) := by
    intro x hxm
    simp only [Function.comp, docAdj_taxes]
    have h1 := docAdj_err c sum S W x (hx x hxm) hs hS
    have hk : (0 : ℚ) ≤ (comboW x.taxes : ℚ) := by positivity
    cases sgn with
    | true =>
      simp only [if_true, neg_toRat]
      have hr := rowQ_diff (-(docAdj exactOps .precise c sum x).amount.toRat) (-(Spec.C01.docAdjQ S x)) x.taxes (htx x hxm)
      have e : -(docAdj exactOps .precise c sum x).amount.toRat - -(Spec.C01.docAdjQ S x) =
          -((docAdj exactOps .precise c sum x).amount.toRat - Spec.C01.docAdjQ S x) := by ring
      rw [e, abs_neg] at hr
      have := mul_le_mul_of_nonneg_left h1 hk
      push_cast
      nlinarith
    | false =>
      simp only [Bool.false_eq_true, if_false]
      have hr := rowQ_diff (docAdj exactOps .precise c sum x).amount.toRat (Spec.C01.docAdjQ S x) x.taxes (htx x hxm)
      have := mul_le_mul_of_nonneg_left h1 hk
      push_cast
      nlinarith
  have := list_sum_diff_le' xs _ _ _ hB
  refine le_trans this (le_of_eq ?_)
  unfold adjTaxW
  exact sum_map_mul_const xs (fun x => (1 + W) * comboW x.taxes) _

theorem doc_tax_w (d : Doc) (p : Pre) (tx : TaxTotal) (hd : DocT ret d) (hpre : pre exactOps d = .ok p)
    (htx : taxTotal exactOps d.rule d.c d.includes p.rows = .ok tx) :
    tx.precise.exp ≤ p.sum.exp ∧
    |tx.precise.toRat - (Spec.C01.exactQ d).tax| ≤ (taxW d (groupsOf tx.cats) : ℚ) * halfUlp (d.c + 2) := by
  obtain ⟨hrel, hsum, hsexp, hS, hdis, hch, hrows, _, _⟩ := pre_spec d p hd.base hpre
  rw [hd.base.rule, hd.inc, hrows] at htx
  have hrowsOk : ∀ rw ∈ taxRows p.lines p.discounts p.charges, RowOk ret p.sum.exp rw := by
    intro rw hrw
    simp only [taxRows, List.mem_append, List.mem_filterMap, List.mem_map] at hrw
    rcases hrw with (⟨l', hl', hrw⟩ | ⟨x, hx, rfl⟩) | ⟨x, hx, rfl⟩
    · obtain ⟨l, hl, t, q, ht, htax, hte, _, _⟩ := rel_mem d.cur d.c d.rates _ _ hrel l' hl'
      rw [ht] at hrw
      simp only [Option.map_some, Option.some.injEq] at hrw
      subst hrw
      refine ⟨by simp only [htax]; exact hd.lineTaxes l hl, ?_⟩
      rw [hsum]
      unfold lineSum
      exact foldl_accum_exp_ge_mem _ ⟨0, d.c⟩ t (List.mem_filterMap.mpr ⟨l', hl', ht⟩)
    · rw [hdis] at hx
      simp only [List.mem_map] at hx
      obtain ⟨x0, hx0, rfl⟩ := hx
      have he := (docAdj_ok d.c p.sum x0 (hd.base.discounts x0 hx0) hsexp 0).1
      exact ⟨by simp only [docAdj_taxes]; exact hd.discTaxes x0 hx0, by simp only [neg_exp]; exact he⟩
    · rw [hch] at hx
      simp only [List.mem_map] at hx
      obtain ⟨x0, hx0, rfl⟩ := hx
      have he := (docAdj_ok d.c p.sum x0 (hd.base.charges x0 hx0) hsexp 0).1
      exact ⟨by simp only [docAdj_taxes]; exact hd.chTaxes x0 hx0, he⟩
  obtain ⟨t1, t2⟩ := taxTotal_w d.c p.sum.exp _ tx hrowsOk hsexp htx
  refine ⟨t1, ?_⟩
  rw [rows_sum] at t2
  rw [exactQ_tax d hd.inc]
  have l1 := rel_rows d.cur d.c d.rates _ _ hrel hd.lineTaxes
  have l2 := adjRows_err d.c p.sum (Spec.C01.exactQ d).sum (sumW d.lines) d.discounts true
    hd.base.discounts hd.discTaxes hsexp hS
  have l3 := adjRows_err d.c p.sum (Spec.C01.exactQ d).sum (sumW d.lines) d.charges false
    hd.base.charges hd.chTaxes hsexp hS
  rw [← hdis] at l2
  rw [← hch] at l3
  simp only [if_true, Bool.false_eq_true, if_false] at l2 l3
  set A := (p.lines.filterMap (fun l => l.total.map (fun t => rowQ t.toRat l.taxes))).sum
  set A' := (d.lines.filterMap (fun l => (Spec.C01.lineTotalQ d.cur d.rates l).map (fun t => rowQ t l.taxes))).sum
  set B := (p.discounts.map (fun x => rowQ (neg x.amount).toRat x.taxes)).sum
  set B' := (d.discounts.map (fun x => rowQ (-(Spec.C01.docAdjQ (Spec.C01.exactQ d).sum x)) x.taxes)).sum
  set C := (p.charges.map (fun x => rowQ x.amount.toRat x.taxes)).sum
  set C' := (d.charges.map (fun x => rowQ (Spec.C01.docAdjQ (Spec.C01.exactQ d).sum x) x.taxes)).sum
  have e : tx.precise.toRat - (A' + B' + C') = (tx.precise.toRat - (A + B + C)) + (A - A') + (B - B') + (C - C') := by ring
  rw [e]
  have a1 := abs_add_le ((tx.precise.toRat - (A + B + C)) + (A - A') + (B - B')) (C - C')
  have a2 := abs_add_le ((tx.precise.toRat - (A + B + C)) + (A - A')) (B - B')
  have a3 := abs_add_le (tx.precise.toRat - (A + B + C)) (A - A')
  unfold taxW
  push_cast
  linarith

/-! ## payable, advances, due -/

/-- an advance of the covered class: a percentage of the total with tax of at most 100 %, or a
fixed amount with at most currency + 2 decimals -/
def AdvOk (c : ℕ) (a : Advance) : Prop :=
  (∃ p, a.percent = some p ∧ |p.amount.toRat| ≤ 1) ∨ (a.percent = none ∧ a.amount.exp ≤ c + 2)

/-- the exact amount of one advance, as `Spec.C01.exactQ` has it -/
def advQ (T : ℚ) (a : Advance) : ℚ :=
  match a.percent with
  | some p => T * Spec.C01.pq p
  | none => a.amount.toRat

theorem calcAdvance_ok (c : ℕ) (twt : Amount) (a : Advance) (ha : AdvOk c a) (htw : c + 2 ≤ twt.exp) (T : ℚ) :
    (calcAdvance exactOps c twt a).amount.exp ≤ twt.exp ∧
    |(calcAdvance exactOps c twt a).amount.toRat - advQ T a| ≤ |twt.toRat - T| + halfUlp twt.exp := by
  rcases ha with ⟨p, hp, hle⟩ | ⟨hp, he⟩
  · have hval : (calcAdvance exactOps c twt a).amount = twt.mulX p.amount := by
      simp only [calcAdvance, hp, pctOf, exact_mul]
      exact up_self _ c (by rw [mulX_exp]; omega)
    rw [hval]
    refine ⟨le_of_eq rfl, ?_⟩
    simp only [advQ, hp, Spec.C01.pq]
    have h1 := mulX_err twt p.amount
    have e : (twt.mulX p.amount).toRat - T * p.amount.toRat =
        ((twt.mulX p.amount).toRat - twt.toRat * p.amount.toRat) + (twt.toRat - T) * p.amount.toRat := by ring
    rw [e]
    refine le_trans (abs_add_le _ _) ?_
    have h2 : |(twt.toRat - T) * p.amount.toRat| ≤ |twt.toRat - T| := by
      rw [abs_mul]
      calc |twt.toRat - T| * |p.amount.toRat| ≤ |twt.toRat - T| * 1 :=
            mul_le_mul_of_nonneg_left hle (abs_nonneg _)
        _ = |twt.toRat - T| := mul_one _
    linarith
  · have hval : (calcAdvance exactOps c twt a).amount = up a.amount c := by
      simp only [calcAdvance, hp]
    rw [hval, up_toRat, up_exp]
    refine ⟨by omega, ?_⟩
    simp only [advQ, hp, sub_self, abs_zero]
    have := halfUlp_nonneg twt.exp
    have := abs_nonneg (twt.toRat - T)
    linarith

theorem advanceTotal_w (c E : ℕ) (advs : List Advance) (hc : c ≤ E) (h : ∀ a ∈ advs, a.amount.exp ≤ E) :
    (∀ s, advanceTotal exactOps c advs = some s → s.exp ≤ E) ∧
    optQ (advanceTotal exactOps c advs) = (advs.map (·.amount.toRat)).sum := by
  constructor
  · intro s hs
    unfold advanceTotal at hs
    split at hs
    · simp at hs
    · injection hs with hs
      rw [← hs]
      apply foldl_accum_exp_le _ _ _ hc
      intro y hy
      simp only [List.mem_map] at hy
      obtain ⟨a, ha, rfl⟩ := hy
      exact h a ha
  · unfold optQ advanceTotal
    split
    · rename_i he
      have : advs = [] := by simpa using he
      simp [this]
    · simp only [Option.map_some, Option.getD_some]
      rw [foldl_accum_toRat]
      simp [Amount.toRat, List.map_map, Function.comp_def]

theorem exactQ_advances (d : Doc) :
    (Spec.C01.exactQ d).advances =
      if d.hasPayment then (d.advances.map (advQ (Spec.C01.exactQ d).totalWithTax)).sum else 0 := rfl

theorem exactQ_twt (d : Doc) :
    (Spec.C01.exactQ d).totalWithTax = (Spec.C01.exactQ d).total + (Spec.C01.exactQ d).tax := rfl

theorem exactQ_payable (d : Doc) :
    (Spec.C01.exactQ d).payable = (Spec.C01.exactQ d).totalWithTax +
      (match d.rounding with | some x => x.toRat | none => 0) := rfl

theorem exactQ_due (d : Doc) :
    (Spec.C01.exactQ d).due = (Spec.C01.exactQ d).payable - (Spec.C01.exactQ d).advances := rfl

theorem rawTotals_fields (d : Doc) (p : Pre) (tx : TaxTotal) (hinc : d.includes = none) :
    (rawTotals exactOps d p tx).sum = p.sum ∧ (rawTotals exactOps d p tx).discount = p.dsum ∧
    (rawTotals exactOps d p tx).charge = p.csum ∧ (rawTotals exactOps d p tx).taxIncluded = none ∧
    (rawTotals exactOps d p tx).total = p.total2 ∧
    (rawTotals exactOps d p tx).tax = tx.precise ∧
    (rawTotals exactOps d p tx).totalWithTax = add exactOps p.total2 tx.precise ∧
    (rawTotals exactOps d p tx).payable =
      (match d.rounding with
       | some x => add exactOps (add exactOps p.total2 tx.precise) x
       | none => add exactOps p.total2 tx.precise) ∧
    (rawTotals exactOps d p tx).advances =
      (if d.hasPayment then
        advanceTotal exactOps d.c (d.advances.map (calcAdvance exactOps d.c (add exactOps p.total2 tx.precise)))
       else none) ∧
    (rawTotals exactOps d p tx).due =
      (rawTotals exactOps d p tx).advances.map (fun x => sub exactOps (rawTotals exactOps d p tx).payable x) := by
  simp [rawTotals, taxIncluded, hinc]
  cases d.rounding <;> rfl

/-! ## all working totals of a document of the full class -/

/-- the document class of `calc_eq_spec`: `DocT`, an externally supplied `totals.rounding` not finer
than the working precision, advances of the class `AdvOk` -/
structure DocC (ret : String → Bool) (d : Doc) : Prop where
  tax : DocT ret d
  rounding : ∀ x, d.rounding = some x → x.exp ≤ d.c + 2
  advances : ∀ a ∈ d.advances, AdvOk d.c a


theorem adjTotal_err (sumR S P D kd W h : ℚ) (hS : |sumR - S| ≤ W * h) (hD : |D - sumR * P| ≤ kd * h)
    (hP : |P| ≤ kd) (hh : 0 ≤ h) (hW : 0 ≤ W) : |D - S * P| ≤ kd * (1 + W) * h := by
  have e : D - S * P = (D - sumR * P) + (sumR - S) * P := by ring
  rw [e]
  refine le_trans (abs_add_le _ _) ?_
  have : |(sumR - S) * P| ≤ (W * h) * kd := by
    rw [abs_mul]
    exact mul_le_mul hS hP (abs_nonneg _) (by positivity)
  nlinarith

theorem working_tax (d : Doc) (p : Pre) (tx : TaxTotal) (hd : DocT ret d) (hpre : pre exactOps d = .ok p)
    (htx : taxTotal exactOps d.rule d.c d.includes p.rows = .ok tx) :
    (d.c + 2 ≤ p.sum.exp ∧ p.total2.exp = p.sum.exp ∧ (add exactOps p.total2 tx.precise).exp = p.sum.exp) ∧
    |(rawTotals exactOps d p tx).sum.toRat - (Spec.C01.exactQ d).sum| ≤
      (sumW d.lines : ℚ) * halfUlp (d.c + 2) ∧
    |optQ (rawTotals exactOps d p tx).discount - (Spec.C01.exactQ d).discount| ≤
      (adjW (sumW d.lines) d.discounts.length : ℚ) * halfUlp (d.c + 2) ∧
    |optQ (rawTotals exactOps d p tx).charge - (Spec.C01.exactQ d).charge| ≤
      (adjW (sumW d.lines) d.charges.length : ℚ) * halfUlp (d.c + 2) ∧
    |(rawTotals exactOps d p tx).total.toRat - (Spec.C01.exactQ d).total| ≤
      (totalW d : ℚ) * halfUlp (d.c + 2) ∧
    |(rawTotals exactOps d p tx).tax.toRat - (Spec.C01.exactQ d).tax| ≤
      (taxW d (groupsOf tx.cats) : ℚ) * halfUlp (d.c + 2) ∧
    |(rawTotals exactOps d p tx).totalWithTax.toRat - (Spec.C01.exactQ d).totalWithTax| ≤
      (twtW d (groupsOf tx.cats) : ℚ) * halfUlp (d.c + 2) := by
  have hA := hd.base
  have hinc := hd.inc
  obtain ⟨_, _, _, _, _, _, hds, hcs, _, _⟩ := pre_unpack d p hpre
  obtain ⟨hrel, hsum, hsexp, hS, hdis, hch, hrows, te, hb⟩ := pre_spec d p hA hpre
  obtain ⟨x1, x2⟩ := doc_tax_w d p tx hd hpre htx
  obtain ⟨f1, f2, f3, _, f5, f6, f7, f8, f9, f10⟩ := rawTotals_fields d p tx hinc
  have h0 := halfUlp_nonneg (d.c + 2)
  have hh : halfUlp p.sum.exp ≤ halfUlp (d.c + 2) := halfUlp_mono _ _ hsexp
  -- discount and charge totals
  have hkd : (0 : ℚ) ≤ (d.discounts.length : ℚ) := by positivity
  have hkc : (0 : ℚ) ≤ (d.charges.length : ℚ) := by positivity
  have hdq := (adjSum_ok d.c p.sum d.discounts (Spec.C01.exactQ d).sum hA.discounts hsexp).2
  have hcq := (adjSum_ok d.c p.sum d.charges (Spec.C01.exactQ d).sum hA.charges hsexp).2
  rw [← hdis, ← hds] at hdq
  rw [← hch, ← hcs] at hcq
  have hrow : |p.sum.toRat - (Spec.C01.exactQ d).sum| + halfUlp (d.c + 2) ≤
      (1 + (sumW d.lines : ℚ)) * halfUlp (d.c + 2) := by linarith
  have hD : |optQ p.dsum - (Spec.C01.exactQ d).discount| ≤ (adjW (sumW d.lines) d.discounts.length : ℚ) * halfUlp (d.c + 2) := by
    rw [exactQ_discount]
    refine le_trans (le_trans hdq (mul_le_mul_of_nonneg_left hrow hkd)) (le_of_eq ?_)
    unfold adjW; push_cast; ring
  have hC : |optQ p.csum - (Spec.C01.exactQ d).charge| ≤ (adjW (sumW d.lines) d.charges.length : ℚ) * halfUlp (d.c + 2) := by
    rw [exactQ_charge]
    refine le_trans (le_trans hcq (mul_le_mul_of_nonneg_left hrow hkc)) (le_of_eq ?_)
    unfold adjW; push_cast; ring
  -- total
  have hT : |p.total2.toRat - (Spec.C01.exactQ d).total| ≤ (totalW d : ℚ) * halfUlp (d.c + 2) := by
    rw [exactQ_total, exactQ_inc_none d hinc, sub_zero]; exact hb
  -- total with tax
  set twt := add exactOps p.total2 tx.precise with htwt
  have htwe : twt.exp = p.sum.exp := by rw [htwt, add_exp]; exact te
  have htwq : twt.toRat = p.total2.toRat + tx.precise.toRat := add_toRat _ _ (by rw [te]; exact x1)
  have hTW : |twt.toRat - (Spec.C01.exactQ d).totalWithTax| ≤ (twtW d (groupsOf tx.cats) : ℚ) * halfUlp (d.c + 2) := by
    rw [htwq, exactQ_twt]
    have e : p.total2.toRat + tx.precise.toRat - ((Spec.C01.exactQ d).total + (Spec.C01.exactQ d).tax) =
        (p.total2.toRat - (Spec.C01.exactQ d).total) + (tx.precise.toRat - (Spec.C01.exactQ d).tax) := by ring
    rw [e]
    refine le_trans (abs_add_le _ _) ?_
    unfold twtW; push_cast; linarith
  exact ⟨⟨hsexp, te, htwe⟩, by rw [f1]; exact hS, by rw [f2]; exact hD, by rw [f3]; exact hC, by rw [f5]; exact hT,
    by rw [f6]; exact x2, by rw [f7]; exact hTW⟩

theorem working_spec (d : Doc) (p : Pre) (tx : TaxTotal) (hd : DocC ret d) (hpre : pre exactOps d = .ok p)
    (htx : taxTotal exactOps d.rule d.c d.includes p.rows = .ok tx) :
    |(rawTotals exactOps d p tx).sum.toRat - (Spec.C01.exactQ d).sum| ≤
      (sumW d.lines : ℚ) * halfUlp (d.c + 2) ∧
    |optQ (rawTotals exactOps d p tx).discount - (Spec.C01.exactQ d).discount| ≤
      (adjW (sumW d.lines) d.discounts.length : ℚ) * halfUlp (d.c + 2) ∧
    |optQ (rawTotals exactOps d p tx).charge - (Spec.C01.exactQ d).charge| ≤
      (adjW (sumW d.lines) d.charges.length : ℚ) * halfUlp (d.c + 2) ∧
    |(rawTotals exactOps d p tx).total.toRat - (Spec.C01.exactQ d).total| ≤
      (totalW d : ℚ) * halfUlp (d.c + 2) ∧
    |(rawTotals exactOps d p tx).tax.toRat - (Spec.C01.exactQ d).tax| ≤
      (taxW d (groupsOf tx.cats) : ℚ) * halfUlp (d.c + 2) ∧
    |(rawTotals exactOps d p tx).totalWithTax.toRat - (Spec.C01.exactQ d).totalWithTax| ≤
      (twtW d (groupsOf tx.cats) : ℚ) * halfUlp (d.c + 2) ∧
    |(rawTotals exactOps d p tx).payable.toRat - (Spec.C01.exactQ d).payable| ≤
      (twtW d (groupsOf tx.cats) : ℚ) * halfUlp (d.c + 2) ∧
    |optQ (rawTotals exactOps d p tx).advances - (Spec.C01.exactQ d).advances| ≤
      (advW d (groupsOf tx.cats) : ℚ) * halfUlp (d.c + 2) ∧
    (∀ y, (rawTotals exactOps d p tx).due = some y →
      |y.toRat - (Spec.C01.exactQ d).due| ≤ (dueW d (groupsOf tx.cats) : ℚ) * halfUlp (d.c + 2)) := by
  obtain ⟨⟨hsexp, te, htwe'⟩, w1, w2, w3, w4, w5, hTW'⟩ := working_tax d p tx hd.tax hpre htx
  have hinc := hd.tax.inc
  obtain ⟨f1, f2, f3, _, f5, f6, f7, f8, f9, f10⟩ := rawTotals_fields d p tx hinc
  have h0 := halfUlp_nonneg (d.c + 2)
  have hh : halfUlp p.sum.exp ≤ halfUlp (d.c + 2) := halfUlp_mono _ _ hsexp
  set twt := add exactOps p.total2 tx.precise with htwt
  have htwe : twt.exp = p.sum.exp := htwe'
  have hTW : |twt.toRat - (Spec.C01.exactQ d).totalWithTax| ≤ (twtW d (groupsOf tx.cats) : ℚ) * halfUlp (d.c + 2) := by
    rw [← f7]; exact hTW'
  -- payable
  have hPe : (rawTotals exactOps d p tx).payable.exp = p.sum.exp ∧
      |(rawTotals exactOps d p tx).payable.toRat - (Spec.C01.exactQ d).payable| ≤
        (twtW d (groupsOf tx.cats) : ℚ) * halfUlp (d.c + 2) := by
    rw [f8, exactQ_payable]
    cases hr : d.rounding with
    | none => simp only [add_zero]; exact ⟨htwe, hTW⟩
    | some x =>
      simp only [add_exp]
      refine ⟨te, ?_⟩
      rw [add_toRat _ _ (by rw [htwe]; have := hd.rounding x hr; omega)]
      have e : twt.toRat + x.toRat - ((Spec.C01.exactQ d).totalWithTax + x.toRat) =
          twt.toRat - (Spec.C01.exactQ d).totalWithTax := by ring
      rw [e]; exact hTW
  -- advances
  have hAe : (∀ s, (rawTotals exactOps d p tx).advances = some s → s.exp ≤ p.sum.exp) ∧
      |optQ (rawTotals exactOps d p tx).advances - (Spec.C01.exactQ d).advances| ≤
        (advW d (groupsOf tx.cats) : ℚ) * halfUlp (d.c + 2) := by
    rw [f9, exactQ_advances]
    cases hp : d.hasPayment with
    | false =>
      simp only [Bool.false_eq_true, if_false]
      refine ⟨fun s hs => (by cases hs), ?_⟩
      simp only [optQ, Option.map_none, Option.getD_none, sub_self, abs_zero]
      positivity
    | true =>
      simp only [if_true]
      have hok : ∀ a ∈ d.advances.map (calcAdvance exactOps d.c twt), a.amount.exp ≤ twt.exp := by
        intro a ha
        simp only [List.mem_map] at ha
        obtain ⟨a0, ha0, rfl⟩ := ha
        exact (calcAdvance_ok d.c twt a0 (hd.advances a0 ha0) (by omega) 0).1
      obtain ⟨a1, a2⟩ := advanceTotal_w d.c twt.exp _ (by omega) hok
      refine ⟨fun s hs => (by rw [← htwe]; exact a1 s hs), ?_⟩
      rw [a2, List.map_map]
      have hB : ∀ a ∈ d.advances, |((fun a => a.amount.toRat) ∘ calcAdvance exactOps d.c twt) a
          - advQ (Spec.C01.exactQ d).totalWithTax a| ≤ (1 + (twtW d (groupsOf tx.cats) : ℚ)) * halfUlp (d.c + 2) := by
        intro a ha
        have := (calcAdvance_ok d.c twt a (hd.advances a ha) (by omega) (Spec.C01.exactQ d).totalWithTax).2
        have hh2 : halfUlp twt.exp ≤ halfUlp (d.c + 2) := by rw [htwe]; exact hh
        simp only [Function.comp]
        linarith
      refine le_trans (list_sum_diff_le d.advances _ _ _ hB) (le_of_eq ?_)
      unfold advW; push_cast; ring
  refine ⟨w1, w2, w3, w4, w5, hTW', hPe.2, hAe.2, ?_⟩
  intro y hy
  rw [f10] at hy
  cases ha : (rawTotals exactOps d p tx).advances with
  | none => rw [ha] at hy; cases hy
  | some s =>
    rw [ha] at hy
    simp only [Option.map_some, Option.some.injEq] at hy
    subst hy
    rw [sub_toRat _ _ (by rw [hPe.1]; exact hAe.1 s ha), exactQ_due]
    have h2 := hAe.2
    rw [ha] at h2
    simp only [optQ, Option.map_some, Option.getD_some] at h2
    have e : (rawTotals exactOps d p tx).payable.toRat - s.toRat -
        ((Spec.C01.exactQ d).payable - (Spec.C01.exactQ d).advances) =
        ((rawTotals exactOps d p tx).payable.toRat - (Spec.C01.exactQ d).payable) -
        (s.toRat - (Spec.C01.exactQ d).advances) := by ring
    rw [e]
    refine le_trans (abs_sub _ _) ?_
    have := hPe.2
    unfold dueW; push_cast; linarith


theorem groupsT_round (d : Doc) (p : Pre) (tx : TaxTotal) :
    groupsT (roundTotals exactOps d.c (rawTotals exactOps d p tx)) = groupsOf tx.cats := by
  unfold groupsT
  simp only [roundTotals, rawTotals]
  split
  · rename_i tx' h
    split at h
    · cases h
    · injection h with h; rw [h]
  · rename_i h
    split at h
    · rename_i he
      have : tx.cats = [] := by simpa using he
      rw [this]; rfl
    · cases h

/-- the presented figure for a working amount -/
theorem presents_rescale (c : ℕ) (a : Amount) : Spec.C01.presents c (a.rescaleX c) a.toRat :=
  ⟨rescaleX_exp a c, rescaleX_value a c⟩

/-! ## presented rows: lines, advances, due dates -/

/-- `a` shows the working amount `w`: unchanged, or rounded half away from zero once to fewer decimals -/
def Shows (a w : Amount) : Prop := a = w ∨ ∃ e, e < w.exp ∧ Spec.C01.presents e a w.toRat

theorem down_shows (w : Amount) (e : ℕ) : Shows (down exactOps w e) w := by
  unfold down
  split
  · rename_i h
    exact Or.inr ⟨e, h, presents_rescale e w⟩
  · exact Or.inl rfl

theorem roundLine_total (l : Line) (w : Amount) (h : l.total = some w) :
    ∃ a, (roundLine exactOps l).total = some a ∧ Shows a w := by
  unfold roundLine
  split
  · exact ⟨w, h, Or.inl rfl⟩
  · split
    · exact ⟨w, h, Or.inl rfl⟩
    · rename_i p _
      exact ⟨down exactOps w p.exp, by simp [h], down_shows w p.exp⟩

/-- what a calculated document shows for a line of the class -/
def LineShown (cur : String) (rates : List XRate) (c : ℕ) (l lo : Line) : Prop :=
  ∃ w q a, lo.total = some a ∧ Shows a w ∧ c + 2 ≤ w.exp ∧
    Spec.C01.lineTotalQ cur rates l = some q ∧ |w.toRat - q| ≤ (lineW l : ℚ) * halfUlp (c + 2)

theorem lines_shown (d : Doc) (out : Out) (hd : DocA d) (hcalc : calculate exactOps d = .ok out) :
    List.Forall₂ (LineShown d.cur d.rates d.c) d.lines out.lines := by
  unfold calculate at hcalc
  cases hpre : pre exactOps d with
  | error e => simp [hpre] at hcalc
  | ok p =>
    simp only [hpre] at hcalc
    obtain ⟨hrel, _⟩ := pre_spec d p hd hpre
    split at hcalc
    · injection hcalc with hcalc
      rw [← hcalc]
      refine hrel.imp ?_
      intro l l' ⟨t, q, ht, _, hte, hq, herr⟩
      exact ⟨t, q, t, ht, Or.inl rfl, hte, hq, herr⟩
    · cases htx : taxTotal exactOps d.rule d.c d.includes p.rows with
      | error e => simp [htx] at hcalc
      | ok tx =>
        simp only [htx] at hcalc
        injection hcalc with hcalc
        rw [← hcalc]
        simp only [finish]
        rw [List.forall₂_map_right_iff]
        refine hrel.imp ?_
        intro l l' ⟨t, q, ht, _, hte, hq, herr⟩
        obtain ⟨a, ha, hs⟩ := roundLine_total l' t ht
        exact ⟨t, q, a, ha, hs, hte, hq, herr⟩

/-- a due date of the covered class: a non-zero percentage of the payable amount of at most 100 %,
or a fixed amount -/
def DueOk (x : Due) : Prop :=
  (∃ p, x.percent = some p ∧ pctIsZero p = false ∧ |p.amount.toRat| ≤ 1) ∨
  (x.percent = none ∨ ∃ p, x.percent = some p ∧ pctIsZero p = true)

/-- the exact amount of a due date -/
def dueQ (P : ℚ) (x : Due) : ℚ :=
  match x.percent with
  | some p => if p.amount.value == 0 then x.amount.toRat else P * p.amount.toRat
  | none => x.amount.toRat

theorem calcDue_ok (c : ℕ) (payable : Amount) (x : Due) (hx : DueOk x) (P : ℚ) :
    ∃ w : Amount, Spec.C01.presents c (calcDue exactOps c payable x).amount w.toRat ∧
      |w.toRat - dueQ P x| ≤ |payable.toRat - P| + halfUlp payable.exp := by
  have h0 := halfUlp_nonneg payable.exp
  have ha := abs_nonneg (payable.toRat - P)
  rcases hx with ⟨p, hp, hz, hle⟩ | hp
  · refine ⟨payable.mulX p.amount, ?_, ?_⟩
    · have : (calcDue exactOps c payable x).amount = (payable.mulX p.amount).rescaleX c := by
        simp [calcDue, hp, hz, pctOf]
      rw [this]; exact presents_rescale c _
    · have hz' : (p.amount.value == 0) = false := hz
      simp only [dueQ, hp, hz', Bool.false_eq_true, if_false]
      have h1 := mulX_err payable p.amount
      have e : (payable.mulX p.amount).toRat - P * p.amount.toRat =
          ((payable.mulX p.amount).toRat - payable.toRat * p.amount.toRat) + (payable.toRat - P) * p.amount.toRat := by ring
      rw [e]
      refine le_trans (abs_add_le _ _) ?_
      have h2 : |(payable.toRat - P) * p.amount.toRat| ≤ |payable.toRat - P| := by
        rw [abs_mul]
        calc |payable.toRat - P| * |p.amount.toRat| ≤ |payable.toRat - P| * 1 :=
              mul_le_mul_of_nonneg_left hle (abs_nonneg _)
          _ = |payable.toRat - P| := mul_one _
      linarith
  · refine ⟨x.amount, ?_, ?_⟩
    · have : (calcDue exactOps c payable x).amount = x.amount.rescaleX c := by
        rcases hp with hp | ⟨p, hp, hz⟩
        · simp [calcDue, hp]
        · simp [calcDue, hp, hz]
      rw [this]; exact presents_rescale c _
    · have : dueQ P x = x.amount.toRat := by
        rcases hp with hp | ⟨p, hp, hz⟩
        · simp [dueQ, hp]
        · have hz' : (p.amount.value == 0) = true := hz
          simp [dueQ, hp, hz']
      rw [this, sub_self, abs_zero]
      linarith

/-- the advance and due-date rows of a calculated document of the class `DocC` -/
theorem payment_rows_shown (d : Doc) (out : Out) (t : Totals) (hd : DocC ret d) (hp : d.hasPayment = true)
    (hdues : ∀ x ∈ d.dues, DueOk x)
    (hcalc : calculate exactOps d = .ok out) (ht : out.totals = some t) :
    List.Forall₂ (fun a ao => ∃ w : Amount, Spec.C01.presents d.c ao.amount w.toRat ∧
        |w.toRat - advQ (Spec.C01.exactQ d).totalWithTax a| ≤ (1 + (twtW d (groupsT t) : ℚ)) * halfUlp (d.c + 2))
      d.advances out.advances ∧
    List.Forall₂ (fun x xo => ∃ w : Amount, Spec.C01.presents d.c xo.amount w.toRat ∧
        |w.toRat - dueQ (Spec.C01.exactQ d).payable x| ≤ (1 + (twtW d (groupsT t) : ℚ)) * halfUlp (d.c + 2))
      d.dues out.dues := by
  obtain ⟨p, tx, hpre, htx, hout, htr⟩ := calculate_unpack d out t hcalc ht
  have hG : groupsT t = groupsOf tx.cats := by rw [htr]; exact groupsT_round d p tx
  obtain ⟨⟨hsexp, te, htwe⟩, _, _, _, _, _, w6⟩ := working_tax d p tx hd.tax hpre htx
  obtain ⟨_, _, _, _, _, _, w7, _, _⟩ := working_spec d p tx hd hpre htx
  obtain ⟨_, _, _, _, _, _, f7, f8, _, _⟩ := rawTotals_fields d p tx hd.tax.inc
  have hh : halfUlp p.sum.exp ≤ halfUlp (d.c + 2) := halfUlp_mono _ _ hsexp
  have hpe : (rawTotals exactOps d p tx).payable.exp = p.sum.exp := by
    rw [f8]; cases d.rounding <;> simp only [add_exp] <;> exact te
  rw [hout, hG]
  simp only [finish, hp, if_true]
  refine ⟨?_, ?_⟩
  · rw [List.forall₂_map_right_iff, List.forall₂_map_right_iff]
    apply List.forall₂_same.mpr
    intro a ha
    refine ⟨(calcAdvance exactOps d.c (rawTotals exactOps d p tx).totalWithTax a).amount, presents_rescale _ _, ?_⟩
    have h1 := (calcAdvance_ok d.c (rawTotals exactOps d p tx).totalWithTax a (hd.advances a ha)
      (by rw [f7, htwe]; exact hsexp) (Spec.C01.exactQ d).totalWithTax).2
    have h2 : halfUlp (rawTotals exactOps d p tx).totalWithTax.exp ≤ halfUlp (d.c + 2) := by rw [f7, htwe]; exact hh
    linarith
  · rw [List.forall₂_map_right_iff]
    apply List.forall₂_same.mpr
    intro x hx
    obtain ⟨w, hw1, hw2⟩ := calcDue_ok d.c (rawTotals exactOps d p tx).payable x (hdues x hx) (Spec.C01.exactQ d).payable
    refine ⟨w, hw1, ?_⟩
    have h2 : halfUlp (rawTotals exactOps d p tx).payable.exp ≤ halfUlp (d.c + 2) := by rw [hpe]; exact hh
    linarith

/-! ## the decided class is the proved class -/

theorem pctLe1_sound (p : Pct) (h : pctLe1 p = true) : |p.amount.toRat| ≤ 1 := by
  unfold pctLe1 at h
  have hn : p.amount.value.natAbs ≤ 10 ^ p.amount.exp := of_decide_eq_true h
  have hp := p10q_pos p.amount.exp
  unfold Amount.toRat
  rw [abs_div, abs_of_pos hp, div_le_one hp]
  have h1 : |p.amount.value| ≤ pow10 p.amount.exp := by
    unfold pow10
    have h2 : ((p.amount.value.natAbs : ℕ) : ℤ) ≤ ((10 ^ p.amount.exp : ℕ) : ℤ) := by exact_mod_cast hn
    rw [Int.natCast_natAbs] at h2
    push_cast at h2
    exact h2
  rw [← Int.cast_abs]
  exact_mod_cast h1

theorem adjOkB_sound (c : ℕ) (d : LineAdj) (h : adjOkB c d = true) : AdjOk c d := by
  unfold adjOkB at h
  rw [Bool.and_eq_true] at h
  obtain ⟨hr, hc⟩ := h
  have hrate : d.rate = none := by simpa using hr
  refine ⟨hrate, ?_⟩
  cases hp : d.percent with
  | none =>
    simp only [hp] at hc
    exact Or.inr ⟨Or.inl rfl, of_decide_eq_true hc⟩
  | some p =>
    simp only [hp] at hc
    by_cases hz : pctIsZero p = true
    · simp only [hz, if_true] at hc
      exact Or.inr ⟨Or.inr ⟨p, rfl, hz⟩, of_decide_eq_true hc⟩
    · have hz' : pctIsZero p = false := by simpa using hz
      simp only [hz', Bool.false_eq_true, if_false, Bool.and_eq_true] at hc
      refine Or.inl ⟨p, rfl, hz', pctLe1_sound p hc.1, ?_⟩
      cases hb : d.base with
      | none => exact Or.inl rfl
      | some b =>
        have h2 := hc.2
        simp only [hb] at h2
        exact Or.inr ⟨b, rfl, of_decide_eq_true h2⟩

theorem docAdjOkB_sound (c : ℕ) (x : DocAdj) (h : docAdjOkB c x = true) : DocAdjOk c x := by
  unfold docAdjOkB at h
  cases hp : x.percent with
  | none =>
    simp only [hp] at h
    exact Or.inr ⟨Or.inl hp, of_decide_eq_true h⟩
  | some p =>
    simp only [hp] at h
    by_cases hz : pctIsZero p = true
    · simp only [hz, if_true] at h
      exact Or.inr ⟨Or.inr ⟨p, hp, hz⟩, of_decide_eq_true h⟩
    · have hz' : pctIsZero p = false := by simpa using hz
      simp only [hz', Bool.false_eq_true, if_false, Bool.and_eq_true] at h
      refine Or.inl ⟨p, hp, hz', pctLe1_sound p h.1, ?_⟩
      cases hb : x.base with
      | none => exact Or.inl rfl
      | some b =>
        have h2 := h.2
        simp only [hb] at h2
        exact Or.inr ⟨b, rfl, of_decide_eq_true h2⟩

theorem adjLineB_sound (c : ℕ) (l : Line) (h : adjLineB c l = true) : AdjLine c l := by
  unfold adjLineB at h
  cases hit : l.item with
  | none => simp [hit] at h
  | some it =>
    simp only [hit, Bool.and_eq_true, List.all_eq_true] at h
    obtain ⟨⟨⟨⟨h1, h2⟩, h3⟩, h4⟩, h5⟩ := h
    obtain ⟨p, hp⟩ := Option.isSome_iff_exists.mp h2
    exact ⟨it, p, hit, by simpa using h1, hp, by simpa using h3,
      fun d hd => adjOkB_sound c d (h4 d hd), fun d hd => adjOkB_sound c d (h5 d hd)⟩

theorem comboOkB_sound (ret : String → Bool) (cb : Combo) (h : comboOkB ret cb = true) : ComboOk ret cb := by
  unfold comboOkB at h
  simp only [Bool.and_eq_true] at h
  obtain ⟨⟨h1, h2⟩, h3⟩ := h
  refine ⟨by simpa using h1, ?_, ?_⟩
  · intro p hp; simp only [hp] at h2; exact pctLe1_sound p h2
  · intro sp hs; simp only [hs] at h3; exact pctLe1_sound sp h3

theorem advOkB_sound (c : ℕ) (a : Advance) (h : advOkB c a = true) : AdvOk c a := by
  unfold advOkB at h
  cases hp : a.percent with
  | none => simp only [hp] at h; exact Or.inr ⟨hp, of_decide_eq_true h⟩
  | some p => simp only [hp] at h; exact Or.inl ⟨p, hp, pctLe1_sound p h⟩

/-- **the decided class is the proved class** -/
theorem inDocC_sound (d : Doc) (h : inDocC d = true) : DocC (retOf d) d := by
  unfold inDocC at h
  simp only [Bool.and_eq_true, List.all_eq_true] at h
  obtain ⟨⟨⟨⟨⟨⟨⟨⟨⟨⟨h1, h2⟩, h3⟩, h4⟩, h5⟩, h6⟩, h7⟩, h8⟩, h9⟩, h10⟩, h11⟩ := h
  refine ⟨⟨⟨by simpa using h1, ?_, fun l hl => adjLineB_sound d.c l (h3 l hl),
      fun x hx => docAdjOkB_sound d.c x (h4 x hx), fun x hx => docAdjOkB_sound d.c x (h5 x hx)⟩,
    by simpa using h6,
    fun l hl cb hcb => comboOkB_sound _ cb (h7 l hl cb hcb),
    fun x hx cb hcb => comboOkB_sound _ cb (h8 x hx cb hcb),
    fun x hx cb hcb => comboOkB_sound _ cb (h9 x hx cb hcb)⟩, ?_,
    fun a ha => advOkB_sound d.c a (h11 a ha)⟩
  · intro hne; simp [hne] at h2
  · intro x hx
    simp only [hx] at h10
    exact of_decide_eq_true h10

theorem docWeight_eq (d : Doc) (out : Out) (t : Totals) (hcalc : calculate exactOps d = .ok out)
    (ht : out.totals = some t) : docWeight d = dueW d (groupsT t) := by
  unfold docWeight
  rw [hcalc]
  simp only [ht]

theorem roundDocAdj_shows (c : ℕ) (x : DocAdj) : Shows (roundDocAdj exactOps c x).amount x.amount := by
  unfold roundDocAdj
  exact down_shows _ _

/-- the document discount and charge rows of a calculated document of the class `DocA` -/
theorem adj_rows_shown (d : Doc) (out : Out) (t : Totals) (hd : DocA d)
    (hcalc : calculate exactOps d = .ok out) (ht : out.totals = some t) :
    List.Forall₂ (fun x xo => ∃ w : Amount, Shows xo.amount w ∧
        |w.toRat - Spec.C01.docAdjQ (Spec.C01.exactQ d).sum x| ≤ (1 + (sumW d.lines : ℚ)) * halfUlp (d.c + 2))
      d.discounts out.discounts ∧
    List.Forall₂ (fun x xo => ∃ w : Amount, Shows xo.amount w ∧
        |w.toRat - Spec.C01.docAdjQ (Spec.C01.exactQ d).sum x| ≤ (1 + (sumW d.lines : ℚ)) * halfUlp (d.c + 2))
      d.charges out.charges := by
  obtain ⟨p, tx, hpre, _, hout, _⟩ := calculate_unpack d out t hcalc ht
  obtain ⟨_, _, hsexp, hS, hdis, hch, _, _, _⟩ := pre_spec d p hd hpre
  rw [hout]
  simp only [finish, hdis, hch]
  refine ⟨?_, ?_⟩
  · rw [List.forall₂_map_right_iff, List.forall₂_map_right_iff]
    apply List.forall₂_same.mpr
    intro x hx
    exact ⟨_, roundDocAdj_shows d.c _, docAdj_err d.c p.sum _ _ x (hd.discounts x hx) hsexp hS⟩
  · rw [List.forall₂_map_right_iff, List.forall₂_map_right_iff]
    apply List.forall₂_same.mpr
    intro x hx
    exact ⟨_, roundDocAdj_shows d.c _, docAdj_err d.c p.sum _ _ x (hd.charges x hx) hsexp hS⟩

end Err
end Calc
end GoblVerif
