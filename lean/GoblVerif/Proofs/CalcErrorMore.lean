/-
  Error bounds, continued (C01 proof deepening): lines with line-level
  percentage / fixed discounts and charges, the tax summary under the precise
  rule, payable / advances / due, all against the rational no-rounding
  pipeline `Spec.C01.exactQ`.

  Everything is counted in units of `halfUlp (c + 2)` (half a unit of the
  working precision: currency + 2 decimals); the weights (`lineW`, `sumW`, …)
  count the rounding points that can contribute.
-/
import GoblVerif.Proofs.CalcError
import GoblVerif.Proofs.CalcTax
import GoblVerif.Spec.C01

namespace GoblVerif
open GoblVerif.Spec GoblVerif.Calc
namespace Calc

/-! ## generic list lemmas -/

theorem list_sum_diff_le {α : Type} (xs : List α) (f g : α → ℚ) (B : ℚ)
    (h : ∀ x ∈ xs, |f x - g x| ≤ B) : |(xs.map f).sum - (xs.map g).sum| ≤ xs.length * B := by
  induction xs with
  | nil => simp
  | cons x xs ih =>
    have h1 := h x (by simp)
    have h2 := ih (fun y hy => h y (by simp [hy]))
    simp only [List.map_cons, List.sum_cons, List.length_cons]
    have : f x + (xs.map f).sum - (g x + (xs.map g).sum) = (f x - g x) + ((xs.map f).sum - (xs.map g).sum) := by ring
    rw [this]
    refine le_trans (abs_add_le _ _) ?_
    push_cast
    linarith

theorem halfUlp_nonneg (e : ℕ) : 0 ≤ halfUlp e := by
  unfold halfUlp
  have := p10q_pos e
  positivity

/-! ## line-level discounts and charges -/

/-- the covered class of line discounts / charges: no rate × quantity, and either a non-zero
percentage of the line sum of magnitude at most 100 % (no explicit base), or a fixed amount
written with at most currency + 2 decimals (not finer than the working precision) -/
def AdjOk (c : ℕ) (d : LineAdj) : Prop :=
  d.rate = none ∧
  ((∃ p, d.percent = some p ∧ pctIsZero p = false ∧ d.base = none ∧ |p.amount.toRat| ≤ 1) ∨
   (d.percent = none ∧ d.amount.exp ≤ c + 2))

/-- the amount `calculateLineDiscounts` stores for one row -/
def adjAmt (c : ℕ) (sum : Amount) (d : LineAdj) : Amount :=
  (adjUp c (adjPct exactOps .precise c sum d)).amount

/-- the amount `calculateLineCharges` stores for one row -/
def chAmt (c : ℕ) (qty sum : Amount) (d : LineAdj) : Amount :=
  (adjUp c (adjRate exactOps qty (adjPct exactOps .precise c sum d))).amount

theorem adjPct_rate (r : Rule) (c : ℕ) (sum : Amount) (d : LineAdj) :
    (adjPct exactOps r c sum d).rate = d.rate := by
  unfold adjPct
  split
  · split
    · rfl
    · split <;> rfl
  · rfl

theorem chAmt_eq (c : ℕ) (qty sum : Amount) (d : LineAdj) (h : d.rate = none) :
    chAmt c qty sum d = adjAmt c sum d := by
  unfold chAmt adjAmt adjRate
  rw [adjPct_rate, h]

/-- one row: never finer than the line sum, and within |sum − s| + ½ulp of the exact amount -/
theorem adjAmt_ok (c : ℕ) (sum : Amount) (d : LineAdj) (hd : AdjOk c d) (hs : c + 2 ≤ sum.exp)
    (s q : ℚ) (isCharge : Bool) :
    (adjAmt c sum d).exp ≤ sum.exp ∧
    |(adjAmt c sum d).toRat - Spec.C01.adjQ s q isCharge d| ≤ |sum.toRat - s| + halfUlp sum.exp := by
  obtain ⟨hrate, hcase⟩ := hd
  rcases hcase with ⟨p, hp, hz, hb, hle⟩ | ⟨hp, he⟩
  · have hval : adjAmt c sum d = sum.mulX p.amount := by
      simp only [adjAmt, adjUp, adjPct, hp, hz, hb, pctOf, exact_mul, Bool.false_eq_true, if_false]
      exact up_self _ c (by rw [mulX_exp]; omega)
    have hq : Spec.C01.adjQ s q isCharge d = s * p.amount.toRat := by
      have hz' : (p.amount.value == 0) = false := hz
      cases isCharge <;> simp [Spec.C01.adjQ, hrate, hp, hb, hz', Spec.C01.pq]
    rw [hval, hq]
    refine ⟨le_of_eq rfl, ?_⟩
    have h1 := mulX_err sum p.amount
    have e : (sum.mulX p.amount).toRat - s * p.amount.toRat =
        ((sum.mulX p.amount).toRat - sum.toRat * p.amount.toRat) + (sum.toRat - s) * p.amount.toRat := by ring
    rw [e]
    refine le_trans (abs_add_le _ _) ?_
    have h2 : |(sum.toRat - s) * p.amount.toRat| ≤ |sum.toRat - s| := by
      rw [abs_mul]
      calc |sum.toRat - s| * |p.amount.toRat| ≤ |sum.toRat - s| * 1 :=
            mul_le_mul_of_nonneg_left hle (abs_nonneg _)
        _ = |sum.toRat - s| := mul_one _
    linarith
  · have hval : adjAmt c sum d = up d.amount c := by
      simp only [adjAmt, adjUp, adjPct, hp]
    have hq : Spec.C01.adjQ s q isCharge d = d.amount.toRat := by
      cases isCharge <;> simp [Spec.C01.adjQ, hrate, hp]
    rw [hval, hq, up_toRat, up_exp]
    refine ⟨by omega, ?_⟩
    simp only [sub_self, abs_zero]
    have := halfUlp_nonneg sum.exp
    have := abs_nonneg (sum.toRat - s)
    linarith

theorem lineDiscounts_cons_snd (o : Ops) (r : Rule) (c : ℕ) (sum : Amount) (d : LineAdj) (ds : List LineAdj) (total : Amount) :
    (lineDiscounts o r c sum (d :: ds) total).2 =
      (lineDiscounts o r c sum ds (lineDiscountStep o r c sum total d).2).2 := rfl

theorem lineCharges_cons_snd (o : Ops) (r : Rule) (c : ℕ) (qty sum : Amount) (d : LineAdj) (ds : List LineAdj) (total : Amount) :
    (lineCharges o r c qty sum (d :: ds) total).2 =
      (lineCharges o r c qty sum ds (lineChargeStep o r c qty sum total d).2).2 := rfl

/-- the running total after the discounts: exact subtraction of the stored amounts -/
theorem lineDiscounts_snd (c : ℕ) (sum : Amount) (ds : List LineAdj) (total : Amount)
    (ht : total.exp = sum.exp) (hok : ∀ d ∈ ds, (adjAmt c sum d).exp ≤ sum.exp) :
    (lineDiscounts exactOps .precise c sum ds total).2.exp = sum.exp ∧
    (lineDiscounts exactOps .precise c sum ds total).2.toRat =
      total.toRat - (ds.map (fun d => (adjAmt c sum d).toRat)).sum := by
  induction ds generalizing total with
  | nil => simp [lineDiscounts, ht]
  | cons d ds ih =>
    rw [lineDiscounts_cons_snd]
    have hstep : (lineDiscountStep exactOps .precise c sum total d).2 = sub exactOps total (adjAmt c sum d) := rfl
    rw [hstep]
    have hd := hok d (by simp)
    obtain ⟨i1, i2⟩ := ih (sub exactOps total (adjAmt c sum d)) (by rw [sub_exp]; exact ht)
      (fun x hx => hok x (by simp [hx]))
    refine ⟨i1, ?_⟩
    rw [i2, sub_toRat _ _ (by omega)]
    simp only [List.map_cons, List.sum_cons]
    ring

theorem lineCharges_snd (c : ℕ) (qty sum : Amount) (ds : List LineAdj) (total : Amount)
    (ht : total.exp = sum.exp) (hok : ∀ d ∈ ds, (chAmt c qty sum d).exp ≤ sum.exp) :
    (lineCharges exactOps .precise c qty sum ds total).2.exp = sum.exp ∧
    (lineCharges exactOps .precise c qty sum ds total).2.toRat =
      total.toRat + (ds.map (fun d => (chAmt c qty sum d).toRat)).sum := by
  induction ds generalizing total with
  | nil => simp [lineCharges, ht]
  | cons d ds ih =>
    rw [lineCharges_cons_snd]
    have hstep : (lineChargeStep exactOps .precise c qty sum total d).2 = add exactOps total (chAmt c qty sum d) := rfl
    rw [hstep]
    have hd := hok d (by simp)
    obtain ⟨i1, i2⟩ := ih (add exactOps total (chAmt c qty sum d)) (by rw [add_exp]; exact ht)
      (fun x hx => hok x (by simp [hx]))
    refine ⟨i1, ?_⟩
    rw [i2, add_toRat _ _ (by omega)]
    simp only [List.map_cons, List.sum_cons]
    ring

/-! ## a line with discounts and charges -/

/-- a line priced in the document currency without breakdown whose discounts and charges are all
of the covered class -/
def AdjLine (c : ℕ) (l : Line) : Prop :=
  ∃ it p, l.item = some it ∧ it.cur = "" ∧ it.price = some p ∧ l.breakdown = [] ∧
    (∀ d ∈ l.discounts, AdjOk c d) ∧ (∀ d ∈ l.charges, AdjOk c d)

/-- weight of a line: one rounding for price × quantity, and for every discount / charge its own
rounding plus the propagated error of the line sum (percentage ≤ 100 %) -/
def lineW (l : Line) : ℕ := 1 + 2 * (l.discounts.length + l.charges.length)

/-- what `calcLine` guarantees for a line of the class, against the exact line total -/
def LineRel (cur : String) (rates : List XRate) (c : ℕ) (l l' : Line) : Prop :=
  ∃ t q, l'.total = some t ∧ l'.taxes = l.taxes ∧ c + 2 ≤ t.exp ∧
    Spec.C01.lineTotalQ cur rates l = some q ∧ |t.toRat - q| ≤ (lineW l : ℚ) * halfUlp (c + 2)

theorem adjLine_total (cur : String) (c : ℕ) (rates : List XRate) (l l' : Line) (hs : AdjLine c l)
    (h : calcLine exactOps cur c rates .precise l = .ok l') : LineRel cur rates c l l' := by
  obtain ⟨it, p, hit, hcur, hp, hbd, hd, hc⟩ := hs
  unfold calcLine at h
  simp only [hit, hbd, calcSubLines, List.isEmpty_nil, Bool.true_or, if_true, hp] at h
  unfold itemPrice at h
  simp only [hcur, BEq.rfl, Bool.true_or, if_true] at h
  simp only [Option.getD_some] at h
  -- the line sum
  have hS : applyRule exactOps .precise c (exactOps.mul (up (up p it.sub) (c + E)) l.qty) =
      (up (up p it.sub) (c + E)).mulX l.qty := by
    simp only [applyRule, exact_mul]
    exact up_self _ c (by simp only [mulX_exp, up_exp, E]; omega)
  rw [hS] at h
  set S := (up (up p it.sub) (c + E)).mulX l.qty with hSdef
  have hSe : c + 2 ≤ S.exp := by simp only [hSdef, mulX_exp, up_exp, E]; omega
  have hSerr : |S.toRat - p.toRat * l.qty.toRat| ≤ halfUlp (c + 2) := by
    have h1 := mulX_err (up (up p it.sub) (c + E)) l.qty
    rw [up_toRat, up_toRat] at h1
    refine le_trans h1 (halfUlp_mono _ _ ?_)
    simp only [up_exp, E]; omega
  have hhS : halfUlp S.exp ≤ halfUlp (c + 2) := halfUlp_mono _ _ hSe
  -- discounts and charges
  have hdok : ∀ d ∈ l.discounts, (adjAmt c S d).exp ≤ S.exp :=
    fun d hdm => (adjAmt_ok c S d (hd d hdm) hSe 0 0 false).1
  have hcok : ∀ d ∈ l.charges, (chAmt c l.qty S d).exp ≤ S.exp := by
    intro d hdm
    rw [chAmt_eq _ _ _ _ (hc d hdm).1]
    exact (adjAmt_ok c S d (hc d hdm) hSe 0 0 false).1
  obtain ⟨d1, d2⟩ := lineDiscounts_snd c S l.discounts S rfl hdok
  obtain ⟨c1, c2⟩ := lineCharges_snd c l.qty S l.charges
    (lineDiscounts exactOps .precise c S l.discounts S).2 d1 hcok
  rcases hD : lineDiscounts exactOps .precise c S l.discounts S with ⟨ds', t1⟩
  rw [hD] at d1 d2 c1 c2
  simp only [hD] at h
  rcases hC : lineCharges exactOps .precise c l.qty S l.charges t1 with ⟨cs', t2⟩
  rw [hC] at c1 c2
  simp only [hC] at h
  injection h with h
  subst h
  simp only at d1 d2 c1 c2
  set s := p.toRat * l.qty.toRat with hsdef
  refine ⟨t2, s - (l.discounts.map (Spec.C01.adjQ s l.qty.toRat false)).sum
      + (l.charges.map (Spec.C01.adjQ s l.qty.toRat true)).sum, rfl, rfl, by omega, ?_, ?_⟩
  · simp [Spec.C01.lineTotalQ, Spec.C01.rowTotalQ, Spec.C01.priceQ, hit, hbd, hp, hcur, hsdef]
  · rw [c2, d2]
    have hB : ∀ d ∈ l.discounts, |(adjAmt c S d).toRat - Spec.C01.adjQ s l.qty.toRat false d| ≤ 2 * halfUlp (c + 2) := by
      intro d hdm
      have := (adjAmt_ok c S d (hd d hdm) hSe s l.qty.toRat false).2
      linarith
    have hB' : ∀ d ∈ l.charges, |(chAmt c l.qty S d).toRat - Spec.C01.adjQ s l.qty.toRat true d| ≤ 2 * halfUlp (c + 2) := by
      intro d hdm
      rw [chAmt_eq _ _ _ _ (hc d hdm).1]
      have := (adjAmt_ok c S d (hc d hdm) hSe s l.qty.toRat true).2
      linarith
    have e1 := list_sum_diff_le l.discounts (fun d => (adjAmt c S d).toRat) (Spec.C01.adjQ s l.qty.toRat false) _ hB
    have e2 := list_sum_diff_le l.charges (fun d => (chAmt c l.qty S d).toRat) (Spec.C01.adjQ s l.qty.toRat true) _ hB'
    set D := (l.discounts.map (fun d => (adjAmt c S d).toRat)).sum
    set D' := (l.discounts.map (Spec.C01.adjQ s l.qty.toRat false)).sum
    set C := (l.charges.map (fun d => (chAmt c l.qty S d).toRat)).sum
    set C' := (l.charges.map (Spec.C01.adjQ s l.qty.toRat true)).sum
    have e : S.toRat - D + C - (s - D' + C') = (S.toRat - s) - (D - D') + (C - C') := by ring
    rw [e]
    have t1 := abs_add_le ((S.toRat - s) - (D - D')) (C - C')
    have t2 := abs_sub (S.toRat - s) (D - D')
    unfold lineW
    push_cast
    nlinarith [halfUlp_nonneg (c + 2)]

theorem calcLines_rel (cur : String) (c : ℕ) (rates : List XRate) (ls ls' : List Line)
    (hs : ∀ l ∈ ls, AdjLine c l) (h : calcLines exactOps cur c rates .precise ls = .ok ls') :
    List.Forall₂ (LineRel cur rates c) ls ls' := by
  induction ls generalizing ls' with
  | nil =>
    simp only [calcLines] at h
    injection h with h
    subst h
    exact List.Forall₂.nil
  | cons l ls ih =>
    simp only [calcLines] at h
    cases h1 : calcLine exactOps cur c rates .precise l with
    | error e => simp [h1] at h
    | ok l' =>
      cases h2 : calcLines exactOps cur c rates .precise ls with
      | error e => simp [h1, h2] at h
      | ok ls'' =>
        simp only [h1, h2] at h
        injection h with h
        subst h
        exact List.Forall₂.cons (adjLine_total cur c rates l l' (hs l (by simp)) h1)
          (ih ls'' (fun x hx => hs x (by simp [hx])) h2)

/-- total weight of the lines -/
def sumW (ls : List Line) : ℕ := (ls.map lineW).sum

/-- the working document sum against the exact one -/
theorem rel_sum (cur : String) (c : ℕ) (rates : List XRate) (ls ls' : List Line)
    (h : List.Forall₂ (LineRel cur rates c) ls ls') :
    |((ls'.filterMap (·.total)).map Amount.toRat).sum - (ls.filterMap (Spec.C01.lineTotalQ cur rates)).sum| ≤
      (sumW ls : ℚ) * halfUlp (c + 2) := by
  induction h with
  | nil => simp [sumW]
  | @cons l l' ls ls' hl _ ih =>
    obtain ⟨t, q, ht, _, _, hq, herr⟩ := hl
    simp only [List.filterMap_cons, ht, hq, List.map_cons, List.sum_cons, sumW]
    have e : t.toRat + ((ls'.filterMap (·.total)).map Amount.toRat).sum
        - (q + (ls.filterMap (Spec.C01.lineTotalQ cur rates)).sum) =
        (t.toRat - q) + (((ls'.filterMap (·.total)).map Amount.toRat).sum
          - (ls.filterMap (Spec.C01.lineTotalQ cur rates)).sum) := by ring
    rw [e]
    refine le_trans (abs_add_le _ _) ?_
    unfold sumW at ih
    push_cast
    linarith

/-- every line total is at least as fine as the working precision, so the sum is too -/
theorem rel_sum_exp (cur : String) (c : ℕ) (rates : List XRate) (ls ls' : List Line)
    (h : List.Forall₂ (LineRel cur rates c) ls ls') (hne : ls ≠ []) :
    c + 2 ≤ (lineSum exactOps c ls').exp := by
  cases h with
  | nil => exact absurd rfl hne
  | @cons l l' ls0 ls'' hl _ =>
    obtain ⟨t, q, ht, _, hte, _, _⟩ := hl
    unfold lineSum
    have hm : t ∈ (l' :: ls'').filterMap (·.total) := by simp [List.filterMap_cons, ht]
    have := foldl_accum_exp_ge_mem _ ⟨0, c⟩ t hm
    omega

/-! ## unpacking `pre` and `calculate` -/

/-- sum − discounts + charges as `calculate` assembles it -/
def total2Of (sum : Amount) (dsum csum : Option Amount) : Amount :=
  match csum with
  | some x => add exactOps (match dsum with | some x => sub exactOps sum x | none => sum) x
  | none => (match dsum with | some x => sub exactOps sum x | none => sum)

theorem pre_ok (d : Doc) (p : Pre) (h : pre exactOps d = .ok p) :
    ∃ lines, calcLines exactOps d.cur d.c d.rates d.rule d.lines = .ok lines ∧ p.lines = lines ∧
      p.sum = lineSum exactOps d.c lines ∧
      p.discounts = d.discounts.map (docAdj exactOps d.rule d.c (lineSum exactOps d.c lines)) ∧
      p.charges = d.charges.map (docAdj exactOps d.rule d.c (lineSum exactOps d.c lines)) ∧
      p.dsum = adjSum exactOps d.c p.discounts ∧ p.csum = adjSum exactOps d.c p.charges ∧
      p.total2 = total2Of p.sum p.dsum p.csum ∧
      p.rows = taxRows lines p.discounts p.charges := by
  unfold pre at h
  cases hl : calcLines exactOps d.cur d.c d.rates d.rule d.lines with
  | error e => simp [hl] at h
  | ok lines =>
    simp only [hl] at h
    injection h with h
    subst h
    exact ⟨lines, rfl, rfl, rfl, rfl, rfl, rfl, rfl, rfl, rfl⟩

/-- a successful calculation that produced totals went through `pre`, the tax summary and
`finish`; the presented totals are `roundTotals` of the working totals `rawTotals` -/
theorem calculate_unpack (d : Doc) (out : Out) (t : Totals)
    (hcalc : calculate exactOps d = .ok out) (ht : out.totals = some t) :
    ∃ p tx, pre exactOps d = .ok p ∧ taxTotal exactOps d.rule d.c d.includes p.rows = .ok tx ∧
      out = finish exactOps d p tx ∧ t = roundTotals exactOps d.c (rawTotals exactOps d p tx) := by
  unfold calculate at hcalc
  cases hpre : pre exactOps d with
  | error e => simp [hpre] at hcalc
  | ok p =>
    simp only [hpre] at hcalc
    split at hcalc
    · injection hcalc with hcalc
      rw [← hcalc] at ht
      simp at ht
    · cases htx : taxTotal exactOps d.rule d.c d.includes p.rows with
      | error e => simp [htx] at hcalc
      | ok tx =>
        simp only [htx] at hcalc
        injection hcalc with hcalc
        refine ⟨p, tx, rfl, htx, hcalc.symm, ?_⟩
        rw [← hcalc] at ht
        simp only [finish, Option.some.injEq] at ht
        exact ht.symm

/-! ## sum − discounts + charges -/

theorem total2_toRat (sum : Amount) (dsum csum : Option Amount)
    (hde : ∀ s, dsum = some s → s.exp ≤ sum.exp) (hce : ∀ s, csum = some s → s.exp ≤ sum.exp) :
    (total2Of sum dsum csum).exp = sum.exp ∧
    (total2Of sum dsum csum).toRat = sum.toRat - optQ dsum + optQ csum := by
  unfold total2Of
  cases dsum with
  | none =>
    cases csum with
    | none => simp [optQ]
    | some y =>
      simp only [optQ, Option.map_none, Option.getD_none, Option.map_some, Option.getD_some, add_exp, true_and]
      rw [add_toRat _ _ (hce y rfl)]; ring
  | some x =>
    have hx1 : (sub exactOps sum x).exp = sum.exp := rfl
    cases csum with
    | none =>
      simp only [optQ, Option.map_none, Option.getD_none, Option.map_some, Option.getD_some, sub_exp, true_and]
      rw [sub_toRat _ _ (hde x rfl)]; ring
    | some y =>
      simp only [optQ, Option.map_some, Option.getD_some, add_exp, sub_exp, true_and]
      rw [add_toRat _ _ (by rw [hx1]; exact hce y rfl), sub_toRat _ _ (hde x rfl)]

theorem total2_bound (sumR S P Q D C n kd kc h : ℚ) (hS : |sumR - S| ≤ n * h) (hD : |D - sumR * P| ≤ kd * h)
    (hC : |C - sumR * Q| ≤ kc * h) (hP : |P| ≤ kd) (hQ : |Q| ≤ kc) (hh : 0 ≤ h) (hn : 0 ≤ n) :
    |sumR - D + C - S * (1 - P + Q)| ≤ (n * (1 + kd + kc) + kd + kc) * h := by
  have hkd : 0 ≤ kd := le_trans (abs_nonneg _) hP
  have hkc : 0 ≤ kc := le_trans (abs_nonneg _) hQ
  have hfac : |1 - P + Q| ≤ 1 + kd + kc := by
    have a1 := abs_add_le (1 - P) Q
    have a2 := abs_sub (1 : ℚ) P
    simp only [abs_one] at a2
    linarith
  have e : sumR - D + C - S * (1 - P + Q) = (sumR - S) * (1 - P + Q) - (D - sumR * P) + (C - sumR * Q) := by ring
  rw [e]
  have b1 : |(sumR - S) * (1 - P + Q)| ≤ (n * h) * (1 + kd + kc) := by
    rw [abs_mul]
    exact mul_le_mul hS hfac (abs_nonneg _) (by positivity)
  have t1 := abs_add_le ((sumR - S) * (1 - P + Q) - (D - sumR * P)) (C - sumR * Q)
  have t2 := abs_sub ((sumR - S) * (1 - P + Q)) (D - sumR * P)
  nlinarith

/-- a working value within N ≤ 99 half-units of the working precision of `q` is presented less
than one minor unit from `q` -/
theorem within_unit (c : ℕ) (a : Amount) (q N : ℚ) (hN : N ≤ 99) (h : |a.toRat - q| ≤ N * halfUlp (c + 2)) :
    |(a.rescaleX c).toRat - q| < 1 / ((pow10 c : ℤ) : ℚ) := by
  have h1 := rescaleX_err a c
  have hp := p10q_pos c
  have hp2 : ((pow10 (c + 2) : ℤ) : ℚ) = ((pow10 c : ℤ) : ℚ) * 100 := by
    unfold pow10; push_cast; ring
  have hu2 : halfUlp (c + 2) = 1 / (200 * ((pow10 c : ℤ) : ℚ)) := by
    unfold halfUlp; rw [hp2]; ring
  have hu : halfUlp c = 1 / (2 * ((pow10 c : ℤ) : ℚ)) := rfl
  calc |(a.rescaleX c).toRat - q|
      = |((a.rescaleX c).toRat - a.toRat) + (a.toRat - q)| := by ring_nf
    _ ≤ halfUlp c + N * halfUlp (c + 2) := le_trans (abs_add_le _ _) (add_le_add h1 h)
    _ ≤ 1 / (2 * ((pow10 c : ℤ) : ℚ)) + 99 * (1 / (200 * ((pow10 c : ℤ) : ℚ))) := by
        rw [hu2]
        have hpos200 : (0 : ℚ) ≤ 1 / (200 * ((pow10 c : ℤ) : ℚ)) := by positivity
        have := mul_le_mul_of_nonneg_right hN hpos200
        linarith
    _ < 1 / ((pow10 c : ℤ) : ℚ) := by
        rw [div_add' _ _ _ (by positivity), ← sub_pos]
        field_simp
        ring_nf
        positivity

/-! ## the exact side: projections of `Spec.C01.exactQ` -/

theorem exactQ_sum (d : Doc) :
    (Spec.C01.exactQ d).sum = (d.lines.filterMap (Spec.C01.lineTotalQ d.cur d.rates)).sum := by
  simp [Spec.C01.exactQ, List.filterMap_map, Function.comp_def]

theorem exactQ_discount (d : Doc) :
    (Spec.C01.exactQ d).discount = (d.discounts.map (Spec.C01.docAdjQ (Spec.C01.exactQ d).sum)).sum := by
  simp [Spec.C01.exactQ, List.map_map, Function.comp_def]

theorem exactQ_charge (d : Doc) :
    (Spec.C01.exactQ d).charge = (d.charges.map (Spec.C01.docAdjQ (Spec.C01.exactQ d).sum)).sum := by
  simp [Spec.C01.exactQ, List.map_map, Function.comp_def]

theorem docAdjQ_pct (s : ℚ) (x : DocAdj) (hx : PctOnly x) : Spec.C01.docAdjQ s x = s * pctQ x := by
  obtain ⟨p, hp, hz, hb, _⟩ := hx
  have hz' : (p.amount.value == 0) = false := hz
  simp [Spec.C01.docAdjQ, hp, hb, hz', pctQ, Spec.C01.pq]

theorem docAdjQ_sum_pct (s : ℚ) (xs : List DocAdj) (hx : ∀ x ∈ xs, PctOnly x) :
    (xs.map (Spec.C01.docAdjQ s)).sum = s * (xs.map pctQ).sum := by
  induction xs with
  | nil => simp
  | cons x xs ih =>
    simp only [List.map_cons, List.sum_cons]
    rw [ih (fun y hy => hx y (by simp [hy])), docAdjQ_pct s x (hx x (by simp))]
    ring

theorem exactQ_inc_none (d : Doc) (h : d.includes = none) : (Spec.C01.exactQ d).taxIncluded = 0 := by
  simp only [Spec.C01.exactQ, h, Spec.C01.rowTaxQ, List.map_map, Function.comp_def]
  simp [Function.comp_def]

theorem exactQ_total (d : Doc) :
    (Spec.C01.exactQ d).total = (Spec.C01.exactQ d).sum - (Spec.C01.exactQ d).discount
      + (Spec.C01.exactQ d).charge - (Spec.C01.exactQ d).taxIncluded := rfl

/-! ## the document class of step 1 and what `pre` guarantees for it -/

/-- precise rule, at least one line, every line of the class `AdjLine`, every document discount
and charge a percentage (≤ 100 %) of the sum -/
structure DocA (d : Doc) : Prop where
  rule : d.rule = .precise
  ne : d.lines ≠ []
  lines : ∀ l ∈ d.lines, AdjLine d.c l
  discounts : ∀ x ∈ d.discounts, PctOnly x
  charges : ∀ x ∈ d.charges, PctOnly x

/-- weight of `total` before the included tax is taken out: the lines' weight carried through
1 − Σ discount % + Σ charge %, plus one rounding per document discount / charge -/
def totalW (d : Doc) : ℕ :=
  sumW d.lines * (1 + d.discounts.length + d.charges.length) + d.discounts.length + d.charges.length

/-- the sum alone needs nothing about the document-level discounts and charges -/
theorem pre_sum_spec (d : Doc) (p : Pre) (hr : d.rule = .precise) (hlines : ∀ l ∈ d.lines, AdjLine d.c l)
    (h : pre exactOps d = .ok p) :
    |p.sum.toRat - (Spec.C01.exactQ d).sum| ≤ (sumW d.lines : ℚ) * halfUlp (d.c + 2) := by
  obtain ⟨lines, hl, hpl, hsum, _⟩ := pre_ok d p h
  rw [hr] at hl
  subst hpl
  have hrel := calcLines_rel d.cur d.c d.rates d.lines p.lines hlines hl
  have hS := rel_sum d.cur d.c d.rates _ _ hrel
  have hsq : p.sum.toRat = ((p.lines.filterMap (·.total)).map Amount.toRat).sum := by
    rw [hsum]; unfold lineSum; rw [foldl_accum_toRat]; simp [Amount.toRat]
  rw [← hsq, ← exactQ_sum] at hS
  exact hS

theorem pre_spec (d : Doc) (p : Pre) (hd : DocA d) (h : pre exactOps d = .ok p) :
    List.Forall₂ (LineRel d.cur d.rates d.c) d.lines p.lines ∧
    p.sum = lineSum exactOps d.c p.lines ∧ d.c + 2 ≤ p.sum.exp ∧
    |p.sum.toRat - (Spec.C01.exactQ d).sum| ≤ (sumW d.lines : ℚ) * halfUlp (d.c + 2) ∧
    p.discounts = d.discounts.map (docAdj exactOps .precise d.c p.sum) ∧
    p.charges = d.charges.map (docAdj exactOps .precise d.c p.sum) ∧
    p.rows = taxRows p.lines p.discounts p.charges ∧
    p.total2.exp = p.sum.exp ∧
    |p.total2.toRat - ((Spec.C01.exactQ d).sum - (Spec.C01.exactQ d).discount + (Spec.C01.exactQ d).charge)| ≤
      (totalW d : ℚ) * halfUlp (d.c + 2) := by
  obtain ⟨lines, hl, hpl, hsum, hdis, hch, hds, hcs, ht2, hrows⟩ := pre_ok d p h
  rw [hd.rule] at hl hdis hch
  subst hpl
  rw [← hsum] at hdis hch
  have hrel := calcLines_rel d.cur d.c d.rates d.lines p.lines hd.lines hl
  have hsexp : d.c + 2 ≤ p.sum.exp := by rw [hsum]; exact rel_sum_exp d.cur d.c d.rates _ _ hrel hd.ne
  have hcs' : d.c ≤ p.sum.exp := by omega
  have hS := rel_sum d.cur d.c d.rates _ _ hrel
  have hsq : p.sum.toRat = ((p.lines.filterMap (·.total)).map Amount.toRat).sum := by
    rw [hsum]; unfold lineSum; rw [foldl_accum_toRat]; simp [Amount.toRat]
  rw [← hsq, ← exactQ_sum] at hS
  obtain ⟨hde, hdq⟩ := adjSum_pct d.c p.sum d.discounts hd.discounts hcs'
  obtain ⟨hce, hcq⟩ := adjSum_pct d.c p.sum d.charges hd.charges hcs'
  rw [← hdis] at hde hdq
  rw [← hch] at hce hcq
  rw [← hds] at hde hdq
  rw [← hcs] at hce hcq
  obtain ⟨te, tq⟩ := total2_toRat p.sum p.dsum p.csum hde hce
  rw [← ht2] at te tq
  refine ⟨hrel, hsum, hsexp, hS, hdis, hch, hrows, te, ?_⟩
  rw [tq, exactQ_discount, exactQ_charge, docAdjQ_sum_pct _ _ hd.discounts, docAdjQ_sum_pct _ _ hd.charges]
  have hh : halfUlp p.sum.exp ≤ halfUlp (d.c + 2) := halfUlp_mono _ _ hsexp
  have h0 := halfUlp_nonneg (d.c + 2)
  have hkd : (0 : ℚ) ≤ (d.discounts.length : ℚ) := by positivity
  have hkc : (0 : ℚ) ≤ (d.charges.length : ℚ) := by positivity
  have b := total2_bound p.sum.toRat (Spec.C01.exactQ d).sum (d.discounts.map pctQ).sum (d.charges.map pctQ).sum
    (optQ p.dsum) (optQ p.csum) (sumW d.lines : ℚ) d.discounts.length d.charges.length (halfUlp (d.c + 2)) hS
    (le_trans hdq (mul_le_mul_of_nonneg_left hh hkd)) (le_trans hcq (mul_le_mul_of_nonneg_left hh hkc))
    (pctQ_sum_abs _ hd.discounts) (pctQ_sum_abs _ hd.charges) h0 (by positivity)
  have e : (Spec.C01.exactQ d).sum - (Spec.C01.exactQ d).sum * (d.discounts.map pctQ).sum
      + (Spec.C01.exactQ d).sum * (d.charges.map pctQ).sum =
      (Spec.C01.exactQ d).sum * (1 - (d.discounts.map pctQ).sum + (d.charges.map pctQ).sum) := by ring
  rw [e]
  refine le_trans b (le_of_eq ?_)
  unfold totalW
  push_cast
  ring

end Calc
end GoblVerif
