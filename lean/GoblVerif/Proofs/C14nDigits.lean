/-
  Helper lemmas for C07: decimal digits, spans, UTF-8 prefix code.
-/
import GoblVerif.Spec.C07

namespace GoblVerif.Proofs.C14n
open GoblVerif GoblVerif.Spec.C07

/-! ## decimal digits -/

structure DigitsOf (n : Nat) (pre : Chars) : Prop where
  ne : pre ≠ []
  dig : ∀ c ∈ pre, isDigit c = true
  lead : 0 < n → pre.head? ≠ some 48
  zero : n = 0 → pre = [48]
  val : natOfDigits pre = n

theorem natOfDigits_snoc (p : Chars) (d : Nat) : natOfDigits (p ++ [d]) = natOfDigits p * 10 + (d - 48) := by
  simp [natOfDigits, List.foldl_append]

theorem natDigitsAux_spec : ∀ (f n : Nat) (acc : Chars), n < f →
    ∃ pre, natDigitsAux f n acc = pre ++ acc ∧ DigitsOf n pre
  | 0, n, acc, h => by omega
  | f + 1, n, acc, h => by
    unfold natDigitsAux
    by_cases h10 : n < 10
    · rw [if_pos h10]
      refine ⟨[48 + n], rfl, ⟨by simp, ?_, ?_, ?_, ?_⟩⟩
      · intro c hc; simp at hc; subst hc; simp [isDigit]; omega
      · intro hn; simp; omega
      · intro hn; subst hn; rfl
      · simp [natOfDigits]
    · rw [if_neg h10]
      obtain ⟨p, hp, hd⟩ := natDigitsAux_spec f (n / 10) ((48 + n % 10) :: acc) (by omega)
      refine ⟨p ++ [48 + n % 10], by rw [hp]; simp, ⟨by simp, ?_, ?_, ?_, ?_⟩⟩
      · intro c hc
        rcases List.mem_append.mp hc with hc | hc
        · exact hd.dig c hc
        · simp at hc; subst hc; simp [isDigit]; omega
      · intro _
        have := hd.lead (by omega)
        cases p with
        | nil => exact absurd rfl hd.ne
        | cons a t => simpa using this
      · intro hn; omega
      · rw [natOfDigits_snoc, hd.val]; omega

theorem natDigits_spec (n : Nat) : DigitsOf n (natDigits n) := by
  obtain ⟨p, hp, hd⟩ := natDigitsAux_spec (n + 1) n [] (by omega)
  unfold natDigits; rw [hp]; simpa using hd

theorem natDigits_zero : natDigits 0 = [48] := (natDigits_spec 0).zero rfl

theorem natDigits_cons (n : Nat) : ∃ h t, natDigits n = h :: t ∧ isDigit h = true ∧ (0 < n → h ≠ 48) := by
  have hd := natDigits_spec n
  cases hn : natDigits n with
  | nil => exact absurd hn hd.ne
  | cons h t =>
    refine ⟨h, t, rfl, hd.dig h (by rw [hn]; simp), ?_⟩
    intro hpos; have := hd.lead hpos; rw [hn] at this; simpa using this

/-! ## spans of digits -/

/-- `r` does not continue a run of digits -/
def stops (r : Chars) : Prop := ∀ c t, r = c :: t → isDigit c = false

theorem spanDigits_append (a r : Chars) (ha : ∀ c ∈ a, isDigit c = true) (hr : stops r) :
    spanDigits (a ++ r) = (a, r) := by
  induction a with
  | nil =>
    cases r with
    | nil => rfl
    | cons c t => simp [spanDigits, hr c t rfl]
  | cons x xs ih =>
    have hx : isDigit x = true := ha x (by simp)
    have := ih (fun c hc => ha c (by simp [hc]))
    simp [spanDigits, hx, this]

theorem stops_of_delim {r : Chars} (h : delim r = true) : stops r := by
  intro c t e; subst e
  simp [delim] at h
  rcases h with (h | h) | h <;> subst h <;> decide

theorem stops_cons {c : Nat} {t : Chars} (h : isDigit c = false) : stops (c :: t) := by
  intro c' t' e; cases e; exact h

/-! ## UTF-8 is a prefix code -/

theorem utf8_prefix_free (c c' : Nat) (r r' : Bytes) (h : utf8 c ++ r = utf8 c' ++ r') : c = c' ∧ r = r' := by
  unfold utf8 at h
  split at h <;> split at h <;> (try split at h) <;> (try split at h) <;> (try split at h) <;> (try split at h) <;>
    simp only [List.cons_append, List.nil_append, List.cons.injEq] at h <;>
    (first | (constructor <;> omega) | (refine ⟨by omega, ?_⟩; first | exact h.2 | exact h.2.2 | exact h.2.2.2 | exact h.2.2.2.2))

theorem utf8s_injective : ∀ (a b : Chars), utf8s a = utf8s b → a = b
  | [], [] , _ => rfl
  | [], c :: cs, h => by
    simp only [utf8s, List.flatMap_nil, List.flatMap_cons] at h
    unfold utf8 at h; repeat' split at h
    all_goals simp at h
  | c :: cs, [], h => by
    simp only [utf8s, List.flatMap_nil, List.flatMap_cons] at h
    unfold utf8 at h; repeat' split at h
    all_goals simp at h
  | c :: cs, d :: ds, h => by
    simp only [utf8s, List.flatMap_cons] at h
    obtain ⟨e1, e2⟩ := utf8_prefix_free c d _ _ h
    rw [e1, utf8s_injective cs ds e2]


/-! ## byte-wise order of the UTF-8 encodings is code-point order -/

theorem ltS_cons (a b : Nat) (as bs : List Nat) :
    ltS (a :: as) (b :: bs) = (decide (a < b) || (a == b && ltS as bs)) := rfl

set_option linter.unusedSimpArgs false in
theorem ltS_utf8_char (c d : Nat) (x y : List Nat) :
    ltS (utf8 c ++ x) (utf8 d ++ y) = (decide (c < d) || (c == d && ltS x y)) := by
  unfold utf8
  split <;> split <;> (try split) <;> (try split) <;> (try split) <;> (try split) <;>
    simp only [List.cons_append, List.nil_append, ltS_cons] <;>
    cases ltS x y <;>
    apply Bool.eq_iff_iff.mpr <;>
    simp only [Bool.and_false, Bool.and_true, Bool.or_false, Bool.or_true, Bool.or_eq_true,
      Bool.and_eq_true, decide_eq_true_eq, beq_iff_eq, Bool.false_eq_true, or_false, and_true] <;>
    omega

/-- comparing the UTF-8 bytes lexicographically (Go's `<` on strings) is comparing the code points -/
theorem ltS_utf8s : ∀ (a b : Chars), ltS (utf8s a) (utf8s b) = ltS a b
  | [], [] => rfl
  | [], d :: ds => by
    simp only [utf8s, List.flatMap_nil, List.flatMap_cons]
    unfold utf8; repeat' split
    all_goals simp [ltS]
  | c :: cs, [] => by
    simp only [utf8s, List.flatMap_nil, List.flatMap_cons]
    unfold utf8; repeat' split
    all_goals simp [ltS]
  | c :: cs, d :: ds => by
    have ih := ltS_utf8s cs ds
    simp only [utf8s, List.flatMap_cons] at ih ⊢
    rw [ltS_utf8_char, ih, ltS_cons]

end GoblVerif.Proofs.C14n
