/-
  Error bounds, fifth part (C01): tighter, rational weights — the actual
  percentages instead of their bound of 100 % — for document discounts /
  charges, tax combos, the included category and advances.  Same document
  class (`DocCI`), same structure as `CalcErrorInc`; the line weights `lineW`
  are kept.
-/
import GoblVerif.Proofs.CalcErrorInc

namespace GoblVerif
open GoblVerif.Spec GoblVerif.Calc
namespace Calc
namespace Err

variable {ret : String → Bool}

theorem ratAbs_eq (x : ℚ) : ratAbs x = |x| := by
  unfold ratAbs
  split
  · rename_i h; rw [abs_of_neg h]
  · rename_i h; rw [abs_of_nonneg (not_lt.mp h)]

theorem pctA_eq (p : Pct) : pctA p = |p.amount.toRat| := ratAbs_eq _

theorem pctA_nonneg (p : Pct) : 0 ≤ pctA p := by rw [pctA_eq]; exact abs_nonneg _

theorem sum_nonneg' {α : Type} (xs : List α) (f : α → ℚ) (h : ∀ x ∈ xs, 0 ≤ f x) : 0 ≤ (xs.map f).sum := by
  induction xs with
  | nil => simp
  | cons x xs ih =>
    simp only [List.map_cons, List.sum_cons]
    have := h x (by simp)
    have := ih (fun y hy => h y (by simp [hy]))
    linarith

theorem sum_map_mul_constQ {α : Type} (xs : List α) (f : α → ℚ) (h : ℚ) :
    (xs.map (fun x => f x * h)).sum = (xs.map f).sum * h := by
  induction xs with
  | nil => simp
  | cons x xs ih => simp only [List.map_cons, List.sum_cons, ih]; ring

/-! ## document discounts / charges with their actual percentage -/

theorem adjL_nonneg (x : DocAdj) : 0 ≤ adjL x := by
  unfold adjL
  cases x.percent with
  | none => simp
  | some p =>
    simp only
    split
    · exact le_refl _
    · cases x.base with
      | none => exact pctA_nonneg p
      | some b => exact le_refl _

theorem adjR_nonneg (x : DocAdj) : 0 ≤ adjR x := by
  unfold adjR
  cases x.percent with
  | none => simp
  | some p => simp only; split <;> norm_num

theorem adjRowWQ_nonneg (s : ℕ) (x : DocAdj) : 0 ≤ adjRowWQ s x := by
  unfold adjRowWQ
  have := adjL_nonneg x
  have := adjR_nonneg x
  have : (0 : ℚ) ≤ (s : ℚ) := by positivity
  positivity

/-- one document discount / charge: a percentage of the sum inherits |percentage| of the sum's
error and adds one rounding; a percentage of an explicit base adds one rounding; a fixed amount is exact -/
theorem docAdj_okQ (c : ℕ) (sum : Amount) (x : DocAdj) (hx : DocAdjOk c x) (hs : c + 2 ≤ sum.exp) (S : ℚ) :
    |(docAdj exactOps .precise c sum x).amount.toRat - Spec.C01.docAdjQ S x| ≤
      adjL x * |sum.toRat - S| + adjR x * halfUlp (c + 2) := by
  have h0 := halfUlp_nonneg (c + 2)
  have ha := abs_nonneg (sum.toRat - S)
  rcases hx with ⟨p, hp, hz, _, hb | ⟨b, hb, hbe⟩⟩ | ⟨hp, he⟩
  · have hval : (docAdj exactOps .precise c sum x).amount = sum.mulX p.amount := by
      simp only [docAdj, hp, hz, hb, applyRule, pctOf, exact_mul, Bool.false_eq_true, if_false]
      exact up_self _ c (by rw [mulX_exp]; omega)
    have hz' : (p.amount.value == 0) = false := hz
    have hq : Spec.C01.docAdjQ S x = S * p.amount.toRat := by
      simp [Spec.C01.docAdjQ, hp, hb, hz', Spec.C01.pq]
    have hL : adjL x = |p.amount.toRat| := by simp [adjL, hp, hz, hb, pctA_eq]
    have hR : adjR x = 1 := by simp [adjR, hp, hz]
    rw [hval, hq, hL, hR]
    have h1 := le_trans (mulX_err sum p.amount) (halfUlp_mono _ _ hs)
    have e : (sum.mulX p.amount).toRat - S * p.amount.toRat =
        ((sum.mulX p.amount).toRat - sum.toRat * p.amount.toRat) + (sum.toRat - S) * p.amount.toRat := by ring
    rw [e]
    refine le_trans (abs_add_le _ _) ?_
    rw [abs_mul, mul_comm |sum.toRat - S|]
    linarith
  · have hu : up (up b (c + E)) c = up b (c + E) := up_self _ _ (by rw [up_exp]; omega)
    have hval : (docAdj exactOps .precise c sum x).amount = (up b (c + E)).mulX p.amount := by
      simp only [docAdj, hp, hz, hb, applyRule, pctOf, exact_mul, Bool.false_eq_true, if_false, hu]
      exact up_self _ c (by rw [mulX_exp, up_exp]; omega)
    have hz' : (p.amount.value == 0) = false := hz
    have hq : Spec.C01.docAdjQ S x = b.toRat * p.amount.toRat := by
      simp [Spec.C01.docAdjQ, hp, hb, hz', Spec.C01.pq]
    have hL : adjL x = 0 := by simp [adjL, hp, hz, hb]
    have hR : adjR x = 1 := by simp [adjR, hp, hz]
    rw [hval, hq, hL, hR]
    have h1 := mulX_err (up b (c + E)) p.amount
    rw [up_toRat] at h1
    have h2 : halfUlp (up b (c + E)).exp ≤ halfUlp (c + 2) := halfUlp_mono _ _ (by simp only [up_exp, E]; omega)
    linarith
  · have hval : (docAdj exactOps .precise c sum x).amount = up x.amount c := by
      rcases hp with hp | ⟨p, hp, hz⟩
      · simp only [docAdj, hp, applyRule]
      · simp only [docAdj, hp, hz, applyRule, if_true]
    have hq : Spec.C01.docAdjQ S x = x.amount.toRat := by
      rcases hp with hp | ⟨p, hp, hz⟩
      · simp [Spec.C01.docAdjQ, hp]
      · have hz' : (p.amount.value == 0) = true := hz
        simp [Spec.C01.docAdjQ, hp, hz']
    have hL : adjL x = 0 := by
      rcases hp with hp | ⟨p, hp, hz⟩
      · simp [adjL, hp]
      · simp [adjL, hp, hz]
    have hR : adjR x = 0 := by
      rcases hp with hp | ⟨p, hp, hz⟩
      · simp [adjR, hp]
      · simp [adjR, hp, hz]
    rw [hval, hq, up_toRat, hL, hR]
    simp

theorem docAdj_errQ (c : ℕ) (sum : Amount) (S : ℚ) (W : ℕ) (x : DocAdj) (hx : DocAdjOk c x) (hs : c + 2 ≤ sum.exp)
    (hS : |sum.toRat - S| ≤ (W : ℚ) * halfUlp (c + 2)) :
    |(docAdj exactOps .precise c sum x).amount.toRat - Spec.C01.docAdjQ S x| ≤ adjRowWQ W x * halfUlp (c + 2) := by
  have h1 := docAdj_okQ c sum x hx hs S
  have h2 := mul_le_mul_of_nonneg_left hS (adjL_nonneg x)
  unfold adjRowWQ
  nlinarith

/-! ## rows with rational weights -/

def exactRowsQ (d : Doc) : List (ℚ × List Combo × ℚ) :=
  d.lines.filterMap (fun l => (Spec.C01.lineTotalQ d.cur d.rates l).map (fun t => (t, l.taxes, (lineW l : ℚ)))) ++
  d.discounts.map (fun x => (-(Spec.C01.docAdjQ (Spec.C01.exactQ d).sum x), x.taxes, adjRowWQ (sumW d.lines) x)) ++
  d.charges.map (fun x => (Spec.C01.docAdjQ (Spec.C01.exactQ d).sum x, x.taxes, adjRowWQ (sumW d.lines) x))

def RowRelQ (c : ℕ) (rw : Row) (er : ℚ × List Combo × ℚ) : Prop :=
  rw.taxes = er.2.1 ∧ 0 ≤ er.2.2 ∧ |rw.total.toRat - er.1| ≤ er.2.2 * halfUlp (c + 2)

theorem lines_rowRelQ (cur : String) (c : ℕ) (rates : List XRate) (ls ls' : List Line)
    (h : List.Forall₂ (LineRel cur rates c) ls ls') :
    List.Forall₂ (RowRelQ c)
      (ls'.filterMap (fun l => l.total.map (fun t => ({ total := t, taxes := l.taxes } : Row))))
      (ls.filterMap (fun l => (Spec.C01.lineTotalQ cur rates l).map (fun t => (t, l.taxes, (lineW l : ℚ))))) := by
  induction h with
  | nil => exact List.Forall₂.nil
  | @cons l l' ls ls' hl _ ih =>
    obtain ⟨t, q, ht, htax, _, hq, herr⟩ := hl
    simp only [List.filterMap_cons, ht, hq, Option.map_some]
    exact List.Forall₂.cons ⟨htax, by positivity, herr⟩ ih

theorem adj_rowRelQ (c : ℕ) (sum : Amount) (S : ℚ) (W : ℕ) (xs : List DocAdj) (f : Amount → Amount) (g : ℚ → ℚ)
    (hfg : ∀ a q, |(f a).toRat - g q| = |a.toRat - q|)
    (hx : ∀ x ∈ xs, DocAdjOk c x) (hs : c + 2 ≤ sum.exp)
    (hS : |sum.toRat - S| ≤ (W : ℚ) * halfUlp (c + 2)) :
    List.Forall₂ (RowRelQ c)
      ((xs.map (docAdj exactOps .precise c sum)).map (fun x => ({ total := f x.amount, taxes := x.taxes } : Row)))
      (xs.map (fun x => (g (Spec.C01.docAdjQ S x), x.taxes, adjRowWQ W x))) := by
  rw [List.map_map, List.forall₂_map_left_iff, List.forall₂_map_right_iff]
  apply List.forall₂_same.mpr
  intro x hxm
  refine ⟨docAdj_taxes _ _ _ _, adjRowWQ_nonneg W x, ?_⟩
  simp only [Function.comp]
  rw [hfg]
  exact docAdj_errQ c sum S W x (hx x hxm) hs hS

theorem rows_relQ (d : Doc) (p : Pre) (hd : DocA d) (hpre : pre exactOps d = .ok p) :
    List.Forall₂ (RowRelQ d.c) p.rows (exactRowsQ d) := by
  obtain ⟨hrel, _, hsexp, hS, hdis, hch, hrows, _, _⟩ := pre_spec d p hd hpre
  rw [hrows]
  unfold taxRows exactRowsQ
  rw [hdis, hch]
  refine forall2_append (forall2_append (lines_rowRelQ _ _ _ _ _ hrel) ?_) ?_
  · exact adj_rowRelQ d.c p.sum _ (sumW d.lines) d.discounts neg (fun q => -q)
      (fun a q => by rw [neg_toRat]; rw [← abs_neg]; congr 1; ring) hd.discounts hsexp hS
  · exact adj_rowRelQ d.c p.sum _ (sumW d.lines) d.charges (fun a => a) (fun q => q)
      (fun a q => rfl) hd.charges hsexp hS

theorem rows_err_gQ (F : ℚ → List Combo → ℚ) (L : List Combo → ℚ) (c : ℕ) (inc : Option String)
    (rows : List Row) (ers : List (ℚ × List Combo × ℚ)) (hL0 : ∀ taxes, 0 ≤ L taxes)
    (hLip : ∀ taxes, (∀ cb ∈ taxes, ComboOk ret cb) → ∀ T t : ℚ, |F T taxes - F t taxes| ≤ L taxes * |T - t|)
    (h : List.Forall₂ (RowRelQ c) rows ers)
    (hrem : ∀ rw ∈ rows, (∀ cb ∈ rw.taxes, ComboOk ret cb) ∧
      ∀ q, |(remRow c inc rw).total.toRat - remQ inc q rw.taxes| ≤
        |rw.total.toRat - q| + (incB inc rw.taxes : ℚ) * halfUlp (c + 2)) :
    |(rows.map (fun rw => F (remRow c inc rw).total.toRat rw.taxes)).sum
      - (ers.map (fun er => F (remQ inc er.1 er.2.1) er.2.1)).sum| ≤
      (ers.map (fun er => (er.2.2 + (incB inc er.2.1 : ℚ)) * L er.2.1)).sum * halfUlp (c + 2) := by
  induction h with
  | nil => simp
  | @cons rw er rows ers hr _ ih =>
    obtain ⟨htax, _, herr⟩ := hr
    obtain ⟨hcb, hq⟩ := hrem rw (by simp)
    have ih' := ih (fun x hx => hrem x (by simp [hx]))
    simp only [List.map_cons, List.sum_cons]
    rw [← htax]
    have h1 := hLip rw.taxes hcb (remRow c inc rw).total.toRat (remQ inc er.1 rw.taxes)
    have h2 := hq er.1
    have hk := hL0 rw.taxes
    have h3 := mul_le_mul_of_nonneg_left (le_trans h2 (add_le_add herr (le_refl _))) hk
    set A := (rows.map (fun rw => F (remRow c inc rw).total.toRat rw.taxes)).sum
    set B := (ers.map (fun er => F (remQ inc er.1 er.2.1) er.2.1)).sum
    have e : F (remRow c inc rw).total.toRat rw.taxes + A - (F (remQ inc er.1 rw.taxes) rw.taxes + B) =
        (F (remRow c inc rw).total.toRat rw.taxes - F (remQ inc er.1 rw.taxes) rw.taxes) + (A - B) := by ring
    rw [e]
    refine le_trans (abs_add_le _ _) ?_
    nlinarith

theorem lines_weightQ (cur : String) (c : ℕ) (rates : List XRate) (ls ls' : List Line)
    (h : List.Forall₂ (LineRel cur rates c) ls ls') (g : List Combo → ℚ → ℚ) :
    ((ls.filterMap (fun l => (Spec.C01.lineTotalQ cur rates l).map (fun t => (t, l.taxes, (lineW l : ℚ))))).map
      (fun er => g er.2.1 er.2.2)).sum = (ls.map (fun l => g l.taxes (lineW l : ℚ))).sum := by
  induction h with
  | nil => rfl
  | @cons l l' ls ls' hl _ ih =>
    obtain ⟨t, q, _, _, _, hq, _⟩ := hl
    simp only [List.filterMap_cons, hq, Option.map_some, List.map_cons, List.sum_cons, ih]

theorem ers_weightQ (L : List Combo → ℚ) (inc : Option String) (d : Doc) (ls' : List Line)
    (hrel : List.Forall₂ (LineRel d.cur d.rates d.c) d.lines ls') :
    ((exactRowsQ d).map (fun er => (er.2.2 + (incB inc er.2.1 : ℚ)) * L er.2.1)).sum = rowsWLQ L inc d := by
  unfold exactRowsQ rowsWLQ
  simp only [List.map_append, List.sum_append, List.map_map, Function.comp_def]
  rw [lines_weightQ d.cur d.c d.rates d.lines ls' hrel (fun taxes W => (W + (incB inc taxes : ℚ)) * L taxes)]

theorem exactRowsQ_fst (d : Doc) :
    (exactRowsQ d).map (fun er => (er.1, er.2.1)) = (exactRowsW d).map (fun er => (er.1, er.2.1)) := by
  simp only [exactRowsQ, exactRowsW, List.map_append, List.map_map, List.map_filterMap, Function.comp_def,
    Option.map_map]

theorem exactQ_tax_rowsQ (d : Doc) :
    (Spec.C01.exactQ d).tax =
      ((exactRowsQ d).map (fun er => rowQ (remQ d.includes er.1 er.2.1) er.2.1)).sum := by
  rw [exactQ_tax_rows]
  have h := congrArg (fun l => (l.map (fun (r : ℚ × List Combo) => rowQ (remQ d.includes r.1 r.2) r.2)).sum) (exactRowsQ_fst d)
  simp only [List.map_map, Function.comp_def] at h
  exact h.symm

theorem exactQ_inc_rowsQ (d : Doc) :
    (Spec.C01.exactQ d).taxIncluded =
      ((exactRowsQ d).map (fun er => incG d.includes (remQ d.includes er.1 er.2.1) er.2.1)).sum := by
  rw [exactQ_inc_rows]
  have h := congrArg (fun l => (l.map (fun (r : ℚ × List Combo) => incG d.includes (remQ d.includes r.1 r.2) r.2)).sum) (exactRowsQ_fst d)
  simp only [List.map_map, Function.comp_def] at h
  exact h.symm

/-! ## Lipschitz constants with the actual percentages -/

theorem surC_abs (cb : Combo) : |surC cb| = (match cb.surcharge with | some s => pctA s | none => 0) := by
  unfold surC
  cases cb.surcharge with
  | none => simp
  | some s => simp [pctA_eq]

theorem comboQ_diffQ (T t : ℚ) (cb : Combo) : |comboQ T cb - comboQ t cb| ≤ cWQ cb * |T - t| := by
  have hu : |comboU T cb - comboU t cb| ≤ cWQ cb * |T - t| := by
    unfold comboU cWQ
    cases hp : cb.percent with
    | none => simp
    | some p =>
      simp only
      have e : T * (p.amount.toRat + surC cb) - t * (p.amount.toRat + surC cb) =
          (T - t) * (p.amount.toRat + surC cb) := by ring
      rw [e, abs_mul, mul_comm]
      have hs := surC_abs cb
      have hle : |p.amount.toRat + surC cb| ≤ pctA p + (match cb.surcharge with | some s => pctA s | none => 0) := by
        rw [← hs, pctA_eq]; exact abs_add_le _ _
      exact mul_le_mul_of_nonneg_right hle (abs_nonneg _)
  unfold comboQ
  split
  · have e : -(comboU T cb) - -(comboU t cb) = -(comboU T cb - comboU t cb) := by ring
    rw [e, abs_neg]; exact hu
  · exact hu

theorem cWQ_nonneg (cb : Combo) : 0 ≤ cWQ cb := by
  unfold cWQ
  cases cb.percent with
  | none => simp
  | some p =>
    simp only
    have := pctA_nonneg p
    cases cb.surcharge with
    | none => simpa
    | some s => have := pctA_nonneg s; simp only; linarith

theorem comboWQ_nonneg (taxes : List Combo) : 0 ≤ comboWQ taxes :=
  sum_nonneg' _ _ (fun cb _ => cWQ_nonneg cb)

theorem rowQ_diffQ (T t : ℚ) (taxes : List Combo) : |rowQ T taxes - rowQ t taxes| ≤ comboWQ taxes * |T - t| := by
  rw [rowQ_eq T taxes, rowQ_eq t taxes]
  have := list_sum_diff_le' taxes (comboQ T) (comboQ t) (fun cb => cWQ cb * |T - t|)
    (fun cb _ => comboQ_diffQ T t cb)
  exact le_trans this (le_of_eq (sum_map_mul_constQ taxes cWQ _))

theorem kNQ_nonneg (inc : Option String) (taxes : List Combo) : 0 ≤ kNQ inc taxes := by
  unfold kNQ
  cases inc with
  | none => simp
  | some k =>
    apply sum_nonneg'
    intro cb _
    cases cb.percent with
    | none => simp
    | some p => exact pctA_nonneg p

theorem incG_diffQ (inc : Option String) (taxes : List Combo) (T t : ℚ) :
    |incG inc T taxes - incG inc t taxes| ≤ kNQ inc taxes * |T - t| := by
  cases inc with
  | none => simp [incG, kNQ]
  | some k =>
    simp only [incG, rowG, kNQ]
    have := list_sum_diff_le' (taxes.filter (fun cb => cb.cat == k)) (comboG selP T) (comboG selP t)
      (fun cb => (match cb.percent with | some p => pctA p | none => 0) * |T - t|)
      (by
        intro cb _
        unfold comboG
        cases hp : cb.percent with
        | none => simp
        | some p =>
          simp only
          have e : T * p.amount.toRat - t * p.amount.toRat = (T - t) * p.amount.toRat := by ring
          rw [e, abs_mul, mul_comm, pctA_eq])
    exact le_trans this (le_of_eq (sum_map_mul_constQ _ _ _))

/-! ## the tax and the included tax with the tight weights -/

/-- the working included tax against the reduced working rows: one half-unit per rate group of the
included category -/
theorem inc_working (d : Doc) (p : Pre) (tx : TaxTotal) (hd : DocTI ret d) (hpre : pre exactOps d = .ok p)
    (htx : taxTotal exactOps d.rule d.c d.includes p.rows = .ok tx) :
    (∀ x, taxIncluded d.includes tx = some x → x.exp ≤ p.sum.exp) ∧
    |optQ (taxIncluded d.includes tx) -
        (p.rows.map (fun rw => incG d.includes (remRow d.c d.includes rw).total.toRat rw.taxes)).sum| ≤
      (incGroupsOf d.includes tx.cats : ℚ) * halfUlp (d.c + 2) := by
  obtain ⟨hsexp, htx', hrows', hsumF, _⟩ := doc_reduced d p tx hd hpre htx
  have h0 := halfUlp_nonneg (d.c + 2)
  cases hinc : d.includes with
  | none =>
    refine ⟨fun x hx => by simp [taxIncluded] at hx, ?_⟩
    simp [taxIncluded, optQ, incG, incGroupsOf]
  | some k =>
    rw [hinc] at htx' hsumF hrows'
    obtain ⟨c1, c2⟩ := taxTotal_cat d.c p.sum.exp _ tx hrows' hsexp htx' k
    rw [hsumF (rowG selP k)] at c1 c2
    have hA : (p.rows.map (fun rw => incG (some k) (remRow d.c (some k) rw).total.toRat rw.taxes)).sum =
        (p.rows.map (fun rw => rowG selP k (remRow d.c (some k) rw).total.toRat rw.taxes)).sum := rfl
    rw [hA]
    cases hf : tx.cats.find? (fun ct => ct.code == k) with
    | none =>
      have hA0 := c1 hf
      refine ⟨fun x hx => by simp [taxIncluded, hf] at hx, ?_⟩
      simp only [taxIncluded, hf, optQ, Option.map_none, Option.getD_none, hA0, sub_self, abs_zero]
      positivity
    | some ct =>
      obtain ⟨g1, g2, g3, _⟩ := c2 ct hf
      obtain ⟨q1, q2⟩ := preciseAmount_ok d.c ct g2
      refine ⟨fun x hx => ?_, ?_⟩
      · simp only [taxIncluded, hf, Option.map_some, Option.some.injEq] at hx
        subst hx
        omega
      · simp only [taxIncluded, hf, optQ, Option.map_some, Option.getD_some, q1]
        have hG : incGroupsOf (some k) tx.cats = ct.rates.length := by simp [incGroupsOf, hf]
        rw [hG]
        exact g3

theorem doc_tax_incQ (d : Doc) (p : Pre) (tx : TaxTotal) (hd : DocTI ret d) (hpre : pre exactOps d = .ok p)
    (htx : taxTotal exactOps d.rule d.c d.includes p.rows = .ok tx) :
    tx.precise.exp ≤ p.sum.exp ∧
    |tx.precise.toRat - (Spec.C01.exactQ d).tax| ≤ taxWQ d (groupsOf tx.cats) * halfUlp (d.c + 2) ∧
    (∀ x, taxIncluded d.includes tx = some x → x.exp ≤ p.sum.exp) ∧
    |optQ (taxIncluded d.includes tx) - (Spec.C01.exactQ d).taxIncluded| ≤
      incWQ d (incGroupsOf d.includes tx.cats) * halfUlp (d.c + 2) := by
  obtain ⟨hrel, _, _, _, _, _, _, _, _⟩ := pre_spec d p hd.base hpre
  obtain ⟨hsexp, htx', hrows', hsumF, hremG⟩ := doc_reduced d p tx hd hpre htx
  obtain ⟨i1, i2⟩ := inc_working d p tx hd hpre htx
  have hrr := rows_relQ d p hd.base hpre
  obtain ⟨t1, t2⟩ := taxTotal_w d.c p.sum.exp _ tx hrows' hsexp htx'
  rw [hsumF rowQ] at t2
  have e1 := rows_err_gQ rowQ comboWQ d.c d.includes p.rows (exactRowsQ d) comboWQ_nonneg
    (fun taxes _ T t => rowQ_diffQ T t taxes) hrr hremG
  rw [ers_weightQ comboWQ d.includes d p.lines hrel, ← exactQ_tax_rowsQ] at e1
  have e2 := rows_err_gQ (incG d.includes) (kNQ d.includes) d.c d.includes p.rows (exactRowsQ d) (kNQ_nonneg d.includes)
    (fun taxes _ T t => incG_diffQ d.includes taxes T t) hrr hremG
  rw [ers_weightQ (kNQ d.includes) d.includes d p.lines hrel, ← exactQ_inc_rowsQ] at e2
  refine ⟨t1, ?_, i1, ?_⟩
  · set A := (p.rows.map (fun rw => rowQ (remRow d.c d.includes rw).total.toRat rw.taxes)).sum
    have e : tx.precise.toRat - (Spec.C01.exactQ d).tax = (tx.precise.toRat - A) + (A - (Spec.C01.exactQ d).tax) := by ring
    rw [e]
    refine le_trans (abs_add_le _ _) ?_
    unfold taxWQ
    linarith
  · set A := (p.rows.map (fun rw => incG d.includes (remRow d.c d.includes rw).total.toRat rw.taxes)).sum
    have e : optQ (taxIncluded d.includes tx) - (Spec.C01.exactQ d).taxIncluded =
        (optQ (taxIncluded d.includes tx) - A) + (A - (Spec.C01.exactQ d).taxIncluded) := by ring
    rw [e]
    refine le_trans (abs_add_le _ _) ?_
    unfold incWQ
    linarith

/-! ## payable, advances, due with the tight weights -/

theorem advRowWQ_nonneg (T : ℚ) (hT : 0 ≤ T) (a : Advance) : 0 ≤ advRowWQ T a := by
  unfold advRowWQ
  cases a.percent with
  | none => simp
  | some p => simp only; have := pctA_nonneg p; positivity

theorem calcAdvance_okQ (c : ℕ) (twt : Amount) (a : Advance) (ha : AdvOk c a) (htw : c + 2 ≤ twt.exp) (T W : ℚ)
    (hT : |twt.toRat - T| ≤ W * halfUlp (c + 2)) :
    |(calcAdvance exactOps c twt a).amount.toRat - advQ T a| ≤ advRowWQ W a * halfUlp (c + 2) := by
  have hh : halfUlp twt.exp ≤ halfUlp (c + 2) := halfUlp_mono _ _ htw
  rcases ha with ⟨p, hp, _⟩ | ⟨hp, he⟩
  · have hval : (calcAdvance exactOps c twt a).amount = twt.mulX p.amount := by
      simp only [calcAdvance, hp, pctOf, exact_mul]
      exact up_self _ c (by rw [mulX_exp]; omega)
    rw [hval]
    simp only [advQ, advRowWQ, hp, Spec.C01.pq]
    have h1 := mulX_err twt p.amount
    have e : (twt.mulX p.amount).toRat - T * p.amount.toRat =
        ((twt.mulX p.amount).toRat - twt.toRat * p.amount.toRat) + (twt.toRat - T) * p.amount.toRat := by ring
    rw [e]
    refine le_trans (abs_add_le _ _) ?_
    have h2 : |(twt.toRat - T) * p.amount.toRat| ≤ pctA p * (W * halfUlp (c + 2)) := by
      rw [abs_mul, mul_comm, pctA_eq]
      exact mul_le_mul_of_nonneg_left hT (abs_nonneg _)
    nlinarith
  · have hval : (calcAdvance exactOps c twt a).amount = up a.amount c := by
      simp only [calcAdvance, hp]
    rw [hval, up_toRat]
    simp [advQ, advRowWQ, hp]

theorem pay_chainQ (d : Doc) (twt : Amount) (W : ℚ) (hW : 0 ≤ W) (htwe : d.c + 2 ≤ twt.exp)
    (hTW : |twt.toRat - (Spec.C01.exactQ d).totalWithTax| ≤ W * halfUlp (d.c + 2))
    (hround : ∀ x, d.rounding = some x → x.exp ≤ d.c + 2) (hadv : ∀ a ∈ d.advances, AdvOk d.c a)
    (payable : Amount) (adv : Option Amount)
    (hpay : payable = (match d.rounding with | some x => add exactOps twt x | none => twt))
    (hadvT : adv = (if d.hasPayment then
        advanceTotal exactOps d.c (d.advances.map (calcAdvance exactOps d.c twt)) else none)) :
    |payable.toRat - (Spec.C01.exactQ d).payable| ≤ W * halfUlp (d.c + 2) ∧
    |optQ adv - (Spec.C01.exactQ d).advances| ≤ (d.advances.map (advRowWQ W)).sum * halfUlp (d.c + 2) ∧
    (∀ y, adv.map (fun x => sub exactOps payable x) = some y →
      |y.toRat - (Spec.C01.exactQ d).due| ≤ (W + (d.advances.map (advRowWQ W)).sum) * halfUlp (d.c + 2)) := by
  have h0 := halfUlp_nonneg (d.c + 2)
  have hsum0 : 0 ≤ (d.advances.map (advRowWQ W)).sum := sum_nonneg' _ _ (fun a _ => advRowWQ_nonneg W hW a)
  have hPe : payable.exp = twt.exp ∧
      |payable.toRat - (Spec.C01.exactQ d).payable| ≤ W * halfUlp (d.c + 2) := by
    rw [hpay, exactQ_payable]
    cases hr : d.rounding with
    | none => simp only [add_zero]; exact ⟨trivial, hTW⟩
    | some x =>
      simp only [add_exp]
      refine ⟨trivial, ?_⟩
      rw [add_toRat _ _ (by have := hround x hr; omega)]
      have e : twt.toRat + x.toRat - ((Spec.C01.exactQ d).totalWithTax + x.toRat) =
          twt.toRat - (Spec.C01.exactQ d).totalWithTax := by ring
      rw [e]; exact hTW
  have hAe : (∀ s, adv = some s → s.exp ≤ twt.exp) ∧
      |optQ adv - (Spec.C01.exactQ d).advances| ≤ (d.advances.map (advRowWQ W)).sum * halfUlp (d.c + 2) := by
    rw [hadvT, exactQ_advances]
    cases hp : d.hasPayment with
    | false =>
      simp only [Bool.false_eq_true, if_false]
      refine ⟨fun s hs => (by cases hs), ?_⟩
      simp only [optQ, Option.map_none, Option.getD_none, sub_self, abs_zero]
      positivity
    | true =>
      simp only [if_true]
      have hok : ∀ a ∈ d.advances.map (calcAdvance exactOps d.c twt), a.amount.exp ≤ twt.exp := by
        intro a ha
        simp only [List.mem_map] at ha
        obtain ⟨a0, ha0, rfl⟩ := ha
        exact (calcAdvance_ok d.c twt a0 (hadv a0 ha0) htwe 0).1
      obtain ⟨a1, a2⟩ := advanceTotal_w d.c twt.exp _ (by omega) hok
      refine ⟨a1, ?_⟩
      rw [a2, List.map_map]
      have hB : ∀ a ∈ d.advances, |((fun a => a.amount.toRat) ∘ calcAdvance exactOps d.c twt) a
          - advQ (Spec.C01.exactQ d).totalWithTax a| ≤ advRowWQ W a * halfUlp (d.c + 2) := by
        intro a ha
        exact calcAdvance_okQ d.c twt a (hadv a ha) htwe _ W hTW
      refine le_trans (list_sum_diff_le' d.advances _ _ _ hB) (le_of_eq ?_)
      exact sum_map_mul_constQ _ _ _
  refine ⟨hPe.2, hAe.2, ?_⟩
  intro y hy
  cases ha : adv with
  | none => rw [ha] at hy; cases hy
  | some s =>
    rw [ha] at hy
    simp only [Option.map_some, Option.some.injEq] at hy
    subst hy
    rw [sub_toRat _ _ (by rw [hPe.1]; exact hAe.1 s ha), exactQ_due]
    have h2 := hAe.2
    rw [ha] at h2
    simp only [optQ, Option.map_some, Option.getD_some] at h2
    have e : payable.toRat - s.toRat -
        ((Spec.C01.exactQ d).payable - (Spec.C01.exactQ d).advances) =
        (payable.toRat - (Spec.C01.exactQ d).payable) - (s.toRat - (Spec.C01.exactQ d).advances) := by ring
    rw [e]
    refine le_trans (abs_sub _ _) ?_
    have := hPe.2
    linarith

/-! ## all working totals with the tight weights -/

theorem adjWQ_nonneg (s : ℕ) (xs : List DocAdj) : 0 ≤ adjWQ s xs :=
  sum_nonneg' _ _ (fun x _ => adjRowWQ_nonneg s x)

theorem rowsWLQ_nonneg (L : List Combo → ℚ) (hL : ∀ t, 0 ≤ L t) (inc : Option String) (d : Doc) : 0 ≤ rowsWLQ L inc d := by
  unfold rowsWLQ
  have a1 : 0 ≤ (d.lines.map (fun l => ((lineW l : ℚ) + (incB inc l.taxes : ℚ)) * L l.taxes)).sum :=
    sum_nonneg' _ _ (fun l _ => by have := hL l.taxes; positivity)
  have a2 : 0 ≤ (d.discounts.map (fun x => (adjRowWQ (sumW d.lines) x + (incB inc x.taxes : ℚ)) * L x.taxes)).sum :=
    sum_nonneg' _ _ (fun x _ => by have := hL x.taxes; have := adjRowWQ_nonneg (sumW d.lines) x; positivity)
  have a3 : 0 ≤ (d.charges.map (fun x => (adjRowWQ (sumW d.lines) x + (incB inc x.taxes : ℚ)) * L x.taxes)).sum :=
    sum_nonneg' _ _ (fun x _ => by have := hL x.taxes; have := adjRowWQ_nonneg (sumW d.lines) x; positivity)
  linarith

theorem adjSum_okQ (c : ℕ) (sum : Amount) (xs : List DocAdj) (S : ℚ) (W : ℕ) (hx : ∀ x ∈ xs, DocAdjOk c x)
    (hs : c + 2 ≤ sum.exp) (hS : |sum.toRat - S| ≤ (W : ℚ) * halfUlp (c + 2)) :
    |optQ (adjSum exactOps c (xs.map (docAdj exactOps .precise c sum))) - (xs.map (Spec.C01.docAdjQ S)).sum| ≤
      adjWQ W xs * halfUlp (c + 2) := by
  have hq : optQ (adjSum exactOps c (xs.map (docAdj exactOps .precise c sum))) =
      (xs.map (fun x => (docAdj exactOps .precise c sum x).amount.toRat)).sum := by
    unfold optQ adjSum
    split
    · rename_i he
      have : xs.map (docAdj exactOps .precise c sum) = [] := by simpa using he
      have hxs : xs = [] := by simpa using this
      simp [hxs]
    · simp only [Option.map_some, Option.getD_some]
      rw [foldl_accum_toRat]
      simp [Amount.toRat, List.map_map, Function.comp_def]
  rw [hq]
  refine le_trans (list_sum_diff_le' xs _ _ (fun x => adjRowWQ W x * halfUlp (c + 2))
    (fun x hxm => docAdj_errQ c sum S W x (hx x hxm) hs hS)) (le_of_eq ?_)
  unfold adjWQ
  exact sum_map_mul_constQ _ _ _

theorem working_spec_incQ (d : Doc) (p : Pre) (tx : TaxTotal) (hd : DocCI ret d) (hpre : pre exactOps d = .ok p)
    (htx : taxTotal exactOps d.rule d.c d.includes p.rows = .ok tx) :
    |(rawTotals exactOps d p tx).sum.toRat - (Spec.C01.exactQ d).sum| ≤
      (sumW d.lines : ℚ) * halfUlp (d.c + 2) ∧
    |optQ (rawTotals exactOps d p tx).discount - (Spec.C01.exactQ d).discount| ≤
      adjWQ (sumW d.lines) d.discounts * halfUlp (d.c + 2) ∧
    |optQ (rawTotals exactOps d p tx).charge - (Spec.C01.exactQ d).charge| ≤
      adjWQ (sumW d.lines) d.charges * halfUlp (d.c + 2) ∧
    |optQ (rawTotals exactOps d p tx).taxIncluded - (Spec.C01.exactQ d).taxIncluded| ≤
      incWQ d (incGroupsOf d.includes tx.cats) * halfUlp (d.c + 2) ∧
    |(rawTotals exactOps d p tx).total.toRat - (Spec.C01.exactQ d).total| ≤
      totalWQ d (incGroupsOf d.includes tx.cats) * halfUlp (d.c + 2) ∧
    |(rawTotals exactOps d p tx).tax.toRat - (Spec.C01.exactQ d).tax| ≤
      taxWQ d (groupsOf tx.cats) * halfUlp (d.c + 2) ∧
    |(rawTotals exactOps d p tx).totalWithTax.toRat - (Spec.C01.exactQ d).totalWithTax| ≤
      twtWQ d (groupsOf tx.cats) (incGroupsOf d.includes tx.cats) * halfUlp (d.c + 2) ∧
    |(rawTotals exactOps d p tx).payable.toRat - (Spec.C01.exactQ d).payable| ≤
      twtWQ d (groupsOf tx.cats) (incGroupsOf d.includes tx.cats) * halfUlp (d.c + 2) ∧
    |optQ (rawTotals exactOps d p tx).advances - (Spec.C01.exactQ d).advances| ≤
      advWQ d (groupsOf tx.cats) (incGroupsOf d.includes tx.cats) * halfUlp (d.c + 2) ∧
    (∀ y, (rawTotals exactOps d p tx).due = some y →
      |y.toRat - (Spec.C01.exactQ d).due| ≤
        dueWQ d (groupsOf tx.cats) (incGroupsOf d.includes tx.cats) * halfUlp (d.c + 2)) ∧
    0 ≤ twtWQ d (groupsOf tx.cats) (incGroupsOf d.includes tx.cats) := by
  have hA := hd.tax.base
  obtain ⟨_, _, _, _, _, _, hds, hcs, ht2, _⟩ := pre_unpack d p hpre
  obtain ⟨hrel, hsum, hsexp, hS, hdis, hch, hrows, te, _⟩ := pre_spec d p hA hpre
  obtain ⟨x1, x2, x3, x4⟩ := doc_tax_incQ d p tx hd.tax hpre htx
  have h0 := halfUlp_nonneg (d.c + 2)
  set G := groupsOf tx.cats
  set Gk := incGroupsOf d.includes tx.cats
  have hD := adjSum_okQ d.c p.sum d.discounts (Spec.C01.exactQ d).sum (sumW d.lines) hA.discounts hsexp hS
  have hC := adjSum_okQ d.c p.sum d.charges (Spec.C01.exactQ d).sum (sumW d.lines) hA.charges hsexp hS
  have hde := (adjSum_ok d.c p.sum d.discounts (Spec.C01.exactQ d).sum hA.discounts hsexp).1
  have hce := (adjSum_ok d.c p.sum d.charges (Spec.C01.exactQ d).sum hA.charges hsexp).1
  rw [← hdis, ← hds] at hD hde
  rw [← hch, ← hcs] at hC hce
  rw [← exactQ_discount] at hD
  rw [← exactQ_charge] at hC
  obtain ⟨_, tq⟩ := total2_toRat p.sum p.dsum p.csum hde hce
  rw [← ht2] at tq
  have hb : |p.total2.toRat - ((Spec.C01.exactQ d).sum - (Spec.C01.exactQ d).discount + (Spec.C01.exactQ d).charge)| ≤
      total2WQ d * halfUlp (d.c + 2) := by
    rw [tq]
    have e : p.sum.toRat - optQ p.dsum + optQ p.csum - ((Spec.C01.exactQ d).sum - (Spec.C01.exactQ d).discount + (Spec.C01.exactQ d).charge) =
        (p.sum.toRat - (Spec.C01.exactQ d).sum) - (optQ p.dsum - (Spec.C01.exactQ d).discount)
          + (optQ p.csum - (Spec.C01.exactQ d).charge) := by ring
    rw [e]
    have t1 := abs_add_le ((p.sum.toRat - (Spec.C01.exactQ d).sum) - (optQ p.dsum - (Spec.C01.exactQ d).discount))
      (optQ p.csum - (Spec.C01.exactQ d).charge)
    have t2 := abs_sub (p.sum.toRat - (Spec.C01.exactQ d).sum) (optQ p.dsum - (Spec.C01.exactQ d).discount)
    unfold total2WQ
    linarith
  have f5 : (rawTotals exactOps d p tx).total =
      (match taxIncluded d.includes tx with | some x => sub exactOps p.total2 x | none => p.total2) := rfl
  have hT3 : (rawTotals exactOps d p tx).total.exp = p.sum.exp ∧
      (rawTotals exactOps d p tx).total.toRat = p.total2.toRat - optQ (taxIncluded d.includes tx) := by
    rw [f5]
    cases hc : taxIncluded d.includes tx with
    | none => simp [optQ, te]
    | some x =>
      simp only [sub_exp, optQ, Option.map_some, Option.getD_some]
      exact ⟨te, sub_toRat _ _ (by rw [te]; exact x3 x hc)⟩
  have hT : |(rawTotals exactOps d p tx).total.toRat - (Spec.C01.exactQ d).total| ≤
      totalWQ d Gk * halfUlp (d.c + 2) := by
    rw [hT3.2, exactQ_total]
    have e : p.total2.toRat - optQ (taxIncluded d.includes tx) - ((Spec.C01.exactQ d).sum - (Spec.C01.exactQ d).discount
          + (Spec.C01.exactQ d).charge - (Spec.C01.exactQ d).taxIncluded) =
        (p.total2.toRat - ((Spec.C01.exactQ d).sum - (Spec.C01.exactQ d).discount + (Spec.C01.exactQ d).charge))
        - (optQ (taxIncluded d.includes tx) - (Spec.C01.exactQ d).taxIncluded) := by ring
    rw [e]
    refine le_trans (abs_sub _ _) ?_
    unfold totalWQ; linarith
  have f7 : (rawTotals exactOps d p tx).totalWithTax = add exactOps (rawTotals exactOps d p tx).total tx.precise := rfl
  have htwe : (rawTotals exactOps d p tx).totalWithTax.exp = p.sum.exp := by rw [f7, add_exp]; exact hT3.1
  have hTW : |(rawTotals exactOps d p tx).totalWithTax.toRat - (Spec.C01.exactQ d).totalWithTax| ≤
      twtWQ d G Gk * halfUlp (d.c + 2) := by
    rw [f7, add_toRat _ _ (by rw [hT3.1]; exact x1), exactQ_twt]
    have e : (rawTotals exactOps d p tx).total.toRat + tx.precise.toRat - ((Spec.C01.exactQ d).total + (Spec.C01.exactQ d).tax) =
        ((rawTotals exactOps d p tx).total.toRat - (Spec.C01.exactQ d).total) + (tx.precise.toRat - (Spec.C01.exactQ d).tax) := by ring
    rw [e]
    refine le_trans (abs_add_le _ _) ?_
    unfold twtWQ; linarith
  have hW0 : 0 ≤ twtWQ d G Gk := by
    unfold twtWQ totalWQ total2WQ incWQ taxWQ
    have a1 := adjWQ_nonneg (sumW d.lines) d.discounts
    have a2 := adjWQ_nonneg (sumW d.lines) d.charges
    have a3 := rowsWLQ_nonneg comboWQ comboWQ_nonneg d.includes d
    have a4 := rowsWLQ_nonneg (kNQ d.includes) (kNQ_nonneg d.includes) d.includes d
    have a5 : (0 : ℚ) ≤ (sumW d.lines : ℚ) := by positivity
    have a6 : (0 : ℚ) ≤ (G : ℚ) := by positivity
    have a7 : (0 : ℚ) ≤ (Gk : ℚ) := by positivity
    linarith
  have hpc := pay_chainQ d (rawTotals exactOps d p tx).totalWithTax (twtWQ d G Gk) hW0 (by rw [htwe]; exact hsexp) hTW
    hd.rounding hd.advances (rawTotals exactOps d p tx).payable (rawTotals exactOps d p tx).advances
    (by simp only [rawTotals]; cases d.rounding <;> rfl) rfl
  obtain ⟨p1, p2, p3⟩ := hpc
  refine ⟨hS, hD, hC, x4, hT, x2, hTW, p1, ?_, ?_, hW0⟩
  · unfold advWQ; exact p2
  · intro y hy
    unfold dueWQ advWQ
    exact p3 y hy

theorem docWeightQ_eq (d : Doc) (out : Out) (t : Totals) (hcalc : calculate exactOps d = .ok out)
    (ht : out.totals = some t) : docWeightQ d = dueWQ d (groupsT t) (incGroupsT d.includes t) := by
  unfold docWeightQ
  rw [hcalc]
  simp only [ht]

/-- every tight weight is at most the weight of the amount due -/
theorem weightsQ_le (d : Doc) (G Gk : ℕ) :
    (sumW d.lines : ℚ) ≤ dueWQ d G Gk ∧ adjWQ (sumW d.lines) d.discounts ≤ dueWQ d G Gk ∧
    adjWQ (sumW d.lines) d.charges ≤ dueWQ d G Gk ∧ incWQ d Gk ≤ dueWQ d G Gk ∧
    totalWQ d Gk ≤ dueWQ d G Gk ∧ taxWQ d G ≤ dueWQ d G Gk ∧ twtWQ d G Gk ≤ dueWQ d G Gk ∧
    advWQ d G Gk ≤ dueWQ d G Gk ∧ 0 ≤ dueWQ d G Gk := by
  have a1 := adjWQ_nonneg (sumW d.lines) d.discounts
  have a2 := adjWQ_nonneg (sumW d.lines) d.charges
  have a3 := rowsWLQ_nonneg comboWQ comboWQ_nonneg d.includes d
  have a4 := rowsWLQ_nonneg (kNQ d.includes) (kNQ_nonneg d.includes) d.includes d
  have a5 : (0 : ℚ) ≤ (sumW d.lines : ℚ) := by positivity
  have a6 : (0 : ℚ) ≤ (G : ℚ) := by positivity
  have a7 : (0 : ℚ) ≤ (Gk : ℚ) := by positivity
  have hW0 : 0 ≤ twtWQ d G Gk := by
    unfold twtWQ totalWQ total2WQ incWQ taxWQ; linarith
  have a8 : 0 ≤ advWQ d G Gk := sum_nonneg' _ _ (fun a _ => advRowWQ_nonneg _ hW0 a)
  unfold dueWQ
  unfold twtWQ totalWQ total2WQ incWQ taxWQ at hW0 ⊢
  refine ⟨?_, ?_, ?_, ?_, ?_, ?_, ?_, ?_, ?_⟩ <;> linarith

end Err
end Calc
end GoblVerif
