/-
  Order independence of the tax groups: for every category and key the group
  that `baseRateTotals` builds has the same base — value AND precision — and
  hence the same amount and surcharge, whatever the order of the rows.
-/
import GoblVerif.Proofs.CalcGroups
import Mathlib.Algebra.BigOperators.Group.Finset.Piecewise
import Mathlib.Algebra.BigOperators.Group.Finset.Basic

namespace GoblVerif.Calc

/-- how a base's exponent moves when `t` is added: unchanged under the currency rule, raised to `t`'s otherwise -/
def expStep (r : Rule) (e : ℕ) (t : Amount) : ℕ :=
  match r with
  | .currency => e
  | _ => max e t.exp

theorem base_step_exp (r : Rule) (base t : Amount) :
    (add exactOps (mrp r base t) t).exp = expStep r base.exp t := by
  cases r <;> simp [add, mrp, expStep, up_exp]

/-- the first group with key `k`: its base as a rational and the base's exponent -/
def groupInfo (k : Key) (rts : List RateTotal) : Option (ℚ × ℕ) :=
  (rts.find? (fun rt => rtKey rt = k)).map (fun rt => (rt.base.toRat, rt.base.exp))

/-- one contribution to a group record (`none` = the group does not exist yet: it starts from zero at the currency's exponent) -/
def infoStep (r : Rule) (c : ℕ) (t : Amount) (g : Option (ℚ × ℕ)) : Option (ℚ × ℕ) :=
  match g with
  | some (b, e) => some (b + contrib r c t, expStep r e t)
  | none => some (contrib r c t, expStep r c t)

theorem addToRates_info (r : Rule) (c : ℕ) (cb : Combo) (t : Amount) (k : Key) (rts : List RateTotal)
    (hok : RatesOk r c rts) :
    groupInfo k (addToRates exactOps r c cb t rts) =
      if comboKey cb = k then infoStep r c t (groupInfo k rts) else groupInfo k rts := by
  induction rts with
  | nil =>
    obtain ⟨h1, _⟩ := base_step r c ⟨0, c⟩ t (fun _ => rfl)
    have he := base_step_exp r ⟨0, c⟩ t
    have hk : rtKey { newRate c cb with base := add exactOps (mrp r (newRate c cb).base t) t } = comboKey cb := by
      simp only [rtKey, newRate, comboKey, Prod.mk.injEq, true_and]
      cases cb.percent with
      | none => rfl
      | some p => cases cb.surcharge <;> simp
    simp only [addToRates, groupInfo, List.find?_cons, hk, List.find?_nil]
    by_cases hkk : comboKey cb = k
    · simp only [hkk, decide_true, Option.map_some, if_true, Option.map_none, infoStep, newRate]
      simp only [newRate] at h1 he
      rw [h1, he]
      simp [Amount.toRat]
    · simp [hkk]
  | cons rt rts ih =>
    have hok' : RatesOk r c rts := fun hr x hx => hok hr x (by simp [hx])
    simp only [addToRates]
    split
    · rename_i hm
      have hkey : rtKey rt = comboKey cb := (rtMatches_iff rt cb).mp hm
      obtain ⟨h1, _⟩ := base_step r c rt.base t (fun hr => hok hr rt (by simp))
      have he := base_step_exp r rt.base t
      have hk' : rtKey { rt with base := add exactOps (mrp r rt.base t) t } = rtKey rt := rfl
      simp only [groupInfo, List.find?_cons, hk', hkey]
      by_cases hkk : comboKey cb = k
      · simp only [hkk, decide_true, Option.map_some, if_true, infoStep, h1, he]
      · simp [hkk]
    · rename_i hm
      have hne : rtKey rt ≠ comboKey cb := by
        intro h; exact hm ((rtMatches_iff rt cb).mpr h)
      have ih' := ih hok'
      simp only [groupInfo, List.find?_cons] at ih' ⊢
      by_cases hrk : rtKey rt = k
      · have : comboKey cb ≠ k := by rw [← hrk]; exact fun h => hne h.symm
        simp [hrk, this]
      · simp only [hrk, decide_false]
        exact ih'

/-- the record of the group with key `k` in the (first) category with code `cat` -/
def catGroupInfo (cat : String) (k : Key) (cats : List CatTotal) : Option (ℚ × ℕ) :=
  (cats.find? (fun ct => ct.code == cat)).bind (fun ct => groupInfo k ct.rates)

theorem addToCats_info (r : Rule) (c : ℕ) (cb : Combo) (t : Amount) (cat : String) (k : Key)
    (cats : List CatTotal) (hok : CatsOk r c cats) :
    catGroupInfo cat k (addToCats exactOps r c cb t cats) =
      if cb.cat == cat ∧ comboKey cb = k then infoStep r c t (catGroupInfo cat k cats)
      else catGroupInfo cat k cats := by
  induction cats with
  | nil =>
    have h1 := addToRates_info r c cb t k [] (fun _ _ h => by simp at h)
    simp only [addToCats, catGroupInfo, List.find?_cons, List.find?_nil]
    by_cases hc : (cb.cat == cat) = true
    · simp only [hc, Option.bind_some, h1, true_and, Option.bind_none]
      simp [groupInfo]
    · simp [hc]
  | cons ct cts ih =>
    have hok' : CatsOk r c cts := fun x hx => hok x (by simp [hx])
    simp only [addToCats]
    split
    · rename_i hcode
      have hcode' : ct.code = cb.cat := by simpa using hcode
      have h1 := addToRates_info r c cb t k ct.rates (hok ct (by simp))
      simp only [catGroupInfo, List.find?_cons]
      by_cases hc : (cb.cat == cat) = true
      · have : (ct.code == cat) = true := by rw [hcode']; exact hc
        simp only [this, Option.bind_some, h1, hc, true_and]
      · have : (ct.code == cat) = false := by rw [hcode']; simpa using hc
        simp [this, hc]
    · rename_i hcode
      have hne : ct.code ≠ cb.cat := by simpa using hcode
      have ih' := ih hok'
      simp only [catGroupInfo, List.find?_cons] at ih' ⊢
      by_cases hcc : (ct.code == cat) = true
      · have hcat : ct.code = cat := by simpa using hcc
        have : ¬ ((cb.cat == cat) = true) := by
          intro h; apply hne; rw [hcat]; exact (by simpa using h : cb.cat = cat).symm
        simp [hcc, this]
      · simp only [hcc]
        exact ih'

/-- the contributions of one row to the group `(cat, k)`, in combo order -/
def rowSteps (cat : String) (k : Key) (rw : Row) : List Amount :=
  (rw.taxes.filter (fun cb => cb.cat == cat ∧ comboKey cb = k)).map (fun _ => rw.total)

theorem foldCombos_info (r : Rule) (c : ℕ) (cat : String) (k : Key) (t : Amount) (cbs : List Combo)
    (cats : List CatTotal) (hok : CatsOk r c cats) :
    catGroupInfo cat k (cbs.foldl (fun cats cb => addToCats exactOps r c cb t cats) cats) =
      ((cbs.filter (fun cb => cb.cat == cat ∧ comboKey cb = k)).map (fun _ => t)).foldl
        (fun g x => infoStep r c x g) (catGroupInfo cat k cats) ∧
    CatsOk r c (cbs.foldl (fun cats cb => addToCats exactOps r c cb t cats) cats) := by
  induction cbs generalizing cats with
  | nil => simp [hok]
  | cons cb cbs ih =>
    have h1 := addToCats_info r c cb t cat k cats hok
    have h2 := (addToCats_spec r c cb t cat cats hok).2
    obtain ⟨i1, i2⟩ := ih (addToCats exactOps r c cb t cats) h2
    refine ⟨?_, i2⟩
    rw [List.foldl_cons, i1, h1, List.filter_cons]
    by_cases hc : (cb.cat == cat) = true ∧ comboKey cb = k
    · simp only [hc, and_self, decide_true, if_true, List.map_cons, List.foldl_cons]
    · simp only [hc, decide_false, if_false, Bool.false_eq_true]

theorem baseRateTotals_info_aux (r : Rule) (c : ℕ) (cat : String) (k : Key) (rows : List Row)
    (cats : List CatTotal) (hok : CatsOk r c cats) :
    catGroupInfo cat k (rows.foldl (fun cats rw => rw.taxes.foldl (fun cats cb => addToCats exactOps r c cb rw.total cats) cats) cats) =
      (rows.flatMap (rowSteps cat k)).foldl (fun g x => infoStep r c x g) (catGroupInfo cat k cats) := by
  induction rows generalizing cats with
  | nil => simp
  | cons rw rows ih =>
    obtain ⟨h1, h2⟩ := foldCombos_info r c cat k rw.total rw.taxes cats hok
    rw [List.foldl_cons, ih _ h2, h1, List.flatMap_cons, List.foldl_append]
    rfl

/-- the record of every group is the fold of its contributions, in row order, from the empty record -/
theorem baseRateTotals_info (r : Rule) (c : ℕ) (cat : String) (k : Key) (rows : List Row) :
    catGroupInfo cat k (baseRateTotals exactOps r c rows) =
      (rows.flatMap (rowSteps cat k)).foldl (fun g x => infoStep r c x g) none := by
  have := baseRateTotals_info_aux r c cat k rows [] (fun _ h => by simp at h)
  simpa [baseRateTotals, catGroupInfo] using this

/-! ### closed form of the fold and order independence -/

theorem infoFold_some (r : Rule) (c : ℕ) (xs : List Amount) (b : ℚ) (e : ℕ) :
    xs.foldl (fun g x => infoStep r c x g) (some (b, e)) =
      some (b + (xs.map (contrib r c)).sum, xs.foldl (expStep r) e) := by
  induction xs generalizing b e with
  | nil => simp
  | cons x xs ih =>
    rw [List.foldl_cons]
    have hstep : infoStep r c x (some (b, e)) = some (b + contrib r c x, expStep r e x) := rfl
    rw [hstep, ih, List.map_cons, List.sum_cons, List.foldl_cons]
    congr 2
    ring

theorem infoFold_none (r : Rule) (c : ℕ) (xs : List Amount) :
    xs.foldl (fun g x => infoStep r c x g) none =
      if xs = [] then none else some ((xs.map (contrib r c)).sum, xs.foldl (expStep r) c) := by
  cases xs with
  | nil => rfl
  | cons x xs =>
    rw [List.foldl_cons]
    have hstep : infoStep r c x none = some (contrib r c x, expStep r c x) := rfl
    rw [hstep, infoFold_some, if_neg (by simp), List.map_cons, List.sum_cons, List.foldl_cons]

instance (r : Rule) : RightCommutative (expStep r) where
  right_comm e a b := by
    cases r <;> simp only [expStep] <;> omega

theorem infoFold_perm (r : Rule) (c : ℕ) (xs ys : List Amount) (h : xs.Perm ys) :
    xs.foldl (fun g x => infoStep r c x g) none = ys.foldl (fun g x => infoStep r c x g) none := by
  rw [infoFold_none, infoFold_none]
  have h1 : (xs.map (contrib r c)).sum = (ys.map (contrib r c)).sum := (h.map _).sum_eq
  have h2 : xs.foldl (expStep r) c = ys.foldl (expStep r) c := h.foldl_eq c
  have h3 : xs = [] ↔ ys = [] := by
    constructor
    · intro hx; subst hx; exact h.nil_eq.symm
    · intro hy; subst hy; exact h.eq_nil
  by_cases hx : xs = []
  · rw [if_pos hx, if_pos (h3.mp hx)]
  · rw [if_neg hx, if_neg (fun hy => hx (h3.mpr hy)), h1, h2]

/-- **Order independence of every group record** (base value and base precision). -/
theorem baseRateTotals_info_perm (r : Rule) (c : ℕ) (cat : String) (k : Key) (rows rows' : List Row)
    (h : rows.Perm rows') :
    catGroupInfo cat k (baseRateTotals exactOps r c rows) = catGroupInfo cat k (baseRateTotals exactOps r c rows') := by
  rw [baseRateTotals_info, baseRateTotals_info]
  exact infoFold_perm r c _ _ (h.flatMap_right _)

/-! ### what the summary shows of a group -/

def findGroup (cat : String) (k : Key) (cats : List CatTotal) : Option RateTotal :=
  (cats.find? (fun ct => ct.code == cat)).bind (fun ct => ct.rates.find? (fun rt => rtKey rt = k))

/-- base, amount and surcharge amount of a group (an exempt group has no surcharge amount: matching
ignores the surcharge of exempt combos, and the regimes never give them one) -/
def groupView (rt : RateTotal) : Amount × Amount × Option Amount :=
  (rt.base, rt.amount, match rt.percent with | some _ => rt.surcharge.map (·.2) | none => none)

theorem catGroupInfo_eq (cat : String) (k : Key) (cats : List CatTotal) :
    catGroupInfo cat k cats = (findGroup cat k cats).map (fun rt => (rt.base.toRat, rt.base.exp)) := by
  unfold catGroupInfo findGroup groupInfo
  cases cats.find? (fun ct => ct.code == cat) <;> simp

theorem rtKey_rateAmounts (rt : RateTotal) (c : ℕ) : rtKey (rateAmounts exactOps rt c) = rtKey rt := by
  unfold rateAmounts rtKey
  cases hp : rt.percent with
  | none => simp [hp]
  | some p =>
    simp only [hp, Option.map_some, Prod.mk.injEq, true_and, Option.some.injEq]
    cases rt.surcharge <;> simp

theorem findGroup_catAmounts (r : Rule) (c : ℕ) (cat : String) (k : Key) (cats : List CatTotal) :
    findGroup cat k (cats.map (catAmounts exactOps r c)) =
      (findGroup cat k cats).map (rateAmounts exactOps · c) := by
  unfold findGroup
  rw [List.find?_map]
  have hc : ((fun ct : CatTotal => ct.code == cat) ∘ catAmounts exactOps r c) = (fun ct : CatTotal => ct.code == cat) := by
    funext ct; rfl
  rw [hc]
  cases cats.find? (fun ct => ct.code == cat) with
  | none => rfl
  | some ct =>
    simp only [Option.map_some, Option.bind_some]
    have hr : (catAmounts exactOps r c ct).rates = ct.rates.map (rateAmounts exactOps · c) := rfl
    rw [hr, List.find?_map]
    have hk : ((fun rt : RateTotal => decide (rtKey rt = k)) ∘ (rateAmounts exactOps · c)) =
        (fun rt : RateTotal => decide (rtKey rt = k)) := by
      funext rt; simp [rtKey_rateAmounts]
    rw [hk]

/-- two groups with the same key and the same base (value and precision) show the same figures -/
theorem view_determined (rt rt' : RateTotal) (c : ℕ) (hk : rtKey rt = rtKey rt')
    (hb : rt.base.toRat = rt'.base.toRat) (he : rt.base.exp = rt'.base.exp) :
    groupView (rateAmounts exactOps rt c) = groupView (rateAmounts exactOps rt' c) := by
  have hbase : rt.base = rt'.base := amount_ext _ _ he hb
  have mul_congr : ∀ p q : Pct, p.amount.toRat = q.amount.toRat →
      pctOf exactOps p rt.base = pctOf exactOps q rt.base := by
    intro p q hpq
    simp only [pctOf, exact_mul]
    have h1 := mulX_spec rt.base p.amount
    have h2 := mulX_spec rt.base q.amount
    rw [hpq] at h1
    cases hx : rt.base.mulX p.amount; cases hy : rt.base.mulX q.amount
    rw [hx] at h1; rw [hy] at h2
    have e1 : (rt.base.mulX p.amount).exp = rt.base.exp := rfl
    have e2 : (rt.base.mulX q.amount).exp = rt.base.exp := rfl
    rw [hx] at e1; rw [hy] at e2
    simp only at h1 h2 e1 e2
    rw [h1, h2, e1, e2]
  unfold rtKey at hk
  simp only [Prod.mk.injEq] at hk
  obtain ⟨_, _, hpk⟩ := hk
  unfold groupView rateAmounts
  cases hp : rt.percent with
  | none =>
    cases hp' : rt'.percent with
    | none => simp [hp, hp', hbase]
    | some q => simp [hp, hp'] at hpk
  | some p =>
    cases hp' : rt'.percent with
    | none => simp [hp, hp'] at hpk
    | some q =>
      simp only [hp, hp', Option.map_some, Option.some.injEq, Prod.mk.injEq] at hpk
      obtain ⟨hpq, hs⟩ := hpk
      simp only [hp, hp', ← hbase, Prod.mk.injEq, true_and, Option.map_map]
      refine ⟨mul_congr p q hpq, ?_⟩
      cases hsr : rt.surcharge with
      | none =>
        cases hsr' : rt'.surcharge with
        | none => rfl
        | some y => simp [hsr, hsr'] at hs
      | some x =>
        cases hsr' : rt'.surcharge with
        | none => simp [hsr, hsr'] at hs
        | some y =>
          simp only [hsr, hsr', Option.map_some, Option.some.injEq] at hs
          simp only [Option.map_some, Function.comp, Option.some.injEq]
          exact mul_congr x.1 y.1 hs

/-- **Reordering the rows changes no tax group figure**: for every category and key, the group's base,
amount and surcharge amount are the same amounts (value and precision); a group exists for one order
exactly when it exists for the other. -/
theorem group_view_perm (r : Rule) (c : ℕ) (cat : String) (k : Key) (rows rows' : List Row)
    (h : rows.Perm rows') :
    (findGroup cat k ((baseRateTotals exactOps r c rows).map (catAmounts exactOps r c))).map groupView =
      (findGroup cat k ((baseRateTotals exactOps r c rows').map (catAmounts exactOps r c))).map groupView := by
  have hinfo := baseRateTotals_info_perm r c cat k rows rows' h
  rw [catGroupInfo_eq, catGroupInfo_eq] at hinfo
  rw [findGroup_catAmounts, findGroup_catAmounts]
  have key_of : ∀ cats rt, findGroup cat k cats = some rt → rtKey rt = k := by
    intro cats rt hf
    unfold findGroup at hf
    cases hc : cats.find? (fun ct => ct.code == cat) with
    | none => simp [hc] at hf
    | some ct =>
      simp only [hc, Option.bind_some] at hf
      have := List.find?_some hf
      simpa using this
  cases h1 : findGroup cat k (baseRateTotals exactOps r c rows) with
  | none =>
    cases h2 : findGroup cat k (baseRateTotals exactOps r c rows') with
    | none => rfl
    | some rt' => simp [h1, h2] at hinfo
  | some rt =>
    cases h2 : findGroup cat k (baseRateTotals exactOps r c rows') with
    | none => simp [h1, h2] at hinfo
    | some rt' =>
      simp only [h1, h2, Option.map_some, Option.some.injEq, Prod.mk.injEq] at hinfo
      simp only [Option.map_some, Option.some.injEq]
      exact view_determined rt rt' c ((key_of _ rt h1).trans (key_of _ rt' h2).symm) hinfo.1 hinfo.2

end GoblVerif.Calc

namespace GoblVerif.Calc

/-! ### category amounts -/

/-- a list sum split by key: for any finite set of keys containing the keys of the list -/
theorem sum_fiberwise {α κ : Type} [DecidableEq κ] (l : List α) (key : α → κ) (g : α → ℚ) (K : Finset κ)
    (hK : ∀ x ∈ l, key x ∈ K) :
    (l.map g).sum = K.sum (fun k => ((l.filter (fun x => key x = k)).map g).sum) := by
  induction l with
  | nil => simp
  | cons a l ih =>
    have ih' := ih (fun x hx => hK x (by simp [hx]))
    have ha : key a ∈ K := hK a (by simp)
    simp only [List.map_cons, List.sum_cons, ih']
    have : ∀ k, (((a :: l).filter (fun x => key x = k)).map g).sum =
        (if key a = k then g a else 0) + ((l.filter (fun x => key x = k)).map g).sum := by
      intro k
      by_cases h : key a = k <;> simp [List.filter_cons, h]
    simp only [this, Finset.sum_add_distrib]
    rw [Finset.sum_ite_eq K (key a) (fun _ => g a), if_pos ha]

/-- with pairwise different keys a key selects at most one element -/
theorem filter_sum_find {α κ : Type} [DecidableEq κ] (l : List α) (key : α → κ) (g : α → ℚ) (k : κ)
    (hd : l.Pairwise (fun a b => key a ≠ key b)) :
    ((l.filter (fun x => key x = k)).map g).sum = ((l.find? (fun x => key x = k)).map g).getD 0 := by
  induction l with
  | nil => rfl
  | cons a l ih =>
    have hd' := (List.pairwise_cons.mp hd).2
    have hhead := (List.pairwise_cons.mp hd).1
    by_cases h : key a = k
    · have hnone : l.filter (fun x => key x = k) = [] := by
        rw [List.filter_eq_nil_iff]
        intro x hx
        have := hhead x hx
        simp only [decide_eq_true_eq]
        intro hxk
        exact this (h.trans hxk.symm)
      simp [List.filter_cons, List.find?_cons, h, hnone]
    · simp only [List.filter_cons, List.find?_cons, h, decide_false, Bool.false_eq_true, if_false]
      exact ih hd'

theorem comboKey_keyCombo (rt : RateTotal) : comboKey (keyCombo rt) = rtKey rt := by
  unfold comboKey keyCombo rtKey
  simp only [Prod.mk.injEq, true_and]
  cases rt.percent with
  | none => rfl
  | some p => simp [Option.map_map, Function.comp_def]

theorem distinct_keys (rts : List RateTotal) (h : Distinct rts) :
    rts.Pairwise (fun a b => rtKey a ≠ rtKey b) := by
  unfold Distinct at h
  refine h.imp ?_
  intro a b hab
  rw [rtMatches_false_iff, comboKey_keyCombo] at hab
  exact hab

theorem taxedAmount_rateAmounts (r : Rule) (c : ℕ) (rt : RateTotal) :
    taxedAmount r c (rateAmounts exactOps rt c) = contrib r c (rateAmounts exactOps rt c).amount := by
  unfold taxedAmount rateAmounts
  cases hp : rt.percent with
  | none =>
    simp only [hp]
    cases r <;> simp [contrib, Amount.toRat, Amount.rescaleX]
  | some p => simp [hp]

/-- the amount of category `cat` as a rational (0 when the summary has no such category) -/
def catAmountQ (cat : String) (cats : List CatTotal) : ℚ :=
  ((cats.find? (fun ct => ct.code == cat)).map (fun ct => ct.amount.toRat)).getD 0

theorem catAmountQ_by_key (r : Rule) (c : ℕ) (cat : String) (rows : List Row) (K : Finset Key)
    (hK : ∀ ct ∈ baseRateTotals exactOps r c rows, ∀ rt ∈ ct.rates, rtKey rt ∈ K) :
    catAmountQ cat ((baseRateTotals exactOps r c rows).map (catAmounts exactOps r c)) =
      K.sum (fun k => ((findGroup cat k ((baseRateTotals exactOps r c rows).map (catAmounts exactOps r c))).map
        (fun rt => contrib r c (groupView rt).2.1)).getD 0) := by
  unfold catAmountQ findGroup
  rw [List.find?_map]
  have hc : ((fun ct : CatTotal => ct.code == cat) ∘ catAmounts exactOps r c) = (fun ct : CatTotal => ct.code == cat) := by
    funext ct; rfl
  rw [hc]
  cases hf : (baseRateTotals exactOps r c rows).find? (fun ct => ct.code == cat) with
  | none => simp
  | some ct =>
    have hmem : ct ∈ baseRateTotals exactOps r c rows := List.mem_of_find?_eq_some hf
    simp only [Option.map_some, Option.getD_some, Option.bind_some]
    rw [catAmounts_amount]
    have hr : (catAmounts exactOps r c ct).rates = ct.rates.map (rateAmounts exactOps · c) := rfl
    rw [hr]
    have hK' : ∀ x ∈ ct.rates.map (rateAmounts exactOps · c), rtKey x ∈ K := by
      intro x hx
      simp only [List.mem_map] at hx
      obtain ⟨y, hy, rfl⟩ := hx
      rw [rtKey_rateAmounts]
      exact hK ct hmem y hy
    rw [sum_fiberwise _ rtKey (taxedAmount r c) K hK']
    apply Finset.sum_congr rfl
    intro k _
    have hd : (ct.rates.map (rateAmounts exactOps · c)).Pairwise (fun a b => rtKey a ≠ rtKey b) := by
      rw [List.pairwise_map]
      refine (distinct_keys ct.rates (baseRateTotals_distinct r c rows ct hmem)).imp ?_
      intro a b hab
      rw [rtKey_rateAmounts, rtKey_rateAmounts]
      exact hab
    rw [filter_sum_find _ rtKey (taxedAmount r c) k hd]
    congr 1
    cases hfd : (ct.rates.map (rateAmounts exactOps · c)).find? (fun x => decide (rtKey x = k)) with
    | none => rfl
    | some rt' =>
      have hm := List.mem_of_find?_eq_some hfd
      simp only [List.mem_map] at hm
      obtain ⟨y, _, rfl⟩ := hm
      simp only [Option.map_some, taxedAmount_rateAmounts, groupView]

/-- **Reordering the rows changes no category amount.** -/
theorem catAmountQ_perm (r : Rule) (c : ℕ) (cat : String) (rows rows' : List Row) (h : rows.Perm rows') :
    catAmountQ cat ((baseRateTotals exactOps r c rows).map (catAmounts exactOps r c)) =
      catAmountQ cat ((baseRateTotals exactOps r c rows').map (catAmounts exactOps r c)) := by
  classical
  let keysOf (rs : List Row) : Finset Key :=
    ((baseRateTotals exactOps r c rs).flatMap (fun ct => ct.rates.map rtKey)).toFinset
  have hin : ∀ rs, ∀ ct ∈ baseRateTotals exactOps r c rs, ∀ rt ∈ ct.rates, rtKey rt ∈ keysOf rs := by
    intro rs ct hct rt hrt
    simp only [keysOf, List.mem_toFinset, List.mem_flatMap, List.mem_map]
    exact ⟨ct, hct, rt, hrt, rfl⟩
  rw [catAmountQ_by_key r c cat rows (keysOf rows ∪ keysOf rows')
        (fun ct hct rt hrt => Finset.mem_union_left _ (hin rows ct hct rt hrt)),
      catAmountQ_by_key r c cat rows' (keysOf rows ∪ keysOf rows')
        (fun ct hct rt hrt => Finset.mem_union_right _ (hin rows' ct hct rt hrt))]
  apply Finset.sum_congr rfl
  intro k _
  have hv := group_view_perm r c cat k rows rows' h
  cases h1 : findGroup cat k ((baseRateTotals exactOps r c rows).map (catAmounts exactOps r c)) with
  | none =>
    cases h2 : findGroup cat k ((baseRateTotals exactOps r c rows').map (catAmounts exactOps r c)) with
    | none => rfl
    | some y => simp [h1, h2] at hv
  | some x =>
    cases h2 : findGroup cat k ((baseRateTotals exactOps r c rows').map (catAmounts exactOps r c)) with
    | none => simp [h1, h2] at hv
    | some y =>
      simp only [h1, h2, Option.map_some, Option.some.injEq] at hv
      simp only [Option.map_some, Option.getD_some, hv]

end GoblVerif.Calc
