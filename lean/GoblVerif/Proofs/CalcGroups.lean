/-
  Rate groups by key.  A group is identified by (extensions, country,
  percentage | exempt, surcharge percentage) with percentages compared by
  value; every combo of every row contributes its row's total to the one group
  with its key, and a group's base does not depend on the order of the rows.
-/
import GoblVerif.Proofs.CalcTax
import GoblVerif.Proofs.CalcPerm

namespace GoblVerif.Calc

/-- the identity of a rate group: extensions, country, and — unless exempt — the percentage and the
surcharge percentage, compared by value (`20%` and `20.0%` are the same rate) -/
abbrev Key := String × String × Option (ℚ × Option ℚ)

def comboKey (cb : Combo) : Key :=
  (cb.ext, cb.country, cb.percent.map (fun p => (p.amount.toRat, cb.surcharge.map (·.amount.toRat))))

def rtKey (rt : RateTotal) : Key :=
  (rt.ext, rt.country, rt.percent.map (fun p => (p.amount.toRat, rt.surcharge.map (·.1.amount.toRat))))

theorem amtEq_iff (a b : Amount) : amtEq a b = true ↔ a.toRat = b.toRat := by
  unfold amtEq
  simp only [beq_iff_eq]
  set e := if b.exp > a.exp then b.exp else a.exp with he
  have hea : a.exp ≤ e := by rw [he]; split <;> omega
  have heb : b.exp ≤ e := by rw [he]; split <;> omega
  have h1 : (up a e).exp = (up b e).exp := by rw [up_exp, up_exp]; omega
  constructor
  · intro h
    have : up a e = up b e := by
      cases hx : up a e; cases hy : up b e
      rw [hx, hy] at h1; rw [hx, hy] at h
      simp only at h1 h
      rw [h1, h]
    rw [← up_toRat a e, ← up_toRat b e, this]
  · intro h
    have : up a e = up b e := amount_ext _ _ h1 (by rw [up_toRat, up_toRat, h])
    rw [this]

theorem pctEq_iff (p q : Pct) : pctEq p q = true ↔ p.amount.toRat = q.amount.toRat := amtEq_iff _ _

/-- `RateTotal.matches` is equality of keys -/
theorem rtMatches_iff (rt : RateTotal) (cb : Combo) : rtMatches rt cb = true ↔ rtKey rt = comboKey cb := by
  unfold rtMatches rtKey comboKey
  by_cases h1 : rt.ext = cb.ext
  · by_cases h2 : rt.country = cb.country
    · simp only [h1, h2, bne_self_eq_false, Bool.false_eq_true, if_false, Prod.mk.injEq, true_and]
      cases hp : rt.percent with
      | none => cases hq : cb.percent <;> simp
      | some p =>
        cases hq : cb.percent with
        | none => simp
        | some q =>
          simp only [Option.map_some, Option.some.injEq, Prod.mk.injEq, Bool.and_eq_true, pctEq_iff]
          cases hs : rt.surcharge with
          | none => cases hs' : cb.surcharge <;> simp [and_comm]
          | some s =>
            obtain ⟨sp, sa⟩ := s
            cases hs' : cb.surcharge with
            | none => simp
            | some sq => simp [pctEq_iff, and_comm]
    · have : (rt.country != cb.country) = true := by simpa using h2
      simp [h1, this, h2]
  · have : (rt.ext != cb.ext) = true := by simpa using h1
    simp [this, h1]

theorem rtMatches_false_iff (rt : RateTotal) (cb : Combo) : rtMatches rt cb = false ↔ rtKey rt ≠ comboKey cb := by
  rw [Ne, ← rtMatches_iff]; simp

/-- sum of the bases of the groups with key `k` (there is at most one, see `groups_pairwise_distinct`) -/
def groupBase (k : Key) (rts : List RateTotal) : ℚ :=
  ((rts.filter (fun rt => rtKey rt = k)).map (·.base.toRat)).sum

theorem addToRates_group (r : Rule) (c : ℕ) (cb : Combo) (t : Amount) (k : Key) (rts : List RateTotal)
    (hok : RatesOk r c rts) :
    groupBase k (addToRates exactOps r c cb t rts) =
      groupBase k rts + (if comboKey cb = k then contrib r c t else 0) := by
  induction rts with
  | nil =>
    obtain ⟨h1, _⟩ := base_step r c ⟨0, c⟩ t (fun _ => rfl)
    have hk : rtKey { newRate c cb with base := add exactOps (mrp r (newRate c cb).base t) t } = comboKey cb := by
      simp only [rtKey, newRate, comboKey, Prod.mk.injEq, true_and]
      cases cb.percent with
      | none => rfl
      | some p => cases cb.surcharge <;> simp
    simp only [addToRates, groupBase, List.filter_cons, hk, List.filter_nil]
    by_cases hkk : comboKey cb = k
    · simp only [hkk, decide_true, if_true, List.map_cons, List.map_nil, List.sum_cons, List.sum_nil]
      simp only [newRate] at h1 ⊢
      rw [h1]; simp [Amount.toRat]
    · simp [hkk]
  | cons rt rts ih =>
    have hok' : RatesOk r c rts := fun hr x hx => hok hr x (by simp [hx])
    simp only [addToRates]
    split
    · rename_i hm
      have hkey : rtKey rt = comboKey cb := (rtMatches_iff rt cb).mp hm
      obtain ⟨h1, _⟩ := base_step r c rt.base t (fun hr => hok hr rt (by simp))
      have hk' : rtKey { rt with base := add exactOps (mrp r rt.base t) t } = rtKey rt := rfl
      simp only [groupBase, List.filter_cons, hk', hkey]
      by_cases hkk : comboKey cb = k
      · simp only [hkk, decide_true, if_true, List.map_cons, List.sum_cons, h1]; ring
      · simp [hkk]
    · simp only [groupBase, List.filter_cons] at ih ⊢
      have ih' := ih hok'
      split
      · simp only [List.map_cons, List.sum_cons]
        rw [ih']; ring
      · exact ih'

/-- bases of the groups with key `k` in category `cat` -/
def catGroupBase (cat : String) (k : Key) (cats : List CatTotal) : ℚ :=
  ((cats.filter (·.code == cat)).map (fun ct => groupBase k ct.rates)).sum

theorem addToCats_group (r : Rule) (c : ℕ) (cb : Combo) (t : Amount) (cat : String) (k : Key)
    (cats : List CatTotal) (hok : CatsOk r c cats) :
    catGroupBase cat k (addToCats exactOps r c cb t cats) =
      catGroupBase cat k cats + (if cb.cat == cat ∧ comboKey cb = k then contrib r c t else 0) := by
  induction cats with
  | nil =>
    have h1 := addToRates_group r c cb t k [] (fun _ _ h => by simp at h)
    simp only [addToCats, catGroupBase]
    by_cases hk : (cb.cat == cat) = true
    · simp only [List.filter_cons, hk, if_true, List.filter_nil, List.map_cons, List.map_nil, List.sum_cons,
        List.sum_nil, h1, true_and]
      simp [groupBase]
    · simp [hk]
  | cons ct cts ih =>
    have hok' : CatsOk r c cts := fun x hx => hok x (by simp [hx])
    simp only [addToCats]
    split
    · rename_i hcode
      have h1 := addToRates_group r c cb t k ct.rates (hok ct (by simp))
      have hcode' : ct.code = cb.cat := by simpa using hcode
      by_cases hk : (cb.cat == cat) = true
      · have : (ct.code == cat) = true := by rw [hcode']; exact hk
        simp only [catGroupBase, List.filter_cons, this, if_true, List.map_cons, List.sum_cons, h1, hk, true_and]
        ring
      · have : ¬ (ct.code == cat) = true := by rw [hcode']; exact hk
        simp [catGroupBase, List.filter_cons, this, hk]
    · have i1 := ih hok'
      simp only [catGroupBase, List.filter_cons] at i1 ⊢
      split
      · simp only [List.map_cons, List.sum_cons]
        rw [i1]; ring
      · exact i1

/-- what one row contributes to the group `(cat, k)`: its total once for every combo with that
category and key -/
def rowGroupContrib (r : Rule) (c : ℕ) (cat : String) (k : Key) (rw : Row) : ℚ :=
  ((rw.taxes.filter (fun cb => cb.cat == cat ∧ comboKey cb = k)).map (fun _ => contrib r c rw.total)).sum

theorem foldCombos_group (r : Rule) (c : ℕ) (cat : String) (k : Key) (t : Amount) (cbs : List Combo)
    (cats : List CatTotal) (hok : CatsOk r c cats) :
    catGroupBase cat k (cbs.foldl (fun cats cb => addToCats exactOps r c cb t cats) cats) =
      catGroupBase cat k cats +
        ((cbs.filter (fun cb => cb.cat == cat ∧ comboKey cb = k)).map (fun _ => contrib r c t)).sum ∧
    CatsOk r c (cbs.foldl (fun cats cb => addToCats exactOps r c cb t cats) cats) := by
  induction cbs generalizing cats with
  | nil => simp [hok]
  | cons cb cbs ih =>
    have h1 := addToCats_group r c cb t cat k cats hok
    have h2 := (addToCats_spec r c cb t cat cats hok).2
    obtain ⟨i1, i2⟩ := ih (addToCats exactOps r c cb t cats) h2
    refine ⟨?_, i2⟩
    rw [List.foldl_cons, i1, h1, List.filter_cons]
    by_cases hc : (cb.cat == cat) = true ∧ comboKey cb = k
    · simp only [hc, and_self, decide_true, if_true, List.map_cons, List.sum_cons]; ring
    · simp only [hc, decide_false, if_false, Bool.false_eq_true]; ring

theorem baseRateTotals_group_aux (r : Rule) (c : ℕ) (cat : String) (k : Key) (rows : List Row)
    (cats : List CatTotal) (hok : CatsOk r c cats) :
    catGroupBase cat k (rows.foldl (fun cats rw => rw.taxes.foldl (fun cats cb => addToCats exactOps r c cb rw.total cats) cats) cats) =
      catGroupBase cat k cats + (rows.map (rowGroupContrib r c cat k)).sum := by
  induction rows generalizing cats with
  | nil => simp
  | cons rw rows ih =>
    obtain ⟨h1, h2⟩ := foldCombos_group r c cat k rw.total rw.taxes cats hok
    rw [List.foldl_cons, ih _ h2, h1]
    simp only [List.map_cons, List.sum_cons, rowGroupContrib]
    ring

/-- **Partition by key.** -/
theorem baseRateTotals_group (r : Rule) (c : ℕ) (cat : String) (k : Key) (rows : List Row) :
    catGroupBase cat k (baseRateTotals exactOps r c rows) = (rows.map (rowGroupContrib r c cat k)).sum := by
  have := baseRateTotals_group_aux r c cat k rows [] (fun _ h => by simp at h)
  simpa [baseRateTotals, catGroupBase] using this

/-- **Order independence of every group base.** -/
theorem baseRateTotals_group_perm (r : Rule) (c : ℕ) (cat : String) (k : Key) (rows rows' : List Row)
    (h : rows.Perm rows') :
    catGroupBase cat k (baseRateTotals exactOps r c rows) = catGroupBase cat k (baseRateTotals exactOps r c rows') := by
  rw [baseRateTotals_group, baseRateTotals_group]
  exact (h.map _).sum_eq

end GoblVerif.Calc
