/-
  Error bounds, fourth part (C01): the rate-group rows of the tax summary
  (base, amount, surcharge) as presented figures, against the exact rational
  values.  The identification of a group's base with the sum of the
  contributions of its key is C02's accumulation invariant
  (`Proofs/CalcSummary.lean`: `baseRateTotals_inv`); here the contributions are
  compared with the exact rows of `Spec.C01.exactQ`.
-/
import GoblVerif.Proofs.CalcErrorInc
import GoblVerif.Proofs.CalcSummary

namespace GoblVerif
open GoblVerif.Spec GoblVerif.Calc GoblVerif.Spec.C02
namespace Calc
namespace Err

variable {ret : String → Bool}

/-- what a row with total `t` contributes to the base of the group `(cat, key)`: `t` once per
combo of that category and key -/
def grpF (cat : String) (key : GroupKey) (t : ℚ) (taxes : List Combo) : ℚ :=
  ((taxes.filter (fun cb => decide (cb.cat = cat ∧ keyOfCombo cb = key))).map (fun _ => t)).sum

/-- the exact base of the group `(cat, key)`: Σ exact rows (included tax taken out), once per combo
of the group -/
def grpExactQ (d : Doc) (cat : String) (key : GroupKey) : ℚ :=
  ((exactRowsW d).map (fun er => grpF cat key (remQ d.includes er.1 er.2.1) er.2.1)).sum

theorem grpF_diff (cat : String) (key : GroupKey) (taxes : List Combo) (T t : ℚ) :
    |grpF cat key T taxes - grpF cat key t taxes| ≤ (gN cat key taxes : ℚ) * |T - t| := by
  simp only [grpF, gN]
  exact list_sum_diff_le _ _ _ _ (fun _ _ => le_refl _)

theorem groupOf_append' (a b : List Contribution) (cat : String) (k : GroupKey) :
    groupOf (a ++ b) cat k = groupOf a cat k ++ groupOf b cat k := by
  simp [groupOf, List.filter_append]

theorem baseQ_append' (a b : List Amount) : baseQ (a ++ b) = baseQ a + baseQ b := by
  simp [baseQ]

theorem baseQ_row (cat : String) (key : GroupKey) (t : Amount) (taxes : List Combo) :
    baseQ (groupOf (taxes.map (fun cb => (⟨cb.cat, keyOfCombo cb, t⟩ : Contribution))) cat key) =
      grpF cat key t.toRat taxes := by
  induction taxes with
  | nil => simp [groupOf, baseQ, grpF]
  | cons cb cbs ih =>
    simp only [List.map_cons, grpF, List.filter_cons] at ih ⊢
    have hc : groupOf ((⟨cb.cat, keyOfCombo cb, t⟩ : Contribution) :: cbs.map (fun cb => (⟨cb.cat, keyOfCombo cb, t⟩ : Contribution))) cat key =
        groupOf [(⟨cb.cat, keyOfCombo cb, t⟩ : Contribution)] cat key ++
        groupOf (cbs.map (fun cb => (⟨cb.cat, keyOfCombo cb, t⟩ : Contribution))) cat key := by
      rw [← groupOf_append']; rfl
    rw [hc, baseQ_append', ih]
    by_cases h : cb.cat = cat ∧ keyOfCombo cb = key
    · simp [groupOf, baseQ, h]
    · simp [groupOf, baseQ, h]

/-- the contributions of a group under the precise rule, row by row -/
theorem baseQ_groupOf (c : ℕ) (inc : Option String) (rows : List Row) (cat : String) (key : GroupKey) :
    baseQ (groupOf (contributions .precise c inc rows) cat key) =
      (rows.map (fun rw => grpF cat key (exclusive c inc rw).toRat rw.taxes)).sum := by
  induction rows with
  | nil => simp [contributions, groupOf, baseQ]
  | cons rw rows ih =>
    have hc : contributions .precise c inc (rw :: rows) =
        rw.taxes.map (fun cb => (⟨cb.cat, keyOfCombo cb, exclusive c inc rw⟩ : Contribution)) ++
        contributions .precise c inc rows := by
      simp [contributions, contributed]
    rw [hc, groupOf_append', baseQ_append', ih, baseQ_row]
    simp

theorem excl_eq_rem (r : Rule) (c : ℕ) (inc : Option String) (rows : List Row) (tx : TaxTotal)
    (h : taxTotal exactOps r c inc rows = .ok tx) :
    rows.map (exclRow c inc) = rows.map (remRow c inc) := by
  cases inc with
  | none =>
    rw [← prepare_spec]
    rfl
  | some k =>
    unfold taxTotal at h
    simp only at h
    cases hr : removeIncluded exactOps k (rows.map (prepareRow c)) with
    | error e => simp [hr] at h
    | ok rows2 =>
      rw [← removeIncluded_spec c k rows rows2 hr, ← removeIncluded_map c k rows rows2 hr]

/-- `tax.Total.round` on one rate group -/
def roundRate (c : ℕ) (rt : RateTotal) : RateTotal :=
  { rt with amount := exactOps.rescale rt.amount c, base := exactOps.rescale rt.base c,
            surcharge := rt.surcharge.map (fun (sp, sa) => (sp, exactOps.rescale sa c)) }

theorem roundCat_rates (c : ℕ) (ct : CatTotal) : (roundCat c ct).rates = ct.rates.map (roundRate c) := rfl

theorem keyOfRate_shown (c : ℕ) (rt : RateTotal) :
    keyOfRate (roundRate c (rateAmounts exactOps rt c)) = keyOfRate rt := by
  unfold roundRate rateAmounts keyOfRate
  cases hp : rt.percent with
  | none => simp [hp]
  | some p =>
    cases hs : rt.surcharge with
    | none => simp [hp, hs]
    | some x => obtain ⟨sp, sa⟩ := x; simp [hp, hs]

/-- **the rate-group rows** of a calculated document of the class `DocTI`: every group of the
presented summary shows (half-away rounding at currency precision) a working base that is within
`Wb = rowsWL gN` half-units of the working precision of the exact base of the group (no rounding
point of its own: bases are exact sums), a working amount within `1 + |percentage|·Wb` half-units
of exact base × percentage, and a working surcharge within `1 + |surcharge percentage|·Wb` of
exact base × surcharge percentage (the actual percentages, not their bound 100 %) -/
theorem group_rows_shown (d : Doc) (out : Out) (t : Totals) (hd : DocTI ret d)
    (hcalc : calculate exactOps d = .ok out) (ht : out.totals = some t)
    (txp : TaxTotal) (htp : t.taxes = some txp) (ct : CatTotal) (hct : ct ∈ txp.cats)
    (rt : RateTotal) (hrt : rt ∈ ct.rates) :
    ∃ bw : Amount, Spec.C01.presents d.c rt.base bw.toRat ∧
      |bw.toRat - grpExactQ d ct.code (keyOfRate rt)| ≤
        (rowsWL (gN ct.code (keyOfRate rt)) d.includes d : ℚ) * halfUlp (d.c + 2) ∧
      (∀ p, rt.percent = some p → ∃ aw : Amount, Spec.C01.presents d.c rt.amount aw.toRat ∧
        |aw.toRat - grpExactQ d ct.code (keyOfRate rt) * p.amount.toRat| ≤
          (1 + |p.amount.toRat| * (rowsWL (gN ct.code (keyOfRate rt)) d.includes d : ℚ)) * halfUlp (d.c + 2)) ∧
      (∀ p sp sa, rt.percent = some p → rt.surcharge = some (sp, sa) →
        ∃ sw : Amount, Spec.C01.presents d.c sa sw.toRat ∧
        |sw.toRat - grpExactQ d ct.code (keyOfRate rt) * sp.amount.toRat| ≤
          (1 + |sp.amount.toRat| * (rowsWL (gN ct.code (keyOfRate rt)) d.includes d : ℚ)) * halfUlp (d.c + 2)) := by
  obtain ⟨p, tx, hpre, htx, _, htr⟩ := calculate_unpack d out t hcalc ht
  have htxp : txp = tx := by
    rw [htr] at htp
    simp only [roundTotals, rawTotals] at htp
    split at htp
    · cases htp
    · injection htp with htp; exact htp.symm
  subst htxp
  obtain ⟨hrel, _, _, _, _, _, _, _, _⟩ := pre_spec d p hd.base hpre
  obtain ⟨hsexp, htx', hrows', _, hremG⟩ := doc_reduced d p txp hd hpre htx
  have hrr := rows_rel d p hd.base hpre
  have h0 := halfUlp_nonneg (d.c + 2)
  -- the summary before presentation, and C02's invariant for it
  have heq := excl_eq_rem d.rule d.c d.includes p.rows txp htx
  have hshape := taxTotal_rows d.rule d.c d.includes p.rows txp htx
  have hinv := baseRateTotals_inv d.rule d.c d.includes p.rows
  rw [hd.base.rule] at hshape hinv
  set B := baseRateTotals exactOps .precise d.c (p.rows.map (exclRow d.c d.includes)) with hB
  -- precision of the bases
  have hprep : ∀ rw ∈ (p.rows.map (remRow d.c d.includes)).map (prepareRow d.c), RowOkP ret d.c p.sum.exp rw := by
    intro rw hrw
    simp only [List.mem_map] at hrw
    obtain ⟨x, ⟨y, hy, rfl⟩, rfl⟩ := hrw
    exact (prepareRow_ok d.c p.sum.exp _ (hrows' _ (List.mem_map.mpr ⟨y, hy, rfl⟩)) hsexp).1
  have hfixm : (p.rows.map (remRow d.c d.includes)).map (prepareRow d.c) = p.rows.map (remRow d.c d.includes) := by
    rw [List.map_map]
    apply List.map_congr_left
    intro rw hrw
    obtain ⟨hcb, _⟩ := hremG rw hrw
    have hok := rows_ok d p hd hpre rw hrw
    have := (remRow_ok d.c p.sum.exp d.includes rw hok.1 hsexp hok.2).2.1
    exact prepareRow_fix d.c _ this.2.1
  obtain ⟨_, b2⟩ := baseRateTotals_w d.c p.sum.exp ((p.rows.map (remRow d.c d.includes)).map (prepareRow d.c)) [] hprep
    (fun _ hx => by simp at hx)
  have hBB : B = ((p.rows.map (remRow d.c d.includes)).map (prepareRow d.c)).foldl
      (fun cats rw => rw.taxes.foldl (fun cats cb => addToCats exactOps .precise d.c cb rw.total cats) cats) [] := by
    rw [hfixm, hB, heq]; rfl
  rw [← hBB] at b2
  -- the presented group comes from a group of `B`
  have hcats : txp.cats = (B.map (catAmounts exactOps .precise d.c)).map (roundCat d.c) := by
    rw [hshape]; rfl
  rw [hcats] at hct
  simp only [List.mem_map] at hct
  obtain ⟨_, ⟨ct0, hct0, rfl⟩, rfl⟩ := hct
  have hrates : (roundCat d.c (catAmounts exactOps .precise d.c ct0)).rates =
      (ct0.rates.map (rateAmounts exactOps · d.c)).map (roundRate d.c) := rfl
  rw [hrates] at hrt
  simp only [List.mem_map] at hrt
  obtain ⟨_, ⟨rt0, hrt0, rfl⟩, rfl⟩ := hrt
  have hcode : (roundCat d.c (catAmounts exactOps .precise d.c ct0)).code = ct0.code := rfl
  rw [hcode, keyOfRate_shown]
  -- its base, exactly
  obtain ⟨_, hcatinv, _⟩ := hinv
  obtain ⟨_, hgf, _⟩ := hcatinv ct0 hct0
  obtain ⟨g1, _, _⟩ := hgf rt0 hrt0
  rw [baseQ_groupOf] at g1
  have hrowsum : (p.rows.map (fun rw => grpF ct0.code (keyOfRate rt0) (exclusive d.c d.includes rw).toRat rw.taxes)).sum =
      (p.rows.map (fun rw => grpF ct0.code (keyOfRate rt0) (remRow d.c d.includes rw).total.toRat rw.taxes)).sum := by
    congr 1
    apply List.map_congr_left
    intro rw hrw
    have := (List.map_inj_left.mp heq) rw hrw
    have h2 : exclusive d.c d.includes rw = (remRow d.c d.includes rw).total := by
      rw [← this]; rfl
    rw [h2]
  rw [hrowsum] at g1
  have eB := rows_err_g (grpF ct0.code (keyOfRate rt0)) (gN ct0.code (keyOfRate rt0)) d.c d.includes p.rows (exactRowsW d)
    (fun taxes _ T t => grpF_diff ct0.code (keyOfRate rt0) taxes T t) hrr hremG
  rw [ers_weight (gN ct0.code (keyOfRate rt0)) d.includes d p.lines hrel, ← g1] at eB
  have eB' : |rt0.base.toRat - grpExactQ d ct0.code (keyOfRate rt0)| ≤
      (rowsWL (gN ct0.code (keyOfRate rt0)) d.includes d : ℚ) * halfUlp (d.c + 2) := eB
  obtain ⟨he1, _⟩ := (b2 ct0 hct0).2 rt0 hrt0
  have hh : halfUlp rt0.base.exp ≤ halfUlp (d.c + 2) := halfUlp_mono _ _ he1
  set Q := grpExactQ d ct0.code (keyOfRate rt0)
  set Wb : ℚ := (rowsWL (gN ct0.code (keyOfRate rt0)) d.includes d : ℚ)
  have hWb : 0 ≤ Wb := by positivity
  -- one percentage of the base: its own rounding plus the carried error of the base
  have hpct : ∀ q : Pct, |(rt0.base.mulX q.amount).toRat - Q * q.amount.toRat| ≤
      (1 + |q.amount.toRat| * Wb) * halfUlp (d.c + 2) := by
    intro q
    have e1 := mulX_err rt0.base q.amount
    have e : (rt0.base.mulX q.amount).toRat - Q * q.amount.toRat =
        ((rt0.base.mulX q.amount).toRat - rt0.base.toRat * q.amount.toRat) + (rt0.base.toRat - Q) * q.amount.toRat := by ring
    rw [e]
    refine le_trans (abs_add_le _ _) ?_
    have h2 : |(rt0.base.toRat - Q) * q.amount.toRat| ≤ |q.amount.toRat| * (Wb * halfUlp (d.c + 2)) := by
      rw [abs_mul, mul_comm]
      exact mul_le_mul_of_nonneg_left eB' (abs_nonneg _)
    nlinarith
  refine ⟨rt0.base, ?_, eB', ?_, ?_⟩
  · have : (roundRate d.c (rateAmounts exactOps rt0 d.c)).base = rt0.base.rescaleX d.c := by
      have := (rateAmounts_same rt0 d.c).2.2.2
      simp only [roundRate, this, exact_rescale]
    rw [this]; exact presents_rescale d.c _
  · intro q hq
    have hq0 : rt0.percent = some q := by
      have : (roundRate d.c (rateAmounts exactOps rt0 d.c)).percent = rt0.percent := by
        simp only [roundRate]; exact rateAmounts_percent rt0 d.c
      rw [this] at hq; exact hq
    refine ⟨rt0.base.mulX q.amount, ?_, hpct q⟩
    have : (roundRate d.c (rateAmounts exactOps rt0 d.c)).amount = (rt0.base.mulX q.amount).rescaleX d.c := by
      simp [roundRate, rateAmounts, hq0, pctOf]
    rw [this]; exact presents_rescale d.c _
  · intro q sp sa hq hs
    have hq0 : rt0.percent = some q := by
      have : (roundRate d.c (rateAmounts exactOps rt0 d.c)).percent = rt0.percent := by
        simp only [roundRate]; exact rateAmounts_percent rt0 d.c
      rw [this] at hq; exact hq
    cases hs0 : rt0.surcharge with
    | none => simp [roundRate, rateAmounts, hq0, hs0] at hs
    | some x =>
      obtain ⟨sp0, sa0⟩ := x
      have hsur : (roundRate d.c (rateAmounts exactOps rt0 d.c)).surcharge =
          some (sp0, (rt0.base.mulX sp0.amount).rescaleX d.c) := by
        simp [roundRate, rateAmounts, hq0, hs0, pctOf]
      rw [hsur] at hs
      simp only [Option.some.injEq, Prod.mk.injEq] at hs
      obtain ⟨rfl, rfl⟩ := hs
      exact ⟨rt0.base.mulX sp0.amount, presents_rescale d.c _, hpct sp0⟩

/-! ## the exact quantities as the specification file has them (`Spec/C01.lean`, evaluated by the driver) -/

theorem remQ_eq_exclQ (inc : Option String) (q : ℚ) (taxes : List Combo) :
    remQ inc q taxes = Spec.C01.exclQ inc q taxes := rfl

theorem exactTaxRows_eq (d : Doc) :
    Spec.C01.exactTaxRows d = (exactRowsW d).map (fun er => (remQ d.includes er.1 er.2.1, er.2.1)) := by
  simp only [Spec.C01.exactTaxRows, exactRowsW, Spec.C01.exactQ, List.map_append, List.map_map, List.filterMap_map,
    List.map_filterMap, Function.comp_def, Option.map_map, remQ_eq_exclQ]

theorem catExactQ_selP (d : Doc) (k : String) : catExactQ selP d k = Spec.C01.catAmountQ d k := by
  unfold catExactQ Spec.C01.catAmountQ
  rw [exactTaxRows_eq, List.map_map]
  congr 1

theorem catExactQ_selS (d : Doc) (k : String) : catExactQ selS d k = Spec.C01.catSurchargeQ d k := by
  unfold catExactQ Spec.C01.catSurchargeQ
  rw [exactTaxRows_eq, List.map_map]
  congr 1

theorem grpExactQ_eq (d : Doc) (cat : String) (key : GroupKey) : grpExactQ d cat key = Spec.C01.groupBaseQ d cat key := by
  unfold grpExactQ Spec.C01.groupBaseQ
  rw [exactTaxRows_eq, List.map_map]
  rfl

theorem presents_err (c : ℕ) (a : Amount) (q : ℚ) (h : Spec.C01.presents c a q) : |a.toRat - q| ≤ halfUlp c := by
  obtain ⟨he, hv⟩ := h
  have := roundTo_err c q
  show |((a.value : ℤ) : ℚ) / ((pow10 a.exp : ℤ) : ℚ) - q| ≤ _
  rw [he, hv]
  exact this

end Err
end Calc
end GoblVerif
