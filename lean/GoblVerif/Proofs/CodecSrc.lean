/-
  CodecSrc (proofs): what the string primitives of Model/GoStrings.lean (and
  Model/GoStr.lean, Model/GoJson.lean) do, in the vocabulary of
  Model/Codec.lean, and the loop / branch shapes that the go2lean translator
  emits for the text codec of /repo/num.  Nothing here mentions the generated
  definitions (Generated/CodecSrc.lean): the theorems about those are in
  Props/C06.lean, namespace Src, so that a change of the Go source breaks a
  theorem with a name.
-/
import GoblVerif.Model.Codec
import GoblVerif.Model.GoStrings
import GoblVerif.Model.GoJson
import GoblVerif.Proofs.Codec
import GoblVerif.Proofs.GoSem
import Mathlib.Tactic.Linarith
import Mathlib.Tactic.IntervalCases

namespace GoblVerif.CodecTie
open GoblVerif GoblVerif.Codec GoblVerif.GoStr GoblVerif.GoSem

theorem hasPrefix_minus (s : Text) : GoStr.hasPrefix s ['-'] = hasPrefixMinus s := by
  cases s with
  | nil => rfl
  | cons c r =>
    by_cases h : c = '-'
    · subst h; simp [GoStr.hasPrefix, hasPrefixMinus, List.isPrefixOf]
    · have h' : ('-' == c) = false := by simp [Ne.symm h]
      simp only [GoStr.hasPrefix, hasPrefixMinus, List.isPrefixOf, h', Bool.false_and]
      split
      · rename_i heq; injection heq with h1 _; exact absurd h1 h
      · rfl

theorem split_dot (s : Text) : GoStrings.split s ['.'] = splitOn '.' s := by
  unfold GoStrings.split
  induction s with
  | nil => rfl
  | cons c cs ih =>
    by_cases h : c = '.'
    · subst h; simp [GoStrings.splitGo, splitOn, List.isPrefixOf, ih]
    · have h' : ('.' == c) = false := by simp [Ne.symm h]
      simp only [GoStrings.splitGo, splitOn, List.isPrefixOf, h', h, ih, Bool.false_and, if_false, Bool.false_eq_true]
      cases splitOn '.' cs <;> rfl

theorem trimPrefix_minus (s : Text) : GoStrings.trimPrefix s ['-'] = trimPrefixMinus s := by
  cases s with
  | nil => rfl
  | cons c r =>
    by_cases h : c = '-'
    · subst h; simp [GoStrings.trimPrefix, trimPrefixMinus, List.isPrefixOf]
    · have h' : ('-' == c) = false := by simp [Ne.symm h]
      simp only [GoStrings.trimPrefix, trimPrefixMinus, List.isPrefixOf, h', Bool.false_and, if_false, Bool.false_eq_true]
      split
      · rename_i heq; injection heq with h1 _; exact absurd h1 h
      · rfl

theorem isDig_eq (c : Char) : GoStr.isDig c = isDigitC c := by
  simp [GoStr.isDig, isDigitC]

theorem digitsVal_eq (s : Text) : GoStr.digitsVal s = natOfDigits s := by
  unfold GoStr.digitsVal natOfDigits
  congr 1
  funext n c
  simp [digitVal, Nat.mul_comm]

theorem atoiU_eq (s : Text) : GoStr.atoiU s = if isDigits s = true then some (natOfDigits s) else none := by
  unfold GoStr.atoiU isDigits
  have : s.all GoStr.isDig = s.all isDigitC := by congr 1; funext c; exact isDig_eq c
  rw [this, digitsVal_eq]

/-- `strconv.ParseInt(s, 10, 64)` in the vocabulary of the model -/
def goParseInt (s : Text) : Int × Option Str :=
  match parseInt64 s with
  | .ok v => (v, none)
  | .error .syntax => (0, some GoStr.errSyntax)
  | .error .range => (if hasPrefixMinus s = true then minInt64 else maxInt64, some GoStrings.errRange)

theorem parseInt_eq (s : Text) : GoStrings.parseInt s = goParseInt s := by
  cases s with
  | nil => rfl
  | cons c r =>
    by_cases hm : c = '-'
    · subst hm
      simp only [GoStrings.parseInt, GoStrings.isNeg, GoStrings.afterSign, goParseInt, parseInt64, atoiU_eq, hasPrefixMinus]
      by_cases hd : isDigits r = true
      · by_cases hr : natOfDigits r > 9223372036854775808 <;> simp [hd, hr, minInt64]
      · simp [hd]
    by_cases hp : c = '+'
    · subst hp
      simp only [GoStrings.parseInt, GoStrings.isNeg, GoStrings.afterSign, goParseInt, parseInt64, atoiU_eq]
      by_cases hd : isDigits r = true
      · by_cases hr : natOfDigits r ≥ 9223372036854775808 <;> simp [hd, hr, maxInt64, hasPrefixMinus]
      · simp [hd]
    · have h1 : (c == '-') = false := by simp [hm]
      have h2 : (c == '+') = false := by simp [hp]
      have e1 : GoStrings.isNeg (c :: r) = false := by
        unfold GoStrings.isNeg
        split
        · rename_i heq; injection heq with h _; exact absurd h hm
        · rfl
      have e2 : GoStrings.afterSign (c :: r) = c :: r := by
        unfold GoStrings.afterSign
        split
        · rename_i heq; injection heq with h _; exact absurd h hm
        · rename_i heq; injection heq with h _; exact absurd h hp
        · rfl
      have e3 : hasPrefixMinus (c :: r) = false := by
        unfold hasPrefixMinus
        split
        · rename_i heq; injection heq with h _; exact absurd h hm
        · rfl
      simp only [GoStrings.parseInt, goParseInt, parseInt64, atoiU_eq, e1, e2, e3, h1, h2]
      by_cases hd : isDigits (c :: r) = true
      · by_cases hr : natOfDigits (c :: r) ≥ 9223372036854775808 <;> simp [hd, hr, maxInt64]
      · simp [hd]

theorem byteAt_lt (s : Text) (j : Nat) (h : j < s.length) : byteAt s j = s[j].toNat := by
  simp [byteAt, List.getD_eq_getElem?_getD, h]

/-- the digit scan of `isDigits`: `for i := 0; i < len(s); i++ { if s[i] < '0' || s[i] > '9' { return r0 } }` -/
def digitScanStep (s : Text) (r0 : Bool) (b : Option Bool × Int) : ForInStep (Option Bool × Int) :=
  if ¬ b.2 < (s.length : Int) then .done (none, b.2)
  else if byteAt s b.2.toNat < 48 ∨ byteAt s b.2.toNat > 57 then .done (some r0, b.2)
  else .yield (none, b.2 + 1)

theorem forFuel_digitScan (s : Text) (r0 : Bool) :
    ∀ (k j : Nat), j + k = s.length →
      (forFuel (digitScanStep s r0) k (none, (j : Int))).1 = (if (s.drop j).all isDigitC = true then none else some r0) ∧
      ((forFuel (digitScanStep s r0) k (none, (j : Int))).1 = none →
        (forFuel (digitScanStep s r0) k (none, (j : Int))).2 = (s.length : Int))
  | 0, j, h => by
    have : s.drop j = [] := List.drop_eq_nil_of_le (by omega)
    have hj : j = s.length := by omega
    simp [forFuel, this, hj]
  | k + 1, j, h => by
    have hj : j < s.length := by omega
    have hd : s.drop j = s[j] :: s.drop (j + 1) := (List.drop_eq_getElem_cons hj)
    have hlt : ((j : Int) < (s.length : Int)) := by exact_mod_cast hj
    simp only [forFuel, digitScanStep, hlt, not_true_eq_false, if_false, Int.toNat_natCast, byteAt_lt s j hj, hd, List.all_cons]
    by_cases hb : s[j].toNat < 48 ∨ s[j].toNat > 57
    · have : isDigitC s[j] = false := by simp [isDigitC]; omega
      simp [hb, this]
    · have : isDigitC s[j] = true := by simp [isDigitC]; omega
      simp only [hb, if_false, this, Bool.true_and]
      have := forFuel_digitScan s r0 k (j + 1) (by omega)
      simpa [digitScanStep] using this

theorem forFuel_congr {β : Type} (g g' : β → ForInStep β) (h : ∀ b, g b = g' b) (n : Nat) (init : β) :
    forFuel g n init = forFuel g' n init := by
  have : g = g' := funext h
  rw [this]

theorem forFuel_digitScan0 (s : Text) (r0 : Bool) (g : Option Bool × Int → ForInStep (Option Bool × Int))
    (hg : ∀ b, g b = digitScanStep s r0 b) :
    (forFuel g s.length (none, 0)).1 = (if s.all isDigitC = true then none else some r0) ∧
    ((forFuel g s.length (none, 0)).1 = none → (forFuel g s.length (none, 0)).2 = (s.length : Int)) := by
  have : g = digitScanStep s r0 := funext hg
  subst this
  have key := forFuel_digitScan s r0 s.length 0 (by simp)
  simpa using key


def errFormat : Err → String
  | .separators => "amount must contain 0 or 1 decimal separators: %v"
  | .major => "invalid major number '%v', %w"
  | .majorDigits => "invalid major number '%v', only digits expected"
  | .minor => "invalid decimal number '%v', %w"
  | .minorDigits => "invalid decimal number '%v', only digits expected"
  | .decimals => "invalid decimal number '%v', too many decimal places"
  | .range => "invalid number '%v', value out of range"
  | .json => "invalid JSON"
  | .empty => "invalid percentage, empty string"

def toGo : Except Err Amount → Amount × Option Str
  | .ok a => (a, none)
  | .error e => (⟨0, 0⟩, GoStr.errNew (errFormat e))


theorem parseInt64_bounds (s : Text) (v : Int) (h : parseInt64 s = .ok v) :
    minInt64 ≤ v ∧ v ≤ maxInt64 ∧ (hasPrefixMinus s = true → v ≤ 0) ∧ (hasPrefixMinus s = false → 0 ≤ v) := by
  cases s with
  | nil => simp [parseInt64] at h
  | cons c r =>
    unfold parseInt64 at h
    by_cases hm : c = '-'
    · subst hm
      simp only [beq_self_eq_true, Bool.or_true, if_true] at h
      by_cases hd : isDigits r = true
      · simp only [hd, Bool.not_true, Bool.false_eq_true, if_false] at h
        by_cases hr : natOfDigits r > 9223372036854775808
        · simp [hr] at h
        · simp only [hr, if_false, Except.ok.injEq] at h
          subst h
          refine ⟨by unfold minInt64; omega, by unfold maxInt64; omega, fun _ => by omega, fun hh => by simp [hasPrefixMinus] at hh⟩
      · simp [hd] at h
    · have e1 : (c == '-') = false := by simp [hm]
      have e3 : hasPrefixMinus (c :: r) = false := by
        unfold hasPrefixMinus
        split
        · rename_i heq; injection heq with h' _; exact absurd h' hm
        · rfl
      simp only [e1, Bool.or_false] at h
      generalize (if (c == '+') = true then r else c :: r) = body at h
      by_cases hd : isDigits body = true
      · simp only [hd, Bool.not_true, Bool.false_eq_true, if_false] at h
        by_cases hr : natOfDigits body ≥ 9223372036854775808
        · simp [hr] at h
        · simp only [hr, if_false, Except.ok.injEq] at h
          subst h
          refine ⟨by unfold minInt64; omega, by unfold maxInt64; omega, fun hh => by simp [e3] at hh, fun _ => by omega⟩
      · simp [hd] at h

theorem goParseInt_ok {s : Text} {v : Int} (h : parseInt64 s = .ok v) : goParseInt s = (v, none) := by
  simp [goParseInt, h]

theorem goParseInt_err {s : Text} {e : NumError} (h : parseInt64 s = .error e) : (goParseInt s).2.isSome = true := by
  cases e <;> simp [goParseInt, h]


theorem parts1_eq (n : Bool) (x0 : Text) :
    (if (goParseInt x0).2.isSome = true then
        (({ value := 0, exp := 0 } : Amount), errNew "invalid major number '%v', %w")
      else
        if ¬ Codec.isDigits (trimPrefixMinus x0) = true then
          ({ value := 0, exp := 0 }, errNew "invalid major number '%v', only digits expected")
        else ({ value := (goParseInt x0).1, exp := 0 }, none)) =
    toGo (parseParts n [x0]) := by
  simp only [List.length_singleton, parseParts]
  cases h0 : parseInt64 x0 with
  | error e => simp [goParseInt_err h0, toGo, errFormat]
  | ok v =>
    rw [goParseInt_ok h0]
    by_cases hd : Codec.isDigits (trimPrefixMinus x0) = true <;> simp [hd, toGo, errFormat]

theorem parts2_eq (x0 x1 : Text) :
    (if (goParseInt x0).2.isSome = true then
        (({ value := 0, exp := 0 } : Amount), errNew "invalid major number '%v', %w")
      else
        if ¬ Codec.isDigits (trimPrefixMinus x0) = true then
          ({ value := 0, exp := 0 }, errNew "invalid major number '%v', only digits expected")
        else
            if (goParseInt x1).2.isSome = true then
              ({ value := 0, exp := 0 }, errNew "invalid decimal number '%v', %w")
            else
              if ¬ Codec.isDigits x1 = true then
                ({ value := 0, exp := 0 }, errNew "invalid decimal number '%v', only digits expected")
              else
                if x1.length > 18 then
                  ({ value := 0, exp := 0 }, errNew "invalid decimal number '%v', too many decimal places")
                else
                  if hasPrefixMinus x0 = true then
                    if (goParseInt x0).1 < (-9223372036854775808 + (goParseInt x1).1).tdiv (10 ^ x1.length) then
                      ({ value := 0, exp := 0 }, errNew "invalid number '%v', value out of range")
                    else
                        ({ value := (goParseInt x0).1 * 10 ^ x1.length - (goParseInt x1).1, exp := x1.length }, none)
                  else
                    if (goParseInt x0).1 > (9223372036854775807 - (goParseInt x1).1).tdiv (10 ^ x1.length) then
                      ({ value := 0, exp := 0 }, errNew "invalid number '%v', value out of range")
                    else
                        ({ value := (goParseInt x0).1 * 10 ^ x1.length + (goParseInt x1).1, exp := x1.length }, none)) =
    toGo (parseParts (hasPrefixMinus x0) [x0, x1]) := by
  simp only [parseParts, List.length_cons, List.length_nil]
  cases h0 : parseInt64 x0 with
  | error e => simp [goParseInt_err h0, toGo, errFormat]
  | ok v =>
    rw [goParseInt_ok h0]
    by_cases hd : Codec.isDigits (trimPrefixMinus x0) = true
    swap
    · simp [hd, toGo, errFormat]
    cases h1 : parseInt64 x1 with
    | error e => simp [goParseInt_err h1, hd, toGo, errFormat]
    | ok v2 =>
      rw [goParseInt_ok h1]
      by_cases hd1 : Codec.isDigits x1 = true
      swap
      · simp [hd, hd1, toGo, errFormat]
      by_cases hl : x1.length > 18
      · simp [hd, hd1, hl, toGo, errFormat, maxAmountExp]
      have hle : x1.length ≤ 18 := by omega
      obtain ⟨b1, b2, b3, b4⟩ := parseInt64_bounds x0 v h0
      have hv2 := parseInt64_digits x1 hd1
      rw [h1] at hv2
      have hv2b : 0 ≤ v2 ∧ v2 ≤ maxInt64 := by
        by_cases hr : natOfDigits x1 ≥ 9223372036854775808
        · simp [hr] at hv2
        · simp only [hr, if_false, Except.ok.injEq] at hv2
          subst hv2; unfold maxInt64; omega
      have hp : (0 : Int) < 10 ^ x1.length := by positivity
      have hp18 := pow10_le_18 x1.length hle
      simp only [hd, hd1, hl, maxAmountExp, intPow10 _ hle, Bool.not_true, Bool.false_eq_true, if_false, not_true_eq_false,
        show ¬ (0 + 1 + 1 > 2) by decide]
      unfold minInt64 maxInt64 at *
      by_cases hn : hasPrefixMinus x0 = true
      · have hv0 := b3 hn
        simp only [hn, if_true]
        rw [wrap64_id (-9223372036854775808 + v2) (by unfold minInt64; omega) (by unfold maxInt64; omega)]
        by_cases hg : v < (-9223372036854775808 + v2).tdiv (10 ^ x1.length)
        · simp [hg, toGo, errFormat]
        · have := (range_guard_neg v v2 _ hv2b.1 (by unfold maxInt64; omega) hp).not.mp hg
          unfold minInt64 at this
          have hvp : v * 10 ^ x1.length ≤ 0 := by nlinarith
          rw [if_neg hg, if_neg hg]
          rw [wrap64_id (v * 10 ^ x1.length) (by unfold minInt64; omega) (by unfold maxInt64; omega)]
          rw [wrap64_id _ (by unfold minInt64; omega) (by unfold maxInt64; omega)]
          rfl
      · have hn' : hasPrefixMinus x0 = false := by simpa using hn
        have hv0 := b4 hn'
        simp only [hn', Bool.false_eq_true, if_false]
        rw [wrap64_id (9223372036854775807 - v2) (by unfold minInt64; omega) (by unfold maxInt64; omega)]
        by_cases hg : v > (9223372036854775807 - v2).tdiv (10 ^ x1.length)
        · simp [hg, toGo, errFormat]
        · have := (range_guard v v2 _ (by unfold maxInt64; omega) hp).not.mp hg
          unfold maxInt64 at this
          have hvp : 0 ≤ v * 10 ^ x1.length := by positivity
          rw [if_neg hg, if_neg hg]
          rw [wrap64_id (v * 10 ^ x1.length) (by unfold minInt64; omega) (by unfold maxInt64; omega)]
          rw [wrap64_id _ (by unfold minInt64; omega) (by unfold maxInt64; omega)]
          rfl

theorem hasPrefixMinus_cons (c : Char) (a b : Text) : hasPrefixMinus (c :: a) = hasPrefixMinus (c :: b) := by
  by_cases hm : c = '-'
  · subst hm; rfl
  · have e : ∀ t, hasPrefixMinus (c :: t) = false := by
      intro t
      unfold hasPrefixMinus
      split
      · rename_i heq; injection heq with h' _; exact absurd h' hm
      · rfl
    rw [e a, e b]

theorem hasPrefixMinus_split_head (val : Text) : hasPrefixMinus ((splitOn '.' val)[0]!) = hasPrefixMinus val := by
  cases val with
  | nil => rfl
  | cons c r =>
    by_cases hd : c = '.'
    · subst hd; simp [splitOn, hasPrefixMinus]
    · simp only [splitOn, hd, if_false]
      cases splitOn '.' r with
      | nil => exact hasPrefixMinus_cons c _ _
      | cons h t => exact hasPrefixMinus_cons c _ _

/-! ## the printer side: `%d`, `%0*d`, `strings.Contains` / `TrimRight` / `TrimSuffix` -/

theorem ofNat48 (d : Nat) (h : d < 10) : Char.ofNat (48 + d) = digitChar d := by
  interval_cases d <;> rfl

theorem natDigits_eq (f : Nat) : ∀ (n : Nat) (acc : Text), n ≤ f →
    GoStr.natDigits (f + 1) n acc = natToDigitsF f n ++ acc := by
  induction f with
  | zero =>
    intro n acc h
    have : n = 0 := by omega
    subst this
    simp [GoStr.natDigits, natToDigitsF, ofNat48 0 (by omega)]
  | succ f ih =>
    intro n acc h
    rw [GoStr.natDigits, natToDigitsF]
    by_cases h10 : n < 10
    · have : n / 10 = 0 := by omega
      have hm : n % 10 = n := by omega
      simp [h10, this, hm, ofNat48 n h10]
    · have : ¬ n / 10 = 0 := by omega
      simp only [this, h10, if_false]
      rw [ih (n / 10) _ (by omega), ofNat48 (n % 10) (by omega)]
      simp

theorem itoa_eq (v : Int) : GoStr.itoa v = fmtInt v := by
  unfold GoStr.itoa fmtInt natToDigits
  by_cases h : v < 0
  · simp only [h, if_true]; rw [natDigits_eq _ _ _ (le_refl _)]; simp
  · simp only [h, if_false]
    have : v.toNat = v.natAbs := by omega
    rw [this, natDigits_eq _ _ _ (le_refl _)]; simp

theorem fmtPad0_eq (w : Nat) (v : Int) : GoStrings.fmtPad0 w v = fmtIntPad0 w v := by
  unfold GoStrings.fmtPad0 fmtIntPad0 padZeros natToDigits
  simp only [natDigits_eq _ _ _ (le_refl _), List.append_nil]

theorem contains_dot (s : Text) : GoStrings.contains s ['.'] = s.contains '.' := by
  induction s with
  | nil => rfl
  | cons c r ih =>
    simp only [GoStrings.contains, ih, List.isPrefixOf, List.contains_cons]
    by_cases h : c = '.'
    · subst h; simp
    · have : ('.' == c) = false := by simp [Ne.symm h]
      simp [this]

theorem trimRight_zeros (s : Text) : GoStrings.trimRight s ['0'] = trimRightZeros s := by
  unfold GoStrings.trimRight trimRightZeros
  congr 2
  funext c
  by_cases h : c = '0' <;> simp [h]

theorem trimSuffix_dot (s : Text) : GoStrings.trimSuffix s ['.'] = trimSuffixDot s := by
  unfold GoStrings.trimSuffix trimSuffixDot
  rcases List.eq_nil_or_concat s with h | ⟨t, c, h⟩
  · subst h; rfl
  · subst h
    by_cases hc : c = '.'
    · subst hc; simp [List.isSuffixOf]
    · simp [hc]
      exact fun e => hc e.symm

/-- `Amount.String` with a decimal point on unbounded integers: for 1 ≤ exp ≤ 18 and an int64
    value the wrapped negations of the model are the plain ones -/
theorem amountToString_nowrap (v : Int) (e : Nat) (he0 : 0 < e) (he : e ≤ 18)
    (hlo : minInt64 ≤ v) (hhi : v ≤ maxInt64) :
    amountToString ⟨v, e⟩ =
      (if v < 0 then ['-'] else []) ++ fmtInt (if v < 0 then -(Int.tdiv v (10 ^ e)) else Int.tdiv v (10 ^ e)) ++
        '.' :: fmtIntPad0 e (if v < 0 then -(Int.tmod v (10 ^ e)) else Int.tmod v (10 ^ e)) := by
  unfold amountToString
  have h0 : ¬ e = 0 := by omega
  have h1 : ¬ e > 1000 := by omega
  simp only [h0, h1, if_false, intPow10 e he]
  unfold minInt64 at hlo
  unfold maxInt64 at hhi
  by_cases hneg : v < 0
  · simp only [hneg, decide_true, if_true]
    have hp : (10 : Int) ≤ 10 ^ e := by
      calc (10 : Int) = 10 ^ 1 := by norm_num
        _ ≤ 10 ^ e := pow_le_pow_right₀ (by norm_num) he0
    have h18 := pow10_le_18 e he
    have hpp : (0 : Int) < 10 ^ e := by positivity
    have hq : -922337203685477580 ≤ Int.tdiv v (10 ^ e) ∧ Int.tdiv v (10 ^ e) ≤ 0 := by
      have hv : v = -((-v).toNat : Int) := by omega
      rw [hv, Int.neg_tdiv, Int.tdiv_eq_ediv_of_nonneg (by positivity)]
      have h1 : (0 : Int) ≤ ((-v).toNat : Int) / 10 ^ e := Int.ediv_nonneg (by positivity) (by positivity)
      have h2 : ((-v).toNat : Int) / 10 ^ e * 10 ^ e ≤ ((-v).toNat : Int) := Int.ediv_mul_le _ (by positivity)
      have h3 : ((-v).toNat : Int) / 10 ^ e * 10 ≤ ((-v).toNat : Int) / 10 ^ e * 10 ^ e :=
        Int.mul_le_mul_of_nonneg_left hp h1
      omega
    have hr : -1000000000000000000 ≤ Int.tmod v (10 ^ e) ∧ Int.tmod v (10 ^ e) ≤ 0 := by
      have hv : v = -((-v).toNat : Int) := by omega
      rw [hv, Int.neg_tmod, Int.tmod_eq_emod_of_nonneg (by positivity)]
      have h1 : (0 : Int) ≤ ((-v).toNat : Int) % 10 ^ e := Int.emod_nonneg _ (by positivity)
      have h2 : ((-v).toNat : Int) % 10 ^ e < 10 ^ e := Int.emod_lt_of_pos _ hpp
      omega
    rw [wrap64_id _ (by unfold minInt64; omega) (by unfold maxInt64; omega)]
    rw [wrap64_id _ (by unfold minInt64; omega) (by unfold maxInt64; omega)]
  · simp [hneg]

/-! ## bytes, the JSON layer, the result shapes of the wrappers -/

theorem ofBytes_toBytes (s : Text) : GoStrings.ofBytes (GoStrings.toBytes s) = s := by
  unfold GoStrings.ofBytes GoStrings.toBytes
  rw [List.map_map]
  conv => rhs; rw [← List.map_id s]
  congr 1
  funext c
  simp [Char.ofNat_toNat]

theorem toBytes_length (s : Text) : (GoStrings.toBytes s).length = s.length := by
  simp [GoStrings.toBytes]

theorem toNat_eq_34 (c : Char) : c.toNat = 34 ↔ c = '"' := by
  constructor
  · intro h
    have : Char.ofNat c.toNat = c := Char.ofNat_toNat c
    rw [h] at this; rw [← this]
  · intro h; subst h; rfl

/-- `jsonText` in the result shape of the translation -/
def jsonTextGo : Except Err (Text × Bool) → Text × Bool × Option Str
  | .ok (t, null) => (t, null, none)
  | .error _ => ([], false, some GoJson.errJson)

/-- the wrappers: the receiver keeps its value on an error -/
def toGoU {α : Type} (cur : α) : Except Err α → Option Str × α
  | .ok a => (none, a)
  | .error e => (GoStr.errNew (errFormat e), cur)

def toGoP : Except Err Pct → Pct × Option Str
  | .ok p => (p, none)
  | .error e => (⟨⟨0, 0⟩⟩, GoStr.errNew (errFormat e))

theorem jsonText_error (value : Text) (e : Err) (h : Codec.jsonText value = .error e) : e = .json := by
  unfold Codec.jsonText at h
  split at h
  · split at h
    · injection h with h; exact h.symm
    · cases h
  · cases h

theorem errJson_eq : GoStr.errNew (errFormat .json) = some GoJson.errJson := by decide

theorem toGo_snd_isSome (r : Except Err Amount) : (toGo r).2.isSome = true ↔ ∃ e, r = .error e := by
  cases r <;> simp [toGo, GoStr.errNew]


/-! ## percentages -/

/-- `str[l-1:] == "%"` is `getLast? = some '%'`, `str[:l-1]` is `dropLast` -/
theorem drop_last_eq (s : Text) (c : Char) (hne : s ≠ []) :
    (List.drop (Int.toNat ((s.length : Int) - 1)) s = [c]) ↔ s.getLast? = some c := by
  rcases List.eq_nil_or_concat s with h | ⟨t, d, h⟩
  · exact absurd h hne
  · subst h
    have : Int.toNat (((t.concat d).length : Int) - 1) = t.length := by simp
    rw [this]
    simp

theorem take_last_eq (s : Text) : List.take (Int.toNat ((s.length : Int) - 1)) s = s.dropLast := by
  have : Int.toNat ((s.length : Int) - 1) = s.length - 1 := by omega
  rw [this, List.dropLast_eq_take]

end GoblVerif.CodecTie
