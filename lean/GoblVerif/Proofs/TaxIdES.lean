/-
  Helper lemmas for the ES theorem of Props/C13.lean (kept in the namespace of
  the property file so the final theorem reads naturally).
-/
import GoblVerif.Proofs.TaxId
namespace GoblVerif.Props.C13
open GoblVerif.TaxId
open GoblVerif.Spec.TaxId (digs dot num dg isDigits digitSum luhnValid luhnTotal)

/-! ### ES helper lemmas -/

theorem es_letters_eq : Spec.TaxId.ES.letters = ES.checkLetters := rfl
theorem es_ctrl_eq : Spec.TaxId.ES.controlLetters = ES.orgCheckLetters := rfl

theorem es_letterAt : ∀ k, k < 23 →
    Spec.TaxId.letterAt Spec.TaxId.ES.letters k = some (ES.checkLetters.getD k ' ') := by decide

theorem es_tab (k : Nat) (hk : k < 23) (c : Char) :
    (ES.checkLetters.getD k ' ' == c) = (Spec.TaxId.letterAt Spec.TaxId.ES.letters k == some c) := by
  rw [es_letterAt k hk]; simp

theorem indexOf?_none (c : Char) (t : List Char) (h : c ∉ t) : indexOf? c t = none := by
  induction t with
  | nil => rfl
  | cons x xs ih =>
    simp only [List.mem_cons, not_or] at h
    have hx : (x == c) = false := by simpa using fun e => h.1 e.symm
    simp [indexOf?, hx, ih h.2]

theorem atoi0_single (c : Char) (h : isDig c = true) : atoi0 [c] = dval c := by
  simp [atoi0, atoi_single c h]

/-- the check character read as a number (`verifyOrgCodeMatches`) -/
def esCdi (ch : Char) : Nat :=
  match indexOf? ch ES.orgCheckLetters with
  | some i => i
  | none => atoi0 [ch]

theorem es_ctrl_letters : ∀ ch ∈ ES.orgCheckLetters, ∀ c, c < 10 →
    (c == esCdi ch) =
      ((isDig ch && dval ch == c) || Spec.TaxId.letterAt Spec.TaxId.ES.controlLetters c == some ch) := by
  decide

theorem es_ctrl_notdig : ∀ ch ∈ ES.orgCheckLetters, isDig ch = false := by decide

theorem es_ctrl_at : ∀ c, c < 10 → ∃ x ∈ ES.orgCheckLetters, Spec.TaxId.letterAt Spec.TaxId.ES.controlLetters c = some x := by
  decide

theorem es_ctrl (ch : Char) (hc : ES.orgCheckCls ch = true) (c : Nat) (hc10 : c < 10) :
    (c == esCdi ch) =
      ((isDig ch && dval ch == c) || Spec.TaxId.letterAt Spec.TaxId.ES.controlLetters c == some ch) := by
  by_cases hd : isDig ch = true
  · have hn : ch ∉ ES.orgCheckLetters := fun hm => by
      have := es_ctrl_notdig ch hm; simp [hd] at this
    obtain ⟨x, hx, hxe⟩ := es_ctrl_at c hc10
    have hne : (x == ch) = false := by
      simp only [beq_eq_false_iff_ne, ne_eq]
      rintro rfl; exact hn hx
    unfold esCdi
    rw [indexOf?_none ch _ hn, hxe]
    simp [atoi0_single ch hd, hd, hne, eq_comm]
  · have hm : ch ∈ ES.orgCheckLetters := by
      simpa [ES.orgCheckCls, hd, inSet] using hc
    exact es_ctrl_letters ch hm c hc10

/-- the four first-character classes are pairwise disjoint -/
theorem es_org_class : ∀ c ∈ ES.orgTypeLetters,
    isDig c = false ∧ inSet ES.foreignTypeLetters c = false ∧ inSet ES.otherTypeLetters c = false ∧ isAZ09 c = true := by decide
theorem es_foreign_class : ∀ c ∈ ES.foreignTypeLetters,
    isDig c = false ∧ inSet ES.otherTypeLetters c = false ∧ isAZ09 c = true := by decide
theorem es_other_class : ∀ c ∈ ES.otherTypeLetters, isDig c = false ∧ isAZ09 c = true := by decide
theorem es_check_class : ∀ c ∈ ES.checkLetters, isAZ09 c = true := by decide
theorem es_ctrl_class : ∀ c ∈ ES.orgCheckLetters, isAZ09 c = true := by decide

theorem es_cifTypes (c : Char) :
    Spec.TaxId.ES.cifTypes.contains c = (inSet ES.orgTypeLetters c || inSet ES.otherTypeLetters c) := by
  rw [Bool.eq_iff_iff]
  simp [Spec.TaxId.ES.cifTypes, inSet, ES.orgTypeLetters, ES.otherTypeLetters, or_assoc]

variable (c0 c1 c2 c3 c4 c5 c6 c7 c8 : Char)

theorem es_f1 : ES.nationalRe [c0,c1,c2,c3,c4,c5,c6,c7,c8] = Spec.TaxId.ES.nifFormat [c0,c1,c2,c3,c4,c5,c6,c7,c8] := by
  rw [Bool.eq_iff_iff]
  simp [ES.nationalRe, matchSeq, rep, List.replicate, Spec.TaxId.ES.nifFormat, Spec.TaxId.ES.last, isDigits, inSet,
    es_letters_eq, and_assoc]

theorem es_f2 : ES.foreignRe [c0,c1,c2,c3,c4,c5,c6,c7,c8] = Spec.TaxId.ES.nieFormat [c0,c1,c2,c3,c4,c5,c6,c7,c8] := by
  rw [Bool.eq_iff_iff]
  simp [ES.foreignRe, matchSeq, rep, List.replicate, Spec.TaxId.ES.nieFormat, Spec.TaxId.ES.last, Spec.TaxId.ES.mid,
    isDigits, inSet, es_letters_eq, ES.foreignTypeLetters, and_assoc]

theorem es_f3 : (ES.orgRe [c0,c1,c2,c3,c4,c5,c6,c7,c8] || ES.otherRe [c0,c1,c2,c3,c4,c5,c6,c7,c8]) = Spec.TaxId.ES.cifFormat [c0,c1,c2,c3,c4,c5,c6,c7,c8] := by
  rw [Bool.eq_iff_iff]
  simp only [ES.orgRe, ES.otherRe, matchSeq, rep, List.replicate, Spec.TaxId.ES.cifFormat, Spec.TaxId.ES.last, Spec.TaxId.ES.mid,
    isDigits, es_ctrl_eq, es_cifTypes, ES.orgCheckCls, inSet, List.cons_append, List.nil_append, List.length_cons, List.length_nil,
    List.getD_cons_zero, List.getD_cons_succ, List.drop_succ_cons, List.drop_zero, List.take_succ_cons, List.take_zero,
    List.all_cons, List.all_nil]
  generalize ES.orgTypeLetters.contains c0 = O
  generalize ES.otherTypeLetters.contains c0 = K
  generalize ES.orgCheckLetters.contains c8 = G
  simp
  tauto

theorem es_cls_az (c : Char) (h : ES.orgCheckCls c = true) : isAZ09 c = true := by
  by_cases hd : isDig c = true
  · simp [isAZ09, hd]
  · exact es_ctrl_class c (by simpa [ES.orgCheckCls, hd, inSet] using h)

theorem es_x_org (h : ES.orgRe [c0,c1,c2,c3,c4,c5,c6,c7,c8] = true) :
    ES.nationalRe [c0,c1,c2,c3,c4,c5,c6,c7,c8] = false ∧ ES.foreignRe [c0,c1,c2,c3,c4,c5,c6,c7,c8] = false ∧ gate [c0,c1,c2,c3,c4,c5,c6,c7,c8] = true := by
  simp [ES.orgRe, matchSeq, rep, List.replicate, inSet] at h
  obtain ⟨h0, d1, d2, d3, d4, d5, d6, d7, h8⟩ := h
  obtain ⟨a, b, _, e⟩ := es_org_class c0 h0
  have := es_cls_az c8 h8
  simp [ES.nationalRe, ES.foreignRe, matchSeq, rep, List.replicate, gate, isAZ09, a, b, d1, d2, d3, d4, d5, d6, d7] at e this ⊢
  exact ⟨e, this⟩

theorem es_g_nat (h : ES.nationalRe [c0,c1,c2,c3,c4,c5,c6,c7,c8] = true) : gate [c0,c1,c2,c3,c4,c5,c6,c7,c8] = true := by
  simp [ES.nationalRe, matchSeq, rep, List.replicate, inSet] at h
  obtain ⟨d0, d1, d2, d3, d4, d5, d6, d7, h8⟩ := h
  have := es_check_class c8 h8
  simp [gate, isAZ09, d0, d1, d2, d3, d4, d5, d6, d7] at this ⊢
  exact this

theorem es_g_for (h : ES.foreignRe [c0,c1,c2,c3,c4,c5,c6,c7,c8] = true) : gate [c0,c1,c2,c3,c4,c5,c6,c7,c8] = true := by
  simp [ES.foreignRe, matchSeq, rep, List.replicate, inSet] at h
  obtain ⟨h0, d1, d2, d3, d4, d5, d6, d7, h8⟩ := h
  have := es_check_class c8 h8
  obtain ⟨_, _, e⟩ := es_foreign_class c0 h0
  simp [gate, isAZ09, d1, d2, d3, d4, d5, d6, d7] at e this ⊢
  exact ⟨e, this⟩

theorem es_g_oth (h : ES.otherRe [c0,c1,c2,c3,c4,c5,c6,c7,c8] = true) : gate [c0,c1,c2,c3,c4,c5,c6,c7,c8] = true := by
  simp [ES.otherRe, matchSeq, rep, List.replicate, inSet] at h
  obtain ⟨h0, d1, d2, d3, d4, d5, d6, d7, h8⟩ := h
  have := es_cls_az c8 h8
  obtain ⟨_, e⟩ := es_other_class c0 h0
  simp [gate, isAZ09, d1, d2, d3, d4, d5, d6, d7] at e this ⊢
  exact ⟨e, this⟩

theorem es_v_nat (h : ES.nationalRe [c0,c1,c2,c3,c4,c5,c6,c7,c8] = true) :
    ES.verifyNational [c0,c1,c2,c3,c4,c5,c6,c7,c8] = Spec.TaxId.ES.nifCheck [c0,c1,c2,c3,c4,c5,c6,c7,c8] := by
  simp [ES.nationalRe, matchSeq, rep, List.replicate, isDig] at h
  have e : atoi0 [c0,c1,c2,c3,c4,c5,c6,c7] = num (digs [c0,c1,c2,c3,c4,c5,c6,c7]) :=
    atoi0_eq _ (by simp) (by simp [allDig, isDig]; omega)
  have hz : ([c0,c1,c2,c3,c4,c5,c6,c7] == List.replicate 8 '0') = (num (digs [c0,c1,c2,c3,c4,c5,c6,c7]) == 0) := by
    rw [Bool.eq_iff_iff]
    simp [List.replicate, digs, num, dval, char_eq_iff_toNat]
    omega
  simp only [ES.verifyNational, Spec.TaxId.ES.nifCheck, Spec.TaxId.ES.last, List.take_succ_cons, List.take_zero,
    List.getD_cons_zero, List.getD_cons_succ, hz, e]
  generalize num (digs [c0,c1,c2,c3,c4,c5,c6,c7]) = n
  rw [es_tab (n % 23) (Nat.mod_lt _ (by omega)) c8]
  cases h0 : (n == 0) <;> simp [bne, h0]

theorem es_foreign_num (ti : Nat) (hti : ti ≤ 9) (cs : Str) (hd : allDig cs = true) :
    atoi0 (digitChar ti :: cs) = ti * 10 ^ cs.length + num (digs cs) := by
  have hdc : isDig (digitChar ti) = true := by simp [isDig, digitChar_toNat ti hti]; omega
  have hv : dval (digitChar ti) = ti := by simp [dval, digitChar_toNat ti hti]
  rw [atoi0_eq _ (by simp) (by simpa [allDig, hdc] using hd)]
  simp [digs, num, hv]

theorem es_v_for (h : ES.foreignRe [c0,c1,c2,c3,c4,c5,c6,c7,c8] = true) :
    ES.verifyForeign [c0,c1,c2,c3,c4,c5,c6,c7,c8] = Spec.TaxId.ES.nieCheck [c0,c1,c2,c3,c4,c5,c6,c7,c8] := by
  simp [ES.foreignRe, matchSeq, rep, List.replicate, inSet, ES.foreignTypeLetters] at h
  obtain ⟨h0, d1, d2, d3, d4, d5, d6, d7, h8⟩ := h
  have hd : allDig [c1,c2,c3,c4,c5,c6,c7] = true := by simp [allDig, d1, d2, d3, d4, d5, d6, d7]
  simp only [ES.verifyForeign, Spec.TaxId.ES.nieCheck, Spec.TaxId.ES.last, Spec.TaxId.ES.mid, List.take_succ_cons, List.take_zero,
    List.drop_succ_cons, List.drop_zero, List.getD_cons_zero, List.getD_cons_succ]
  rcases h0 with rfl | rfl | rfl
  · have hi : (indexOf? 'X' ES.foreignTypeLetters).getD 0 = 0 := by decide
    rw [hi, es_foreign_num 0 (by omega) _ hd, es_tab _ (Nat.mod_lt _ (by omega)) c8]
    rfl
  · have hi : (indexOf? 'Y' ES.foreignTypeLetters).getD 0 = 1 := by decide
    rw [hi, es_foreign_num 1 (by omega) _ hd, es_tab _ (Nat.mod_lt _ (by omega)) c8]
    rfl
  · have hi : (indexOf? 'Z' ES.foreignTypeLetters).getD 0 = 2 := by decide
    rw [hi, es_foreign_num 2 (by omega) _ hd, es_tab _ (Nat.mod_lt _ (by omega)) c8]
    rfl

theorem es_org_unfold (s : Str) (se so : Nat)
    (h : ES.orgLoop (((s.drop 1).take 7).map (fun v => atoi0 [v])) 0 0 0 = (se, so)) :
    ES.verifyOrgMatches s = ((10 - (se + so) % 10) % 10 == esCdi (s.getD 8 ' ')) := by
  unfold ES.verifyOrgMatches esCdi
  simp only [h]
  rfl

theorem es_v_org (d1 : isDig c1 = true) (d2 : isDig c2 = true) (d3 : isDig c3 = true) (d4 : isDig c4 = true)
    (d5 : isDig c5 = true) (d6 : isDig c6 = true) (d7 : isDig c7 = true) (h8 : ES.orgCheckCls c8 = true) :
    ES.verifyOrgMatches [c0,c1,c2,c3,c4,c5,c6,c7,c8] = Spec.TaxId.ES.cifCheck [c0,c1,c2,c3,c4,c5,c6,c7,c8] := by
  have hloop : ES.orgLoop ((([c0,c1,c2,c3,c4,c5,c6,c7,c8].drop 1).take 7).map (fun v => atoi0 [v])) 0 0 0 =
      (let d := digs (Spec.TaxId.ES.mid [c0,c1,c2,c3,c4,c5,c6,c7,c8]); (dg d 2 + dg d 4 + dg d 6,
        digitSum (2 * dg d 1) + digitSum (2 * dg d 3) + digitSum (2 * dg d 5) + digitSum (2 * dg d 7))) := by
    have b1 : dval c1 ≤ 9 := by simp [isDig] at d1; simp [dval]; omega
    have b2 : dval c2 ≤ 9 := by simp [isDig] at d2; simp [dval]; omega
    have b3 : dval c3 ≤ 9 := by simp [isDig] at d3; simp [dval]; omega
    have b4 : dval c4 ≤ 9 := by simp [isDig] at d4; simp [dval]; omega
    have b5 : dval c5 ≤ 9 := by simp [isDig] at d5; simp [dval]; omega
    have b6 : dval c6 ≤ 9 := by simp [isDig] at d6; simp [dval]; omega
    have b7 : dval c7 ≤ 9 := by simp [isDig] at d7; simp [dval]; omega
    simp [ES.orgLoop, atoi0_single, d1, d2, d3, d4, d5, d6, d7, Spec.TaxId.ES.mid, digs, dg, digitSum,
      luhn_dbl _ b1, luhn_dbl _ b3, luhn_dbl _ b5, luhn_dbl _ b7]
  rw [es_org_unfold _ _ _ hloop]
  simp only [List.getD_cons_zero, List.getD_cons_succ]
  rw [es_ctrl c8 h8 _ (Nat.mod_lt _ (by omega))]
  rfl

theorem es_v_org' (h : (ES.orgRe [c0,c1,c2,c3,c4,c5,c6,c7,c8] || ES.otherRe [c0,c1,c2,c3,c4,c5,c6,c7,c8]) = true) :
    ES.verifyOrgMatches [c0,c1,c2,c3,c4,c5,c6,c7,c8] = Spec.TaxId.ES.cifCheck [c0,c1,c2,c3,c4,c5,c6,c7,c8] := by
  simp [ES.orgRe, ES.otherRe, matchSeq, rep, List.replicate] at h
  rcases h with ⟨_, d1, d2, d3, d4, d5, d6, d7, h8⟩ | ⟨_, d1, d2, d3, d4, d5, d6, d7, h8⟩ <;>
    exact es_v_org c0 c1 c2 c3 c4 c5 c6 c7 c8 d1 d2 d3 d4 d5 d6 d7 h8

end GoblVerif.Props.C13
