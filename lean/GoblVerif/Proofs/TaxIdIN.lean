/-
  Helper lemmas for the IN theorem of Props/C13.lean (kept in the namespace of
  the property file so the final theorem reads naturally).
-/
import GoblVerif.Proofs.TaxId
namespace GoblVerif.Props.C13
open GoblVerif.TaxId
open GoblVerif.Spec.TaxId (digs dot num dg isDigits digitSum luhnValid luhnTotal)

theorem ofNat_toNat_small (n : Nat) (h : n < 55296) : (Char.ofNat n).toNat = n := by
  have : n.isValidChar := by left; omega
  simp [Char.ofNat, this, Char.ofNatAux, Char.toNat]

theorem in_value_eq (c : Char) (h : Spec.TaxId.IN.alnum c = true) : IN.charToValue c = Spec.TaxId.IN.value c := by
  simp [Spec.TaxId.IN.alnum, isDig, isUp] at h
  simp only [IN.charToValue, Spec.TaxId.IN.value, dval]
  split
  · rfl
  · rename_i hd
    simp [isDig] at hd
    omega

theorem in_alnum_of_dig {c : Char} (h : isDig c = true) : Spec.TaxId.IN.alnum c = true := by
  simp [Spec.TaxId.IN.alnum, h]
theorem in_alnum_of_up {c : Char} (h : isUp c = true) : Spec.TaxId.IN.alnum c = true := by
  simp [Spec.TaxId.IN.alnum, h]

theorem in_valueToChar (v : Nat) (hv : v < 36) (c : Char) (h : Spec.TaxId.IN.alnum c = true) :
    (IN.valueToChar v == c) = (Spec.TaxId.IN.value c == v) := by
  simp [Spec.TaxId.IN.alnum, isDig, isUp] at h
  rw [Bool.eq_iff_iff]
  simp only [beq_iff_eq, char_eq_iff_toNat, IN.valueToChar, Spec.TaxId.IN.value, dval, isDig]
  split
  · rw [ofNat_toNat_small _ (by omega)]
    by_cases hd : 48 ≤ c.toNat ∧ c.toNat ≤ 57 <;> simp [hd] <;> omega
  · rw [ofNat_toNat_small _ (by omega)]
    by_cases hd : 48 ≤ c.toNat ∧ c.toNat ≤ 57 <;> simp [hd] <;> omega

theorem in_valueToChar_iff (v : Nat) (hv : v < 36) (c : Char) (h : Spec.TaxId.IN.alnum c = true) :
    IN.valueToChar v = c ↔ Spec.TaxId.IN.value c = v := by
  have := in_valueToChar v hv c h
  rw [Bool.eq_iff_iff] at this
  simpa using this

end GoblVerif.Props.C13
