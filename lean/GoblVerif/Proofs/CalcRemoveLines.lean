/-
  Lines in memory (`Settled`): what a line looks like after a calculation and
  after the included-tax removal, and why calculating such a line, presenting
  it and calculating it again reproduces it (`LineFix`) — with or without a
  breakdown into sub-lines.
-/
import GoblVerif.Model.CalcRemove
import GoblVerif.Proofs.CalcFix

namespace GoblVerif.Calc

/-- calculating the line and presenting it, then calculating again, reproduces the calculated line -/
def LineFix (cur : String) (c : ℕ) (rates : List XRate) (r : Rule) (l : Line) : Prop :=
  ∀ l2, calcLine exactOps cur c rates r l = .ok l2 → calcLine exactOps cur c rates r (roundLine exactOps l2) = .ok l2

/-! ### sub-lines -/

/-- the sub-line has an item with a price -/
def SubPriced (sl : SubLine) : Bool :=
  match sl.item with
  | some it => it.price.isSome
  | none => false

/-- a sub-line in memory after a calculation: priced in the document's currency with at least the
currency's decimals, or without figures -/
def SubSettled (cur : String) (c : ℕ) (sl : SubLine) : Prop :=
  match sl.item with
  | none => sl.sum = none ∧ sl.total = none
  | some it =>
    match it.price with
    | none => sl.sum = none ∧ sl.total = none
    | some q => (it.cur == "" || it.cur == cur) = true ∧ c ≤ q.exp

/-- one step of `determineSubLinePrecision` -/
def slpStep (e : ℕ) (sl : SubLine) : ℕ :=
  match sl.item with
  | some it => match it.price with
    | some p => if p.exp > e then p.exp else e
    | none => e
  | none => e

theorem subLinePrecision_eq (sls : List SubLine) : subLinePrecision sls = sls.foldl slpStep 0 := rfl

theorem slpStep_priced (e : ℕ) (sl : SubLine) (it : Item) (q : Amount) (hi : sl.item = some it)
    (hq : it.price = some q) : slpStep e sl = max q.exp e := by
  unfold slpStep
  simp only [hi, hq]
  split <;> omega

theorem slpStep_unpriced (e : ℕ) (sl : SubLine) (h : SubPriced sl = false) : slpStep e sl = e := by
  unfold slpStep
  unfold SubPriced at h
  cases hi : sl.item with
  | none => rfl
  | some it =>
    simp only [hi] at h
    cases hq : it.price with
    | none => simp only [hq]
    | some q => simp [hq] at h

theorem slpStep_ge (e : ℕ) (sl : SubLine) : e ≤ slpStep e sl := by
  cases hp : SubPriced sl with
  | false => rw [slpStep_unpriced e sl hp]
  | true =>
    unfold SubPriced at hp
    cases hi : sl.item with
    | none => simp [hi] at hp
    | some it =>
      simp only [hi] at hp
      cases hq : it.price with
      | none => simp [hq] at hp
      | some q => rw [slpStep_priced e sl it q hi hq]; omega

theorem foldl_slpStep_ge (sls : List SubLine) (z : ℕ) : z ≤ sls.foldl slpStep z := by
  induction sls generalizing z with
  | nil => exact Nat.le_refl _
  | cons sl sls ih => exact Nat.le_trans (slpStep_ge z sl) (ih _)

theorem foldl_slpStep_mem (sls : List SubLine) (z : ℕ) (sl : SubLine) (it : Item) (q : Amount)
    (hm : sl ∈ sls) (hi : sl.item = some it) (hq : it.price = some q) : q.exp ≤ sls.foldl slpStep z := by
  induction sls generalizing z with
  | nil => simp at hm
  | cons x xs ih =>
    simp only [List.mem_cons] at hm
    rcases hm with rfl | hm
    · have : q.exp ≤ slpStep z sl := by rw [slpStep_priced z sl it q hi hq]; omega
      exact Nat.le_trans this (foldl_slpStep_ge xs _)
    · exact ih _ hm

theorem foldl_slpStep_le (sls : List SubLine) (z n : ℕ) (hz : z ≤ n)
    (h : ∀ sl ∈ sls, ∀ it q, sl.item = some it → it.price = some q → q.exp ≤ n) : sls.foldl slpStep z ≤ n := by
  induction sls generalizing z with
  | nil => exact hz
  | cons x xs ih =>
    apply ih
    · cases hp : SubPriced x with
      | false => rw [slpStep_unpriced z x hp]; exact hz
      | true =>
        unfold SubPriced at hp
        cases hi : x.item with
        | none => simp [hi] at hp
        | some it =>
          simp only [hi] at hp
          cases hq : it.price with
          | none => simp [hq] at hp
          | some q =>
            have := h x (by simp) it q hi hq
            rw [slpStep_priced z x it q hi hq]; omega
    · intro sl hsl
      exact h sl (by simp [hsl])

theorem roundSubLine_item (e : ℕ) (sl : SubLine) : (roundSubLine exactOps e sl).item = sl.item := rfl

theorem subSettled_round (cur : String) (c e : ℕ) (sl : SubLine) (h : SubSettled cur c sl) :
    SubSettled cur c (roundSubLine exactOps e sl) := by
  cases sl with
  | mk qty item ds cs sum total =>
    cases item with
    | none =>
      simp only [SubSettled] at h
      obtain ⟨h1, h2⟩ := h
      subst h1 h2
      simp [SubSettled, roundSubLine]
    | some it =>
      cases hq : it.price with
      | none =>
        simp only [SubSettled, hq] at h
        obtain ⟨h1, h2⟩ := h
        subst h1 h2
        simp [SubSettled, roundSubLine, hq]
      | some q =>
        simp only [SubSettled, hq] at h
        simp only [SubSettled, roundSubLine, hq]
        exact h

theorem roundSubLine_noop (e : ℕ) (sl : SubLine) (h1 : sl.sum = none) (h2 : sl.total = none) :
    roundSubLine exactOps e sl = sl := by
  cases sl
  simp only at h1 h2
  subst h1 h2
  rfl

/-- what a settled sub-line calculates to: it is reproduced after presentation, stays settled, has a
total exactly when it is priced, and its price does not lose decimals -/
theorem calcSubLine_settled (cur : String) (c : ℕ) (rates : List XRate) (r : Rule) (sl sl2 : SubLine) (e : ℕ)
    (hs : SubSettled cur c sl) (h : calcSubLine exactOps cur c rates r sl = .ok sl2) :
    calcSubLine exactOps cur c rates r (roundSubLine exactOps e sl2) = .ok sl2 ∧ SubSettled cur c sl2 ∧
    sl2.total.isSome = SubPriced sl ∧ SubPriced sl2 = SubPriced sl ∧
    (SubPriced sl = false → sl2 = sl ∧ roundSubLine exactOps e sl2 = sl2) ∧
    (∀ it q, sl.item = some it → it.price = some q →
      ∃ it2 q2, sl2.item = some it2 ∧ it2.price = some q2 ∧ q.exp ≤ q2.exp) := by
  cases hi : sl.item with
  | none =>
    have hs' : sl.sum = none ∧ sl.total = none := by simpa [SubSettled, hi] using hs
    have h2 : sl2 = sl := by
      unfold calcSubLine at h
      simp only [hi] at h
      injection h with h
      exact h.symm
    subst h2
    have hr := roundSubLine_noop e sl2 hs'.1 hs'.2
    refine ⟨?_, hs, ?_, rfl, fun _ => ⟨rfl, hr⟩, ?_⟩
    · rw [hr]; exact h
    · simp [SubPriced, hi, hs'.2]
    · intro it q h1; cases h1
  | some it =>
    cases hq : it.price with
    | none =>
      have hs' : sl.sum = none ∧ sl.total = none := by simpa [SubSettled, hi, hq] using hs
      have h2 : sl2 = sl := by
        unfold calcSubLine at h
        simp only [hi, hq] at h
        injection h with h
        rw [← h]
        cases sl
        simp only at hs' hi
        obtain ⟨h1, h2⟩ := hs'
        subst h1 h2 hi
        rfl
      subst h2
      have hr := roundSubLine_noop e sl2 hs'.1 hs'.2
      refine ⟨?_, hs, ?_, rfl, fun _ => ⟨rfl, hr⟩, ?_⟩
      · rw [hr]; exact h
      · simp [SubPriced, hi, hq, hs'.2]
      · intro it' q h1 h2'
        cases h1
        rw [hq] at h2'; cases h2'
    | some q =>
      have hs' : (it.cur == "" || it.cur == cur) = true ∧ c ≤ q.exp := by simpa [SubSettled, hi, hq] using hs
      obtain ⟨hcur, hcq⟩ := hs'
      have hst : SubLineStable cur sl := ⟨it, q, hi, hq, hcur⟩
      obtain ⟨hfix, _⟩ := calcSubLine_fix cur c rates r sl sl2 e hst h
      unfold calcSubLine at h
      simp only [hi, hq, itemPrice_same cur c rates it q hcur, Option.getD_some] at h
      injection h with h
      subst h
      refine ⟨hfix, ?_, ?_, ?_, ?_, ?_⟩
      · simp only [SubSettled]
        refine ⟨hcur, ?_⟩
        rw [up_exp]; omega
      · simp [SubPriced, hi, hq]
      · simp [SubPriced, hi, hq]
      · intro hp; simp [SubPriced, hi, hq] at hp
      · intro it' q' h1 h2'
        cases h1
        rw [hq] at h2'; cases h2'
        exact ⟨_, _, rfl, rfl, by rw [up_exp]; omega⟩

theorem slpStep_mono (z z' : ℕ) (sl sl2 : SubLine) (hz : z ≤ z')
    (hq : ∀ it q, sl.item = some it → it.price = some q →
      ∃ it2 q2, sl2.item = some it2 ∧ it2.price = some q2 ∧ q.exp ≤ q2.exp) :
    slpStep z sl ≤ slpStep z' sl2 := by
  cases hp : SubPriced sl with
  | false =>
    rw [slpStep_unpriced z sl hp]
    exact Nat.le_trans hz (slpStep_ge z' sl2)
  | true =>
    unfold SubPriced at hp
    cases hi : sl.item with
    | none => simp [hi] at hp
    | some it =>
      simp only [hi] at hp
      cases hq' : it.price with
      | none => simp [hq'] at hp
      | some q =>
        obtain ⟨it2, q2, h1, h2, h3⟩ := hq it q hi hq'
        rw [slpStep_priced z sl it q hi hq', slpStep_priced z' sl2 it2 q2 h1 h2]
        omega

theorem foldl_slpStep_round (e : ℕ) (sls : List SubLine) (z : ℕ) :
    (sls.map (roundSubLine exactOps e)).foldl slpStep z = sls.foldl slpStep z := by
  induction sls generalizing z with
  | nil => rfl
  | cons x xs ih =>
    simp only [List.map_cons, List.foldl_cons]
    have : slpStep z (roundSubLine exactOps e x) = slpStep z x := rfl
    rw [this, ih]

theorem any_priced_round (e : ℕ) (sls : List SubLine) :
    (sls.map (roundSubLine exactOps e)).any SubPriced = sls.any SubPriced := by
  induction sls with
  | nil => rfl
  | cons x xs ih =>
    simp only [List.map_cons, List.any_cons, ih]
    rfl

/-- the sub-lines of a line in memory, calculated once more -/
theorem calcSubLines_settled (cur : String) (c : ℕ) (rates : List XRate) (r : Rule) (sls bd : List SubLine)
    (hs : ∀ sl ∈ sls, SubSettled cur c sl) (h : calcSubLines exactOps cur c rates r sls = .ok bd) :
    (∀ e, calcSubLines exactOps cur c rates r (bd.map (roundSubLine exactOps e)) = .ok bd) ∧
    (∀ sl ∈ bd, SubSettled cur c sl) ∧
    (bd.filterMap (·.total)).isEmpty = !(sls.any SubPriced) ∧
    bd.any SubPriced = sls.any SubPriced ∧
    bd.isEmpty = sls.isEmpty ∧
    (sls.any SubPriced = false → bd = sls ∧ ∀ e, bd.map (roundSubLine exactOps e) = bd) ∧
    (∀ z z', z ≤ z' → sls.foldl slpStep z ≤ bd.foldl slpStep z') := by
  induction sls generalizing bd with
  | nil =>
    simp only [calcSubLines] at h
    injection h with h
    subst h
    refine ⟨fun _ => rfl, by simp, rfl, rfl, rfl, fun _ => ⟨rfl, fun _ => rfl⟩, fun z z' hz => hz⟩
  | cons sl sls ih =>
    simp only [calcSubLines] at h
    cases ha : calcSubLine exactOps cur c rates r sl with
    | error err => simp [ha] at h
    | ok sl2 =>
      cases hb : calcSubLines exactOps cur c rates r sls with
      | error err => simp [ha, hb] at h
      | ok rest =>
        simp only [ha, hb] at h
        injection h with h
        subst h
        obtain ⟨i1, i2, i3, i4, i5, i6, i7⟩ := ih rest (fun x hx => hs x (by simp [hx])) hb
        have hsl := hs sl (by simp)
        refine ⟨?_, ?_, ?_, ?_, rfl, ?_, ?_⟩
        · intro e
          obtain ⟨j1, _⟩ := calcSubLine_settled cur c rates r sl sl2 e hsl ha
          simp only [List.map_cons, calcSubLines, j1, i1 e]
        · intro x hx
          simp only [List.mem_cons] at hx
          rcases hx with rfl | hx
          · exact (calcSubLine_settled cur c rates r sl x 0 hsl ha).2.1
          · exact i2 x hx
        · obtain ⟨_, _, j3, _⟩ := calcSubLine_settled cur c rates r sl sl2 0 hsl ha
          simp only [List.any_cons, List.filterMap_cons]
          cases ht : sl2.total with
          | none =>
            rw [ht] at j3
            simp only [Option.isSome_none] at j3
            simp only [← j3, Bool.false_or]
            exact i3
          | some t =>
            rw [ht] at j3
            simp only [Option.isSome_some] at j3
            simp [← j3]
        · obtain ⟨_, _, _, j4, _⟩ := calcSubLine_settled cur c rates r sl sl2 0 hsl ha
          simp only [List.any_cons, j4, i4]
        · intro hany
          simp only [List.any_cons, Bool.or_eq_false_iff] at hany
          obtain ⟨k1, k2⟩ := i6 hany.2
          refine ⟨?_, ?_⟩
          · obtain ⟨_, _, _, _, j5, _⟩ := calcSubLine_settled cur c rates r sl sl2 0 hsl ha
            rw [(j5 hany.1).1, k1]
          · intro e
            obtain ⟨_, _, _, _, j5, _⟩ := calcSubLine_settled cur c rates r sl sl2 e hsl ha
            simp only [List.map_cons, (j5 hany.1).2, k2 e]
        · intro z z' hz
          obtain ⟨_, _, _, _, _, j6⟩ := calcSubLine_settled cur c rates r sl sl2 0 hsl ha
          simp only [List.foldl_cons]
          exact i7 _ _ (slpStep_mono z z' sl sl2 hz j6)

/-! ### the removal on sub-lines -/

theorem removeAt_exp' (a : Amount) (p : Pct) : (removeAt exactOps a p).exp = a.exp + 2 := by
  unfold removeAt remove upscale removalAccuracy
  simp only [exact_div, exact_rescale, divX_exp, rescaleX_exp]

theorem removeSubLine_settled (cur : String) (c : ℕ) (p : Pct) (sl : SubLine) (h : SubSettled cur c sl) :
    SubSettled cur c (removeSubLine exactOps p sl) ∧
    SubPriced (removeSubLine exactOps p sl) = SubPriced sl ∧
    (∀ it q, sl.item = some it → it.price = some q →
      ∃ it2 q2, (removeSubLine exactOps p sl).item = some it2 ∧ it2.price = some q2 ∧ q2.exp = q.exp + 2) := by
  unfold removeSubLine
  cases hi : sl.item with
  | none =>
    refine ⟨h, rfl, ?_⟩
    intro it q h1; cases h1
  | some it =>
    simp only
    cases hq : it.price with
    | none =>
      refine ⟨h, rfl, ?_⟩
      intro it' q h1 h2; cases h1; rw [hq] at h2; cases h2
    | some q =>
      have hs' : (it.cur == "" || it.cur == cur) = true ∧ c ≤ q.exp := by simpa [SubSettled, hi, hq] using h
      simp only
      refine ⟨?_, ?_, ?_⟩
      · simp only [SubSettled, removeAt_exp']
        exact ⟨hs'.1, by omega⟩
      · simp [SubPriced, hi, hq]
      · intro it' q' h1 h2
        cases h1; rw [hq] at h2; cases h2
        exact ⟨_, _, rfl, rfl, removeAt_exp' _ _⟩

theorem any_priced_remove (cur : String) (c : ℕ) (p : Pct) (sls : List SubLine) (h : ∀ sl ∈ sls, SubSettled cur c sl) :
    (sls.map (removeSubLine exactOps p)).any SubPriced = sls.any SubPriced := by
  induction sls with
  | nil => rfl
  | cons x xs ih =>
    simp only [List.map_cons, List.any_cons, ih (fun sl hsl => h sl (by simp [hsl])),
      (removeSubLine_settled cur c p x (h x (by simp))).2.1]

/-- with at least one priced sub-line, the removal makes the sub-line precision two decimals finer, and
that precision was at least the currency's -/
theorem slp_remove (cur : String) (c : ℕ) (p : Pct) (sls : List SubLine) (h : ∀ sl ∈ sls, SubSettled cur c sl)
    (hany : sls.any SubPriced = true) :
    c ≤ subLinePrecision sls ∧
    subLinePrecision sls + 2 ≤ subLinePrecision (sls.map (removeSubLine exactOps p)) := by
  rw [subLinePrecision_eq, subLinePrecision_eq]
  obtain ⟨sl0, hm0, hp0⟩ := List.any_eq_true.mp hany
  unfold SubPriced at hp0
  cases hi : sl0.item with
  | none => simp [hi] at hp0
  | some it =>
    simp only [hi] at hp0
    cases hq : it.price with
    | none => simp [hq] at hp0
    | some q =>
      have hs0 : (it.cur == "" || it.cur == cur) = true ∧ c ≤ q.exp := by simpa [SubSettled, hi, hq] using h sl0 hm0
      have hge : q.exp ≤ sls.foldl slpStep 0 := foldl_slpStep_mem sls 0 sl0 it q hm0 hi hq
      have hnew : ∀ sl ∈ sls, ∀ it q, sl.item = some it → it.price = some q →
          q.exp + 2 ≤ (sls.map (removeSubLine exactOps p)).foldl slpStep 0 := by
        intro sl hsl it' q' h1 h2
        obtain ⟨it2, q2, j1, j2, j3⟩ := (removeSubLine_settled cur c p sl (h sl hsl)).2.2 it' q' h1 h2
        have := foldl_slpStep_mem (sls.map (removeSubLine exactOps p)) 0 (removeSubLine exactOps p sl) it2 q2
          (List.mem_map.mpr ⟨sl, hsl, rfl⟩) j1 j2
        omega
      have h2 := hnew sl0 hm0 it q hi hq
      refine ⟨by omega, ?_⟩
      have := foldl_slpStep_le sls 0 ((sls.map (removeSubLine exactOps p)).foldl slpStep 0 - 2) (by omega)
        (fun sl hsl it' q' h1 h2' => by have := hnew sl hsl it' q' h1 h2'; omega)
      omega

/-! ### lines -/

theorem down_exp_le (a : Amount) (e : ℕ) : (down exactOps a e).exp ≤ e := by
  unfold down
  split
  · simp
  · omega

theorem roundAdj_exp_le (e : ℕ) (d : LineAdj) : (roundAdj exactOps e d).amount.exp ≤ e := down_exp_le _ _

/-- a line in memory after a calculation (or after the removal that follows one).  If it has an item:
its sub-lines are settled; when its price comes from priced sub-lines no discount/charge amount is
finer than that price will be (the sub-line precision, at least the currency's); otherwise, if it has a
price of its own, the item is in the document's currency and no amount is finer than the price. -/
def Settled (cur : String) (c : ℕ) (l : Line) : Prop :=
  match l.item with
  | none => True
  | some it =>
    (∀ sl ∈ l.breakdown, SubSettled cur c sl) ∧
    (if l.breakdown.any SubPriced then
      (∀ d ∈ l.discounts, d.amount.exp ≤ max (subLinePrecision l.breakdown) c) ∧
      (∀ d ∈ l.charges, d.amount.exp ≤ max (subLinePrecision l.breakdown) c)
    else
      match it.price with
      | none => True
      | some p => (it.cur == "" || it.cur == cur) = true ∧ c ≤ it.sub ∧
          (∀ d ∈ l.discounts, d.amount.exp ≤ p.exp) ∧ (∀ d ∈ l.charges, d.amount.exp ≤ p.exp))

theorem lineFix_of_settled (cur : String) (c : ℕ) (rates : List XRate) (r : Rule) (l : Line)
    (h : Settled cur c l) : LineFix cur c rates r l := by
  intro l2 h2
  cases hi : l.item with
  | none =>
    have : l2 = l := by
      unfold calcLine at h2
      simp only [hi] at h2
      injection h2 with h2
      exact h2.symm
    subst this
    have hr : roundLine exactOps l2 = l2 := by unfold roundLine; simp only [hi]
    rw [hr]
    unfold calcLine
    simp only [hi]
  | some it =>
    unfold Settled at h
    simp only [hi] at h
    obtain ⟨hsl, hrest⟩ := h
    unfold calcLine at h2
    simp only [hi] at h2
    cases hbd : calcSubLines exactOps cur c rates r l.breakdown with
    | error err => simp [hbd] at h2
    | ok bd =>
      obtain ⟨s1, s2, s3, s4, s5, s6, s7⟩ := calcSubLines_settled cur c rates r l.breakdown bd hsl hbd
      simp only [hbd] at h2
      by_cases hany : l.breakdown.any SubPriced = true
      · -- priced from the breakdown
        simp only [hany, if_true] at hrest
        obtain ⟨hd, hc⟩ := hrest
        have he1 : l.breakdown.isEmpty = false := by
          cases hl : l.breakdown with
          | nil => rw [hl] at hany; simp at hany
          | cons _ _ => rfl
        have he2 : (bd.filterMap (·.total)).isEmpty = false := by rw [s3, hany]; rfl
        have he3 : bd.isEmpty = false := by rw [s5]; exact he1
        simp only [he1, he2, Bool.or_self, Bool.false_eq_true, if_false] at h2
        set p0 := exactOps.rescale ((bd.filterMap (·.total)).foldl (accum exactOps) ⟨0, c⟩) (subLinePrecision bd) with hp0
        have hsame : ((({ it with cur := cur, sub := c, price := some p0, alts := [] } : Item).cur == "") ||
            (({ it with cur := cur, sub := c, price := some p0, alts := [] } : Item).cur == cur)) = true := by simp
        rw [itemPrice_same cur c rates _ p0 hsame] at h2
        simp only [Option.getD_some] at h2
        injection h2 with h2
        subst h2
        -- the second calculation
        unfold roundLine
        simp only
        unfold calcLine
        simp only [s1, List.isEmpty_map, he3, he2, Bool.or_self, Bool.false_eq_true, if_false]
        rw [← hp0, itemPrice_same cur c rates _ p0 hsame]
        simp only [Option.getD_some]
        have hce : c ≤ (up p0 c).exp := by rw [up_exp]; omega
        have hp0e : p0.exp = subLinePrecision bd := by rw [hp0]; simp
        have hslp : subLinePrecision l.breakdown ≤ subLinePrecision bd := by
          rw [subLinePrecision_eq, subLinePrecision_eq]; exact s7 0 0 (Nat.le_refl _)
        have hbound : max (subLinePrecision l.breakdown) c ≤ (up p0 c).exp := by rw [up_exp, hp0e]; omega
        rw [lineDiscounts_round r c (up p0 c).exp _ l.discounts _ hce
          (fun d hd' => Or.inr (Nat.le_trans (hd d hd') hbound))]
        rw [lineCharges_round r c (up p0 c).exp l.qty _ l.charges _ hce
          (fun d hd' => Or.inr (Or.inr (Nat.le_trans (hc d hd') hbound)))]
      · -- no priced sub-line: the sub-lines are returned as they are, the item keeps its own price
        have hany' : l.breakdown.any SubPriced = false := by simpa using hany
        simp only [hany', Bool.false_eq_true, if_false] at hrest
        obtain ⟨hbdeq, hround⟩ := s6 hany'
        have he2 : (bd.filterMap (·.total)).isEmpty = true := by rw [s3, hany']; rfl
        simp only [he2, Bool.or_true, if_true] at h2
        cases hp : it.price with
        | none =>
          simp only [hp] at h2
          injection h2 with h2
          subst h2
          have hr : ∀ X : Line, (∃ it', X.item = some it' ∧ it'.price = none) → roundLine exactOps X = X := by
            intro X ⟨it', h1, h2⟩
            unfold roundLine
            simp only [h1, h2]
          rw [hr _ ⟨_, rfl, rfl⟩]
          unfold calcLine
          have hbd' : calcSubLines exactOps cur c rates r bd = .ok bd := by
            have := s1 0
            rw [hround 0] at this
            exact this
          simp only [hbd', he2, Bool.or_true, if_true]
        | some p =>
          simp only [hp] at hrest h2
          obtain ⟨hcur, hsub, hd, hc⟩ := hrest
          rw [itemPrice_same cur c rates it p hcur] at h2
          simp only [Option.getD_some] at h2
          injection h2 with h2
          subst h2
          unfold roundLine
          simp only [hround]
          unfold calcLine
          have hbd' : calcSubLines exactOps cur c rates r bd = .ok bd := by
            have := s1 0
            rw [hround 0] at this
            exact this
          simp only [hbd', he2, Bool.or_true, if_true]
          have hcur' : (({ it with price := some (up p it.sub) } : Item).cur == "" ||
              ({ it with price := some (up p it.sub) } : Item).cur == cur) = true := hcur
          rw [itemPrice_same cur c rates _ (up p it.sub) hcur']
          simp only [Option.getD_some, up_up]
          have hce : c ≤ (up p it.sub).exp := by rw [up_exp]; omega
          have hpe : p.exp ≤ (up p it.sub).exp := by rw [up_exp]; omega
          rw [lineDiscounts_round r c (up p it.sub).exp _ l.discounts _ hce
            (fun d hd' => Or.inr (Nat.le_trans (hd d hd') hpe))]
          rw [lineCharges_round r c (up p it.sub).exp l.qty _ l.charges _ hce
            (fun d hd' => Or.inr (Or.inr (Nat.le_trans (hc d hd') hpe)))]

/-! ### the input of the first calculation -/

/-- the item of a line in the model is well formed: an item priced in the document's currency carries
that currency's number of decimals (`Item.sub` is "subunits of the item's currency, of the document's
when `cur` is empty") -/
def ItemWF (cur : String) (c : ℕ) (it : Item) : Prop := (it.cur == "" || it.cur == cur) = true → c ≤ it.sub

/-- an input sub-line: a well-formed item; without an item it carries no figures either -/
def SubWF (cur : String) (c : ℕ) (sl : SubLine) : Prop :=
  (sl.item = none → sl.sum = none ∧ sl.total = none) ∧ ∀ it, sl.item = some it → ItemWF cur c it

/-- an input line -/
def LineWF (cur : String) (c : ℕ) (l : Line) : Prop :=
  (∀ it, l.item = some it → ItemWF cur c it) ∧ ∀ sl ∈ l.breakdown, SubWF cur c sl

/-- `XRate.toSub` is the number of decimals of the currency converted to (the document's): not fewer
than `c` -/
def RatesWF (c : ℕ) (rates : List XRate) : Prop := ∀ r ∈ rates, c ≤ r.toSub

theorem convert_exp (r : XRate) (a : Amount) : (convert exactOps r a).exp = r.toSub := by
  unfold convert
  simp only
  split
  · simp only [exact_mul, mulX_exp, up_exp]; omega
  · simp only [exact_mul, mulX_exp, up_exp]; omega

theorem itemPrice_norm (cur : String) (c : ℕ) (rates : List XRate) (it it2 : Item) (p : Amount)
    (hwf : ItemWF cur c it) (hr : RatesWF c rates) (h : itemPrice exactOps cur c rates it p = .ok it2) :
    (it2.cur == "" || it2.cur == cur) = true ∧ c ≤ it2.sub ∧ ∃ p1, it2.price = some p1 ∧ c ≤ p1.exp := by
  unfold itemPrice at h
  by_cases hcur : (it.cur == "" || it.cur == cur) = true
  · simp only [hcur, if_true] at h
    injection h with h
    subst h
    have := hwf hcur
    exact ⟨hcur, this, _, rfl, by rw [up_exp]; omega⟩
  · simp only [hcur] at h
    cases ha : it.alts.find? (fun ap => ap.1 == cur) with
    | some ap =>
      simp only [ha] at h
      injection h with h
      subst h
      exact ⟨by simp, Nat.le_refl _, _, rfl, by rw [up_exp]; omega⟩
    | none =>
      simp only [ha] at h
      cases hfr : findRate rates it.cur cur with
      | some rt =>
        simp only [hfr] at h
        injection h with h
        subst h
        have hm : rt ∈ rates := List.mem_of_find?_eq_some hfr
        exact ⟨by simp, Nat.le_refl _, _, rfl, by rw [convert_exp]; exact hr rt hm⟩
      | none => simp [hfr] at h

theorem calcSubLine_wf (cur : String) (c : ℕ) (rates : List XRate) (r : Rule) (sl sl1 : SubLine)
    (hwf : SubWF cur c sl) (hr : RatesWF c rates) (h : calcSubLine exactOps cur c rates r sl = .ok sl1) :
    SubSettled cur c sl1 ∧ sl1.total.isSome = SubPriced sl1 := by
  unfold calcSubLine at h
  cases hi : sl.item with
  | none =>
    simp only [hi] at h
    injection h with h
    subst h
    obtain ⟨h1, h2⟩ := hwf.1 hi
    exact ⟨by simp [SubSettled, hi, h1, h2], by simp [SubPriced, hi, h2]⟩
  | some it =>
    simp only [hi] at h
    cases hq : it.price with
    | none =>
      simp only [hq] at h
      injection h with h
      subst h
      exact ⟨by simp [SubSettled, hi, hq], by simp [SubPriced, hi, hq]⟩
    | some q =>
      simp only [hq] at h
      cases hip : itemPrice exactOps cur c rates it q with
      | error e => simp [hip] at h
      | ok it2 =>
        simp only [hip] at h
        injection h with h
        subst h
        obtain ⟨hcur2, _, p1, hp1, hc1⟩ := itemPrice_norm cur c rates it it2 q (hwf.2 it hi) hr hip
        exact ⟨by simp [SubSettled, hp1, hcur2, hc1], by simp [SubPriced, hp1]⟩

theorem calcSubLines_wf (cur : String) (c : ℕ) (rates : List XRate) (r : Rule) (sls bd : List SubLine)
    (hwf : ∀ sl ∈ sls, SubWF cur c sl) (hr : RatesWF c rates) (h : calcSubLines exactOps cur c rates r sls = .ok bd) :
    (∀ sl ∈ bd, SubSettled cur c sl) ∧ (bd.filterMap (·.total)).isEmpty = !(bd.any SubPriced) ∧
    bd.isEmpty = sls.isEmpty := by
  induction sls generalizing bd with
  | nil =>
    simp only [calcSubLines] at h
    injection h with h
    subst h
    exact ⟨by simp, rfl, rfl⟩
  | cons sl sls ih =>
    simp only [calcSubLines] at h
    cases ha : calcSubLine exactOps cur c rates r sl with
    | error err => simp [ha] at h
    | ok sl2 =>
      cases hb : calcSubLines exactOps cur c rates r sls with
      | error err => simp [ha, hb] at h
      | ok rest =>
        simp only [ha, hb] at h
        injection h with h
        subst h
        obtain ⟨i1, i2, _⟩ := ih rest (fun x hx => hwf x (by simp [hx])) hb
        obtain ⟨j1, j2⟩ := calcSubLine_wf cur c rates r sl sl2 (hwf sl (by simp)) hr ha
        refine ⟨?_, ?_, rfl⟩
        · intro x hx
          simp only [List.mem_cons] at hx
          rcases hx with rfl | hx
          · exact j1
          · exact i1 x hx
        · simp only [List.any_cons, List.filterMap_cons]
          cases ht : sl2.total with
          | none =>
            rw [ht] at j2
            simp only [Option.isSome_none] at j2
            simp only [← j2, Bool.false_or]
            exact i2
          | some t =>
            rw [ht] at j2
            simp only [Option.isSome_some] at j2
            simp [← j2]

/-- **A calculated and presented line is settled.** -/
theorem settled_of_calcLine (cur : String) (c : ℕ) (rates : List XRate) (r : Rule) (l0 l1 : Line)
    (hwf : LineWF cur c l0) (hr : RatesWF c rates)
    (h : calcLine exactOps cur c rates r l0 = .ok l1) : Settled cur c (roundLine exactOps l1) := by
  unfold calcLine at h
  cases hi : l0.item with
  | none =>
    simp only [hi] at h
    injection h with h
    subst h
    unfold roundLine Settled
    simp only [hi]
  | some it0 =>
    simp only [hi] at h
    cases hbd : calcSubLines exactOps cur c rates r l0.breakdown with
    | error err => simp [hbd] at h
    | ok bd =>
      simp only [hbd] at h
      obtain ⟨w1, w2, w3⟩ := calcSubLines_wf cur c rates r l0.breakdown bd hwf.2 hr hbd
      by_cases hcond : (l0.breakdown.isEmpty || (bd.filterMap (·.total)).isEmpty) = true
      · -- the item keeps its own price
        have hnone : bd.any SubPriced = false := by
          rcases Bool.or_eq_true_iff.mp hcond with h1 | h1
          · have : bd.isEmpty = true := by rw [w3]; exact h1
            cases bd with
            | nil => rfl
            | cons _ _ => simp at this
          · rw [w2] at h1
            simpa using h1
        simp only [hcond, if_true] at h
        cases hp : it0.price with
        | none =>
          simp only [hp] at h
          injection h with h
          subst h
          unfold roundLine Settled
          simp only [hp, hnone, Bool.false_eq_true, if_false]
          exact ⟨w1, trivial⟩
        | some p0 =>
          simp only [hp] at h
          cases hip : itemPrice exactOps cur c rates it0 p0 with
          | error e => simp [hip] at h
          | ok it2 =>
            simp only [hip] at h
            injection h with h
            subst h
            obtain ⟨hcur2, hsub2, p1, hp1, _⟩ := itemPrice_norm cur c rates it0 it2 p0 (hwf.1 it0 hi) hr hip
            unfold roundLine Settled
            simp only [hp1, any_priced_round, hnone, Bool.false_eq_true, if_false]
            refine ⟨?_, hcur2, hsub2, ?_, ?_⟩
            · intro sl hsl
              obtain ⟨sl', hsl', rfl⟩ := List.mem_map.mp hsl
              exact subSettled_round cur c _ sl' (w1 sl' hsl')
            · intro d hd
              obtain ⟨d', _, rfl⟩ := List.mem_map.mp hd
              exact roundAdj_exp_le _ _
            · intro d hd
              obtain ⟨d', _, rfl⟩ := List.mem_map.mp hd
              exact roundAdj_exp_le _ _
      · -- the price comes from the breakdown
        have hcond' : (l0.breakdown.isEmpty || (bd.filterMap (·.total)).isEmpty) = false := by simpa using hcond
        have hany : bd.any SubPriced = true := by
          have := (Bool.or_eq_false_iff.mp hcond').2
          rw [w2] at this
          simpa using this
        simp only [hcond', Bool.false_eq_true, if_false] at h
        set p0 := exactOps.rescale ((bd.filterMap (·.total)).foldl (accum exactOps) ⟨0, c⟩) (subLinePrecision bd) with hp0
        have hsame : ((({ it0 with cur := cur, sub := c, price := some p0, alts := [] } : Item).cur == "") ||
            (({ it0 with cur := cur, sub := c, price := some p0, alts := [] } : Item).cur == cur)) = true := by simp
        rw [itemPrice_same cur c rates _ p0 hsame] at h
        simp only [Option.getD_some] at h
        injection h with h
        subst h
        have hp0e : p0.exp = subLinePrecision bd := by rw [hp0]; simp
        unfold roundLine Settled
        simp only [any_priced_round, hany, if_true]
        have hslp : subLinePrecision (bd.map (roundSubLine exactOps (up p0 c).exp)) = subLinePrecision bd := by
          rw [subLinePrecision_eq, subLinePrecision_eq, foldl_slpStep_round]
        rw [hslp]
        have hb : (up p0 c).exp = max (subLinePrecision bd) c := by rw [up_exp, hp0e]
        refine ⟨?_, ?_, ?_⟩
        · intro sl hsl
          obtain ⟨sl', hsl', rfl⟩ := List.mem_map.mp hsl
          exact subSettled_round cur c _ sl' (w1 sl' hsl')
        · intro d hd
          obtain ⟨d', _, rfl⟩ := List.mem_map.mp hd
          rw [← hb]
          exact roundAdj_exp_le _ _
        · intro d hd
          obtain ⟨d', _, rfl⟩ := List.mem_map.mp hd
          rw [← hb]
          exact roundAdj_exp_le _ _

/-- **The removal keeps a line settled.** -/
theorem settled_remove (cur : String) (c : ℕ) (k : String) (l : Line) (h : Settled cur c l) :
    Settled cur c (removeLineIncluded exactOps k l) := by
  unfold removeLineIncluded
  cases l.taxes.find? (fun cb => cb.cat == k) with
  | none => exact h
  | some cb =>
    simp only
    cases cb.percent with
    | none => exact h
    | some p =>
      simp only
      cases hi : l.item with
      | none => simpa only [hi] using h
      | some it =>
        simp only
        cases hp : it.price with
        | none => simpa only [hi, hp] using h
        | some pr =>
          simp only
          unfold Settled at h
          simp only [hi] at h
          obtain ⟨hsl, hrest⟩ := h
          unfold Settled
          simp only [any_priced_remove cur c p l.breakdown hsl]
          refine ⟨?_, ?_⟩
          · intro sl hsl'
            obtain ⟨sl', hsl'', rfl⟩ := List.mem_map.mp hsl'
            exact (removeSubLine_settled cur c p sl' (hsl sl' hsl'')).1
          · by_cases hany : l.breakdown.any SubPriced = true
            · simp only [hany, if_true] at hrest ⊢
              obtain ⟨hd, hc⟩ := hrest
              obtain ⟨q1, q2⟩ := slp_remove cur c p l.breakdown hsl hany
              refine ⟨?_, ?_⟩
              · intro d hd'
                obtain ⟨d', hd'', rfl⟩ := List.mem_map.mp hd'
                simp only [removeLineAdj, removeAt_exp']
                have := hd d' hd''
                omega
              · intro d hd'
                obtain ⟨d', hd'', rfl⟩ := List.mem_map.mp hd'
                simp only [removeLineAdj, removeAt_exp']
                have := hc d' hd''
                omega
            · have hany' : l.breakdown.any SubPriced = false := by simpa using hany
              simp only [hany', Bool.false_eq_true, if_false, hp] at hrest ⊢
              obtain ⟨hcur, hsub, hd, hc⟩ := hrest
              refine ⟨hcur, hsub, ?_, ?_⟩
              · intro d hd'
                obtain ⟨d', hd'', rfl⟩ := List.mem_map.mp hd'
                simp only [removeLineAdj, removeAt_exp']
                have := hd d' hd''
                omega
              · intro d hd'
                obtain ⟨d', hd'', rfl⟩ := List.mem_map.mp hd'
                simp only [removeLineAdj, removeAt_exp']
                have := hc d' hd''
                omega

end GoblVerif.Calc
