/-
  Helper lemmas for C07: the token-level reader (handleNextToken & co.).
  * completeness: the tokens of a value are read back as that value, sorted;
  * soundness: on a token sequence the decoder can emit, an `ok` result means
    the sequence is exactly the tokens of one value; a nil Canonicalable never
    ends up in the tree.
-/
import GoblVerif.Model.C14n

namespace GoblVerif.Proofs.C14n
open GoblVerif GoblVerif.C14n

/-! ## fuel needed -/

mutual
def fuelJ : J → Nat
  | .atom _ => 1
  | .arr xs => 1 + fuelL xs
  | .obj kvs => 1 + fuelK kvs
def fuelL : JL → Nat
  | .nil => 2
  | .cons x xs => 1 + max (fuelJ x) (fuelL xs)
def fuelK : KL → Nat
  | .nil => 3
  | .cons _ v r => max (2 + fuelJ v) (1 + fuelK r)
end

mutual
theorem fuelJ_pos : ∀ v : J, 1 ≤ fuelJ v
  | .atom _ => by simp [fuelJ]
  | .arr xs => by simp [fuelJ]
  | .obj kvs => by simp [fuelJ]
end

/-! ## one-step unfoldings -/

theorem hNext_nil (f : Nat) : hNext f [] = .err := by
  cases f <;> simp [hNext]

theorem hNext_step (f : Nat) (t : GTok) (ts : List GTok) :
    hNext (f + 1) (t :: ts) =
      (match t with
      | .lbrace => hObj f ts []
      | .lbrack => hArr f ts []
      | .rbrace | .rbrack => .done ts
      | .val a => .ok (.atom a) ts
      | .bad => .err) := by
  cases t <;> simp [hNext]

theorem hObj_step (f : Nat) (ts : List GTok) (acc : List (Str × J)) :
    hObj (f + 1) ts acc =
      (match hAttr f ts with
      | .err => .err
      | .nilval => .nilval
      | .done rest => .ok (.obj (sortK (KL.ofList acc.reverse))) rest
      | .ok a rest => hObj f rest (a :: acc)) := by
  rw [hObj]; rfl

theorem hArr_step (f : Nat) (ts : List GTok) (acc : List J) :
    hArr (f + 1) ts acc =
      (match hNext f ts with
      | .err => .err
      | .nilval => .nilval
      | .done rest => .ok (.arr (JL.ofList acc.reverse)) rest
      | .ok v rest => hArr f rest (v :: acc)) := by
  rw [hArr]; rfl

theorem hAttr_step (f : Nat) (ts : List GTok) :
    hAttr (f + 1) ts =
      (match hNext f ts with
      | .err => .err
      | .nilval => .nilval
      | .done rest => .done rest
      | .ok (.atom (.str k)) rest =>
        match hNext f rest with
        | .err => .err
        | .nilval => .nilval
        | .done _ => .nilval
        | .ok v rest' => .ok (k, v) rest'
      | .ok _ _ => .err) := by
  rw [hAttr]; rfl

/-! ## completeness -/

mutual
theorem hNext_gtoks : ∀ (v : J) (f : Nat) (rest : List GTok), fuelJ v ≤ f →
    hNext f (gtoks v ++ rest) = .ok (sortJ v) rest
  | .atom a, f, rest, h => by
    obtain ⟨f', rfl⟩ : ∃ f', f = f' + 1 := ⟨f - 1, by simp [fuelJ] at h; omega⟩
    simp only [gtoks, List.cons_append, List.nil_append, hNext_step, sortJ]
  | .arr xs, f, rest, h => by
    obtain ⟨f', rfl⟩ : ∃ f', f = f' + 1 := ⟨f - 1, by simp [fuelJ] at h; omega⟩
    have := hArr_gtoksL xs f' rest [] (by simp [fuelJ] at h; omega)
    simp only [gtoks, List.cons_append, List.append_assoc, List.nil_append, hNext_step, sortJ]
    rw [this]; simp [JL.ofList_toList]
  | .obj kvs, f, rest, h => by
    obtain ⟨f', rfl⟩ : ∃ f', f = f' + 1 := ⟨f - 1, by simp [fuelJ] at h; omega⟩
    have := hObj_gtoksK kvs f' rest [] (by simp [fuelJ] at h; omega)
    simp only [gtoks, List.cons_append, List.append_assoc, List.nil_append, hNext_step, sortJ]
    rw [this]; simp [KL.ofList_toList]
theorem hArr_gtoksL : ∀ (xs : JL) (f : Nat) (rest : List GTok) (acc : List J), fuelL xs ≤ f →
    hArr f (gtoksL xs ++ .rbrack :: rest) acc =
      .ok (.arr (JL.ofList (acc.reverse ++ (sortJL xs).toList))) rest
  | .nil, f, rest, acc, h => by
    obtain ⟨f', rfl⟩ : ∃ f', f = f' + 1 + 1 := ⟨f - 2, by simp [fuelL] at h; omega⟩
    simp only [gtoksL, List.nil_append, hArr_step, hNext_step, sortJL, JL.toList, List.append_nil]
  | .cons x xs, f, rest, acc, h => by
    obtain ⟨f', rfl⟩ : ∃ f', f = f' + 1 := ⟨f - 1, by simp [fuelL] at h; omega⟩
    simp only [fuelL] at h
    have h1 := hNext_gtoks x f' (gtoksL xs ++ .rbrack :: rest) (by omega)
    have h2 := hArr_gtoksL xs f' rest (sortJ x :: acc) (by omega)
    simp only [gtoksL, List.append_assoc, hArr_step, h1, h2, sortJL, JL.toList]
    simp
theorem hObj_gtoksK : ∀ (kvs : KL) (f : Nat) (rest : List GTok) (acc : List (Str × J)), fuelK kvs ≤ f →
    hObj f (gtoksK kvs ++ .rbrace :: rest) acc =
      .ok (.obj (sortK (KL.ofList (acc.reverse ++ (sortJK kvs).toList)))) rest
  | .nil, f, rest, acc, h => by
    obtain ⟨f', rfl⟩ : ∃ f', f = f' + 1 + 1 + 1 := ⟨f - 3, by simp [fuelK] at h; omega⟩
    simp only [gtoksK, List.nil_append, hObj_step, hAttr_step, hNext_step, sortJK, KL.toList, List.append_nil]
  | .cons k v r, f, rest, acc, h => by
    obtain ⟨f', rfl⟩ : ∃ f', f = f' + 1 + 1 + 1 := ⟨f - 3, by
      have := fuelJ_pos v; simp [fuelK] at h; omega⟩
    simp only [fuelK] at h
    have h1 := hNext_gtoks v (f' + 1) (gtoksK r ++ .rbrace :: rest) (by omega)
    have h2 := hObj_gtoksK r (f' + 1 + 1) rest ((k, sortJ v) :: acc) (by omega)
    simp only [gtoksK, List.cons_append, List.append_assoc]
    rw [hObj_step, hAttr_step, hNext_step]
    simp only [h1, h2, sortJK, KL.toList]
    simp
end

mutual
theorem gtoks_len : ∀ v : J, 1 ≤ (gtoks v).length ∧ fuelJ v ≤ 2 * (gtoks v).length
  | .atom _ => by simp [gtoks, fuelJ]
  | .arr xs => by
    have := gtoksL_len xs
    simp only [gtoks, fuelJ, List.length_cons, List.length_append, List.length_nil]; omega
  | .obj kvs => by
    have := gtoksK_len kvs
    simp only [gtoks, fuelJ, List.length_cons, List.length_append, List.length_nil]; omega
theorem gtoksL_len : ∀ xs : JL, fuelL xs ≤ 2 * (gtoksL xs).length + 2
  | .nil => by simp [gtoksL, fuelL]
  | .cons x xs => by
    have h1 := gtoks_len x
    have h2 := gtoksL_len xs
    simp only [gtoksL, fuelL, List.length_append]; omega
theorem gtoksK_len : ∀ kvs : KL, fuelK kvs ≤ 2 * (gtoksK kvs).length + 3
  | .nil => by simp [gtoksK, fuelK]
  | .cons k v r => by
    have h1 := gtoks_len v
    have h2 := gtoksK_len r
    simp only [gtoksK, fuelK, List.length_cons, List.length_append]; omega
end

theorem unmarshal_gtoks (v : J) : unmarshal (gtoks v) true = .ok (sortJ v) := by
  unfold unmarshal
  have := hNext_gtoks v (2 * (gtoks v).length + 4) [] (by have := gtoks_len v; omega)
  simp only [List.append_nil] at this
  rw [this]; rfl


/-! ## soundness on decoder-valid token sequences -/

theorem decRun_append : ∀ (a b : List GTok) (S : List Ctx),
    decRun S (a ++ b) = (decRun S a).bind (fun S' => decRun S' b)
  | [], b, S => rfl
  | t :: a, b, S => by
    simp only [List.cons_append, decRun]
    cases decStep S t with
    | none => rfl
    | some S' => exact decRun_append a b S'

theorem decRun_cons_some {S : List Ctx} {t : GTok} {ts : List GTok} (h : (decRun S (t :: ts)).isSome = true) :
    ∃ S1, decStep S t = some S1 ∧ (decRun S1 ts).isSome = true := by
  simp only [decRun] at h
  cases hs : decStep S t with
  | none => simp [hs] at h
  | some S1 => exact ⟨S1, rfl, by simpa [hs] using h⟩

theorem decRun_append_some {S : List Ctx} {a b : List GTok} {S' : List Ctx}
    (h : (decRun S (a ++ b)).isSome = true) (ha : decRun S a = some S') : (decRun S' b).isSome = true := by
  rw [decRun_append, ha] at h; exact h

/-- state after a value (or, in key position, a key) has been read -/
def post (S : List Ctx) (x : J) (S' : List Ctx) : Prop :=
  (valueAllowed S = true ∧ S' = afterValue S) ∨
  (∃ S0 k, S = .objKey :: S0 ∧ x = .atom (.str k) ∧ S' = .objVal :: S0)

theorem decStep_val {S S1 : List Ctx} {a : Atom} (h : decStep S (.val a) = some S1) : post S (.atom a) S1 := by
  simp only [decStep] at h
  split at h
  · next S' k =>
    simp only [Option.some.injEq] at h
    exact Or.inr ⟨S', k, rfl, rfl, h.symm⟩
  · split at h
    · next hv =>
      simp only [Option.some.injEq] at h
      exact Or.inl ⟨hv, h.symm⟩
    · simp at h

theorem decStep_lbrack {S S1 : List Ctx} (h : decStep S .lbrack = some S1) :
    valueAllowed S = true ∧ S1 = .arr :: S := by
  unfold decStep at h; split at h <;> simp_all

theorem decStep_lbrace {S S1 : List Ctx} (h : decStep S .lbrace = some S1) :
    valueAllowed S = true ∧ S1 = .objKey :: S := by
  unfold decStep at h; split at h <;> simp_all

theorem sortJ_atom {x : J} {a : Atom} (h : sortJ x = .atom a) : x = .atom a := by
  cases x <;> simp_all [sortJ]

/-- the four statements proved together by induction on the fuel -/
structure Sound (f : Nat) : Prop where
  next : ∀ (S : List Ctx) (ts : List GTok), (decRun S ts).isSome = true →
    hNext f ts ≠ .nilval ∧
    (∀ v rest, hNext f ts = .ok v rest →
      ∃ x S', ts = gtoks x ++ rest ∧ v = sortJ x ∧ decRun S (gtoks x) = some S' ∧ post S x S') ∧
    (∀ rest, hNext f ts = .done rest →
      ∃ c S', ts = c :: rest ∧ decStep S c = some S' ∧ (c = .rbrack ∨ c = .rbrace))
  arr : ∀ (S0 : List Ctx) (ts : List GTok) (acc : List J), (decRun (.arr :: S0) ts).isSome = true →
    hArr f ts acc ≠ .nilval ∧ (∀ rest, hArr f ts acc ≠ .done rest) ∧
    (∀ v rest, hArr f ts acc = .ok v rest →
      ∃ xs, ts = gtoksL xs ++ .rbrack :: rest ∧ v = .arr (JL.ofList (acc.reverse ++ (sortJL xs).toList)) ∧
        decRun (.arr :: S0) (gtoksL xs ++ [.rbrack]) = some (afterValue S0))
  obj : ∀ (S0 : List Ctx) (ts : List GTok) (acc : List (Str × J)), (decRun (.objKey :: S0) ts).isSome = true →
    hObj f ts acc ≠ .nilval ∧ (∀ rest, hObj f ts acc ≠ .done rest) ∧
    (∀ v rest, hObj f ts acc = .ok v rest →
      ∃ kvs, ts = gtoksK kvs ++ .rbrace :: rest ∧
        v = .obj (sortK (KL.ofList (acc.reverse ++ (sortJK kvs).toList))) ∧
        decRun (.objKey :: S0) (gtoksK kvs ++ [.rbrace]) = some (afterValue S0))
  attr : ∀ (S0 : List Ctx) (ts : List GTok), (decRun (.objKey :: S0) ts).isSome = true →
    hAttr f ts ≠ .nilval ∧
    (∀ k v rest, hAttr f ts = .ok (k, v) rest →
      ∃ x, ts = .val (.str k) :: (gtoks x ++ rest) ∧ v = sortJ x ∧
        decRun (.objKey :: S0) (.val (.str k) :: gtoks x) = some (.objKey :: S0)) ∧
    (∀ rest, hAttr f ts = .done rest → ts = .rbrace :: rest)

theorem sound_zero : Sound 0 := by
  constructor
  · intro S ts _; simp [hNext]
  · intro S0 ts acc _; simp [hArr]
  · intro S0 ts acc _; simp [hObj]
  · intro S0 ts _; simp [hAttr]

theorem sound_next (f : Nat) (ih : Sound f) (S : List Ctx) (ts : List GTok) (hv : (decRun S ts).isSome = true) :
    hNext (f + 1) ts ≠ .nilval ∧
    (∀ v rest, hNext (f + 1) ts = .ok v rest →
      ∃ x S', ts = gtoks x ++ rest ∧ v = sortJ x ∧ decRun S (gtoks x) = some S' ∧ post S x S') ∧
    (∀ rest, hNext (f + 1) ts = .done rest →
      ∃ c S', ts = c :: rest ∧ decStep S c = some S' ∧ (c = .rbrack ∨ c = .rbrace)) := by
  cases ts with
  | nil => simp [hNext_nil]
  | cons t ts' =>
    obtain ⟨S1, hs, hv'⟩ := decRun_cons_some hv
    rw [hNext_step]
    cases t with
    | val a =>
      refine ⟨by simp, ?_, by simp⟩
      intro v rest h
      simp only [R.ok.injEq] at h
      obtain ⟨h1, h2⟩ := h
      subst h1 h2
      exact ⟨.atom a, S1, by simp [gtoks], by simp [sortJ], by simp [gtoks, decRun, hs], decStep_val hs⟩
    | bad => simp
    | rbrack =>
      refine ⟨by simp, by simp, ?_⟩
      intro rest h
      simp only [R.done.injEq] at h
      subst h
      exact ⟨.rbrack, S1, rfl, hs, Or.inl rfl⟩
    | rbrace =>
      refine ⟨by simp, by simp, ?_⟩
      intro rest h
      simp only [R.done.injEq] at h
      subst h
      exact ⟨.rbrace, S1, rfl, hs, Or.inr rfl⟩
    | lbrack =>
      obtain ⟨hva, rfl⟩ := decStep_lbrack hs
      obtain ⟨a1, a2, a3⟩ := ih.arr S ts' [] hv'
      refine ⟨a1, ?_, fun rest h => absurd h (a2 rest)⟩
      intro v rest h
      obtain ⟨xs, e1, e2, e3⟩ := a3 v rest h
      refine ⟨.arr xs, afterValue S, ?_, ?_, ?_, Or.inl ⟨hva, rfl⟩⟩
      · simp [gtoks, e1]
      · simp [e2, sortJ, JL.ofList_toList]
      · simp only [gtoks, decRun, hs]; exact e3
    | lbrace =>
      obtain ⟨hva, rfl⟩ := decStep_lbrace hs
      obtain ⟨a1, a2, a3⟩ := ih.obj S ts' [] hv'
      refine ⟨a1, ?_, fun rest h => absurd h (a2 rest)⟩
      intro v rest h
      obtain ⟨kvs, e1, e2, e3⟩ := a3 v rest h
      refine ⟨.obj kvs, afterValue S, ?_, ?_, ?_, Or.inl ⟨hva, rfl⟩⟩
      · simp [gtoks, e1]
      · simp [e2, sortJ, KL.ofList_toList]
      · simp only [gtoks, decRun, hs]; exact e3

theorem closer_arr {S0 S' : List Ctx} {c : GTok} (h : decStep (.arr :: S0) c = some S')
    (hc : c = .rbrack ∨ c = .rbrace) : c = .rbrack ∧ S' = afterValue S0 := by
  rcases hc with hc | hc <;> subst hc <;> simp [decStep] at h
  exact ⟨rfl, h.symm⟩

theorem closer_objKey {S0 S' : List Ctx} {c : GTok} (h : decStep (.objKey :: S0) c = some S')
    (hc : c = .rbrack ∨ c = .rbrace) : c = .rbrace ∧ S' = afterValue S0 := by
  rcases hc with hc | hc <;> subst hc <;> simp [decStep] at h
  exact ⟨rfl, h.symm⟩

theorem closer_objVal {S0 S' : List Ctx} {c : GTok} (h : decStep (.objVal :: S0) c = some S')
    (hc : c = .rbrack ∨ c = .rbrace) : False := by
  rcases hc with hc | hc <;> subst hc <;> simp [decStep] at h

theorem post_arr {S0 S' : List Ctx} {x : J} (h : post (.arr :: S0) x S') : S' = .arr :: S0 := by
  rcases h with ⟨_, h⟩ | ⟨_, _, h, _⟩
  · simpa [afterValue] using h
  · simp at h

theorem post_objVal {S0 S' : List Ctx} {x : J} (h : post (.objVal :: S0) x S') : S' = .objKey :: S0 := by
  rcases h with ⟨_, h⟩ | ⟨_, _, h, _⟩
  · simpa [afterValue] using h
  · simp at h

theorem post_objKey {S0 S' : List Ctx} {x : J} (h : post (.objKey :: S0) x S') :
    ∃ k, x = .atom (.str k) ∧ S' = .objVal :: S0 := by
  rcases h with ⟨h, _⟩ | ⟨S1, k, h1, h2, h3⟩
  · simp [valueAllowed] at h
  · simp only [List.cons.injEq, true_and] at h1; subst h1; exact ⟨k, h2, h3⟩

theorem sound_arr (f : Nat) (ih : Sound f) (S0 : List Ctx) (ts : List GTok) (acc : List J)
    (hv : (decRun (.arr :: S0) ts).isSome = true) :
    hArr (f + 1) ts acc ≠ .nilval ∧ (∀ rest, hArr (f + 1) ts acc ≠ .done rest) ∧
    (∀ v rest, hArr (f + 1) ts acc = .ok v rest →
      ∃ xs, ts = gtoksL xs ++ .rbrack :: rest ∧ v = .arr (JL.ofList (acc.reverse ++ (sortJL xs).toList)) ∧
        decRun (.arr :: S0) (gtoksL xs ++ [.rbrack]) = some (afterValue S0)) := by
  obtain ⟨n1, n2, n3⟩ := ih.next (.arr :: S0) ts hv
  rw [hArr_step]
  cases hn : hNext f ts with
  | err => simp
  | nilval => exact absurd hn n1
  | done rest =>
    obtain ⟨c, S', e1, e2, e3⟩ := n3 rest hn
    obtain ⟨rfl, rfl⟩ := closer_arr e2 e3
    refine ⟨by simp, by simp, ?_⟩
    intro v rest' h
    simp only [R.ok.injEq] at h
    obtain ⟨h1, h2⟩ := h
    subst h1 h2
    exact ⟨.nil, by simp [gtoksL, e1], by simp [sortJL, JL.toList], by simp [gtoksL, decRun, decStep]⟩
  | ok v rest =>
    obtain ⟨x, S', e1, e2, e3, e4⟩ := n2 v rest hn
    have hS := post_arr e4
    subst hS
    have hv2 : (decRun (.arr :: S0) rest).isSome = true := decRun_append_some (by rw [← e1]; exact hv) e3
    obtain ⟨a1, a2, a3⟩ := ih.arr S0 rest (v :: acc) hv2
    refine ⟨a1, a2, ?_⟩
    intro v' rest' h
    obtain ⟨xs, f1, f2, f3⟩ := a3 v' rest' h
    refine ⟨.cons x xs, ?_, ?_, ?_⟩
    · simp [gtoksL, e1, f1]
    · simp [f2, e2, sortJL, JL.toList]
    · simp only [gtoksL, List.append_assoc]
      rw [decRun_append, e3]; exact f3

theorem sound_attr (f : Nat) (ih : Sound f) (S0 : List Ctx) (ts : List GTok)
    (hv : (decRun (.objKey :: S0) ts).isSome = true) :
    hAttr (f + 1) ts ≠ .nilval ∧
    (∀ k v rest, hAttr (f + 1) ts = .ok (k, v) rest →
      ∃ x, ts = .val (.str k) :: (gtoks x ++ rest) ∧ v = sortJ x ∧
        decRun (.objKey :: S0) (.val (.str k) :: gtoks x) = some (.objKey :: S0)) ∧
    (∀ rest, hAttr (f + 1) ts = .done rest → ts = .rbrace :: rest) := by
  obtain ⟨n1, n2, n3⟩ := ih.next (.objKey :: S0) ts hv
  rw [hAttr_step]
  cases hn : hNext f ts with
  | err => simp
  | nilval => exact absurd hn n1
  | done rest =>
    obtain ⟨c, S', e1, e2, e3⟩ := n3 rest hn
    obtain ⟨rfl, rfl⟩ := closer_objKey e2 e3
    refine ⟨by simp, by simp, ?_⟩
    intro rest' h
    simp only [R.done.injEq] at h
    subst h; exact e1
  | ok kv rest =>
    obtain ⟨x, S', e1, e2, e3, e4⟩ := n2 kv rest hn
    obtain ⟨k, hx, hS⟩ := post_objKey e4
    subst hx hS
    simp only [sortJ] at e2
    subst e2
    simp only [gtoks, List.cons_append, List.nil_append] at e1 e3
    have hv2 : (decRun (.objVal :: S0) rest).isSome = true := by
      have := decRun_append_some (a := [.val (.str k)]) (b := rest) (by simpa [e1] using hv) e3
      exact this
    obtain ⟨m1, m2, m3⟩ := ih.next (.objVal :: S0) rest hv2
    simp only
    cases hm : hNext f rest with
    | err => simp
    | nilval => exact absurd hm m1
    | done r2 =>
      obtain ⟨c, S', g1, g2, g3⟩ := m3 r2 hm
      exact absurd (closer_objVal g2 g3) id
    | ok v r2 =>
      obtain ⟨y, S'', g1, g2, g3, g4⟩ := m2 v r2 hm
      have hS := post_objVal g4
      subst hS
      refine ⟨by simp, ?_, by simp⟩
      intro k' v' rest' h
      simp only [R.ok.injEq, Prod.mk.injEq] at h
      obtain ⟨⟨h1, h2⟩, h3⟩ := h
      subst h1 h2 h3
      refine ⟨y, by simp [e1, g1], g2, ?_⟩
      have : (GTok.val (Atom.str k) :: gtoks y) = [GTok.val (Atom.str k)] ++ gtoks y := rfl
      rw [this, decRun_append, e3]; exact g3

theorem sound_obj (f : Nat) (ih : Sound f) (S0 : List Ctx) (ts : List GTok) (acc : List (Str × J))
    (hv : (decRun (.objKey :: S0) ts).isSome = true) :
    hObj (f + 1) ts acc ≠ .nilval ∧ (∀ rest, hObj (f + 1) ts acc ≠ .done rest) ∧
    (∀ v rest, hObj (f + 1) ts acc = .ok v rest →
      ∃ kvs, ts = gtoksK kvs ++ .rbrace :: rest ∧
        v = .obj (sortK (KL.ofList (acc.reverse ++ (sortJK kvs).toList))) ∧
        decRun (.objKey :: S0) (gtoksK kvs ++ [.rbrace]) = some (afterValue S0)) := by
  obtain ⟨t1, t2, t3⟩ := ih.attr S0 ts hv
  rw [hObj_step]
  cases hn : hAttr f ts with
  | err => simp
  | nilval => exact absurd hn t1
  | done rest =>
    have e1 := t3 rest hn
    refine ⟨by simp, by simp, ?_⟩
    intro v rest' h
    simp only [R.ok.injEq] at h
    obtain ⟨h1, h2⟩ := h
    subst h1 h2
    exact ⟨.nil, by simp [gtoksK, e1], by simp [sortJK, KL.toList], by simp [gtoksK, decRun, decStep]⟩
  | ok kv rest =>
    obtain ⟨k, v⟩ := kv
    obtain ⟨x, e1, e2, e3⟩ := t2 k v rest hn
    have hv2 : (decRun (.objKey :: S0) rest).isSome = true := by
      have : ts = (GTok.val (Atom.str k) :: gtoks x) ++ rest := by simp [e1]
      exact decRun_append_some (by rw [← this]; exact hv) e3
    obtain ⟨a1, a2, a3⟩ := ih.obj S0 rest ((k, v) :: acc) hv2
    refine ⟨a1, a2, ?_⟩
    intro v' rest' h
    obtain ⟨kvs, f1, f2, f3⟩ := a3 v' rest' h
    refine ⟨.cons k x kvs, ?_, ?_, ?_⟩
    · simp [gtoksK, e1, f1]
    · simp [f2, e2, sortJK, KL.toList]
    · have : gtoksK (.cons k x kvs) ++ [GTok.rbrace] =
          (GTok.val (Atom.str k) :: gtoks x) ++ (gtoksK kvs ++ [GTok.rbrace]) := by simp [gtoksK]
      rw [this, decRun_append, e3]; exact f3

theorem sound_all : ∀ f, Sound f
  | 0 => sound_zero
  | f + 1 =>
    have ih := sound_all f
    ⟨sound_next f ih, sound_arr f ih, sound_obj f ih, sound_attr f ih⟩

/-- on a token sequence the decoder can emit, UnmarshalJSON succeeds exactly when
    the sequence is the tokens of one value and the input ends there; it never
    builds a tree containing a nil value -/
theorem unmarshal_total (ts : List GTok) (eof : Bool) (hv : decValid ts = true) :
    (∀ t, unmarshal ts eof = .ok t ↔ (eof = true ∧ ∃ x, ts = gtoks x ∧ t = sortJ x)) ∧
    unmarshal ts eof ≠ .nilval := by
  obtain ⟨n1, n2, n3⟩ := (sound_all (2 * ts.length + 4)).next [] ts hv
  constructor
  · intro t
    constructor
    · intro h
      unfold unmarshal at h
      cases hn : hNext (2 * ts.length + 4) ts with
      | err => simp [hn] at h
      | nilval => simp [hn] at h
      | done rest => simp [hn] at h
      | ok v rest =>
        simp only [hn] at h
        split at h
        · rename_i hc
          simp only [Bool.and_eq_true, List.isEmpty_iff] at hc
          simp only [Outcome.ok.injEq] at h
          obtain ⟨x, S', e1, e2, _, _⟩ := n2 v rest hn
          exact ⟨hc.2, x, by simp [e1, hc.1], by rw [← h, e2]⟩
        · simp at h
    · rintro ⟨he, x, rfl, rfl⟩
      subst he
      exact unmarshal_gtoks x
  · unfold unmarshal
    cases hn : hNext (2 * ts.length + 4) ts with
    | err => simp
    | nilval => exact absurd hn n1
    | done rest => simp
    | ok v rest => simp only; split <;> simp

/-! ## raw tokens: tokenToValue and the number beyond float64 -/

theorem tokenToValue_none (l : Lit) : tokenToValue l = none ↔ l = .over := by
  cases l <;> simp [tokenToValue]

theorem tokenToValue_litOf (a : Atom) : tokenToValue (litOf a) = some a := by
  cases a <;> rfl

theorem cook_bad (t : RTok) : cook t = .bad ↔ t = .lit .over := by
  cases t with
  | lit l => cases l <;> simp [cook, tokenToValue]
  | _ => simp [cook]

theorem cook_injective (a b : RTok) (h : cook a = cook b) : a = b := by
  cases a with
  | lit l =>
    cases b with
    | lit l' => cases l <;> cases l' <;> simp_all [cook, tokenToValue]
    | _ => cases l <;> simp [cook, tokenToValue] at h
  | _ =>
    cases b with
    | lit l' => cases l' <;> simp [cook, tokenToValue] at h
    | _ => simp_all [cook]

theorem map_cook_injective : ∀ a b : List RTok, a.map cook = b.map cook → a = b
  | [], [], _ => rfl
  | [], _ :: _, h => by simp at h
  | _ :: _, [], h => by simp at h
  | x :: a, y :: b, h => by
    simp only [List.map_cons, List.cons.injEq] at h
    rw [cook_injective x y h.1, map_cook_injective a b h.2]

mutual
theorem cook_rtoks : ∀ v : J, (rtoks v).map cook = gtoks v
  | .atom a => by simp [rtoks, gtoks, cook, tokenToValue_litOf]
  | .arr xs => by simp [rtoks, gtoks, cook, cook_rtoksL xs]
  | .obj kvs => by simp [rtoks, gtoks, cook, cook_rtoksK kvs]
theorem cook_rtoksL : ∀ xs : JL, (rtoksL xs).map cook = gtoksL xs
  | .nil => rfl
  | .cons x xs => by simp [rtoksL, gtoksL, cook_rtoks x, cook_rtoksL xs]
theorem cook_rtoksK : ∀ kvs : KL, (rtoksK kvs).map cook = gtoksK kvs
  | .nil => rfl
  | .cons k v r => by simp [rtoksK, gtoksK, cook, tokenToValue, cook_rtoks v, cook_rtoksK r]
end

mutual
theorem bad_not_mem_gtoks : ∀ v : J, GTok.bad ∉ gtoks v
  | .atom a => by simp [gtoks]
  | .arr xs => by simp [gtoks, bad_not_mem_gtoksL xs]
  | .obj kvs => by simp [gtoks, bad_not_mem_gtoksK kvs]
theorem bad_not_mem_gtoksL : ∀ xs : JL, GTok.bad ∉ gtoksL xs
  | .nil => by simp [gtoksL]
  | .cons x xs => by simp [gtoksL, bad_not_mem_gtoks x, bad_not_mem_gtoksL xs]
theorem bad_not_mem_gtoksK : ∀ kvs : KL, GTok.bad ∉ gtoksK kvs
  | .nil => by simp [gtoksK]
  | .cons k v r => by simp [gtoksK, bad_not_mem_gtoks v, bad_not_mem_gtoksK r]
end

theorem over_not_mem_rtoks (v : J) : RTok.lit .over ∉ rtoks v := by
  intro h
  have : cook (.lit .over) ∈ (rtoks v).map cook := List.mem_map_of_mem h
  rw [cook_rtoks] at this
  exact bad_not_mem_gtoks v this

/-- a token sequence (one the decoder can emit) on which tokenToValue fails somewhere is an error -/
theorem unmarshal_bad (ts : List GTok) (eof : Bool) (hv : decValid ts = true) (hb : GTok.bad ∈ ts) :
    unmarshal ts eof = .err := by
  obtain ⟨h1, h2⟩ := unmarshal_total ts eof hv
  cases hu : unmarshal ts eof with
  | err => rfl
  | nilval => exact absurd hu h2
  | ok t =>
    obtain ⟨_, x, rfl, _⟩ := (h1 t).mp hu
    exact absurd hb (bad_not_mem_gtoks x)

/-- CanonicalJSON on raw decoder tokens: accepted exactly when they are the tokens of one
    complete value followed by the end of input (and every surviving string is a sequence of
    scalar values, which is always so for what the decoder yields) -/
theorem canonRaw_total (ts : List RTok) (eof : Bool) (hv : decValid (ts.map cook) = true) :
    (∀ cs, canonRaw ts eof = .ok cs ↔ (eof = true ∧ ∃ x, ts = rtoks x ∧ canonChars x = some cs)) ∧
    canonRaw ts eof ≠ .nilval := by
  obtain ⟨h1, h2⟩ := unmarshal_total (ts.map cook) eof hv
  unfold canonRaw canonTokens
  constructor
  · intro cs
    constructor
    · intro h
      cases hu : unmarshal (ts.map cook) eof with
      | err => simp [hu] at h
      | nilval => simp [hu] at h
      | ok t =>
        obtain ⟨he, x, hx, ht⟩ := (h1 t).mp hu
        refine ⟨he, x, map_cook_injective _ _ (by rw [hx, cook_rtoks]), ?_⟩
        simp only [hu] at h
        unfold canonChars
        rw [← ht]
        cases hm : marshalJ t with
        | none => simp [hm] at h
        | some c => simp only [hm, Outcome.ok.injEq] at h; rw [h]
    · rintro ⟨he, x, rfl, hc⟩
      subst he
      rw [cook_rtoks, unmarshal_gtoks]
      unfold canonChars at hc
      simp [hc]
  · cases hu : unmarshal (ts.map cook) eof with
    | err => simp
    | nilval => exact absurd hu h2
    | ok t => simp only; split <;> simp

end GoblVerif.Proofs.C14n
